package goldilocks_test

// Demonstrates (C05/C09/C10): goldilocks.FromBytes accepts over-long input and encodings with junk in
// the low 7 bits of the last byte (both then re-serialise to different bytes), and
// Point.UnmarshalBinary dereferences a nil point when decoding fails.
// Place in /repo/ecc/goldilocks: go test -run TestFindingFromBytes ./ecc/goldilocks/

import (
	"bytes"
	"testing"

	"github.com/cloudflare/circl/ecc/goldilocks"
)

func TestFindingFromBytes(t *testing.T) {
	G := goldilocks.Curve{}.Generator()
	enc, _ := G.MarshalBinary()
	if P, err := goldilocks.FromBytes(append(append([]byte{}, enc...), 1, 2)); err == nil {
		out, _ := P.MarshalBinary()
		t.Errorf("over-long (%d bytes) encoding accepted; re-serialises to %d bytes", len(enc)+2, len(out))
	}
	junk := append([]byte{}, enc...)
	junk[56] |= 0x55
	if P, err := goldilocks.FromBytes(junk); err == nil {
		out, _ := P.MarshalBinary()
		if !bytes.Equal(out, junk) {
			t.Errorf("encoding with junk low bits in last byte accepted and re-serialises differently")
		}
	}
	func() {
		defer func() {
			if r := recover(); r != nil {
				t.Errorf("Point.UnmarshalBinary panics on invalid input: %v", r)
			}
		}()
		var P goldilocks.Point
		if err := P.UnmarshalBinary(make([]byte, 3)); err == nil {
			t.Errorf("short input accepted")
		}
	}()
}
