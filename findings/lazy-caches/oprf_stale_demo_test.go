package oprf_test

import (
	"testing"

	"github.com/cloudflare/circl/oprf"
)

// decoding into a used key must not keep the old public key
func TestFindingStalePublic(t *testing.T) {
	a, _ := oprf.DeriveKey(oprf.SuiteP256, oprf.VerifiableMode, []byte("seed seed seed seed seed seed 32"), []byte("a"))
	b, _ := oprf.DeriveKey(oprf.SuiteP256, oprf.VerifiableMode, []byte("seed seed seed seed seed seed 32"), []byte("b"))
	pa, _ := a.Public().MarshalBinary()
	raw, _ := b.MarshalBinary()
	if err := a.UnmarshalBinary(oprf.SuiteP256, raw); err != nil {
		t.Fatal(err)
	}
	pa2, _ := a.Public().MarshalBinary()
	pb, _ := b.Public().MarshalBinary()
	if string(pa2) != string(pb) || string(pa2) == string(pa) {
		t.Errorf("after UnmarshalBinary into a used key, Public() still returns the old public key")
	}
}
