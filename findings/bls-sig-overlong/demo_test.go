package bls_test

import (
	"testing"

	"github.com/cloudflare/circl/sign/bls"
)

func TestFindingBLSOverlong(t *testing.T) {
	ikm := make([]byte, 32)
	sk, err := bls.KeyGen[bls.G1](ikm, nil, nil)
	if err != nil {
		t.Fatal(err)
	}
	pk := sk.PublicKey()
	msg := []byte("m")
	sig := bls.Sign(sk, msg)
	if !bls.Verify(pk, msg, sig) {
		t.Fatal("honest rejected")
	}
	long := append(append([]byte{}, sig...), 7)
	if bls.Verify(pk, msg, long) {
		t.Error("Verify accepted signature||junk")
	}
	if bls.VerifyAggregate([]*bls.PublicKey[bls.G1]{pk}, [][]byte{msg}, long) {
		t.Error("VerifyAggregate accepted signature||junk")
	}
	pkb, _ := pk.MarshalBinary()
	var pk2 bls.PublicKey[bls.G1]
	if pk2.UnmarshalBinary(append(pkb, 9)) == nil {
		t.Error("public key || junk accepted")
	}
}
