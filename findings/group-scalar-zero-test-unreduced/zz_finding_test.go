package group_test

import (
	"testing"

	"github.com/cloudflare/circl/group"
)

// The NIST-curve scalar decoder accepts the encoding of the group order N (a
// recorded finding, pinned by the repository's tests). The value it yields is
// zero - every multiplication by it gives the identity - so IsZero has to say
// so: oprf's zero-blind guard relies on it. (IsEqual deliberately stays a
// comparison of encodings: zk/dleq relies on it to refuse a challenge c
// replaced by c+N, which the decoder accepts.)
func TestFindingScalarZeroTestUnreduced(t *testing.T) {
	for _, g := range []group.Group{group.P256, group.P384, group.P521} {
		order := g.Params().ScalarLength
		// N = 0 - 1 + 1: take the encoding of -1 and add one to the integer.
		minusOne := g.NewScalar().Neg(g.NewScalar().SetUint64(1))
		enc, _ := minusOne.MarshalBinary()
		for i := int(order) - 1; i >= 0; i-- {
			enc[i]++
			if enc[i] != 0 {
				break
			}
		}
		s := g.NewScalar()
		if err := s.UnmarshalBinary(enc); err != nil {
			continue // the order itself is refused: nothing to show
		}
		if !g.NewElement().MulGen(s).IsIdentity() {
			t.Fatalf("%v: [N]G is not the identity", g)
		}
		if !s.IsZero() {
			t.Errorf("%v: the scalar decoded from the encoding of N multiplies every point to the identity, but IsZero() is false", g)
		}
	}
}
