package main

import (
	"fmt"
	"go/token"
	"go/types"
	"regexp"
	"sort"
	"strings"

	"golang.org/x/tools/go/ssa"
)

func init() { registry["C11"] = checkC11 }

var mutatorName = regexp.MustCompile(`^(Unmarshal|Unpack|Set|Import|Generate|From|Read|Reset|Write|Clone|Init|Derive|Random|Hash|Encode|Add|Sub|Mul|Neg|Inv|Dbl|Double|CMov|CSelect|Cswap|Cmov|New|Copy|Normalize|ToAffine|Absorb|Switch|Permute|String$)`)

func checkC11(c *Ctx) {
	p := c.Prog("amd64")
	if p == nil {
		return
	}
	c.Clauses = append(c.Clauses,
		"C11.nosharedwrite: read-only operations of key, scheme and suite types (Public, Equal, Marshal*, Sign, Verify, Encapsulate*, Decapsulate*, Scheme …) perform no unsynchronised write to memory reachable from their receiver or from package-level variables (necessary for race-free concurrent use; finds memoising accessors)",
		"C11.noglobalalias: accessors and constructors return no slice or pointer into package-level data or into crypto/elliptic's shared curve parameters",
		"C11.operands: API operations write none of their non-receiver pointer operands (except declared outputs)",
		"C11.overwrite: decoders assign every receiver field they define on every accepting path and never read-modify-write old contents",
		"C11.retain: a decoder keeps no sub-slice of its byte-slice input in the decoded object (directly, or through golang.org/x/crypto/cryptobyte's aliasing readers) unless it re-binds the field to a private copy before returning: otherwise later results depend on later writes to the caller's buffer, and in-place updates of the object write into it",
		"C11.append: the built-in append is applied to (a view of) a slice parameter only in append-style functions (name starts with append/Append, or hash.Hash's Sum): elsewhere it may write into the caller's buffer beyond its length; the result of appending to a slice held in a field is stored back into that field",
		"C11.innerptr: no method or constructor stores the address of a field of one key object into another object it hands out (a public key pointing into the private key changes when the private key is re-decoded in place)",
		"C11.sharedptr / reader / noglobalwrite: an exported accessor hands out a pointer kept in its receiver only if the pointee type has no receiver-writing method; a function handed an io.Reader uses it; no exported function writes a package-level variable outside initialisation and sync.Once",
		"C11.fresh: a decoder writes through a pointer held in a field of its receiver only after assigning that field itself on every path, so it cannot overwrite an object shared with another value")
	c.NotDec = append(c.NotDec, "replay equivalence over call histories", "absence of data races in general (only the no-write-on-read-path condition)", "goroutine interleavings")

	mod := p.Mod()
	// ---- KEYTYPES ----
	var ifaces []*types.Interface
	for _, n := range [][2]string{{"kem", "PrivateKey"}, {"kem", "PublicKey"}, {"kem", "Scheme"}, {"sign", "PrivateKey"}, {"sign", "PublicKey"}, {"sign", "Scheme"}} {
		if i := p.iface(n[0], n[1]); i != nil {
			ifaces = append(ifaces, i)
		}
	}
	keyTypes := map[string]*types.Named{}
	for _, i := range ifaces {
		for _, n := range p.implementers(i) {
			keyTypes[n.String()] = n
		}
	}
	for _, extra := range [][2]string{{"oprf", "PrivateKey"}, {"oprf", "PublicKey"}, {"tss/rsa", "KeyShare"}, {"hpke", "Suite"}, {"dh/csidh", "PrivateKey"}, {"dh/csidh", "PublicKey"},
		{"sign/bls", "PrivateKey"}, {"sign/bls", "PublicKey"}, {"blindsign/blindrsa", "Client"}, {"blindsign/blindrsa", "Verifier"}, {"blindsign/blindrsa", "Signer"},
		{"oprf", "Client"}, {"oprf", "VerifiableClient"}, {"oprf", "PartialObliviousClient"}, {"oprf", "Server"}, {"oprf", "VerifiableServer"}, {"oprf", "PartialObliviousServer"},
		{"abe/cpabe/tkn20", "PublicKey"}, {"abe/cpabe/tkn20", "SystemSecretKey"}, {"abe/cpabe/tkn20", "AttributeKey"},
		{"blindsign/blindrsa/partiallyblindrsa", "randomizedVerifier"}, {"blindsign/blindrsa/partiallyblindrsa", "Signer"}, {"blindsign/blindrsa/partiallyblindrsa", "VerifierState"}} {
		if pk := p.ByPath[circlPath+"/"+extra[0]]; pk != nil {
			if tn, ok := pk.Types.Scope().Lookup(extra[1]).(*types.TypeName); ok {
				if n, ok := tn.Type().(*types.Named); ok {
					keyTypes[n.String()] = n
				}
			}
		}
	}
	var names []string
	for k := range keyTypes {
		names = append(names, k)
	}
	sort.Strings(names)
	c.count("key_types", len(names))
	if len(names) < 60 {
		c.undecided("C11.nosharedwrite", "KEYTYPES", fmt.Sprintf("only %d key/scheme types enumerated (floor 60)", len(names)), "")
	}
	nm := 0
	for _, k := range names {
		n := keyTypes[k]
		for _, f := range p.methodsOf(n) {
			name := f.Name()
			if mutatorName.MatchString(name) || f.Blocks == nil || !f.Object().Exported() {
				continue
			}
			nm++
			var bad []string
			for _, w := range mod.of(f) {
				if w.Sync {
					continue
				}
				if w.Root == "param#0" || strings.HasPrefix(w.Root, "global:") {
					if strings.HasPrefix(w.Root, "global:") && strings.Contains(w.Root, "init$guard") {
						continue
					}
					bad = append(bad, fmt.Sprintf("%s written at %s (%s)", w.Root, p.pos(w.Pos), w.Via))
				}
			}
			construct := fname(f) + ": read-only operation writes no shared state"
			if len(bad) > 0 {
				sort.Strings(bad)
				if len(bad) > 3 {
					bad = append(bad[:3], fmt.Sprintf("… %d more", len(bad)-3))
				}
				c.bad("C11.nosharedwrite", construct, strings.Join(bad, "; "), p.fnPos(f))
			} else {
				c.ok("C11.nosharedwrite", construct, "mod-set contains neither the receiver nor a package-level variable", p.fnPos(f))
			}
		}
	}
	c.count("read_methods", nm)
	checkC11Alias(c, p)
	checkC11Operands(c, p)
	checkC11Overwrite(c, p)
	checkDecodeFresh(c, p)
	checkReturnAlias(c, p)
	checkCacheReset(c, p, "C11.overwrite", nil)
	checkOptionalFields(c, p, "C11.overwrite", nil)
	checkClearBeforeCopy(c, p, "C11.overwrite", "ecc/goldilocks", "Scalar", "FromBytes")
	checkC11Fresh(c, p)
	checkC11Retain(c, p)
	checkC11Append(c, p)
	checkC11InnerPtr(c, p)
	checkC11SharedPtr(c, p)
	checkC11Reader(c, p)
	checkC11GlobalWrite(c, p)
	checkC11OutputDefined(c, p)
	checkC11ShareField(c, p)
	checkC11ArrayView(c, p)
}

// sharedSource: v is (derived from) a package-level variable or crypto/elliptic's shared CurveParams.
func sharedSource(p *Program, v ssa.Value) string {
	base, _ := memRoot(v)
	switch b := base.(type) {
	case *ssa.Global:
		if b.Pkg != nil && isCirclPath(b.Pkg.Pkg.Path()) {
			return "package-level variable " + short(b.String())
		}
	case *ssa.Call:
		n := p.staticCalleeName(&b.Call)
		if n == "invoke (crypto/elliptic.Curve).Params" || strings.HasSuffix(n, ").Params") && strings.Contains(n, "crypto/elliptic") {
			return "crypto/elliptic's shared CurveParams"
		}
	}
	return ""
}

func mutableRefType(t types.Type) bool {
	switch u := t.Underlying().(type) {
	case *types.Slice:
		return true
	case *types.Pointer:
		if n, ok := u.Elem().(*types.Named); ok && n.Obj().Pkg() != nil && n.Obj().Pkg().Path() == "math/big" {
			return true
		}
		if _, ok := u.Elem().Underlying().(*types.Array); ok {
			return true
		}
	case *types.Map:
		return true
	}
	return false
}

// checkC11Alias: exported functions and methods of non-internal packages return no slice, map,
// *big.Int or array pointer that aliases shared data, directly or stored in a returned fresh object.
func checkC11Alias(c *Ctx, p *Program) {
	nf := 0
	var funcs []*ssa.Function
	for f := range p.AllFuncs {
		if f.Blocks == nil || !isCirclFunc(f) || f.Object() == nil || !f.Object().Exported() || f.Synthetic != "" {
			continue
		}
		if strings.Contains(funcPkgPath(f), "/internal") || f.Signature.Results().Len() == 0 {
			continue
		}
		funcs = append(funcs, f)
	}
	sort.Slice(funcs, func(i, j int) bool { return funcs[i].String() < funcs[j].String() })
	var bad []string
	for _, f := range funcs {
		nf++
		// fresh objects returned by f
		returned := map[ssa.Value]bool{}
		for _, b := range f.Blocks {
			for _, in := range b.Instrs {
				r, ok := in.(*ssa.Return)
				if !ok {
					continue
				}
				for _, v := range r.Results {
					if mutableRefType(v.Type()) {
						if src := sharedSource(p, v); src != "" {
							bad = append(bad, fmt.Sprintf("%s: %s returns %s (%s) without copying", p.pos(r.Pos()), fname(f), descVal(v), src))
						}
					}
					base, _ := memRoot(v)
					returned[base] = true
				}
			}
		}
		for _, b := range f.Blocks {
			for _, in := range b.Instrs {
				st, ok := in.(*ssa.Store)
				if !ok || !mutableRefType(st.Val.Type()) {
					continue
				}
				src := sharedSource(p, st.Val)
				if src == "" {
					continue
				}
				base, _ := memRoot(st.Addr)
				if a, ok := base.(*ssa.Alloc); ok && a.Heap && returned[a] {
					bad = append(bad, fmt.Sprintf("%s: %s stores %s (%s) in the object it returns", p.pos(st.Pos()), fname(f), descVal(st.Val), src))
				}
			}
		}
	}
	c.count("accessor_functions", nf)
	sort.Strings(bad)
	bad = uniq(bad)
	if nf < 500 {
		c.undecided("C11.noglobalalias", "exported functions", fmt.Sprintf("only %d exported functions enumerated", nf), "")
	}
	if len(bad) == 0 {
		c.ok("C11.noglobalalias", "exported functions and methods return no alias of shared data", fmt.Sprintf("%d functions inspected", nf), "")
		return
	}
	for _, b := range bad {
		i := strings.Index(b, ": ")
		c.bad("C11.noglobalalias", b[i+2:], "returned value aliases shared data", b[:i])
	}
}

var outputParam = regexp.MustCompile(`^(dst|out|output|buf|b|ct|ss|sig|signature|shared|to|result|res|z|c|r|pk|sk|public|secret|key|k|data|digest|sum|p|q|e|m|x|y|w|v|s|state|st|a|t\d*|h|hint|h0|tab|table|ret|pub|priv|enc|dec|proof|tk|rnd|rand|random|seed|xof|reader|rd|nonce|plaintext|ciphertext|msg|dest)$`)

// checkC11Operands: protocol-level API operations do not write their non-receiver operands.
func checkC11Operands(c *Ctx, p *Program) {
	mod := p.Mod()
	pkgs := []string{"oprf", "zk/dleq", "zk/dl", "zk/qndleq", "secretsharing", "math/polynomial", "tss/rsa", "hpke", "sign/bls", "blindsign/blindrsa", "blindsign/blindrsa/partiallyblindrsa", "abe/cpabe/tkn20", "ot/simot", "kem/hybrid", "kem/xwing", "dh/csidh", "dh/curve4q", "dh/x25519", "dh/x448", "ecc/fourq", "ecc/bls12381", "group", "vdaf/prio3/internal/prio3"}
	// declared outputs, by (function, parameter name)
	declared := map[string]bool{
		"dh/csidh.GeneratePublicKey#pub":  true, // documented: pub receives the generated key
		"dh/csidh.GeneratePrivateKey#key": true,
		"dh/csidh.DeriveSecret#out":       true,
		"(*ecc/fourq.Point).Marshal#out":  true, // documented: the encoding is written to out
		"dh/curve4q.Shared#shared":        true, // the DH functions write their first argument
		"dh/curve4q.KeyGen#public":        true,
		"dh/x25519.Shared#shared":         true,
		"dh/x25519.KeyGen#public":         true,
		"dh/x448.Shared#shared":           true,
		"dh/x448.KeyGen#public":           true,
		"group.HashToField#u":             true, // documented: the elements u1..uN are written to u
	}
	n := 0
	for _, pkg := range pkgs {
		path := circlPath + "/" + pkg
		var funcs []*ssa.Function
		for f := range p.AllFuncs {
			if funcPkgPath(f) == path && f.Blocks != nil && f.Object() != nil && f.Object().Exported() && f.Synthetic == "" && f.Parent() == nil {
				funcs = append(funcs, f)
			}
		}
		sort.Slice(funcs, func(i, j int) bool { return funcs[i].String() < funcs[j].String() })
		for _, f := range funcs {
			first := 0
			if f.Signature.Recv() != nil {
				first = 1
			}
			n++
			var bad []string
			for _, w := range mod.of(f) {
				var i int
				if _, err := fmt.Sscanf(w.Root, "param#%d", &i); err != nil || i < first || i >= len(f.Params) {
					continue
				}
				par := f.Params[i]
				name := par.Name()
				// documented output conventions: "...To(ct, ss, ...)" style destinations, io.Writer-like, hash states
				if strings.HasSuffix(f.Name(), "To") && (name == "ct" || name == "ss" || name == "sig" || name == "signature" || name == "dst" || name == "out") {
					continue
				}
				if declared[fname(f)+"#"+name] {
					continue
				}
				if regexp.MustCompile(`^(Pack|Marshal|Encode|Export|Read|Fill|Write|Bytes|Serialize|Append)`).MatchString(f.Name()) {
					if _, isSlice := par.Type().Underlying().(*types.Slice); isSlice {
						continue // the byte-slice argument of a Pack/Export/Read-style method is its output
					}
				}
				bad = append(bad, fmt.Sprintf("operand %s written at %s (%s)", name, p.pos(w.Pos), w.Via))
			}
			construct := fname(f) + ": operands other than the receiver are not written"
			if len(bad) > 0 {
				sort.Strings(bad)
				if len(bad) > 3 {
					bad = append(bad[:3], fmt.Sprintf("… %d more", len(bad)-3))
				}
				c.bad("C11.operands", construct, strings.Join(bad, "; "), p.fnPos(f))
			} else {
				c.ok("C11.operands", construct, "mod-set contains no non-receiver parameter", p.fnPos(f))
			}
		}
	}
	c.count("operand_functions", n)
}

// checkC11Overwrite: decoders assign every field they define on every accepting path, and do not
// combine the decoded value with the old contents.
func checkC11Overwrite(c *Ctx, p *Program) {
	type dec struct{ pkg, typ, name string }
	decs := []dec{{"tss/rsa", "KeyShare", "UnmarshalBinary"}, {"tss/rsa", "SignShare", "UnmarshalBinary"}, {"dh/csidh", "PublicKey", "Import"}, {"dh/csidh", "PrivateKey", "Import"},
		{"oprf", "PrivateKey", "UnmarshalBinary"}, {"oprf", "PublicKey", "UnmarshalBinary"}, {"sign/bls", "PrivateKey", "UnmarshalBinary"},
		{"group", "wElt", "UnmarshalBinary"}, {"group", "wScl", "UnmarshalBinary"}, {"zk/dleq", "Proof", "UnmarshalBinary"}}
	for _, d := range decs {
		f := p.Func(d.pkg, d.typ, d.name)
		what := d.pkg + "." + d.typ + "." + d.name
		if f == nil {
			c.undecided("C11.overwrite", what, "anchor does not resolve", "")
			continue
		}
		// (a) read-modify-write of receiver memory
		var rmw []string
		for _, b := range f.Blocks {
			for _, in := range b.Instrs {
				st, ok := in.(*ssa.Store)
				if !ok || sharedRoot(f, st.Addr) != "param#0" {
					continue
				}
				if bo, ok := st.Val.(*ssa.BinOp); ok {
					ad := descAddr(st.Addr)
					for _, o := range []ssa.Value{bo.X, bo.Y} {
						if descVal(o) != ad {
							continue
						}
						// accepted when a call that (re)initialises the receiver dominates the update
						reset := false
						for _, bb := range f.Blocks {
							for _, in2 := range bb.Instrs {
								ci, ok := in2.(ssa.CallInstruction)
								if !ok || !instrDominates(in2, in) {
									continue
								}
								cal := ci.Common().StaticCallee()
								if cal == nil || !inlinable(cal) || len(ci.Common().Args) == 0 {
									continue
								}
								if sharedRoot(f, ci.Common().Args[0]) != "param#0" {
									continue
								}
								for _, w := range p.Mod().of(cal) {
									if w.Root == "param#0" {
										reset = true
									}
								}
							}
						}
						if !reset {
							rmw = append(rmw, fmt.Sprintf("%s: %s %s= …", p.pos(st.Pos()), ad, bo.Op))
						}
					}
				}
			}
		}
		if len(rmw) > 0 {
			c.bad("C11.overwrite", fname(f)+": decoded value replaces, not combines with, old contents", strings.Join(rmw, "; "), p.fnPos(f))
		} else {
			c.ok("C11.overwrite", fname(f)+": decoded value replaces, not combines with, old contents", "no read-modify-write of receiver memory", p.fnPos(f))
		}
		// (b) every receiver field that is assigned somewhere is assigned on every path to every accepting exit
		// (forward must-analysis; an in-place write through the field's pointer counts as assigning it)
		assignsIn := map[int]map[string]bool{}
		fields := map[string]bool{}
		note := func(b int, name string) {
			if assignsIn[b] == nil {
				assignsIn[b] = map[string]bool{}
			}
			assignsIn[b][name] = true
			fields[name] = true
		}
		for _, b := range f.Blocks {
			for _, in := range b.Instrs {
				switch x := in.(type) {
				case *ssa.Store:
					if fa, ok := x.Addr.(*ssa.FieldAddr); ok {
						if par, ok := fa.X.(*ssa.Parameter); ok && par == f.Params[0] {
							note(b.Index, fieldName(fa))
						}
					}
				case ssa.CallInstruction:
					c0 := x.Common()
					var args []ssa.Value
					if c0.IsInvoke() {
						args = append(args, c0.Value)
					}
					args = append(args, c0.Args...)
					for _, i := range externalWrites(p.staticCalleeName(c0), len(args)) {
						if i < len(args) {
							d := descVal(args[i])
							if strings.HasPrefix(d, "param#0.") && !strings.ContainsAny(d[len("param#0."):], ".[") {
								note(b.Index, d[len("param#0."):])
							}
						}
					}
				}
			}
		}
		// must-assigned at block exit
		all := map[string]bool{}
		for k := range fields {
			all[k] = true
		}
		out := make([]map[string]bool, len(f.Blocks))
		for i := range out {
			out[i] = all // optimistic start, refined below
		}
		changed := true
		for changed {
			changed = false
			for _, b := range f.Blocks {
				in := map[string]bool{}
				if len(b.Preds) > 0 {
					for k := range all {
						ok := true
						for _, pr := range b.Preds {
							if !out[pr.Index][k] {
								ok = false
							}
						}
						if ok {
							in[k] = true
						}
					}
				}
				for k := range assignsIn[b.Index] {
					in[k] = true
				}
				if len(in) != len(out[b.Index]) {
					out[b.Index] = in
					changed = true
				}
			}
		}
		succ := succAuto(f)
		r := runGuard(&GuardQuery{P: p, Root: f, MaxDepth: 1})
		var stale []string
		for _, ri := range r.Returns {
			if !succ.may(ri.Vals) {
				continue
			}
			for name := range fields {
				if !out[ri.Instr.Block().Index][name] {
					stale = append(stale, fmt.Sprintf("field %s not assigned on some path to the accepting exit at %s", name, p.pos(ri.Instr.Pos())))
				}
			}
		}
		sort.Strings(stale)
		if len(stale) > 0 {
			c.bad("C11.overwrite", fname(f)+": every decoded field is assigned on every accepting path", strings.Join(stale, "; "), p.fnPos(f))
		} else {
			c.ok("C11.overwrite", fname(f)+": every decoded field is assigned on every accepting path", fmt.Sprintf("%d field(s)", len(fields)), p.fnPos(f))
		}
	}
}

var c11DecoderName = regexp.MustCompile(`^(Unmarshal|Unpack|Import|SetBytes|FromBytes|FromMap|FromString)`)

// checkC11Fresh: a decoder writes through a pointer stored in a field of its receiver only after it
// has assigned that field itself (on every path): otherwise the write lands in an object that may be
// shared with other values (e.g. the expanded public key a private key keeps a pointer to).
func checkC11Fresh(c *Ctx, p *Program) {
	n := 0
	var fs []*ssa.Function
	for f := range p.AllFuncs {
		if f.Blocks != nil && isCirclFunc(f) && f.Signature.Recv() != nil && c11DecoderName.MatchString(f.Name()) && len(f.Params) > 0 && f.Synthetic == "" {
			fs = append(fs, f)
		}
	}
	sort.Slice(fs, func(i, j int) bool { return fs[i].String() < fs[j].String() })
	for _, f := range fs {
		lc := newLenCtx(p, f)
		for _, b := range f.Blocks {
			for _, in := range b.Instrs {
				// an update of a map kept in a field of the receiver: the loader merges into whatever the
				// object held before unless it has put a fresh map there first
				if mu, ok := in.(*ssa.MapUpdate); ok {
					if ld, ok := mu.Map.(*ssa.UnOp); ok && ld.Op == token.MUL {
						if fa, ok := ld.X.(*ssa.FieldAddr); ok && paramRoot(f, fa.X) == 0 {
							n++
							construct := fmt.Sprintf("%s: entries are added to the map in field %s", fname(f), fieldName(fa))
							if lc.forwarded(ld) != nil {
								c.ok("C11.fresh", construct, "the field is assigned a fresh map by this loader on every path before the update", p.pos(in.Pos()))
							} else {
								c.bad("C11.fresh", construct, "the map was not (unconditionally) assigned by this loader: the entries of an earlier load stay in it", p.pos(in.Pos()))
							}
						}
					}
					continue
				}
				ci, ok := in.(ssa.CallInstruction)
				if !ok {
					continue
				}
				cc := ci.Common()
				cal := cc.StaticCallee()
				if cal == nil {
					continue
				}
				// a standard-library writer (math/big receivers, copy targets ...): the summary table says which
				// arguments it writes
				var extW map[int]bool
				if !inlinable(cal) {
					// only for exported receiver types: their values can be copied by callers, so two values may hold
					// the same pointer; an unexported type handled by pointer only keeps "one owner per pointee"
					if !exportedRecv(f) {
						continue
					}
					extW = map[int]bool{}
					for _, i := range externalWrites(p.staticCalleeName(cc), len(cc.Args)) {
						extW[i] = true
					}
					if len(extW) == 0 {
						continue
					}
				}
				for i, a := range cc.Args {
					ld, ok := a.(*ssa.UnOp)
					if !ok || ld.Op != token.MUL {
						continue
					}
					fa, ok := ld.X.(*ssa.FieldAddr)
					if !ok || paramRoot(f, fa.X) != 0 {
						continue
					}
					if _, isPtr := ld.Type().Underlying().(*types.Pointer); !isPtr {
						continue
					}
					writes := false
					if extW != nil {
						writes = extW[i]
					} else {
						for _, w := range p.Mod().of(cal) {
							if w.Root == fmt.Sprintf("param#%d", i) {
								writes = true
							}
						}
					}
					if !writes {
						continue
					}
					n++
					construct := fmt.Sprintf("%s: %s writes through %s", fname(f), fname(cal), descVal(a))
					if lc.forwarded(ld) != nil {
						c.ok("C11.fresh", construct, "the field is assigned by this decoder on every path before the write", p.pos(in.Pos()))
					} else {
						c.bad("C11.fresh", construct, "the pointer was not (unconditionally) assigned by this decoder: the write may land in an object shared with another value", p.pos(in.Pos()))
					}
				}
			}
		}
	}
	c.count("decoder_pointer_writes", n)
	if n < 25 {
		c.undecided("C11.fresh", "decoders writing through receiver pointer fields", fmt.Sprintf("only %d sites found (floor 25)", n), "")
	}
}

// aliasing readers of golang.org/x/crypto/cryptobyte: *out aliases the String's backing array
func cryptobyteAliasOut(name string) bool {
	return strings.HasSuffix(name, "cryptobyte.String).ReadBytes")
}

// checkC11Retain: decoders copy what they keep.
func checkC11Retain(c *Ctx, p *Program) {
	n := 0
	var fs []*ssa.Function
	for f := range p.AllFuncs {
		if f.Blocks == nil || !isCirclFunc(f) || f.Synthetic != "" || f.Parent() != nil {
			continue
		}
		nm := f.Name()
		if !(strings.HasPrefix(nm, "Unmarshal") || strings.HasPrefix(nm, "unmarshal") || strings.HasPrefix(nm, "Unpack") || strings.HasPrefix(nm, "Import") || strings.HasPrefix(nm, "SetBytes") || strings.HasPrefix(nm, "FromBytes")) {
			continue
		}
		hasBytes := false
		for _, q := range f.Params {
			if untrustedParam(q.Type()) || strings.HasSuffix(q.Type().String(), "cryptobyte.String") {
				hasBytes = true
			}
		}
		if hasBytes {
			fs = append(fs, f)
		}
	}
	sort.Slice(fs, func(i, j int) bool { return fs[i].String() < fs[j].String() })
	for _, f := range fs {
		n++
		// fields that end up holding an alias of the input: field address -> where
		type kept struct {
			fa  *ssa.FieldAddr
			pos token.Pos
			how string
		}
		var keeps []kept
		var selfAlias []string
		for _, b := range f.Blocks {
			for _, in := range b.Instrs {
				switch x := in.(type) {
				case *ssa.Store:
					fa, ok := x.Addr.(*ssa.FieldAddr)
					if !ok {
						continue
					}
					if _, isSlice := x.Val.Type().Underlying().(*types.Slice); !isSlice {
						continue // string conversions copy
					}
					if rp := sliceRootParam(x.Val); rp != nil {
						keeps = append(keeps, kept{fa, x.Pos(), "stores " + descVal(x.Val)})
					}
				case *ssa.Call:
					if cryptobyteAliasOut(p.staticCalleeName(&x.Call)) && len(x.Call.Args) >= 2 {
						if fa, ok := x.Call.Args[1].(*ssa.FieldAddr); ok {
							keeps = append(keeps, kept{fa, x.Pos(), "cryptobyte ReadBytes leaves an alias of the parsed buffer"})
						}
						// the receiver itself is the slice (type T []byte): nothing can re-bind it afterwards
						out := x.Call.Args[1]
						for {
							if ct, ok := out.(*ssa.ChangeType); ok {
								out = ct.X
								continue
							}
							if cv, ok := out.(*ssa.Convert); ok {
								out = cv.X
								continue
							}
							break
						}
						if par, ok := out.(*ssa.Parameter); ok && len(f.Params) > 0 && par == f.Params[0] && f.Signature.Recv() != nil {
							selfAlias = append(selfAlias, p.pos(x.Pos())+": the decoded slice is left pointing into the parsed buffer (cryptobyte ReadBytes makes no copy)")
						}
					}
				}
			}
		}
		bad := append([]string{}, selfAlias...)
		// the decoded object handed back is not the input buffer itself under another type
		// (`return PublicKey(buf), nil`)
		for _, b := range f.Blocks {
			ret, ok := b.Instrs[len(b.Instrs)-1].(*ssa.Return)
			if !ok {
				continue
			}
			for _, rv := range ret.Results {
				v := rv
				for i := 0; i < 8; i++ {
					switch x := v.(type) {
					case *ssa.MakeInterface:
						v = x.X
						continue
					case *ssa.ChangeType:
						v = x.X
						continue
					case *ssa.Convert:
						if _, isSlice := x.X.Type().Underlying().(*types.Slice); isSlice {
							v = x.X
							continue
						}
					case *ssa.Slice:
						v = x.X
						continue
					}
					break
				}
				if par, ok := v.(*ssa.Parameter); ok {
					if _, isSlice := par.Type().Underlying().(*types.Slice); isSlice && untrustedParam(par.Type()) {
						if _, isSliceRes := rv.Type().Underlying().(*types.Slice); isSliceRes || types.IsInterface(rv.Type()) {
							if rv != ssa.Value(par) {
								bad = append(bad, p.pos(ret.Pos())+": the returned object is the input buffer "+par.Name()+" under another type (no copy is made)")
							}
						}
					}
				}
			}
		}
		for _, k := range keeps {
			// re-bound to a private copy later on every path to a return? (a dominating-later store of a
			// copy of the field itself: approximated by "some store of a self-copy to the same field
			// post-dominates": the copy store must be in a block that every Return's block is dominated by
			// or equal to)
			fixed := false
			for _, b := range f.Blocks {
				for _, in := range b.Instrs {
					st, ok := in.(*ssa.Store)
					if !ok {
						continue
					}
					fa2, ok := st.Addr.(*ssa.FieldAddr)
					if !ok || fa2.Field != k.fa.Field || descAddr(fa2) != descAddr(k.fa) {
						continue
					}
					// re-bound to something that is not a view of the input (a copy, a fresh buffer)
					if sliceRootParam(st.Val) != nil {
						continue
					}
					// every successful return is dominated by the copy
					all := true
					for _, rb := range f.Blocks {
						ret, isRet := rb.Instrs[len(rb.Instrs)-1].(*ssa.Return)
						if !isRet {
							continue
						}
						// returns of a nil object (error paths) are irrelevant
						if len(ret.Results) > 0 {
							if kst, isK := ret.Results[0].(*ssa.Const); isK && kst.Value == nil {
								continue
							}
						}
						if !instrDominates(st, ret) {
							all = false
						}
					}
					if all {
						fixed = true
					}
				}
			}
			if !fixed {
				bad = append(bad, fmt.Sprintf("%s: field %s (%s)", p.pos(k.pos), fieldName(k.fa), k.how))
			}
		}
		construct := fname(f) + ": keeps no alias of its input"
		if len(bad) > 0 {
			c.bad("C11.retain", construct, strings.Join(bad, "; "), p.fnPos(f))
		} else if len(keeps) > 0 {
			c.ok("C11.retain", construct, fmt.Sprintf("%d field(s) parsed in place are re-bound to private copies before returning", len(keeps)), p.fnPos(f))
		} else {
			c.ok("C11.retain", construct, "no sub-slice of a parameter is stored in a field", p.fnPos(f))
		}
	}
	c.count("retain_decoders", n)
	if n < 100 {
		c.undecided("C11.retain", "decoders", fmt.Sprintf("only %d decoders enumerated (floor 100)", n), "")
	}
}

// sliceRootParam: v is a re-slicing (no copying conversion) of a slice parameter.
func sliceRootParam(v ssa.Value) *ssa.Parameter {
	for i := 0; i < 16; i++ {
		switch x := v.(type) {
		case *ssa.Parameter:
			if _, ok := x.Type().Underlying().(*types.Slice); ok {
				return x
			}
			return nil
		case *ssa.Slice:
			v = x.X
		case *ssa.ChangeType:
			v = x.X
		default:
			return nil
		}
	}
	return nil
}

var appendStyle = regexp.MustCompile(`^(append|Append)|^Sum$`)

// checkC11Append: append(param, ...) writes into the spare capacity of the caller's slice.
func checkC11Append(c *Ctx, p *Program) {
	n := 0
	var fs []*ssa.Function
	for f := range p.AllFuncs {
		if f.Blocks != nil && isCirclFunc(f) && f.Synthetic == "" {
			fs = append(fs, f)
		}
	}
	sort.Slice(fs, func(i, j int) bool { return fs[i].String() < fs[j].String() })
	total, nf := 0, 0
	for _, f := range fs {
		for _, b := range f.Blocks {
			for _, in := range b.Instrs {
				call, ok := in.(*ssa.Call)
				if !ok {
					continue
				}
				bi, ok := call.Call.Value.(*ssa.Builtin)
				if !ok || bi.Name() != "append" || len(call.Call.Args) < 1 {
					continue
				}
				total++
				// a slice held in a field: the appended result must go back into that field (the owner
				// extends its own buffer); handing it elsewhere lets later appends write into the spare
				// capacity of a buffer the field may share with the caller
				{
					// the destination, looking through re-slicing and phis: a load of a field?
					var fieldLoad func(v ssa.Value, depth int) *ssa.UnOp
					fieldLoad = func(v ssa.Value, depth int) *ssa.UnOp {
						if depth > 6 {
							return nil
						}
						switch x := v.(type) {
						case *ssa.Slice:
							return fieldLoad(x.X, depth+1)
						case *ssa.Phi:
							for _, e := range x.Edges {
								if r := fieldLoad(e, depth+1); r != nil {
									return r
								}
							}
						case *ssa.UnOp:
							if x.Op == token.MUL {
								if _, ok := x.X.(*ssa.FieldAddr); ok {
									return x
								}
							}
						}
						return nil
					}
					if ld := fieldLoad(call.Call.Args[0], 0); ld != nil {
						if fa, ok := ld.X.(*ssa.FieldAddr); ok {
							nf++
							back := false
							for _, r := range *call.Referrers() {
								if st, ok := r.(*ssa.Store); ok {
									if fa2, ok := st.Addr.(*ssa.FieldAddr); ok && fa2.Field == fa.Field && descAddr(fa2) == descAddr(fa) {
										back = true
									}
								}
							}
							construct := fmt.Sprintf("%s: append(%s, …) goes back into the field", fname(f), descVal(call.Call.Args[0]))
							if back {
								c.ok("C11.append", construct, "stored back into the same field", p.pos(call.Pos()))
							} else {
								c.bad("C11.append", construct, "the result of appending to a field-held slice is used elsewhere: a later append may overwrite the spare capacity of a buffer the field shares with the caller", p.pos(call.Pos()))
							}
							continue
						}
					}
				}
				rp := sliceRootParam(call.Call.Args[0])
				if rp == nil {
					continue
				}
				n++
				construct := fmt.Sprintf("%s: append(%s, …)", fname(f), descVal(call.Call.Args[0]))
				root := f
				for root.Parent() != nil {
					root = root.Parent()
				}
				if appendStyle.MatchString(root.Name()) {
					c.ok("C11.append", construct, "append-style function: the caller passes the destination and receives the result", p.pos(call.Pos()))
				} else {
					c.bad("C11.append", construct, fmt.Sprintf("appends to the caller's slice %s: when it has spare capacity the bytes after its length are overwritten in the caller's buffer", rp.Name()), p.pos(call.Pos()))
				}
			}
		}
	}
	c.count("append_calls", total)
	c.count("append_to_parameter", n)
	c.count("append_to_field", nf)
	if total < 150 {
		c.undecided("C11.append", "append calls", fmt.Sprintf("only %d append calls enumerated (floor 150)", total), "")
	} else if n == 0 {
		c.ok("C11.append", "append calls", fmt.Sprintf("%d append calls, none to a parameter", total), "")
	}
}

// checkC11InnerPtr: an object handed out must not hold the address of a field of the receiver (or of
// another freshly built object that is returned alongside): the two objects would share mutable state.
func checkC11InnerPtr(c *Ctx, p *Program) {
	var fs []*ssa.Function
	for f := range p.AllFuncs {
		if f.Blocks != nil && isCirclFunc(f) && sourceFunc(f) && f.Parent() == nil {
			fs = append(fs, f)
		}
	}
	sort.Slice(fs, func(i, j int) bool { return fs[i].String() < fs[j].String() })
	n, nbad := 0, 0
	for _, f := range fs {
		// objects this function hands out
		returned := map[*ssa.Alloc]bool{}
		for _, b := range f.Blocks {
			if ret, ok := b.Instrs[len(b.Instrs)-1].(*ssa.Return); ok {
				for _, r := range ret.Results {
					v := r
					if mi, ok := v.(*ssa.MakeInterface); ok {
						v = mi.X
					}
					if u, ok := v.(*ssa.UnOp); ok && u.Op == token.MUL {
						v = u.X
					}
					if a, ok := v.(*ssa.Alloc); ok {
						returned[a] = true
					}
				}
			}
		}
		if len(returned) == 0 {
			continue
		}
		for _, b := range f.Blocks {
			for _, in := range b.Instrs {
				st, ok := in.(*ssa.Store)
				if !ok {
					continue
				}
				// one returned object keeps a pointer to another returned object whose type can be modified
				// in place (a private key pointing at the public key object that is handed out with it)
				if other, ok := st.Val.(*ssa.Alloc); ok && returned[other] {
					if dst, _ := memRoot(st.Addr); dst != nil {
						if dAlloc, ok := dst.(*ssa.Alloc); ok && returned[dAlloc] && dAlloc != other {
							var muts []string
							ms := p.SSA.MethodSets.MethodSet(other.Type())
							for i := 0; i < ms.Len(); i++ {
								m := p.SSA.MethodValue(ms.At(i))
								if m == nil || m.Blocks == nil || !ms.At(i).Obj().Exported() {
									continue
								}
								for _, w := range p.Mod().of(m) {
									if w.Root == "param#0" && !w.Sync {
										muts = append(muts, m.Name())
										break
									}
								}
							}
							if len(muts) > 0 {
								sort.Strings(muts)
								n++
								nbad++
								c.bad("C11.innerptr", fmt.Sprintf("%s: %s receives a pointer to another object returned by this function (%s)", fname(f), descAddr(st.Addr), other.Comment),
									fmt.Sprintf("the two objects handed out share storage: %v of the pointee write it in place", muts), p.pos(st.Pos()))
							}
						}
					}
					continue
				}
				fa, ok := st.Val.(*ssa.FieldAddr)
				if !ok {
					continue
				}
				dst, _ := memRoot(st.Addr)
				dAlloc, ok := dst.(*ssa.Alloc)
				if !ok || !returned[dAlloc] {
					continue
				}
				src, _ := memRoot(fa.X)
				shared := ""
				switch s := src.(type) {
				case *ssa.Parameter:
					if f.Signature.Recv() != nil && len(f.Params) > 0 && s == f.Params[0] {
						shared = "the receiver"
					}
				case *ssa.Alloc:
					if s != dAlloc && returned[s] {
						shared = "another object returned by this function (" + s.Comment + ")"
					}
				}
				if shared == "" {
					continue
				}
				// only addresses of array / struct typed fields matter (shared mutable storage)
				switch fa.Type().(*types.Pointer).Elem().Underlying().(type) {
				case *types.Array, *types.Struct:
				default:
					continue
				}
				n++
				nbad++
				c.bad("C11.innerptr", fmt.Sprintf("%s: %s receives the address of field %s of %s", fname(f), descAddr(st.Addr), fieldName(fa), shared),
					"the two objects share this storage: re-decoding or modifying one changes the other", p.pos(st.Pos()))
			}
		}
	}
	c.count("innerptr_sites", n)
	if nbad == 0 {
		c.ok("C11.innerptr", "objects handed out hold no address of another key object's fields", fmt.Sprintf("%d functions inspected", len(fs)), "")
	}
}

// isReceiverVal: v is the receiver of f, possibly reloaded from the cell it was spilled to.
func isReceiverVal(f *ssa.Function, v ssa.Value) bool {
	if f.Signature.Recv() == nil || len(f.Params) == 0 {
		return false
	}
	if v == ssa.Value(f.Params[0]) {
		return true
	}
	ld, ok := v.(*ssa.UnOp)
	if !ok || ld.Op != token.MUL {
		return false
	}
	a, ok := ld.X.(*ssa.Alloc)
	if !ok {
		return false
	}
	n := 0
	for _, r := range *a.Referrers() {
		if st, ok := r.(*ssa.Store); ok && st.Addr == ssa.Value(a) {
			n++
			if st.Val != ssa.Value(f.Params[0]) {
				return false
			}
		}
	}
	return n == 1
}

// checkC11SharedPtr: an exported accessor that hands out the very pointer it keeps in a field of its
// receiver must return a type that has no method writing its receiver: otherwise modifying (re-decoding)
// the returned object changes what later calls on the receiver return.
func checkC11SharedPtr(c *Ctx, p *Program) {
	mod := p.Mod()
	var fs []*ssa.Function
	for f := range p.AllFuncs {
		if f.Blocks != nil && isCirclFunc(f) && sourceFunc(f) && f.Parent() == nil && f.Signature.Recv() != nil && exportedName(f) {
			fs = append(fs, f)
		}
	}
	sort.Slice(fs, func(i, j int) bool { return fs[i].String() < fs[j].String() })
	n, nbad := 0, 0
	for _, f := range fs {
		for _, b := range f.Blocks {
			ret, ok := b.Instrs[len(b.Instrs)-1].(*ssa.Return)
			if !ok {
				continue
			}
			for _, r := range ret.Results {
				v := r
				if mi, ok := v.(*ssa.MakeInterface); ok {
					v = mi.X
				}
				ld, ok := v.(*ssa.UnOp)
				if !ok || ld.Op != token.MUL {
					continue
				}
				fa, ok := ld.X.(*ssa.FieldAddr)
				if !ok || !isReceiverVal(f, fa.X) {
					continue
				}
				pt, ok := ld.Type().Underlying().(*types.Pointer)
				if !ok {
					continue
				}
				nt, ok := pt.Elem().(*types.Named)
				if !ok || nt.Obj().Pkg() == nil || !strings.HasPrefix(nt.Obj().Pkg().Path(), circlPath) {
					continue
				}
				n++
				var muts []string
				ms := p.SSA.MethodSets.MethodSet(ld.Type())
				for i := 0; i < ms.Len(); i++ {
					m := p.SSA.MethodValue(ms.At(i))
					if m == nil {
						// a method of a generic type that is not instantiated here: use the generic body
						if fo, ok := ms.At(i).Obj().(*types.Func); ok {
							m = p.SSA.FuncValue(fo.Origin())
						}
					}
					if m == nil || m.Blocks == nil {
						continue
					}
					for _, w := range mod.of(m) {
						if w.Root == "param#0" && !w.Sync {
							muts = append(muts, m.Name())
							break
						}
					}
				}
				sort.Strings(muts)
				construct := fmt.Sprintf("%s: the pointer kept in field %s is handed out only if *%s has no method writing its receiver", fname(f), fieldName(fa), nt.Obj().Name())
				if len(muts) > 0 {
					nbad++
					c.bad("C11.sharedptr", construct, fmt.Sprintf("the returned object is the receiver's own; its methods %v write it, so modifying the returned object changes the receiver", muts), p.pos(ret.Pos()))
				} else {
					c.ok("C11.sharedptr", construct, "no method of the returned type writes its receiver", p.pos(ret.Pos()))
				}
			}
		}
	}
	c.count("sharedptr_accessors", n)
	if nbad == 0 && n == 0 {
		c.ok("C11.sharedptr", "exported accessors hand out no pointer kept in a receiver field", fmt.Sprintf("%d methods inspected", len(fs)), "")
	}
}

// checkC11Reader: a function that is handed an io.Reader as its source of randomness draws from it;
// one that ignores the argument takes its randomness from somewhere the caller did not pass in (a
// process-global source), so its result does not depend on its explicit arguments only.
func checkC11Reader(c *Ctx, p *Program) {
	// deterministic signature schemes implement crypto.Signer, whose Sign has a rand argument they must ignore
	deterministic := regexp.MustCompile(`^\(\*?sign/(dilithium/mode[235]|mldsa/mldsa(44|65|87)|ed25519|ed448|eddilithium[23])\.PrivateKey\)\.Sign$`)
	var fs []*ssa.Function
	for f := range p.AllFuncs {
		if f.Blocks != nil && isCirclFunc(f) && sourceFunc(f) && f.Parent() == nil {
			fs = append(fs, f)
		}
	}
	sort.Slice(fs, func(i, j int) bool { return fs[i].String() < fs[j].String() })
	n, nbad, nexc := 0, 0, 0
	for _, f := range fs {
		for _, par := range f.Params {
			if par.Type().String() != "io.Reader" {
				continue
			}
			n++
			if len(*par.Referrers()) > 0 {
				continue
			}
			if deterministic.MatchString(fname(f)) {
				nexc++
				continue
			}
			nbad++
			c.bad("C11.reader", fname(f)+": the io.Reader argument is the source of the randomness used", "the argument is never read: the randomness comes from a source that is not an argument of the call", p.fnPos(f))
		}
	}
	// ... and it is the only source: the process-wide generator is read only as the documented default of a
	// nil argument (the load then meets the parameter in a phi or is stored over it)
	for _, f := range fs {
		var par *ssa.Parameter
		for _, q := range f.Params {
			if q.Type().String() == "io.Reader" {
				par = q
			}
		}
		if par == nil {
			continue
		}
		for _, b := range f.Blocks {
			for _, in := range b.Instrs {
				ld, ok := in.(*ssa.UnOp)
				if !ok || ld.Op != token.MUL {
					continue
				}
				g, ok := ld.X.(*ssa.Global)
				if !ok || g.Pkg == nil || g.Pkg.Pkg.Path() != "crypto/rand" || g.Name() != "Reader" {
					continue
				}
				isDefault := false
				for _, r := range *ld.Referrers() {
					switch x := r.(type) {
					case *ssa.Phi:
						for _, e := range x.Edges {
							if e == par {
								isDefault = true
							}
						}
					case *ssa.Store:
						if a, ok := x.Addr.(*ssa.Alloc); ok {
							for _, r2 := range *a.Referrers() {
								if st, ok := r2.(*ssa.Store); ok && st.Val == par {
									isDefault = true
								}
							}
						}
					}
				}
				if !isDefault {
					nbad++
					c.bad("C11.reader", fname(f)+": the io.Reader argument is the only source of the randomness used", "crypto/rand.Reader is read although the caller passed a reader (not as the default of a nil argument)", p.pos(ld.Pos()))
				}
			}
		}
	}
	c.count("reader_params", n)
	if n < 60 {
		c.undecided("C11.reader", "functions with an io.Reader parameter", fmt.Sprintf("only %d found (floor 60)", n), "")
	}
	if nbad == 0 {
		c.ok("C11.reader", "every function handed an io.Reader uses it as its source of randomness", fmt.Sprintf("%d parameters inspected; %d belong to crypto.Signer.Sign of deterministic schemes, which must ignore it", n, nexc), "")
	}
}

// checkC11GlobalWrite: outside package initialisation no exported function writes a package-level
// variable without synchronisation (precomputed tables and parameters are shared by all callers).
func checkC11GlobalWrite(c *Ctx, p *Program) {
	exceptions := map[string]string{
		"dh/sidh/internal/common.Register": "called only from the init functions of the parameter packages",
	}
	mod := p.Mod()
	var fs []*ssa.Function
	for f := range p.AllFuncs {
		// instances of generic functions are inspected as well: only there are the callees on type parameters
		// resolved
		if f.Blocks == nil || !isCirclFunc(f) || (f.Synthetic != "" && !strings.HasPrefix(f.Synthetic, "instance of")) || f.Parent() != nil || f.Name() == "init" || strings.HasPrefix(f.Name(), "init#") {
			continue
		}
		if f.Object() == nil || !f.Object().Exported() {
			continue
		}
		fs = append(fs, f)
	}
	sort.Slice(fs, func(i, j int) bool { return fs[i].String() < fs[j].String() })
	nbad := 0
	for _, f := range fs {
		var ws []string
		for _, w := range mod.of(f) {
			if strings.HasPrefix(w.Root, "global:") && !w.Sync && !strings.Contains(w.Root, "init$guard") {
				ws = append(ws, fmt.Sprintf("%s written at %s (%s)", strings.TrimPrefix(w.Root, "global:"), p.pos(w.Pos), w.Via))
			}
		}
		if len(ws) == 0 {
			continue
		}
		construct := fname(f) + ": writes no package-level variable"
		if why, ok := exceptions[fname(f)]; ok {
			c.ok("C11.noglobalwrite", construct, "exception: "+why, p.fnPos(f))
			continue
		}
		nbad++
		sort.Strings(ws)
		if len(ws) > 3 {
			ws = append(ws[:3], fmt.Sprintf("… %d more", len(ws)-3))
		}
		c.bad("C11.noglobalwrite", construct, strings.Join(ws, "; "), p.fnPos(f))
	}
	c.count("globalwrite_functions", len(fs))
	if len(fs) < 1000 {
		c.undecided("C11.noglobalwrite", "exported functions", fmt.Sprintf("only %d enumerated (floor 1000)", len(fs)), "")
	}
	if nbad == 0 {
		c.ok("C11.noglobalwrite", "no exported function writes a package-level variable outside initialisation and sync.Once", fmt.Sprintf("%d exported functions and methods inspected (mod-sets through circl callees, assembly routines write their destination argument)", len(fs)), "")
	}
}

// checkC11OutputDefined: a function that generates into a caller-supplied object (a declared output)
// gives the same result for a used object as for a fresh one: every field of the output that the
// function reads is first assigned by an instruction that does not read it (a reset, a plain store),
// and that instruction dominates all the readers.
func checkC11OutputDefined(c *Ctx, p *Program) {
	type out struct {
		pkg, name string
		idx       int
	}
	// (GeneratePrivateKey zeroes its output element by element in a loop: that needs an argument about
	// the whole range of the loop and is not decided here)
	for _, o := range []out{{"dh/csidh", "GeneratePublicKey", 0}} {
		f := p.Func(o.pkg, "", o.name)
		what := fmt.Sprintf("%s.%s: the output object (parameter %d) is defined before it is read", o.pkg, o.name, o.idx)
		if f == nil || o.idx >= len(f.Params) {
			c.undecided("C11.outputdefined", what, "anchor does not resolve", "")
			continue
		}
		par := f.Params[o.idx]
		whole := fieldsUsed(p, f, o.idx)
		if len(whole.reads) == 0 {
			c.ok("C11.outputdefined", what, fmt.Sprintf("no field of %s is read (fields written: %v)", par.Name(), keysOf(whole.write)), p.fnPos(f))
			continue
		}
		// per instruction of f: which fields of the output it reads / purely writes
		type acc struct {
			in     ssa.Instruction
			reads  map[string]bool
			writes map[string]bool
		}
		var accs []acc
		u0 := &fieldUse{p: p}
		for _, b := range f.Blocks {
			for _, in := range b.Instrs {
				switch x := in.(type) {
				case *ssa.FieldAddr:
					if !u0.isParamVal(f, par, x.X) {
						continue
					}
					u := &fieldUse{p: p, reads: map[string]bool{}, write: map[string]bool{}, seen: map[string]bool{}}
					rd, wr := u.classify(f, x, 0)
					a := acc{in: in, reads: map[string]bool{}, writes: map[string]bool{}}
					if rd {
						a.reads[fieldName(x)] = true
					}
					if wr {
						a.writes[fieldName(x)] = true
					}
					accs = append(accs, a)
				case ssa.CallInstruction:
					c0 := x.Common()
					var args []ssa.Value
					if c0.IsInvoke() {
						args = append(args, c0.Value)
					}
					args = append(args, c0.Args...)
					for j, a := range args {
						if !u0.isParamVal(f, par, a) {
							continue
						}
						cal := c0.StaticCallee()
						if cal == nil || cal.Blocks == nil {
							continue
						}
						fu := fieldsUsed(p, cal, j)
						accs = append(accs, acc{in: in, reads: fu.reads, writes: fu.write})
					}
				}
			}
		}
		var bad []string
		for n := range whole.reads {
			// a defining instruction: writes n without reading it
			var def ssa.Instruction
			for _, a := range accs {
				if a.writes[n] && !a.reads[n] {
					ok := true
					for _, r := range accs {
						if r.reads[n] && r.in != a.in && !instrDominates(a.in, r.in) {
							ok = false
						}
					}
					if ok {
						def = a.in
						break
					}
				}
			}
			if def == nil {
				var rs []string
				for _, r := range accs {
					if r.reads[n] {
						rs = append(rs, p.pos(r.in.Pos()))
					}
				}
				sort.Strings(rs)
				bad = append(bad, fmt.Sprintf("field %s of %s is read (%s) without having been assigned by this call first", n, par.Name(), strings.Join(uniq(rs), ", ")))
			}
		}
		sort.Strings(bad)
		if len(bad) > 0 {
			c.bad("C11.outputdefined", what, strings.Join(bad, "; "), p.fnPos(f))
		} else {
			c.ok("C11.outputdefined", what, fmt.Sprintf("fields read %v are each assigned first by an instruction that does not read them", keysOf(whole.reads)), p.fnPos(f))
		}
	}
}

// checkC11ShareField: a method never stores into a field of its receiver a slice, map or pointer it
// loaded from a field of another object (an operand, or an object obtained from one): the two objects
// would share mutable storage, so modifying one (in-place operations such as CMov) changes the other.
func checkC11ShareField(c *Ctx, p *Program) {
	var fs []*ssa.Function
	for f := range p.AllFuncs {
		if f.Blocks != nil && isCirclFunc(f) && sourceFunc(f) && f.Signature.Recv() != nil && f.Parent() == nil {
			fs = append(fs, f)
		}
	}
	sort.Slice(fs, func(i, j int) bool { return fs[i].String() < fs[j].String() })
	nbad, nst := 0, 0
	for _, f := range fs {
		for _, b := range f.Blocks {
			for _, in := range b.Instrs {
				st, ok := in.(*ssa.Store)
				if !ok || !mutableRefType(st.Val.Type()) {
					continue
				}
				fa, ok := st.Addr.(*ssa.FieldAddr)
				if !ok || !isReceiverVal(f, fa.X) {
					continue
				}
				nst++
				ld, ok := st.Val.(*ssa.UnOp)
				if !ok || ld.Op != token.MUL {
					continue
				}
				fa2, ok := ld.X.(*ssa.FieldAddr)
				if !ok || isReceiverVal(f, fa2.X) {
					continue
				}
				// a field of an object this function allocated itself is not shared with anybody else
				if base, _ := memRoot(fa2.X); base != nil {
					if a, isAlloc := base.(*ssa.Alloc); isAlloc && a.Heap {
						continue
					}
				}
				nbad++
				c.bad("C11.sharefield", fmt.Sprintf("%s: field %s of the receiver is not bound to storage owned by another object", fname(f), fieldName(fa)),
					fmt.Sprintf("receives %s without a copy: both objects now refer to the same backing storage", descVal(st.Val)), p.pos(st.Pos()))
			}
		}
	}
	c.count("sharefield_stores", nst)
	if nst < 50 {
		c.undecided("C11.sharefield", "stores of slices / pointers into receiver fields", fmt.Sprintf("only %d found (floor 50)", nst), "")
	}
	if nbad == 0 {
		c.ok("C11.sharefield", "no method binds a field of its receiver to storage loaded from another object's field", fmt.Sprintf("%d stores of slice / map / pointer values into receiver fields inspected", nst), "")
	}
}

// checkC11FullRead: a function that reads from an io.Reader it was handed examines how much it got:
// io.Reader.Read may return fewer bytes than asked for with a nil error, so a direct Read whose count
// is ignored silently works on a partly stale buffer (use io.ReadFull).
func checkFullRead(c *Ctx, p *Program, rule string, prefixes ...string) {
	var fs []*ssa.Function
	for f := range p.AllFuncs {
		if f.Blocks == nil || !isCirclFunc(f) || !sourceFunc(f) || f.Parent() != nil {
			continue
		}
		rel := strings.TrimPrefix(funcPkgPath(f), circlPath+"/")
		for _, pre := range prefixes {
			if rel == strings.TrimSuffix(pre, "/") || strings.HasPrefix(rel, strings.TrimSuffix(pre, "/")+"/") {
				fs = append(fs, f)
				break
			}
		}
	}
	sort.Slice(fs, func(i, j int) bool { return fs[i].String() < fs[j].String() })
	n, nbad := 0, 0
	seen := map[string]bool{}
	for _, f := range fs {
		for _, b := range f.Blocks {
			for _, in := range b.Instrs {
				ci, ok := in.(ssa.CallInstruction)
				if !ok || !ci.Common().IsInvoke() || ci.Common().Method.Name() != "Read" || ci.Common().Value.Type().String() != "io.Reader" {
					continue
				}
				// the reader is (rooted at) a parameter of type io.Reader: whatever the caller passed
				var par *ssa.Parameter
				switch x := ci.Common().Value.(type) {
				case *ssa.Parameter:
					par = x
				case *ssa.Phi: // rnd, or a default source when rnd is nil
					for _, e := range x.Edges {
						if q, ok := e.(*ssa.Parameter); ok {
							par = q
						}
					}
				}
				if par == nil {
					continue
				}
				n++
				used := false
				if v := ci.Value(); v != nil {
					for _, r := range *v.Referrers() {
						if ex, ok := r.(*ssa.Extract); ok && ex.Index == 0 && len(*ex.Referrers()) > 0 {
							used = true
						}
					}
				}
				if used {
					continue
				}
				construct := fname(f) + ": the byte count of a direct Read on the caller's reader " + par.Name() + " is examined"
				if seen[construct] {
					continue
				}
				seen[construct] = true
				nbad++
				c.bad(rule, construct, "the count returned by Read is ignored: a short read (allowed by io.Reader) leaves part of the buffer stale; io.ReadFull is not used", p.pos(ci.Pos()))
			}
		}
	}
	c.count("direct_reads_on_reader_params", n)
	if nbad == 0 {
		c.ok(rule, strings.Join(prefixes, ", ")+": every direct Read on a caller-supplied io.Reader has its byte count examined", fmt.Sprintf("%d functions inspected, %d direct reads on reader parameters (all other reads go through io.ReadFull)", len(fs), n), "")
	}
}

func init() {
	for prop, pres := range map[string][]string{"C01": {"kem/", "hpke"}, "C07": {"hpke"}, "C02": {"sign/"}} {
		prop, pres := prop, pres
		prev := registry[prop]
		registry[prop] = func(c *Ctx) {
			prev(c)
			if p := c.Prog("amd64"); p != nil {
				c.Clauses = append(c.Clauses, prop+".fullread: seeds and key material are taken from a caller-supplied io.Reader with io.ReadFull (or with the byte count examined): a short read must not silently yield a zero-padded seed")
				checkFullRead(c, p, prop+".fullread", pres...)
			}
		}
	}
}

// exportedName: the function (or, for an instantiation, the generic function it was made from) has an
// exported name.
func exportedName(f *ssa.Function) bool {
	if o := f.Object(); o != nil {
		return o.Exported()
	}
	if g := f.Origin(); g != nil && g.Object() != nil {
		return g.Object().Exported()
	}
	return false
}

// checkC11ArrayView: an array pointer converted from a slice aliases the slice. Storing it in a field is
// safe only when the slice is the object's own storage; otherwise the object keeps a window into somebody
// else's buffer (the caller's randomness): wiping or reusing that buffer afterwards changes the object.
func checkC11ArrayView(c *Ctx, p *Program) {
	var fs []*ssa.Function
	for f := range p.AllFuncs {
		if f.Blocks != nil && isCirclFunc(f) && f.Synthetic == "" && f.Parent() == nil {
			fs = append(fs, f) // generic bodies, not their instantiations
		}
	}
	sort.Slice(fs, func(i, j int) bool { return fs[i].String() < fs[j].String() })
	n, nbad := 0, 0
	for _, f := range fs {
		for _, b := range f.Blocks {
			for _, in := range b.Instrs {
				st, ok := in.(*ssa.Store)
				if !ok {
					continue
				}
				v := st.Val
				if ct, ok := v.(*ssa.ChangeType); ok {
					v = ct.X
				}
				s2, ok := v.(*ssa.SliceToArrayPointer)
				if !ok {
					continue
				}
				if _, ok := st.Addr.(*ssa.FieldAddr); !ok {
					continue
				}
				n++
				dst, _ := memRoot(st.Addr)
				src, _ := memRoot(s2.X)
				construct := fmt.Sprintf("%s: the array pointer stored in %s views storage of the same object", fname(f), descAddr(st.Addr))
				if dst != nil && dst == src {
					c.ok("C11.retain", construct, "the slice is part of the object that keeps the pointer", p.pos(st.Pos()))
					continue
				}
				nbad++
				c.bad("C11.retain", construct, "it points into "+descVal(s2.X)+": the object keeps a window into a buffer it does not own (no copy is made)", p.pos(st.Pos()))
			}
		}
	}
	c.count("array_view_stores", n)
	if n == 0 {
		c.ok("C11.retain", "no array pointer converted from a slice is kept in a field", "0 sites", "")
	}
}

// exportedRecv: the receiver of f is (a pointer to) an exported named type.
func exportedRecv(f *ssa.Function) bool {
	r := f.Signature.Recv()
	if r == nil {
		return false
	}
	t := r.Type()
	if pt, ok := t.(*types.Pointer); ok {
		t = pt.Elem()
	}
	n, ok := t.(*types.Named)
	return ok && n.Obj().Exported()
}
