package main

import (
	"fmt"
	"go/constant"
	"go/token"
	"sort"
	"strings"

	"golang.org/x/tools/go/ssa"
)

func init() { registry["C19"] = checkC19 }

// noZeroDivision: starting from constructor f with the given abstract arguments, no integer
// division or remainder whose divisor evaluates to the constant 0 is executable (in f or in the
// circl functions it reaches), and f cannot succeed.
func (c *Ctx) noZeroDivision(p *Program, rule, what string, f *ssa.Function, args map[string]lat) {
	if f == nil {
		c.undecided(rule, what, "anchor function does not resolve", "")
		return
	}
	construct := fname(f) + ": " + what
	q := &GuardQuery{P: p, Root: f}
	q.Args = make([]lat, len(f.Params))
	for i := range q.Args {
		q.Args[i] = latTop
	}
	for n, v := range args {
		i := paramIdx(f, n)
		if i < 0 {
			c.undecided(rule, construct, "parameter "+n+" does not exist", p.fnPos(f))
			return
		}
		q.Args[i] = v
	}
	var hits []string
	q.ObserveInstr = func(in *ssa.Function, instr ssa.Instruction, get func(ssa.Value) lat) {
		bo, ok := instr.(*ssa.BinOp)
		if !ok || (bo.Op != token.QUO && bo.Op != token.REM) {
			return
		}
		d := get(bo.Y)
		if d.k == kConst && d.c.Kind() == constant.Int && constant.Sign(d.c) == 0 {
			hits = append(hits, p.pos(bo.Pos())+" in "+fname(in))
		}
	}
	r := runGuard(q)
	succ := succAuto(f)
	var acc []string
	for _, ri := range r.Returns {
		if succ.may(ri.Vals) {
			acc = append(acc, p.pos(ri.Instr.Pos()))
		}
	}
	sort.Strings(hits)
	switch {
	case len(hits) > 0:
		c.bad(rule, construct, "division by the zero parameter is reachable (constructor panics): "+strings.Join(uniq(hits), ", "), p.fnPos(f))
	case len(acc) > 0:
		c.bad(rule, construct, "constructor can succeed: "+strings.Join(acc, ", "), p.fnPos(f))
	default:
		c.ok(rule, construct, "constructor returns an error before any division", p.fnPos(f))
	}
}

func checkC19(c *Ctx) {
	p := c.Prog("amd64")
	if p == nil {
		return
	}
	c.Clauses = append(c.Clauses,
		"C19.ctor: every Prio3 constructor returns an error (no reachable division by zero, no success) for a zero chunk length, for fewer than two aggregators, and when the field-size comparison fails",
		"C19.prep: preparation releases an output share only if every derivation step succeeded, the FLP decision passed, the joint-randomness seeds are both present and equal (decided for all four presence combinations), and the arguments are non-nil",
		"C19.bind: each aggregator's joint-randomness part is derived from its blind, its id, the nonce and its encoded measurement share",
		"C19.encode: out-of-range measurements are rejected by the encoders before indexing")
	c.NotDec = append(c.NotDec, "aggregate correctness", "FLP soundness and completeness", "marshal/unmarshal round trips (length handling is covered by C10)")

	pr := "vdaf/prio3/internal/prio3"
	// ---- constructors ----
	type ctor struct {
		pkg  string
		zero []string // parameters that must not be zero
	}
	for _, ct := range []ctor{{"vdaf/prio3/sumvec", []string{"chunkLength"}}, {"vdaf/prio3/histogram", []string{"chunkLen"}}, {"vdaf/prio3/mhcv", []string{"chunkLength", "length"}}} {
		f := p.Func(ct.pkg, "", "New")
		for _, z := range ct.zero {
			c.noZeroDivision(p, "C19.ctor", z+" = 0 is reported as an error", f, map[string]lat{z: latInt(0)})
		}
	}
	for _, pkg := range []string{"vdaf/prio3/count", "vdaf/prio3/sum", "vdaf/prio3/sumvec", "vdaf/prio3/histogram", "vdaf/prio3/mhcv"} {
		f := p.Func(pkg, "", "New")
		for _, n := range []int64{0, 1} {
			c.evalAcceptRule(p, "C19.ctor", fmt.Sprintf("numShares = %d is reported as an error", n), f, map[string]lat{"numShares": latInt(n)}, nil, false)
		}
		c.guard(p, "C19.ctor", "constructor fails if the generic Prio3 constructor fails", f, GuardSpec{Assumes: []Assume{calleeAssume(latNonNil, 1, pr+".New")}})
	}
	pnew := p.Func(pr, "", "New")
	c.evalAcceptRule(p, "C19.ctor", "generic constructor: numShares = 1 rejected", pnew, map[string]lat{"numShares": latInt(1)}, nil, false)
	c.guard(p, "C19.ctor", "generic constructor: XOF/context failure propagates", pnew, GuardSpec{Assumes: []Assume{calleeAssume(latNonNil, 1, pr+".NewXof")}})
	for _, t := range []struct{ pkg, fn, what string }{{"vdaf/prio3/sum", "newFlpSum", "maxMeasurement too large for the field"}, {"vdaf/prio3/mhcv", "newFlpMultiCountHotVec", "length/maxWeight too large for the field"}} {
		c.guard(p, "C19.ctor", t.what+" is reported as an error", p.Func(t.pkg, "", t.fn), GuardSpec{Assumes: []Assume{calleeAssume(latInt(0), -1, "(*math/big.Int).Cmp")}})
	}
	for _, pkg := range []string{"vdaf/prio3/sum", "vdaf/prio3/sumvec", "vdaf/prio3/mhcv"} {
		f := p.Func(pkg, "", "New")
		var inner []string
		switch pkg {
		case "vdaf/prio3/sum":
			inner = []string{pkg + ".newFlpSum"}
		case "vdaf/prio3/sumvec":
			inner = []string{pkg + ".newFlpSumVec"}
		default:
			inner = []string{pkg + ".newFlpMultiCountHotVec"}
		}
		c.guard(p, "C19.ctor", "constructor fails if the circuit parameters are rejected", f, GuardSpec{Assumes: []Assume{calleeAssume(latNonNil, 1, inner...)}})
	}
	c.evalAcceptRule(p, "C19.ctor", "sumvec: bits > 64 rejected", p.Func("vdaf/prio3/sumvec", "", "newFlpSumVec"), map[string]lat{"bits": latInt(65), "chunkLen": latInt(1)}, nil, false)
	c.evalAcceptRule(p, "C19.ctor", "mhcv: maxWeight > length rejected", p.Func("vdaf/prio3/mhcv", "", "newFlpMultiCountHotVec"), map[string]lat{"length": latInt(3), "maxWeight": latInt(4), "chunkLength": latInt(1)}, nil, false)

	// ---- preparation ----
	pi := p.Func(pr, "Prio3", "PrepInit")
	xof := "(*" + pr + ".xofTS)."
	for _, t := range []struct {
		what   string
		callee string
		idx    int
	}{
		{"input share must be present and expand", "(*" + pr + ".Prio3).getInputShareContent", 1},
		{"joint randomness part derivation must succeed", xof + "jointRandPart", -1},
		{"joint randomness seed derivation must succeed", xof + "jointRandSeed", 1},
		{"joint randomness expansion must succeed", xof + "jointRands", -1},
		{"query randomness derivation must succeed", xof + "queryRands", -1},
	} {
		c.guardEachSite(p, "C19.prep", "PrepInit: "+t.what, pi, t.idx, latNonNil, t.callee)
	}
	c.guard(p, "C19.prep", "PrepInit: FLP query failure is an error", pi, GuardSpec{Assumes: []Assume{Assume{Name: "flp.Query", Result: 1, Val: latNonNil,
		Match: func(_ ssa.CallInstruction, callee string, _ *ssa.Function) bool {
			return strings.HasSuffix(callee, ").Query")
		}}}})
	c.evalAcceptRule(p, "C19.prep", "PrepInit: aggregator id above the number of shares rejected", pi, map[string]lat{"aggID": latInt(3)},
		[]ValAssume{{Name: "v.shares", Match: fieldRead("shares"), Val: latInt(2)}}, false)
	c.evalAcceptRule(p, "C19.prep", "PrepInit: aggregator id equal to the number of shares rejected (ids are 0..shares-1)", pi, map[string]lat{"aggID": latInt(2)},
		[]ValAssume{{Name: "v.shares", Match: fieldRead("shares"), Val: latInt(2)}}, false)
	c.callArgRule(p, "C19.bind", "joint randomness part binds blind, aggregator id, nonce and the encoded measurement share", pi, xof+"jointRandPart", "",
		map[int]string{2: `.*\.blind`, 3: `param#3`, 4: `param#2`, 5: `call:.*MarshalBinary.*#0`})
	jrp := p.Func(pr, "xofTS", "jointRandPart")
	c.depRule(p, "C19.bind", "XOF output depends on blind, id, nonce and share", jrp, sinkParamPointee("out"), "param:blind", "param:aggID", "param:nonce", "param:measShareEnc")
	c.callArgRule(p, "C19.bind", "binder = id ‖ nonce ‖ encoded share", jrp, xof+"SetBinderBytes", "", map[int]string{1: `.*`})
	c.callArgRule(p, "C19.bind", "corrected seed is derived from the public share", pi, xof+"jointRandSeed", "", map[int]string{1: `param#4`})
	c.callArgRule(p, "C19.bind", "query randomness binds verify key and nonce", pi, xof+"queryRands", "", map[int]string{2: `param#1`, 3: `param#2`})

	ps := p.Func(pr, "Prio3", "PrepSharesToPrep")
	c.guard(p, "C19.prep", "preparation message only if the FLP decision passes", ps, GuardSpec{Assumes: []Assume{Assume{Name: "flp.Decide", Result: -1, Val: latFalse,
		Match: func(_ ssa.CallInstruction, callee string, _ *ssa.Function) bool {
			return strings.HasSuffix(callee, ").Decide")
		}}}})
	c.guardEachSite(p, "C19.prep", "joint randomness seed derivation must succeed", ps, 1, latNonNil, xof+"jointRandSeed")
	c.evalAcceptRule(p, "C19.prep", "PrepSharesToPrep: an empty list of preparation shares is rejected", ps, map[string]lat{"prepShares": latSliceLen(0)},
		[]ValAssume{{Name: "v.shares", Match: fieldRead("shares"), Val: latInt(2)}}, false)
	c.evalAcceptRule(p, "C19.prep", "PrepSharesToPrep: fewer preparation shares than aggregators are rejected", ps, map[string]lat{"prepShares": latSliceLen(1)},
		[]ValAssume{{Name: "v.shares", Match: fieldRead("shares"), Val: latInt(2)}}, false)

	pn := p.Func(pr, "Prio3", "PrepNext")
	jr, cs := fieldRead("joinRand"), fieldRead("correctedJointRandSeed")
	cmp := "crypto/subtle.ConstantTimeCompare"
	for _, t := range []struct {
		a, b lat
		cmp  int64
		ok   bool
	}{{latNil, latNonNil, 1, false}, {latNonNil, latNil, 1, false}, {latNil, latNil, 1, true}, {latNonNil, latNonNil, 1, true}, {latNonNil, latNonNil, 0, false}} {
		what := fmt.Sprintf("PrepNext: message seed %s, state seed %s, seeds equal=%v => accepted=%v", t.a, t.b, t.cmp == 1, t.ok)
		if pn == nil {
			c.undecided("C19.prep", what, "anchor does not resolve", "")
			continue
		}
		c.evalAcceptRuleSpec(p, "C19.prep", what, pn, map[string]lat{"state": latNonNil, "msg": latNonNil}, []Assume{calleeAssume(latInt(t.cmp), -1, cmp)},
			[]ValAssume{{Name: "msg.joinRand", Match: jr, Val: t.a}, {Name: "state.correctedJointRandSeed", Match: cs, Val: t.b}}, t.ok, succAuto(pn))
	}
	c.evalAcceptRule(p, "C19.prep", "PrepNext: nil state rejected", pn, map[string]lat{"state": latNil, "msg": latNonNil}, nil, false)
	c.evalAcceptRule(p, "C19.prep", "PrepNext: nil message rejected", pn, map[string]lat{"state": latNonNil, "msg": latNil}, nil, false)

	// unshard
	c.evalAcceptRule(p, "C19.prep", "Unshard: wrong number of aggregate shares rejected", p.Func(pr, "Prio3", "Unshard"), map[string]lat{"aggShares": latSliceLen(1)},
		[]ValAssume{{Name: "v.shares", Match: fieldRead("shares"), Val: latInt(2)}}, false)
	c.evalAcceptRule(p, "C19.prep", "Shard: wrong randomness length rejected", p.Func(pr, "Prio3", "Shard"), map[string]lat{"rand": latSliceLen(3)},
		[]ValAssume{{Name: "v.randSize", Match: fieldRead("randSize"), Val: latInt(64)}}, false)

	// ---- encoders ----
	he := p.Func("vdaf/prio3/histogram", "flpHistogram", "Encode")
	c.evalAcceptRule(p, "C19.encode", "histogram: measurement == length rejected", he, map[string]lat{"measurement": latInt(4)},
		[]ValAssume{{Name: "h.length", Match: fieldRead("length"), Val: latInt(4)}}, false)
	c.evalAcceptRule(p, "C19.encode", "histogram: measurement == length-1 accepted", he, map[string]lat{"measurement": latInt(3)},
		[]ValAssume{{Name: "h.length", Match: fieldRead("length"), Val: latInt(4)}}, true)
	c.evalAcceptRule(p, "C19.encode", "sumvec: wrong measurement length rejected", p.Func("vdaf/prio3/sumvec", "flpSumVec", "Encode"), map[string]lat{"measurement": latSliceLen(3)},
		[]ValAssume{{Name: "s.length", Match: fieldRead("length"), Val: latInt(4)}}, false)
	// field elements are kept in Montgomery form: an integer enters the field only through the converting
	// setter, so the generic inversion of an integer is preceded by the conversion
	checkPrio3FieldTables(c, p, "C19.table")
	checkOptionalFields(c, p, "C19.prep", []string{"vdaf/"})
	// bit decomposition of a measurement: a value of exactly 2^bits does not fit and must be refused (it would be
	// encoded as all zeros and pass the range proof); 2^bits - 1 fits - decided by constant propagation
	for _, fp := range []string{"fp64", "fp128"} {
		sb := p.Func("vdaf/prio3/arith/"+fp, "Vec", "SplitBits")
		c.evalAcceptRule(p, "C19.encode", fp+": SplitBits(16) into 4 bits is refused", sb, map[string]lat{"v": latSliceLen(4), "n": latInt(16)}, nil, false)
		c.evalAcceptRule(p, "C19.encode", fp+": SplitBits(15) into 4 bits is accepted", sb, map[string]lat{"v": latSliceLen(4), "n": latInt(15)}, nil, true)
		c.evalAcceptRule(p, "C19.encode", fp+": SplitBits(1) into 0 bits is refused", sb, map[string]lat{"v": latSliceLen(0), "n": latInt(1)}, nil, false)
		// the widest legal width: 64 bits hold every uint64 (a bound computed as 1<<width is 0 there)
		c.evalAcceptRule(p, "C19.encode", fp+": SplitBits(0) into 64 bits is accepted", sb, map[string]lat{"v": latSliceLen(64), "n": latInt(0)}, nil, true)
		c.evalAcceptRule(p, "C19.encode", fp+": SplitBits(2^64-1) into 64 bits is accepted", sb, map[string]lat{"v": latSliceLen(64), "n": {k: kConst, c: constant.MakeUint64(1<<64 - 1)}}, nil, true)
		c.evalAcceptRule(p, "C19.encode", fp+": SplitBits(2^63) into 63 bits is refused", sb, map[string]lat{"v": latSliceLen(63), "n": {k: kConst, c: constant.MakeUint64(1 << 63)}}, nil, false)
		c.evalAcceptRule(p, "C19.encode", fp+": SplitBits(2^63-1) into 63 bits is accepted", sb, map[string]lat{"v": latSliceLen(63), "n": {k: kConst, c: constant.MakeUint64(1<<63 - 1)}}, nil, true)
		c.evalAcceptRule(p, "C19.encode", fp+": SplitBits(0) into 0 bits is accepted", sb, map[string]lat{"v": latSliceLen(0), "n": latInt(0)}, nil, true)
	}
	// the validity circuits hand the range check the number of gadget calls the proof system gave them (the
	// proof has one wire value per call: a count derived differently, e.g. by a truncating division of the
	// measurement length, leaves the tail of the measurement unchecked)
	for _, t := range []struct{ pkg, typ string }{{"vdaf/prio3/mhcv", "flpMultiHotCountVec"}, {"vdaf/prio3/sumvec", "flpSumVec"}, {"vdaf/prio3/histogram", "flpHistogram"}} {
		f := p.Func(t.pkg, t.typ, "Eval")
		if f == nil {
			c.undecided("C19.prep", t.pkg+": Eval passes numCalls on to the range check", "anchor does not resolve", "")
			continue
		}
		i := paramIdx(f, "numCalls")
		if i < 0 {
			c.undecided("C19.prep", fname(f)+": Eval passes numCalls on to the range check", "parameter numCalls does not exist", p.fnPos(f))
			continue
		}
		c.callArgRule(p, "C19.prep", "the range check runs over the number of gadget calls the caller fixed", f, "vdaf/prio3/internal/flp.RangeCheck", "", map[int]string{1: fmt.Sprintf(`param#%d`, i)})
	}
	for _, fp := range []string{"fp64", "fp128"} {
		pk := "vdaf/prio3/arith/" + fp
		c.orderRule(p, "C19.encode", "the integer is converted into the field (Montgomery form) before it is inverted", p.Func(pk, "Fp", "InvUint64"),
			"call of Fp.SetUint64 / toMont", p.isCallTo(-1, nil, "(*"+pk+".Fp).SetUint64", "(*"+pk+".Fp).toMont"), "call of Fp.Inv", p.isCallTo(-1, nil, "(*"+pk+".Fp).Inv"))
	}
	// FLP decision: accepts only if the circuit output is zero AND the gadget test holds (each alone must
	// suffice to reject), for every instantiation of the generic proof system
	{
		var fs []*ssa.Function
		for f := range p.AllFuncs {
			if f.Blocks != nil && funcPkgPath(f) == circlPath+"/vdaf/prio3/internal/flp" && len(f.TypeArgs()) > 0 && strings.HasPrefix(f.Name(), "Decide") {
				fs = append(fs, f)
			}
		}
		sort.Slice(fs, func(i, j int) bool { return fs[i].String() < fs[j].String() })
		if len(fs) < 3 {
			c.undecided("C19.prep", "instantiations of FLP.Decide", fmt.Sprintf("only %d found (floor 3)", len(fs)), "")
		}
		for _, f := range fs {
			c.guard(p, "C19.prep", "rejects when the circuit output is not zero", f, GuardSpec{Assumes: []Assume{{Name: "v.IsZero()", Result: -1, Val: latFalse, Match: func(_ ssa.CallInstruction, callee string, in *ssa.Function) bool {
				return in == f && strings.HasSuffix(callee, ".IsZero")
			}}}})
			c.guard(p, "C19.prep", "rejects when the gadget test fails", f, GuardSpec{Assumes: []Assume{{Name: "check.IsEqual(gadgetCheck)", Result: -1, Val: latFalse, Match: func(_ ssa.CallInstruction, callee string, in *ssa.Function) bool {
				return in == f && strings.HasSuffix(callee, ".IsEqual")
			}}}})
		}
	}
	// collecting the result does not consume its inputs: Unshard may be called again (or by another collector)
	// with the same aggregate shares, so it must not accumulate into one of them
	{
		var fs []*ssa.Function
		for f := range p.AllFuncs {
			if f.Blocks != nil && f.Synthetic == "" && f.Name() == "Unshard" && strings.HasPrefix(funcPkgPath(f), circlPath+"/vdaf/prio3/") && f.Signature.Recv() != nil {
				fs = append(fs, f)
			}
		}
		sort.Slice(fs, func(i, j int) bool { return fs[i].String() < fs[j].String() })
		if len(fs) < 5 {
			c.undecided("C19.prep", "Unshard implementations", fmt.Sprintf("only %d found (floor 5)", len(fs)), "")
		}
		seen := map[string]bool{}
		for _, f := range fs {
			construct := fname(f) + ": the aggregate shares handed to Unshard are not written"
			if seen[construct] {
				continue
			}
			seen[construct] = true
			var bad []string
			for _, w := range p.Mod().of(f) {
				var i int
				if _, err := fmt.Sscanf(w.Root, "param#%d", &i); err == nil && i >= 1 && i < len(f.Params) {
					bad = append(bad, fmt.Sprintf("%s written at %s (%s)", f.Params[i].Name(), p.pos(w.Pos), w.Via))
				}
			}
			if len(bad) > 0 {
				sort.Strings(bad)
				if len(bad) > 3 {
					bad = bad[:3]
				}
				c.bad("C19.prep", construct, strings.Join(bad, "; "), p.fnPos(f))
			} else {
				c.ok("C19.prep", construct, "mod-set contains no non-receiver parameter", p.fnPos(f))
			}
		}
	}

}
