package main

import (
	"fmt"
	"go/types"
	"sort"
	"strings"

	"golang.org/x/tools/go/ssa"
)

// loopBody: blocks of the natural loop with header h (h dominates a predecessor).
func loopBody(h *ssa.BasicBlock) map[*ssa.BasicBlock]bool {
	body := map[*ssa.BasicBlock]bool{}
	var work []*ssa.BasicBlock
	for _, pr := range h.Preds {
		if h.Dominates(pr) {
			work = append(work, pr)
		}
	}
	if len(work) == 0 {
		return nil
	}
	body[h] = true
	for len(work) > 0 {
		b := work[len(work)-1]
		work = work[:len(work)-1]
		if body[b] {
			continue
		}
		body[b] = true
		work = append(work, b.Preds...)
	}
	return body
}

// overwrittenChecks: error / bool results of calls made inside a loop whose only use is to be
// carried to the next iteration (a phi of the loop header), i.e. every iteration but the last is ignored.
func overwrittenChecks(f *ssa.Function) (sites []ssa.Value, examined int) {
	var hdrs []*ssa.BasicBlock
	bodies := map[*ssa.BasicBlock]map[*ssa.BasicBlock]bool{}
	for _, b := range f.Blocks {
		if lb := loopBody(b); lb != nil {
			hdrs = append(hdrs, b)
			bodies[b] = lb
		}
	}
	if len(hdrs) == 0 {
		return nil, 0
	}
	isCheckType := func(t types.Type) bool {
		if types.Identical(t, types.Universe.Lookup("error").Type()) {
			return true
		}
		if bt, ok := t.Underlying().(*types.Basic); ok && bt.Kind() == types.Bool {
			return true
		}
		return false
	}
	for _, b := range f.Blocks {
		for _, in := range b.Instrs {
			v, ok := in.(ssa.Value)
			if !ok {
				continue
			}
			switch x := in.(type) {
			case *ssa.Call:
				if _, isB := x.Call.Value.(*ssa.Builtin); isB {
					continue
				}
			case *ssa.Extract:
				if _, isCall := x.Tuple.(*ssa.Call); !isCall {
					continue
				}
			default:
				continue
			}
			if !isCheckType(v.Type()) {
				continue
			}
			// innermost loops containing the block
			var in_ []*ssa.BasicBlock
			for _, h := range hdrs {
				if bodies[h][b] {
					in_ = append(in_, h)
				}
			}
			if len(in_) == 0 {
				continue
			}
			examined++
			refs := v.Referrers()
			if refs == nil || len(*refs) == 0 {
				continue // a dropped result is another rule's business
			}
			onlyCarried := true
			for _, r := range *refs {
				ph, ok := r.(*ssa.Phi)
				if !ok {
					onlyCarried = false
					break
				}
				isHdr := false
				for _, h := range in_ {
					if ph.Block() == h {
						isHdr = true
					}
				}
				if !isHdr {
					onlyCarried = false
					break
				}
				// the carried value must not be examined inside the loop either
				for _, r2 := range *ph.Referrers() {
					if r2.Block() != nil && bodies[ph.Block()][r2.Block()] {
						if _, isPhi := r2.(*ssa.Phi); !isPhi {
							onlyCarried = false
						}
					}
				}
			}
			if onlyCarried {
				sites = append(sites, v)
			}
		}
	}
	return sites, examined
}

// loopCheckScope: per property, the packages whose in-loop validation results are examined.
var loopCheckScope = map[string][]string{
	"C01": {"kem/", "hpke"},
	"C02": {"sign/"},
	"C03": {"pke/kyber", "kem/kyber", "kem/mlkem"},
	"C04": {"sign/dilithium", "sign/mldsa", "sign/internal/dilithium"},
	"C09": {"ecc/", "group", "oprf"},
	"C10": {"pki", "cipher/", "abe/", "hpke", "tss/", "blindsign/", "vdaf/", "zk/", "secretsharing"},
	"C16": {"oprf", "zk/", "ot/"},
	"C17": {"secretsharing", "tss/", "math/polynomial"},
	"C18": {"blindsign/"},
	"C19": {"vdaf/"},
	"C20": {"abe/"},
}

// everyIterationChecked: an error or flag returned by a call inside a loop is examined (branched on, combined,
// stored or passed on) in the iteration that produced it; a result whose only use is to be carried to the next
// iteration means that every iteration but the last is ignored.
func (c *Ctx) everyIterationChecked(p *Program, rule string, prefixes ...string) {
	for _, pre := range prefixes {
		var hits []string
		nf, ne := 0, 0
		for f := range p.AllFuncs {
			if f.Blocks == nil || !sourceFunc(f) || !isCirclFunc(f) {
				continue
			}
			rel := strings.TrimPrefix(funcPkgPath(f), circlPath+"/")
			if !(rel == strings.TrimSuffix(pre, "/") || strings.HasPrefix(rel, strings.TrimSuffix(pre, "/")+"/")) {
				continue
			}
			s, n := overwrittenChecks(f)
			if n > 0 {
				nf++
				ne += n
			}
			for _, v := range s {
				pos := v.Pos()
				if ex, ok := v.(*ssa.Extract); ok {
					pos = ex.Tuple.Pos()
				}
				hits = append(hits, fmt.Sprintf("%s in %s (%s)", p.pos(pos), fname(f), descVal(v)))
			}
		}
		c.count("loopcheck_results", ne)
		what := pre + ": every error/flag result produced inside a loop is examined in its own iteration"
		sort.Strings(hits)
		switch {
		case len(hits) > 0:
			c.bad(rule, what, "overwritten by the next iteration without being examined: "+strings.Join(hits, "; "), "")
		case ne == 0:
			c.ok(rule, what, "no call inside a loop returns an error or flag in these packages (nothing to examine)", "")
		default:
			c.ok(rule, what, fmt.Sprintf("%d results in %d functions, each examined before the next iteration", ne, nf), "")
		}
	}
}

func init() {
	for prop, pres := range loopCheckScope {
		prop, pres := prop, pres
		prev := registry[prop]
		if prev == nil {
			panic("loopcheck: " + prop + " not registered")
		}
		registry[prop] = func(c *Ctx) {
			prev(c)
			if p := c.Prog("amd64"); p != nil {
				c.Clauses = append(c.Clauses, prop+".loopcheck: an error or flag returned by a call inside a loop is examined in the iteration that produced it (never merely carried to the next iteration)")
				c.everyIterationChecked(p, prop+".loopcheck", pres...)
			}
		}
	}
}

// sourceFunc: a function written in the source: not a wrapper or thunk, but including the instantiations
// of generic functions (the analysis sees only instantiated bodies).
func sourceFunc(f *ssa.Function) bool {
	return f.Synthetic == "" || strings.HasPrefix(f.Synthetic, "instance of")
}
