package histogram_test

// The input shares returned by Shard are independent of the randomness buffer: wiping that buffer
// afterwards (good practice) must not change them.
// Copy to vdaf/prio3/histogram/ and run: go test -run TestFindingShardAliasesRand ./vdaf/prio3/histogram/

import (
	"bytes"
	"crypto/rand"
	"testing"

	"github.com/cloudflare/circl/vdaf/prio3/histogram"
)

func TestFindingShardAliasesRand(t *testing.T) {
	h, err := histogram.New(2, 4, 2, []byte("ctx"))
	if err != nil {
		t.Fatal(err)
	}
	var nonce histogram.Nonce
	params := h.Params()
	randb := make([]byte, params.RandSize())
	_, _ = rand.Read(randb)
	_, shares, err := h.Shard(2, &nonce, randb)
	if err != nil {
		t.Fatal(err)
	}
	before, err := shares[1].MarshalBinary()
	if err != nil {
		t.Fatal(err)
	}
	clear(randb)
	after, _ := shares[1].MarshalBinary()
	if !bytes.Equal(before, after) {
		t.Errorf("wiping the randomness buffer after Shard changed the helper's input share")
	}
}
