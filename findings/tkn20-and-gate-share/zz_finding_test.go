package tkn

import (
	"crypto/rand"
	"testing"
)

// An attribute key whose attributes do not satisfy the policy must not be able
// to recover the session key. At an and-gate the secret has to be split between
// the two inputs; here one input (the Boneh-Katz wire every key can open)
// carried the whole secret.
func TestFindingAndGateShare(t *testing.T) {
	pol := &Policy{
		Inputs: []Wire{
			{"a", "1", ToScalar(1), true},
			{"b", "2", ToScalar(2), true},
		},
		F: Formula{Gates: []Gate{{Andgate, 0, 1, 2}}},
	}
	pp, sp, err := GenerateParams(rand.Reader)
	if err != nil {
		t.Fatal(err)
	}
	attrs := &Attributes{"zzz": {false, ToScalar(9)}}
	key, err := DeriveAttributeKeysCCA(rand.Reader, sp, attrs)
	if err != nil {
		t.Fatal(err)
	}
	id := ToScalar(12345)
	enc := pol.transformBK(id)
	hdr, shared, err := encapsulate(rand.Reader, pp, enc)
	if err != nil {
		t.Fatal(err)
	}
	if _, err := decapsulate(hdr, key); err == nil {
		t.Fatal("decapsulate should refuse a key that does not satisfy the policy")
	}
	// what the key holder can compute from the Boneh-Katz wire alone
	bk := len(enc.Inputs) - 1
	p2 := newMatrixG1(0, 0)
	p2.scalarMult(id, key.k3[bkAttribute])
	p2.add(p2, key.k3wild[bkAttribute])
	pairs := &pairAccum{}
	pairs.addDuals(p2, hdr.c2[0], 1)
	pairs.addDuals(hdr.c3[bk], key.k1, -1)
	pairs.addDuals(key.k2.copy(), hdr.c1, 1)
	if pairs.eval().IsEqual(shared) {
		t.Error("a key for {zzz:9} recovers the session key of the policy (a:1 and b:2) from the Boneh-Katz wire alone")
	}
	// the sharing itself
	r, _ := randomMatrixZp(rand.Reader, 2, 1)
	sh, err := enc.F.share(rand.Reader, r)
	if err != nil {
		t.Fatal(err)
	}
	for i, s := range sh {
		if s.Equal(r) {
			t.Errorf("input wire %d carries the whole secret", i)
		}
	}
}
