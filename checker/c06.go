package main

import (
	"fmt"
	"go/constant"
	"go/token"
	"sort"
	"strings"

	"golang.org/x/tools/go/ssa"
)

func init() { registry["C06"] = checkC06 }

func checkC06(c *Ctx) {
	p := c.Prog("amd64")
	if p == nil {
		return
	}
	c.Clauses = append(c.Clauses,
		"C06.flaguse: every non-exempt caller of x25519.Shared / x448.Shared (and the KEM layers above them) cannot succeed when the validity flag is false; a new caller that drops the flag is reported",
		"C06.flagdef: Shared returns the value of isValidPubKey; isValidPubKey reduces (Modp) and masks before comparing, and its result depends on every low-order table entry",
		"C06.table: the low-order point tables equal the RFC 7748 small-order u-coordinates (as sets, reduced mod p)")
	c.NotDec = append(c.NotDec, "equality of the ladder output with RFC 7748 on all inputs", "the field back-ends (assembly is not analysed)", "the polarity of the accumulated comparison inside isValidPubKey")

	// ---- C06.table ----
	want25519 := [][]string{
		hexToLEBytes("00", 32),
		hexToLEBytes("01", 32),
		hexToLEBytes("00b8495f16056286fdb1329ceb8d09da6ac49ff1fae35616aeb8413b7c7aebe0", 32),
		hexToLEBytes("57119fd0dd4e22d8868e1c58c45c44045bef839c55b1d0b1248c50a3bc959c5f", 32),
		hexToLEBytes("7fffffffffffffffffffffffffffffffffffffffffffffffffffffffffffffec", 32),
	}
	want448 := [][]string{
		hexToLEBytes("00", 56),
		hexToLEBytes("01", 56),
		hexToLEBytes("fffffffffffffffffffffffffffffffffffffffffffffffffffffffefffffffffffffffffffffffffffffffffffffffffffffffffffffffe", 56),
	}
	setRule := func(pkg string, size int, want [][]string) {
		got, err := p.varInts(pkg, "lowOrderPoints")
		what := pkg + ".lowOrderPoints (as a set)"
		if err != nil {
			c.undecided("C06.table", what, err.Error(), "")
			return
		}
		if len(got)%size != 0 {
			c.bad("C06.table", what, "table is not a whole number of field elements", "")
			return
		}
		var g, w []string
		for i := 0; i < len(got); i += size {
			g = append(g, strings.Join(got[i:i+size], " "))
		}
		for _, x := range want {
			w = append(w, strings.Join(x, " "))
		}
		sort.Strings(g)
		sort.Strings(w)
		c.tableEq("C06.table", what, strings.Join(g, "|"), strings.Join(w, "|"), "")
	}
	setRule("dh/x25519", 32, want25519)
	setRule("dh/x448", 56, want448)

	// ---- C06.flagdef ----
	for _, pk := range []struct {
		pkg, fp string
		mask    int64
	}{{"dh/x25519", "math/fp25519", 127}, {"dh/x448", "math/fp448", -1}} {
		sh := p.Func(pk.pkg, "", "Shared")
		iv := p.Func(pk.pkg, "Key", "isValidPubKey")
		c.guard(p, "C06.flagdef", "Shared reports failure when the peer value is a low-order point", sh,
			GuardSpec{Assumes: []Assume{calleeAssume(latFalse, -1, "(*"+pk.pkg+".Key).isValidPubKey")}})
		c.orderRule(p, "C06.flagdef", "canonical reduction before the low-order comparison", iv,
			"Modp(k)", p.isCallTo(0, isParamNamed("k"), pk.fp+".Modp"),
			"ConstantTimeCompare", p.isCallTo(0, nil, "crypto/subtle.ConstantTimeCompare"))
		c.depRule(p, "C06.flagdef", "flag depends on the key and on the low-order table", iv, sinkResult(),
			"param:k", "global:"+pk.pkg+".lowOrderPoints", "call:crypto/subtle.ConstantTimeCompare")
		// a value that matches no table entry is valid: nothing else (e.g. canonicity of the encoding) may make
		// Shared report failure, non-canonical encodings of ordinary points must keep working (the converse,
		// a match makes it invalid, needs the value of an OR accumulated in a loop and is not decided)
		c.evalAcceptRuleSpec(p, "C06.flagdef", "a value equal to none of the low-order points is reported valid", iv, nil,
			[]Assume{calleeAssume(latInt(0), -1, "crypto/subtle.ConstantTimeCompare")}, nil, true, succTrue(0))
		if pk.mask > 0 {
			c.orderRule(p, "C06.flagdef", "bit 255 masked before validation", sh,
				"store of (byte & 0x7f)", func(in ssa.Instruction) bool {
					st, ok := in.(*ssa.Store)
					if !ok {
						return false
					}
					b, ok := st.Val.(*ssa.BinOp)
					if !ok || b.Op != token.AND {
						return false
					}
					for _, o := range []ssa.Value{b.X, b.Y} {
						if k, ok := o.(*ssa.Const); ok && k.Value != nil {
							if n, ok := constant.Int64Val(k.Value); ok && n == pk.mask {
								return true
							}
						}
					}
					return false
				},
				"isValidPubKey / ladder", p.isCallTo(0, nil, "(*"+pk.pkg+".Key).isValidPubKey", pk.pkg+".ladderMontgomery"))
		}
		// the validated copy is what the ladder consumes
		c.depRule(p, "C06.flagdef", "ladder consumes secret and peer value", sh, sinkCallArg(0, pk.pkg+".ladderMontgomery"), "param:secret")
		c.depRule(p, "C06.flagdef", "ladder consumes secret and peer value", sh, sinkCallArg(1, pk.pkg+".ladderMontgomery"), "param:public")
	}

	// RFC 7748: the function always has an output; for a low-order peer value it is the all-zero string. The
	// output parameter is written on every path to every return (an early return on the flag leaves what the
	// caller's buffer held before)
	{
		de := newDecodeEngine(p)
		for _, pk := range []string{"dh/x25519", "dh/x448"} {
			sh := p.Func(pk, "", "Shared")
			what := pk + ".Shared: the output is written on every path, also when the flag is false"
			if sh == nil {
				c.undecided("C06.flagdef", what, "anchor does not resolve", "")
				continue
			}
			fa := de.analyseParam(sh, 0, 5)
			if fa == nil || !fa.may["*"] {
				c.bad("C06.flagdef", what, "the output parameter is never written", p.fnPos(sh))
				continue
			}
			var bad []string
			for _, b := range sh.Blocks {
				if ret, ok := b.Instrs[len(b.Instrs)-1].(*ssa.Return); ok && !fa.at[b.Index]["*"] {
					bad = append(bad, p.pos(ret.Pos()))
				}
			}
			if len(bad) > 0 {
				c.bad("C06.flagdef", what, "a return at "+strings.Join(bad, ", ")+" can be reached without the output having been written", p.fnPos(sh))
			} else {
				c.ok("C06.flagdef", what, "every return is preceded by a write of the output", p.fnPos(sh))
			}
		}
	}

	checkLastElem(c, p, "C06.flagdef", []string{"dh/"})
	// ---- C06.flaguse: enumerate every caller ----
	exempt := map[string]string{
		"(*kem/xwing.PublicKey).EncapsulateTo":  "X-Wing does not check the flag, by its specification (named in the property statement)",
		"(*kem/xwing.PrivateKey).DecapsulateTo": "X-Wing does not check the flag, by its specification (named in the property statement)",
	}
	shared := []string{"dh/x25519.Shared", "dh/x448.Shared", "dh/curve4q.Shared"}
	var callers []*ssa.Function
	for f := range p.AllFuncs {
		if !isCirclFunc(f) || f.Blocks == nil {
			continue
		}
		if len(p.callSites(f, shared...)) > 0 {
			callers = append(callers, f)
		}
	}
	sort.Slice(callers, func(i, j int) bool { return callers[i].String() < callers[j].String() })
	c.count("shared_callers", len(callers))
	if len(callers) < 4 {
		c.undecided("C06.flaguse", "callers of Shared", "fewer than 4 callers enumerated (expected kem/hybrid, hpke, kem/xwing)", "")
	}
	for _, f := range callers {
		if why, ok := exempt[fname(f)]; ok {
			c.ok("C06.flaguse", fname(f)+": exempt caller", why, p.fnPos(f))
			continue
		}
		c.guardEachSite(p, "C06.flaguse", "false flag never leads to success", f, -1, latFalse, shared...)
	}
	// X-Wing, by its specification, goes on with the all-zero value: nothing in the package may branch on or
	// return the flag (a "hardening" check that turns it into an error refuses keys the specification accepts)
	{
		n := 0
		for f := range p.AllFuncs {
			if f.Blocks == nil || funcPkgPath(f) != circlPath+"/kem/xwing" || !sourceFunc(f) {
				continue
			}
			for _, s := range p.callSites(f, "dh/x25519.Shared") {
				n++
				v := s.Value()
				construct := fname(f) + ": the validity flag of x25519.Shared is not consulted (X-Wing accepts low-order shares)"
				if v != nil && len(*v.Referrers()) > 0 {
					c.bad("C06.flaguse", construct, "the flag is used at "+p.pos(s.Pos())+": X-Wing would refuse an input its specification accepts", p.pos(s.Pos()))
				} else {
					c.ok("C06.flaguse", construct, "result discarded at "+p.pos(s.Pos()), p.pos(s.Pos()))
				}
			}
		}
		c.count("xwing_shared_sites", n)
		if n < 2 {
			c.undecided("C06.flaguse", "kem/xwing: call sites of x25519.Shared", fmt.Sprintf("only %d found (floor 2)", n), "")
		}
	}
	// the KEM layers above
	xs := "kem/hybrid"
	for _, n := range []string{"EncapsulateDeterministically", "Decapsulate"} {
		c.guard(p, "C06.flaguse", "DH failure is an error of the TLS-hybrid DH KEM", p.Func(xs, "xScheme", n),
			GuardSpec{Assumes: []Assume{calleeAssume(latNonNil, 1, "(*kem/hybrid.xPublicKey).X")}})
	}
	dec := p.Func(xs, "scheme", "Decapsulate")
	c.guardEachSite(p, "C06.flaguse", "component decapsulation error propagates", dec, 1, latNonNil, "invoke (kem.Scheme).Decapsulate")
	enc := p.Func(xs, "scheme", "EncapsulateDeterministically")
	c.guardEachSite(p, "C06.flaguse", "component encapsulation error propagates", enc, 2, latNonNil, "invoke (kem.Scheme).EncapsulateDeterministically")
	// hpke: calcDH errors propagate through the DHKEM
	for _, n := range []string{"coreEncap", "coreDecap"} {
		f := p.Func("hpke", "dhKemBase", n)
		c.guard(p, "C06.flaguse", "calcDH failure is an error of the HPKE DHKEM", f,
			GuardSpec{Assumes: []Assume{calleeAssume(latNonNil, -1, "invoke (hpke.dhKEM).calcDH")}})
	}
	// ... at every call site, in every function of the package that computes a DH value (the authenticated
	// modes compute two: a second failure must not be overwritten by the next assignment)
	{
		var callers []*ssa.Function
		for f := range p.AllFuncs {
			if f.Blocks != nil && funcPkgPath(f) == circlPath+"/hpke" && f.Synthetic == "" && len(p.callSites(f, "invoke (hpke.dhKEM).calcDH")) > 0 {
				callers = append(callers, f)
			}
		}
		sort.Slice(callers, func(i, j int) bool { return callers[i].String() < callers[j].String() })
		c.count("calcdh_callers", len(callers))
		if len(callers) < 4 {
			c.undecided("C06.flaguse", "hpke: functions that call calcDH", fmt.Sprintf("only %d found (floor 4)", len(callers)), "")
		}
		for _, f := range callers {
			c.guardEachSite(p, "C06.flaguse", "a failed DH is an error", f, -1, latNonNil, "invoke (hpke.dhKEM).calcDH")
		}
	}
}
