package main

// Self-test of a check (thorough tier): every seeded change kept under <verif>/seeded that this
// check is recorded to detect (validation.json) is applied to a scratch copy of /repo's current
// working tree, the quick check is run on the copy in a separate process, and it must report a
// violation there. The outcome is recorded in the evidence (it measures the checker, not circl, so
// it never changes the exit status). Scratch copies live in a fresh temporary directory outside
// /repo and /verif and are removed before exit.

import (
	"encoding/json"
	"fmt"
	"os"
	"os/exec"
	"path/filepath"
	"sort"
	"strings"
	"sync"
)

type seedVariant struct {
	name, patch string
}

func seedsFor(verif, prop string) []seedVariant {
	var out []seedVariant
	add := func(name, patch, valFile string) {
		b, err := os.ReadFile(valFile)
		if err != nil {
			return
		}
		var v struct {
			DetectedBy map[string][]string `json:"detected_by"`
		}
		if json.Unmarshal(b, &v) != nil {
			return
		}
		if _, ok := v.DetectedBy[prop]; ok {
			out = append(out, seedVariant{name, patch})
		}
	}
	dirs, _ := filepath.Glob(filepath.Join(verif, "seeded", "C*-*"))
	for _, d := range dirs {
		add(filepath.Base(d), filepath.Join(d, "patch.diff"), filepath.Join(d, "validation.json"))
	}
	revs, _ := filepath.Glob(filepath.Join(verif, "seeded", "reverts", "*.diff"))
	for _, r := range revs {
		add("revert-"+strings.TrimSuffix(filepath.Base(r), ".diff"), r, r+".validation.json")
	}
	sort.Slice(out, func(i, j int) bool { return out[i].name < out[j].name })
	return out
}

func runSelfTest(c *Ctx) {
	seeds := seedsFor(c.Verif, c.Prop)
	if len(seeds) == 0 {
		c.Notes = append(c.Notes, "self-test: no seeded change is recorded for this check")
		return
	}
	tmp, err := os.MkdirTemp("", "circlverif-selftest-")
	if err != nil {
		c.Notes = append(c.Notes, "self-test skipped: "+err.Error())
		return
	}
	defer os.RemoveAll(tmp)
	workers := 4
	if len(seeds) < workers {
		workers = len(seeds)
	}
	exe, _ := os.Executable()
	env := append(os.Environ(), "VERIF_TIER=quick", "CIRCLVERIF_NO_SELFTEST=1")
	var mu sync.Mutex
	var detected, missed, skipped []string
	jobs := make(chan seedVariant)
	var wg sync.WaitGroup
	for w := 0; w < workers; w++ {
		copyDir := filepath.Join(tmp, fmt.Sprintf("repo%d", w))
		if out, err := exec.Command("rsync", "-a", "--exclude", ".git", c.Repo+"/", copyDir+"/").CombinedOutput(); err != nil {
			c.Notes = append(c.Notes, "self-test skipped: cannot copy the working tree: "+abbrev(string(out)))
			return
		}
		wg.Add(1)
		go func(copyDir string, w int) {
			defer wg.Done()
			for s := range jobs {
				ap := exec.Command("git", "apply", s.patch)
				ap.Dir = copyDir
				if out, err := ap.CombinedOutput(); err != nil {
					mu.Lock()
					skipped = append(skipped, s.name+" (does not apply to the current working tree: "+abbrev(strings.TrimSpace(string(out)))+")")
					mu.Unlock()
					continue
				}
				run := exec.Command(exe, "-property", c.Prop, "-tier", "quick", "-repo", copyDir, "-verif", c.Verif, "-evidence", filepath.Join(tmp, fmt.Sprintf("ev%d.json", w)))
				run.Env = env
				out, _ := run.CombinedOutput()
				mu.Lock()
				if strings.Contains(string(out), "VIOLATION property="+c.Prop) {
					detected = append(detected, s.name)
				} else {
					missed = append(missed, s.name)
				}
				mu.Unlock()
				rv := exec.Command("git", "apply", "-R", s.patch)
				rv.Dir = copyDir
				if out, err := rv.CombinedOutput(); err != nil {
					mu.Lock()
					c.Notes = append(c.Notes, "self-test: cannot revert "+s.name+": "+abbrev(string(out)))
					mu.Unlock()
					return
				}
			}
		}(copyDir, w)
	}
	for _, s := range seeds {
		jobs <- s
	}
	close(jobs)
	wg.Wait()
	sort.Strings(detected)
	sort.Strings(missed)
	sort.Strings(skipped)
	c.Counters["selftest_variants"] = len(seeds)
	c.Counters["selftest_detected"] = len(detected)
	c.Counters["selftest_missed"] = len(missed)
	c.Counters["selftest_skipped"] = len(skipped)
	msg := fmt.Sprintf("self-test: %d of %d seeded variants that this check is recorded to detect were reported on a scratch copy of the working tree", len(detected), len(seeds)-len(skipped))
	if len(missed) > 0 {
		msg += "; NOT reported: " + strings.Join(missed, ", ")
	}
	if len(skipped) > 0 {
		msg += "; skipped: " + strings.Join(skipped, "; ")
	}
	c.Notes = append(c.Notes, msg)
	fmt.Println("SELFTEST property=" + c.Prop + " " + msg)
}
