package oprf

import (
	"bytes"
	"crypto/rand"
	"testing"
)

// Modifying (re-decoding) the object returned by PrivateKey.Public must not change what later calls
// of Public return. Place in oprf; go test -run TestFindingPublicShared ./oprf/ .
func TestFindingPublicShared(t *testing.T) {
	k1, _ := GenerateKey(SuiteP256, rand.Reader)
	k2, _ := GenerateKey(SuiteP256, rand.Reader)
	otherBytes, _ := k2.Public().MarshalBinary()

	before, _ := k1.Public().MarshalBinary()
	if err := k1.Public().UnmarshalBinary(SuiteP256, otherBytes); err != nil {
		t.Fatal(err)
	}
	after, _ := k1.Public().MarshalBinary()
	if !bytes.Equal(before, after) {
		t.Errorf("re-decoding the key returned by Public() changed what Public() returns for the private key")
	}
}
