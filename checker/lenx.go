package main

// LEN engine: proves index / slice operations in range from linear facts.
//
// Integer values are linear forms c0 + Σ ci·ai over atoms (lengths of slices, opaque integer
// values). Facts are inequalities "form ≥ 0" collected from the comparisons that dominate the
// operation (and from earlier dominating bounds operations, which would have panicked otherwise).
// A goal g ≥ 0 is discharged when g − Σ λk·fk (λk ≥ 0, at most four facts) has only non-negative
// components over sign-constrained atoms. Arithmetic in types narrower than 64 bits, which may
// wrap, produces a fresh opaque atom (so `8+siLen` computed in uint16 is not related to siLen).
// When a goal about a slice parameter cannot be proven inside a function, the smallest constant K
// such that "len(param) ≥ K" makes it provable becomes a requirement checked at the call sites.

import (
	"fmt"
	"go/constant"
	"go/token"
	"go/types"
	"math/big"
	"os"
	"sort"
	"strings"

	"golang.org/x/tools/go/ssa"
)

type lin struct {
	c *big.Rat
	t map[string]*big.Rat
}

func newLin(c int64) lin { return lin{c: big.NewRat(c, 1), t: map[string]*big.Rat{}} }

func (a lin) clone() lin {
	r := lin{c: new(big.Rat).Set(a.c), t: map[string]*big.Rat{}}
	for k, v := range a.t {
		r.t[k] = new(big.Rat).Set(v)
	}
	return r
}

func (a lin) addScaled(b lin, s *big.Rat) lin {
	r := a.clone()
	r.c.Add(r.c, new(big.Rat).Mul(b.c, s))
	for k, v := range b.t {
		x := new(big.Rat).Mul(v, s)
		if o, ok := r.t[k]; ok {
			o.Add(o, x)
			if o.Sign() == 0 {
				delete(r.t, k)
			}
		} else if x.Sign() != 0 {
			r.t[k] = x
		}
	}
	return r
}

func (a lin) add(b lin) lin { return a.addScaled(b, big.NewRat(1, 1)) }
func (a lin) sub(b lin) lin { return a.addScaled(b, big.NewRat(-1, 1)) }
func (a lin) plus(n int64) lin {
	r := a.clone()
	r.c.Add(r.c, big.NewRat(n, 1))
	return r
}

func (a lin) String() string {
	var ks []string
	for k := range a.t {
		ks = append(ks, k)
	}
	sort.Strings(ks)
	s := a.c.RatString()
	for _, k := range ks {
		s += " + " + a.t[k].RatString() + "·" + k
	}
	return s
}

func atomLin(name string) lin {
	return lin{c: new(big.Rat), t: map[string]*big.Rat{name: big.NewRat(1, 1)}}
}

// lenCtx is the per-function context of the LEN engine.
type lenCtx struct {
	p                *Program
	f                *ssa.Function
	nonneg           map[string]bool  // atoms known to be ≥ 0
	upper            map[string]int64 // atoms with a known upper bound
	names            map[ssa.Value]string
	lower1           map[string]bool          // atoms known to be ≥ -1 (range-loop counters)
	paramConst       map[*ssa.Parameter]int64 // integer parameters bound to constants in this context
	upperAny         map[string]int64
	lowerC           map[string]int64
	inFits           bool
	inInd            bool
	writeMemo        map[*ssa.FieldAddr]bool
	defFacts         []lin // defining facts of division / shift atoms
	strides          []lin
	stridesDone      bool
	depth            int
	budget           int
	inlineDepth      int
	recvDesc         string
	memoLin, memoLen map[ssa.Value]lin
	inLin, inLen     map[ssa.Value]bool
}

func newLenCtx(p *Program, f *ssa.Function) *lenCtx {
	return &lenCtx{p: p, f: f, nonneg: map[string]bool{}, upper: map[string]int64{}, names: map[ssa.Value]string{}, lower1: map[string]bool{}, upperAny: map[string]int64{}, lowerC: map[string]int64{}, memoLin: map[ssa.Value]lin{}, memoLen: map[ssa.Value]lin{}, inLin: map[ssa.Value]bool{}, inLen: map[ssa.Value]bool{}}
}

func (lc *lenCtx) atomOf(v ssa.Value, prefix string) lin {
	n, ok := lc.names[v]
	if !ok {
		n = fmt.Sprintf("%s%s@%d", prefix, v.Name(), len(lc.names))
		if par, ok := v.(*ssa.Parameter); ok {
			n = prefix + paramDesc(par)
		}
		lc.names[v] = n
	}
	full := n
	if prefix == "len:" {
		lc.nonneg[full] = true
	}
	return atomLin(full)
}

func intWidth(t types.Type) (bits int, unsigned bool, ok bool) {
	b, isB := t.Underlying().(*types.Basic)
	if !isB || b.Info()&types.IsInteger == 0 {
		return 0, false, false
	}
	unsigned = b.Info()&types.IsUnsigned != 0
	switch b.Kind() {
	case types.Int8, types.Uint8:
		return 8, unsigned, true
	case types.Int16, types.Uint16:
		return 16, unsigned, true
	case types.Int32, types.Uint32:
		return 32, unsigned, true
	}
	return 64, unsigned, true
}

// opaque returns a fresh atom for an integer value, with sign / range knowledge from its type.
func (lc *lenCtx) opaque(v ssa.Value) lin {
	a := lc.atomOf(v, "v:")
	var name string
	for k := range a.t {
		name = k
	}
	if bits, uns, ok := intWidth(v.Type()); ok && uns {
		lc.nonneg[name] = true
		if bits < 64 {
			lc.upper[name] = (int64(1) << uint(bits)) - 1
		}
	}
	return a
}

// linOf: the linear form of an integer value.
func (lc *lenCtx) linOf(v ssa.Value) lin {
	if r, ok := lc.memoLin[v]; ok {
		return r
	}
	if lc.inLin[v] {
		return lc.opaque(v)
	}
	lc.inLin[v] = true
	r := lc.linOf1(v)
	delete(lc.inLin, v)
	lc.memoLin[v] = r
	return r
}

func (lc *lenCtx) linOf1(v ssa.Value) lin {
	lc.depth++
	defer func() { lc.depth-- }()
	if lc.depth > 40 {
		return lc.opaque(v)
	}
	switch x := v.(type) {
	case *ssa.Parameter:
		if n, ok := lc.paramConst[x]; ok {
			return newLin(n)
		}
		return lc.opaque(v)
	case *ssa.Const:
		if x.Value != nil && x.Value.Kind() == constant.Int {
			if n, ok := constant.Int64Val(x.Value); ok {
				return newLin(n)
			}
		}
		return lc.opaque(v)
	case *ssa.Call:
		if b, ok := x.Call.Value.(*ssa.Builtin); ok && (b.Name() == "len" || b.Name() == "cap") && len(x.Call.Args) == 1 {
			return lc.lenOf(x.Call.Args[0])
		}
		if g, ok := lc.getter(x); ok {
			return g
		}
		if g, ok := lc.constCall(x); ok {
			return g
		}
		a := lc.opaque(v)
		// results of Size()-style getters and len-like functions are non-negative
		if bt, ok := v.Type().Underlying().(*types.Basic); ok && bt.Info()&types.IsInteger != 0 {
			n := lc.p.staticCalleeName(&x.Call)
			if sizeLike(n) {
				for k := range a.t {
					lc.nonneg[k] = true
				}
			}
		}
		return a
	case *ssa.Convert:
		fb, fu, ok1 := intWidth(x.X.Type())
		tb, tu, ok2 := intWidth(x.Type())
		if ok1 && ok2 {
			inner := lc.linOf(x.X)
			// value-preserving conversions: widening of an unsigned value, or same-width signed<->unsigned
			// of a value known non-negative, or widening signed->signed
			switch {
			case fu && tb > fb:
				return inner
			case fu && tb == fb && !tu && fb == 64:
				// uint -> int of the same width: preserved for values < 2^63 (lengths and sizes)
				return inner
			case !fu && !tu && tb >= fb:
				return inner
			case !fu && tu && tb >= fb:
				// int -> uint: preserved when the value is provably non-negative
				if lc.isNonNeg(inner) {
					return inner
				}
			}
		}
		return lc.opaque(v)
	case *ssa.BinOp:
		bits, uns, ok := intWidth(x.Type())
		if !ok {
			return lc.opaque(v)
		}
		narrow := bits < 64
		switch x.Op {
		case token.ADD, token.SUB:
			a, b := lc.linOf(x.X), lc.linOf(x.Y)
			var r lin
			if x.Op == token.ADD {
				r = a.add(b)
			} else {
				r = a.sub(b)
			}
			if narrow {
				// may wrap in a narrow type unless the result provably fits
				if !lc.fits(r, bits, uns) && !lc.fitsAt(x, r, bits, uns) {
					return lc.opaque(v)
				}
			}
			if uns && x.Op == token.SUB && !narrow {
				// 64-bit unsigned subtraction wraps if negative: keep the form only if provably non-negative
				if !lc.isNonNeg(r) {
					return lc.opaque(v)
				}
			}
			return r
		case token.MUL:
			a, b := lc.linOf(x.X), lc.linOf(x.Y)
			var r lin
			switch {
			case len(a.t) == 0:
				r = newLin(0).addScaled(b, a.c)
			case len(b.t) == 0:
				r = newLin(0).addScaled(a, b.c)
			default:
				// bilinear expansion over canonical product atoms (value numbering of products)
				if !narrow && len(a.t) <= 3 && len(b.t) <= 3 {
					return lc.mulLin(a, b)
				}
				return lc.opaque(v)
			}
			if narrow && !lc.fits(r, bits, uns) {
				return lc.opaque(v)
			}
			return r
		case token.SHL:
			if k, ok := x.Y.(*ssa.Const); ok && k.Value != nil {
				if s, ok := constant.Int64Val(k.Value); ok && s >= 0 && s < 32 {
					r := newLin(0).addScaled(lc.linOf(x.X), big.NewRat(int64(1)<<uint(s), 1))
					if narrow && !lc.fits(r, bits, uns) {
						return lc.opaque(v)
					}
					return r
				}
			}
		case token.QUO, token.SHR, token.REM, token.AND:
			// results bounded by the dividend / mask: record upper bound knowledge
			a := lc.opaque(v)
			if x.Op == token.QUO || x.Op == token.SHR {
				if k, ok := x.Y.(*ssa.Const); ok && k.Value != nil {
					if m, ok := constant.Int64Val(k.Value); ok && m > 0 && lc.isNonNeg(lc.linOf(x.X)) {
						for n := range a.t {
							lc.nonneg[n] = true
						}
						if x.Op == token.SHR {
							if m < 32 {
								m = int64(1) << uint(m)
							} else {
								m = 0
							}
						}
						if m > 0 {
							// q = ⌊X/m⌋ : m·q ≤ X ≤ m·q + m-1
							X := lc.linOf(x.X)
							mq := newLin(0).addScaled(a, big.NewRat(m, 1))
							lc.defFacts = append(lc.defFacts, X.sub(mq), mq.plus(m-1).sub(X))
						}
					}
				}
			}
			if x.Op == token.AND {
				for _, o := range []ssa.Value{x.X, x.Y} {
					if k, ok := o.(*ssa.Const); ok && k.Value != nil {
						if m, ok := constant.Int64Val(k.Value); ok && m >= 0 {
							for n := range a.t {
								lc.nonneg[n] = true
								lc.upper[n] = m
							}
						}
					}
				}
			}
			if x.Op == token.REM {
				if k, ok := x.Y.(*ssa.Const); ok && k.Value != nil {
					if m, ok := constant.Int64Val(k.Value); ok && m > 0 && lc.isNonNeg(lc.linOf(x.X)) {
						for n := range a.t {
							lc.nonneg[n] = true
							lc.upper[n] = m - 1
						}
					}
				}
			}
			return a
		}
		return lc.opaque(v)
	case *ssa.Phi:
		a := lc.opaque(v)
		// induction variable: edges are {init, phi ± constant step}
		var init *int64
		okUp, okDown := true, true
		for _, e := range x.Edges {
			if k, ok := e.(*ssa.Const); ok && k.Value != nil {
				if n, ok := constant.Int64Val(k.Value); ok {
					if init == nil {
						nn := n
						init = &nn
					} else if n != *init {
						okUp, okDown = false, false
					}
					continue
				}
			}
			if bo, ok := e.(*ssa.BinOp); ok && (bo.Op == token.ADD || bo.Op == token.SUB) && bo.X == ssa.Value(x) {
				if k, ok := bo.Y.(*ssa.Const); ok && k.Value != nil {
					if n, ok := constant.Int64Val(k.Value); ok && n > 0 {
						if bo.Op == token.ADD {
							okDown = false
						} else {
							okUp = false
						}
						continue
					}
				}
			}
			okUp, okDown = false, false
		}
		if init != nil {
			for n := range a.t {
				if okUp && *init >= 0 {
					lc.nonneg[n] = true
				} else if okUp && *init == -1 {
					lc.lower1[n] = true
				}
				if okDown {
					// counts down from init: never above it (in a signed type)
					if _, uns, _ := intWidth(x.Type()); !uns {
						lc.upperAny[n] = *init
					}
					// never negative when the initial value is non-negative and every decrement is guarded so
					// that the decremented value stays non-negative
					if *init >= 0 && !lc.inFits {
						okAll := true
						for _, e := range x.Edges {
							bo, isB := e.(*ssa.BinOp)
							if !isB {
								continue
							}
							lc.inFits = true
							lc.memoLin[v] = a
							facts := lc.factsAt(bo)
							k, _ := bo.Y.(*ssa.Const)
							c, _ := constant.Int64Val(k.Value)
							if !lc.prove(a.plus(-c), facts) {
								okAll = false
							}
							delete(lc.memoLin, v)
							lc.inFits = false
						}
						if okAll {
							lc.nonneg[n] = true
						}
					}
				}
			}
		}
		return a
	}
	if u, ok := v.(*ssa.UnOp); ok && u.Op == token.MUL {
		if fv := lc.forwarded(u); fv != nil {
			return lc.linOf(fv)
		}
		if fa, ok := u.X.(*ssa.FieldAddr); ok && fieldName(fa) == "BitSize" {
			// elliptic.CurveParams.BitSize is a positive constant of the curve
			a := lc.opaque(v)
			for n := range a.t {
				lc.nonneg[n] = true
			}
			return a
		}
	}
	return lc.opaque(v)
}

func (lc *lenCtx) fits(r lin, bits int, uns bool) bool {
	// conservative: only constants and single non-negative atoms with known upper bounds
	max := new(big.Rat).SetInt(new(big.Int).Lsh(big.NewInt(1), uint(bits)))
	if !uns {
		max = new(big.Rat).SetInt(new(big.Int).Lsh(big.NewInt(1), uint(bits-1)))
	}
	hi := new(big.Rat).Set(r.c)
	lo := new(big.Rat).Set(r.c)
	for k, v := range r.t {
		u, ok := lc.upper[k]
		if !ok || !lc.nonneg[k] {
			return false
		}
		if v.Sign() > 0 {
			hi.Add(hi, new(big.Rat).Mul(v, big.NewRat(u, 1)))
		} else {
			lo.Add(lo, new(big.Rat).Mul(v, big.NewRat(u, 1)))
		}
	}
	if hi.Cmp(max) >= 0 {
		return false
	}
	if uns {
		return lo.Sign() >= 0
	}
	return lo.Cmp(new(big.Rat).Neg(max)) >= 0
}

// fitsAt: r fits the type given the facts that hold where the operation is computed.
func (lc *lenCtx) fitsAt(at ssa.Instruction, r lin, bits int, uns bool) bool {
	if lc.inFits {
		return false
	}
	lc.inFits = true
	defer func() { lc.inFits = false }()
	facts := lc.factsAt(at)
	max := int64(1) << uint(bits)
	lo := int64(0)
	if !uns {
		max = int64(1) << uint(bits-1)
		lo = -max
	}
	return lc.prove(r.plus(-lo), facts) && lc.prove(newLin(max-1).sub(r), facts)
}

func (lc *lenCtx) isNonNeg(r lin) bool {
	lo := new(big.Rat).Set(r.c)
	for k, v := range r.t {
		switch {
		case v.Sign() > 0 && lc.nonneg[k]:
		case v.Sign() > 0 && lc.lower1[k]:
			lo.Sub(lo, v)
		case v.Sign() < 0:
			u, ok := lc.upper[k]
			if !ok {
				u, ok = lc.upperAny[k]
			}
			if !ok {
				return false
			}
			lo.Add(lo, new(big.Rat).Mul(v, big.NewRat(u, 1)))
		default:
			return false
		}
	}
	return lo.Sign() >= 0
}

// lenOf: the linear form of the length of a slice / string / array-pointer value.
func (lc *lenCtx) lenOf(v ssa.Value) lin {
	if r, ok := lc.memoLen[v]; ok {
		return r
	}
	if lc.inLen[v] {
		return lc.atomOf(v, "len:")
	}
	lc.inLen[v] = true
	r := lc.lenOf1(v)
	delete(lc.inLen, v)
	lc.memoLen[v] = r
	return r
}

func (lc *lenCtx) lenOf1(v ssa.Value) lin {
	lc.depth++
	defer func() { lc.depth-- }()
	if lc.depth > 40 {
		return lc.atomOf(v, "len:")
	}
	if pt, ok := v.Type().Underlying().(*types.Pointer); ok {
		if at, ok := pt.Elem().Underlying().(*types.Array); ok {
			return newLin(at.Len())
		}
	}
	if at, ok := v.Type().Underlying().(*types.Array); ok {
		return newLin(at.Len())
	}
	switch x := v.(type) {
	case *ssa.Slice:
		lo := newLin(0)
		if x.Low != nil {
			lo = lc.linOf(x.Low)
		}
		if x.High != nil {
			return lc.linOf(x.High).sub(lo)
		}
		return lc.lenOf(x.X).sub(lo)
	case *ssa.MakeSlice:
		return lc.linOf(x.Len)
	case *ssa.Convert:
		return lc.lenOf(x.X)
	case *ssa.ChangeType:
		return lc.lenOf(x.X)
	case *ssa.Const:
		if x.Value != nil && x.Value.Kind() == constant.String {
			return newLin(int64(len(constant.StringVal(x.Value))))
		}
		if x.Value == nil {
			return newLin(0)
		}
	case *ssa.UnOp:
		if x.Op == token.MUL {
			if fv := lc.forwarded(x); fv != nil {
				return lc.lenOf(fv)
			}
		}
	case *ssa.Call:
		n := lc.p.staticCalleeName(&x.Call)
		// RFC 9380 expanders return exactly the requested number of bytes
		if strings.HasSuffix(n, ".Expand") && strings.Contains(n, "expander") {
			args := x.Call.Args
			return lc.linOf(args[len(args)-1])
		}
		if n == "(*math/big.Int).FillBytes" && len(x.Call.Args) == 2 {
			return lc.lenOf(x.Call.Args[1]) // FillBytes returns its buffer argument
		}
		if r, guarded, ok := retLen(lc, &x.Call, 0, nil); ok && !guarded && x.Call.Signature().Results().Len() == 1 {
			return r
		}
	case *ssa.Extract:
		if call, ok := x.Tuple.(*ssa.Call); ok {
			if r, guarded, ok := retLen(lc, &call.Call, x.Index, nil); ok && (!guarded || errGuarded(x)) {
				return r
			}
		}
	case *ssa.Phi:
		// all edges the same length?
		var first *lin
		same := true
		for _, e := range x.Edges {
			if e == ssa.Value(x) {
				continue
			}
			l := lc.lenOf(e)
			if first == nil {
				first = &l
			} else if l.String() != first.String() {
				same = false
			}
		}
		if same && first != nil {
			return *first
		}
	}
	return lc.atomOf(v, "len:")
}

// ---- facts ----

// cmpFact turns "X op Y" (holding or not) into form ≥ 0 facts.
func (lc *lenCtx) cmpFact(b *ssa.BinOp, holds bool) []lin {
	if _, _, ok := intWidth(b.X.Type()); !ok {
		return nil
	}
	op := b.Op
	if !holds {
		switch op {
		case token.LSS:
			op = token.GEQ
		case token.LEQ:
			op = token.GTR
		case token.GTR:
			op = token.LEQ
		case token.GEQ:
			op = token.LSS
		case token.EQL:
			op = token.NEQ
		case token.NEQ:
			op = token.EQL
		}
	}
	x, y := lc.linOf(b.X), lc.linOf(b.Y)
	switch op {
	case token.LSS: // x < y : y - x - 1 ≥ 0
		return []lin{y.sub(x).plus(-1)}
	case token.LEQ:
		return []lin{y.sub(x)}
	case token.GTR:
		return []lin{x.sub(y).plus(-1)}
	case token.GEQ:
		return []lin{x.sub(y)}
	case token.EQL:
		return []lin{x.sub(y), y.sub(x)}
	}
	return nil
}

// factsAt collects the facts that hold when control reaches instruction at.
func (lc *lenCtx) factsAt(at ssa.Instruction) []lin {
	var facts []lin
	blk := at.Block()
	// branch conditions on the dominator chain
	for b := blk; b != nil; b = b.Idom() {
		d := b.Idom()
		if d == nil {
			break
		}
		ifi, ok := d.Instrs[len(d.Instrs)-1].(*ssa.If)
		if !ok {
			continue
		}
		// which successor of d leads to b exclusively?
		var holds, decided bool
		if d.Succs[0] == b && len(b.Preds) == 1 {
			holds, decided = true, true
		} else if d.Succs[1] == b && len(b.Preds) == 1 {
			holds, decided = false, true
		}
		if !decided {
			continue
		}
		cond := ifi.Cond
		for {
			if u, ok := cond.(*ssa.UnOp); ok && u.Op == token.NOT {
				cond = u.X
				holds = !holds
				continue
			}
			break
		}
		if bo, ok := cond.(*ssa.BinOp); ok && isCmp(bo.Op) {
			facts = append(facts, lc.cmpFact(bo, holds)...)
		}
	}
	// earlier bounds operations that dominate `at` did not panic
	for b := blk; b != nil; b = b.Idom() {
		for _, in := range b.Instrs {
			if b == blk && in == at {
				break
			}
			if b == blk && instrIndex(in) >= instrIndex(at) {
				break
			}
			switch x := in.(type) {
			case *ssa.IndexAddr:
				if _, ok := x.X.Type().Underlying().(*types.Slice); ok {
					facts = append(facts, lc.lenOf(x.X).sub(lc.linOf(x.Index)).plus(-1))
				}
			case *ssa.Slice:
				if _, ok := x.X.Type().Underlying().(*types.Slice); ok || isStringType(x.X.Type()) {
					ln := lc.lenOf(x.X)
					if x.High != nil {
						// high ≤ cap: for sub-slices of the input we only know cap ≥ len; not a len fact
						if isStringType(x.X.Type()) {
							facts = append(facts, ln.sub(lc.linOf(x.High)))
						}
						if x.Low != nil {
							facts = append(facts, lc.linOf(x.High).sub(lc.linOf(x.Low)))
						}
					} else if x.Low != nil {
						facts = append(facts, ln.sub(lc.linOf(x.Low)))
					}
				}
			}
		}
	}
	return facts
}

func isStringType(t types.Type) bool {
	b, ok := t.Underlying().(*types.Basic)
	return ok && b.Info()&types.IsString != 0
}

// prove: g ≥ 0 follows from the facts (bounded Farkas search).
func (lc *lenCtx) prove(g lin, facts []lin) bool {
	// upper bounds of atoms as facts
	all := append([]lin(nil), facts...)
	for k, u := range lc.upper {
		if lc.nonneg[k] {
			all = append(all, newLin(u).sub(atomLin(k)))
		}
	}
	for k := range lc.lower1 {
		all = append(all, atomLin(k).plus(1))
	}
	for k, l := range lc.lowerC {
		all = append(all, atomLin(k).plus(-l))
	}
	for k, u := range lc.upperAny {
		all = append(all, newLin(u).sub(atomLin(k)))
	}
	all = append(all, lc.strideFacts()...)
	all = append(all, lc.defFacts...)
	all = lc.withProducts(g, all)
	// intervals of atoms from the single-atom facts; an empty interval means the facts are contradictory
	// (the program point is unreachable) and an atom pinned to one value is substituted everywhere
	for round := 0; round < 3; round++ {
		lower, upperB := map[string]*big.Rat{}, map[string]*big.Rat{}
		for _, f := range all {
			if len(f.t) != 1 {
				continue
			}
			for k, a := range f.t {
				b := new(big.Rat).Quo(new(big.Rat).Neg(f.c), a) // a·x + c ≥ 0
				if a.Sign() > 0 {                               // x ≥ -c/a
					if o, ok := lower[k]; !ok || b.Cmp(o) > 0 {
						lower[k] = b
					}
				} else if o, ok := upperB[k]; !ok || b.Cmp(o) < 0 {
					upperB[k] = b
				}
			}
		}
		for k := range lc.nonneg {
			if o, ok := lower[k]; !ok || o.Sign() < 0 {
				lower[k] = new(big.Rat)
			}
		}
		pinned := map[string]*big.Rat{}
		for k, l := range lower {
			if u, ok := upperB[k]; ok {
				if c := l.Cmp(u); c > 0 {
					return true
				} else if c == 0 {
					pinned[k] = l
				}
			}
		}
		if len(pinned) == 0 {
			break
		}
		subst := func(f lin) lin {
			r := lin{c: new(big.Rat).Set(f.c), t: map[string]*big.Rat{}}
			for k, a := range f.t {
				if pv, ok := pinned[k]; ok {
					r.c.Add(r.c, new(big.Rat).Mul(a, pv))
				} else {
					r.t[k] = a
				}
			}
			return r
		}
		g = subst(g)
		var nf []lin
		for _, f := range all {
			sf := subst(f)
			if len(sf.t) == 0 {
				if sf.c.Sign() < 0 {
					return true
				}
				continue
			}
			nf = append(nf, tighten(sf))
		}
		all = nf
	}
	if lc.search(g, all, 3) {
		return true
	}
	if farkas(g, all, lc.nonneg) {
		return true
	}
	// integer bound propagation (cuts the rational relaxation misses, e.g. 8q ≤ i ≤ 63 ⇒ q ≤ 7)
	bf, contra := lc.intBounds(all)
	if contra {
		return true
	}
	if len(bf) == 0 {
		return false
	}
	return farkas(g, append(all, bf...), lc.nonneg)
}

// intBounds propagates integer intervals of the atoms through the facts (all atoms are integers):
// from Σ aᵢ·xᵢ + c ≥ 0 and bounds on the other atoms, xⱼ ≥ ⌈·⌉ or xⱼ ≤ ⌊·⌋. Returns the bounds as
// facts, and whether some interval became empty (the facts are contradictory).
func (lc *lenCtx) intBounds(facts []lin) ([]lin, bool) {
	lo, hi := map[string]*big.Int{}, map[string]*big.Int{}
	for k := range lc.nonneg {
		lo[k] = new(big.Int)
	}
	floor := func(r *big.Rat) *big.Int { return new(big.Int).Div(r.Num(), r.Denom()) }
	ceil := func(r *big.Rat) *big.Int {
		n := new(big.Int).Neg(r.Num())
		return n.Neg(n.Div(n, r.Denom()))
	}
	changedAny := false
	for round := 0; round < 6; round++ {
		changed := false
		for _, f := range facts {
			if len(f.t) == 0 || len(f.t) > 4 {
				continue
			}
			for j, aj := range f.t {
				// aj·xj ≥ -c - Σ_{i≠j} ai·xi ; bound the right side from above by the max of Σ ai·xi
				rest := new(big.Rat).Set(f.c) // c + max Σ_{i≠j} ai·xi
				ok := true
				for i, ai := range f.t {
					if i == j {
						continue
					}
					var b *big.Int
					if ai.Sign() > 0 {
						b = hi[i]
					} else {
						b = lo[i]
					}
					if b == nil {
						ok = false
						break
					}
					rest.Add(rest, new(big.Rat).Mul(ai, new(big.Rat).SetInt(b)))
				}
				if !ok {
					continue
				}
				// aj·xj + rest ≥ 0
				q := new(big.Rat).Quo(new(big.Rat).Neg(rest), aj)
				if aj.Sign() > 0 {
					nb := ceil(q)
					if o := lo[j]; o == nil || nb.Cmp(o) > 0 {
						lo[j] = nb
						changed = true
					}
				} else {
					nb := floor(q)
					if o := hi[j]; o == nil || nb.Cmp(o) < 0 {
						hi[j] = nb
						changed = true
					}
				}
				if lo[j] != nil && hi[j] != nil && lo[j].Cmp(hi[j]) > 0 {
					return nil, true
				}
			}
		}
		if !changed {
			break
		}
		changedAny = true
	}
	if !changedAny {
		return nil, false
	}
	var out []lin
	for k, b := range lo {
		if b.Sign() != 0 || !lc.nonneg[k] {
			out = append(out, lin{c: new(big.Rat).SetInt(new(big.Int).Neg(b)), t: map[string]*big.Rat{k: big.NewRat(1, 1)}})
		}
	}
	for k, b := range hi {
		out = append(out, lin{c: new(big.Rat).SetInt(b), t: map[string]*big.Rat{k: big.NewRat(-1, 1)}})
	}
	return out, false
}

// tighten: all atoms are integers, so Σ aᵢ·xᵢ + c ≥ 0 with integer aᵢ of gcd d implies
// Σ (aᵢ/d)·xᵢ + ⌊c/d⌋ ≥ 0.
func tighten(f lin) lin {
	if len(f.t) == 0 {
		return f
	}
	d := new(big.Int)
	for _, a := range f.t {
		if !a.IsInt() {
			return f
		}
		d.GCD(nil, nil, d, new(big.Int).Abs(a.Num()))
	}
	if d.Sign() == 0 || (d.Cmp(big.NewInt(1)) == 0 && f.c.IsInt()) {
		return f
	}
	r := lin{c: new(big.Rat), t: map[string]*big.Rat{}}
	for k, a := range f.t {
		r.t[k] = new(big.Rat).SetInt(new(big.Int).Quo(a.Num(), d))
	}
	// floor(c/d)
	q := new(big.Rat).Quo(f.c, new(big.Rat).SetInt(d))
	fl := new(big.Int).Div(q.Num(), q.Denom()) // Euclidean division: floor for positive denominators
	r.c.SetInt(fl)
	return r
}

func (lc *lenCtx) badComponent(r lin) (string, bool) {
	if r.c.Sign() < 0 {
		return "", true
	}
	var ks []string
	for k := range r.t {
		ks = append(ks, k)
	}
	sort.Strings(ks)
	for _, k := range ks {
		v := r.t[k]
		if v.Sign() < 0 || (v.Sign() > 0 && !lc.nonneg[k]) {
			return k, true
		}
	}
	return "", false
}

func comp(r lin, k string) *big.Rat {
	if k == "" {
		return r.c
	}
	if v, ok := r.t[k]; ok {
		return v
	}
	return new(big.Rat)
}

func (lc *lenCtx) search(r lin, facts []lin, depth int) bool {
	k, bad := lc.badComponent(r)
	if !bad {
		return true
	}
	if depth == 0 {
		return false
	}
	rk := comp(r, k)
	for _, f := range facts {
		fk := comp(f, k)
		if fk.Sign() == 0 || fk.Sign() != rk.Sign() {
			continue
		}
		// r' = r - λ f with λ = rk/fk > 0 zeroes the component
		lam := new(big.Rat).Quo(rk, fk)
		r2 := r.addScaled(f, new(big.Rat).Neg(lam))
		if lc.search(r2, facts, depth-1) {
			return true
		}
	}
	return false
}

// ---- bounds obligations ----

type boundsOp struct {
	f       *ssa.Function
	in      ssa.Instruction
	base    ssa.Value
	idx     ssa.Value // IndexAddr / Index
	lo, hi  ssa.Value // Slice
	isSlice bool
	minLen  int64  // the base must have at least this length (array conversions, library preconditions)
	lib     string // the library callee imposing minLen
}

func (o boundsOp) desc() string {
	if o.minLen > 0 {
		if o.lib != "" {
			return fmt.Sprintf("%s(%s) needs %d bytes", o.lib, descVal(o.base), o.minLen)
		}
		return fmt.Sprintf("(*[%d]T)(%s)", o.minLen, descVal(o.base))
	}
	if o.isSlice {
		return fmt.Sprintf("%s[%s:%s]", descVal(o.base), descVal(o.lo), descVal(o.hi))
	}
	return fmt.Sprintf("%s[%s]", descVal(o.base), descVal(o.idx))
}

// goals of a bounds operation, as forms that must be ≥ 0.
func (lc *lenCtx) goals(o boundsOp) []lin {
	n := lc.lenOf(o.base)
	var gs []lin
	if o.minLen > 0 {
		return []lin{n.plus(-o.minLen)}
	}
	if !o.isSlice {
		i := lc.linOf(o.idx)
		gs = append(gs, n.sub(i).plus(-1)) // i ≤ len-1
		if _, uns, ok := intWidth(o.idx.Type()); !(ok && uns) {
			gs = append(gs, i) // i ≥ 0
		}
		return gs
	}
	lo := newLin(0)
	if o.lo != nil {
		lo = lc.linOf(o.lo)
		if _, uns, ok := intWidth(o.lo.Type()); !(ok && uns) {
			gs = append(gs, lo)
		}
	}
	if o.hi != nil {
		hi := lc.linOf(o.hi)
		gs = append(gs, n.sub(hi)) // hi ≤ len (≤ cap)
		gs = append(gs, hi.sub(lo))
	} else {
		gs = append(gs, n.sub(lo))
	}
	return gs
}

// rootParam: the slice parameter whose length atom appears in the base's length, if the base is a
// (sub-slice of a) parameter.
func rootParam(v ssa.Value) *ssa.Parameter {
	for i := 0; i < 32; i++ {
		switch x := v.(type) {
		case *ssa.Parameter:
			return x
		case *ssa.Slice:
			v = x.X
		case *ssa.Convert:
			v = x.X
		case *ssa.ChangeType:
			v = x.X
		default:
			return nil
		}
	}
	return nil
}

type lenEngine struct {
	ctxK map[string]*lenCtx
	iv   map[*ssa.Parameter][2]int64 // provided length interval of slice parameters (hi < 0: unbounded)
	p    *Program
	ctx  map[*ssa.Function]*lenCtx
	t    *taint
	bind map[*ssa.Function][]siteBinding
	reqs map[*ssa.Parameter]int64 // minimal length required of a slice parameter
	why  map[*ssa.Parameter]string
}

func newLenEngine(p *Program) *lenEngine {
	return &lenEngine{ctxK: map[string]*lenCtx{}, iv: map[*ssa.Parameter][2]int64{}, p: p, ctx: map[*ssa.Function]*lenCtx{}, reqs: map[*ssa.Parameter]int64{}, why: map[*ssa.Parameter]string{}}
}

// ctxWith: a context of f in which some integer parameters are bound to constants.
func (e *lenEngine) ctxWith(f *ssa.Function, conds []intCond) *lenCtx {
	var mine []intCond
	for _, cd := range conds {
		if cd.par.Parent() == f {
			mine = append(mine, cd)
		}
	}
	if len(mine) == 0 {
		return e.ctxOf(f)
	}
	key := fmt.Sprintf("%p", f)
	for _, cd := range mine {
		key += fmt.Sprintf("|%p=%d", cd.par, cd.val)
	}
	if c, ok := e.ctxK[key]; ok {
		return c
	}
	c := newLenCtx(e.p, f)
	c.paramConst = map[*ssa.Parameter]int64{}
	for _, cd := range mine {
		c.paramConst[cd.par] = cd.val
	}
	e.ctxK[key] = c
	return c
}

func (e *lenEngine) ctxOf(f *ssa.Function) *lenCtx {
	if c, ok := e.ctx[f]; ok {
		return c
	}
	c := newLenCtx(e.p, f)
	e.ctx[f] = c
	return c
}

// decide one operation: proven locally ("local"), proven under a length requirement on a parameter
// ("requires", param, K), or undecided.
// intCond: an integer parameter equals a constant (from a dominating comparison, e.g. a switch arm).
type intCond struct {
	par *ssa.Parameter
	val int64
}

// condsAt: equalities "integer parameter == constant" that dominate the instruction.
func (lc *lenCtx) condsAt(at ssa.Instruction) []intCond {
	var out []intCond
	for b := at.Block(); b != nil; b = b.Idom() {
		d := b.Idom()
		if d == nil {
			break
		}
		ifi, ok := d.Instrs[len(d.Instrs)-1].(*ssa.If)
		if !ok || len(b.Preds) != 1 {
			continue
		}
		bo, ok := ifi.Cond.(*ssa.BinOp)
		if !ok {
			continue
		}
		eqEdge := (bo.Op == token.EQL && d.Succs[0] == b) || (bo.Op == token.NEQ && d.Succs[1] == b)
		if !eqEdge {
			continue
		}
		for _, pr := range [][2]ssa.Value{{bo.X, bo.Y}, {bo.Y, bo.X}} {
			par, ok1 := pr[0].(*ssa.Parameter)
			k, ok2 := pr[1].(*ssa.Const)
			if ok1 && ok2 && k.Value != nil && k.Value.Kind() == constant.Int {
				if n, ok := constant.Int64Val(k.Value); ok {
					out = append(out, intCond{par, n})
				}
			}
		}
	}
	return out
}

func (e *lenEngine) decide(o boundsOp) (verdict string, par *ssa.Parameter, k int64, detail string) {
	lc := e.ctxOf(o.f)
	base := e.paramFacts(o.f)
	facts := append(lc.factsAt(o.in), base...)
	goals := lc.goals(o)
	if lc.prove(newLin(-1), facts) {
		return "local", nil, 0, "unreachable: the dominating conditions contradict the lengths provided by the callers"
	}
	if d := os.Getenv("DBGLEN"); d != "" && strings.Contains(fname(o.f), d) {
		fmt.Printf("DBGLEN %s %s\n  iv:", e.p.pos(o.in.Pos()), o.desc())
		for _, par := range o.f.Params {
			if iv, ok := e.iv[par]; ok {
				fmt.Printf(" %s=%v", par.Name(), iv)
			}
		}
		fmt.Println()
		for _, f := range facts {
			fmt.Println("  fact", f.String())
		}
		for _, g := range goals {
			fmt.Println("  goal", g.String(), lc.proveAt(g, o.in, base))
		}
		for _, b := range e.bindings(o.f) {
			fmt.Printf("  binding ints=%v lens=%v\n", b.ints, b.lens)
		}
	}
	allOK := true
	var failing []lin
	for _, g := range goals {
		if !lc.proveAt(g, o.in, base) {
			allOK = false
			failing = append(failing, g)
		}
	}
	if allOK {
		return "local", nil, 0, fmt.Sprintf("%d goal(s) from %d fact(s)", len(goals), len(facts))
	}
	// per call site: every tainted call site binds the integer parameters to constants and/or provides
	// exact slice lengths; the operation is proven under each binding separately
	if bs := e.bindings(o.f); len(bs) > 0 {
		okAll := true
		for _, b := range bs {
			blc := e.ctxWith(o.f, b.ints)
			bbase := e.paramFactsIn(blc, o.f)
			for par, n := range b.lens {
				l := blc.lenOf(par)
				bbase = append(bbase, l.plus(-n), newLin(n).sub(l))
			}
			if blc.prove(newLin(-1), append(blc.factsAt(o.in), bbase...)) {
				continue
			}
			for _, g := range blc.goals(o) {
				if !blc.proveAt(g, o.in, bbase) {
					okAll = false
					break
				}
			}
			if !okAll {
				break
			}
		}
		if okAll {
			return "local", nil, 0, fmt.Sprintf("proven separately under each of the %d call-site bindings of constant arguments and exact lengths", len(bs))
		}
	}
	// try a constant length requirement on the root parameter of the base
	rp := rootParam(o.base)
	if rp != nil {
		if _, ok := rp.Type().Underlying().(*types.Slice); ok || isStringType(rp.Type()) {
			if k, ok := lc.minLen(failing, o.in, base, lc.lenOf(rp)); ok {
				return "requires", rp, k, fmt.Sprintf("needs len(%s) ≥ %d", paramDesc(rp), k)
			}
		}
	}
	var gs []string
	for _, g := range failing {
		gs = append(gs, g.String()+" ≥ 0")
	}
	return "undecided", nil, 0, "cannot prove " + strings.Join(gs, " and ")
}

func sizeLike(n string) bool {
	return strings.HasSuffix(n, "Size") || strings.HasSuffix(n, "Length") || strings.HasSuffix(n, "Len") || strings.Contains(n, "sizeDH") || strings.HasSuffix(n, "BitLen") || strings.HasSuffix(n, "byteSize")
}

// getter: a call of an argument-less size accessor. Two calls of the same accessor on the same
// receiver denote the same (non-negative) atom; a circl accessor whose body is a sum of other
// accessors on fields of its receiver is expanded.
func (lc *lenCtx) getter(x *ssa.Call) (lin, bool) {
	c := &x.Call
	name := lc.p.staticCalleeName(c)
	if !sizeLike(name) {
		return lin{}, false
	}
	if _, _, ok := intWidth(x.Type()); !ok {
		return lin{}, false
	}
	var recv ssa.Value
	switch {
	case c.IsInvoke() && len(c.Args) == 0:
		recv = c.Value
	case !c.IsInvoke() && len(c.Args) == 1 && c.StaticCallee() != nil && c.StaticCallee().Signature.Recv() != nil:
		recv = c.Args[0]
	case !c.IsInvoke() && len(c.Args) == 0:
		recv = nil
	default:
		return lin{}, false
	}
	rd := ""
	if recv != nil {
		rd = strings.TrimPrefix(descVal(recv), "&")
		if strings.Contains(rd, "?") || strings.Contains(rd, "phi(") {
			return lin{}, false
		}
	}
	// expansion of simple circl accessors
	if cal := c.StaticCallee(); cal != nil && inlinable(cal) && len(cal.Blocks) == 1 && lc.inlineDepth < 3 {
		if ret, ok := cal.Blocks[0].Instrs[len(cal.Blocks[0].Instrs)-1].(*ssa.Return); ok && len(ret.Results) == 1 {
			sub := newLenCtx(lc.p, cal)
			sub.inlineDepth = lc.inlineDepth + 1
			sub.recvDesc = rd
			r := sub.linOf(ret.Results[0])
			// only accept expansions made of constants and accessor atoms
			okAll := true
			for k := range r.t {
				if !strings.HasPrefix(k, "size:") {
					okAll = false
				}
			}
			if okAll {
				for k := range r.t {
					lc.nonneg[k] = true
				}
				return r, true
			}
		}
	}
	if lc.recvDesc != "" && strings.HasPrefix(rd, "param#0") {
		rd = lc.recvDesc + strings.TrimPrefix(rd, "param#0")
	}
	key := "size:" + name + "(" + rd + ")"
	lc.nonneg[key] = true
	if cal := c.StaticCallee(); cal != nil && inlinable(cal) {
		// all returns constant: the accessor ranges over a finite set
		r := runGuard(&GuardQuery{P: lc.p, Root: cal, MaxDepth: 2})
		lo, hi := int64(-1), int64(-1)
		okc := len(r.Returns) > 0
		for _, ri := range r.Returns {
			if len(ri.Vals) != 1 || ri.Vals[0].k != kConst || ri.Vals[0].c.Kind() != constant.Int {
				okc = false
				break
			}
			n, _ := constant.Int64Val(ri.Vals[0].c)
			if lo < 0 || n < lo {
				lo = n
			}
			if n > hi {
				hi = n
			}
		}
		if okc && lo >= 0 {
			lc.upper[key] = hi
			lc.lowerC[key] = lo
		}
	}
	return atomLin(key), true
}

func sliceLike(t types.Type) bool {
	if _, ok := t.Underlying().(*types.Slice); ok {
		return true
	}
	return isStringType(t)
}

// paramFacts: the length intervals the callers provide for f's slice parameters.
func (e *lenEngine) paramFacts(f *ssa.Function) []lin { return e.paramFactsIn(e.ctxOf(f), f) }

func (e *lenEngine) paramFactsIn(lc *lenCtx, f *ssa.Function) []lin {
	var out []lin
	for _, par := range f.Params {
		iv, ok := e.iv[par]
		if !ok || !sliceLike(par.Type()) {
			continue
		}
		l := lc.lenOf(par)
		if iv[0] > 0 {
			out = append(out, l.plus(-iv[0]))
		}
		if iv[1] >= 0 {
			out = append(out, newLin(iv[1]).sub(l))
		}
	}
	return out
}

// bounds of a length form at a call site: the largest K with form ≥ K and the smallest K with form ≤ K provable.
func (e *lenEngine) boundsAt(lc *lenCtx, form lin, facts []lin) (lo, hi int64) {
	const maxK = int64(1) << 24
	lo, hi = 0, -1
	if !lc.prove(form, facts) {
		return 0, -1
	}
	// largest K with form - K ≥ 0
	a, b := int64(0), maxK
	for a < b {
		mid := (a + b + 1) / 2
		if lc.prove(form.plus(-mid), facts) {
			a = mid
		} else {
			b = mid - 1
		}
	}
	lo = a
	if lc.prove(newLin(maxK).sub(form), facts) {
		a, b = lo, maxK
		for a < b {
			mid := (a + b) / 2
			if lc.prove(newLin(mid).sub(form), facts) {
				b = mid
			} else {
				a = mid + 1
			}
		}
		hi = a
	}
	return lo, hi
}

// intervals computes, top-down from the decoding entry points, the length interval every tainted
// call site provides for each slice parameter of each tainted-reachable function.
func (e *lenEngine) intervals(t *taint, entries []*ssa.Function) {
	e.t = t
	isEntry := map[*ssa.Function]bool{}
	for _, f := range entries {
		isEntry[f] = true
		for _, par := range f.Params {
			if sliceLike(par.Type()) {
				e.iv[par] = [2]int64{0, -1}
			}
		}
	}
	cg := e.p.CallGraph()
	var funcs []*ssa.Function
	for f := range t.funcs {
		funcs = append(funcs, f)
	}
	sort.Slice(funcs, func(i, j int) bool { return funcs[i].String() < funcs[j].String() })
	for round := 0; round < 6; round++ {
		changed := false
		for _, callee := range funcs {
			if isEntry[callee] {
				continue
			}
			node := cg.Nodes[callee]
			if node == nil {
				continue
			}
			for pi, par := range callee.Params {
				if !sliceLike(par.Type()) {
					continue
				}
				have := false
				var lo, hi int64
				for _, edge := range node.In {
					caller := edge.Caller.Func
					if !t.funcs[caller] || edge.Site == nil || caller == callee {
						continue
					}
					c0 := edge.Site.Common()
					var args []ssa.Value
					if c0.IsInvoke() {
						args = append(args, c0.Value)
					}
					args = append(args, c0.Args...)
					if len(args) != len(callee.Params) {
						continue
					}
					lc := e.ctxOf(caller)
					facts := append(lc.factsAt(edge.Site), e.paramFacts(caller)...)
					l, h := e.boundsAt(lc, lc.lenOf(args[pi]), facts)
					if !have {
						lo, hi, have = l, h, true
					} else {
						if l < lo {
							lo = l
						}
						if h < 0 || (hi >= 0 && h > hi) {
							hi = h
						}
					}
				}
				if !have {
					continue
				}
				if old, ok := e.iv[par]; !ok || old != [2]int64{lo, hi} {
					e.iv[par] = [2]int64{lo, hi}
					changed = true
				}
			}
		}
		if !changed {
			break
		}
	}
}

// strideFacts: two induction variables of one loop header with constant initial values and constant
// steps advance in lock step: (a - a0)·sb == (b - b0)·sa.
func (lc *lenCtx) strideFacts() []lin {
	if lc.stridesDone {
		return lc.strides
	}
	lc.stridesDone = true
	type ind struct {
		phi        *ssa.Phi
		init, step int64
	}
	for _, b := range lc.f.Blocks {
		var inds []ind
		for _, in := range b.Instrs {
			ph, ok := in.(*ssa.Phi)
			if !ok {
				break
			}
			if _, _, ok := intWidth(ph.Type()); !ok || len(ph.Edges) != 2 {
				continue
			}
			var init, step *int64
			for _, e := range ph.Edges {
				if k, ok := e.(*ssa.Const); ok && k.Value != nil {
					if n, ok := constant.Int64Val(k.Value); ok {
						nn := n
						init = &nn
					}
				} else if bo, ok := e.(*ssa.BinOp); ok && bo.Op == token.ADD && bo.X == ssa.Value(ph) {
					if k, ok := bo.Y.(*ssa.Const); ok && k.Value != nil {
						if n, ok := constant.Int64Val(k.Value); ok && n > 0 {
							// the increment must be in the loop latch executed once per iteration: same block as the other's
							nn := n
							step = &nn
						}
					}
				}
			}
			if init != nil && step != nil {
				inds = append(inds, ind{ph, *init, *step})
			}
		}
		for i := 0; i < len(inds); i++ {
			for j := i + 1; j < len(inds); j++ {
				a, bb := inds[i], inds[j]
				// both increments must sit in the same block (one per iteration each)
				ba := incBlock(a.phi)
				if ba == nil || ba != incBlock(bb.phi) {
					continue
				}
				la, lb := lc.linOf(a.phi), lc.linOf(bb.phi)
				// (la - a0)*sb - (lb - b0)*sa == 0
				f := newLin(0).addScaled(la.plus(-a.init), big.NewRat(bb.step, 1)).addScaled(lb.plus(-bb.init), big.NewRat(-a.step, 1))
				lc.strides = append(lc.strides, f, newLin(0).sub(f))
			}
		}
	}
	return lc.strides
}

func incBlock(ph *ssa.Phi) *ssa.BasicBlock {
	for _, e := range ph.Edges {
		if bo, ok := e.(*ssa.BinOp); ok && bo.X == ssa.Value(ph) {
			return bo.Block()
		}
	}
	return nil
}

// constCall: a circl function applied to integer constants only, evaluated by constant propagation.
func (lc *lenCtx) constCall(x *ssa.Call) (lin, bool) {
	cal := x.Call.StaticCallee()
	if cal == nil || !inlinable(cal) || len(x.Call.Args) == 0 || cal.Signature.Results().Len() != 1 {
		return lin{}, false
	}
	if _, _, ok := intWidth(x.Type()); !ok {
		return lin{}, false
	}
	args := make([]lat, len(x.Call.Args))
	for i, a := range x.Call.Args {
		if par, ok := a.(*ssa.Parameter); ok {
			if n, ok := lc.paramConst[par]; ok {
				args[i] = latInt(n)
				continue
			}
		}
		k, ok := a.(*ssa.Const)
		if !ok || k.Value == nil || k.Value.Kind() != constant.Int {
			return lin{}, false
		}
		args[i] = lat{k: kConst, c: k.Value}
	}
	r := runGuard(&GuardQuery{P: lc.p, Root: cal, Args: args, MaxDepth: 3})
	var val *int64
	for _, ri := range r.Returns {
		if len(ri.Vals) != 1 || ri.Vals[0].k != kConst || ri.Vals[0].c.Kind() != constant.Int {
			return lin{}, false
		}
		n, ok := constant.Int64Val(ri.Vals[0].c)
		if !ok || (val != nil && *val != n) {
			return lin{}, false
		}
		val = &n
	}
	if val == nil {
		return lin{}, false
	}
	return newLin(*val), true
}

// forwarded: the value stored by the single store to the same field address that dominates the load
// (no other store to that location in the function).
func (lc *lenCtx) forwarded(load *ssa.UnOp) ssa.Value {
	fa, ok := load.X.(*ssa.FieldAddr)
	if !ok {
		return nil
	}
	key := descAddr(fa)
	if strings.Contains(key, "?") || strings.Contains(key, "phi(") {
		return nil
	}
	var only *ssa.Store
	n := 0
	for _, b := range lc.f.Blocks {
		for _, in := range b.Instrs {
			st, ok := in.(*ssa.Store)
			if !ok {
				continue
			}
			if f2, ok := st.Addr.(*ssa.FieldAddr); ok && f2.Field == fa.Field && descAddr(f2) == key {
				n++
				only = st
			}
		}
	}
	if n == 1 && instrDominates(only, load) && !lc.mayWriteField(fa) {
		return only.Val
	}
	return nil
}

// mayWriteField: some call in the function may write the field behind fa: a circl callee whose
// mod-set contains that field (or something unrecognisable) of a parameter bound to the same struct
// pointer, or any other callee that receives the struct pointer itself.
func (lc *lenCtx) mayWriteField(fa *ssa.FieldAddr) bool {
	if r, ok := lc.writeMemo[fa]; ok {
		return r
	}
	if lc.writeMemo == nil {
		lc.writeMemo = map[*ssa.FieldAddr]bool{}
	}
	strip := func(v ssa.Value) ssa.Value {
		for {
			switch x := v.(type) {
			case *ssa.ChangeType:
				v = x.X
			case *ssa.Convert:
				v = x.X
			default:
				return v
			}
		}
	}
	base := strip(fa.X)
	name := fieldName(fa)
	res := false
	for _, b := range lc.f.Blocks {
		for _, in := range b.Instrs {
			ci, ok := in.(ssa.CallInstruction)
			if !ok {
				continue
			}
			c := ci.Common()
			if _, isB := c.Value.(*ssa.Builtin); isB {
				continue
			}
			var args []ssa.Value
			if c.IsInvoke() {
				args = append(args, c.Value)
			}
			args = append(args, c.Args...)
			passes := -1
			for i, a := range args {
				if strip(a) == base {
					passes = i
				}
			}
			if passes < 0 {
				continue
			}
			cal := c.StaticCallee()
			if cal == nil || !inlinable(cal) {
				res = true
				continue
			}
			for _, w := range lc.p.Mod().of(cal) {
				if w.Root != fmt.Sprintf("param#%d", passes) {
					continue
				}
				if t := topField(w.Via); t == name || t == "*" || t == "" {
					res = true
				}
			}
		}
	}
	lc.writeMemo[fa] = res
	return res
}

// siteBinding: what one tainted call site fixes about its callee's parameters.
type siteBinding struct {
	ints []intCond
	lens map[*ssa.Parameter]int64
}

// bindings of f: one per tainted call site (deduplicated); nil when f is an entry point, has no call
// site, or has too many distinct bindings.
func (e *lenEngine) bindings(f *ssa.Function) []siteBinding {
	if bs, ok := e.bind[f]; ok {
		return bs
	}
	if e.bind == nil {
		e.bind = map[*ssa.Function][]siteBinding{}
	}
	e.bind[f] = nil
	if e.t == nil {
		return nil
	}
	node := e.p.CallGraph().Nodes[f]
	if node == nil {
		return nil
	}
	seen := map[string]bool{}
	var out []siteBinding
	for _, edge := range node.In {
		caller := edge.Caller.Func
		if !e.t.funcs[caller] || edge.Site == nil || caller == f {
			continue
		}
		c0 := edge.Site.Common()
		var args []ssa.Value
		if c0.IsInvoke() {
			args = append(args, c0.Value)
		}
		args = append(args, c0.Args...)
		if len(args) != len(f.Params) {
			return nil
		}
		lc := e.ctxOf(caller)
		facts := append(lc.factsAt(edge.Site), e.paramFacts(caller)...)
		b := siteBinding{lens: map[*ssa.Parameter]int64{}}
		key := ""
		for i, par := range f.Params {
			if sliceLike(par.Type()) {
				lo, hi := e.boundsAt(lc, lc.lenOf(args[i]), facts)
				if hi >= 0 && lo == hi {
					b.lens[par] = lo
					key += fmt.Sprintf("|%d:len=%d", i, lo)
				}
			} else if _, _, ok := intWidth(par.Type()); ok {
				r := lc.linOf(args[i])
				if len(r.t) == 0 && r.c.IsInt() {
					n := r.c.Num().Int64()
					b.ints = append(b.ints, intCond{par, n})
					key += fmt.Sprintf("|%d=%d", i, n)
				}
			}
		}
		if key == "" {
			return nil // an unconstrained call site: the unbound analysis is all there is
		}
		if !seen[key] {
			seen[key] = true
			out = append(out, b)
		}
	}
	if len(out) > 12 {
		return nil
	}
	e.bind[f] = out
	return out
}

// callerBindings: like bindings, but for an entry point that is also called from other input-handling code
// of the library: one binding per tainted call site, an empty one when the site fixes nothing.
func (e *lenEngine) callerBindings(f *ssa.Function) (out []siteBinding, sites []ssa.CallInstruction) {
	if e.t == nil {
		return nil, nil
	}
	node := e.p.CallGraph().Nodes[f]
	if node == nil {
		return nil, nil
	}
	for _, edge := range node.In {
		caller := edge.Caller.Func
		if !e.t.funcs[caller] || edge.Site == nil || caller == f || !isCirclFunc(caller) {
			continue
		}
		c0 := edge.Site.Common()
		if c0.StaticCallee() != f {
			continue // only direct calls: a dynamic dispatch reaches f through its interface contract
		}
		var args []ssa.Value
		args = append(args, c0.Args...)
		if len(args) != len(f.Params) {
			continue
		}
		lc := e.ctxOf(caller)
		facts := append(lc.factsAt(edge.Site), e.paramFacts(caller)...)
		b := siteBinding{lens: map[*ssa.Parameter]int64{}}
		for i, par := range f.Params {
			if sliceLike(par.Type()) {
				lo, hi := e.boundsAt(lc, lc.lenOf(args[i]), facts)
				if hi >= 0 && lo == hi {
					b.lens[par] = lo
				}
			}
		}
		out = append(out, b)
		sites = append(sites, edge.Site)
	}
	return out, sites
}

// minLen: the smallest K such that the goals follow at `at` from the facts together with la ≥ K,
// where the added fact does not contradict the others (a contradictory requirement proves nothing).
func (lc *lenCtx) minLen(goals []lin, at ssa.Instruction, base []lin, la lin) (int64, bool) {
	const maxK = int64(1) << 20
	with := func(K int64) []lin { return append(append([]lin(nil), base...), la.plus(-K)) }
	proves := func(K int64) bool {
		b := with(K)
		for _, g := range goals {
			if !lc.proveAt(g, at, b) {
				return false
			}
		}
		return true
	}
	if !proves(maxK) {
		return 0, false
	}
	lo, hi := int64(0), maxK
	for lo < hi {
		mid := (lo + hi) / 2
		if proves(mid) {
			hi = mid
		} else {
			lo = mid + 1
		}
	}
	if lc.prove(newLin(-1), append(lc.factsAt(at), with(lo)...)) {
		return 0, false
	}
	return lo, true
}

func prodName(ka, kb string) string {
	ks := []string{ka, kb}
	sort.Strings(ks)
	return "prod:(" + ks[0] + ")*(" + ks[1] + ")"
}

// mulLin: the product of two forms, with one canonical atom per product of atoms.
func (lc *lenCtx) mulLin(a, b lin) lin {
	r := lin{c: new(big.Rat).Mul(a.c, b.c), t: map[string]*big.Rat{}}
	add := func(k string, c *big.Rat) {
		if c.Sign() == 0 {
			return
		}
		if o, ok := r.t[k]; ok {
			n := new(big.Rat).Add(o, c)
			if n.Sign() == 0 {
				delete(r.t, k)
			} else {
				r.t[k] = n
			}
		} else {
			r.t[k] = new(big.Rat).Set(c)
		}
	}
	for ka, ca := range a.t {
		add(ka, new(big.Rat).Mul(ca, b.c))
		for kb, cb := range b.t {
			n := prodName(ka, kb)
			if lc.nonneg[ka] && lc.nonneg[kb] {
				lc.nonneg[n] = true
			}
			add(n, new(big.Rat).Mul(ca, cb))
		}
	}
	for kb, cb := range b.t {
		add(kb, new(big.Rat).Mul(cb, a.c))
	}
	return r
}

// withProducts: for every non-negative atom L that is a factor of a product atom of the goal, each
// small fact f ≥ 0 also gives f·L ≥ 0.
func (lc *lenCtx) withProducts(g lin, facts []lin) []lin {
	factors := map[string]bool{}
	for k := range g.t {
		if !strings.HasPrefix(k, "prod:") {
			continue
		}
		for f := range lc.nonneg {
			if strings.HasPrefix(f, "prod:") {
				continue
			}
			if strings.HasPrefix(k, "prod:("+f+")*(") || strings.HasSuffix(k, ")*("+f+")") {
				factors[f] = true
			}
		}
	}
	if len(factors) == 0 {
		return facts
	}
	out := facts
	for L := range factors {
		l := atomLin(L)
		for _, f := range facts {
			if len(f.t) == 0 || len(f.t) > 3 {
				continue
			}
			prodFree := true
			for k := range f.t {
				if strings.HasPrefix(k, "prod:") {
					prodFree = false
				}
			}
			if prodFree {
				out = append(out, lc.mulLin(f, l))
			}
		}
	}
	return out
}

// valueOfAtom: the SSA value an atom stands for (nil for synthetic atoms).
func (lc *lenCtx) valueOfAtom(name string) ssa.Value {
	for v, n := range lc.names {
		if n == name {
			return v
		}
	}
	return nil
}

// proveAt: g ≥ 0 holds whenever control reaches `at`, from the facts that hold there plus the
// position-independent base facts; falls back to induction over a loop counter occurring in g.
func (lc *lenCtx) proveAt(g lin, at ssa.Instruction, base []lin) bool {
	facts := append(lc.factsAt(at), base...)
	if lc.prove(g, facts) {
		return true
	}
	return lc.proveInd(g, base)
}

// proveInd: g is an invariant of the loop whose header phi a occurs in g: it holds for every
// initial value (with the facts at the end of the entering block) and is preserved by every step
// a := a ± c (with the facts at the step and g itself as hypothesis); the other atoms of g are
// defined outside the loop.
func (lc *lenCtx) proveInd(g lin, base []lin) bool {
	if lc.inInd {
		return false
	}
	lc.inInd = true
	defer func() { lc.inInd = false }()
	for a, coef := range g.t {
		ph, ok := lc.valueOfAtom(a).(*ssa.Phi)
		if !ok || !strings.HasPrefix(a, "v:") {
			continue
		}
		bits, uns, okw := intWidth(ph.Type())
		if !okw || bits != 64 {
			continue
		}
		hdr := ph.Block()
		invariant := true
		for k := range g.t {
			if k == a {
				continue
			}
			v := lc.valueOfAtom(k)
			switch x := v.(type) {
			case *ssa.Parameter:
			case ssa.Instruction:
				if x.Block() == hdr || !x.Block().Dominates(hdr) {
					invariant = false
				}
			default:
				invariant = false
			}
		}
		if !invariant {
			continue
		}
		rest := g.clone()
		delete(rest.t, a)
		okAll := true
		for i, e := range ph.Edges {
			if bo, isB := e.(*ssa.BinOp); isB && (bo.Op == token.ADD || bo.Op == token.SUB) && bo.X == ssa.Value(ph) {
				if k, isK := bo.Y.(*ssa.Const); isK && k.Value != nil {
					if c, isI := constant.Int64Val(k.Value); isI {
						if bo.Op == token.SUB {
							c = -c
						}
						next := atomLin(a).plus(c)
						facts := append(append(lc.factsAt(bo), base...), g)
						if uns && c < 0 && !lc.prove(next, facts) {
							okAll = false
							break
						}
						if !lc.prove(rest.addScaled(next, coef), facts) {
							okAll = false
							break
						}
						continue
					}
				}
			}
			if i >= len(hdr.Preds) {
				okAll = false
				break
			}
			pred := hdr.Preds[i]
			last := pred.Instrs[len(pred.Instrs)-1]
			facts := append(lc.factsAt(last), base...)
			// the branch of the entering block that leads to the header
			if ifi, isIf := last.(*ssa.If); isIf {
				if bo, isC := ifi.Cond.(*ssa.BinOp); isC && isCmp(bo.Op) && pred.Succs[0] != pred.Succs[1] {
					facts = append(facts, lc.cmpFact(bo, pred.Succs[0] == hdr)...)
				}
			}
			if !lc.prove(rest.addScaled(lc.linOf(e), coef), facts) {
				okAll = false
				break
			}
		}
		if okAll {
			return true
		}
	}
	return false
}

// ---- return-length summaries ----

// retEnv evaluates length expressions of a callee in terms of the caller's forms.
type retEnv struct {
	lc     *lenCtx // the caller's context: all atoms live here
	callee *ssa.Function
	args   []ssa.Value
	parent *retEnv
	depth  int
}

func (en *retEnv) paramIdx(p *ssa.Parameter) int {
	for i, q := range en.callee.Params {
		if q == p {
			return i
		}
	}
	return -1
}

func (en *retEnv) lenOf(v ssa.Value) (lin, bool) {
	if pt, ok := v.Type().Underlying().(*types.Pointer); ok {
		if at, ok := pt.Elem().Underlying().(*types.Array); ok {
			return newLin(at.Len()), true
		}
	}
	switch x := v.(type) {
	case *ssa.Parameter:
		i := en.paramIdx(x)
		if i < 0 || i >= len(en.args) {
			return lin{}, false
		}
		if en.parent != nil {
			return en.parent.lenOf(en.args[i])
		}
		return en.lc.lenOf(en.args[i]), true
	case *ssa.MakeSlice:
		return en.intOf(x.Len)
	case *ssa.Slice:
		lo := newLin(0)
		if x.Low != nil {
			l, ok := en.intOf(x.Low)
			if !ok {
				return lin{}, false
			}
			lo = l
		}
		if x.High != nil {
			h, ok := en.intOf(x.High)
			if !ok {
				return lin{}, false
			}
			return h.sub(lo), true
		}
		b, ok := en.lenOf(x.X)
		if !ok {
			return lin{}, false
		}
		return b.sub(lo), true
	case *ssa.Const:
		if x.Value == nil {
			return newLin(0), true
		}
		if x.Value.Kind() == constant.String {
			return newLin(int64(len(constant.StringVal(x.Value)))), true
		}
	case *ssa.Convert:
		return en.lenOf(x.X)
	case *ssa.ChangeType:
		return en.lenOf(x.X)
	case *ssa.Call:
		if en.lc.p.staticCalleeName(&x.Call) == "(*math/big.Int).FillBytes" && len(x.Call.Args) == 2 {
			return en.lenOf(x.Call.Args[1]) // FillBytes returns its buffer argument
		}
		if r, guarded, ok := retLen(en.lc, &x.Call, 0, en); ok && !guarded {
			return r, true
		}
	}
	return lin{}, false
}

func (en *retEnv) intOf(v ssa.Value) (lin, bool) {
	bits, _, okw := intWidth(v.Type())
	if !okw || bits != 64 {
		return lin{}, false
	}
	switch x := v.(type) {
	case *ssa.Const:
		if x.Value != nil && x.Value.Kind() == constant.Int {
			if n, ok := constant.Int64Val(x.Value); ok {
				return newLin(n), true
			}
		}
	case *ssa.Parameter:
		i := en.paramIdx(x)
		if i < 0 || i >= len(en.args) {
			return lin{}, false
		}
		if en.parent != nil {
			return en.parent.intOf(en.args[i])
		}
		return en.lc.linOf(en.args[i]), true
	case *ssa.Call:
		if b, ok := x.Call.Value.(*ssa.Builtin); ok && (b.Name() == "len" || b.Name() == "cap") && len(x.Call.Args) == 1 {
			return en.lenOf(x.Call.Args[0])
		}
	case *ssa.BinOp:
		switch x.Op {
		case token.ADD, token.SUB:
			a, ok1 := en.intOf(x.X)
			b, ok2 := en.intOf(x.Y)
			if !ok1 || !ok2 {
				return lin{}, false
			}
			if x.Op == token.ADD {
				return a.add(b), true
			}
			r := a.sub(b)
			if _, uns, _ := intWidth(x.Type()); uns && !en.lc.isNonNeg(r) {
				return lin{}, false
			}
			return r, true
		case token.MUL:
			a, ok1 := en.intOf(x.X)
			b, ok2 := en.intOf(x.Y)
			if ok1 && ok2 && (len(a.t) == 0 || len(b.t) == 0) {
				return en.lc.mulLin(a, b), true
			}
		case token.QUO, token.SHR:
			k, isK := x.Y.(*ssa.Const)
			X, ok := en.intOf(x.X)
			if !isK || k.Value == nil || !ok || !en.lc.isNonNeg(X) {
				return lin{}, false
			}
			m, _ := constant.Int64Val(k.Value)
			if x.Op == token.SHR {
				if m < 0 || m >= 32 {
					return lin{}, false
				}
				m = int64(1) << uint(m)
			}
			if m <= 0 {
				return lin{}, false
			}
			// a canonical quotient atom of the caller: q = ⌊X/m⌋
			name := fmt.Sprintf("div:(%s)/%d", X.String(), m)
			q := atomLin(name)
			if !en.lc.nonneg[name] {
				en.lc.nonneg[name] = true
				mq := newLin(0).addScaled(q, big.NewRat(m, 1))
				en.lc.defFacts = append(en.lc.defFacts, X.sub(mq), mq.plus(m-1).sub(X))
			}
			return q, true
		}
	}
	return lin{}, false
}

// retLen: the length of result idx of a statically resolved circl call, when every return of the
// callee gives the same form over the caller's values. guarded: the form only holds for returns
// whose error result is nil (the returns with a non-nil error were skipped).
func retLen(lc *lenCtx, c *ssa.CallCommon, idx int, parent *retEnv) (r lin, guarded bool, ok bool) {
	cal := c.StaticCallee()
	if cal == nil || cal.Blocks == nil || !inlinable(cal) {
		return lin{}, false, false
	}
	depth := 0
	if parent != nil {
		depth = parent.depth + 1
	}
	if depth > 3 || len(c.Args) != len(cal.Params) {
		return lin{}, false, false
	}
	en := &retEnv{lc: lc, callee: cal, args: c.Args, parent: parent, depth: depth}
	res := cal.Signature.Results()
	errIdx := -1
	for i := 0; i < res.Len(); i++ {
		if isErrorType(res.At(i).Type()) {
			errIdx = i
		}
	}
	var first *lin
	for _, b := range cal.Blocks {
		ret, isRet := b.Instrs[len(b.Instrs)-1].(*ssa.Return)
		if !isRet || idx >= len(ret.Results) {
			continue
		}
		if errIdx >= 0 && errIdx != idx {
			if k, isK := ret.Results[errIdx].(*ssa.Const); !isK || k.Value != nil {
				guarded = true
				continue
			}
		}
		l, ok := en.lenOf(ret.Results[idx])
		if !ok {
			return lin{}, false, false
		}
		if first == nil {
			first = &l
		} else if first.String() != l.String() {
			return lin{}, false, false
		}
	}
	if first == nil {
		return lin{}, false, false
	}
	return *first, guarded, true
}

// errGuarded: every use of the value result of a (value, error) call is dominated by the branch on
// which that call's error result is nil.
func errGuarded(ex *ssa.Extract) bool {
	call, ok := ex.Tuple.(*ssa.Call)
	if !ok {
		return false
	}
	var errEx *ssa.Extract
	for _, r := range *call.Referrers() {
		if e, ok := r.(*ssa.Extract); ok && isErrorType(e.Type()) {
			errEx = e
		}
	}
	if errEx == nil {
		return false
	}
	var okBlocks []*ssa.BasicBlock
	for _, r := range *errEx.Referrers() {
		bo, ok := r.(*ssa.BinOp)
		if !ok || (bo.Op != token.EQL && bo.Op != token.NEQ) {
			continue
		}
		other := bo.Y
		if other == ssa.Value(errEx) {
			other = bo.X
		}
		if k, ok := other.(*ssa.Const); !ok || k.Value != nil {
			continue
		}
		for _, u := range *bo.Referrers() {
			ifi, ok := u.(*ssa.If)
			if !ok {
				continue
			}
			succ := ifi.Block().Succs[0]
			if bo.Op == token.NEQ {
				succ = ifi.Block().Succs[1]
			}
			if len(succ.Preds) == 1 {
				okBlocks = append(okBlocks, succ)
			}
		}
	}
	refs := ex.Referrers()
	if refs == nil || len(okBlocks) == 0 {
		return false
	}
	for _, r := range *refs {
		if _, isDbg := r.(*ssa.DebugRef); isDbg {
			continue
		}
		dom := false
		for _, b := range okBlocks {
			if b.Dominates(r.Block()) {
				dom = true
			}
		}
		if !dom {
			return false
		}
	}
	return true
}
