package hpke_test

// Demonstration (C01): the HPKE DHKEM(X25519) and DHKEM(X448) key decoders only rejected inputs
// shorter than the key and ignored trailing bytes: a serialized key with appended bytes was accepted,
// although RFC 9180 DeserializePublicKey / DeserializePrivateKey take strings of exactly Npk / Nsk
// bytes and every other KEM of the library requires the exact length.
//
// Copy to hpke/ and run: go test -run TestDemoXKEMKeyOverlong ./hpke/

import (
	"testing"

	"github.com/cloudflare/circl/hpke"
)

func TestDemoXKEMKeyOverlong(t *testing.T) {
	for _, k := range []hpke.KEM{hpke.KEM_X25519_HKDF_SHA256, hpke.KEM_X448_HKDF_SHA512} {
		s := k.Scheme()
		pk, sk, err := s.GenerateKeyPair()
		if err != nil {
			t.Fatal(err)
		}
		pkb, _ := pk.MarshalBinary()
		skb, _ := sk.MarshalBinary()
		if _, err := s.UnmarshalBinaryPublicKey(append(append([]byte{}, pkb...), 0x42)); err == nil {
			t.Errorf("%s: public key with an appended byte accepted", s.Name())
		}
		if _, err := s.UnmarshalBinaryPrivateKey(append(append([]byte{}, skb...), 0x42)); err == nil {
			t.Errorf("%s: private key with an appended byte accepted", s.Name())
		}
	}
}
