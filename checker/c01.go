package main

import (
	"fmt"
	"go/constant"
	"go/token"
	"go/types"
	"sort"
	"strings"

	"golang.org/x/tools/go/ssa"
)

func init() { registry["C01"] = checkC01 }

type foSpec struct {
	pkg            string
	cmp            []string // comparison callee(s)
	mismatch       int64    // value the comparison yields on mismatch
	selOnMismatch  int64    // selector of ConstantTimeCopy when the ciphertext does not match
	secretField    string   // receiver field holding the rejection secret
	secretInSource bool     // true: copy source carries the secret (copied in on mismatch); false: destination pre-filled from it
	reenc          string   // callee producing the re-encryption
}

func checkC01(c *Ctx) {
	p := c.Prog("amd64")
	if p == nil {
		return
	}
	c.Clauses = append(c.Clauses,
		"C01.pure: DeriveKeyPair / EncapsulateDeterministically / AuthEncapsulateDeterministically of every kem.Scheme implementation reach no source of nondeterminism",
		"C01.fo: implicit rejection in ML-KEM, Kyber and FrodoKEM: the whole received ciphertext is compared in constant time with the re-encryption, the comparison result is used only as the selector of a constant-time copy (no branch), the selector constants for match/mismatch select the honest key resp. the rejection secret, and the returned secret depends on rejection secret and ciphertext",
		"C01.bind: X-Wing's combiner absorbs both secrets, the X25519 ciphertext share, the recipient X25519 key and the label in that order; hybrid KEM results depend on both components; HPKE DHKEM binds enc and pkR (see C07)",
		"C01.keylen: every kem.Scheme implementation's UnmarshalBinaryPublicKey / UnmarshalBinaryPrivateKey rejects an over-long encoding (sibling cross-check over all implementers)",
		"C01.guard: decapsulation / deterministic encapsulation reject wrong lengths and propagate component errors; key parsing rejects wrong lengths",
		"C01.table: advertised sizes equal the lengths used by marshalling and size checks (hybrid sizes are sums)")
	c.NotDec = append(c.NotDec, "that decapsulation inverts encapsulation (lattice arithmetic)", "pseudorandomness of the rejection secret", "FrodoKEM matrix arithmetic")

	ki := p.iface("kem", "Scheme")
	ai := p.iface("kem", "AuthScheme")
	if ki == nil || ai == nil {
		c.undecided("C01.pure", "kem.Scheme", "interface does not resolve", "")
		return
	}
	var kems []*types.Named
	for _, n := range p.implementers(ki) {
		if strings.Contains(relPkg(n), "kem/sike") {
			continue
		}
		kems = append(kems, n)
	}
	c.count("kem_schemes", len(kems))
	if len(kems) < 15 {
		c.undecided("C01.pure", "kem.Scheme implementers", fmt.Sprintf("only %d implementations enumerated (floor 15)", len(kems)), "")
	}
	var names []string
	for _, n := range kems {
		names = append(names, relPkg(n)+"."+n.Obj().Name())
	}
	c.Notes = append(c.Notes, "KEMS = "+strings.Join(names, ", "))
	for _, n := range kems {
		for _, m := range []string{"DeriveKeyPair", "EncapsulateDeterministically"} {
			c.pureRule(p, "C01.pure", "pure function of its seeds", p.method(n, m), nil)
		}
		if types.Implements(n, ai) || types.Implements(types.NewPointer(n), ai) {
			f := p.method(n, "AuthEncapsulateDeterministically")
			if f != nil {
				c.pureRule(p, "C01.pure", "pure function of its seeds", f, nil)
			}
		}
	}

	// ---- Fujisaki-Okamoto implicit rejection ----
	ctc := "crypto/subtle.ConstantTimeCompare"
	var fos []foSpec
	for _, n := range []string{"512", "768", "1024"} {
		fos = append(fos, foSpec{"kem/mlkem/mlkem" + n, []string{ctc}, 0, 0, "z", false, "(*pke/kyber/kyber" + n + ".PublicKey).EncryptTo"})
		fos = append(fos, foSpec{"kem/kyber/kyber" + n, []string{ctc}, 0, 1, "z", true, "(*pke/kyber/kyber" + n + ".PublicKey).EncryptTo"})
	}
	fos = append(fos, foSpec{"kem/frodo/frodo640shake", []string{"kem/frodo/frodo640shake.ctCompareU16"}, 1, 1, "hashInputIfDecapsFail", true, "kem/frodo/frodo640shake.mulAddSAPlusE"})
	for _, fo := range fos {
		checkFO(c, p, fo)
	}

	// ---- X-Wing combiner ----
	xw := "kem/xwing"
	comb := p.Func(xw, "", "combiner")
	c.transcriptRule(p, "C01.bind", "X-Wing combiner = SHA3-256(ss_M ‖ ss_X ‖ ct_X ‖ pk_X ‖ label)", comb, nil, "(*internal/sha3.State).Write", 1,
		[]string{"param#1", "param#2", "param#3", "param#4", `"\\.//^\\"`})
	xwingArgs(c, p, p.Func(xw, "PublicKey", "EncapsulateTo"), "(*kem/mlkem/mlkem768.PublicKey).EncapsulateTo", 2, "dh/x25519.KeyGen", 0, "&param#0.x")
	xwingArgs(c, p, p.Func(xw, "PrivateKey", "DecapsulateTo"), "(*kem/mlkem/mlkem768.PrivateKey).DecapsulateTo", 1, "dh/x25519.Shared", 2, "&param#0.xpk")
	c.depRule(p, "C01.bind", "X-Wing shared secret depends on the whole ciphertext and the private key", p.Func(xw, "PrivateKey", "DecapsulateTo"), sinkParamPointee("ss"), "param:ct", "param:sk")

	// ---- hybrids ----
	hs := p.Func("kem/hybrid", "scheme", "Decapsulate")
	c.depRule(p, "C01.bind", "TLS-hybrid secret depends on both component decapsulations", hs, sinkResult(), "param:ct", "param:sk")
	c.returnRule(p, "C01.bind", "TLS-hybrid secret = ss1 ‖ ss2", hs, 0, `concat\(call:invoke \(kem\.Scheme\)\.Decapsulate\(recv=param#0\.first\)#0 ‖ call:invoke \(kem\.Scheme\)\.Decapsulate\(recv=param#0\.second\)#0\)`)
	c.guardEachSite(p, "C01.guard", "component decapsulation error propagates", hs, 1, latNonNil, "invoke (kem.Scheme).Decapsulate")
	c.lenReject(p, "C01.guard", hs, "ct", false)
	hh := p.Func("hpke", "hybridKEM", "Decapsulate")
	c.guardEachSite(p, "C01.guard", "HPKE hybrid: component decapsulation error propagates", hh, 1, latNonNil, "invoke (kem.Scheme).Decapsulate")
	c.lenReject(p, "C01.guard", hh, "ct", false)
	c.returnRule(p, "C01.bind", "HPKE hybrid secret = ssA ‖ ssB", hh, 0, `concat\(call:invoke \(kem\.Scheme\)\.Decapsulate\(recv=param#0\.kemA\)#0 ‖ call:invoke \(kem\.Scheme\)\.Decapsulate\(recv=param#0\.kemB\)#0\)`)

	// ---- wrong lengths rejected by every scheme ----
	for _, n := range kems {
		if f := p.method(n, "Decapsulate"); f != nil && f.Synthetic == "" {
			// (the HPKE DHKEMs promote dhKemBase.Decapsulate, which binds the whole received
			// string into the KEM context instead of rejecting over-long input: see C07)
			c.lenReject(p, "C01.guard", f, "#2", false)
		}
		if f := p.method(n, "EncapsulateDeterministically"); f != nil {
			c.lenReject(p, "C01.guard", f, "#2", false)
		}
		// sibling cross-check: every scheme's key decoders accept only the exact encoded length
		for _, m := range []string{"UnmarshalBinaryPublicKey", "UnmarshalBinaryPrivateKey"} {
			if g := p.method(n, m); g != nil && g.Synthetic == "" {
				if len(p.callSites(g, "invoke (crypto/ecdh.Curve).NewPublicKey", "invoke (crypto/ecdh.Curve).NewPrivateKey")) > 0 {
					// crypto/ecdh's key constructors reject every length but the curve's (standard-library summary)
					c.guard(p, "C01.keylen", "over-long #1 rejected (by crypto/ecdh)", g, GuardSpec{Args: map[string]lat{"#1": latBigSlice}, ArgsMayExclude: true,
						Assumes: []Assume{calleeAssume(latNonNil, 1, "invoke (crypto/ecdh.Curve).NewPublicKey", "invoke (crypto/ecdh.Curve).NewPrivateKey")}})
				} else {
					c.lenReject(p, "C01.keylen", g, "#1", false)
				}
			}
		}
	}

	// ---- sizes of the composite KEMs: each size accessor is the sum of the components' ----
	for _, comp := range []struct{ pkg, typ string }{{"hpke", "hybridKEM"}, {"kem/hybrid", "scheme"}} {
		for _, m := range []string{"PublicKeySize", "PrivateKeySize", "CiphertextSize", "SharedKeySize"} {
			f := p.Func(comp.pkg, comp.typ, m)
			construct := fmt.Sprintf("(%s.%s).%s = sum of the two components' %s", comp.pkg, comp.typ, m, m)
			if f == nil || f.Blocks == nil {
				c.bad("C01.table", construct, "the composite type does not declare this accessor itself (missing, or promoted from an embedded base whose value has another meaning)", "")
				continue
			}
			okSum := false
			var got string
			for _, b := range f.Blocks {
				ret, isRet := b.Instrs[len(b.Instrs)-1].(*ssa.Return)
				if !isRet || len(ret.Results) != 1 {
					continue
				}
				got = descVal(ret.Results[0])
				bo, isAdd := ret.Results[0].(*ssa.BinOp)
				if !isAdd || bo.Op != token.ADD {
					continue
				}
				ca, ok1 := bo.X.(*ssa.Call)
				cb, ok2 := bo.Y.(*ssa.Call)
				if ok1 && ok2 && strings.HasSuffix(p.staticCalleeName(&ca.Call), ")."+m) && strings.HasSuffix(p.staticCalleeName(&cb.Call), ")."+m) && descVal(ca.Call.Value) != descVal(cb.Call.Value) {
					okSum = true
				}
			}
			// the method must be the type's own (not promoted from an embedded base with another meaning)
			own := f.Signature.Recv() != nil && strings.HasSuffix(strings.TrimPrefix(f.Signature.Recv().Type().String(), "*"), "."+comp.typ)
			switch {
			case !own:
				c.bad("C01.table", construct, "the accessor is not declared on the composite type (promoted from "+f.Signature.Recv().Type().String()+")", p.fnPos(f))
			case okSum:
				c.ok("C01.table", construct, got, p.fnPos(f))
			default:
				c.bad("C01.table", construct, "returns "+got, p.fnPos(f))
			}
		}
	}

	// ---- sizes ----
	for _, t := range []struct {
		pkg        string
		pk, sk, ct int64
	}{{"kem/mlkem/mlkem512", 800, 1632, 768}, {"kem/mlkem/mlkem768", 1184, 2400, 1088}, {"kem/mlkem/mlkem1024", 1568, 3168, 1568},
		{"kem/kyber/kyber512", 800, 1632, 768}, {"kem/kyber/kyber768", 1184, 2400, 1088}, {"kem/kyber/kyber1024", 1568, 3168, 1568}} {
		c.tableConstInt(p, "C01.table", t.pkg, "PublicKeySize", t.pk)
		c.tableConstInt(p, "C01.table", t.pkg, "PrivateKeySize", t.sk)
		c.tableConstInt(p, "C01.table", t.pkg, "CiphertextSize", t.ct)
		c.tableConstInt(p, "C01.table", t.pkg, "SharedKeySize", 32)
		c.tableConstInt(p, "C01.table", t.pkg, "KeySeedSize", 64)
		c.tableConstInt(p, "C01.table", t.pkg, "EncapsulationSeedSize", 32)
	}
	// RFC 9180 DHKEM: the ephemeral ikm has Nsk bytes: the advertised encapsulation seed size is the private
	// key size (they differ from the hash size for P-521: 66 vs 64)
	for _, kt := range []string{"shortKEM", "xKEM"} {
		pk := p.Func("hpke", kt, "PrivateKeySize")
		es := p.Func("hpke", kt, "EncapsulationSeedSize")
		what := "(hpke." + kt + ").EncapsulationSeedSize returns what PrivateKeySize returns"
		if pk == nil || es == nil {
			c.undecided("C01.table", what, "anchor does not resolve", "")
			continue
		}
		ret := func(f *ssa.Function) string {
			var ds []string
			for _, b := range f.Blocks {
				if r, ok := b.Instrs[len(b.Instrs)-1].(*ssa.Return); ok && len(r.Results) == 1 {
					ds = append(ds, descVal(r.Results[0]))
				}
			}
			sort.Strings(ds)
			return strings.Join(ds, "|")
		}
		if a, b := ret(pk), ret(es); a != b || a == "" {
			c.bad("C01.table", what, fmt.Sprintf("EncapsulationSeedSize returns %s, PrivateKeySize returns %s", b, a), p.fnPos(es))
		} else {
			c.ok("C01.table", what, "both return "+a, p.fnPos(es))
		}
	}
	// every way of obtaining a key object yields one with all the fields its operation reads
	c.ctorRule(p, "C01.codec", "kem/frodo/frodo640shake", "PublicKey", "EncapsulateTo")
	c.ctorRule(p, "C01.codec", "kem/frodo/frodo640shake", "PrivateKey", "DecapsulateTo")
	c.fieldStoreRule(p, "C01.codec", "the public key handed out carries the X25519 public value, not the secret scalar", p.Func("kem/xwing", "PrivateKey", "Public"), "x", `param#0\.xpk`)
	c.ctorRule(p, "C01.codec", "kem/xwing", "PublicKey", "EncapsulateTo")
	c.ctorRule(p, "C01.codec", "kem/xwing", "PrivateKey", "DecapsulateTo")
	// no bit of a received share or ciphertext is cleared before it is bound into the secret (the masked bits
	// of X25519 are exempt from the DH only, not from the hash)
	c.maskRule(p, "C01.bind", "no bit of the received ciphertext is cleared before it is hashed into the X-Wing secret", p.Func("kem/xwing", "PrivateKey", "DecapsulateTo"))
	c.maskRule(p, "C01.bind", "no bit of the received share is cleared by the TLS-hybrid X25519/X448 KEM", p.Func("kem/hybrid", "xScheme", "Decapsulate"))
	c.maskRule(p, "C01.bind", "no bit of an HPKE X25519/X448 public key is cleared when it is parsed", p.Func("hpke", "xKEM", "UnmarshalBinaryPublicKey"))
	for n, v := range map[string]int64{"PublicKeySize": 1216, "PrivateKeySize": 32, "CiphertextSize": 1120, "SharedKeySize": 32, "SeedSize": 32, "EncapsulationSeedSize": 64} {
		c.tableConstInt(p, "C01.table", xw, n, v)
	}
	for n, v := range map[string]int64{"PublicKeySize": 9616, "PrivateKeySize": 19888, "CiphertextSize": 9720, "SharedKeySize": 16, "KeySeedSize": 48, "EncapsulationSeedSize": 16} {
		c.tableConstInt(p, "C01.table", "kem/frodo/frodo640shake", n, v)
	}
	// size getters of every scheme return constants equal to what Unmarshal checks: decided through lenReject above.
}

func checkFO(c *Ctx, p *Program, fo foSpec) {
	f := p.Func(fo.pkg, "PrivateKey", "DecapsulateTo")
	what := func(s string) string { return fo.pkg + ": " + s }
	if f == nil {
		c.undecided("C01.fo", what("DecapsulateTo"), "anchor does not resolve", "")
		return
	}
	cpy := "crypto/subtle.ConstantTimeCopy"
	sel := func(cmpVals map[int]int64) (string, int) {
		// bind the i-th comparison site to a value; others default to "match"
		sites := p.callSites(f, fo.cmp...)
		var as []Assume
		for i, s := range sites {
			site := s
			v, ok := cmpVals[i]
			if !ok {
				v = 1 - fo.mismatch
			}
			as = append(as, Assume{Name: fmt.Sprintf("cmp#%d", i), Result: -1, Val: latInt(v), Match: func(x ssa.CallInstruction, _ string, _ *ssa.Function) bool { return x == site }})
		}
		obs, _ := p.observe(f, nil, as, func(n string) bool { return n == cpy })
		var vals []string
		for _, o := range obs {
			if o.In == f && len(o.Lats) > 0 {
				vals = append(vals, o.Lats[0].String())
			}
		}
		sort.Strings(vals)
		return strings.Join(vals, ","), len(sites)
	}
	got, nsites := sel(map[int]int64{})
	if nsites == 0 {
		c.bad("C01.fo", what("ciphertext is compared with the re-encryption"), "no comparison call found", p.fnPos(f))
		return
	}
	c.tableEq("C01.fo", what("selector when the ciphertext matches"), got, fmt.Sprint(1-fo.selOnMismatch), p.fnPos(f))
	for i := 0; i < nsites; i++ {
		got, _ := sel(map[int]int64{i: fo.mismatch})
		c.tableEq("C01.fo", what(fmt.Sprintf("selector when comparison %d of %d reports a mismatch", i+1, nsites)), got, fmt.Sprint(fo.selOnMismatch), p.fnPos(f))
	}
	// comparison result used only arithmetically / as the selector: never in a branch
	bad := ""
	for _, s := range p.callSites(f, fo.cmp...) {
		v, ok := s.(ssa.Value)
		if !ok {
			continue
		}
		seen := map[ssa.Value]bool{}
		var walk func(v ssa.Value)
		walk = func(v ssa.Value) {
			if seen[v] || v.Referrers() == nil {
				return
			}
			seen[v] = true
			for _, r := range *v.Referrers() {
				switch x := r.(type) {
				case *ssa.If:
					bad = p.pos(x.Pos())
				case *ssa.BinOp:
					walk(x)
				case *ssa.UnOp:
					walk(x)
				case *ssa.Convert:
					walk(x)
				case *ssa.Phi:
					walk(x)
				case *ssa.Call:
					if p.staticCalleeName(&x.Call) != cpy {
						bad = p.pos(x.Pos()) + " (passed to " + p.staticCalleeName(&x.Call) + ")"
					}
				case *ssa.Return, *ssa.Store:
					bad = p.pos(r.Pos()) + " (escapes)"
				}
			}
		}
		walk(v)
	}
	if bad != "" {
		c.bad("C01.fo", what("comparison result is used only as constant-time selector"), "used at "+bad, p.fnPos(f))
	} else {
		c.ok("C01.fo", what("comparison result is used only as constant-time selector"), "flows only through integer arithmetic into ConstantTimeCopy", p.fnPos(f))
	}
	// whole ciphertext compared with the re-encryption output
	if len(fo.cmp) == 1 && fo.cmp[0] == "crypto/subtle.ConstantTimeCompare" {
		for _, s := range p.callSites(f, fo.cmp...) {
			a := s.Common().Args
			d0, d1 := descVal(a[0]), descVal(a[1])
			size, _ := p.constInt(fo.pkg, "CiphertextSize")
			okA := d0 == "param#2" || d0 == fmt.Sprintf("param#2[:%d]", size)
			if !okA {
				c.bad("C01.fo", what("the whole received ciphertext is compared"), "first operand is "+d0, p.pos(s.Pos()))
			} else {
				c.ok("C01.fo", what("the whole received ciphertext is compared"), "operand "+d0, p.pos(s.Pos()))
			}
			// second operand: the buffer written by the re-encryption
			root := addrRoot(a[1])
			match := false
			for _, e := range p.callSites(f, fo.reenc) {
				for _, ea := range e.Common().Args {
					if addrRoot(ea) == root {
						match = true
					}
				}
			}
			if match {
				c.ok("C01.fo", what("second operand is the re-encryption output"), d1+" is written by "+fo.reenc, p.pos(s.Pos()))
			} else {
				c.bad("C01.fo", what("second operand is the re-encryption output"), d1+" is not an argument of "+fo.reenc, p.pos(s.Pos()))
			}
		}
	} else {
		c.depRule(p, "C01.fo", "comparisons cover the ciphertext", f, sinkCallArg(0, fo.cmp...), "param:ct")
	}
	// rejection secret
	fieldLabel := "field:sk." + fo.secretField
	if fo.secretInSource {
		c.depRule(p, "C01.fo", "the value copied in on mismatch is the rejection secret", f, sinkCallArg(2, cpy), fieldLabel)
	} else {
		c.depRule(p, "C01.fo", "the value kept on mismatch derives from the rejection secret and the ciphertext", f, sinkCallArg(1, cpy), fieldLabel, "param:ct")
	}
	c.depRule(p, "C01.fo", "returned secret depends on rejection secret and ciphertext", f, sinkParamPointee("ss"), fieldLabel, "param:ct")
	_ = constant.MakeInt64
}

// xwingArgs: the combiner receives (ss_M, ss_X, ct_X, pk_X): the buffers are identified by the calls
// that fill them (same SSA root), not by their names.
func xwingArgs(c *Ctx, p *Program, f *ssa.Function, mlkemCall string, mlkemSSArg int, ctxCall string, ctxArg int, pkDesc string) {
	what := "combiner receives (ss_M, ss_X, ct_X, pk_X)"
	if f == nil {
		c.undecided("C01.bind", what, "anchor does not resolve", "")
		return
	}
	construct := fname(f) + ": " + what
	rootOf := func(callee string, idx int) ssa.Value {
		for _, s := range p.callSites(f, callee) {
			if idx < len(s.Common().Args) {
				return addrRoot(s.Common().Args[idx])
			}
		}
		return nil
	}
	cs := p.callSites(f, "kem/xwing.combiner")
	if len(cs) != 1 {
		c.bad("C01.bind", construct, fmt.Sprintf("%d calls to combiner", len(cs)), p.fnPos(f))
		return
	}
	a := cs[0].Common().Args
	var problems []string
	if r := rootOf(mlkemCall, mlkemSSArg); r == nil || addrRoot(a[1]) != r {
		problems = append(problems, "ss_M is not the buffer filled by "+mlkemCall)
	}
	if r := rootOf("dh/x25519.Shared", 0); r == nil || addrRoot(a[2]) != r {
		problems = append(problems, "ss_X is not the output of x25519.Shared")
	}
	if r := rootOf(ctxCall, ctxArg); r == nil || addrRoot(a[3]) != r {
		problems = append(problems, "ct_X is not the X25519 share ("+ctxCall+")")
	}
	if d := descVal(a[4]); d != pkDesc {
		problems = append(problems, "pk_X is "+d+", expected "+pkDesc)
	}
	if d := descVal(a[0]); !strings.HasPrefix(d, "param#") {
		problems = append(problems, "output is "+d)
	}
	if len(problems) > 0 {
		c.bad("C01.bind", construct, strings.Join(problems, "; "), p.pos(cs[0].Pos()))
		return
	}
	c.ok("C01.bind", construct, "arguments identified by the calls that fill them", p.pos(cs[0].Pos()))
}
