package bls_test

// Modifying (re-decoding) the object returned by PrivateKey.PublicKey must not change what later calls
// return. Copy to sign/bls/ and run: go test -run TestFindingPublicKeyShared ./sign/bls/

import (
	"bytes"
	"crypto/rand"
	"testing"

	"github.com/cloudflare/circl/sign/bls"
)

func TestFindingPublicKeyShared(t *testing.T) {
	ikm := make([]byte, 32)
	_, _ = rand.Read(ikm)
	sk1, err := bls.KeyGen[bls.G1](ikm, nil, nil)
	if err != nil {
		t.Fatal(err)
	}
	_, _ = rand.Read(ikm)
	sk2, _ := bls.KeyGen[bls.G1](ikm, nil, nil)
	other, _ := sk2.PublicKey().MarshalBinary()

	before, _ := sk1.PublicKey().MarshalBinary()
	if err := sk1.PublicKey().UnmarshalBinary(other); err != nil {
		t.Fatal(err)
	}
	after, _ := sk1.PublicKey().MarshalBinary()
	if !bytes.Equal(before, after) {
		t.Errorf("re-decoding the key returned by PublicKey() changed what PublicKey() returns for the private key")
	}
	msg := []byte("m")
	if !bls.Verify(sk1.PublicKey(), msg, bls.Sign(sk1, msg)) {
		t.Errorf("a signature by sk1 no longer verifies under sk1.PublicKey()")
	}
}
