package tkn

import (
	"crypto/rand"
	"testing"
)

// A decoded attribute key that names an attribute without its key matrix must be refused: decapsulate
// dereferences k3[label] (and k3wild[label]) for the labels of the attribute set.
// Place in abe/cpabe/tkn20/internal/tkn; go test -run TestFindingAttrKeyMissingMatrix .
func TestFindingAttrKeyMissingMatrix(t *testing.T) {
	pp, sp, err := GenerateParams(rand.Reader)
	if err != nil {
		t.Fatal(err)
	}
	attrs := &Attributes{"a": {Value: ToScalar(0)}}
	key, err := DeriveAttributeKeysCCA(rand.Reader, sp, attrs)
	if err != nil {
		t.Fatal(err)
	}
	policy := &Policy{Inputs: []Wire{{Label: "a", RawValue: "0", Value: ToScalar(0), Positive: true}}, F: Formula{}}
	ct, err := EncryptCCA(rand.Reader, pp, policy, []byte("msg"))
	if err != nil {
		t.Fatal(err)
	}
	delete(key.k3, "a")
	enc, err := key.MarshalBinary()
	if err != nil {
		t.Fatal(err)
	}
	var got AttributesKey
	if err := got.UnmarshalBinary(enc); err != nil {
		return // refused: fine
	}
	defer func() {
		if r := recover(); r != nil {
			t.Errorf("an attribute key without the matrix of its attribute was accepted and decryption panics: %v", r)
		}
	}()
	_, _ = DecryptCCA(ct, &got)
}
