package main

import (
	"fmt"
	"go/token"
	"os"
	"sort"
	"strings"

	"golang.org/x/tools/go/ssa"
)

func init() { registry["C07"] = checkC07 }

// fieldRead matches a read of struct field `name` (register Field or load of a FieldAddr).
func fieldRead(name string) func(v ssa.Value, in *ssa.Function) bool {
	return func(v ssa.Value, _ *ssa.Function) bool {
		switch x := v.(type) {
		case *ssa.Field:
			return strings.HasSuffix(descVal(x), "."+name)
		case *ssa.UnOp:
			if x.Op == token.MUL {
				if fa, ok := x.X.(*ssa.FieldAddr); ok {
					return fieldName(fa) == name
				}
			}
		}
		return false
	}
}

func checkC07(c *Ctx) {
	p := c.Prog("amd64")
	if p == nil {
		return
	}
	c.Clauses = append(c.Clauses,
		"C07.labels: the RFC 9180 key-schedule dataflow table: every LabeledExtract/LabeledExpand call site has the specified constant label and the specified provenance of salt/ikm/prk/info/length; concatenation order inside the labelled helpers, suite-id layouts, kem_context and DH order (incl. auth mode) equal RFC 9180",
		"C07.codepoints: KEM/KDF/AEAD identifiers, mode bytes, Nk/Nn per AEAD, hash per KEM equal RFC 9180 tables",
		"C07.psk: the PSK-input rules of RFC 9180 §5.1 decided for all 4 modes x presence of psk x presence of psk_id by constant propagation",
		"C07.modes: each Setup* stores its own mode byte; (de/en)capsulation is dispatched to the auth variant exactly in the auth modes",
		"C07.export: Export accepts exactly lengths up to 255*Nh (boundary decided by constant propagation)")
	c.NotDec = append(c.NotDec, "HKDF and the AEADs themselves (standard library / x/crypto)", "DH correctness (C06)", "that differing inputs change the outputs (hash behaviour)")
	c.Trusted = append(c.Trusted, "golang.org/x/crypto/hkdf", "crypto/aes, crypto/cipher, x/crypto/chacha20poly1305")

	// the DHKEMs dispatch through a by-value copy of themselves made in init: the copy has to be taken after
	// the identifier (which enters every labelled hash as suite_id) and the hash have been assigned
	checkInitCopy(c, p, "C07", []string{"hpke"})

	// RFC 9180 7.3: ChaCha20Poly1305 has Nn = 12; the X variant of the constructor takes 24-byte nonces (the
	// key schedule sizes base_nonce and the sequence number from the cipher, NonceSize() reads the table)
	c.callCountRule(p, "C07.codepoints", "AEAD 0x0003 is ChaCha20-Poly1305 with 12-byte nonces (not XChaCha)", p.Func("hpke", "AEAD", "New"),
		map[string]int{"golang.org/x/crypto/chacha20poly1305.New": 1, "golang.org/x/crypto/chacha20poly1305.NewX": 0})

	none := `nil|""`
	suiteLE, suiteLX := "(hpke.Suite).labeledExtract", "(hpke.Suite).labeledExpand"
	kemLE, kemLX := "(hpke.kemBase).labeledExtract", "(hpke.kemBase).labeledExpand"
	ks := p.Func("hpke", "state", "keySchedule")
	ctxPat := `concat\(param#0\.modeID ‖ call:\(hpke\.Suite\)\.labeledExtract\((nil,)?"psk_id_hash"\) ‖ call:\(hpke\.Suite\)\.labeledExtract\((nil,)?"info_hash"\)\)`
	secretPat := `call:\(hpke\.Suite\)\.labeledExtract\("secret"\)`
	c.callArgRule(p, "C07.labels", "psk_id_hash = LabeledExtract(\"\", \"psk_id_hash\", psk_id)", ks, suiteLE, `"psk_id_hash"`, map[int]string{1: none, 3: `param#4`})
	c.callArgRule(p, "C07.labels", "info_hash = LabeledExtract(\"\", \"info_hash\", info)", ks, suiteLE, `"info_hash"`, map[int]string{1: none, 3: `param#2`})
	c.callArgRule(p, "C07.labels", "secret = LabeledExtract(shared_secret, \"secret\", psk)", ks, suiteLE, `"secret"`, map[int]string{1: `param#1`, 3: `param#3`})
	c.callArgRule(p, "C07.labels", "key = LabeledExpand(secret, \"key\", key_schedule_context, Nk)", ks, suiteLX, `"key"`, map[int]string{1: secretPat, 3: ctxPat, 4: `.*KeySize.*`})
	c.callArgRule(p, "C07.labels", "base_nonce = LabeledExpand(secret, \"base_nonce\", key_schedule_context, Nn)", ks, suiteLX, `"base_nonce"`, map[int]string{1: secretPat, 3: ctxPat, 4: `.*NonceSize.*`})
	c.callArgRule(p, "C07.labels", "exporter_secret = LabeledExpand(secret, \"exp\", key_schedule_context, Nh)", ks, suiteLX, `"exp"`, map[int]string{1: secretPat, 3: ctxPat, 4: `.*ExtractSize.*`})
	// ... and each derived value lands in the field of the context that later uses it under that name (the
	// context is built with a positional literal: reordering the declarations silently swaps the slots)
	for _, fb := range [][2]string{{"exporterSecret", "exp"}, {"key", "key"}, {"baseNonce", "base_nonce"}} {
		c.fieldStoreRule(p, "C07.labels", "the context field "+fb[0]+" holds LabeledExpand(secret, \""+fb[1]+"\", ...)", ks, fb[0], `call:[^#]*labeledExpand\(.*"`+fb[1]+`".*\)(#0)?`)
	}
	c.fieldStoreRule(p, "C07.labels", "the context field secret holds LabeledExtract(shared_secret, \"secret\", psk)", ks, "secret", `call:[^#]*labeledExtract\(.*"secret".*\)(#0)?`)
	// the three Expand calls are the only labelled expansions of the key schedule, the three extracts the only extractions
	c.callCountRule(p, "C07.labels", "key schedule has exactly the RFC's 3 LabeledExtract and 3 LabeledExpand calls", ks, map[string]int{suiteLE: 3, suiteLX: 3})
	c.callArgRule(p, "C07.labels", "Export = LabeledExpand(exporter_secret, \"sec\", exporter_context, L)", p.Func("hpke", "encdecContext", "Export"), suiteLX, `"sec"`,
		map[int]string{1: `param#0\.exporterSecret`, 3: `param#1`, 4: `param#2`})
	ee := p.Func("hpke", "kemBase", "extractExpand")
	c.callArgRule(p, "C07.labels", "eae_prk = LabeledExtract(\"\", \"eae_prk\", dh)", ee, kemLE, `"eae_prk"`, map[int]string{1: none, 3: `param#1`})
	c.callArgRule(p, "C07.labels", "shared_secret = LabeledExpand(eae_prk, \"shared_secret\", kem_context, Nsecret)", ee, kemLX, `"shared_secret"`,
		map[int]string{1: `call:\(hpke\.kemBase\)\.labeledExtract\(("",)?"eae_prk"\)`, 3: `param#2`, 4: `.*Size.*`})
	dkp := `call:\(hpke\.kemBase\)\.labeledExtract\(("",)?"dkp_prk"\)`
	for _, t := range []string{"xKEM", "shortKEM", "hybridKEM"} {
		f := p.Func("hpke", t, "DeriveKeyPair")
		c.callArgRule(p, "C07.labels", "dkp_prk = LabeledExtract(\"\", \"dkp_prk\", ikm)", f, kemLE, `"dkp_prk"`, map[int]string{1: none, 3: `param#1`})
		switch t {
		case "shortKEM":
			c.callArgRule(p, "C07.labels", "bytes = LabeledExpand(dkp_prk, \"candidate\", I2OSP(counter,1), Nsk)", f, kemLX, `"candidate"`,
				map[int]string{1: dkp, 3: `\[lo8\(phi\(.*\)\)\]`, 4: `.*PrivateKeySize.*|.*byteSize.*|.*[sS]ize.*`})
		default:
			// Nsk, the size of a private key (the embedded crypto.Hash promotes a Size() of its own: Nh)
			nsk := `.*PrivateKeySize.*`
			if t == "hybridKEM" {
				nsk = `.*SeedSize.*`
			}
			c.callArgRule(p, "C07.labels", "sk = LabeledExpand(dkp_prk, \"sk\", \"\", Nsk)", f, kemLX, `"sk"`, map[int]string{1: dkp, 3: none, 4: nsk})
		}
	}
	// the labelled helpers: concatenation order and HKDF argument order
	c.callArgRule(p, "C07.labels", "labeled_ikm = \"HPKE-v1\" ‖ suite_id ‖ label ‖ ikm; Extract(salt, labeled_ikm)", p.Func("hpke", "Suite", "labeledExtract"), "(hpke.KDF).Extract", "",
		map[int]string{1: `concat\("HPKE-v1" ‖ call:\(hpke\.Suite\)\.getSuiteID ‖ param#2 ‖ param#3\)`, 2: `param#1`})
	c.callArgRule(p, "C07.labels", "labeled_info = I2OSP(L,2) ‖ \"HPKE-v1\" ‖ suite_id ‖ label ‖ info; Expand(prk, labeled_info, L)", p.Func("hpke", "Suite", "labeledExpand"), "(hpke.KDF).Expand", "",
		map[int]string{1: `param#1`, 2: `concat\(be16\(param#4\) ‖ "HPKE-v1" ‖ call:\(hpke\.Suite\)\.getSuiteID ‖ param#2 ‖ param#3\)`, 3: `param#4`})
	c.callArgRule(p, "C07.labels", "KEM labeled_ikm order; hkdf.Extract(hash, secret=labeled_ikm, salt)", p.Func("hpke", "kemBase", "labeledExtract"), "golang.org/x/crypto/hkdf.Extract", "",
		map[int]string{1: `concat\("HPKE-v1" ‖ call:\(hpke\.kemBase\)\.getSuiteID ‖ param#2 ‖ param#3\)`, 2: `param#1`})
	c.callArgRule(p, "C07.labels", "KEM labeled_info order; hkdf.Expand(hash, prk, labeled_info)", p.Func("hpke", "kemBase", "labeledExpand"), "golang.org/x/crypto/hkdf.Expand", "",
		map[int]string{1: `param#1`, 2: `concat\(be16\(param#4\) ‖ "HPKE-v1" ‖ call:\(hpke\.kemBase\)\.getSuiteID ‖ param#2 ‖ param#3\)`})
	c.callArgRule(p, "C07.labels", "KDF.Extract(secret, salt) = hkdf.Extract(hash, secret, salt)", p.Func("hpke", "KDF", "Extract"), "golang.org/x/crypto/hkdf.Extract", "", map[int]string{1: `param#1`, 2: `param#2`})
	c.callArgRule(p, "C07.labels", "KDF.Expand(prk, info, L) = hkdf.Expand(hash, prk[:Nh], info)", p.Func("hpke", "KDF", "Expand"), "golang.org/x/crypto/hkdf.Expand", "", map[int]string{1: `param#1(\[:.*\])?`, 2: `param#2`})
	c.layoutRule(p, "C07.labels", "suite_id = \"HPKE\" ‖ I2OSP(kem_id,2) ‖ I2OSP(kdf_id,2) ‖ I2OSP(aead_id,2)", p.Func("hpke", "Suite", "getSuiteID"),
		[]string{`"HPKE"`, "be16(param#0.kemID)", "be16(param#0.kdfID)", "be16(param#0.aeadID)"})
	c.layoutRule(p, "C07.labels", "suite_id = \"KEM\" ‖ I2OSP(kem_id,2)", p.Func("hpke", "kemBase", "getSuiteID"), []string{`"KEM"`, "be16(param#0.id)"})

	// kem_context and DH order
	mb := `call:invoke \(encoding\.BinaryMarshaler\)\.MarshalBinary`
	pkE := `call:invoke \(hpke\.dhKEM\)\.DeriveKeyPair\(recv=param#0\.dhKEM\)#0`
	ce := p.Func("hpke", "dhKemBase", "coreEncap")
	c.returnRule(p, "C07.labels", "kem_context = enc ‖ pkRm (sender)", ce, 1, `concat\(`+mb+`\(recv=`+pkE+`\)#0 ‖ `+mb+`\(recv=param#2\)#0\)`)
	c.returnRule(p, "C07.labels", "enc = SerializePublicKey(pkE)", ce, 0, mb+`\(recv=`+pkE+`\)#0`)
	c.callArgRule(p, "C07.labels", "dh = DH(skE, pkR)", ce, "invoke (hpke.dhKEM).calcDH", "", map[int]string{1: `param#1`, 2: `call:invoke \(hpke\.dhKEM\)\.DeriveKeyPair\(recv=param#0\.dhKEM\)#1`, 3: `param#2`})
	cd := p.Func("hpke", "dhKemBase", "coreDecap")
	c.returnRule(p, "C07.labels", "kem_context = enc ‖ pkRm (receiver)", cd, 0, `concat\(param#3 ‖ `+mb+`\(recv=call:invoke \(kem\.PrivateKey\)\.Public\(recv=param#2\)\)#0\)`)
	c.callArgRule(p, "C07.labels", "dh = DH(skR, pkE)", cd, "invoke (hpke.dhKEM).calcDH", "", map[int]string{1: `param#1`, 2: `param#2`, 3: `call:invoke \(hpke\.dhKEM\)\.UnmarshalBinaryPublicKey\(recv=param#0\.dhKEM\)#0`})
	ae := p.Func("hpke", "dhKemBase", "authEncap")
	c.callArgRule(p, "C07.labels", "auth: first half of dh = DH(skE, pkR)", ae, "(hpke.dhKemBase).coreEncap", "", map[int]string{1: `make\(.*\)\[:.*sizeDH.*\]`, 2: `param#1`, 3: `param#3`})
	c.callArgRule(p, "C07.labels", "auth: second half of dh = DH(skS, pkR)", ae, "invoke (hpke.dhKEM).calcDH", "", map[int]string{1: `make\(.*\)\[.*sizeDH.*:\]`, 2: `param#2`, 3: `param#1`})
	c.callArgRule(p, "C07.labels", "auth: kem_context = enc ‖ pkRm ‖ pkSm", ae, "(hpke.kemBase).extractExpand", "",
		map[int]string{1: `make\([^\[\]]*\)`, 2: `concat\(call:\(hpke\.dhKemBase\)\.coreEncap#1 ‖ ` + mb + `\(recv=call:invoke \(kem\.PrivateKey\)\.Public\(recv=param#2\)\)#0\)`})
	ad := p.Func("hpke", "dhKemBase", "AuthDecapsulate")
	c.callArgRule(p, "C07.labels", "auth: first half of dh = DH(skR, pkE)", ad, "(hpke.dhKemBase).coreDecap", "", map[int]string{1: `make\(.*\)\[:.*sizeDH.*\]`, 2: `param#1`, 3: `param#2`})
	c.callArgRule(p, "C07.labels", "auth: second half of dh = DH(skR, pkS)", ad, "invoke (hpke.dhKEM).calcDH", "", map[int]string{1: `make\(.*\)\[.*sizeDH.*:\]`, 2: `param#1`, 3: `param#3`})
	c.callArgRule(p, "C07.labels", "auth: kem_context = enc ‖ pkRm ‖ pkSm", ad, "(hpke.kemBase).extractExpand", "",
		map[int]string{1: `make\([^\[\]]*\)`, 2: `concat\(call:\(hpke\.dhKemBase\)\.coreDecap#0 ‖ ` + mb + `\(recv=param#3\)#0\)`})
	for _, n := range []string{"encap", "Decapsulate"} {
		f := p.Func("hpke", "dhKemBase", n)
		c.depRule(p, "C07.labels", "shared secret = ExtractAndExpand(dh, kem_context)", f, sinkCallArg(1, "(hpke.kemBase).extractExpand"), "call:invoke (hpke.dhKEM).sizeDH")
	}
	// setup: keySchedule receives (shared secret, info, psk, psk_id) from the right places
	for _, t := range []string{"Sender", "Receiver"} {
		c.callArgRule(p, "C07.labels", "KeySchedule(mode, shared_secret, info, psk, psk_id)", p.Func("hpke", t, "allSetup"), "(hpke.state).keySchedule", "",
			map[int]string{1: `phi\(.*capsulate.*\)`, 2: `param#0\.state\.info`, 3: `param#0\.state\.psk`, 4: `param#0\.state\.pskID`})
	}

	// ---- C07.codepoints ----
	for n, v := range map[string]int64{"KEM_P256_HKDF_SHA256": 0x10, "KEM_P384_HKDF_SHA384": 0x11, "KEM_P521_HKDF_SHA512": 0x12, "KEM_X25519_HKDF_SHA256": 0x20,
		"KEM_X448_HKDF_SHA512": 0x21, "KEM_X25519_KYBER768_DRAFT00": 0x30, "KEM_XWING": 0x647a,
		"KDF_HKDF_SHA256": 1, "KDF_HKDF_SHA384": 2, "KDF_HKDF_SHA512": 3, "AEAD_AES128GCM": 1, "AEAD_AES256GCM": 2, "AEAD_ChaCha20Poly1305": 3,
		"modeBase": 0, "modePSK": 1, "modeAuth": 2, "modeAuthPSK": 3} {
		c.tableConstInt(p, "C07.codepoints", "hpke", n, v)
	}
	if v, ok := p.constOf("hpke", "versionLabel"); ok {
		c.tableEq("C07.codepoints", "hpke.versionLabel", v.ExactString(), `"HPKE-v1"`, "")
	} else {
		c.undecided("C07.codepoints", "hpke.versionLabel", "constant does not resolve", "")
	}
	// per-identifier sizes by constant propagation of the accessor with a constant receiver
	evalConst := func(what string, f *ssa.Function, recv int64, want string) {
		if f == nil {
			c.undecided("C07.codepoints", what, "anchor does not resolve", "")
			return
		}
		q := &GuardQuery{P: p, Root: f, Args: []lat{latInt(recv)}}
		r := runGuard(q)
		var got []string
		for _, ri := range r.Returns {
			if len(ri.Vals) == 1 && ri.Vals[0].k == kConst {
				got = append(got, ri.Vals[0].c.ExactString())
			} else {
				got = append(got, descVal(ri.Instr.Results[0]))
			}
		}
		sort.Strings(got)
		c.tableEq("C07.codepoints", fname(f)+": "+what, strings.Join(got, "|"), want, p.fnPos(f))
	}
	for id, nk := range map[int64]string{1: "16", 2: "32", 3: "32"} {
		evalConst(fmt.Sprintf("Nk for AEAD id %d", id), p.Func("hpke", "AEAD", "KeySize"), id, nk)
		evalConst(fmt.Sprintf("Nn for AEAD id %d", id), p.Func("hpke", "AEAD", "NonceSize"), id, "12")
	}
	for id, h := range map[int64]string{1: "call:(crypto.Hash).Size(5)", 2: "call:(crypto.Hash).Size(6)", 3: "call:(crypto.Hash).Size(7)"} {
		evalConst(fmt.Sprintf("Nh for KDF id %d is the size of SHA-256/384/512", id), p.Func("hpke", "KDF", "ExtractSize"), id, h)
	}
	// KEM -> (id, hash) bindings stored by the package initialiser
	var initFs []*ssa.Function
	for name, m := range p.SSAPkg[circlPath+"/hpke"].Members {
		if fn, ok := m.(*ssa.Function); ok && strings.HasPrefix(name, "init") {
			initFs = append(initFs, fn)
		}
	}
	wantInit := map[string]string{
		"dhkemp256hkdfsha256.dhKemBase.kemBase.id": "16", "dhkemp256hkdfsha256.dhKemBase.kemBase.Hash": "5",
		"dhkemp384hkdfsha384.dhKemBase.kemBase.id": "17", "dhkemp384hkdfsha384.dhKemBase.kemBase.Hash": "6",
		"dhkemp521hkdfsha512.dhKemBase.kemBase.id": "18", "dhkemp521hkdfsha512.dhKemBase.kemBase.Hash": "7",
		"dhkemx25519hkdfsha256.dhKemBase.kemBase.id": "32", "dhkemx25519hkdfsha256.dhKemBase.kemBase.Hash": "5",
		"dhkemx448hkdfsha512.dhKemBase.kemBase.id": "33", "dhkemx448hkdfsha512.dhKemBase.kemBase.Hash": "7",
		"hybridkemX25519Kyber768.kemBase.id": "48", "hybridkemX25519Kyber768.kemBase.Hash": "5",
		"dhkemx25519hkdfsha256.size": "32", "dhkemx448hkdfsha512.size": "56",
	}
	gotInit := map[string]string{}
	for _, initF := range initFs {
		for _, b := range initF.Blocks {
			for _, in := range b.Instrs {
				if st, ok := in.(*ssa.Store); ok {
					k := strings.TrimPrefix(descAddr(st.Addr), "global:")
					if os.Getenv("DBGINIT") != "" {
						fmt.Println("init store", k, "=", descVal(st.Val))
					}
					if _, want := wantInit[k]; want {
						gotInit[k] = descVal(st.Val)
					}
				}
			}
		}
	}
	var keys []string
	for k := range wantInit {
		keys = append(keys, k)
	}
	sort.Strings(keys)
	for _, k := range keys {
		if g, ok := gotInit[k]; !ok {
			c.undecided("C07.codepoints", "hpke init: "+k, "store not found in the package initialiser", "")
		} else {
			c.tableEq("C07.codepoints", "hpke init: "+k, g, wantInit[k], "")
		}
	}
	// P-521 bitmask
	c.guardConstObserve(p, "C07.codepoints", "DeriveKeyPair bitmask is 0x01 for P-521 and 0xFF otherwise", p.Func("hpke", "shortKEM", "DeriveKeyPair"))

	// ---- C07.psk ----
	vp := p.Func("hpke", "state", "verifyPSKInputs")
	for mode := int64(0); mode < 4; mode++ {
		for _, havePSK := range []bool{false, true} {
			for _, haveID := range []bool{false, true} {
				wantOK := havePSK == haveID && havePSK == (mode == 1 || mode == 3)
				c.evalAcceptRule(p, "C07.psk", fmt.Sprintf("mode=%d psk given=%v psk_id given=%v must be %s", mode, havePSK, haveID, map[bool]string{true: "accepted", false: "rejected"}[wantOK]),
					vp, map[string]lat{"psk": presence(havePSK), "pskID": presence(haveID)},
					[]ValAssume{{Name: "st.modeID", Match: fieldRead("modeID"), Val: latInt(mode)}}, wantOK)
			}
		}
	}
	// RFC 9180 §5.1: an input is "provided" when it differs from the default, the empty string; an
	// empty but non-nil slice is therefore absent
	for mode := int64(0); mode < 4; mode++ {
		wantOK := mode == 0 || mode == 2
		c.evalAcceptRule(p, "C07.psk", fmt.Sprintf("mode=%d with empty (zero-length, non-nil) psk and psk_id must be %s", mode, map[bool]string{true: "accepted (inputs absent)", false: "rejected (inputs absent)"}[wantOK]),
			vp, map[string]lat{"psk": latSliceLen(0), "pskID": latSliceLen(0)},
			[]ValAssume{{Name: "st.modeID", Match: fieldRead("modeID"), Val: latInt(mode)}}, wantOK)
	}
	c.guard(p, "C07.psk", "key schedule succeeds only if the PSK inputs verify", ks, GuardSpec{Assumes: []Assume{calleeAssume(latNonNil, -1, "(hpke.state).verifyPSKInputs")}})

	// ---- C07.modes ----
	for _, t := range []string{"Sender", "Receiver"} {
		for n, m := range map[string]string{"Setup": "0", "SetupPSK": "1", "SetupAuth": "2", "SetupAuthPSK": "3"} {
			f := p.Func("hpke", t, n)
			what := t + "." + n + " stores mode " + m
			if f == nil {
				c.undecided("C07.modes", what, "anchor does not resolve", "")
				continue
			}
			var got []string
			for _, b := range f.Blocks {
				for _, in := range b.Instrs {
					if st, ok := in.(*ssa.Store); ok {
						if fa, ok := st.Addr.(*ssa.FieldAddr); ok && fieldName(fa) == "modeID" {
							got = append(got, descVal(st.Val))
						}
					}
				}
			}
			c.tableEq("C07.modes", fname(f)+": mode byte stored", strings.Join(got, ","), m, p.fnPos(f))
		}
		as := p.Func("hpke", t, "allSetup")
		plain, auth := "invoke (kem.Scheme).EncapsulateDeterministically", "invoke (kem.AuthScheme).AuthEncapsulateDeterministically"
		if t == "Receiver" {
			plain, auth = "invoke (kem.Scheme).Decapsulate", "invoke (kem.AuthScheme).AuthDecapsulate"
		}
		for mode := int64(0); mode < 4; mode++ {
			want := plain
			if mode >= 2 {
				want = auth
			}
			what := fmt.Sprintf("mode %d dispatches to %s only", mode, want)
			if as == nil {
				c.undecided("C07.modes", what, "anchor does not resolve", "")
				continue
			}
			q := &GuardQuery{P: p, Root: as, MaxDepth: 1, ValAssumes: []ValAssume{{Name: "modeID", Match: fieldRead("modeID"), Val: latInt(mode)}}}
			seen := map[string]bool{}
			q.Observe = func(in *ssa.Function, site ssa.CallInstruction, callee string, get func(ssa.Value) lat) {
				if in == as && (callee == plain || callee == auth) {
					seen[callee] = true
				}
			}
			runGuard(q)
			var got []string
			for k := range seen {
				got = append(got, k)
			}
			sort.Strings(got)
			c.tableEq("C07.modes", fname(as)+": "+what, strings.Join(got, ","), want, p.fnPos(as))
		}
	}

	// ---- C07.export ----
	ex := p.Func("hpke", "encdecContext", "Export")
	nh := calleeAssume(latInt(32), -1, "(hpke.KDF).ExtractSize")
	always := successSpec{"returns (does not panic)", func([]lat) bool { return true }}
	c.evalAcceptRuleSpec(p, "C07.export", "length 255*Nh (8160 for Nh=32) accepted", ex, map[string]lat{"length": latInt(8160)}, []Assume{nh}, nil, true, always)
	c.evalAcceptRuleSpec(p, "C07.export", "length 255*Nh+1 refused", ex, map[string]lat{"length": latInt(8161)}, []Assume{nh}, nil, false, always)
	c.evalAcceptRuleSpec(p, "C07.export", "length 0 accepted", ex, map[string]lat{"length": latInt(0)}, []Assume{nh}, nil, true, always)
}

func presence(b bool) lat {
	if b {
		return latNonEmpty
	}
	return latNil
}

// c07XWingSeed: the X-Wing integration of HPKE derives the key pair from SHAKE256(ikm, 32) for every ikm: no
// call of the wrapped scheme's DeriveKeyPair in genericNoAuthKEM.DeriveKeyPair is handed the caller's seed.
func init() {
	prev := registry["C07"]
	registry["C07"] = func(c *Ctx) {
		prev(c)
		p := c.Prog("amd64")
		if p == nil {
			return
		}
		c.Clauses = append(c.Clauses, "C07.xwingseed: genericNoAuthKEM.DeriveKeyPair hands the wrapped scheme the SHAKE256 output, never the caller's input keying material itself")
		f := p.Func("hpke", "genericNoAuthKEM", "DeriveKeyPair")
		what := "(hpke.genericNoAuthKEM).DeriveKeyPair: the wrapped scheme derives from the hashed seed on every path"
		if f == nil || len(f.Params) < 2 {
			c.undecided("C07.xwingseed", what, "anchor does not resolve", "")
			return
		}
		seed := f.Params[1]
		n, reads := 0, 0
		var bad []string
		for _, b := range f.Blocks {
			for _, in := range b.Instrs {
				ci, ok := in.(ssa.CallInstruction)
				if !ok {
					continue
				}
				name := p.staticCalleeName(ci.Common())
				if strings.HasSuffix(name, ".Read") && strings.Contains(name, "sha3") {
					reads++
				}
				if !strings.HasSuffix(name, ").DeriveKeyPair") {
					continue
				}
				n++
				for _, a := range ci.Common().Args {
					if base, _ := memRoot(a); base == ssa.Value(seed) {
						bad = append(bad, p.pos(ci.Pos()))
					}
				}
			}
		}
		switch {
		case n == 0 || reads == 0:
			c.undecided("C07.xwingseed", what, fmt.Sprintf("%d calls of DeriveKeyPair, %d squeezes of the sponge", n, reads), p.fnPos(f))
		case len(bad) > 0:
			c.bad("C07.xwingseed", what, "the caller's seed itself is handed to the wrapped scheme at "+strings.Join(bad, ", ")+": for that input the key pair is not the one derived from SHAKE256(ikm)", p.fnPos(f))
		default:
			c.ok("C07.xwingseed", what, fmt.Sprintf("%d call(s), none takes the parameter", n), p.fnPos(f))
		}
	}
}
