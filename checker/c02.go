package main

import (
	"go/token"
	"go/types"

	"golang.org/x/tools/go/ssa"
)

func init() { registry["C02"] = checkC02 }

// arrayEqAssume matches `x == y` on byte arrays of the given length class inside function fn.
func arrayCmpIn(fnName string) func(b *ssa.BinOp, in *ssa.Function) bool {
	return func(b *ssa.BinOp, in *ssa.Function) bool {
		if b.Op != token.EQL || fname(in) != fnName {
			return false
		}
		_, ok := b.X.Type().Underlying().(*types.Array)
		return ok
	}
}

func checkC02(c *Ctx) {
	p := c.Prog("amd64")
	if p == nil {
		return
	}
	c.Clauses = append(c.Clauses,
		"C02.keylen: every sign.Scheme implementation's UnmarshalBinaryPublicKey / UnmarshalBinaryPrivateKey rejects over-long and empty encodings (sibling cross-check over all implementers)",
		"C02.len: every verification entry point rejects an over-long and an empty signature (and byte-slice public key) on all paths",
		"C02.guard: acceptance is impossible when the range check / point decoding / recompute-and-compare / component verification fails",
		"C02.ctx: contexts longer than 255 bytes (and the empty context for Ed25519ctx) never reach acceptance",
		"C02.det: deterministic Sign entry points reach no randomness source",
		"C02.dep: the hashed transcript of Ed25519/Ed448 verification depends on dom prefix, R, A and the message")
	c.NotDec = append(c.NotDec, "that honest signatures verify (algebra)", "that a different key or message fails (collision resistance)", "bit-flip rejection beyond the named structural checks")

	// ---- C02.len ----
	type ent struct {
		pkg, name, param string
		short            bool
	}
	lens := []ent{
		{"sign/ed25519", "Verify", "signature", true}, {"sign/ed25519", "VerifyPh", "signature", true}, {"sign/ed25519", "VerifyWithCtx", "signature", true},
		{"sign/ed25519", "Verify", "public", true}, {"sign/ed25519", "VerifyPh", "public", true}, {"sign/ed25519", "VerifyWithCtx", "public", true},
		{"sign/ed448", "Verify", "signature", true}, {"sign/ed448", "VerifyPh", "signature", true},
		{"sign/ed448", "Verify", "public", true}, {"sign/ed448", "VerifyPh", "public", true},
		{"sign/mldsa/mldsa44", "Verify", "sig", true}, {"sign/mldsa/mldsa65", "Verify", "sig", true}, {"sign/mldsa/mldsa87", "Verify", "sig", true},
		{"sign/dilithium/mode2", "Verify", "sig", true}, {"sign/dilithium/mode3", "Verify", "sig", true}, {"sign/dilithium/mode5", "Verify", "sig", true},
		{"sign/eddilithium2", "Verify", "signature", true}, {"sign/eddilithium3", "Verify", "signature", true},
		{"sign/bls", "Verify", "sig", true}, {"sign/bls", "VerifyAggregate", "aggSig", true},
	}
	for _, e := range lens {
		c.lenReject(p, "C02.len", p.Func(e.pkg, "", e.name), e.param, e.short)
	}
	// every sign.Scheme implementation's Verify
	if si := p.iface("sign", "Scheme"); si == nil {
		c.undecided("C02.len", "sign.Scheme", "interface does not resolve", "")
	} else {
		impls := p.implementers(si)
		c.count("sign_schemes", len(impls))
		if len(impls) < 10 {
			c.undecided("C02.len", "sign.Scheme implementers", "fewer than 10 implementations enumerated", "")
		}
		for _, n := range impls {
			f := p.method(n, "Verify")
			c.lenReject(p, "C02.len", f, "#3", false)
			// sibling cross-check: every scheme's key decoders accept only the exact encoded length
			for _, m := range []string{"UnmarshalBinaryPublicKey", "UnmarshalBinaryPrivateKey"} {
				if g := p.method(n, m); g != nil && g.Synthetic == "" {
					c.lenReject(p, "C02.keylen", g, "#1", true)
				}
			}
		}
	}

	// ---- C02.ctx ----
	for _, e := range []ent{{"sign/ed25519", "VerifyPh", "ctx", false}, {"sign/ed25519", "VerifyWithCtx", "ctx", false},
		{"sign/ed448", "Verify", "ctx", false}, {"sign/ed448", "VerifyPh", "ctx", false},
		{"sign/mldsa/mldsa44", "Verify", "ctx", false}, {"sign/mldsa/mldsa65", "Verify", "ctx", false}, {"sign/mldsa/mldsa87", "Verify", "ctx", false}} {
		c.guard(p, "C02.ctx", "context longer than 255 bytes rejected", p.Func(e.pkg, "", e.name), GuardSpec{Args: map[string]lat{e.param: latBigSlice}})
	}
	c.guard(p, "C02.ctx", "empty context rejected by Ed25519ctx", p.Func("sign/ed25519", "", "VerifyWithCtx"),
		GuardSpec{Args: map[string]lat{"ctx": {k: kConst, c: constantString("")}}})
	for _, pk := range []string{"sign/mldsa/mldsa44", "sign/mldsa/mldsa65", "sign/mldsa/mldsa87"} {
		c.guard(p, "C02.ctx", "SignTo rejects context longer than 255 bytes", p.Func(pk, "", "SignTo"), GuardSpec{Args: map[string]lat{"ctx": latBigSlice}})
	}

	// ---- C02.guard ----
	for _, pk := range []string{"sign/ed25519", "sign/ed448"} {
		f := p.Func(pk, "", "verify")
		c.guard(p, "C02.guard", "S < L range check", f, GuardSpec{Assumes: []Assume{calleeAssume(latFalse, -1, pk+".isLessThanOrder")}})
		c.guard(p, "C02.guard", "recomputed R compared with transmitted R", f, GuardSpec{Assumes: []Assume{calleeAssume(latFalse, -1, "bytes.Equal")}})
	}
	c.guard(p, "C02.guard", "public key decodes to a curve point", p.Func("sign/ed25519", "", "verify"),
		GuardSpec{Assumes: []Assume{calleeAssume(latFalse, -1, "(*sign/ed25519.pointR1).FromBytes")}})
	c.guard(p, "C02.guard", "public key decodes to a curve point", p.Func("sign/ed448", "", "verify"),
		GuardSpec{Assumes: []Assume{calleeAssume(latNonNil, 1, "ecc/goldilocks.FromBytes")}})
	for _, pk := range []string{"sign/mldsa/mldsa44", "sign/mldsa/mldsa65", "sign/mldsa/mldsa87", "sign/dilithium/mode2", "sign/dilithium/mode3", "sign/dilithium/mode5"} {
		ip := pk + "/internal"
		f := p.Func(ip, "", "Verify")
		c.guard(p, "C02.guard", "signature unpacks (norm bound, canonical hint)", f, GuardSpec{Assumes: []Assume{calleeAssume(latFalse, -1, "(*"+ip+".unpackedSignature).Unpack")}})
		c.guard(p, "C02.guard", "‖z‖∞ < γ1−β", f, GuardSpec{Assumes: []Assume{calleeAssume(latTrue, -1, "(*"+ip+".VecL).Exceeds")}})
		c.guard(p, "C02.guard", "hint unpacks canonically", f, GuardSpec{Assumes: []Assume{calleeAssume(latFalse, -1, "(*"+ip+".VecK).UnpackHint")}})
		c.guard(p, "C02.guard", "recomputed c̃ equals transmitted c̃", f, GuardSpec{BinAssumes: []BinAssume{{Name: "c==cp", Match: arrayCmpIn(ip + ".Verify"), Val: latFalse}}})
		// the public Verify succeeds only through internal.Verify
		c.guard(p, "C02.guard", "public Verify accepts only via internal.Verify", p.Func(pk, "", "Verify"), GuardSpec{Assumes: []Assume{calleeAssume(latFalse, -1, ip+".Verify")}})
	}
	// a hybrid signature is valid exactly when both components are: no further reason to refuse
	c.rejectReasonsRule(p, "C02.guard", reasonSpec{pkg: "sign/eddilithium2", name: "Verify", why: "both components verify",
		callees: []string{"sign/dilithium/mode2.Verify", "sign/ed25519.Verify"}})
	c.rejectReasonsRule(p, "C02.guard", reasonSpec{pkg: "sign/eddilithium3", name: "Verify", why: "both components verify",
		callees: []string{"sign/dilithium/mode3.Verify", "sign/ed448.Verify"}})
	c.guard(p, "C02.guard", "Dilithium2 component must verify", p.Func("sign/eddilithium2", "", "Verify"), GuardSpec{Assumes: []Assume{calleeAssume(latFalse, -1, "sign/dilithium/mode2.Verify")}})
	c.guard(p, "C02.guard", "Ed25519 component must verify", p.Func("sign/eddilithium2", "", "Verify"), GuardSpec{Assumes: []Assume{calleeAssume(latFalse, -1, "sign/ed25519.Verify")}})
	c.guard(p, "C02.guard", "Dilithium3 component must verify", p.Func("sign/eddilithium3", "", "Verify"), GuardSpec{Assumes: []Assume{calleeAssume(latFalse, -1, "sign/dilithium/mode3.Verify")}})
	c.guard(p, "C02.guard", "Ed448 component must verify", p.Func("sign/eddilithium3", "", "Verify"), GuardSpec{Assumes: []Assume{calleeAssume(latFalse, -1, "sign/ed448.Verify")}})
	// BLS
	blsV := p.Func("sign/bls", "", "Verify")
	c.guard(p, "C02.guard", "signature decodes to a group element", blsV, GuardSpec{Assumes: []Assume{calleeAssume(latNonNil, -1, "(*ecc/bls12381.G1).SetBytes", "(*ecc/bls12381.G2).SetBytes")}})
	c.guard(p, "C02.guard", "public key validated (non-identity, in subgroup)", blsV, GuardSpec{Assumes: []Assume{calleeAssume(latFalse, -1, "(*sign/bls.PublicKey).Validate")}})
	c.guard(p, "C02.guard", "pairing product is the identity", blsV, GuardSpec{Assumes: []Assume{calleeAssume(latFalse, -1, "(*ecc/bls12381.Gt).IsIdentity")}})
	blsA := p.Func("sign/bls", "", "VerifyAggregate")
	c.guard(p, "C02.guard", "aggregate signature decodes to a group element", blsA, GuardSpec{Assumes: []Assume{calleeAssume(latNonNil, -1, "(*ecc/bls12381.G1).SetBytes", "(*ecc/bls12381.G2).SetBytes")}})
	c.guard(p, "C02.guard", "every public key validated (non-identity, in subgroup)", blsA, GuardSpec{Args: map[string]lat{"pubs": latNonEmpty}, Assumes: []Assume{calleeAssume(latFalse, -1, "(*sign/bls.PublicKey).Validate")}})
	c.guard(p, "C02.guard", "pairing product is the identity", blsA, GuardSpec{Assumes: []Assume{calleeAssume(latFalse, -1, "(*ecc/bls12381.Gt).IsIdentity")}})
	blsVal := p.Func("sign/bls", "PublicKey", "Validate")
	c.guard(p, "C02.guard", "Validate rejects the identity", blsVal, GuardSpec{Assumes: []Assume{calleeAssume(latTrue, -1, "(*ecc/bls12381.G1).IsIdentity", "(*ecc/bls12381.G2).IsIdentity")}})
	c.guard(p, "C02.guard", "Validate requires subgroup membership", blsVal, GuardSpec{Assumes: []Assume{calleeAssume(latFalse, -1, "(*ecc/bls12381.G1).IsOnG1", "(*ecc/bls12381.G2).IsOnG2")}})
}

// BLS: the length of a key / signature encoding must be the one its own header announces (the group
// decoders ignore trailing bytes, so "one of the two legal lengths" is not enough)
func init() {
	prev := registry["C02"]
	registry["C02"] = func(c *Ctx) {
		prev(c)
		p := c.Prog("amd64")
		if p == nil {
			return
		}
		f := p.Func("sign/bls", "", "checkLen")
		flag := func(v int64) []ValAssume {
			return []ValAssume{{Name: "compression flag b[0]&0x80", Val: latInt(v), Match: func(x ssa.Value, in *ssa.Function) bool {
				b, ok := x.(*ssa.BinOp)
				if !ok || in != f || b.Op != token.AND {
					return false
				}
				k, ok := b.Y.(*ssa.Const)
				return ok && k.Value != nil && k.Value.ExactString() == "128"
			}}}
		}
		args := func(n int64) map[string]lat {
			return map[string]lat{"b": latSliceLen(n), "compressed": latInt(48), "uncompressed": latInt(96)}
		}
		c.evalAcceptRuleSpec(p, "C02.len", "a compressed encoding (flag set) of the uncompressed length is refused", f, args(96), nil, flag(128), false, succNilErr(0))
		c.evalAcceptRuleSpec(p, "C02.len", "an uncompressed encoding (flag clear) of the compressed length is refused", f, args(48), nil, flag(0), false, succNilErr(0))
		c.evalAcceptRuleSpec(p, "C02.len", "a compressed encoding of the compressed length is accepted", f, args(48), nil, flag(128), true, succNilErr(0))
		c.evalAcceptRuleSpec(p, "C02.len", "an uncompressed encoding of the uncompressed length is accepted", f, args(96), nil, flag(0), true, succNilErr(0))
	}
}
