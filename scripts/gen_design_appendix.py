#!/usr/bin/env python3
"""Regenerates the generated parts of DESIGN.md section 8 (between the BEGIN/END GENERATED markers)
from the evidence files, the validated seeded changes and known-findings.txt."""
import glob, json, os, re

V = '/verif'
out = []
out.append('### 8.2 Per property: what the check decides, what it does not (from the evidence of the last run)\n')
for p in ['C%02d' % i for i in range(1, 21)]:
    f = f'{V}/evidence/{p}.json'
    if not os.path.exists(f):
        out.append(f'* **{p}** — no evidence file (not claimed)\n')
        continue
    e = json.load(open(f))
    cov = e['coverage']
    rules = cov.get('rules', {})
    rs = ', '.join(f'{k} {v}' for k, v in sorted(rules.items())) if isinstance(rules, dict) else ''
    out.append(f'**{p}** — {cov.get("evaluations", "?")} obligations ({rs}); wall {e.get("wall_s", "?")} s.\n')
    ex = cov.get('explanation', '')
    m = re.search(r'DECIDED[^:]*: (.*?) NOT DECIDED: (.*?)( TRUSTED| Known|$)', ex, re.S)
    if m:
        out.append('* decided: ' + m.group(1).strip() + '\n')
        out.append('* not decided: ' + m.group(2).strip() + '\n')
    else:
        out.append('* ' + ex[:1500] + '\n')
    out.append('')

out.append('### 8.3 Seeded changes: validation and detection\n')
out.append('Each row is a change kept under `/verif/seeded/<id>/` (patch.diff, demonstration, meta.json written by the '
           'sub-agent that produced it, validation.json written by `scripts/validate_seeds.py`). "valid" means: the patch '
           'applies to the current `/repo` HEAD, the tree builds, the repository\'s own test suite fails only where the '
           'unchanged tree fails (hpke TestVectors), the demonstration fails with the patch and passes without it — all '
           'confirmed in a scratch worktree under /tmp, removed afterwards. "detected by" lists every quick check that '
           'exits 1 on the patched tree.\n')
out.append('| seed | targets | change | valid | detected by |')
out.append('|---|---|---|---|---|')
rows = []
for d in sorted(glob.glob(f'{V}/seeded/C*-*')):
    sid = os.path.basename(d)
    meta = json.load(open(d + '/meta.json')) if os.path.exists(d + '/meta.json') else {}
    val = json.load(open(d + '/validation.json')) if os.path.exists(d + '/validation.json') else None
    summ = (meta.get('summary') or '').replace('|', '/').replace('\n', ' ')
    summ = summ[:150] + ('…' if len(summ) > 150 else '')
    if val is None:
        v, det = 'not validated', ''
    else:
        okv = val.get('applies') and val.get('builds') and val.get('tests_pass_like_baseline') and val.get('demo_fails_with_patch') and val.get('demo_passes_without_patch')
        v = 'yes' if okv else ('NO: ' + (val.get('error') or ', '.join(k for k in ('applies', 'builds', 'tests_pass_like_baseline', 'demo_fails_with_patch', 'demo_passes_without_patch') if not val.get(k))))[:80]
        det = ', '.join(sorted(val.get('detected_by', {}))) or '— (missed)'
    if os.path.exists(d + '/NOTE.txt'):
        v += ' (' + open(d + '/NOTE.txt').read().strip().replace('|', '/')[:400] + ')'
    out.append(f'| {sid} | {meta.get("property", sid[:3])} | {summ} | {v} | {det} |')
out.append('')
out.append('Reverts of the `fix:` commits (each is `git diff <fix> <fix>~1`, kept under `/verif/seeded/reverts/`): '
           'the check of the property the defect belonged to must report the defect again.\n')
out.append('| reverted fix | subject | detected by |')
out.append('|---|---|---|')
for f in sorted(glob.glob(f'{V}/seeded/reverts/*.diff')):
    h = os.path.basename(f)[:-5]
    vf = f + '.validation.json'
    val = json.load(open(vf)) if os.path.exists(vf) else None
    subj = os.popen(f'git -C /repo log --format=%s -1 {h} 2>/dev/null').read().strip().replace('|', '/')
    if val is None:
        det = 'not run'
    elif val.get('error'):
        det = 'n/a: ' + val['error'][:60]
    else:
        det = ', '.join(sorted(val.get('detected_by', {}))) or '— (missed)'
    out.append(f'| {h} | {subj[:110]} | {det} |')
out.append('')

out.append('### 8.4 Defects of cloudflare/circl found by the checks (from known-findings.txt)\n')
fixed, finds = [], []
for ln in open(f'{V}/known-findings.txt'):
    ln = ln.strip()
    if ln.startswith('fixed:'):
        fixed.append(ln[6:].strip())
    elif ln.startswith('finding:'):
        finds.append(ln[8:].strip())
out.append(f'Repaired with one minimal unguarded `fix:` commit each ({len(fixed)}; the unedited test suite passes after every one):\n')
for x in fixed:
    out.append('* ' + x)
out.append('')
out.append(f'Recorded, not repaired ({len(finds)}; each check prints a KNOWN-FINDING line for exactly these constructs and exits 0):\n')
for x in finds:
    out.append('* ' + x)
out.append('')

s = open(f'{V}/DESIGN.md').read()
b, e = '<!-- BEGIN GENERATED -->', '<!-- END GENERATED -->'
if b in s and e in s:
    s = s[:s.index(b) + len(b)] + '\n\n' + '\n'.join(out) + '\n' + s[s.index(e):]
    open(f'{V}/DESIGN.md', 'w').write(s)
    print('updated', len(out), 'lines')
else:
    print('markers not found')
