package bls_test

// Demonstrates (C11): bls.PrivateKey.PublicKey() lazily fills an unsynchronised cache.
// Place in /repo/sign/bls: go test -race -run TestFindingLazyPublic ./sign/bls/

import (
	"sync"
	"testing"

	"github.com/cloudflare/circl/sign/bls"
)

func TestFindingLazyPublic(t *testing.T) {
	sk, err := bls.KeyGen[bls.G1](make([]byte, 32), nil, nil)
	if err != nil {
		t.Fatal(err)
	}
	var wg sync.WaitGroup
	for g := 0; g < 8; g++ {
		wg.Add(1)
		go func() { defer wg.Done(); _ = sk.PublicKey() }()
	}
	wg.Wait()
}
