package csidh_test

// Demonstrates (C11/C10): csidh.PublicKey.Import ORs the new key into the old contents (decoding into a
// used object gives a different key than decoding into a fresh one), and PrivateKey.Import accepts an
// over-long input and then writes past its 37-byte exponent array (panic).
// Place in /repo/dh/csidh: go test -run TestFindingImport ./dh/csidh/

import (
	"bytes"
	"testing"

	"github.com/cloudflare/circl/dh/csidh"
)

func TestFindingImport(t *testing.T) {
	a := bytes.Repeat([]byte{0x0f}, csidh.PublicKeySize)
	b := bytes.Repeat([]byte{0xf0}, csidh.PublicKeySize)
	var used, fresh csidh.PublicKey
	used.Import(a)
	used.Import(b)
	fresh.Import(b)
	out1, out2 := make([]byte, csidh.PublicKeySize), make([]byte, csidh.PublicKeySize)
	used.Export(out1)
	fresh.Export(out2)
	if !bytes.Equal(out1, out2) {
		t.Errorf("Import into a used public key differs from Import into a fresh one: %x.. vs %x..", out1[:4], out2[:4])
	}
	func() {
		defer func() {
			if r := recover(); r != nil {
				t.Errorf("PrivateKey.Import panics on over-long input: %v", r)
			}
		}()
		var sk csidh.PrivateKey
		if sk.Import(make([]byte, csidh.PrivateKeySize+8)) {
			t.Errorf("over-long private key accepted")
		}
	}()
}
