package main

import (
	"fmt"
	"go/constant"
	"go/token"
	"go/types"
	"sort"
	"strings"

	"golang.org/x/tools/go/ssa"
)

// aliasUnsafe: for a function with several pointer parameters of one element type, the pairs (z, x)
// such that memory reached through z is written and, later on some path, memory reached through x is
// read: with z == x the second read sees the result instead of the operand.
// Accesses are stores / loads through the parameter and calls that pass (memory rooted at) the
// parameter to a callee that writes / reads it.
type paramAccess struct {
	instr ssa.Instruction
	par   int
	write bool
	path  []string // components below the parameter ("*" = unknown index)
}

// accessPath: the field / index components between the root parameter and the accessed location.
func accessPath(v ssa.Value) []string {
	var rev []string
	for i := 0; i < 64; i++ {
		switch x := v.(type) {
		case *ssa.FieldAddr:
			rev = append(rev, "."+fieldName(x))
			v = x.X
		case *ssa.IndexAddr:
			if k, ok := x.Index.(*ssa.Const); ok && k.Value != nil {
				rev = append(rev, "["+k.Value.ExactString()+"]")
			} else if ph, off, step, ok := induction(x.Index); ok {
				rev = append(rev, fmt.Sprintf("i:%s:%d:%d", ph.Name(), step, off))
			} else {
				rev = append(rev, "*")
			}
			v = x.X
		case *ssa.Slice:
			rev = append(rev, "*")
			v = x.X
		case *ssa.Convert:
			v = x.X
		case *ssa.ChangeType:
			v = x.X
		case *ssa.SliceToArrayPointer:
			v = x.X
		case *ssa.UnOp:
			if x.Op != token.MUL {
				i = 64
				break
			}
			rev = append(rev, "->")
			v = x.X
		default:
			i = 64
		}
	}
	out := make([]string, len(rev))
	for i := range rev {
		out[len(rev)-1-i] = rev[i]
	}
	return out
}

// induction: v = phi + off where phi is a loop-header phi advanced by the non-zero constant step on
// its back edge(s): in every iteration it takes a different value.
func induction(v ssa.Value) (ph *ssa.Phi, off, step int64, ok bool) {
	if bo, isB := v.(*ssa.BinOp); isB && (bo.Op == token.ADD || bo.Op == token.SUB) {
		if k, isK := bo.Y.(*ssa.Const); isK && k.Value != nil {
			if p2, o2, s2, ok2 := induction(bo.X); ok2 {
				d, exact := constant.Int64Val(constant.ToInt(k.Value))
				if !exact {
					return nil, 0, 0, false
				}
				if bo.Op == token.SUB {
					d = -d
				}
				return p2, o2 + d, s2, true
			}
		}
		return nil, 0, 0, false
	}
	if cv, isC := v.(*ssa.Convert); isC {
		return induction(cv.X)
	}
	ph, isPhi := v.(*ssa.Phi)
	if !isPhi {
		return nil, 0, 0, false
	}
	back := 0
	for i, e := range ph.Edges {
		if !ph.Block().Dominates(ph.Block().Preds[i]) {
			continue
		}
		back++
		bo, isB := e.(*ssa.BinOp)
		if !isB || (bo.Op != token.ADD && bo.Op != token.SUB) || bo.X != ssa.Value(ph) {
			return nil, 0, 0, false
		}
		k, isK := bo.Y.(*ssa.Const)
		if !isK || k.Value == nil {
			return nil, 0, 0, false
		}
		d, exact := constant.Int64Val(constant.ToInt(k.Value))
		if !exact || d == 0 {
			return nil, 0, 0, false
		}
		if bo.Op == token.SUB {
			d = -d
		}
		if step != 0 && step != d {
			return nil, 0, 0, false
		}
		step = d
	}
	if back == 0 {
		return nil, 0, 0, false
	}
	return ph, 0, step, true
}

// parseInd decodes an induction component "i:<phi>:<step>:<off>".
func parseInd(c string) (phi string, step, off int64, ok bool) {
	if !strings.HasPrefix(c, "i:") {
		return "", 0, 0, false
	}
	parts := strings.Split(c, ":")
	if len(parts) != 4 {
		return "", 0, 0, false
	}
	fmt.Sscanf(parts[2], "%d", &step)
	fmt.Sscanf(parts[3], "%d", &off)
	return parts[1], step, off, true
}

// comparePaths: 0 = the two accesses never touch the same memory, 1 = they may (in any order),
// 2 = they touch the same element only within one loop iteration.
func comparePaths(a, b []string) int {
	n := len(a)
	if len(b) < n {
		n = len(b)
	}
	res := 1
	for i := 0; i < n; i++ {
		if a[i] == "*" || b[i] == "*" {
			continue
		}
		pa, sa, oa, ia := parseInd(a[i])
		pb, sb, ob, ib := parseInd(b[i])
		if ia && ib && pa == pb && sa == sb {
			d := oa - ob
			if d%sa != 0 {
				return 0 // e.g. p[i], p[i+1] written and a[i+2], a[i+3] read with step 4
			}
			if d == 0 {
				res = 2
			}
			continue
		}
		if ia || ib {
			continue // induction against a constant or another variable: unknown
		}
		if a[i] != b[i] {
			return 0
		}
	}
	return res
}

// writesThrough: callee cal writes memory reached through its argument j (mod-set, or - for functions
// without a Go body, i.e. assembly - the convention that the first pointer argument is the destination;
// followed through wrappers).
func writesThrough(p *Program, cal *ssa.Function, j int, depth int) bool {
	if cal == nil || depth > 4 {
		return false
	}
	if cal.Blocks == nil {
		return j == 0 && isCirclFunc(cal)
	}
	for _, w := range p.Mod().of(cal) {
		var i int
		if _, err := fmt.Sscanf(w.Root, "param#%d", &i); err == nil && i == j {
			return true
		}
	}
	if j >= len(cal.Params) {
		return false
	}
	for _, b := range cal.Blocks {
		for _, in := range b.Instrs {
			ci, ok := in.(ssa.CallInstruction)
			if !ok {
				continue
			}
			c := ci.Common()
			if c.IsInvoke() || c.StaticCallee() == nil {
				continue
			}
			for k, a := range c.Args {
				base, _ := memRoot(a)
				if base == ssa.Value(cal.Params[j]) && writesThrough(p, c.StaticCallee(), k, depth+1) {
					return true
				}
			}
		}
	}
	return false
}

func paramAccesses(p *Program, f *ssa.Function, pars map[int]bool) []paramAccess {
	var out []paramAccess
	mod := p.Mod()
	rootIdx := func(v ssa.Value) int {
		base, _ := memRoot(v)
		if par, ok := base.(*ssa.Parameter); ok {
			for i, q := range f.Params {
				if q == par && pars[i] {
					return i
				}
			}
		}
		return -1
	}
	for _, b := range f.Blocks {
		for _, in := range b.Instrs {
			switch x := in.(type) {
			case *ssa.Store:
				if i := rootIdx(x.Addr); i >= 0 {
					out = append(out, paramAccess{in, i, true, accessPath(x.Addr)})
				}
				// storing *x somewhere reads x: handled by the load instruction itself
			case *ssa.UnOp:
				if x.Op == token.MUL {
					if i := rootIdx(x.X); i >= 0 {
						out = append(out, paramAccess{in, i, false, accessPath(x.X)})
					}
				}
			case ssa.CallInstruction:
				c := x.Common()
				var args []ssa.Value
				if c.IsInvoke() {
					args = append(args, c.Value)
				}
				args = append(args, c.Args...)
				name := p.staticCalleeName(c)
				ew := map[int]bool{}
				for _, i := range externalWrites(name, len(args)) {
					ew[i] = true
				}
				var mw map[int]bool
				cal := c.StaticCallee()
				if cal != nil && cal.Blocks != nil {
					mw = map[int]bool{}
					for _, w := range mod.of(cal) {
						var i int
						if _, err := fmt.Sscanf(w.Root, "param#%d", &i); err == nil {
							mw[i] = true
						}
					}
				}
				for j, a := range args {
					i := rootIdx(a)
					if i < 0 || !(pointerLike(a.Type()) || sliceLike(a.Type())) {
						continue
					}
					wr := ew[j] || (mw != nil && mw[j]) || writesThrough(p, cal, j, 0)
					if wr {
						out = append(out, paramAccess{in, i, true, accessPath(a)})
					}
					// any callee may read what it is handed, except the pure destination of a copy / read
					if !ew[j] {
						out = append(out, paramAccess{in, i, false, accessPath(a)})
					}
				}
			}
		}
	}
	return out
}

// reachesInstr: b can be executed after a (same block later, or a's block reaches b's block).
func reachesInstr(a, b ssa.Instruction) bool {
	ba, bb := a.Block(), b.Block()
	if ba == bb {
		ia, ib := -1, -1
		for i, in := range ba.Instrs {
			if in == a {
				ia = i
			}
			if in == b {
				ib = i
			}
		}
		if ia < ib {
			return true
		}
		// through a cycle
	}
	seen := map[*ssa.BasicBlock]bool{}
	work := append([]*ssa.BasicBlock{}, ba.Succs...)
	for len(work) > 0 {
		x := work[len(work)-1]
		work = work[:len(work)-1]
		if seen[x] {
			continue
		}
		seen[x] = true
		if x == bb {
			return true
		}
		work = append(work, x.Succs...)
	}
	return false
}

type aliasFinding struct {
	z, x   int
	wr, rd ssa.Instruction
}

func aliasUnsafe(p *Program, f *ssa.Function) (finds []aliasFinding, groups int) {
	// parameters grouped by pointer element type
	byType := map[string][]int{}
	for i, par := range f.Params {
		pt, ok := par.Type().Underlying().(*types.Pointer)
		if !ok {
			continue
		}
		if _, isNamed := pt.Elem().(*types.Named); !isNamed {
			continue
		}
		byType[pt.Elem().String()] = append(byType[pt.Elem().String()], i)
	}
	for _, idx := range byType {
		if len(idx) < 2 {
			continue
		}
		groups++
		pars := map[int]bool{}
		for _, i := range idx {
			pars[i] = true
		}
		acc := paramAccesses(p, f, pars)
		seen := map[[2]int]bool{}
		for _, w := range acc {
			if !w.write {
				continue
			}
			for _, r := range acc {
				if r.write || r.par == w.par || seen[[2]int{w.par, r.par}] {
					continue
				}
				if r.instr == w.instr {
					continue // one call: the callee is analysed on its own
				}
				switch comparePaths(w.path, r.path) {
				case 0:
					continue // different components: z[0] = f(x[0]); z[1] = f(x[1]) is safe
				case 2:
					if !instrDominates(w.instr, r.instr) {
						continue // element-wise loop: element i is read before it is written, other elements differ
					}
				}
				if reachesInstr(w.instr, r.instr) {
					seen[[2]int{w.par, r.par}] = true
					finds = append(finds, aliasFinding{w.par, r.par, w.instr, r.instr})
				}
			}
		}
	}
	sort.Slice(finds, func(i, j int) bool {
		if finds[i].z != finds[j].z {
			return finds[i].z < finds[j].z
		}
		return finds[i].x < finds[j].x
	})
	return
}

func surveyAliasUnsafe(p *Program, prefixes []string) {
	n := 0
	for f := range p.AllFuncs {
		if f.Blocks == nil || !isCirclFunc(f) || f.Synthetic != "" || f.Parent() != nil {
			continue
		}
		rel := strings.TrimPrefix(funcPkgPath(f), circlPath+"/")
		ok := false
		for _, pre := range prefixes {
			if rel == strings.TrimSuffix(pre, "/") || strings.HasPrefix(rel, strings.TrimSuffix(pre, "/")+"/") {
				ok = true
			}
		}
		if !ok {
			continue
		}
		fs, g := aliasUnsafe(p, f)
		if g > 0 {
			n++
		}
		for _, a := range fs {
			fmt.Printf("ALIASUNSAFE %s: %s: %s written at %s, then %s read at %s\n", p.fnPos(f), fname(f), f.Params[a.z].Name(), p.pos(a.wr.Pos()), f.Params[a.x].Name(), p.pos(a.rd.Pos()))
		}
	}
	fmt.Printf("ALIASUNSAFE functions=%d\n", n)
}

// aliasScope: the packages whose field / scalar operations are checked for alias safety (C12 quantifies
// over the aliasing patterns z=x, z=y, x=y).
var aliasScope = []string{"math/fp25519", "math/fp448", "ecc/fourq", "ecc/bls12381/ff", "ecc/p384", "dh/csidh", "ecc/goldilocks", "vdaf/prio3/arith", "sign/ed25519", "math", "group", "pke/kyber/internal/common", "sign/internal/dilithium"}

func exportedOp(f *ssa.Function) bool {
	if f.Object() == nil || !f.Object().Exported() || strings.Contains(funcPkgPath(f), "/internal") {
		return false
	}
	if recv := f.Signature.Recv(); recv != nil {
		t := recv.Type()
		if pt, ok := t.(*types.Pointer); ok {
			t = pt.Elem()
		}
		if nt, ok := t.(*types.Named); ok && !nt.Obj().Exported() {
			return false
		}
	}
	return true
}

// sameLocation: the two pointer values certainly denote the same memory (same SSA value, or the same
// field / constant-index path below the same SSA value).
func sameLocation(a, b ssa.Value, depth int) bool {
	if a == b {
		return true
	}
	if depth > 8 {
		return false
	}
	switch x := a.(type) {
	case *ssa.FieldAddr:
		y, ok := b.(*ssa.FieldAddr)
		return ok && x.Field == y.Field && sameLocation(x.X, y.X, depth+1)
	case *ssa.IndexAddr:
		y, ok := b.(*ssa.IndexAddr)
		if !ok || !sameLocation(x.X, y.X, depth+1) {
			return false
		}
		kx, okx := x.Index.(*ssa.Const)
		ky, oky := y.Index.(*ssa.Const)
		if okx && oky && kx.Value != nil && ky.Value != nil {
			return kx.Value.ExactString() == ky.Value.ExactString()
		}
		return x.Index == y.Index
	case *ssa.UnOp:
		y, ok := b.(*ssa.UnOp)
		return ok && x.Op == token.MUL && y.Op == token.MUL && sameLocation(x.X, y.X, depth+1) && x.Block() == y.Block()
	case *ssa.ChangeType:
		if y, ok := b.(*ssa.ChangeType); ok {
			return sameLocation(x.X, y.X, depth+1)
		}
	}
	return false
}

// checkC12Alias: an operation z = f(x, y) whose operands have one type gives the same result when the
// destination is one of the sources. Decided structurally: memory reached through the destination is not
// written before the last read of the same component of a source. For an exported operation every
// destination / source pair must be safe; for an internal one, the pairs its call sites actually alias.
func checkC12Alias(c *Ctx, p *Program) { checkAlias(c, p, "C12.alias", aliasScope, 150) }

func checkAlias(c *Ctx, p *Program, rule string, scope []string, floor int) {
	var fs []*ssa.Function
	for f := range p.AllFuncs {
		if f.Blocks == nil || !isCirclFunc(f) || f.Synthetic != "" || f.Parent() != nil {
			continue
		}
		rel := strings.TrimPrefix(funcPkgPath(f), circlPath+"/")
		for _, pre := range scope {
			if rel == pre || strings.HasPrefix(rel, pre+"/") {
				fs = append(fs, f)
				break
			}
		}
	}
	sort.Slice(fs, func(i, j int) bool { return fs[i].String() < fs[j].String() })
	// call sites by callee
	sites := map[*ssa.Function][]ssa.CallInstruction{}
	for g := range p.AllFuncs {
		if g.Blocks == nil || !isCirclFunc(g) {
			continue
		}
		for _, b := range g.Blocks {
			for _, in := range b.Instrs {
				if ci, ok := in.(ssa.CallInstruction); ok {
					if cal := ci.Common().StaticCallee(); cal != nil {
						sites[cal] = append(sites[cal], ci)
					}
				}
			}
		}
	}
	n, nExp, nInt, nUnsafeInt := 0, 0, 0, 0
	for _, f := range fs {
		finds, groups := aliasUnsafe(p, f)
		if groups == 0 {
			continue
		}
		n++
		if exportedOp(f) {
			nExp++
			construct := fname(f) + ": the result does not change when the destination is one of the sources"
			if len(finds) == 0 {
				c.ok(rule, construct, "no component of a pointer operand is read after the same component of another one was written", p.fnPos(f))
				continue
			}
			var ds []string
			for _, a := range finds {
				ds = append(ds, fmt.Sprintf("with %s = %s: %s is written at %s and %s is read afterwards at %s", f.Params[a.z].Name(), f.Params[a.x].Name(), f.Params[a.z].Name(), p.pos(a.wr.Pos()), f.Params[a.x].Name(), p.pos(a.rd.Pos())))
			}
			c.bad(rule, construct, strings.Join(ds, "; "), p.fnPos(f))
			continue
		}
		nInt++
		if len(finds) == 0 {
			continue
		}
		nUnsafeInt++
		// internal helper that is not alias-safe: no call site may alias the unsafe pairs
		var ds []string
		for _, cs := range sites[f] {
			args := cs.Common().Args
			for _, a := range finds {
				if a.z >= len(args) || a.x >= len(args) {
					continue
				}
				if sameLocation(args[a.z], args[a.x], 0) {
					ds = append(ds, fmt.Sprintf("%s passes the same operand as %s and %s", p.pos(cs.Pos()), f.Params[a.z].Name(), f.Params[a.x].Name()))
				}
			}
		}
		construct := fname(f) + ": internal operation that reads a source after writing the destination is never called with the two aliased"
		if len(ds) > 0 {
			sort.Strings(ds)
			c.bad(rule, construct, strings.Join(uniq(ds), "; "), p.fnPos(f))
		} else {
			c.ok(rule, construct, fmt.Sprintf("%d call sites, none passes one operand for both parameters", len(sites[f])), p.fnPos(f))
		}
	}
	c.count("alias_functions", n)
	c.count("alias_exported", nExp)
	c.count("alias_internal", nInt)
	if n < floor {
		c.undecided(rule, "operations with several operands of one type", fmt.Sprintf("only %d found (floor %d)", n, floor), "")
	}
	c.ok(rule, "internal operations with several operands of one type", fmt.Sprintf("%d inspected, %d read a source after writing the destination (each checked at its call sites)", nInt, nUnsafeInt), "")
}

func init() {
	prev := registry["C12"]
	registry["C12"] = func(c *Ctx) {
		prev(c)
		if p := c.Prog("amd64"); p != nil {
			c.Clauses = append(c.Clauses, "C12.alias: field and scalar operations with several operands of one type read every component of a source before they write the same component of the destination (exported operations: for every destination/source pair; internal ones: for the pairs their call sites alias)")
			checkC12Alias(c, p)
		}
	}
}

func init() {
	prev := registry["C06"]
	registry["C06"] = func(c *Ctx) {
		prev(c)
		if p := c.Prog("amd64"); p != nil {
			// Shared(shared, secret, public): an in-place call (the output buffer is the peer value or the secret)
			// must give the same result
			c.Clauses = append(c.Clauses, "C06.alias: Shared and the ladder helpers read every component of an input before writing the same component of the output (in-place calls give the same result)")
			checkAlias(c, p, "C06.alias", []string{"dh/x25519", "dh/x448", "dh/curve4q"}, 10)
		}
	}
}

// C13.equal: the projective / extended equality tests of the curve implementations decide on every
// coordinate of both operands (an equality on x alone identifies P and -P, which the doubling guards
// of the combined multiplications rely on).
func init() {
	prev := registry["C13"]
	registry["C13"] = func(c *Ctx) {
		prev(c)
		p := c.Prog("amd64")
		if p == nil {
			return
		}
		c.Clauses = append(c.Clauses, "C13.equal: the point equality tests (P-384 Jacobian, BLS12-381 G1/G2, Goldilocks, FourQ, Ed25519) depend on every coordinate of both operands")
		// scalars at or above the group order are admitted: the zero test that short-cuts the recoding (which
		// cannot handle zero) has to look at the scalar after its reduction modulo the order
		if f := p.Func("ecc/p384", "curve", "scalarMultOmega"); f != nil {
			c.orderRule(p, "C13.cofactor", "the zero test of the scalar follows its reduction modulo the group order", f,
				"call of curve.reduceScalar", p.isCallTo(-1, nil, "(ecc/p384.curve).reduceScalar"), "call of (*big.Int).Sign", p.isCallTo(-1, nil, "(*math/big.Int).Sign"))
		}
		type eq struct {
			pkg, typ, name string
			fields         []string
		}
		for _, e := range []eq{
			{"ecc/p384", "jacobianPoint", "isEqual", []string{"x", "y", "z"}},
			{"ecc/bls12381", "G1", "IsEqual", []string{"x", "y", "z"}},
			{"ecc/bls12381", "G2", "IsEqual", []string{"x", "y", "z"}},
			{"ecc/goldilocks", "Point", "IsEqual", []string{"x", "y", "z"}},
			{"ecc/fourq", "pointR1", "isEqual", []string{"X", "Y", "Z"}},
			{"sign/ed25519", "pointR1", "isEqual", []string{"x", "y", "z"}},
		} {
			f := p.Func(e.pkg, e.typ, e.name)
			if f == nil {
				if e.pkg == "ecc/p384" {
					c.ok("C13.equal", e.pkg+"."+e.typ+"."+e.name, "not part of this build configuration", "")
				} else {
					c.undecided("C13.equal", e.pkg+"."+e.typ+"."+e.name, "anchor does not resolve", "")
				}
				continue
			}
			var src []string
			for _, par := range f.Params[:2] {
				for _, fl := range e.fields {
					src = append(src, "field:"+par.Name()+"."+fl)
				}
			}
			c.depRule(p, "C13.equal", "the verdict depends on every coordinate of both points", f, sinkVerdict(), src...)
		}
		// unary predicates whose answer needs more than one coordinate: affine infinity is (0,0) while (0, ±√b)
		// are ordinary points of P-384; the Edwards identities are (0, y, y); (0,0,0) is no projective point
		for _, e := range []eq{
			{"ecc/p384", "affinePoint", "isZero", []string{"x", "y"}},
			{"ecc/goldilocks", "Point", "IsIdentity", []string{"x", "y", "z"}},
			{"ecc/fourq", "pointR1", "IsIdentity", []string{"X", "Y", "Z"}},
			{"ecc/bls12381", "G1", "isValidProjective", []string{"x", "y", "z"}},
			{"ecc/bls12381", "G2", "isValidProjective", []string{"x", "y", "z"}},
		} {
			f := p.Func(e.pkg, e.typ, e.name)
			if f == nil {
				if e.pkg == "ecc/p384" {
					c.ok("C13.equal", e.pkg+"."+e.typ+"."+e.name, "not part of this build configuration", "")
				} else {
					c.undecided("C13.equal", e.pkg+"."+e.typ+"."+e.name, "anchor does not resolve", "")
				}
				continue
			}
			var src []string
			for _, fl := range e.fields {
				src = append(src, "field:"+f.Params[0].Name()+"."+fl)
			}
			c.depRule(p, "C13.equal", "the verdict depends on every coordinate it needs", f, sinkVerdict(), src...)
		}
	}
}
