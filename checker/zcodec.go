package main

import (
	"fmt"
	"go/token"
	"go/types"
	"sort"
	"strings"

	"golang.org/x/tools/go/ssa"
)

// fieldUse collects, for parameter i of f (a pointer to a struct), the top-level fields that f reads
// and writes, following the parameter into circl callees it is passed to.
type fieldUse struct {
	p     *Program
	reads map[string]bool
	write map[string]bool
	all   bool // the whole object is assigned
	seen  map[string]bool
}

func (u *fieldUse) isParamVal(f *ssa.Function, par *ssa.Parameter, v ssa.Value) bool {
	// (*internal.T)(p): the public key types are defined as conversions of the internal ones
	for {
		if ct, ok := v.(*ssa.ChangeType); ok {
			v = ct.X
			continue
		}
		if cv, ok := v.(*ssa.Convert); ok && pointerLike(cv.Type()) && pointerLike(cv.X.Type()) {
			v = cv.X
			continue
		}
		break
	}
	if v == ssa.Value(par) {
		return true
	}
	ld, ok := v.(*ssa.UnOp)
	if !ok || ld.Op != token.MUL {
		return false
	}
	a, ok := ld.X.(*ssa.Alloc)
	if !ok {
		return false
	}
	n := 0
	for _, r := range *a.Referrers() {
		if st, ok := r.(*ssa.Store); ok && st.Addr == ssa.Value(a) {
			n++
			if st.Val != ssa.Value(par) {
				return false
			}
		}
	}
	return n == 1
}

// addrWritten: the address (or a pointer derived from it) is the target of a store or is handed to
// a callee that writes through it; addrRead: it is loaded from or handed to a callee.
func (u *fieldUse) classify(f *ssa.Function, addr ssa.Value, depth int) (rd, wr bool) {
	if depth > 6 {
		return true, true
	}
	refs := addr.Referrers()
	if refs == nil {
		return
	}
	for _, r := range *refs {
		switch x := r.(type) {
		case *ssa.Store:
			if x.Addr == addr {
				wr = true
			} else {
				rd = true // the address itself is stored somewhere: treat as escaping read
			}
		case *ssa.UnOp:
			if x.Op == token.MUL {
				if rs := x.Referrers(); rs == nil || len(*rs) == 0 {
					continue // dead load (e.g. the array copy of a range loop that only uses the index)
				}
				rd = true
				// a loaded pointer / slice that is then written through
				if pointerLike(x.Type()) || sliceLike(x.Type()) {
					_, w2 := u.classify(f, x, depth+1)
					wr = wr || w2
				}
			}
		case *ssa.FieldAddr, *ssa.IndexAddr, *ssa.Slice, *ssa.Convert, *ssa.ChangeType, *ssa.SliceToArrayPointer, *ssa.Phi, *ssa.MakeInterface:
			r2, w2 := u.classify(f, x.(ssa.Value), depth+1)
			rd, wr = rd || r2, wr || w2
		case ssa.CallInstruction:
			c := x.Common()
			var args []ssa.Value
			if c.IsInvoke() {
				args = append(args, c.Value)
			}
			args = append(args, c.Args...)
			name := u.p.staticCalleeName(c)
			ew := map[int]bool{}
			for _, i := range externalWrites(name, len(args)) {
				ew[i] = true
			}
			var mw map[int]bool
			if cal := c.StaticCallee(); cal != nil && cal.Blocks != nil {
				mw = map[int]bool{}
				for _, w := range u.p.Mod().of(cal) {
					var i int
					if _, err := fmt.Sscanf(w.Root, "param#%d", &i); err == nil {
						mw[i] = true
					}
				}
			}
			for i, a := range args {
				if a != addr {
					continue
				}
				if ew[i] || (mw != nil && mw[i]) {
					wr = true
				}
				// a modelled pure writer (copy destination, ReadFull, FillBytes) does not read; everything else may
				if !ew[i] {
					rd = true
				}
			}
		default:
			rd = true
		}
	}
	return
}

func (u *fieldUse) walk(f *ssa.Function, pi int) {
	key := fmt.Sprintf("%s#%d", f.String(), pi)
	if u.seen[key] || f.Blocks == nil || pi >= len(f.Params) {
		return
	}
	u.seen[key] = true
	par := f.Params[pi]
	for _, b := range f.Blocks {
		for _, in := range b.Instrs {
			switch x := in.(type) {
			case *ssa.FieldAddr:
				if !u.isParamVal(f, par, x.X) {
					continue
				}
				n := fieldName(x)
				rd, wr := u.classify(f, x, 0)
				if rd {
					u.reads[n] = true
				}
				if wr {
					u.write[n] = true
				}
			case *ssa.Store:
				if u.isParamVal(f, par, x.Addr) {
					u.all = true
				}
			case ssa.CallInstruction:
				c := x.Common()
				var args []ssa.Value
				if c.IsInvoke() {
					args = append(args, c.Value)
				}
				args = append(args, c.Args...)
				for j, a := range args {
					if !u.isParamVal(f, par, a) {
						continue
					}
					if cal := c.StaticCallee(); cal != nil && cal.Blocks != nil && isCirclFunc(cal) {
						u.walk(cal, j)
					} else if c.IsInvoke() || c.StaticCallee() == nil {
						for _, cal := range u.p.dynamicCallees(f, x) {
							if cal.Blocks != nil && isCirclFunc(cal) {
								u.walk(cal, j)
							}
						}
					}
				}
			}
		}
	}
}

func fieldsUsed(p *Program, f *ssa.Function, pi int) *fieldUse {
	u := &fieldUse{p: p, reads: map[string]bool{}, write: map[string]bool{}, seen: map[string]bool{}}
	u.walk(f, pi)
	return u
}

// codecPairs: named struct types of circl that have both an encoder and a decoder method.
type codecPair struct {
	typ      *types.Named
	enc, dec *ssa.Function
}

func codecPairs(p *Program, prefixes []string) []codecPair {
	var out []codecPair
	for _, pkg := range p.Circl {
		rel := strings.TrimPrefix(pkg.PkgPath, circlPath+"/")
		okp := false
		for _, pre := range prefixes {
			if pre == "" || rel == strings.TrimSuffix(pre, "/") || strings.HasPrefix(rel, strings.TrimSuffix(pre, "/")+"/") {
				okp = true
			}
		}
		if !okp || pkg.Types == nil {
			continue
		}
		sc := pkg.Types.Scope()
		for _, n := range sc.Names() {
			tn, ok := sc.Lookup(n).(*types.TypeName)
			if !ok {
				continue
			}
			nt, ok := tn.Type().(*types.Named)
			if !ok {
				continue
			}
			if _, ok := nt.Underlying().(*types.Struct); !ok {
				continue
			}
			ms := p.SSA.MethodSets.MethodSet(types.NewPointer(nt))
			find := func(names ...string) *ssa.Function {
				for _, nm := range names {
					for i := 0; i < ms.Len(); i++ {
						if ms.At(i).Obj().Name() == nm {
							if m := p.SSA.MethodValue(ms.At(i)); m != nil && m.Blocks != nil && m.Synthetic == "" {
								return m
							}
						}
					}
				}
				return nil
			}
			for _, pr := range [][2][]string{{{"Pack"}, {"Unpack"}}, {{"MarshalBinary"}, {"UnmarshalBinary"}}} {
				e, d := find(pr[0]...), find(pr[1]...)
				if e != nil && d != nil {
					out = append(out, codecPair{nt, e, d})
					break
				}
			}
		}
	}
	sort.Slice(out, func(i, j int) bool { return out[i].enc.String() < out[j].enc.String() })
	return out
}

// codecScope: per property, the packages whose encoder/decoder method pairs are compared.
var codecScope = map[string][]string{
	"C01": {"kem/", "pke/"},
	"C02": {"sign/"},
	"C09": {"ecc/", "group", "oprf"},
	"C16": {"zk/", "oprf"},
	"C17": {"tss/", "secretsharing"},
	"C20": {"abe/"},
}

// codecExceptions: fields an encoder reads that the decoder legitimately leaves alone.
var codecExceptions = map[string]string{
	"(*group.wElt).MarshalBinary#wG":            "the curve handle is set when the element is created by its group; decoding keeps it",
	"(*group.wScl).MarshalBinary#wG":            "the curve handle is set when the scalar is created by its group; decoding keeps it",
	"(*group.ristrettoElement).MarshalBinary#p": "decoded by the external go-ristretto method called on the field itself (the write is inside the dependency)",
}

// codecRule: every field of a key / proof object that its encoder reads is assigned by its decoder, so a
// decoded object encodes to what was decoded (nothing of the object's previous contents is re-emitted).
func (c *Ctx) codecRule(p *Program, rule string, prefixes ...string) {
	pairs := codecPairs(p, prefixes)
	c.count("codec_pairs", len(pairs))
	seen := map[string]bool{}
	for _, cp := range pairs {
		construct := fname(cp.enc) + " / " + cp.dec.Name() + ": every field the encoder reads is assigned by the decoder"
		if seen[construct] {
			continue // instantiations of one generic type
		}
		seen[construct] = true
		e := fieldsUsed(p, cp.enc, 0)
		d := fieldsUsed(p, cp.dec, 0)
		var miss, exc []string
		for n := range e.reads {
			if d.write[n] || d.all {
				continue
			}
			if _, ok := codecExceptions[fname(cp.enc)+"#"+n]; ok {
				exc = append(exc, n)
				continue
			}
			miss = append(miss, n)
		}
		sort.Strings(miss)
		sort.Strings(exc)
		if len(miss) > 0 {
			c.bad(rule, construct, fmt.Sprintf("encoded but never decoded: field(s) %v keep their previous contents (encoder reads %v, decoder assigns %v)", miss, keysOf(e.reads), keysOf(d.write)), p.fnPos(cp.dec))
			continue
		}
		w := fmt.Sprintf("encoder reads %v, decoder assigns %v", keysOf(e.reads), keysOf(d.write))
		if d.all {
			w += " (whole object assigned)"
		}
		if len(exc) > 0 {
			w += fmt.Sprintf("; by design not decoded: %v", exc)
		}
		c.ok(rule, construct, w, p.fnPos(cp.dec))
	}
	if len(pairs) == 0 {
		c.undecided(rule, strings.Join(prefixes, ",")+": encoder/decoder pairs", "no type with both an encoder and a decoder method found", "")
	}
}

func init() {
	for prop, pres := range codecScope {
		prop, pres := prop, pres
		prev := registry[prop]
		if prev == nil {
			panic("codec: " + prop + " not registered")
		}
		registry[prop] = func(c *Ctx) {
			prev(c)
			if p := c.Prog("amd64"); p != nil {
				c.Clauses = append(c.Clauses, prop+".codec: every field an encoder method reads is assigned by the matching decoder method")
				c.codecRule(p, prop+".codec", pres...)
			}
		}
	}
}

func surveyCodec(p *Program) {
	for _, cp := range codecPairs(p, []string{""}) {
		e := fieldsUsed(p, cp.enc, 0)
		d := fieldsUsed(p, cp.dec, 0)
		var miss []string
		for n := range e.reads {
			if !d.write[n] && !d.all {
				miss = append(miss, n)
			}
		}
		sort.Strings(miss)
		fmt.Printf("CODEC %s / %s: encoder reads %v; decoder writes %v all=%v; MISSING %v\n", fname(cp.enc), cp.dec.Name(), keysOf(e.reads), keysOf(d.write), d.all, miss)
	}
}

// ctorRule: every function of the package that builds and returns a fresh object of the named type
// assigns all the fields that the consumer method reads (a constructor that forgets a cached value
// hands out an object that silently computes with zero).
func (c *Ctx) ctorRule(p *Program, rule, pkg, typ, consumer string) {
	cons := p.Func(pkg, typ, consumer)
	what := fmt.Sprintf("%s.%s: every constructor assigns the fields %s reads", pkg, typ, consumer)
	if cons == nil {
		c.undecided(rule, what, "consumer method does not resolve", "")
		return
	}
	need := fieldsUsed(p, cons, 0).reads
	path := circlPath + "/" + pkg
	var fs []*ssa.Function
	for f := range p.AllFuncs {
		if f.Blocks != nil && funcPkgPath(f) == path && sourceFunc(f) && f.Parent() == nil {
			fs = append(fs, f)
		}
	}
	sort.Slice(fs, func(i, j int) bool { return fs[i].String() < fs[j].String() })
	n := 0
	for _, f := range fs {
		// fresh objects of the type that f returns
		allocs := map[*ssa.Alloc]bool{}
		for _, b := range f.Blocks {
			ret, ok := b.Instrs[len(b.Instrs)-1].(*ssa.Return)
			if !ok {
				continue
			}
			for _, r := range ret.Results {
				v := r
				if mi, ok := v.(*ssa.MakeInterface); ok {
					v = mi.X
				}
				a, ok := v.(*ssa.Alloc)
				if !ok {
					continue
				}
				if nt, ok := a.Type().(*types.Pointer).Elem().(*types.Named); ok && nt.Obj().Name() == typ && nt.Obj().Pkg() != nil && nt.Obj().Pkg().Path() == path {
					allocs[a] = true
				}
			}
		}
		for a := range allocs {
			n++
			written := map[string]bool{}
			u := &fieldUse{p: p, reads: map[string]bool{}, write: map[string]bool{}, seen: map[string]bool{}}
			whole := false
			for _, r := range *a.Referrers() {
				switch x := r.(type) {
				case *ssa.FieldAddr:
					if _, wr := u.classify(f, x, 0); wr {
						written[fieldName(x)] = true
					}
				case *ssa.Store:
					if x.Addr == ssa.Value(a) {
						whole = true
					}
				case ssa.CallInstruction:
					// the object is handed to a callee (a decoder, a deriving helper) that fills it
					c0 := x.Common()
					var args []ssa.Value
					if c0.IsInvoke() {
						args = append(args, c0.Value)
					}
					args = append(args, c0.Args...)
					for j, arg := range args {
						if arg == ssa.Value(a) {
							if cal := c0.StaticCallee(); cal != nil && cal.Blocks != nil {
								fu := fieldsUsed(p, cal, j)
								for k := range fu.write {
									written[k] = true
								}
								if fu.all {
									whole = true
								}
							}
						}
					}
				}
			}
			var miss []string
			for k := range need {
				if !written[k] && !whole {
					miss = append(miss, k)
				}
			}
			sort.Strings(miss)
			construct := fmt.Sprintf("%s: the %s it returns has every field assigned that %s reads", fname(f), typ, consumer)
			if len(miss) > 0 {
				c.bad(rule, construct, fmt.Sprintf("field(s) %v are read by %s and left at their zero value by this constructor (assigned: %v)", miss, consumer, keysOf(written)), p.fnPos(f))
			} else {
				c.ok(rule, construct, fmt.Sprintf("reads %v, assigned %v", keysOf(need), keysOf(written)), p.fnPos(f))
			}
		}
	}
	if n == 0 {
		c.undecided(rule, what, "no function of the package returns a fresh object of the type", "")
	}
}
