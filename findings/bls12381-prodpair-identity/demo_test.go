package bls12381

// Demonstration (C13): ProdPair / ProdPairFrac batch-normalise the G1 inputs with one simultaneous
// inversion; an identity element (z = 0) among them zeroes every inverse, so every factor of the
// product is computed on (0,0) and the result is wrong although each single pairing is right.
//
// Copy to ecc/bls12381/ and run: go test -run TestDemoPairIdentity ./

import (
	"crypto/rand"
	"testing"
)

func TestDemoPairIdentity(t *testing.T) {
	id1 := new(G1)
	id1.SetIdentity()
	id2 := new(G2)
	id2.SetIdentity()
	g1, g2 := G1Generator(), G2Generator()
	if !Pair(id1, g2).IsIdentity() {
		t.Error("e(O, Q) != 1")
	}
	if !Pair(g1, id2).IsIdentity() {
		t.Error("e(P, O) != 1")
	}
	if !Pair(id1, id2).IsIdentity() {
		t.Error("e(O, O) != 1")
	}
	// product with an identity factor
	k := new(Scalar)
	_ = k.Random(rand.Reader)
	one := new(Scalar)
	one.SetOne()
	want := Pair(g1, g2)
	got := ProdPair([]*G1{g1, id1}, []*G2{g2, g2}, []*Scalar{one, k})
	if !got.IsEqual(want) {
		t.Error("ProdPair with e(O,Q)^k factor differs from the single pairing")
	}
	got = ProdPair([]*G1{g1, g1}, []*G2{g2, id2}, []*Scalar{one, k})
	if !got.IsEqual(want) {
		t.Error("ProdPair with e(P,O)^k factor differs from the single pairing")
	}
	got = ProdPairFrac([]*G1{g1, id1}, []*G2{g2, g2}, []int{1, -1})
	if !got.IsEqual(want) {
		t.Error("ProdPairFrac with e(O,Q)^-1 factor differs")
	}
	got = ProdPairFrac([]*G1{g1, g1}, []*G2{g2, id2}, []int{1, 1})
	if !got.IsEqual(want) {
		t.Error("ProdPairFrac with e(P,O) factor differs")
	}
}
