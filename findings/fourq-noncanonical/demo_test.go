package fourq_test

// Demonstrates (C09): fourq.Point.Unmarshal accepts a coordinate equal to the modulus p = 2^127-1
// (Fp.fromBytes reduces instead of rejecting), so two different byte strings decode to the same
// point and the alias does not re-serialise to the bytes parsed.
// Place in /repo/ecc/fourq: go test -run TestFindingNonCanonical ./ecc/fourq/

import (
	"bytes"
	"testing"

	"github.com/cloudflare/circl/ecc/fourq"
)

func TestFindingNonCanonical(t *testing.T) {
	var canon, alias [fourq.Size]byte // y = (0, 0)
	for i := 0; i < 15; i++ {
		alias[i] = 0xff
	}
	alias[15] = 0x7f // y = (p, 0) == (0, 0) mod p
	var P, Q fourq.Point
	if !P.Unmarshal(&canon) {
		t.Skip("canonical y=0 not accepted; pick another point")
	}
	if Q.Unmarshal(&alias) {
		var out [fourq.Size]byte
		Q.Marshal(&out)
		if !bytes.Equal(out[:], alias[:]) {
			t.Errorf("non-canonical coordinate p accepted; re-serialises to %x, parsed %x", out, alias)
		}
	}
}
