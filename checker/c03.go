package main

import (
	"fmt"
	"go/token"
	"go/types"

	"golang.org/x/tools/go/ssa"
)

func init() { registry["C03"] = checkC03 }

func checkC03(c *Ctx) {
	p := c.Prog("amd64")
	if p == nil {
		return
	}
	c.Clauses = append(c.Clauses,
		"C03.params: (k, eta1, eta2, du, dv, sizes, q, n) of each parameter set equal FIPS 203 Table 2/3",
		"C03.keycheck: ML-KEM encapsulation-key parsing succeeds only through the re-encode-and-compare modulus check, decapsulation-key parsing only if H(ek) equals the embedded hash, both only for the exact length",
		"C03.domsep: ML-KEM key generation appends the byte k to the 32-byte seed d before G; the ML-KEM packages call the ML-KEM variants of key generation / key parsing and the Kyber packages the round-3 ones",
		"C03.fo: the sequence of hash / PKE operations of Encaps and Decaps (which hash absorbs what, in which order, where the outputs go) equals FIPS 203 resp. Kyber round 3")
	c.NotDec = append(c.NotDec, "NTT, reductions, compression, sampling and all other arithmetic (value-level)", "byte-exact equality with the specifications")

	type ps struct {
		n               string
		k, eta1, du, dv int64
		ct, pk, sk      int64
	}
	sets := []ps{{"512", 2, 3, 10, 4, 768, 800, 768}, {"768", 3, 2, 10, 4, 1088, 1184, 1152}, {"1024", 4, 2, 11, 5, 1568, 1568, 1536}}
	cm := "pke/kyber/internal/common"
	c.tableConstInt(p, "C03.params", cm, "Q", 3329)
	c.tableConstInt(p, "C03.params", cm, "N", 256)
	c.tableConstInt(p, "C03.params", cm, "Eta2", 2)
	c.tableConstInt(p, "C03.params", cm, "PolySize", 384)
	hw, hr := "(*internal/sha3.State).Write", "(*internal/sha3.State).Read"
	for _, s := range sets {
		ip := "pke/kyber/kyber" + s.n + "/internal"
		pp := "pke/kyber/kyber" + s.n
		c.tableConstInt(p, "C03.params", ip, "K", s.k)
		c.tableConstInt(p, "C03.params", ip, "Eta1", s.eta1)
		c.tableConstInt(p, "C03.params", ip, "DU", s.du)
		c.tableConstInt(p, "C03.params", ip, "DV", s.dv)
		c.tableConstInt(p, "C03.params", ip, "CiphertextSize", s.ct)
		c.tableConstInt(p, "C03.params", ip, "PublicKeySize", s.pk)
		c.tableConstInt(p, "C03.params", ip, "PrivateKeySize", s.sk)

		ml, ky := "kem/mlkem/mlkem"+s.n, "kem/kyber/kyber"+s.n
		// domain separation of ML-KEM key generation
		kg := p.Func(pp, "", "NewKeyFromSeedMLKEM")
		c.callArgRule(p, "C03.domsep", "ML-KEM.KeyGen hashes d ‖ k", kg, ip+".NewKeyFromSeed", "", map[int]string{0: fmt.Sprintf(`\[copy\(param#0\) "\\x%02x"\]`, s.k)})
		c.callCountRule(p, "C03.domsep", "ML-KEM key generation uses the domain-separated seed expansion", p.Func(ml, "", "NewKeyFromSeed"), map[string]int{pp + ".NewKeyFromSeedMLKEM": 1, pp + ".NewKeyFromSeed": 0})
		c.callCountRule(p, "C03.domsep", "Kyber key generation uses the round-3 seed expansion", p.Func(ky, "", "NewKeyFromSeed"), map[string]int{pp + ".NewKeyFromSeedMLKEM": 0, pp + ".NewKeyFromSeed": 1})
		c.callCountRule(p, "C03.domsep", "ML-KEM public-key parsing applies the modulus check", p.Func(ml, "PublicKey", "Unpack"), map[string]int{"(*" + pp + ".PublicKey).UnpackMLKEM": 1, "(*" + pp + ".PublicKey).Unpack": 0})
		c.callArgRule(p, "C03.domsep", "seed split: d = seed[:32], z = seed[32:]", p.Func(ml, "", "NewKeyFromSeed"), pp+".NewKeyFromSeedMLKEM", "", map[int]string{0: `param#0\[:32\]`})

		// key checks
		upk := p.Func(ip, "PublicKey", "UnpackMLKEM")
		c.guard(p, "C03.keycheck", "encapsulation key accepted only if it re-encodes to the same bytes", upk, GuardSpec{Assumes: []Assume{calleeAssume(latFalse, -1, "bytes.Equal")}})
		c.callArgRule(p, "C03.keycheck", "the comparison is between the input bytes and the re-packed vector", upk, "bytes.Equal", "", map[int]string{0: `param#1\[:.*\]`, 1: `local:\[\d+\]byte`})
		// the re-encoding test compares the input with the encoding of the *reduced* vector: without the
		// normalisation the re-packed bytes are the input bytes and the check passes for every key
		c.reachCountRule(p, "C03.keycheck", "the decoded vector is normalised (coefficients reduced below q) before it is re-packed for the comparison", upk, map[string]int{"(*" + ip + ".Vec).Normalize": 1})
		c.orderRule(p, "C03.keycheck", "the normalisation precedes the re-packing (a comparison made on the raw 12-bit values compares the input with itself)", upk,
			"call that normalises the vector", p.isCallReaching(2, "(*"+ip+".Vec).Normalize"), "re-packing of the vector", p.isCallTo(-1, nil, "(*"+ip+".Vec).Pack"))
		c.rejectReasonsRule(p, "C03.keycheck", reasonSpec{pkg: ip, typ: "PublicKey", name: "UnpackMLKEM", why: "FIPS 203 7.2: the modulus check", callees: []string{"bytes.Equal"}})
		mpk := p.Func(ml, "PublicKey", "Unpack")
		c.guard(p, "C03.keycheck", "public key parsing succeeds only through the modulus check", mpk, GuardSpec{Assumes: []Assume{calleeAssume(latNonNil, -1, "(*"+pp+".PublicKey).UnpackMLKEM")}})
		c.lenReject(p, "C03.keycheck", mpk, "buf", true)
		msk := p.Func(ml, "PrivateKey", "Unpack")
		c.guard(p, "C03.keycheck", "decapsulation key accepted only if H(ek) equals the embedded hash", msk, GuardSpec{Assumes: []Assume{calleeAssume(latFalse, -1, "bytes.Equal")}})
		c.lenReject(p, "C03.keycheck", msk, "buf", true)
		c.seqRule(p, "C03.keycheck", "H(ek) is computed over the embedded encapsulation key and compared with the embedded hash; z is the tail", msk,
			[]string{hw, hr, "builtin.copy", "bytes.Equal"},
			[]string{
				fmt.Sprintf(`Write\(&call:internal/sha3\.New256, param#1\[%d:\]\[:%d\]\)`, s.sk, s.pk),
				`Read\(&call:internal/sha3\.New256, local:\[32\]byte\)`,
				fmt.Sprintf(`copy\(param#0\.hpk, param#1\[%d:\]\[%d:\]\[:32\]\)`, s.sk, s.pk),
				fmt.Sprintf(`copy\(param#0\.z, param#1\[%d:\]\[%d:\]\[32:\]\)`, s.sk, s.pk),
				`Equal\(local:\[32\]byte, param#0\.hpk\)`,
			})

		// the cached H(ek) is the hash of the bytes received (a round-3 Kyber key with unreduced coefficients
		// re-encodes differently), and a decoded Kyber decapsulation key takes h and z from their offsets
		// (for ML-KEM the modulus check makes the two coincide, so the rule is not armed there)
		c.seqRule(p, "C03.keycheck", "the cached H(pk) of a round-3 Kyber key is SHA3-256 of the received encoding", p.Func(ky, "PublicKey", "Unpack"),
			[]string{hw, hr},
			[]string{`Write\(&call:internal/sha3\.New256, param#1\)`, `Read\(&call:internal/sha3\.New256, param#0\.hpk\)`})
		c.seqRule(p, "C03.keycheck", "a decoded Kyber decapsulation key takes H(pk) and z from the tail of the encoding", p.Func(ky, "PrivateKey", "Unpack"),
			[]string{hw, hr, "builtin.copy"},
			[]string{
				fmt.Sprintf(`copy\(param#0\.hpk, param#1\[%d:\]\[%d:\]\[:32\]\)`, s.sk, s.pk),
				fmt.Sprintf(`copy\(param#0\.z, param#1\[%d:\]\[%d:\]\[32:\]\)`, s.sk, s.pk),
			})

		// FO transform sequences
		enc, dec := "(*"+pp+".PublicKey).EncryptTo", "(*"+pp+".PrivateKey).DecryptTo"
		ops := []string{hw, hr, enc, dec, "builtin.copy"}
		g, h256, kdf := `&call:internal/sha3\.New512`, `&call:internal/sha3\.New256`, `&call:internal/sha3\.NewShake256`
		m32, kr := `local:\[32\]byte`, `local:\[64\]byte`
		ctN := fmt.Sprintf(`local:\[%d\]byte`, s.ct)
		c.seqRule(p, "C03.fo", "ML-KEM.Encaps_internal: (K,r) = G(m ‖ H(ek)); c = K-PKE.Encrypt(ek, m, r); return K", p.Func(ml, "PublicKey", "EncapsulateTo"), ops, []string{
			`Write\(` + g + `, \[copy\(.*param#3.*\)\]\)`,
			`Write\(` + g + `, param#0\.hpk\)`,
			`Read\(` + g + `, ` + kr + `\)`,
			`EncryptTo\(param#0\.pk, param#1, \[copy\(.*param#3.*\)\], ` + kr + `\[32:\]\)`,
			`copy\(param#2, ` + kr + `\[:32\]\)`,
		})
		c.seqRule(p, "C03.fo", "ML-KEM.Decaps_internal: m' = Decrypt; (K',r') = G(m' ‖ h); K̄ = J(z ‖ c); c' = Encrypt(ek, m', r')", p.Func(ml, "PrivateKey", "DecapsulateTo"), ops, []string{
			`DecryptTo\(param#0\.sk, ` + m32 + `, param#2\)`,
			`Write\(` + g + `, ` + m32 + `\)`,
			`Write\(` + g + `, param#0\.hpk\)`,
			`Read\(` + g + `, ` + kr + `\)`,
			`EncryptTo\(param#0\.pk, ` + ctN + `, ` + m32 + `, ` + kr + `\[32:\]\)`,
			`Write\(` + kdf + `, param#0\.z\)`,
			fmt.Sprintf(`Write\(`+kdf+`, param#2\[:%d\]\)`, s.ct),
			`Read\(` + kdf + `, ` + m32 + `\)`,
			`copy\(param#1, ` + m32 + `\)`,
		})
		c.seqRule(p, "C03.fo", "Kyber.Encaps: m = H(seed); (K̄,r) = G(m ‖ H(pk)); c = Enc; K = KDF(K̄ ‖ H(c))", p.Func(ky, "PublicKey", "EncapsulateTo"), ops, []string{
			`Write\(` + h256 + `, .*param#3.*\)`,
			`Read\(` + h256 + `, ` + m32 + `\)`,
			`Write\(` + g + `, ` + m32 + `\)`,
			`Write\(` + g + `, param#0\.hpk\)`,
			`Read\(` + g + `, ` + kr + `\)`,
			`EncryptTo\(param#0\.pk, param#1, ` + m32 + `, ` + kr + `\[32:\]\)`,
			fmt.Sprintf(`Write\(`+h256+`, param#1\[:%d\]\)`, s.ct),
			`Read\(` + h256 + `, ` + kr + `\[32:\]\)`,
			`Write\(` + kdf + `, ` + kr + `\)`,
			`Read\(` + kdf + `, param#2(\[:32\])?\)`,
		})
		c.seqRule(p, "C03.fo", "Kyber.Decaps: m' = Dec; (K̄',r') = G(m' ‖ h); c' = Enc; K = KDF((K̄' or z) ‖ H(c))", p.Func(ky, "PrivateKey", "DecapsulateTo"), ops, []string{
			`DecryptTo\(param#0\.sk, ` + m32 + `, param#2\)`,
			`Write\(` + g + `, ` + m32 + `\)`,
			`Write\(` + g + `, param#0\.hpk\)`,
			`Read\(` + g + `, ` + kr + `\)`,
			`EncryptTo\(param#0\.pk, ` + ctN + `, ` + m32 + `, ` + kr + `\[32:\]\)`,
			fmt.Sprintf(`Write\(`+h256+`, param#2\[:%d\]\)`, s.ct),
			`Read\(` + h256 + `, ` + kr + `\[32:\]\)`,
			`Write\(` + kdf + `, ` + kr + `\)`,
			`Read\(` + kdf + `, param#1\)`,
		})
	}
	_ = ssa.Value(nil)
}

// the rejection samplers of the matrix keep a 12-bit candidate exactly when it is below q
func init() {
	prev := registry["C03"]
	registry["C03"] = func(c *Ctx) {
		prev(c)
		p := c.Prog("amd64")
		if p == nil {
			return
		}
		c.Clauses = append(c.Clauses, "C03.sample: the uniform samplers (scalar and four-way) store a 12-bit candidate equal to q-1 and do not store one equal to q (boundary of the rejection test, decided by constant propagation)")
		// every way of obtaining a public key object (Public(), key generation) yields one whose cached H(ek) is set
		for _, n := range []string{"512", "768", "1024"} {
			for _, fam := range []string{"kem/mlkem/mlkem", "kem/kyber/kyber"} {
				c.ctorRule(p, "C03.keycheck", fam+n, "PublicKey", "EncapsulateTo")
				c.ctorRule(p, "C03.keycheck", fam+n, "PrivateKey", "DecapsulateTo")
			}
		}
		// the portable normalisation subtracts q conditionally from the Barrett-reduced value (in that order:
		// Barrett reduction leaves a value in [0, q], the conditional subtraction maps q to 0)
		c.callArgRule(p, "C03.sample", "normalizeGeneric applies csubq to the Barrett-reduced coefficient", p.Func("pke/kyber/internal/common", "Poly", "normalizeGeneric"),
			"pke/kyber/internal/common.csubq", "", map[int]string{0: `call:pke/kyber/internal/common\.barrettReduce.*`})
		pk := "pke/kyber/internal/common"
		f := p.Func(pk, "Poly", "DeriveUniform")
		cand := func(v int64) []ValAssume {
			return []ValAssume{{Name: "candidate (12 bits)", Val: latInt(v), Match: func(x ssa.Value, in *ssa.Function) bool {
				b, ok := x.(*ssa.BinOp)
				if !ok || in != f || b.Op != token.AND {
					return false
				}
				k, ok := b.Y.(*ssa.Const)
				return ok && k.Value != nil && k.Value.ExactString() == "4095"
			}}}
		}
		isCoeff := func(st *ssa.Store) bool {
			ia, ok := st.Addr.(*ssa.IndexAddr)
			if !ok || f == nil || len(f.Params) == 0 {
				return false
			}
			base, _ := memRoot(ia.X)
			return base == ssa.Value(f.Params[0])
		}
		c.storeReachUnder(p, "C03.sample", "a candidate equal to q is rejected", f, cand(3329), "store of a coefficient", isCoeff, false)
		c.storeReachUnder(p, "C03.sample", "a candidate equal to q-1 is kept", f, cand(3328), "store of a coefficient", isCoeff, true)
		fx := p.Func(pk, "", "PolyDeriveUniformX4")
		candX := func(v int64) []ValAssume {
			return []ValAssume{{Name: "candidate t[k]", Val: latInt(v), Match: func(x ssa.Value, in *ssa.Function) bool {
				ld, ok := x.(*ssa.UnOp)
				if !ok || in != fx || ld.Op != token.MUL {
					return false
				}
				ia, ok := ld.X.(*ssa.IndexAddr)
				if !ok {
					return false
				}
				a, ok := ia.X.(*ssa.Alloc)
				return ok && a.Type().String() == "*[16]uint16"
			}}}
		}
		isCoeffX := func(st *ssa.Store) bool {
			ia, ok := st.Addr.(*ssa.IndexAddr)
			if !ok || fx == nil || len(fx.Params) == 0 {
				return false
			}
			return ia.X.Type().String() == fx.Params[0].Type().(*types.Array).Elem().String()
		}
		c.storeReachUnder(p, "C03.sample", "four-way sampler: a candidate equal to q is rejected", fx, candX(3329), "store of a coefficient", isCoeffX, false)
		c.storeReachUnder(p, "C03.sample", "four-way sampler: a candidate equal to q-1 is kept", fx, candX(3328), "store of a coefficient", isCoeffX, true)
	}
}
