package partiallyblindrsa

import (
	"bytes"
	"crypto"
	"crypto/rand"
	"crypto/rsa"
	"sync"
	"testing"
)

// One Verifier used by several goroutines: every FixedBlind call must return
// what the same call returns when run alone. The verifier kept one hash.Hash
// and every call reset, wrote and summed it: the calls corrupt each other's
// digest or panic inside the hash (go test -race reports the race itself).
func TestFindingVerifierSharedHash(t *testing.T) {
	key, err := rsa.GenerateKey(rand.Reader, 2048)
	if err != nil {
		t.Fatal(err)
	}
	v := NewVerifier(&key.PublicKey, crypto.SHA384)
	salt := make([]byte, 48)
	msgs := make([][]byte, 64)
	want := make([][]byte, len(msgs))
	for i := range msgs {
		msgs[i] = bytes.Repeat([]byte{byte(i)}, 1<<14)
		want[i], _, err = v.FixedBlind(msgs[i], []byte("meta"), salt, []byte{1}, []byte{1})
		if err != nil {
			t.Fatal(err)
		}
	}
	for round := 0; round < 20; round++ {
		got := make([][]byte, len(msgs))
		var wg sync.WaitGroup
		for i := range msgs {
			wg.Add(1)
			go func(i int) {
				defer wg.Done()
				defer func() {
					if r := recover(); r != nil {
						t.Errorf("concurrent FixedBlind panicked: %v", r)
					}
				}()
				got[i], _, _ = v.FixedBlind(msgs[i], []byte("meta"), salt, []byte{1}, []byte{1})
			}(i)
		}
		wg.Wait()
		for i := range msgs {
			if !bytes.Equal(got[i], want[i]) {
				t.Fatalf("round %d: concurrent FixedBlind of message %d differs from the same call run alone", round, i)
			}
		}
	}
}
