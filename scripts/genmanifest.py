#!/usr/bin/env python3
"""Generates /verif/MANIFEST.json from the table below (run after changing the set of claimed properties)."""
import json, os, subprocess

BASE = json.load(open('/root/.vp/BASELINE.json'))
ENV = "GOFLAGS=-mod=mod GOPROXY=off GOSUMDB=off GOTOOLCHAIN=local GOWORK=off"

# property -> (engines/technique, what is decided, trusted base / assumptions)
CLAIMED = json.load(open(os.path.join(os.path.dirname(__file__), 'claims.json')))
NA = json.load(open(os.path.join(os.path.dirname(__file__), 'not_applicable.json')))

checks = []
for pid in sorted(CLAIMED):
    c = CLAIMED[pid]
    checks.append({
        "property_id": pid,
        "quick_cmd": f"bin/circlcheck -property {pid} -tier quick",
        "thorough_cmd": f"bin/circlcheck -property {pid} -tier thorough",
        "evidence_file": f"/verif/evidence/{pid}.json",
        "replay_cmd_template": f"bin/circlcheck -property {pid} -tier quick  # failing obligations are listed in {{path}}",
        "engine": "circlcheck",
        "level_claimed": {
            "category": "other",
            "text": c["text"],
            "design_ref": f"DESIGN.md section 3/{pid}",
        },
        "level_note": c["note"],
        "technique": c["technique"],
    })

m = {
    "version": 1,
    "setup_cmd": f"cd /verif/checker && {ENV} go build -o ../bin/circlcheck .",
    "hooks": {
        "guard": "verif",
        "enable": "no hooks: the analyser loads /repo's working tree with go/packages; the build tag 'verif' is reserved and unused",
        "baseline_off_cmd": BASE["cmd"],
        "source_commits": [],
        "add_only": True,
    },
    "engines": [{
        "name": "circlcheck",
        "path": "/verif/checker",
        "serves_properties": sorted(CLAIMED),
        "kind_free_text": "repository-specific static analyser over go/packages + go/ssa (x/tools v0.29.0): interprocedural conditional constant propagation (GUARD), may-dependence (DEP), effect/mod-set, purity/call-graph reachability, constant tables, length/bounds reasoning, build-variant parity",
    }],
    "checks": checks,
    "notes": "All claims are at level 'other': each check decides named necessary-condition clauses of its property from the source of /repo's current working tree, without executing circl code. See DESIGN.md.",
    "not_applicable": [{"property_id": k, "reason": v} for k, v in sorted(NA.items()) if k not in CLAIMED],
}
json.dump(m, open('/verif/MANIFEST.json', 'w'), indent=1)
print("claimed", sorted(CLAIMED), "n/a", [x["property_id"] for x in m["not_applicable"]])
