package group_test

// Demonstration (C09, recorded as known finding): the P-256/P-384/P-521 scalar decoder accepts values
// that are not below the group order, so s and s+N are two encodings of one scalar (e.g. the response
// of a DLEQ proof over P-521 can be replaced by s+N and the proof still verifies). It cannot be
// repaired without editing the repository's tests: TestDLEQ/P-521 fills a proof with random bytes and
// requires that it still unmarshals.
//
// Copy to group/ and run: go test -run TestDemoScalarNonCanonical ./group/

import (
	"math/big"
	"testing"

	"github.com/cloudflare/circl/group"
)

func TestDemoScalarNonCanonical(t *testing.T) {
	g := group.P521
	n := g.Params().ScalarLength
	order, _ := new(big.Int).SetString("6864797660130609714981900799081393217269435300143305409394463459185543183397655394245057746333217197532963996371363321113864768612440380340372808892707005449", 10)
	five := new(big.Int).Add(order, big.NewInt(5))
	enc := five.FillBytes(make([]byte, n))
	s := g.NewScalar()
	if err := s.UnmarshalBinary(enc); err == nil {
		out, _ := s.MarshalBinary()
		t.Errorf("the encoding of N+5 was accepted and re-serialises as % x…", out[:4])
	}
}
