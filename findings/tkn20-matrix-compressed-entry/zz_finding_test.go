package tkn

import (
	"bytes"
	"testing"

	pairing "github.com/cloudflare/circl/ecc/bls12381"
)

// A matrix of group elements that decodes re-encodes to the same bytes. The slots have the uncompressed
// size; a slot holding a compressed point followed by junk was accepted (the group decoder reads only
// the first half). Place in abe/cpabe/tkn20/internal/tkn; go test -run TestFindingMatrixCompressedEntry .
func TestFindingMatrixCompressedEntry(t *testing.T) {
	enc := []byte{1, 0, 1, 0}
	enc = append(enc, pairing.G1Generator().BytesCompressed()...)
	enc = append(enc, bytes.Repeat([]byte{0xAB}, pairing.G1Size-pairing.G1SizeCompressed)...)
	var m matrixG1
	if err := m.unmarshalBinary(enc); err == nil {
		out, _ := m.marshalBinary()
		t.Errorf("matrixG1 accepted a compressed entry with junk in the rest of its slot; it re-encodes differently: %v", !bytes.Equal(out, enc))
	}
	enc2 := []byte{1, 0, 1, 0}
	enc2 = append(enc2, pairing.G2Generator().BytesCompressed()...)
	enc2 = append(enc2, bytes.Repeat([]byte{0xAB}, pairing.G2Size-pairing.G2SizeCompressed)...)
	var m2 matrixG2
	if err := m2.unmarshalBinary(enc2); err == nil {
		t.Errorf("matrixG2 accepted a compressed entry with junk in the rest of its slot")
	}
}
