package hpke_test

// Demonstration (C11 / C08): a context restored with UnmarshalSealer / UnmarshalOpener kept
// sub-slices of the caller's buffer. Seal and Open update the sequence number in place, i.e. inside
// that buffer, so two contexts restored from the same bytes shared one counter, and wiping or
// reusing the buffer changed the nonce and key material of a live context.
//
// Copy to hpke/ and run: go test -run TestDemoContextAlias ./hpke/

import (
	"bytes"
	"crypto/rand"
	"testing"

	"github.com/cloudflare/circl/hpke"
)

func TestDemoContextAlias(t *testing.T) {
	suite := hpke.NewSuite(hpke.KEM_X25519_HKDF_SHA256, hpke.KDF_HKDF_SHA256, hpke.AEAD_AES128GCM)
	pk, _, err := hpke.KEM_X25519_HKDF_SHA256.Scheme().GenerateKeyPair()
	if err != nil {
		t.Fatal(err)
	}
	sender, err := suite.NewSender(pk, []byte("info"))
	if err != nil {
		t.Fatal(err)
	}
	_, sealer, err := sender.Setup(rand.Reader)
	if err != nil {
		t.Fatal(err)
	}
	raw, err := sealer.MarshalBinary()
	if err != nil {
		t.Fatal(err)
	}
	orig := append([]byte(nil), raw...)
	s1, err := hpke.UnmarshalSealer(raw)
	if err != nil {
		t.Fatal(err)
	}
	s2, err := hpke.UnmarshalSealer(raw)
	if err != nil {
		t.Fatal(err)
	}
	c1, _ := s1.Seal([]byte("m"), nil)
	if !bytes.Equal(raw, orig) {
		t.Error("sealing with a restored context modified the caller's serialized bytes")
	}
	c2, _ := s2.Seal([]byte("m"), nil)
	if !bytes.Equal(c1, c2) {
		t.Error("two contexts restored from the same bytes do not start at the same sequence number (they share the counter)")
	}
	// wiping the buffer must not change a live context
	raw2 := append([]byte(nil), orig...)
	s3, _ := hpke.UnmarshalSealer(raw2)
	ref, _ := hpke.UnmarshalSealer(append([]byte(nil), orig...))
	for i := range raw2 {
		raw2[i] = 0
	}
	c3, _ := s3.Seal([]byte("m"), nil)
	cr, _ := ref.Seal([]byte("m"), nil)
	if !bytes.Equal(c3, cr) {
		t.Error("wiping the serialized bytes changed the restored context")
	}
}
