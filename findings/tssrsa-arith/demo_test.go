package rsa

// Demonstrates (C17): threshold RSA fails for qualified share sets because (a) computeLambda divides
// num/den (truncating, in int64) before multiplying by delta, (b) computePolynomial raises the player
// index to a power in float64, and (c) CombineSignShares indexes shares[0] before checking emptiness.
// In-package test; place in /repo/tss/rsa: go test -run TestFindingTSSArith ./tss/rsa/

import (
	"crypto"
	"crypto/rand"
	"crypto/rsa"
	"testing"
)

func tryCombine(t *testing.T, key *rsa.PrivateKey, l, k uint, subset []uint) error {
	shares, err := Deal(rand.Reader, l, k, key, false)
	if err != nil {
		t.Fatal(err)
	}
	msg := []byte("hello")
	padded, err := PadHash(&PKCS1v15Padder{}, crypto.SHA256, &key.PublicKey, msg)
	if err != nil {
		t.Fatal(err)
	}
	var ss []SignShare
	for _, i := range subset {
		s, err := shares[i-1].Sign(nil, &key.PublicKey, padded, false)
		if err != nil {
			t.Fatal(err)
		}
		ss = append(ss, s)
	}
	_, err = CombineSignShares(&key.PublicKey, ss, padded)
	return err
}

func TestFindingTSSArith(t *testing.T) {
	key, err := GenerateKey(rand.Reader, 512)
	if err != nil {
		t.Fatal(err)
	}
	// (a) k-subset of a (5,3) deal that is not {1,2,3}: lambda = delta*num/den needs exact division
	for _, sub := range [][]uint{{1, 2, 3}, {1, 3, 5}, {2, 4, 5}, {3, 4, 5}, {1, 2, 4}} {
		if err := tryCombine(t, key, 5, 3, sub); err != nil {
			t.Errorf("(l=5,k=3) qualified subset %v does not combine: %v", sub, err)
		}
	}
	// (b) large player index and degree: 25^14 > 2^63, float64 loses precision from 2^53
	sub := []uint{}
	for i := uint(11); i <= 25; i++ {
		sub = append(sub, i)
	}
	if err := tryCombine(t, key, 25, 15, sub); err != nil {
		t.Errorf("(l=25,k=15) qualified subset does not combine: %v", err)
	}
	// (c) empty share list must be an error, not a panic
	func() {
		defer func() {
			if r := recover(); r != nil {
				t.Errorf("CombineSignShares(nil) panics: %v", r)
			}
		}()
		if _, err := CombineSignShares(&key.PublicKey, nil, []byte{1}); err == nil {
			t.Errorf("empty share list accepted")
		}
	}()
}
