package main

import (
	"fmt"
	"sort"
	"strings"

	"golang.org/x/tools/go/ssa"
)

// UNUSEDPARAM: no function ignores one of its arguments.
//
// A slip that recomputes a quantity instead of using the one it was handed (a gadget-call count derived by a
// truncating division, a length taken from the wrong buffer) leaves the parameter without a single use. The
// library has 29 parameters that are ignored on purpose; they are listed with the reason (the deterministic
// signers ignore the randomness of crypto.Signer, validity circuits ignore the arguments of the flp.Valid
// interface they do not need, the HPKE hybrid KEM has no authenticated mode). Any other named parameter
// without a use is reported. The receiver and parameters named _ are exempt (an explicit "not needed").
var unusedParamReasons = map[string]string{
	"Sign#rand":                 "deterministic signature scheme: crypto.Signer hands over a randomness source it must not use",
	"Decode#numMeas":            "flp.Valid interface: this circuit's decoding does not depend on the number of measurements",
	"Eval#numCalls":             "flp.Valid interface: the circuit calls its gadget a fixed number of times",
	"Eval#jointRand":            "flp.Valid interface: the circuit uses no joint randomness",
	"Eval#numShares":            "flp.Valid interface: the circuit has no constant term to split between the shares",
	"hybridKEM.AuthDecapsulate": "the hybrid KEM has no authenticated mode: the method panics",
	"hybridKEM.AuthEncapsulate": "the hybrid KEM has no authenticated mode: the method panics",
	"hybridKEM.AuthEncapsulateDeterministically": "the hybrid KEM has no authenticated mode: the method panics",
	"hybridKEM.Encapsulate":                      "not implemented for the hybrid KEM: the method panics",
}

// unusedParamTable: function -> ignored parameter names, as confirmed by reading the pinned tree.
var unusedParamTable = map[string]map[string]string{}

func addUnused(fn, param, reasonKey string) {
	if unusedParamTable[fn] == nil {
		unusedParamTable[fn] = map[string]string{}
	}
	unusedParamTable[fn][param] = unusedParamReasons[reasonKey]
}

func init() {
	for _, pk := range []string{"sign/dilithium/mode2", "sign/dilithium/mode3", "sign/dilithium/mode5", "sign/eddilithium2", "sign/eddilithium3", "sign/mldsa/mldsa44", "sign/mldsa/mldsa65", "sign/mldsa/mldsa87"} {
		addUnused("(*"+pk+".PrivateKey).Sign", "rand", "Sign#rand")
	}
	addUnused("(sign/ed25519.PrivateKey).Sign", "rand", "Sign#rand")
	addUnused("(sign/ed448.PrivateKey).Sign", "rand", "Sign#rand")
	for _, t := range []string{"count.flpCount", "histogram.flpHistogram", "mhcv.flpMultiHotCountVec", "sum.flpSum", "sumvec.flpSumVec"} {
		addUnused("(*vdaf/prio3/"+t+").Decode", "numMeas", "Decode#numMeas")
	}
	for _, t := range []string{"count.flpCount", "sum.flpSum"} {
		addUnused("(*vdaf/prio3/"+t+").Eval", "numCalls", "Eval#numCalls")
		addUnused("(*vdaf/prio3/"+t+").Eval", "jointRand", "Eval#jointRand")
	}
	addUnused("(*vdaf/prio3/count.flpCount).Eval", "numShares", "Eval#numShares")
	for _, m := range []struct {
		name   string
		params []string
	}{{"AuthDecapsulate", []string{"skR", "ct", "pkS"}}, {"AuthEncapsulate", []string{"pkr", "sks"}}, {"AuthEncapsulateDeterministically", []string{"pkr", "sks", "seed"}}, {"Encapsulate", []string{"pkr"}}} {
		for _, q := range m.params {
			addUnused("(hpke.hybridKEM)."+m.name, q, "hybridKEM."+m.name)
		}
	}
}

func checkUnusedParams(c *Ctx, p *Program, prop string, prefixes []string) {
	rule := prop + ".unusedparam"
	var fs []*ssa.Function
	for f := range p.AllFuncs {
		if f.Blocks != nil && isCirclFunc(f) && sourceFunc(f) && f.Parent() == nil && !strings.Contains(funcPkgPath(f), "/internal/test") && (prefixes == nil || inScope(f, prefixes)) {
			fs = append(fs, f)
		}
	}
	sort.Slice(fs, func(i, j int) bool { return fs[i].String() < fs[j].String() })
	nparams, nexc, nbad := 0, 0, 0
	for _, f := range fs {
		name := exportedNameOf(f)
		for i, par := range f.Params {
			if i == 0 && f.Signature.Recv() != nil {
				continue
			}
			if par.Name() == "_" || par.Name() == "" {
				continue
			}
			nparams++
			if len(*par.Referrers()) > 0 {
				continue
			}
			// the table names parameters as they were called when it was written; paramIdx falls back to the
			// recorded position and type when a parameter has been renamed since
			exc := false
			for rn, why := range unusedParamTable[name] {
				if j := paramIdx(f, rn); j == i && why != "" {
					exc = true
				}
			}
			if exc {
				nexc++
				continue
			}
			nbad++
			c.bad(rule, fmt.Sprintf("%s: the argument %s is used", name, par.Name()), fmt.Sprintf("parameter %s (%s) has no use in the function: the result cannot depend on what the caller passes", par.Name(), par.Type()), p.fnPos(f))
		}
	}
	c.count("named_params", nparams)
	if nparams < 50 {
		c.undecided(rule, "named parameters of the functions in scope", fmt.Sprintf("only %d found", nparams), "")
		return
	}
	if nbad == 0 {
		c.ok(rule, "every named parameter has a use", fmt.Sprintf("%d named parameters in %d functions; %d ignored on purpose (table with reasons: deterministic signers, flp.Valid arguments a circuit does not need, unimplemented hybrid-KEM modes)", nparams, len(fs), nexc), "")
	}
}

// exportedNameOf: the name under which the table lists f (generic instances by their origin).
func exportedNameOf(f *ssa.Function) string {
	if o := f.Origin(); o != nil {
		return fname(o)
	}
	return fname(f)
}

var unusedParamScope = map[string][]string{
	"C01": {"kem/", "pke/", "hpke"},
	"C02": {"sign/"},
	"C07": {"hpke"},
	"C11": nil,
	"C16": {"oprf", "zk/", "ot/"},
	"C17": {"tss/", "secretsharing", "math/polynomial"},
	"C18": {"blindsign/"},
	"C19": {"vdaf/"},
	"C20": {"abe/"},
}

func init() {
	for prop, pres := range unusedParamScope {
		prop, pres := prop, pres
		prev := registry[prop]
		if prev == nil {
			panic("unusedparam: " + prop + " not registered")
		}
		registry[prop] = func(c *Ctx) {
			prev(c)
			if p := c.Prog("amd64"); p != nil {
				c.Clauses = append(c.Clauses, prop+".unusedparam: no function ignores a named argument (29 parameters of the library are ignored on purpose and listed with the reason)")
				checkUnusedParams(c, p, prop, pres)
			}
		}
	}
}
