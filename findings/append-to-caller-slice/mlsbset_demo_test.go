package mlsbset_test

// Demonstration (C11): Encoder.Encode padded its input with append(k, zeros...), which overwrites the
// bytes that follow k in the caller's buffer when k has spare capacity.
//
// Copy to math/mlsbset/ and run: go test -run TestDemoEncodeAppend ./math/mlsbset/

import (
	"bytes"
	"testing"

	"github.com/cloudflare/circl/math/mlsbset"
)

func TestDemoEncodeAppend(t *testing.T) {
	buf := bytes.Repeat([]byte{0xAA}, 64)
	buf[0] = 0x01 // odd scalar
	want := append([]byte(nil), buf...)
	k := buf[:4]
	// a stub group is enough: Encode does not use it
	enc, err := mlsbset.New(256, 4, 4)
	if err != nil {
		t.Skip(err)
	}
	if _, err := enc.Encode(k); err != nil {
		t.Skip(err)
	}
	if !bytes.Equal(buf, want) {
		t.Errorf("Encode modified the caller's buffer beyond len(k): % x", buf[:40])
	}
}
