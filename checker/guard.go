package main

// GUARD engine: interprocedural, conditional constant propagation over go/ssa
// ("assume the check fails — can the function still accept?").
//
// The abstract domain per SSA value is small:
//   bot < {konst c, nil, nonNil, bigInt, bigSlice} < top
// bigSlice is "a slice/string whose length exceeds every constant and every
// size getter" (used to decide that over-long inputs are rejected); bigInt is
// such a length. Designated call sites ("assumes") are bound to a chosen
// abstract result, e.g. bytes.Equal -> false, an error result -> nonNil.
// The engine is non-sparse: blocks are re-evaluated until a fixpoint; a small
// flow-sensitive store tracks scalar local Allocs (named results kept in
// memory because of defer).

import (
	"fmt"
	"go/constant"
	"go/token"
	"go/types"
	"math/big"
	"sort"
	"strings"

	"golang.org/x/tools/go/ssa"
)

type lkind uint8

const (
	kBot lkind = iota
	kConst
	kNil
	kNonNil
	kBigInt
	kBigSlice
	kPosInt   // integer >= 1 (length of a non-empty slice)
	kNonEmpty // slice/string with at least one element
	kSliceN   // slice/string with exactly c elements
	kTop
)

type lat struct {
	k lkind
	c constant.Value
}

var (
	latBot      = lat{k: kBot}
	latTop      = lat{k: kTop}
	latNil      = lat{k: kNil}
	latNonNil   = lat{k: kNonNil}
	latBigInt   = lat{k: kBigInt}
	latBigSlice = lat{k: kBigSlice}
	latPosInt   = lat{k: kPosInt}
	latNonEmpty = lat{k: kNonEmpty}
	latTrue     = lat{k: kConst, c: constant.MakeBool(true)}
	latFalse    = lat{k: kConst, c: constant.MakeBool(false)}
)

func latInt(n int64) lat { return lat{k: kConst, c: constant.MakeInt64(n)} }

// latSliceLen is a (non-nil) slice or string of exactly n elements with unknown contents.
func latSliceLen(n int64) lat { return lat{k: kSliceN, c: constant.MakeInt64(n)} }

func (l lat) String() string {
	switch l.k {
	case kBot:
		return "⊥"
	case kConst:
		return l.c.String()
	case kNil:
		return "nil"
	case kNonNil:
		return "nonnil"
	case kBigInt:
		return "ω"
	case kBigSlice:
		return "slice[ω]"
	case kPosInt:
		return "≥1"
	case kNonEmpty:
		return "slice[≥1]"
	case kSliceN:
		return "slice[" + l.c.String() + "]"
	}
	return "⊤"
}

func (l lat) eq(m lat) bool {
	if l.k != m.k {
		return false
	}
	if l.k == kConst || l.k == kSliceN {
		return l.c.Kind() == m.c.Kind() && constant.Compare(l.c, token.EQL, m.c)
	}
	return true
}

func join(a, b lat) lat {
	if a.k == kBot {
		return b
	}
	if b.k == kBot {
		return a
	}
	if a.eq(b) {
		return a
	}
	nn := func(x lat) bool { return x.k == kNonNil || x.k == kBigSlice || x.k == kNonEmpty || x.k == kSliceN }
	if nn(a) && nn(b) {
		return latNonNil
	}
	return latTop
}

func (l lat) isTrue() bool {
	return l.k == kConst && l.c.Kind() == constant.Bool && constant.BoolVal(l.c)
}
func (l lat) isFalse() bool {
	return l.k == kConst && l.c.Kind() == constant.Bool && !constant.BoolVal(l.c)
}

// mayBe* are used to phrase "success" of a return.
func (l lat) mayBeNil() bool { return l.k == kNil || l.k == kTop }
func (l lat) mayBeNonNil() bool {
	return l.k == kNonNil || l.k == kBigSlice || l.k == kNonEmpty || l.k == kSliceN || l.k == kTop
}
func (l lat) mayBeTrue() bool { return l.isTrue() || l.k == kTop }
func (l lat) mayBeNonZero() bool {
	if l.k == kConst && l.c.Kind() == constant.Int {
		return constant.Sign(l.c) != 0
	}
	return l.k != kBot
}

// Assume binds the result of matching call sites.
type Assume struct {
	Name   string
	Match  func(site ssa.CallInstruction, callee string, in *ssa.Function) bool
	Result int // -1: the (single) result; >=0: component of a tuple result
	Val    lat
}

// calleeAssume matches calls by callee name (see calleeNames).
func calleeAssume(val lat, result int, names ...string) Assume {
	set := map[string]bool{}
	for _, n := range names {
		set[normName(n)] = true
	}
	return Assume{Name: strings.Join(names, "|"), Result: result, Val: val,
		Match: func(_ ssa.CallInstruction, callee string, _ *ssa.Function) bool { return set[normName(callee)] }}
}

// normName removes type-argument lists and the pointer marker of a receiver so
// that "(*p.T[K]).M", "(p.T).M" and "(*p.T).M" compare equal.
func normName(s string) string {
	var sb strings.Builder
	depth := 0
	for _, r := range s {
		switch {
		case r == '[':
			depth++
		case r == ']':
			depth--
		case depth == 0:
			sb.WriteRune(r)
		}
	}
	return strings.Replace(sb.String(), "(*", "(", 1)
}

// BinAssume binds the result of matching inline comparisons.
type BinAssume struct {
	Name  string
	Match func(b *ssa.BinOp, in *ssa.Function) bool
	Val   lat
}

// ValAssume binds any matching SSA value (e.g. "the sign bit extracted with >>7").
type ValAssume struct {
	Name  string
	Match func(v ssa.Value, in *ssa.Function) bool
	Val   lat
}

type GuardQuery struct {
	P          *Program
	Root       *ssa.Function
	Args       []lat // abstract arguments of Root (nil => all top)
	Assumes    []Assume
	BinAssumes []BinAssume
	ValAssumes []ValAssume
	MaxDepth   int
	// NoInline: callee names never descended into (result top)
	NoInline map[string]bool
	// MaxDynamic bounds the number of resolved targets of a dynamic call that are analysed (default 8).
	MaxDynamic int
	// OnlyPathsThrough (with ThroughSite): in Root, only blocks that lie on some control-flow path through
	// the site are executed (blocks that can reach it or can be reached from it), so that values of
	// alternative branches that never meet the site do not dilute the assumption at join points.
	OnlyPathsThrough bool
	// AvoidBlocks: blocks of Root (by index) that are never entered: the query explores the paths that
	// bypass them.
	AvoidBlocks map[int]bool
	// ThroughSite, if set, restricts the reported returns of Root to those
	// reachable (over executable edges) from the block of this instruction.
	ThroughSite ssa.Instruction
	// Observe, if set, is called after the fixpoint of every analysed function
	// context for each call instruction in an executable block.
	Observe func(in *ssa.Function, site ssa.CallInstruction, callee string, get func(ssa.Value) lat)
	// ObserveInstr, if set, is called likewise for every instruction in an executable block.
	ObserveInstr func(in *ssa.Function, instr ssa.Instruction, get func(ssa.Value) lat)
	// ObserveStore, if set, is called likewise for every Store in an executable block.
	ObserveStore func(in *ssa.Function, st *ssa.Store, get func(ssa.Value) lat)
}

type retInfo struct {
	Instr *ssa.Return
	Vals  []lat
}

type GuardResult struct {
	RootExec map[[2]int]bool // executable CFG edges of the root function
	Returns  []retInfo
	Sites    map[string][]string // assume name -> positions of matched, executable sites
	Visited  int                 // function contexts analysed
	Panics   int
	Unknown  []string // reasons precision was lost (informational)
}

type gEngine struct {
	skipped  []string
	rootExec map[[2]int]bool
	q        *GuardQuery
	memo     map[string][]lat
	active   map[string]bool
	sites    map[string]map[string]bool
	nctx     int
}

func runGuard(q *GuardQuery) *GuardResult {
	if q.MaxDepth == 0 {
		q.MaxDepth = 8
	}
	e := &gEngine{q: q, memo: map[string][]lat{}, active: map[string]bool{}, sites: map[string]map[string]bool{}}
	args := q.Args
	if args == nil {
		args = make([]lat, len(q.Root.Params))
		for i := range args {
			args[i] = latTop
		}
	}
	fa := e.analyse(q.Root, args, 0)
	res := &GuardResult{Sites: map[string][]string{}, Visited: e.nctx, RootExec: e.rootExec, Unknown: e.skipped}
	if fa != nil {
		res.Returns = fa.returns
	}
	for n, m := range e.sites {
		for s := range m {
			res.Sites[n] = append(res.Sites[n], s)
		}
		sort.Strings(res.Sites[n])
	}
	return res
}

type fnAnalysis struct {
	returns []retInfo
}

func argsKey(f *ssa.Function, args []lat) string {
	var sb strings.Builder
	fmt.Fprintf(&sb, "%p", f)
	for _, a := range args {
		sb.WriteByte('|')
		sb.WriteString(a.String())
	}
	return sb.String()
}

// evalCallee returns the joined result tuple of calling f with args; nil means
// "no information" (top); an all-bot tuple of a function with results, or the
// boolean noReturn, means the call cannot return.
func (e *gEngine) evalCallee(f *ssa.Function, args []lat, depth int) (res []lat, noReturn bool) {
	nres := f.Signature.Results().Len()
	topRes := func() []lat {
		r := make([]lat, nres)
		for i := range r {
			r[i] = latTop
		}
		return r
	}
	if f.Blocks == nil || depth > e.q.MaxDepth {
		return topRes(), false
	}
	key := argsKey(f, args)
	if r, ok := e.memo[key]; ok {
		if r == nil {
			return nil, true
		}
		return r, false
	}
	if e.active[key] {
		return topRes(), false
	}
	e.active[key] = true
	fa := e.analyse(f, args, depth)
	delete(e.active, key)
	if len(fa.returns) == 0 {
		e.memo[key] = nil
		return nil, true
	}
	r := make([]lat, nres)
	for _, ri := range fa.returns {
		for i := range r {
			if i < len(ri.Vals) {
				r[i] = join(r[i], ri.Vals[i])
			}
		}
	}
	e.memo[key] = r
	return r, false
}

func zeroLat(t types.Type) lat {
	switch u := t.Underlying().(type) {
	case *types.Pointer, *types.Slice, *types.Map, *types.Chan, *types.Signature, *types.Interface:
		return latNil
	case *types.Basic:
		switch {
		case u.Info()&types.IsBoolean != 0:
			return latFalse
		case u.Info()&types.IsInteger != 0:
			return latInt(0)
		case u.Info()&types.IsString != 0:
			return lat{k: kConst, c: constant.MakeString("")}
		}
	}
	return latTop
}

func constLat(c *ssa.Const) lat {
	if c.Value == nil {
		return zeroLat(c.Type())
	}
	switch c.Value.Kind() {
	case constant.Bool, constant.Int, constant.String:
		return lat{k: kConst, c: c.Value}
	}
	return latTop
}

// trackedAlloc reports whether a is a scalar local only ever stored to / loaded from
// (closures may capture it as long as they only read it).
func trackedAlloc(a *ssa.Alloc) bool {
	for _, r := range *a.Referrers() {
		switch x := r.(type) {
		case *ssa.Store:
			if x.Addr != a {
				return false
			}
		case *ssa.UnOp:
		case *ssa.DebugRef:
		case *ssa.MakeClosure:
			fn, ok := x.Fn.(*ssa.Function)
			if !ok {
				return false
			}
			for i, b := range x.Bindings {
				if b != a {
					continue
				}
				if i >= len(fn.FreeVars) {
					return false
				}
				for _, fr := range *fn.FreeVars[i].Referrers() {
					switch fr.(type) {
					case *ssa.UnOp, *ssa.DebugRef:
					default:
						return false
					}
				}
			}
		default:
			return false
		}
	}
	return true
}

func (e *gEngine) analyse(f *ssa.Function, args []lat, depth int) *fnAnalysis {
	e.nctx++
	fa := &fnAnalysis{}
	if len(f.Blocks) == 0 {
		return fa
	}
	vals := map[ssa.Value]lat{}
	tuples := map[ssa.Value][]lat{}
	type edge struct{ from, to int }
	execEdge := map[edge]bool{}
	execBlock := make([]bool, len(f.Blocks))
	// an edge a→b lies on a path through the site iff b still heads for the site (b can reach it) or a is
	// already past it (a is reachable from it); an edge from "before" directly to "after" bypasses the site
	var canReach, fromSite map[int]bool
	if e.q.OnlyPathsThrough && e.q.ThroughSite != nil && f == e.q.Root && depth == 0 && e.q.ThroughSite.Block() != nil {
		sb := e.q.ThroughSite.Block()
		fromSite = map[int]bool{sb.Index: true}
		stack := []*ssa.BasicBlock{sb}
		for len(stack) > 0 {
			b := stack[len(stack)-1]
			stack = stack[:len(stack)-1]
			for _, x := range b.Succs {
				if !fromSite[x.Index] {
					fromSite[x.Index] = true
					stack = append(stack, x)
				}
			}
		}
		canReach = map[int]bool{sb.Index: true}
		stack = []*ssa.BasicBlock{sb}
		for len(stack) > 0 {
			b := stack[len(stack)-1]
			stack = stack[:len(stack)-1]
			for _, x := range b.Preds {
				if !canReach[x.Index] {
					canReach[x.Index] = true
					stack = append(stack, x)
				}
			}
		}
	}
	memOut := make([]map[*ssa.Alloc]lat, len(f.Blocks))
	tracked := map[*ssa.Alloc]bool{}
	for _, b := range f.Blocks {
		for _, in := range b.Instrs {
			if a, ok := in.(*ssa.Alloc); ok && trackedAlloc(a) {
				tracked[a] = true
			}
		}
	}
	get := func(v ssa.Value) lat {
		switch x := v.(type) {
		case *ssa.Const:
			return constLat(x)
		case *ssa.Parameter:
			for i, p := range f.Params {
				if p == x {
					if i < len(args) {
						return args[i]
					}
				}
			}
			return latTop
		case *ssa.FreeVar:
			return latTop
		case *ssa.Global, *ssa.Function:
			return latNonNil
		case *ssa.Builtin:
			return latNonNil
		}
		if l, ok := vals[v]; ok {
			return l
		}
		return latBot
	}
	// branch refinements: value -> lattice on blocks dominated by a branch successor,
	// and per-edge refinements used for phi operands.
	refine := map[int]map[ssa.Value]lat{}
	type edgeKey struct{ from, succ int }
	edgeRef := map[edgeKey]map[ssa.Value]lat{}
	addRef := func(from *ssa.BasicBlock, succ int, v ssa.Value, l lat) {
		switch v.(type) {
		case *ssa.Const, *ssa.Global, *ssa.Function:
			return
		}
		ek := edgeKey{from.Index, succ}
		if edgeRef[ek] == nil {
			edgeRef[ek] = map[ssa.Value]lat{}
		}
		edgeRef[ek][v] = l
		b := from.Succs[succ]
		np := len(b.Preds)
		if e.q.AvoidBlocks != nil && f == e.q.Root && depth == 0 {
			// predecessors that are never entered do not count
			np = 0
			for _, pr := range b.Preds {
				if !e.q.AvoidBlocks[pr.Index] {
					np++
				}
			}
		}
		if np != 1 {
			return
		}
		m := refine[b.Index]
		if m == nil {
			m = map[ssa.Value]lat{}
			refine[b.Index] = m
		}
		m[v] = l
	}
	for _, b := range f.Blocks {
		ifi, ok := b.Instrs[len(b.Instrs)-1].(*ssa.If)
		if !ok {
			continue
		}
		cond := ifi.Cond
		tb, fb := 0, 1
		for {
			if u, ok := cond.(*ssa.UnOp); ok && u.Op == token.NOT {
				cond = u.X
				tb, fb = fb, tb
				continue
			}
			break
		}
		if b.Succs[0] == b.Succs[1] {
			continue
		}
		if bo, ok := cond.(*ssa.BinOp); ok && (bo.Op == token.EQL || bo.Op == token.NEQ) {
			eqB, neB := tb, fb
			if bo.Op == token.NEQ {
				eqB, neB = fb, tb
			}
			for _, pr := range [][2]ssa.Value{{bo.X, bo.Y}, {bo.Y, bo.X}} {
				if k, ok := pr[1].(*ssa.Const); ok {
					kl := constLat(k)
					if kl.k == kTop {
						continue
					}
					// len(v) == c with c > 0: v holds exactly c elements on the equal edge
					if lc, ok := pr[0].(*ssa.Call); ok && kl.k == kConst && kl.c.Kind() == constant.Int && constant.Sign(kl.c) > 0 {
						if bi, ok := lc.Call.Value.(*ssa.Builtin); ok && bi.Name() == "len" && len(lc.Call.Args) == 1 {
							addRef(b, eqB, lc.Call.Args[0], lat{k: kSliceN, c: kl.c})
						}
					}
					addRef(b, eqB, pr[0], kl)
					if kl.k == kNil {
						addRef(b, neB, pr[0], latNonNil)
					} else if kl.isTrue() {
						addRef(b, neB, pr[0], latFalse)
					} else if kl.isFalse() {
						addRef(b, neB, pr[0], latTrue)
					}
				}
			}
		} else if _, isConst := cond.(*ssa.Const); !isConst {
			addRef(b, tb, cond, latTrue)
			addRef(b, fb, cond, latFalse)
		}
	}
	curBlock := 0
	baseGet := get
	get = func(v ssa.Value) lat {
		l := baseGet(v)
		if len(refine) == 0 || l.k == kBot {
			return l
		}
		for b := f.Blocks[curBlock]; b != nil; b = b.Idom() {
			if m := refine[b.Index]; m != nil {
				if r, ok := m[v]; ok {
					// the refinement is only used to sharpen an imprecise value
					if l.k == kTop || (l.k == kNonNil && r.k == kNonNil) {
						return r
					}
					return l
				}
			}
		}
		return l
	}
	execBlock[0] = true
	work := []int{0}
	inWork := map[int]bool{0: true}
	push := func(i int) {
		if !inWork[i] {
			inWork[i] = true
			work = append(work, i)
		}
	}
	retVals := map[*ssa.Return][]lat{}
	iter := 0
	for len(work) > 0 {
		iter++
		if iter > 200000 {
			break
		}
		bi := work[0]
		work = work[1:]
		inWork[bi] = false
		b := f.Blocks[bi]
		curBlock = bi
		changed := false
		selfAgain := false
		memChanged := false
		// memory in-state
		mem := map[*ssa.Alloc]lat{}
		first := true
		for _, p := range b.Preds {
			if !execEdge[edge{p.Index, bi}] || memOut[p.Index] == nil {
				continue
			}
			if first {
				for k, v := range memOut[p.Index] {
					mem[k] = v
				}
				first = false
			} else {
				for k, v := range memOut[p.Index] {
					if o, ok := mem[k]; ok {
						mem[k] = join(o, v)
					} else {
						mem[k] = v
					}
				}
				for k := range mem {
					if _, ok := memOut[p.Index][k]; !ok {
						// not allocated on that path yet: keep
					}
				}
			}
		}
		pushUsers := func(v ssa.Value) {
			if rs := v.Referrers(); rs != nil {
				for _, r := range *rs {
					if rb := r.Block(); rb != nil && execBlock[rb.Index] && rb.Index != bi {
						push(rb.Index)
					} else if rb != nil && rb.Index == bi {
						selfAgain = true
					}
				}
			}
		}
		set := func(v ssa.Value, l lat) {
			old, ok := vals[v]
			nl := l
			if ok {
				nl = join(old, l)
			}
			if !ok || !old.eq(nl) {
				vals[v] = nl
				changed = true
				pushUsers(v)
			}
		}
		setTuple := func(v ssa.Value, t []lat) {
			old := tuples[v]
			if old == nil {
				tuples[v] = append([]lat(nil), t...)
				changed = true
				pushUsers(v)
				return
			}
			for i := range t {
				if i < len(old) {
					n := join(old[i], t[i])
					if !n.eq(old[i]) {
						old[i] = n
						changed = true
						pushUsers(v)
					}
				}
			}
		}
		terminated := false
		var outs []int
		for _, in := range b.Instrs {
			if terminated {
				break
			}
			if len(e.q.ValAssumes) > 0 {
				if v, ok := in.(ssa.Value); ok {
					hit := false
					for _, va := range e.q.ValAssumes {
						if va.Match(v, f) {
							m := e.sites[va.Name]
							if m == nil {
								m = map[string]bool{}
								e.sites[va.Name] = m
							}
							m[e.q.P.pos(in.Pos())] = true
							set(v, va.Val)
							hit = true
							break
						}
					}
					if hit {
						continue
					}
				}
			}
			switch x := in.(type) {
			case *ssa.Phi:
				l := latBot
				for i, p := range b.Preds {
					if execEdge[edge{p.Index, bi}] {
						curBlock = p.Index
						ev := get(x.Edges[i])
						curBlock = bi
						if ev.k == kTop {
							for si, sb := range p.Succs {
								if sb == b {
									if m := edgeRef[edgeKey{p.Index, si}]; m != nil {
										if r, ok := m[x.Edges[i]]; ok {
											ev = r
										}
									}
								}
							}
						}
						l = join(l, ev)
					}
				}
				set(x, l)
			case *ssa.Alloc:
				set(x, latNonNil)
				if tracked[x] {
					mem[x] = zeroLat(x.Type().(*types.Pointer).Elem())
				}
			case *ssa.Store:
				if a, ok := x.Addr.(*ssa.Alloc); ok && tracked[a] {
					mem[a] = get(x.Val)
				}
			case *ssa.UnOp:
				set(x, e.unop(x, get, mem, tracked))
			case *ssa.BinOp:
				matched := false
				for _, ba := range e.q.BinAssumes {
					if ba.Match(x, f) {
						m := e.sites[ba.Name]
						if m == nil {
							m = map[string]bool{}
							e.sites[ba.Name] = m
						}
						m[e.q.P.pos(x.Pos())] = true
						set(x, ba.Val)
						matched = true
						break
					}
				}
				if !matched {
					set(x, binop(x, get(x.X), get(x.Y)))
				}
			case *ssa.Call:
				res, noret := e.call(f, x, get, depth)
				if noret {
					terminated = true
					break
				}
				if x.Type() != nil {
					if _, ok := x.Type().(*types.Tuple); ok {
						setTuple(x, res)
					} else if len(res) > 0 {
						set(x, res[0])
					}
				}
			case *ssa.Extract:
				if t, ok := tuples[x.Tuple]; ok && x.Index < len(t) {
					set(x, t[x.Index])
				} else if _, ok := tuples[x.Tuple]; !ok {
					if _, isCall := x.Tuple.(*ssa.Call); isCall {
						// call not yet evaluated/returned: bot
					} else {
						set(x, latTop)
					}
				}
			case *ssa.MakeInterface, *ssa.MakeSlice, *ssa.MakeMap, *ssa.MakeChan, *ssa.MakeClosure,
				*ssa.FieldAddr, *ssa.IndexAddr:
				set(x.(ssa.Value), latNonNil)
			case *ssa.Slice:
				l := latTop
				if get(x.X).k == kBigSlice && x.High == nil && x.Max == nil {
					l = latBigSlice
					// a slice that is advanced inside a loop (p = p[n:]) eventually becomes short:
					// keeping "oversized" there would make the loop endless in the abstract and hide
					// everything after it
					if loopCarriedValue(x.X, 3) {
						l = latTop
					}
				}
				if pt, ok := x.X.Type().Underlying().(*types.Pointer); ok {
					if at, ok := pt.Elem().Underlying().(*types.Array); ok {
						// slicing an array: never nil; exact length when the bounds are constant
						l = latNonNil
						lo, hi := int64(0), at.Len()
						okb := true
						if x.Low != nil {
							if v := get(x.Low); v.k == kConst && v.c.Kind() == constant.Int {
								lo, _ = constant.Int64Val(v.c)
							} else {
								okb = false
							}
						}
						if x.High != nil {
							if v := get(x.High); v.k == kConst && v.c.Kind() == constant.Int {
								hi, _ = constant.Int64Val(v.c)
							} else {
								okb = false
							}
						}
						if okb && hi-lo > 0 {
							l = latSliceLen(hi - lo)
						}
					}
				}
				set(x, l)
			case *ssa.ChangeType:
				set(x, get(x.X))
			case *ssa.ChangeInterface:
				set(x, get(x.X))
			case *ssa.Convert:
				set(x, convert(x, get(x.X)))
			case *ssa.SliceToArrayPointer:
				set(x, latNonNil)
			case *ssa.TypeAssert:
				if x.CommaOk {
					setTuple(x, []lat{latTop, latTop})
				} else {
					set(x, latTop)
				}
			case *ssa.Lookup:
				if x.CommaOk {
					setTuple(x, []lat{latTop, latTop})
				} else {
					set(x, latTop)
				}
			case *ssa.Next:
				setTuple(x, []lat{latTop, latTop, latTop})
			case *ssa.Select:
				n := 2 + len(x.States)
				t := make([]lat, n)
				for i := range t {
					t[i] = latTop
				}
				setTuple(x, t)
			case *ssa.If:
				c := get(x.Cond)
				switch {
				case c.isTrue():
					outs = append(outs, b.Succs[0].Index)
				case c.isFalse():
					outs = append(outs, b.Succs[1].Index)
				case c.k == kBot:
					// condition not yet known: no edges
				default:
					outs = append(outs, b.Succs[0].Index, b.Succs[1].Index)
				}
			case *ssa.Jump:
				outs = append(outs, b.Succs[0].Index)
			case *ssa.Return:
				rv := make([]lat, len(x.Results))
				for i, r := range x.Results {
					rv[i] = get(r)
				}
				old := retVals[x]
				if old == nil {
					retVals[x] = rv
				} else {
					for i := range rv {
						old[i] = join(old[i], rv[i])
					}
				}
			case *ssa.Panic:
				terminated = true
			case ssa.Value:
				// Field, Index, Range, etc.
				if _, ok := x.Type().(*types.Tuple); ok {
					n := x.Type().(*types.Tuple).Len()
					t := make([]lat, n)
					for i := range t {
						t[i] = latTop
					}
					setTuple(x, t)
				} else {
					set(x, latTop)
				}
			}
		}
		// memory out
		if memOut[bi] == nil {
			memOut[bi] = mem
			memChanged = true
		} else {
			for k, v := range mem {
				if o, ok := memOut[bi][k]; !ok || !o.eq(v) {
					if ok {
						v = join(o, v)
					}
					if !ok || !o.eq(v) {
						memOut[bi][k] = v
						memChanged = true
					}
				}
			}
		}
		if !terminated {
			for _, s := range outs {
				if canReach != nil && !canReach[s] && !fromSite[bi] {
					continue
				}
				if e.q.AvoidBlocks != nil && f == e.q.Root && depth == 0 && e.q.AvoidBlocks[s] {
					continue
				}
				ed := edge{bi, s}
				if !execEdge[ed] {
					execEdge[ed] = true
					execBlock[s] = true
					push(s)
				} else if memChanged {
					push(s)
				}
			}
		}
		_ = changed
		if selfAgain {
			// a value defined later in this block feeds an earlier instruction (loop header phi)
			push(bi)
		}
	}
	if e.q.Observe != nil || e.q.ObserveStore != nil || e.q.ObserveInstr != nil {
		for _, b := range f.Blocks {
			if !execBlock[b.Index] {
				continue
			}
			curBlock = b.Index
			for _, in := range b.Instrs {
				if ci, ok := in.(ssa.CallInstruction); ok && e.q.Observe != nil {
					e.q.Observe(f, ci, e.q.P.staticCalleeName(ci.Common()), get)
				}
				if st, ok := in.(*ssa.Store); ok && e.q.ObserveStore != nil {
					e.q.ObserveStore(f, st, get)
				}
				if e.q.ObserveInstr != nil {
					e.q.ObserveInstr(f, in, get)
				}
			}
		}
	}
	if f == e.q.Root && depth == 0 {
		e.rootExec = map[[2]int]bool{}
		for ed, ok := range execEdge {
			if ok {
				e.rootExec[[2]int{ed.from, ed.to}] = true
			}
		}
	}
	var through map[int]bool
	if e.q.ThroughSite != nil && f == e.q.Root && depth == 0 && e.q.ThroughSite.Block() != nil {
		through = map[int]bool{}
		stack := []int{e.q.ThroughSite.Block().Index}
		through[stack[0]] = true
		for len(stack) > 0 {
			n := stack[len(stack)-1]
			stack = stack[:len(stack)-1]
			for _, sb := range f.Blocks[n].Succs {
				if execEdge[edge{n, sb.Index}] && !through[sb.Index] {
					through[sb.Index] = true
					stack = append(stack, sb.Index)
				}
			}
		}
	}
	for _, b := range f.Blocks {
		if !execBlock[b.Index] {
			continue
		}
		if through != nil && !through[b.Index] {
			continue
		}
		if r, ok := b.Instrs[len(b.Instrs)-1].(*ssa.Return); ok {
			if rv, ok := retVals[r]; ok {
				fa.returns = append(fa.returns, retInfo{Instr: r, Vals: rv})
			}
		}
	}
	return fa
}

func (e *gEngine) unop(x *ssa.UnOp, get func(ssa.Value) lat, mem map[*ssa.Alloc]lat, tracked map[*ssa.Alloc]bool) lat {
	v := get(x.X)
	switch x.Op {
	case token.NOT:
		if v.isTrue() {
			return latFalse
		}
		if v.isFalse() {
			return latTrue
		}
		if v.k == kBot {
			return latBot
		}
		return latTop
	case token.SUB, token.XOR:
		if v.k == kConst && v.c.Kind() == constant.Int {
			r := constant.UnaryOp(x.Op, v.c, 0)
			return fit(lat{k: kConst, c: r}, x.Type())
		}
		if v.k == kBot {
			return latBot
		}
		return latTop
	case token.MUL: // load
		if a, ok := x.X.(*ssa.Alloc); ok && tracked[a] {
			if l, ok := mem[a]; ok {
				return l
			}
			return latTop
		}
		if g, ok := x.X.(*ssa.Global); ok {
			if isErrorType(x.Type()) && e.q.P.sentinelError(g) {
				return latNonNil
			}
		}
		return latTop
	case token.ARROW:
		return latTop
	}
	return latTop
}

func isErrorType(t types.Type) bool {
	return types.Identical(t, types.Universe.Lookup("error").Type())
}

// sentinelError: package-level error variable that is assigned exactly once
// (in the package initialiser) with a freshly made non-nil value.
func (p *Program) sentinelError(g *ssa.Global) bool {
	if p.sentinels == nil {
		p.sentinels = map[*ssa.Global]bool{}
		stores := map[*ssa.Global]int{}
		good := map[*ssa.Global]bool{}
		for f := range p.AllFuncs {
			for _, b := range f.Blocks {
				for _, in := range b.Instrs {
					st, ok := in.(*ssa.Store)
					if !ok {
						continue
					}
					gg, ok := st.Addr.(*ssa.Global)
					if !ok {
						continue
					}
					stores[gg]++
					switch v := st.Val.(type) {
					case *ssa.MakeInterface:
						good[gg] = true
					case *ssa.Call:
						if c := v.Call.StaticCallee(); c != nil {
							n := c.String()
							if n == "errors.New" || n == "fmt.Errorf" {
								good[gg] = true
							}
						}
					}
				}
			}
		}
		for gg, n := range stores {
			if n == 1 && good[gg] {
				p.sentinels[gg] = true
			}
		}
	}
	return p.sentinels[g]
}

func fit(l lat, t types.Type) lat {
	if l.k != kConst || l.c.Kind() != constant.Int {
		return l
	}
	b, ok := t.Underlying().(*types.Basic)
	if !ok || b.Info()&types.IsInteger == 0 {
		return l
	}
	var bits uint
	signed := b.Info()&types.IsUnsigned == 0
	switch b.Kind() {
	case types.Int8, types.Uint8:
		bits = 8
	case types.Int16, types.Uint16:
		bits = 16
	case types.Int32, types.Uint32:
		bits = 32
	default:
		bits = 64
	}
	lo, hi := constant.MakeInt64(0), constant.Shift(constant.MakeInt64(1), token.SHL, bits)
	if signed {
		hi = constant.Shift(constant.MakeInt64(1), token.SHL, bits-1)
		lo = constant.UnaryOp(token.SUB, hi, 0)
	}
	if constant.Compare(l.c, token.LSS, lo) || constant.Compare(l.c, token.GEQ, hi) {
		// Go integer conversions and arithmetic wrap around (two's complement)
		v, ok := new(big.Int).SetString(l.c.ExactString(), 10)
		if !ok {
			return latTop
		}
		mod := new(big.Int).Lsh(big.NewInt(1), bits)
		v.Mod(v, mod) // Euclidean: 0 ≤ v < 2^bits
		if signed && v.Cmp(new(big.Int).Lsh(big.NewInt(1), bits-1)) >= 0 {
			v.Sub(v, mod)
		}
		return lat{k: kConst, c: constant.Make(v)}
	}
	return l
}

func convert(x *ssa.Convert, v lat) lat {
	switch v.k {
	case kBot:
		return latBot
	case kConst:
		if v.c.Kind() == constant.Int {
			if b, ok := x.Type().Underlying().(*types.Basic); ok && b.Info()&types.IsInteger != 0 {
				return fit(v, x.Type())
			}
		}
		if v.c.Kind() == constant.String {
			if _, ok := x.Type().Underlying().(*types.Slice); ok {
				return latNonNil
			}
		}
		return latTop
	case kBigSlice:
		// []byte <-> string keep the "oversized" length
		return latBigSlice
	case kNonEmpty:
		return latNonEmpty
	case kSliceN:
		return v
	case kPosInt:
		return latTop
	case kBigInt:
		if b, ok := x.Type().Underlying().(*types.Basic); ok && b.Info()&types.IsInteger != 0 {
			switch b.Kind() {
			case types.Int, types.Int64, types.Uint, types.Uint64, types.Uintptr:
				return latBigInt
			}
		}
		return latTop
	}
	return latTop
}

func isCmp(op token.Token) bool {
	switch op {
	case token.EQL, token.NEQ, token.LSS, token.LEQ, token.GTR, token.GEQ:
		return true
	}
	return false
}

func binop(x *ssa.BinOp, a, b lat) lat {
	if a.k == kBot || b.k == kBot {
		return latBot
	}
	op := x.Op
	if a.k == kConst && b.k == kConst {
		if isCmp(op) {
			if a.c.Kind() == b.c.Kind() {
				if a.c.Kind() == constant.Bool {
					if op == token.EQL {
						return boolLat(constant.BoolVal(a.c) == constant.BoolVal(b.c))
					}
					if op == token.NEQ {
						return boolLat(constant.BoolVal(a.c) != constant.BoolVal(b.c))
					}
					return latTop
				}
				return boolLat(constant.Compare(a.c, op, b.c))
			}
			return latTop
		}
		if a.c.Kind() == constant.Int && b.c.Kind() == constant.Int {
			switch op {
			case token.ADD, token.SUB, token.MUL, token.AND, token.OR, token.XOR, token.AND_NOT:
				return fit(lat{k: kConst, c: constant.BinaryOp(a.c, op, b.c)}, x.Type())
			case token.QUO, token.REM:
				if constant.Sign(b.c) == 0 {
					return latTop
				}
				if op == token.QUO {
					return fit(lat{k: kConst, c: constant.BinaryOp(a.c, token.QUO_ASSIGN, b.c)}, x.Type())
				}
				return fit(lat{k: kConst, c: constant.BinaryOp(a.c, token.REM, b.c)}, x.Type())
			case token.SHL, token.SHR:
				if s, ok := constant.Uint64Val(b.c); ok && s < 64 {
					return fit(lat{k: kConst, c: constant.Shift(a.c, op, uint(s))}, x.Type())
				}
			}
			return latTop
		}
		if a.c.Kind() == constant.String && b.c.Kind() == constant.String && op == token.ADD {
			return lat{k: kConst, c: constant.BinaryOp(a.c, op, b.c)}
		}
		return latTop
	}
	// nil comparisons
	if op == token.EQL || op == token.NEQ {
		isN := func(l lat) int { // 1 nil, 2 nonnil, 0 unknown
			switch l.k {
			case kNil:
				return 1
			case kNonNil, kBigSlice, kNonEmpty, kSliceN:
				return 2
			}
			return 0
		}
		na, nb := isN(a), isN(b)
		if na != 0 && nb != 0 && (na == 1 || nb == 1) {
			eq := na == nb
			if na == 2 && nb == 2 {
				return latTop
			}
			if op == token.EQL {
				return boolLat(eq)
			}
			return boolLat(!eq)
		}
	}
	// absorbing elements
	zero := func(l lat) bool { return l.k == kConst && l.c.Kind() == constant.Int && constant.Sign(l.c) == 0 }
	switch op {
	case token.AND, token.MUL:
		if zero(a) || zero(b) {
			return fit(latInt(0), x.Type())
		}
	case token.SHL, token.SHR, token.QUO, token.REM, token.AND_NOT:
		if zero(a) {
			return fit(latInt(0), x.Type())
		}
	}
	// lengths of non-empty slices compared with constants <= 0 / < 1
	if a.k == kPosInt || b.k == kPosInt {
		pos, other, left := a, b, true
		if b.k == kPosInt {
			pos, other, left = b, a, false
		}
		_ = pos
		if other.k == kConst && other.c.Kind() == constant.Int {
			sg := constant.Sign(other.c) // other <= 0 ?
			o := op
			if !left { // mirror: other OP pos  ==  pos OP' other
				switch op {
				case token.LSS:
					o = token.GTR
				case token.LEQ:
					o = token.GEQ
				case token.GTR:
					o = token.LSS
				case token.GEQ:
					o = token.LEQ
				}
			}
			isOne := constant.Compare(other.c, token.EQL, constant.MakeInt64(1))
			switch o { // pos o other
			case token.EQL:
				if sg <= 0 {
					return latFalse
				}
			case token.NEQ:
				if sg <= 0 {
					return latTrue
				}
			case token.GTR:
				if sg <= 0 {
					return latTrue
				}
			case token.GEQ:
				if sg <= 0 || isOne {
					return latTrue
				}
			case token.LSS:
				if sg <= 0 || isOne {
					return latFalse
				}
			case token.LEQ:
				if sg <= 0 {
					return latFalse
				}
			}
		}
		return latTop
	}
	// oversized lengths: ω compared with anything that is not itself ω
	if a.k == kBigInt || b.k == kBigInt {
		if a.k == kBigInt && b.k == kBigInt {
			return latTop
		}
		big := a.k == kBigInt // ω on the left
		// a loop counter eventually reaches any length: comparing it with ω must stay undecided, or
		// "for i < len(x)" over an oversized x never terminates in the abstract and hides what follows
		other := x.Y
		if !big {
			other = x.X
		}
		if isCmp(op) && loopCarriedValue(other, 0) {
			return latTop
		}
		switch op {
		case token.EQL:
			return latFalse
		case token.NEQ:
			return latTrue
		case token.LSS, token.LEQ:
			return boolLat(!big)
		case token.GTR, token.GEQ:
			return boolLat(big)
		case token.ADD:
			return latBigInt
		case token.SUB, token.QUO, token.SHR:
			if big {
				return latBigInt
			}
			return latTop
		case token.MUL:
			if (a.k == kConst && constant.Sign(a.c) > 0) || (b.k == kConst && constant.Sign(b.c) > 0) {
				return latBigInt
			}
			return latTop
		}
		return latTop
	}
	return latTop
}

func boolLat(b bool) lat {
	if b {
		return latTrue
	}
	return latFalse
}

// calleeNames lists the possible callees of a call site as names:
//
//	static function:   f.String() with the circl prefix stripped, e.g. "bytes.Equal",
//	                   "(*sign/ed25519.PublicKey).Equal", "crypto/subtle.ConstantTimeCompare"
//	builtin:           "builtin.len"
//	interface method:  "invoke " + types.Func.FullName() (prefix stripped), plus resolved targets
func (p *Program) staticCalleeName(c *ssa.CallCommon) string {
	if c.IsInvoke() {
		return "invoke " + short(c.Method.FullName())
	}
	switch v := c.Value.(type) {
	case *ssa.Builtin:
		return "builtin." + v.Name()
	}
	if f := c.StaticCallee(); f != nil {
		if f.Origin() != nil {
			return short(f.Origin().String())
		}
		return short(f.String())
	}
	return ""
}

func (e *gEngine) recordSite(a Assume, pos string) {
	m := e.sites[a.Name]
	if m == nil {
		m = map[string]bool{}
		e.sites[a.Name] = m
	}
	m[pos] = true
}

func (e *gEngine) call(f *ssa.Function, x *ssa.Call, get func(ssa.Value) lat, depth int) (res []lat, noReturn bool) {
	p := e.q.P
	c := &x.Call
	nres := 1
	if t, ok := x.Type().(*types.Tuple); ok {
		nres = t.Len()
	}
	top := func() []lat {
		r := make([]lat, nres)
		for i := range r {
			r[i] = latTop
		}
		return r
	}
	name := p.staticCalleeName(c)
	apply := func(r []lat, callee string) []lat {
		for _, a := range e.q.Assumes {
			if a.Match(x, callee, f) {
				e.recordSite(a, p.pos(x.Pos()))
				if r == nil {
					r = top()
				} else {
					r = append([]lat(nil), r...)
				}
				idx := a.Result
				if idx < 0 {
					idx = 0
				}
				if idx < len(r) {
					r[idx] = a.Val
				}
			}
		}
		return r
	}
	// builtins
	if b, ok := c.Value.(*ssa.Builtin); ok {
		switch b.Name() {
		case "len":
			v := get(c.Args[0])
			switch v.k {
			case kBot:
				return []lat{latBot}, false
			case kBigSlice:
				return apply([]lat{latBigInt}, name), false
			case kNonEmpty:
				return []lat{latPosInt}, false
			case kSliceN:
				return []lat{{k: kConst, c: v.c}}, false
			case kConst:
				if v.c.Kind() == constant.String {
					return []lat{latInt(int64(len(constant.StringVal(v.c))))}, false
				}
			case kNil:
				return []lat{latInt(0)}, false
			}
			if pt, ok := c.Args[0].Type().Underlying().(*types.Pointer); ok {
				if at, ok := pt.Elem().Underlying().(*types.Array); ok {
					return []lat{latInt(at.Len())}, false
				}
			}
			return apply([]lat{latTop}, name), false
		case "append":
			return []lat{latNonNil}, false
		}
		return top(), false
	}
	args := make([]lat, 0, len(c.Args)+1)
	for _, a := range c.Args {
		args = append(args, get(a))
	}
	// stdlib summaries
	switch name {
	case "errors.New", "fmt.Errorf":
		return apply([]lat{latNonNil}, name), false
	case "math/bits.Len64", "math/bits.Len", "math/bits.Len32", "math/bits.Len16", "math/bits.Len8":
		// pure function of its argument: folded on constants (bit length of a boundary value)
		if len(args) == 1 && args[0].k == kConst && args[0].c.Kind() == constant.Int {
			if u, ok := constant.Uint64Val(args[0].c); ok {
				n := 0
				for ; u != 0; u >>= 1 {
					n++
				}
				return apply([]lat{latInt(int64(n))}, name), false
			}
		}
	}
	var callees []*ssa.Function
	if sc := c.StaticCallee(); sc != nil {
		callees = []*ssa.Function{sc}
	} else {
		callees = p.dynamicCallees(f, x)
	}
	maxDyn := e.q.MaxDynamic
	if maxDyn == 0 {
		maxDyn = 8
	}
	if len(callees) == 0 || len(callees) > maxDyn {
		if len(callees) > maxDyn {
			e.skipped = append(e.skipped, fmt.Sprintf("%s: %d targets of %s not analysed", p.pos(x.Pos()), len(callees), name))
		}
		return apply(top(), name), false
	}
	var joined []lat
	allNoRet := true
	for _, cal := range callees {
		cname := short(cal.String())
		if cal.Origin() != nil {
			cname = short(cal.Origin().String())
		}
		var r []lat
		nr := false
		if e.q.NoInline[cname] || !inlinable(cal) {
			r = top()
		} else {
			cargs := args
			if c.IsInvoke() {
				cargs = append([]lat{get(c.Value)}, args...)
			}
			r, nr = e.evalCallee(cal, cargs, depth+1)
			if nr {
				// still record assumes matched on the site itself
				apply(nil, cname)
				if name != cname {
					apply(nil, name)
				}
				continue
			}
			if len(r) != nres {
				r = top()
			}
		}
		r = apply(r, cname)
		if name != cname && name != "" {
			r = apply(r, name)
		}
		allNoRet = false
		if joined == nil {
			joined = append([]lat(nil), r...)
		} else {
			for i := range joined {
				joined[i] = join(joined[i], r[i])
			}
		}
	}
	if allNoRet {
		return nil, true
	}
	return joined, false
}

// inlinable: circl functions and the few dependencies rules delegate into.
func inlinable(f *ssa.Function) bool {
	if f.Blocks == nil {
		return false
	}
	pp := funcPkgPath(f)
	return isCirclPath(pp) || strings.HasPrefix(pp, "github.com/bwesterb/go-ristretto")
}

// dynamicCallees resolves an interface / function-value call through VTA.
func (p *Program) dynamicCallees(f *ssa.Function, site ssa.CallInstruction) []*ssa.Function {
	cg := p.CallGraph()
	n := cg.Nodes[f]
	if n == nil {
		return nil
	}
	var out []*ssa.Function
	seen := map[*ssa.Function]bool{}
	for _, e := range n.Out {
		if e.Site == site && !seen[e.Callee.Func] {
			seen[e.Callee.Func] = true
			out = append(out, e.Callee.Func)
		}
	}
	sort.Slice(out, func(i, j int) bool { return out[i].String() < out[j].String() })
	return out
}

// loopCarriedValue: v is a phi, or simple arithmetic / a conversion of one.
func loopCarriedValue(v ssa.Value, depth int) bool {
	if depth > 3 {
		return false
	}
	switch x := v.(type) {
	case *ssa.Phi:
		// a phi of a loop header: some predecessor is dominated by the header (back edge)
		for _, pr := range x.Block().Preds {
			if x.Block().Dominates(pr) {
				return true
			}
		}
		return false
	case *ssa.BinOp:
		return loopCarriedValue(x.X, depth+1) || loopCarriedValue(x.Y, depth+1)
	case *ssa.Convert:
		return loopCarriedValue(x.X, depth+1)
	case *ssa.ChangeType:
		return loopCarriedValue(x.X, depth+1)
	}
	return false
}
