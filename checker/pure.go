package main

// PURE engine: a deterministic entry point reaches no source of nondeterminism.
// The GUARD engine's constant propagation prunes branches that the call-site facts exclude
// (seed != nil, randomized == false), and the walk descends into every circl callee,
// resolving interface calls with VTA (up to 32 targets per site).

import (
	"fmt"
	"go/token"
	"go/types"
	"sort"
	"strings"

	"golang.org/x/tools/go/ssa"
)

var nondetCallees = map[string]bool{
	"crypto/rand.Read": true, "crypto/rand.Int": true, "crypto/rand.Prime": true, "crypto/rand.Text": true,
	"time.Now": true, "time.Since": true,
	"invoke (crypto/ecdh.Curve).GenerateKey": true, "crypto/ecdsa.GenerateKey": true, "crypto/rsa.GenerateKey": true,
	"crypto/ed25519.GenerateKey": true, "crypto/internal/randutil.MaybeReadByte": true,
	"crypto/elliptic.GenerateKey": true, "os.Getenv": true, "os.Getpid": true, "runtime.NumCPU": true,
}

func isNondetCallee(name string) bool {
	return nondetCallees[name] || strings.HasPrefix(name, "math/rand.") || strings.HasPrefix(name, "math/rand/v2.") ||
		strings.HasPrefix(name, "(*math/rand.")
}

// pureRule: with every slice/string/pointer parameter of f non-nil (and the named overrides),
// no nondeterminism source is executable from f.
func (c *Ctx) pureRule(p *Program, rule, what string, f *ssa.Function, override map[string]lat) {
	if f == nil {
		c.undecided(rule, what, "anchor function does not resolve", "")
		return
	}
	construct := fname(f) + ": " + what
	q := &GuardQuery{P: p, Root: f, MaxDepth: 14, MaxDynamic: 32}
	q.Args = make([]lat, len(f.Params))
	for i, par := range f.Params {
		q.Args[i] = latTop
		switch par.Type().Underlying().(type) {
		case *types.Slice:
			q.Args[i] = latNonEmpty
		case *types.Pointer, *types.Interface:
			q.Args[i] = latNonNil
		}
	}
	for n, v := range override {
		i := paramIdx(f, n)
		if i < 0 {
			c.undecided(rule, construct, "parameter "+n+" does not exist", p.fnPos(f))
			return
		}
		q.Args[i] = v
	}
	var hits []string
	nfun := map[*ssa.Function]bool{}
	q.Observe = func(in *ssa.Function, site ssa.CallInstruction, callee string, _ func(ssa.Value) lat) {
		nfun[in] = true
		if isNondetCallee(callee) {
			hits = append(hits, fmt.Sprintf("%s calls %s at %s", fname(in), callee, p.pos(site.Pos())))
		}
	}
	q.ObserveInstr = func(in *ssa.Function, instr ssa.Instruction, _ func(ssa.Value) lat) {
		nfun[in] = true
		switch x := instr.(type) {
		case *ssa.UnOp:
			if x.Op == token.MUL {
				if g, ok := x.X.(*ssa.Global); ok && g.Pkg != nil && g.Pkg.Pkg.Path() == "crypto/rand" && g.Name() == "Reader" {
					hits = append(hits, fmt.Sprintf("%s uses crypto/rand.Reader at %s", fname(in), p.pos(x.Pos())))
				}
			}
		case *ssa.Go:
			hits = append(hits, fmt.Sprintf("%s starts a goroutine at %s", fname(in), p.pos(x.Pos())))
		case *ssa.Select:
			hits = append(hits, fmt.Sprintf("%s selects at %s", fname(in), p.pos(x.Pos())))
		case *ssa.Range:
			if _, ok := x.X.Type().Underlying().(*types.Map); ok {
				hits = append(hits, fmt.Sprintf("%s ranges over a map at %s", fname(in), p.pos(x.Pos())))
			}
		}
	}
	r := runGuard(q)
	c.count("pure_functions_walked", len(nfun))
	sort.Strings(hits)
	hits = uniq(hits)
	if len(hits) > 0 {
		c.bad(rule, construct, "nondeterminism reachable: "+strings.Join(hits, "; "), p.fnPos(f))
		return
	}
	w := fmt.Sprintf("%d functions walked, no nondeterminism source executable", len(nfun))
	if len(r.Unknown) > 0 {
		sort.Strings(r.Unknown)
		w += "; not analysed: " + strings.Join(uniq(r.Unknown), "; ")
	}
	c.ok(rule, construct, w, p.fnPos(f))
}
