package ed25519

import (
	"math/big"
	"testing"
)

// reduceModOrder must return x mod L for every 32- or 64-byte input. The last
// step of red512 subtracts floor(x/2^252)*L, an over-estimate of the quotient,
// and never adds L back when the difference is negative.
func TestFindingRed512Negative(t *testing.T) {
	L, _ := new(big.Int).SetString("7237005577332262213973186563042994240857116359379907606001950938285454250989", 10)
	le := func(x *big.Int, n int) []byte {
		b := x.FillBytes(make([]byte, n))
		for i, j := 0, n-1; i < j; i, j = i+1, j-1 {
			b[i], b[j] = b[j], b[i]
		}
		return b
	}
	fromLE := func(b []byte) *big.Int {
		c := append([]byte(nil), b...)
		for i, j := 0, len(c)-1; i < j; i, j = i+1, j-1 {
			c[i], c[j] = c[j], c[i]
		}
		return new(big.Int).SetBytes(c)
	}
	for _, e := range []uint{252, 253, 254} {
		x := new(big.Int).Lsh(big.NewInt(1), e)
		want := new(big.Int).Mod(x, L)
		for _, full := range []bool{false, true} {
			n := 32
			if full {
				n = 64
			}
			k := le(x, n)
			reduceModOrder(k, full)
			if got := fromLE(k[:32]); got.Cmp(want) != 0 {
				t.Errorf("2^%d (%d bytes): got %x want %x", e, n, got, want)
			}
		}
	}
}
