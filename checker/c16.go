package main

import (
	"fmt"
	"go/ast"
	"go/constant"
	"go/token"
	"go/types"
	"strings"

	"golang.org/x/tools/go/ssa"
)

func init() { registry["C16"] = checkC16 }

func checkC16(c *Ctx) {
	p := c.Prog("amd64")
	if p == nil {
		return
	}
	c.Clauses = append(c.Clauses,
		"C16.verifyguard: OPRF finalisation in the verifiable modes produces outputs only if the length validation passed and the batched DLEQ proof verified; server-side VerifyFinalize, the tweaked-key and blinding degenerate-value checks, and the final comparisons of the DLEQ / Schnorr / QN-DLEQ verifiers guard acceptance",
		"C16.dep: the DLEQ verdict depends on every statement element, the proof and the context; per-element composite hashes depend on index, both elements and the seed; challenge hashes depend on every transcript term (content, not only its length); OPRF outputs depend on input, info, the unblinded element",
		"C16.batch: every element of a batch is accumulated into both composites (no iteration can skip it)",
		"C16.params: the QN-DLEQ verifier takes no challenge parameter from the proof object (known finding: SecParam)",
		"C16.ot: the OT sender/receiver reject malformed ciphertext lengths before use")
	c.NotDec = append(c.NotDec, "independence of the OPRF outputs from the blinds (algebra)", "RFC 9497 vector equality", "soundness of the proof systems beyond the structural conditions")

	// ---- verify guards ----
	vb := "(zk/dleq.Verifier).VerifyBatch"
	for _, t := range []string{"VerifiableClient", "PartialObliviousClient"} {
		f := p.Func("oprf", t, "Finalize")
		c.guard(p, "C16.verifyguard", "outputs only if the DLEQ proof verifies", f, GuardSpec{Assumes: []Assume{calleeAssume(latFalse, -1, vb)}})
		c.guard(p, "C16.verifyguard", "outputs only if the evaluation has the right number of elements", f, GuardSpec{Assumes: []Assume{calleeAssume(latNonNil, -1, "(oprf.client).validate")}})
	}
	c.guard(p, "C16.verifyguard", "outputs only if the evaluation has the right number of elements", p.Func("oprf", "Client", "Finalize"), GuardSpec{Assumes: []Assume{calleeAssume(latNonNil, -1, "(oprf.client).validate")}})
	c.guard(p, "C16.verifyguard", "outputs only if the tweaked key is valid", p.Func("oprf", "PartialObliviousClient", "Finalize"), GuardSpec{Assumes: []Assume{calleeAssume(latNonNil, 1, "(oprf.PartialObliviousClient).pointFromInfo")}})
	c.guard(p, "C16.verifyguard", "identity tweaked key rejected", p.Func("oprf", "PartialObliviousClient", "pointFromInfo"), GuardSpec{Assumes: []Assume{calleeAssume(latTrue, -1, "invoke (group.Element).IsIdentity")}})
	c.guard(p, "C16.verifyguard", "zero tweaked secret rejected", p.Func("oprf", "server", "secretFromInfo"), GuardSpec{Assumes: []Assume{calleeAssume(latTrue, -1, "invoke (group.Scalar).IsEqual")}})
	c.guardEachSite(p, "C16.verifyguard", "input hashing to the identity rejected", p.Func("oprf", "client", "blind"), -1, latTrue, "invoke (group.Element).IsIdentity")
	// RFC 9497: the output hash absorbs len(info) ‖ info exactly in the partially oblivious mode - also for
	// an empty info - and never in the other two modes
	{
		fh := p.Func("oprf", "params", "finalizeHash")
		modeIs := func(m int64) []ValAssume {
			return []ValAssume{{Name: "p.m", Val: latInt(m), Match: func(v ssa.Value, in *ssa.Function) bool {
				if in != fh {
					return false
				}
				switch x := v.(type) {
				case *ssa.Field:
					par, ok := x.X.(*ssa.Parameter)
					return ok && fh != nil && len(fh.Params) > 0 && par == fh.Params[0] && x.X.Type().Underlying().(*types.Struct).Field(x.Field).Name() == "m"
				case *ssa.UnOp:
					fa, ok := x.X.(*ssa.FieldAddr)
					return ok && x.Op == token.MUL && fieldName(fa) == "m"
				}
				return false
			}}}
		}
		c.reachCountUnder(p, "C16.dep", "partially oblivious mode with an empty info: input, info and element are absorbed with their lengths, then the label (7 writes)", fh, map[string]lat{"info": latSliceLen(0)}, modeIs(2), "oprf.mustWrite", 7)
		c.reachCountUnder(p, "C16.dep", "verifiable mode with a non-empty info: the info is not absorbed (5 writes)", fh, map[string]lat{"info": latNonEmpty}, modeIs(1), "oprf.mustWrite", 5)
		c.reachCountUnder(p, "C16.dep", "base mode with a non-empty info: the info is not absorbed (5 writes)", fh, map[string]lat{"info": latNonEmpty}, modeIs(0), "oprf.mustWrite", 5)
	}
	// CopyBlinds hands out copies: the scalars inside FinalizeData are the ones Finalize inverts
	if f := p.Func("oprf", "FinalizeData", "CopyBlinds"); f == nil {
		c.undecided("C16.dep", "oprf.FinalizeData.CopyBlinds", "anchor does not resolve", "")
	} else {
		var bad []string
		n := 0
		for _, b := range f.Blocks {
			for _, in := range b.Instrs {
				st, ok := in.(*ssa.Store)
				if !ok {
					continue
				}
				if _, ok := st.Addr.(*ssa.IndexAddr); !ok {
					continue
				}
				n++
				if d := descVal(st.Val); !strings.HasPrefix(d, "call:invoke (group.Scalar).Copy") {
					bad = append(bad, p.pos(st.Pos())+": element receives "+d)
				}
			}
		}
		// a bulk copy of the slice (append / copy) shares the scalars as well
		for _, cs := range p.callSites(f, "builtin.append", "builtin.copy") {
			bad = append(bad, p.pos(cs.Pos())+": the slice of blinds is copied element-wise by "+p.staticCalleeName(cs.Common())+" (the scalars are shared)")
		}
		construct := fname(f) + ": every element handed out is a Copy() of the stored blind"
		if len(bad) > 0 || n == 0 {
			c.bad("C16.dep", construct, strings.Join(bad, "; ")+fmt.Sprintf(" (%d element stores)", n), p.fnPos(f))
		} else {
			c.ok("C16.dep", construct, fmt.Sprintf("%d element store(s), each of a Copy() result", n), p.fnPos(f))
		}
	}
	// a zero blind cannot be inverted at finalisation, and the element it produces is the identity
	c.guardEachSite(p, "C16.verifyguard", "a zero blind is refused", p.Func("oprf", "client", "blind"), -1, latTrue, "invoke (group.Scalar).IsZero")
	// validate: mismatching lengths are an error
	val := p.Func("oprf", "client", "validate")
	c.evalAcceptRuleBin(p, "C16.verifyguard", "length mismatch between blinds, request and evaluation is an error", val)
	vf := p.Func("oprf", "server", "verifyFinalize")
	c.guard(p, "C16.verifyguard", "VerifyFinalize true only if the outputs compare equal", vf, GuardSpec{Assumes: []Assume{calleeAssume(latInt(0), -1, "crypto/subtle.ConstantTimeCompare")}})
	c.guard(p, "C16.verifyguard", "VerifyFinalize true only if evaluation succeeded", vf, GuardSpec{Assumes: []Assume{calleeAssume(latNonNil, 1, "(oprf.server).fullEvaluate")}})
	for _, t := range []string{"Server", "VerifiableServer", "PartialObliviousServer"} {
		c.guard(p, "C16.verifyguard", "public VerifyFinalize delegates to the comparison", p.Func("oprf", t, "VerifyFinalize"), GuardSpec{Assumes: []Assume{calleeAssume(latFalse, -1, "(oprf.server).verifyFinalize")}})
	}
	// RFC 9497 section 4: the ciphersuite identifiers (they enter every domain separation tag), their groups
	// and hashes
	for _, su := range []struct{ name, id, group, hash string }{
		{"SuiteRistretto255", "ristretto255-SHA512", "group.Ristretto255", "crypto.SHA512"},
		{"SuiteP256", "P256-SHA256", "group.P256", "crypto.SHA256"},
		{"SuiteP384", "P384-SHA384", "group.P384", "crypto.SHA384"},
		{"SuiteP521", "P521-SHA512", "group.P521", "crypto.SHA512"},
	} {
		e, info := p.varInit("oprf", su.name)
		what := "oprf." + su.name + " = (" + su.id + ", " + su.group + ", " + su.hash + ")"
		cl, ok := e.(*ast.CompositeLit)
		if e == nil || !ok {
			c.undecided("C16.table", what, "the suite is not initialised by a composite literal", "")
			continue
		}
		got := map[string]string{}
		for _, el := range cl.Elts {
			kv, ok := el.(*ast.KeyValueExpr)
			if !ok {
				continue
			}
			k := types.ExprString(kv.Key)
			if tv, ok := info.Types[kv.Value]; ok && tv.Value != nil && tv.Value.Kind() == constant.String {
				got[k] = constant.StringVal(tv.Value)
			} else {
				got[k] = types.ExprString(kv.Value)
			}
		}
		c.tableEq("C16.table", what, got["identifier"]+", "+got["group"]+", "+got["hash"], su.id+", "+su.group+", "+su.hash, "")
	}
	// proof verifiers
	vbf := p.Func("zk/dleq", "Verifier", "VerifyBatch")
	c.guard(p, "C16.verifyguard", "DLEQ accepted only if the recomputed challenge equals the proof's", vbf, GuardSpec{Assumes: []Assume{calleeAssume(latFalse, -1, "invoke (group.Scalar).IsEqual")}})
	c.guard(p, "C16.verifyguard", "DLEQ accepted only if the composites could be computed", vbf, GuardSpec{Assumes: []Assume{calleeAssume(latNonNil, 2, "(zk/dleq.Params).computeComposites")}})
	c.guard(p, "C16.verifyguard", "single-statement Verify delegates to VerifyBatch", p.Func("zk/dleq", "Verifier", "Verify"), GuardSpec{Assumes: []Assume{calleeAssume(latFalse, -1, vb)}})
	c.guard(p, "C16.verifyguard", "Schnorr proof accepted only if V == rG + c*kG", p.Func("zk/dl", "", "Verify"), GuardSpec{Assumes: []Assume{calleeAssume(latFalse, -1, "invoke (group.Element).IsEqual")}})
	// a batch statement is a list of pairs: surplus evaluated elements that no coefficient covers must not
	// be accepted along with a proof about the others
	for _, t := range [][2]int64{{2, 3}, {3, 2}, {1, 0}} {
		c.evalAcceptRule(p, "C16.verifyguard", sprintf("composites of %d elements with %d evaluated elements are refused", t[0], t[1]),
			p.Func("zk/dleq", "Params", "computeComposites"), map[string]lat{"bi": latSliceLen(t[0]), "kbi": latSliceLen(t[1])}, nil, false)
	}
	// an encoded proof has exactly two scalars: trailing bytes make a second encoding of the same proof
	c.lenReject(p, "C16.verifyguard", p.Func("zk/dleq", "Proof", "UnmarshalBinary"), "data", false)
	qv := p.Func("zk/qndleq", "Proof", "Verify")
	c.guardEachSite(p, "C16.verifyguard", "non-invertible statement element rejected", qv, -1, latNil, "(*math/big.Int).ModInverse")
	// the transcript absorbs |v| (FillBytes) and (-v)^C = v^C for an even challenge: a statement element
	// replaced by its negative must be refused before the algebra
	c.guard(p, "C16.verifyguard", "a negative statement element is refused", qv, GuardSpec{Assumes: []Assume{calleeAssume(latInt(-1), -1, "(*math/big.Int).Sign")}})
	for _, t := range []string{"VerifiableClient", "PartialObliviousClient"} {
		c.rejectReasonsRule(p, "C16.verifyguard", reasonSpec{pkg: "oprf", typ: t, name: "Finalize", why: "RFC 9497: shape of the evaluation, the DLEQ proof",
			callees: []string{"(oprf.client).validate", "(zk/dleq.Verifier).VerifyBatch", "(oprf.client).pointFromInfo", "(oprf.PartialObliviousClient).pointFromInfo"}})
	}
	// the response is computed over the integers from the witness itself: exponents of squares modulo N live
	// modulo the (secret) group order, so a witness "reduced" modulo N proves a different statement
	if qp := p.Func("zk/qndleq", "", "Prove"); qp != nil {
		if i := paramIdx(qp, "x"); i >= 0 {
			c.callArgRule(p, "C16.dep", "the response z = c·x + r uses the witness as given", qp, "(*math/big.Int).Mul", "", map[int]string{2: sprintf(`param#%d`, i)})
		} else {
			c.undecided("C16.dep", fname(qp)+": the response uses the witness as given", "parameter x does not exist", p.fnPos(qp))
		}
	} else {
		c.undecided("C16.dep", "zk/qndleq.Prove: the response uses the witness as given", "anchor does not resolve", "")
	}
	c.rejectReasonsRule(p, "C16.verifyguard", reasonSpec{pkg: "zk/qndleq", typ: "Proof", name: "Verify", why: "range of the statement elements, invertibility, challenge comparison",
		callees: []string{"(*math/big.Int).Cmp", "(*math/big.Int).ModInverse", "(*math/big.Int).Sign"}})
	c.guard(p, "C16.verifyguard", "QN-DLEQ accepted only if the recomputed challenge equals C", qv, GuardSpec{Assumes: []Assume{calleeAssume(latInt(1), -1, "(*math/big.Int).Cmp")}})

	// ---- dependence ----
	c.depRule(p, "C16.dep", "DLEQ verdict depends on statement, proof and parameters", vbf, sinkResult(), "param:v", "param:a", "param:ka", "param:bi", "param:kbi", "param:p")
	cc := p.Func("zk/dleq", "Params", "computeComposites")
	h2s := "invoke (group.Group).HashToScalar"
	c.depRule(p, "C16.dep", "per-element coefficient hashes seed (ka, DST), index and both elements", cc, sinkCallArg(1, h2s), "param:ka", "param:bi", "param:kbi", "param:p")
	c.depRule(p, "C16.dep", "composites M, Z depend on the batch elements", cc, sinkResult(), "param:bi", "param:kbi", "param:ka")
	dc := p.Func("zk/dleq", "Params", "doChallenge")
	c.depRule(p, "C16.dep", "challenge hashes all five transcript elements under the context DST", dc, sinkCallArg(1, h2s), "param:a")
	c.depRule(p, "C16.dep", "challenge DST depends on the context", dc, sinkCallArg(2, h2s), "param:p")
	for _, n := range []string{"ProveBatchWithRandomness"} {
		f := p.Func("zk/dleq", "Prover", n)
		c.depRule(p, "C16.dep", "prover's challenge transcript = (kA, M, Z, t2, t3)", f, sinkCallArg(1, "(zk/dleq.Params).doChallenge"), "param:ka", "param:bi", "param:kbi", "param:a", "param:rnd")
	}
	c.depRule(p, "C16.dep", "verifier's challenge transcript = (kA, M, Z, t2, t3)", vbf, sinkCallArg(1, "(zk/dleq.Params).doChallenge"), "param:ka", "param:bi", "param:kbi", "param:a", "param:p")
	// Schnorr transcript: content of every term
	cch := p.Func("zk/dl", "", "calcChallenge")
	c.depRule(p, "C16.dep", "Schnorr challenge hashes G, V, A, userID and otherInfo (content)", cch, sinkCallArg(1, h2s), "param:G", "param:V", "param:A", "param:userID", "param:otherInfo", "len:param:userID", "len:param:otherInfo")
	c.depRule(p, "C16.dep", "Schnorr verdict depends on statement, proof and context", p.Func("zk/dl", "", "Verify"), sinkResult(), "param:G", "param:kG", "param:p", "param:userID", "param:otherInfo")
	// qndleq challenge
	qc := p.Func("zk/qndleq", "", "doChallenge")
	c.depRule(p, "C16.dep", "QN-DLEQ challenge absorbs g, h, gx, hx, gP, hP", qc, sinkResult(), "param:g", "param:gx", "param:h", "param:hx", "param:gP", "param:hP")
	c.depRule(p, "C16.dep", "QN-DLEQ verdict depends on statement and proof", qv, sinkResult(), "param:p", "param:g", "param:gx", "param:h", "param:hx", "param:N")
	// OPRF output
	fh := p.Func("oprf", "params", "finalizeHash")
	c.depRule(p, "C16.dep", "OPRF output hashes input, info and the unblinded element", fh, sinkResult(), "param:input", "param:info", "param:element", "len:param:input", "len:param:element")
	c.transcriptRule(p, "C16.dep", "finalize transcript: len‖input‖[len‖info‖]len‖element‖\"Finalize\"", fh,
		map[string]lat{"input": latNonEmpty, "info": latNonEmpty, "element": latNonEmpty}, "oprf.mustWrite", 1,
		[]string{"[0 0]", "param#2", "[0 0]", "param#3", "[0 0]", "param#4", `"Finalize"`})
	cf := p.Func("oprf", "client", "finalize")
	c.depRule(p, "C16.dep", "client outputs depend on inputs, evaluation, blinds and info", cf, sinkResult(), "param:f", "param:e", "param:info")
	c.callArgRule(p, "C16.dep", "unblinding uses the evaluated elements and the blinds", cf, "(oprf.client).unblind", "", map[int]string{2: `param#2\.Elements`, 3: `param#1\.blinds`})
	for _, t := range []struct{ typ, arg3, arg4 string }{{"VerifiableClient", `param#1\.evalReq\.Elements`, `param#2\.Elements`}, {"PartialObliviousClient", `param#2\.Elements`, `param#1\.evalReq\.Elements`}} {
		f := p.Func("oprf", t.typ, "Finalize")
		c.callArgRule(p, "C16.dep", "proof is checked against the blinded and evaluated elements and the proof received", f, vb, "", map[int]string{3: t.arg3, 4: t.arg4, 5: `param#2\.Proof`})
	}
	c.callArgRule(p, "C16.dep", "verifiable mode checks the proof under the server public key", p.Func("oprf", "VerifiableClient", "Finalize"), vb, "", map[int]string{1: `call:invoke \(group\.Group\)\.Generator.*`, 2: `param#0\.pkS\.e`})
	c.callArgRule(p, "C16.dep", "partially oblivious mode checks the proof under the tweaked key", p.Func("oprf", "PartialObliviousClient", "Finalize"), vb, "", map[int]string{1: `call:invoke \(group\.Group\)\.Generator.*`, 2: `call:\(oprf\.PartialObliviousClient\)\.pointFromInfo#0`})

	// ---- batch: no element skipped ----
	isAdd := func(recvRes int) func(ssa.Instruction) bool {
		return func(in ssa.Instruction) bool {
			ci, ok := in.(ssa.CallInstruction)
			if !ok || p.staticCalleeName(ci.Common()) != "invoke (group.Element).Add" {
				return false
			}
			d := descVal(ci.Common().Value)
			if recvRes == 0 {
				return strings.Contains(d, "Identity") && !strings.Contains(d, "z")
			}
			return true
		}
	}
	_ = isAdd
	addOf := func(which int) func(ssa.Instruction) bool {
		// the which-th (0: M, 1: Z) accumulation call `x.Add(x, y)` in source order
		var adds []ssa.Instruction
		if cc != nil {
			for _, b := range cc.Blocks {
				for _, in := range b.Instrs {
					if ci, ok := in.(ssa.CallInstruction); ok && p.staticCalleeName(ci.Common()) == "invoke (group.Element).Add" {
						adds = append(adds, in)
					}
				}
			}
		}
		return func(in ssa.Instruction) bool { return which < len(adds) && adds[which] == in }
	}
	c.loopPassesThrough(p, "C16.batch", "every batch element is accumulated into M", cc, map[string]lat{"k": latNil}, "M.Add(M, d_j*B_j)", addOf(0))
	c.loopPassesThrough(p, "C16.batch", "every batch element is accumulated into Z (verifier side, k == nil)", cc, map[string]lat{"k": latNil}, "Z.Add(Z, d_j*kB_j)", addOf(1))

	// ---- params ----
	if qv != nil {
		for _, cs := range p.callSites(qv, "zk/qndleq.doChallenge") {
			args := cs.Common().Args
			d := descVal(args[len(args)-1])
			what := fname(qv) + ": doChallenge(secParam) must not come from the proof"
			if strings.HasPrefix(d, "param#0") {
				c.bad("C16.params", what, "security parameter of the verifier's challenge is "+d+" (a field of the proof object chosen by the prover)", p.pos(cs.Pos()))
			} else {
				c.ok("C16.params", what, "security parameter is "+d, p.pos(cs.Pos()))
			}
		}
	}

	// ---- OT ----
	checkC16OT(c, p)
}

func checkC16OT(c *Ctx, p *Program) {
	dec := p.Func("ot/simot", "", "aesDecGCM")
	c.guard(p, "C16.ot", "receiver output only if AEAD decryption succeeded", p.Func("ot/simot", "Receiver", "Round3Receiver"), GuardSpec{Assumes: []Assume{calleeAssume(latNonNil, 1, "ot/simot.aesDecGCM")}})
	c.guard(p, "C16.ot", "decryption error propagates", dec, GuardSpec{Assumes: []Assume{calleeAssume(latNonNil, 1, "invoke (crypto/cipher.AEAD).Open")}})
	c.evalAcceptRuleSpec(p, "C16.ot", "ciphertext shorter than the nonce rejected", dec, map[string]lat{"ciphertext": latNil},
		[]Assume{calleeAssume(latInt(12), -1, "invoke (crypto/cipher.AEAD).NonceSize")}, nil, false, succNilErr(1))
}

// evalAcceptRuleBin (C16): validate() must return an error whenever one of its length comparisons differs.
func (c *Ctx) evalAcceptRuleBin(p *Program, rule, what string, f *ssa.Function) {
	if f == nil {
		c.undecided(rule, what, "anchor function does not resolve", "")
		return
	}
	// each `!=` comparison of two lengths, assumed true, must exclude the nil-error exit
	n := 0
	for _, b := range f.Blocks {
		for _, in := range b.Instrs {
			bo, ok := in.(*ssa.BinOp)
			if !ok || bo.Op.String() != "!=" {
				continue
			}
			if !strings.HasPrefix(descVal(bo.X), "len(") && !strings.HasPrefix(descVal(bo.Y), "len(") {
				continue
			}
			n++
			site := bo
			c.guard(p, rule, what+" ["+descVal(bo.X)+" != "+descVal(bo.Y)+"]", f, GuardSpec{BinAssumes: []BinAssume{{Name: "length comparison", Val: latTrue,
				Match: func(b2 *ssa.BinOp, _ *ssa.Function) bool { return b2 == site }}}})
		}
	}
	if n < 2 {
		c.bad(rule, fname(f)+": "+what, "fewer than two length comparisons found", p.fnPos(f))
	}
}
