package main

// LEN engine: proves index / slice operations in range from linear facts.
//
// Integer values are linear forms c0 + Σ ci·ai over atoms (lengths of slices, opaque integer
// values). Facts are inequalities "form ≥ 0" collected from the comparisons that dominate the
// operation (and from earlier dominating bounds operations, which would have panicked otherwise).
// A goal g ≥ 0 is discharged when g − Σ λk·fk (λk ≥ 0, at most four facts) has only non-negative
// components over sign-constrained atoms. Arithmetic in types narrower than 64 bits, which may
// wrap, produces a fresh opaque atom (so `8+siLen` computed in uint16 is not related to siLen).
// When a goal about a slice parameter cannot be proven inside a function, the smallest constant K
// such that "len(param) ≥ K" makes it provable becomes a requirement checked at the call sites.

import (
	"fmt"
	"go/constant"
	"go/token"
	"go/types"
	"math/big"
	"sort"
	"strings"

	"golang.org/x/tools/go/ssa"
)

type lin struct {
	c *big.Rat
	t map[string]*big.Rat
}

func newLin(c int64) lin { return lin{c: big.NewRat(c, 1), t: map[string]*big.Rat{}} }

func (a lin) clone() lin {
	r := lin{c: new(big.Rat).Set(a.c), t: map[string]*big.Rat{}}
	for k, v := range a.t {
		r.t[k] = new(big.Rat).Set(v)
	}
	return r
}

func (a lin) addScaled(b lin, s *big.Rat) lin {
	r := a.clone()
	r.c.Add(r.c, new(big.Rat).Mul(b.c, s))
	for k, v := range b.t {
		x := new(big.Rat).Mul(v, s)
		if o, ok := r.t[k]; ok {
			o.Add(o, x)
			if o.Sign() == 0 {
				delete(r.t, k)
			}
		} else if x.Sign() != 0 {
			r.t[k] = x
		}
	}
	return r
}

func (a lin) add(b lin) lin { return a.addScaled(b, big.NewRat(1, 1)) }
func (a lin) sub(b lin) lin { return a.addScaled(b, big.NewRat(-1, 1)) }
func (a lin) plus(n int64) lin {
	r := a.clone()
	r.c.Add(r.c, big.NewRat(n, 1))
	return r
}

func (a lin) String() string {
	var ks []string
	for k := range a.t {
		ks = append(ks, k)
	}
	sort.Strings(ks)
	s := a.c.RatString()
	for _, k := range ks {
		s += " + " + a.t[k].RatString() + "·" + k
	}
	return s
}

func atomLin(name string) lin {
	return lin{c: new(big.Rat), t: map[string]*big.Rat{name: big.NewRat(1, 1)}}
}

// lenCtx is the per-function context of the LEN engine.
type lenCtx struct {
	p                *Program
	f                *ssa.Function
	nonneg           map[string]bool  // atoms known to be ≥ 0
	upper            map[string]int64 // atoms with a known upper bound
	names            map[ssa.Value]string
	lower1           map[string]bool          // atoms known to be ≥ -1 (range-loop counters)
	paramConst       map[*ssa.Parameter]int64 // integer parameters bound to constants in this context
	upperAny         map[string]int64
	lowerC           map[string]int64
	inFits           bool
	strides          []lin
	stridesDone      bool
	depth            int
	budget           int
	inlineDepth      int
	recvDesc         string
	memoLin, memoLen map[ssa.Value]lin
	inLin, inLen     map[ssa.Value]bool
}

func newLenCtx(p *Program, f *ssa.Function) *lenCtx {
	return &lenCtx{p: p, f: f, nonneg: map[string]bool{}, upper: map[string]int64{}, names: map[ssa.Value]string{}, lower1: map[string]bool{}, upperAny: map[string]int64{}, lowerC: map[string]int64{}, memoLin: map[ssa.Value]lin{}, memoLen: map[ssa.Value]lin{}, inLin: map[ssa.Value]bool{}, inLen: map[ssa.Value]bool{}}
}

func (lc *lenCtx) atomOf(v ssa.Value, prefix string) lin {
	n, ok := lc.names[v]
	if !ok {
		n = fmt.Sprintf("%s%s@%d", prefix, v.Name(), len(lc.names))
		if par, ok := v.(*ssa.Parameter); ok {
			n = prefix + paramDesc(par)
		}
		lc.names[v] = n
	}
	full := n
	if prefix == "len:" {
		lc.nonneg[full] = true
	}
	return atomLin(full)
}

func intWidth(t types.Type) (bits int, unsigned bool, ok bool) {
	b, isB := t.Underlying().(*types.Basic)
	if !isB || b.Info()&types.IsInteger == 0 {
		return 0, false, false
	}
	unsigned = b.Info()&types.IsUnsigned != 0
	switch b.Kind() {
	case types.Int8, types.Uint8:
		return 8, unsigned, true
	case types.Int16, types.Uint16:
		return 16, unsigned, true
	case types.Int32, types.Uint32:
		return 32, unsigned, true
	}
	return 64, unsigned, true
}

// opaque returns a fresh atom for an integer value, with sign / range knowledge from its type.
func (lc *lenCtx) opaque(v ssa.Value) lin {
	a := lc.atomOf(v, "v:")
	var name string
	for k := range a.t {
		name = k
	}
	if bits, uns, ok := intWidth(v.Type()); ok && uns {
		lc.nonneg[name] = true
		if bits < 64 {
			lc.upper[name] = (int64(1) << uint(bits)) - 1
		}
	}
	return a
}

// linOf: the linear form of an integer value.
func (lc *lenCtx) linOf(v ssa.Value) lin {
	if r, ok := lc.memoLin[v]; ok {
		return r
	}
	if lc.inLin[v] {
		return lc.opaque(v)
	}
	lc.inLin[v] = true
	r := lc.linOf1(v)
	delete(lc.inLin, v)
	lc.memoLin[v] = r
	return r
}

func (lc *lenCtx) linOf1(v ssa.Value) lin {
	lc.depth++
	defer func() { lc.depth-- }()
	if lc.depth > 40 {
		return lc.opaque(v)
	}
	switch x := v.(type) {
	case *ssa.Parameter:
		if n, ok := lc.paramConst[x]; ok {
			return newLin(n)
		}
		return lc.opaque(v)
	case *ssa.Const:
		if x.Value != nil && x.Value.Kind() == constant.Int {
			if n, ok := constant.Int64Val(x.Value); ok {
				return newLin(n)
			}
		}
		return lc.opaque(v)
	case *ssa.Call:
		if b, ok := x.Call.Value.(*ssa.Builtin); ok && (b.Name() == "len" || b.Name() == "cap") && len(x.Call.Args) == 1 {
			return lc.lenOf(x.Call.Args[0])
		}
		if g, ok := lc.getter(x); ok {
			return g
		}
		if g, ok := lc.constCall(x); ok {
			return g
		}
		a := lc.opaque(v)
		// results of Size()-style getters and len-like functions are non-negative
		if bt, ok := v.Type().Underlying().(*types.Basic); ok && bt.Info()&types.IsInteger != 0 {
			n := lc.p.staticCalleeName(&x.Call)
			if sizeLike(n) {
				for k := range a.t {
					lc.nonneg[k] = true
				}
			}
		}
		return a
	case *ssa.Convert:
		fb, fu, ok1 := intWidth(x.X.Type())
		tb, tu, ok2 := intWidth(x.Type())
		if ok1 && ok2 {
			inner := lc.linOf(x.X)
			// value-preserving conversions: widening of an unsigned value, or same-width signed<->unsigned
			// of a value known non-negative, or widening signed->signed
			switch {
			case fu && tb > fb:
				return inner
			case fu && tb == fb && !tu && fb == 64:
				// uint -> int of the same width: preserved for values < 2^63 (lengths and sizes)
				return inner
			case !fu && !tu && tb >= fb:
				return inner
			case !fu && tu && tb >= fb:
				// int -> uint: preserved when the value is provably non-negative
				if lc.isNonNeg(inner) {
					return inner
				}
			}
		}
		return lc.opaque(v)
	case *ssa.BinOp:
		bits, uns, ok := intWidth(x.Type())
		if !ok {
			return lc.opaque(v)
		}
		narrow := bits < 64
		switch x.Op {
		case token.ADD, token.SUB:
			a, b := lc.linOf(x.X), lc.linOf(x.Y)
			var r lin
			if x.Op == token.ADD {
				r = a.add(b)
			} else {
				r = a.sub(b)
			}
			if narrow {
				// may wrap in a narrow type unless the result provably fits
				if !lc.fits(r, bits, uns) && !lc.fitsAt(x, r, bits, uns) {
					return lc.opaque(v)
				}
			}
			if uns && x.Op == token.SUB && !narrow {
				// 64-bit unsigned subtraction wraps if negative: keep the form only if provably non-negative
				if !lc.isNonNeg(r) {
					return lc.opaque(v)
				}
			}
			return r
		case token.MUL:
			a, b := lc.linOf(x.X), lc.linOf(x.Y)
			var r lin
			switch {
			case len(a.t) == 0:
				r = newLin(0).addScaled(b, a.c)
			case len(b.t) == 0:
				r = newLin(0).addScaled(a, b.c)
			default:
				// product of two single-atom forms: a canonical product atom (value numbering)
				if len(a.t) == 1 && len(b.t) == 1 && a.c.Sign() == 0 && b.c.Sign() == 0 && !narrow {
					var ka, kb string
					var ca, cb *big.Rat
					for k, c := range a.t {
						ka, ca = k, c
					}
					for k, c := range b.t {
						kb, cb = k, c
					}
					if lc.nonneg[ka] && lc.nonneg[kb] {
						ks := []string{ka, kb}
						sort.Strings(ks)
						name := "prod:(" + ks[0] + ")*(" + ks[1] + ")"
						lc.nonneg[name] = true
						return lin{c: new(big.Rat), t: map[string]*big.Rat{name: new(big.Rat).Mul(ca, cb)}}
					}
				}
				return lc.opaque(v)
			}
			if narrow && !lc.fits(r, bits, uns) {
				return lc.opaque(v)
			}
			return r
		case token.SHL:
			if k, ok := x.Y.(*ssa.Const); ok && k.Value != nil {
				if s, ok := constant.Int64Val(k.Value); ok && s >= 0 && s < 32 {
					r := newLin(0).addScaled(lc.linOf(x.X), big.NewRat(int64(1)<<uint(s), 1))
					if narrow && !lc.fits(r, bits, uns) {
						return lc.opaque(v)
					}
					return r
				}
			}
		case token.QUO, token.SHR, token.REM, token.AND:
			// results bounded by the dividend / mask: record upper bound knowledge
			a := lc.opaque(v)
			if x.Op == token.QUO || x.Op == token.SHR {
				if k, ok := x.Y.(*ssa.Const); ok && k.Value != nil {
					if m, ok := constant.Int64Val(k.Value); ok && m > 0 && lc.isNonNeg(lc.linOf(x.X)) {
						for n := range a.t {
							lc.nonneg[n] = true
						}
					}
				}
			}
			if x.Op == token.AND {
				for _, o := range []ssa.Value{x.X, x.Y} {
					if k, ok := o.(*ssa.Const); ok && k.Value != nil {
						if m, ok := constant.Int64Val(k.Value); ok && m >= 0 {
							for n := range a.t {
								lc.nonneg[n] = true
								lc.upper[n] = m
							}
						}
					}
				}
			}
			if x.Op == token.REM {
				if k, ok := x.Y.(*ssa.Const); ok && k.Value != nil {
					if m, ok := constant.Int64Val(k.Value); ok && m > 0 && lc.isNonNeg(lc.linOf(x.X)) {
						for n := range a.t {
							lc.nonneg[n] = true
							lc.upper[n] = m - 1
						}
					}
				}
			}
			return a
		}
		return lc.opaque(v)
	case *ssa.Phi:
		a := lc.opaque(v)
		// induction variable: edges are {init, phi ± constant step}
		var init *int64
		okUp, okDown := true, true
		for _, e := range x.Edges {
			if k, ok := e.(*ssa.Const); ok && k.Value != nil {
				if n, ok := constant.Int64Val(k.Value); ok {
					if init == nil {
						nn := n
						init = &nn
					} else if n != *init {
						okUp, okDown = false, false
					}
					continue
				}
			}
			if bo, ok := e.(*ssa.BinOp); ok && (bo.Op == token.ADD || bo.Op == token.SUB) && bo.X == ssa.Value(x) {
				if k, ok := bo.Y.(*ssa.Const); ok && k.Value != nil {
					if n, ok := constant.Int64Val(k.Value); ok && n > 0 {
						if bo.Op == token.ADD {
							okDown = false
						} else {
							okUp = false
						}
						continue
					}
				}
			}
			okUp, okDown = false, false
		}
		if init != nil {
			for n := range a.t {
				if okUp && *init >= 0 {
					lc.nonneg[n] = true
				} else if okUp && *init == -1 {
					lc.lower1[n] = true
				}
				if okDown {
					// counts down from init: never above it (in a signed type)
					if _, uns, _ := intWidth(x.Type()); !uns {
						lc.upperAny[n] = *init
					}
					// never negative when the initial value is non-negative and every decrement is guarded so
					// that the decremented value stays non-negative
					if *init >= 0 && !lc.inFits {
						okAll := true
						for _, e := range x.Edges {
							bo, isB := e.(*ssa.BinOp)
							if !isB {
								continue
							}
							lc.inFits = true
							lc.memoLin[v] = a
							facts := lc.factsAt(bo)
							k, _ := bo.Y.(*ssa.Const)
							c, _ := constant.Int64Val(k.Value)
							if !lc.prove(a.plus(-c), facts) {
								okAll = false
							}
							delete(lc.memoLin, v)
							lc.inFits = false
						}
						if okAll {
							lc.nonneg[n] = true
						}
					}
				}
			}
		}
		return a
	}
	if u, ok := v.(*ssa.UnOp); ok && u.Op == token.MUL {
		if fv := lc.forwarded(u); fv != nil {
			return lc.linOf(fv)
		}
		if fa, ok := u.X.(*ssa.FieldAddr); ok && fieldName(fa) == "BitSize" {
			// elliptic.CurveParams.BitSize is a positive constant of the curve
			a := lc.opaque(v)
			for n := range a.t {
				lc.nonneg[n] = true
			}
			return a
		}
	}
	return lc.opaque(v)
}

func (lc *lenCtx) fits(r lin, bits int, uns bool) bool {
	// conservative: only constants and single non-negative atoms with known upper bounds
	max := new(big.Rat).SetInt(new(big.Int).Lsh(big.NewInt(1), uint(bits)))
	if !uns {
		max = new(big.Rat).SetInt(new(big.Int).Lsh(big.NewInt(1), uint(bits-1)))
	}
	hi := new(big.Rat).Set(r.c)
	lo := new(big.Rat).Set(r.c)
	for k, v := range r.t {
		u, ok := lc.upper[k]
		if !ok || !lc.nonneg[k] {
			return false
		}
		if v.Sign() > 0 {
			hi.Add(hi, new(big.Rat).Mul(v, big.NewRat(u, 1)))
		} else {
			lo.Add(lo, new(big.Rat).Mul(v, big.NewRat(u, 1)))
		}
	}
	if hi.Cmp(max) >= 0 {
		return false
	}
	if uns {
		return lo.Sign() >= 0
	}
	return lo.Cmp(new(big.Rat).Neg(max)) >= 0
}

// fitsAt: r fits the type given the facts that hold where the operation is computed.
func (lc *lenCtx) fitsAt(at ssa.Instruction, r lin, bits int, uns bool) bool {
	if lc.inFits {
		return false
	}
	lc.inFits = true
	defer func() { lc.inFits = false }()
	facts := lc.factsAt(at)
	max := int64(1) << uint(bits)
	lo := int64(0)
	if !uns {
		max = int64(1) << uint(bits-1)
		lo = -max
	}
	return lc.prove(r.plus(-lo), facts) && lc.prove(newLin(max-1).sub(r), facts)
}

func (lc *lenCtx) isNonNeg(r lin) bool {
	if r.c.Sign() < 0 {
		return false
	}
	for k, v := range r.t {
		if v.Sign() < 0 || !lc.nonneg[k] {
			return false
		}
	}
	return true
}

// lenOf: the linear form of the length of a slice / string / array-pointer value.
func (lc *lenCtx) lenOf(v ssa.Value) lin {
	if r, ok := lc.memoLen[v]; ok {
		return r
	}
	if lc.inLen[v] {
		return lc.atomOf(v, "len:")
	}
	lc.inLen[v] = true
	r := lc.lenOf1(v)
	delete(lc.inLen, v)
	lc.memoLen[v] = r
	return r
}

func (lc *lenCtx) lenOf1(v ssa.Value) lin {
	lc.depth++
	defer func() { lc.depth-- }()
	if lc.depth > 40 {
		return lc.atomOf(v, "len:")
	}
	if pt, ok := v.Type().Underlying().(*types.Pointer); ok {
		if at, ok := pt.Elem().Underlying().(*types.Array); ok {
			return newLin(at.Len())
		}
	}
	if at, ok := v.Type().Underlying().(*types.Array); ok {
		return newLin(at.Len())
	}
	switch x := v.(type) {
	case *ssa.Slice:
		lo := newLin(0)
		if x.Low != nil {
			lo = lc.linOf(x.Low)
		}
		if x.High != nil {
			return lc.linOf(x.High).sub(lo)
		}
		return lc.lenOf(x.X).sub(lo)
	case *ssa.MakeSlice:
		return lc.linOf(x.Len)
	case *ssa.Convert:
		return lc.lenOf(x.X)
	case *ssa.ChangeType:
		return lc.lenOf(x.X)
	case *ssa.Const:
		if x.Value != nil && x.Value.Kind() == constant.String {
			return newLin(int64(len(constant.StringVal(x.Value))))
		}
		if x.Value == nil {
			return newLin(0)
		}
	case *ssa.UnOp:
		if x.Op == token.MUL {
			if fv := lc.forwarded(x); fv != nil {
				return lc.lenOf(fv)
			}
		}
	case *ssa.Call:
		n := lc.p.staticCalleeName(&x.Call)
		// RFC 9380 expanders return exactly the requested number of bytes
		if strings.HasSuffix(n, ".Expand") && strings.Contains(n, "expander") {
			args := x.Call.Args
			return lc.linOf(args[len(args)-1])
		}
	case *ssa.Phi:
		// all edges the same length?
		var first *lin
		same := true
		for _, e := range x.Edges {
			if e == ssa.Value(x) {
				continue
			}
			l := lc.lenOf(e)
			if first == nil {
				first = &l
			} else if l.String() != first.String() {
				same = false
			}
		}
		if same && first != nil {
			return *first
		}
	}
	return lc.atomOf(v, "len:")
}

// ---- facts ----

// cmpFact turns "X op Y" (holding or not) into form ≥ 0 facts.
func (lc *lenCtx) cmpFact(b *ssa.BinOp, holds bool) []lin {
	if _, _, ok := intWidth(b.X.Type()); !ok {
		return nil
	}
	op := b.Op
	if !holds {
		switch op {
		case token.LSS:
			op = token.GEQ
		case token.LEQ:
			op = token.GTR
		case token.GTR:
			op = token.LEQ
		case token.GEQ:
			op = token.LSS
		case token.EQL:
			op = token.NEQ
		case token.NEQ:
			op = token.EQL
		}
	}
	x, y := lc.linOf(b.X), lc.linOf(b.Y)
	switch op {
	case token.LSS: // x < y : y - x - 1 ≥ 0
		return []lin{y.sub(x).plus(-1)}
	case token.LEQ:
		return []lin{y.sub(x)}
	case token.GTR:
		return []lin{x.sub(y).plus(-1)}
	case token.GEQ:
		return []lin{x.sub(y)}
	case token.EQL:
		return []lin{x.sub(y), y.sub(x)}
	}
	return nil
}

// factsAt collects the facts that hold when control reaches instruction at.
func (lc *lenCtx) factsAt(at ssa.Instruction) []lin {
	var facts []lin
	blk := at.Block()
	// branch conditions on the dominator chain
	for b := blk; b != nil; b = b.Idom() {
		d := b.Idom()
		if d == nil {
			break
		}
		ifi, ok := d.Instrs[len(d.Instrs)-1].(*ssa.If)
		if !ok {
			continue
		}
		// which successor of d leads to b exclusively?
		var holds, decided bool
		if d.Succs[0] == b && len(b.Preds) == 1 {
			holds, decided = true, true
		} else if d.Succs[1] == b && len(b.Preds) == 1 {
			holds, decided = false, true
		}
		if !decided {
			continue
		}
		cond := ifi.Cond
		for {
			if u, ok := cond.(*ssa.UnOp); ok && u.Op == token.NOT {
				cond = u.X
				holds = !holds
				continue
			}
			break
		}
		if bo, ok := cond.(*ssa.BinOp); ok && isCmp(bo.Op) {
			facts = append(facts, lc.cmpFact(bo, holds)...)
		}
	}
	// earlier bounds operations that dominate `at` did not panic
	for b := blk; b != nil; b = b.Idom() {
		for _, in := range b.Instrs {
			if b == blk && in == at {
				break
			}
			if b == blk && instrIndex(in) >= instrIndex(at) {
				break
			}
			switch x := in.(type) {
			case *ssa.IndexAddr:
				if _, ok := x.X.Type().Underlying().(*types.Slice); ok {
					facts = append(facts, lc.lenOf(x.X).sub(lc.linOf(x.Index)).plus(-1))
				}
			case *ssa.Slice:
				if _, ok := x.X.Type().Underlying().(*types.Slice); ok || isStringType(x.X.Type()) {
					ln := lc.lenOf(x.X)
					if x.High != nil {
						// high ≤ cap: for sub-slices of the input we only know cap ≥ len; not a len fact
						if isStringType(x.X.Type()) {
							facts = append(facts, ln.sub(lc.linOf(x.High)))
						}
						if x.Low != nil {
							facts = append(facts, lc.linOf(x.High).sub(lc.linOf(x.Low)))
						}
					} else if x.Low != nil {
						facts = append(facts, ln.sub(lc.linOf(x.Low)))
					}
				}
			}
		}
	}
	return facts
}

func isStringType(t types.Type) bool {
	b, ok := t.Underlying().(*types.Basic)
	return ok && b.Info()&types.IsString != 0
}

// prove: g ≥ 0 follows from the facts (bounded Farkas search).
func (lc *lenCtx) prove(g lin, facts []lin) bool {
	// upper bounds of atoms as facts
	all := append([]lin(nil), facts...)
	for k, u := range lc.upper {
		if lc.nonneg[k] {
			all = append(all, newLin(u).sub(atomLin(k)))
		}
	}
	for k := range lc.lower1 {
		all = append(all, atomLin(k).plus(1))
	}
	for k, l := range lc.lowerC {
		all = append(all, atomLin(k).plus(-l))
	}
	for k, u := range lc.upperAny {
		all = append(all, newLin(u).sub(atomLin(k)))
	}
	all = append(all, lc.strideFacts()...)
	return lc.search(g, all, 4)
}

func (lc *lenCtx) badComponent(r lin) (string, bool) {
	if r.c.Sign() < 0 {
		return "", true
	}
	var ks []string
	for k := range r.t {
		ks = append(ks, k)
	}
	sort.Strings(ks)
	for _, k := range ks {
		v := r.t[k]
		if v.Sign() < 0 || (v.Sign() > 0 && !lc.nonneg[k]) {
			return k, true
		}
	}
	return "", false
}

func comp(r lin, k string) *big.Rat {
	if k == "" {
		return r.c
	}
	if v, ok := r.t[k]; ok {
		return v
	}
	return new(big.Rat)
}

func (lc *lenCtx) search(r lin, facts []lin, depth int) bool {
	k, bad := lc.badComponent(r)
	if !bad {
		return true
	}
	if depth == 0 {
		return false
	}
	rk := comp(r, k)
	for _, f := range facts {
		fk := comp(f, k)
		if fk.Sign() == 0 || fk.Sign() != rk.Sign() {
			continue
		}
		// r' = r - λ f with λ = rk/fk > 0 zeroes the component
		lam := new(big.Rat).Quo(rk, fk)
		r2 := r.addScaled(f, new(big.Rat).Neg(lam))
		if lc.search(r2, facts, depth-1) {
			return true
		}
	}
	return false
}

// ---- bounds obligations ----

type boundsOp struct {
	f       *ssa.Function
	in      ssa.Instruction
	base    ssa.Value
	idx     ssa.Value // IndexAddr / Index
	lo, hi  ssa.Value // Slice
	isSlice bool
}

func (o boundsOp) desc() string {
	if o.isSlice {
		return fmt.Sprintf("%s[%s:%s]", descVal(o.base), descVal(o.lo), descVal(o.hi))
	}
	return fmt.Sprintf("%s[%s]", descVal(o.base), descVal(o.idx))
}

// goals of a bounds operation, as forms that must be ≥ 0.
func (lc *lenCtx) goals(o boundsOp) []lin {
	n := lc.lenOf(o.base)
	var gs []lin
	if !o.isSlice {
		i := lc.linOf(o.idx)
		gs = append(gs, n.sub(i).plus(-1)) // i ≤ len-1
		if _, uns, ok := intWidth(o.idx.Type()); !(ok && uns) {
			gs = append(gs, i) // i ≥ 0
		}
		return gs
	}
	lo := newLin(0)
	if o.lo != nil {
		lo = lc.linOf(o.lo)
		if _, uns, ok := intWidth(o.lo.Type()); !(ok && uns) {
			gs = append(gs, lo)
		}
	}
	if o.hi != nil {
		hi := lc.linOf(o.hi)
		gs = append(gs, n.sub(hi)) // hi ≤ len (≤ cap)
		gs = append(gs, hi.sub(lo))
	} else {
		gs = append(gs, n.sub(lo))
	}
	return gs
}

// rootParam: the slice parameter whose length atom appears in the base's length, if the base is a
// (sub-slice of a) parameter.
func rootParam(v ssa.Value) *ssa.Parameter {
	for i := 0; i < 32; i++ {
		switch x := v.(type) {
		case *ssa.Parameter:
			return x
		case *ssa.Slice:
			v = x.X
		case *ssa.Convert:
			v = x.X
		case *ssa.ChangeType:
			v = x.X
		default:
			return nil
		}
	}
	return nil
}

type lenEngine struct {
	ctxK map[string]*lenCtx
	iv   map[*ssa.Parameter][2]int64 // provided length interval of slice parameters (hi < 0: unbounded)
	p    *Program
	ctx  map[*ssa.Function]*lenCtx
	reqs map[*ssa.Parameter]int64 // minimal length required of a slice parameter
	why  map[*ssa.Parameter]string
}

func newLenEngine(p *Program) *lenEngine {
	return &lenEngine{ctxK: map[string]*lenCtx{}, iv: map[*ssa.Parameter][2]int64{}, p: p, ctx: map[*ssa.Function]*lenCtx{}, reqs: map[*ssa.Parameter]int64{}, why: map[*ssa.Parameter]string{}}
}

// ctxWith: a context of f in which some integer parameters are bound to constants.
func (e *lenEngine) ctxWith(f *ssa.Function, conds []intCond) *lenCtx {
	var mine []intCond
	for _, cd := range conds {
		if cd.par.Parent() == f {
			mine = append(mine, cd)
		}
	}
	if len(mine) == 0 {
		return e.ctxOf(f)
	}
	key := fmt.Sprintf("%p", f)
	for _, cd := range mine {
		key += fmt.Sprintf("|%p=%d", cd.par, cd.val)
	}
	if c, ok := e.ctxK[key]; ok {
		return c
	}
	c := newLenCtx(e.p, f)
	c.paramConst = map[*ssa.Parameter]int64{}
	for _, cd := range mine {
		c.paramConst[cd.par] = cd.val
	}
	e.ctxK[key] = c
	return c
}

func (e *lenEngine) ctxOf(f *ssa.Function) *lenCtx {
	if c, ok := e.ctx[f]; ok {
		return c
	}
	c := newLenCtx(e.p, f)
	e.ctx[f] = c
	return c
}

// decide one operation: proven locally ("local"), proven under a length requirement on a parameter
// ("requires", param, K), or undecided.
// intCond: an integer parameter equals a constant (from a dominating comparison, e.g. a switch arm).
type intCond struct {
	par *ssa.Parameter
	val int64
}

// condsAt: equalities "integer parameter == constant" that dominate the instruction.
func (lc *lenCtx) condsAt(at ssa.Instruction) []intCond {
	var out []intCond
	for b := at.Block(); b != nil; b = b.Idom() {
		d := b.Idom()
		if d == nil {
			break
		}
		ifi, ok := d.Instrs[len(d.Instrs)-1].(*ssa.If)
		if !ok || len(b.Preds) != 1 {
			continue
		}
		bo, ok := ifi.Cond.(*ssa.BinOp)
		if !ok {
			continue
		}
		eqEdge := (bo.Op == token.EQL && d.Succs[0] == b) || (bo.Op == token.NEQ && d.Succs[1] == b)
		if !eqEdge {
			continue
		}
		for _, pr := range [][2]ssa.Value{{bo.X, bo.Y}, {bo.Y, bo.X}} {
			par, ok1 := pr[0].(*ssa.Parameter)
			k, ok2 := pr[1].(*ssa.Const)
			if ok1 && ok2 && k.Value != nil && k.Value.Kind() == constant.Int {
				if n, ok := constant.Int64Val(k.Value); ok {
					out = append(out, intCond{par, n})
				}
			}
		}
	}
	return out
}

func (e *lenEngine) decide(o boundsOp) (verdict string, par *ssa.Parameter, k int64, detail string) {
	lc := e.ctxOf(o.f)
	facts := append(lc.factsAt(o.in), e.paramFacts(o.f)...)
	goals := lc.goals(o)
	if lc.prove(newLin(-1), facts) {
		return "local", nil, 0, "unreachable: the dominating conditions contradict the lengths provided by the callers"
	}
	allOK := true
	var failing []lin
	for _, g := range goals {
		if !lc.prove(g, facts) {
			allOK = false
			failing = append(failing, g)
		}
	}
	if allOK {
		return "local", nil, 0, fmt.Sprintf("%d goal(s) from %d fact(s)", len(goals), len(facts))
	}
	// try a constant length requirement on the root parameter of the base
	rp := rootParam(o.base)
	if rp != nil {
		if _, ok := rp.Type().Underlying().(*types.Slice); ok || isStringType(rp.Type()) {
			la := lc.lenOf(rp)
			try := func(K int64) bool {
				fs := append(append([]lin(nil), facts...), la.plus(-K))
				for _, g := range failing {
					if !lc.prove(g, fs) {
						return false
					}
				}
				return true
			}
			const maxK = 1 << 20
			if try(maxK) {
				lo, hi := int64(0), int64(maxK)
				for lo < hi {
					mid := (lo + hi) / 2
					if try(mid) {
						hi = mid
					} else {
						lo = mid + 1
					}
				}
				return "requires", rp, lo, fmt.Sprintf("needs len(%s) ≥ %d", paramDesc(rp), lo)
			}
		}
	}
	var gs []string
	for _, g := range failing {
		gs = append(gs, g.String()+" ≥ 0")
	}
	return "undecided", nil, 0, "cannot prove " + strings.Join(gs, " and ")
}

func sizeLike(n string) bool {
	return strings.HasSuffix(n, "Size") || strings.HasSuffix(n, "Length") || strings.HasSuffix(n, "Len") || strings.Contains(n, "sizeDH") || strings.HasSuffix(n, "BitLen") || strings.HasSuffix(n, "byteSize")
}

// getter: a call of an argument-less size accessor. Two calls of the same accessor on the same
// receiver denote the same (non-negative) atom; a circl accessor whose body is a sum of other
// accessors on fields of its receiver is expanded.
func (lc *lenCtx) getter(x *ssa.Call) (lin, bool) {
	c := &x.Call
	name := lc.p.staticCalleeName(c)
	if !sizeLike(name) {
		return lin{}, false
	}
	if _, _, ok := intWidth(x.Type()); !ok {
		return lin{}, false
	}
	var recv ssa.Value
	switch {
	case c.IsInvoke() && len(c.Args) == 0:
		recv = c.Value
	case !c.IsInvoke() && len(c.Args) == 1 && c.StaticCallee() != nil && c.StaticCallee().Signature.Recv() != nil:
		recv = c.Args[0]
	case !c.IsInvoke() && len(c.Args) == 0:
		recv = nil
	default:
		return lin{}, false
	}
	rd := ""
	if recv != nil {
		rd = strings.TrimPrefix(descVal(recv), "&")
		if strings.Contains(rd, "?") || strings.Contains(rd, "phi(") {
			return lin{}, false
		}
	}
	// expansion of simple circl accessors
	if cal := c.StaticCallee(); cal != nil && inlinable(cal) && len(cal.Blocks) == 1 && lc.inlineDepth < 3 {
		if ret, ok := cal.Blocks[0].Instrs[len(cal.Blocks[0].Instrs)-1].(*ssa.Return); ok && len(ret.Results) == 1 {
			sub := newLenCtx(lc.p, cal)
			sub.inlineDepth = lc.inlineDepth + 1
			sub.recvDesc = rd
			r := sub.linOf(ret.Results[0])
			// only accept expansions made of constants and accessor atoms
			okAll := true
			for k := range r.t {
				if !strings.HasPrefix(k, "size:") {
					okAll = false
				}
			}
			if okAll {
				for k := range r.t {
					lc.nonneg[k] = true
				}
				return r, true
			}
		}
	}
	if lc.recvDesc != "" && strings.HasPrefix(rd, "param#0") {
		rd = lc.recvDesc + strings.TrimPrefix(rd, "param#0")
	}
	key := "size:" + name + "(" + rd + ")"
	lc.nonneg[key] = true
	if cal := c.StaticCallee(); cal != nil && inlinable(cal) {
		// all returns constant: the accessor ranges over a finite set
		r := runGuard(&GuardQuery{P: lc.p, Root: cal, MaxDepth: 2})
		lo, hi := int64(-1), int64(-1)
		okc := len(r.Returns) > 0
		for _, ri := range r.Returns {
			if len(ri.Vals) != 1 || ri.Vals[0].k != kConst || ri.Vals[0].c.Kind() != constant.Int {
				okc = false
				break
			}
			n, _ := constant.Int64Val(ri.Vals[0].c)
			if lo < 0 || n < lo {
				lo = n
			}
			if n > hi {
				hi = n
			}
		}
		if okc && lo >= 0 {
			lc.upper[key] = hi
			lc.lowerC[key] = lo
		}
	}
	return atomLin(key), true
}

func sliceLike(t types.Type) bool {
	if _, ok := t.Underlying().(*types.Slice); ok {
		return true
	}
	return isStringType(t)
}

// paramFacts: the length intervals the callers provide for f's slice parameters.
func (e *lenEngine) paramFacts(f *ssa.Function) []lin { return e.paramFactsIn(e.ctxOf(f), f) }

func (e *lenEngine) paramFactsIn(lc *lenCtx, f *ssa.Function) []lin {
	var out []lin
	for _, par := range f.Params {
		iv, ok := e.iv[par]
		if !ok || !sliceLike(par.Type()) {
			continue
		}
		l := lc.lenOf(par)
		if iv[0] > 0 {
			out = append(out, l.plus(-iv[0]))
		}
		if iv[1] >= 0 {
			out = append(out, newLin(iv[1]).sub(l))
		}
	}
	return out
}

// bounds of a length form at a call site: the largest K with form ≥ K and the smallest K with form ≤ K provable.
func (e *lenEngine) boundsAt(lc *lenCtx, form lin, facts []lin) (lo, hi int64) {
	const maxK = int64(1) << 24
	lo, hi = 0, -1
	if !lc.prove(form, facts) {
		return 0, -1
	}
	// largest K with form - K ≥ 0
	a, b := int64(0), maxK
	for a < b {
		mid := (a + b + 1) / 2
		if lc.prove(form.plus(-mid), facts) {
			a = mid
		} else {
			b = mid - 1
		}
	}
	lo = a
	if lc.prove(newLin(maxK).sub(form), facts) {
		a, b = lo, maxK
		for a < b {
			mid := (a + b) / 2
			if lc.prove(newLin(mid).sub(form), facts) {
				b = mid
			} else {
				a = mid + 1
			}
		}
		hi = a
	}
	return lo, hi
}

// intervals computes, top-down from the decoding entry points, the length interval every tainted
// call site provides for each slice parameter of each tainted-reachable function.
func (e *lenEngine) intervals(t *taint, entries []*ssa.Function) {
	isEntry := map[*ssa.Function]bool{}
	for _, f := range entries {
		isEntry[f] = true
		for _, par := range f.Params {
			if sliceLike(par.Type()) {
				e.iv[par] = [2]int64{0, -1}
			}
		}
	}
	cg := e.p.CallGraph()
	var funcs []*ssa.Function
	for f := range t.funcs {
		funcs = append(funcs, f)
	}
	sort.Slice(funcs, func(i, j int) bool { return funcs[i].String() < funcs[j].String() })
	for round := 0; round < 6; round++ {
		changed := false
		for _, callee := range funcs {
			if isEntry[callee] {
				continue
			}
			node := cg.Nodes[callee]
			if node == nil {
				continue
			}
			for pi, par := range callee.Params {
				if !sliceLike(par.Type()) {
					continue
				}
				have := false
				var lo, hi int64
				for _, edge := range node.In {
					caller := edge.Caller.Func
					if !t.funcs[caller] || edge.Site == nil || caller == callee {
						continue
					}
					c0 := edge.Site.Common()
					var args []ssa.Value
					if c0.IsInvoke() {
						args = append(args, c0.Value)
					}
					args = append(args, c0.Args...)
					if len(args) != len(callee.Params) {
						continue
					}
					lc := e.ctxOf(caller)
					facts := append(lc.factsAt(edge.Site), e.paramFacts(caller)...)
					l, h := e.boundsAt(lc, lc.lenOf(args[pi]), facts)
					if !have {
						lo, hi, have = l, h, true
					} else {
						if l < lo {
							lo = l
						}
						if h < 0 || (hi >= 0 && h > hi) {
							hi = h
						}
					}
				}
				if !have {
					continue
				}
				if old, ok := e.iv[par]; !ok || old != [2]int64{lo, hi} {
					e.iv[par] = [2]int64{lo, hi}
					changed = true
				}
			}
		}
		if !changed {
			break
		}
	}
}

// strideFacts: two induction variables of one loop header with constant initial values and constant
// steps advance in lock step: (a - a0)·sb == (b - b0)·sa.
func (lc *lenCtx) strideFacts() []lin {
	if lc.stridesDone {
		return lc.strides
	}
	lc.stridesDone = true
	type ind struct {
		phi        *ssa.Phi
		init, step int64
	}
	for _, b := range lc.f.Blocks {
		var inds []ind
		for _, in := range b.Instrs {
			ph, ok := in.(*ssa.Phi)
			if !ok {
				break
			}
			if _, _, ok := intWidth(ph.Type()); !ok || len(ph.Edges) != 2 {
				continue
			}
			var init, step *int64
			for _, e := range ph.Edges {
				if k, ok := e.(*ssa.Const); ok && k.Value != nil {
					if n, ok := constant.Int64Val(k.Value); ok {
						nn := n
						init = &nn
					}
				} else if bo, ok := e.(*ssa.BinOp); ok && bo.Op == token.ADD && bo.X == ssa.Value(ph) {
					if k, ok := bo.Y.(*ssa.Const); ok && k.Value != nil {
						if n, ok := constant.Int64Val(k.Value); ok && n > 0 {
							// the increment must be in the loop latch executed once per iteration: same block as the other's
							nn := n
							step = &nn
						}
					}
				}
			}
			if init != nil && step != nil {
				inds = append(inds, ind{ph, *init, *step})
			}
		}
		for i := 0; i < len(inds); i++ {
			for j := i + 1; j < len(inds); j++ {
				a, bb := inds[i], inds[j]
				// both increments must sit in the same block (one per iteration each)
				ba := incBlock(a.phi)
				if ba == nil || ba != incBlock(bb.phi) {
					continue
				}
				la, lb := lc.linOf(a.phi), lc.linOf(bb.phi)
				// (la - a0)*sb - (lb - b0)*sa == 0
				f := newLin(0).addScaled(la.plus(-a.init), big.NewRat(bb.step, 1)).addScaled(lb.plus(-bb.init), big.NewRat(-a.step, 1))
				lc.strides = append(lc.strides, f, newLin(0).sub(f))
			}
		}
	}
	return lc.strides
}

func incBlock(ph *ssa.Phi) *ssa.BasicBlock {
	for _, e := range ph.Edges {
		if bo, ok := e.(*ssa.BinOp); ok && bo.X == ssa.Value(ph) {
			return bo.Block()
		}
	}
	return nil
}

// constCall: a circl function applied to integer constants only, evaluated by constant propagation.
func (lc *lenCtx) constCall(x *ssa.Call) (lin, bool) {
	cal := x.Call.StaticCallee()
	if cal == nil || !inlinable(cal) || len(x.Call.Args) == 0 || cal.Signature.Results().Len() != 1 {
		return lin{}, false
	}
	if _, _, ok := intWidth(x.Type()); !ok {
		return lin{}, false
	}
	args := make([]lat, len(x.Call.Args))
	for i, a := range x.Call.Args {
		if par, ok := a.(*ssa.Parameter); ok {
			if n, ok := lc.paramConst[par]; ok {
				args[i] = latInt(n)
				continue
			}
		}
		k, ok := a.(*ssa.Const)
		if !ok || k.Value == nil || k.Value.Kind() != constant.Int {
			return lin{}, false
		}
		args[i] = lat{k: kConst, c: k.Value}
	}
	r := runGuard(&GuardQuery{P: lc.p, Root: cal, Args: args, MaxDepth: 3})
	var val *int64
	for _, ri := range r.Returns {
		if len(ri.Vals) != 1 || ri.Vals[0].k != kConst || ri.Vals[0].c.Kind() != constant.Int {
			return lin{}, false
		}
		n, ok := constant.Int64Val(ri.Vals[0].c)
		if !ok || (val != nil && *val != n) {
			return lin{}, false
		}
		val = &n
	}
	if val == nil {
		return lin{}, false
	}
	return newLin(*val), true
}

// forwarded: the value stored by the single store to the same field address that dominates the load
// (no other store to that location in the function).
func (lc *lenCtx) forwarded(load *ssa.UnOp) ssa.Value {
	fa, ok := load.X.(*ssa.FieldAddr)
	if !ok {
		return nil
	}
	key := descAddr(fa)
	if strings.Contains(key, "?") || strings.Contains(key, "phi(") {
		return nil
	}
	var only *ssa.Store
	n := 0
	for _, b := range lc.f.Blocks {
		for _, in := range b.Instrs {
			st, ok := in.(*ssa.Store)
			if !ok {
				continue
			}
			if f2, ok := st.Addr.(*ssa.FieldAddr); ok && f2.Field == fa.Field && descAddr(f2) == key {
				n++
				only = st
			}
		}
	}
	if n == 1 && instrDominates(only, load) {
		return only.Val
	}
	return nil
}
