package main

// C12 (field arithmetic equals integer arithmetic mod p) and C13 (group law, scalar multiplication,
// pairings): the numerical statements quantify over runtime values and are not decidable from the
// shape of the code. Decided here are structural necessary conditions only: canonicalising
// operations reduce before they export or compare, reduction constants satisfy their defining
// congruences, the moduli are the specified primes, hash-to-curve pipelines clear the cofactor and
// keep the exceptional-case selections of RFC 9380, projective-to-affine conversions guard the
// zero z coordinate.

import (
	"fmt"
	"go/constant"
	"go/token"
	"go/types"
	"math/big"
	"strings"

	"golang.org/x/tools/go/ssa"
)

func init() {
	registry["C12"] = checkC12
	registry["C13"] = checkC13
}

// canonInst: in function (pkg, recv, name) a call of one of the reducers must precede, on every
// path, each instruction of the sink kind.
type canonInst struct {
	pkg, recv, name string
	reducers        []string // normalised callee names
	sink            string   // "copy" | "cmp" | "return" | "call:<callee>"
}

func sinkPred(p *Program, kind string) (string, func(ssa.Instruction) bool) {
	switch {
	case kind == "copy":
		return "copy of the element's bytes", func(in ssa.Instruction) bool {
			c, ok := in.(*ssa.Call)
			if !ok {
				return false
			}
			b, ok := c.Call.Value.(*ssa.Builtin)
			return ok && b.Name() == "copy"
		}
	case kind == "cmp":
		return "comparison of the element with a constant", func(in ssa.Instruction) bool {
			b, ok := in.(*ssa.BinOp)
			if !ok || (b.Op != token.EQL && b.Op != token.NEQ) {
				return false
			}
			_, isArr := b.X.Type().Underlying().(*types.Array)
			return isArr
		}
	case kind == "return":
		return "return", func(in ssa.Instruction) bool { _, ok := in.(*ssa.Return); return ok }
	case strings.HasPrefix(kind, "call:"):
		want := strings.TrimPrefix(kind, "call:")
		return "call of " + want, func(in ssa.Instruction) bool {
			ci, ok := in.(ssa.CallInstruction)
			return ok && normName(p.staticCalleeName(ci.Common())) == want
		}
	}
	return kind, func(ssa.Instruction) bool { return false }
}

func (c *Ctx) canonRule(p *Program, rule string, in canonInst) {
	f := p.Func(in.pkg, in.recv, in.name)
	if f == nil && c.override != "" {
		// back-end specific code (e.g. the optimised P-384) does not exist in every configuration
		c.ok(rule, fmt.Sprintf("%s.%s.%s: reduces before the %s", in.pkg, in.recv, in.name, in.sink), "not part of this build configuration", "")
		return
	}
	set := map[string]bool{}
	for _, r := range in.reducers {
		set[r] = true
	}
	isA := func(i ssa.Instruction) bool {
		ci, ok := i.(ssa.CallInstruction)
		return ok && set[normName(p.staticCalleeName(ci.Common()))]
	}
	desc, isB := sinkPred(p, in.sink)
	c.orderRule(p, rule, "reduces before the "+desc, f, "call of "+strings.Join(in.reducers, " | "), isA, desc, isB)
}

// constOperand: the integer constants c such that the function multiplies by c (x * c).
func mulConstants(f *ssa.Function) []*big.Int {
	var out []*big.Int
	if f == nil {
		return nil
	}
	for _, b := range f.Blocks {
		for _, in := range b.Instrs {
			bo, ok := in.(*ssa.BinOp)
			if !ok || bo.Op != token.MUL {
				continue
			}
			for _, o := range []ssa.Value{bo.X, bo.Y} {
				if k, ok := o.(*ssa.Const); ok && k.Value != nil && k.Value.Kind() == constant.Int {
					if v, ok := new(big.Int).SetString(k.Value.ExactString(), 10); ok {
						out = append(out, v)
					}
				}
			}
		}
	}
	return out
}

func pow2(n uint) *big.Int { return new(big.Int).Lsh(big.NewInt(1), n) }

func checkC12(c *Ctx) {
	p := c.Prog("amd64")
	if p == nil {
		return
	}
	c.Clauses = append(c.Clauses,
		"C12.canon: the canonicalising operations of the fields with redundant representations (GF(2^255-19), GF(2^448-2^224-1), GF(2^127-1), the Goldilocks scalars) call the final reduction before they copy out, convert or compare the element; the big.Int based P-256/384/521 scalar operations store their result through the reducing setter; the Montgomery-form fields (BLS12-381 Fp and scalars, Prio3 Fp64/Fp128, P-384) leave Montgomery form before serialising",
		"C12.modulus: the stored moduli are the specified primes (2^255-19, 2^448-2^224-1, 2^127-1, the BLS12-381 base and scalar field orders)",
		"C12.redconst: the constants of the word-level reductions satisfy their defining congruences (Kyber: q·q' ≡ 1 mod 2^16 for the multiplier used by montReduce; Dilithium: q·Qinv ≡ -1 mod 2^32 and ROver256·256 ≡ 2^64 mod q)")
	c.NotDec = append(c.NotDec,
		"that any add/sub/mul/sqr/inv/sqrt returns the correct residue (carry chains, limb arithmetic, addition chains, assembly): these are value-level statements",
		"the exhaustive 16/32-bit reduction ranges of Kyber and Dilithium",
		"aliasing behaviour (z=x, z=y) of the arithmetic")
	const f25, f448 = "math/fp25519", "math/fp448"
	for _, in := range []canonInst{
		{f25, "", "ToBytes", []string{"math/fp25519.Modp", "math/fp25519.modp"}, "copy"},
		{f25, "", "IsZero", []string{"math/fp25519.Modp", "math/fp25519.modp"}, "cmp"},
		{f448, "", "ToBytes", []string{"math/fp448.Modp"}, "copy"},
		{f448, "", "IsZero", []string{"math/fp448.Modp"}, "cmp"},
		{f448, "", "IsOne", []string{"math/fp448.Modp"}, "cmp"},
		{"ecc/fourq", "Fp", "toBytes", []string{"ecc/fourq.fpMod"}, "copy"},
		{"ecc/fourq", "Fp", "isZero", []string{"ecc/fourq.fpMod"}, "cmp"},
		{"ecc/fourq", "Fp", "toBigInt", []string{"ecc/fourq.fpMod"}, "call:internal/conv.BytesLe2BigInt"},
		{"ecc/goldilocks", "Scalar", "IsZero", []string{"(ecc/goldilocks.Scalar).Red"}, "cmp"},
		{"ecc/bls12381/ff", "Fp", "MarshalBinary", []string{"(ecc/bls12381/ff.Fp).fromMont"}, "call:internal/conv.Uint64Le2BytesBe"},
		{"ecc/bls12381/ff", "Scalar", "MarshalBinary", []string{"(ecc/bls12381/ff.Scalar).fromMont"}, "call:internal/conv.Uint64Le2BytesBe"},
		{"ecc/bls12381/ff", "Fp", "Sgn0", []string{"(ecc/bls12381/ff.Fp).fromMont"}, "return"},
		{"vdaf/prio3/arith/fp64", "Fp", "Marshal", []string{"(vdaf/prio3/arith/fp64.Fp).fromMont"}, "call:(golang.org/x/crypto/cryptobyte.Builder).AddBytes"},
		{"vdaf/prio3/arith/fp128", "Fp", "Marshal", []string{"(vdaf/prio3/arith/fp128.Fp).fromMont"}, "call:(golang.org/x/crypto/cryptobyte.Builder).AddBytes"},
		{"vdaf/prio3/arith/fp64", "Fp", "GetUint64", []string{"(vdaf/prio3/arith/fp64.Fp).fromMont"}, "return"},
		{"ecc/p384", "affinePoint", "toInt", []string{"ecc/p384.montDecode"}, "return"},
		{"group", "wScl", "Add", []string{"(group.wScl).fromBig"}, "return"},
		{"group", "wScl", "Sub", []string{"(group.wScl).fromBig"}, "return"},
		{"group", "wScl", "Mul", []string{"(group.wScl).fromBig"}, "return"},
		{"group", "wScl", "Neg", []string{"(group.wScl).fromBig"}, "return"},
		{"group", "wScl", "Inv", []string{"(group.wScl).fromBig"}, "return"},
		{"group", "wScl", "fromBig", []string{"(math/big.Int).Mod"}, "call:(group.wScl).UnmarshalBinary"},
	} {
		c.canonRule(p, "C12.canon", in)
	}
	// moduli
	checkBLSFieldTables(c, p, "C12.modulus")
	// sign of an Fp2 element (lexicographic order, imaginary part first): the real part decides only when the
	// imaginary part is zero
	c.callArgRule(p, "C12.canon", "Fp2.IsNegative falls back to the real part exactly when the imaginary part is zero", p.Func("ecc/bls12381/ff", "Fp2", "IsNegative"), "(ecc/bls12381/ff.Fp).IsZero", "", map[int]string{0: `.*\[1\].*`})
	// a decimal string with a minus sign is not a residue in [0, p): big.Int.FillBytes drops the sign
	c.guard(p, "C12.canon", "a negative number is refused (its sign would be lost, -5 stored as 5)", p.Func("ecc/bls12381/ff", "", "setString"),
		GuardSpec{Assumes: []Assume{calleeAssume(latInt(-1), -1, "(*math/big.Int).Sign")}})
	c.tableVarInts(p, "C12.modulus", f25, "p", hexToLEBytes("7fffffffffffffffffffffffffffffffffffffffffffffffffffffffffffffed", 32))
	c.tableVarInts(p, "C12.modulus", f448, "p", hexToLEBytes("fffffffffffffffffffffffffffffffffffffffffffffffffffffffeffffffffffffffffffffffffffffffffffffffffffffffffffffffff", 56))
	c.tableVarInts(p, "C12.modulus", "ecc/fourq", "modulusP", hexToLEBytes("7fffffffffffffffffffffffffffffff", 16))
	// reduction constants
	{
		q, ok := p.constInt("pke/kyber/internal/common/params", "Q")
		f := p.Func("pke/kyber/internal/common", "", "montReduce")
		construct := "pke/kyber/internal/common.montReduce: multiplier is q⁻¹ mod 2^16"
		if !ok || f == nil {
			c.undecided("C12.redconst", construct, "Q or montReduce not found", "")
		} else {
			good := false
			var seen []string
			for _, k := range mulConstants(f) {
				seen = append(seen, k.String())
				t := new(big.Int).Mul(k, big.NewInt(q))
				if t.Mod(t, pow2(16)).Cmp(big.NewInt(1)) == 0 {
					good = true
				}
			}
			if good {
				c.ok("C12.redconst", construct, fmt.Sprintf("q=%d, multipliers %v", q, seen), p.fnPos(f))
			} else {
				c.bad("C12.redconst", construct, fmt.Sprintf("q=%d, no multiplier c with q·c ≡ 1 (mod 2^16) among %v", q, seen), p.fnPos(f))
			}
		}
	}
	{
		const dp = "sign/internal/dilithium/params"
		q, ok1 := p.constInt(dp, "Q")
		qinv, ok2 := p.constInt(dp, "Qinv")
		r256, ok3 := p.constInt(dp, "ROver256")
		if !ok1 || !ok2 || !ok3 {
			c.undecided("C12.redconst", "sign/internal/dilithium/params constants", "Q, Qinv or ROver256 not found", "")
		} else {
			t := new(big.Int).Mul(big.NewInt(q), big.NewInt(qinv))
			t.Mod(t, pow2(32))
			if t.Cmp(new(big.Int).Sub(pow2(32), big.NewInt(1))) == 0 {
				c.ok("C12.redconst", "dilithium Qinv = -(q⁻¹) mod 2^32", fmt.Sprintf("q=%d Qinv=%d", q, qinv), "")
			} else {
				c.bad("C12.redconst", "dilithium Qinv = -(q⁻¹) mod 2^32", fmt.Sprintf("q·Qinv mod 2^32 = %s", t), "")
			}
			a := new(big.Int).Mul(big.NewInt(r256), big.NewInt(256))
			a.Mod(a, big.NewInt(q))
			b := new(big.Int).Mod(pow2(64), big.NewInt(q))
			if a.Cmp(b) == 0 {
				c.ok("C12.redconst", "dilithium ROver256 = 256⁻¹·R² mod q", fmt.Sprintf("ROver256=%d", r256), "")
			} else {
				c.bad("C12.redconst", "dilithium ROver256 = 256⁻¹·R² mod q", fmt.Sprintf("256·ROver256 mod q = %s, 2^64 mod q = %s", a, b), "")
			}
		}
	}
}

// selectorsFrom counts, in f, the conditional-move calls whose selector (last argument) is computed
// (through arithmetic, conversions and phis only) from the result of a call whose name contains src.
func selectorsFrom(p *Program, f *ssa.Function, isCmov func(string) bool, src ...string) (n, total int) {
	var from func(v ssa.Value, depth int, seen map[ssa.Value]bool) bool
	from = func(v ssa.Value, depth int, seen map[ssa.Value]bool) bool {
		if depth > 12 || seen[v] {
			return false
		}
		seen[v] = true
		switch x := v.(type) {
		case *ssa.Call:
			name := p.staticCalleeName(&x.Call)
			for _, s := range src {
				if strings.Contains(name, s) {
					return true
				}
			}
			return false
		case *ssa.BinOp:
			return from(x.X, depth+1, seen) || from(x.Y, depth+1, seen)
		case *ssa.UnOp:
			if x.Op == token.MUL {
				return false
			}
			return from(x.X, depth+1, seen)
		case *ssa.Convert:
			return from(x.X, depth+1, seen)
		case *ssa.ChangeType:
			return from(x.X, depth+1, seen)
		case *ssa.Phi:
			for _, e := range x.Edges {
				if from(e, depth+1, seen) {
					return true
				}
			}
		}
		return false
	}
	for _, b := range f.Blocks {
		for _, in := range b.Instrs {
			call, ok := in.(*ssa.Call)
			if !ok || !isCmov(p.staticCalleeName(&call.Call)) || len(call.Call.Args) == 0 {
				continue
			}
			if _, isBasic := call.Call.Args[len(call.Call.Args)-1].Type().Underlying().(*types.Basic); !isBasic {
				continue
			}
			total++
			if from(call.Call.Args[len(call.Call.Args)-1], 0, map[ssa.Value]bool{}) {
				n++
			}
		}
	}
	return
}

func checkC13(c *Ctx) {
	p := c.Prog("amd64")
	if p == nil {
		return
	}
	c.Clauses = append(c.Clauses,
		"C13.cofactor: BLS12-381 hash-to-curve and encode-to-curve (G1, G2) run map → isogeny → cofactor clearing in that order on every path, and FourQ's variable-base multiplication clears the cofactor of its input first",
		"C13.sswu: each simplified-SWU implementation (G1 and G2 isogenous curves, the P-256/384/521 groups) keeps the three data-dependent selections of RFC 9380: the exceptional case (selector from a zero test), the square selection (selector from an equality test) and the sign correction (selector from sgn0)",
		"C13.zguard: in ecc/bls12381 every inversion of a z coordinate, and every multiplication of a z coordinate into a product that is inverted, is guarded by a zero test of z (the identity has z = 0)",
		"C13.incomplete-add: the incomplete Jacobian addition of the optimised P-384 (documented as unusable for doublings) is called only where the operands are distinct by construction (two listed call sites, with reasons) or under an equality test that diverts the doubling case",
		"C13.neg: the generic short-Weierstrass element negation reduces -y modulo p (the identity (0,0) must stay (0,0))")
	c.NotDec = append(c.NotDec,
		"correctness of the addition / doubling formulas, scalar recodings, table look-ups, Miller loop and final exponentiation: value-level",
		"bilinearity and non-degeneracy of the pairing",
		"completeness of the exceptional-case handling beyond the presence and provenance of the selections")
	isRet := func(in ssa.Instruction) bool { _, ok := in.(*ssa.Return); return ok }
	call := func(names ...string) func(ssa.Instruction) bool {
		set := map[string]bool{}
		for _, n := range names {
			set[n] = true
		}
		return func(in ssa.Instruction) bool {
			ci, ok := in.(ssa.CallInstruction)
			return ok && set[normName(p.staticCalleeName(ci.Common()))]
		}
	}
	const bp = "ecc/bls12381"
	for _, g := range []struct{ typ, isog, sswuT string }{{"G1", "evalIsogG1", "isogG1Point"}, {"G2", "evalIsogG2", "isogG2Point"}} {
		for _, m := range []string{"Hash", "Encode"} {
			f := p.Func(bp, g.typ, m)
			clr := "(" + bp + "." + g.typ + ").clearCofactor"
			iso := "(" + bp + "." + g.typ + ")." + g.isog
			sw := "(" + bp + "." + g.sswuT + ").sswu"
			c.orderRule(p, "C13.cofactor", "cofactor clearing precedes every return", f, "call of clearCofactor", call(clr), "return", isRet)
			c.orderRule(p, "C13.cofactor", "the isogeny precedes the cofactor clearing", f, "call of "+g.isog, call(iso), "call of clearCofactor", call(clr))
			c.orderRule(p, "C13.cofactor", "the SSWU map precedes the isogeny", f, "call of sswu", call(sw), "call of "+g.isog, call(iso))
		}
	}
	c.orderRule(p, "C13.cofactor", "cofactor clearing precedes the multiplication", p.Func("ecc/fourq", "Point", "ScalarMult"), "call of pointR1.ClearCofactor", call("(ecc/fourq.pointR1).ClearCofactor"), "call of pointR1.ScalarMult", call("(ecc/fourq.pointR1).ScalarMult"))
	// ... exactly once: k·(392·Q), not 392·k·(392·Q) (clearing is not idempotent)
	c.reachCountRule(p, "C13.cofactor", "the variable-base multiplication clears the cofactor exactly once", p.Func("ecc/fourq", "Point", "ScalarMult"),
		map[string]int{"(*ecc/fourq.pointR1).ClearCofactor": 1})
	// ... and the fixed-base multiplication does not: k·G for the generator, not 392·k·G
	c.reachCountRule(p, "C13.cofactor", "the fixed-base multiplication returns k·G (no cofactor clearing on the way)", p.Func("ecc/fourq", "Point", "ScalarBaseMult"),
		map[string]int{"(*ecc/fourq.pointR1).ClearCofactor": 0})
	// SSWU selections
	for _, s := range []struct {
		pkg, recv, name string
		cmov            func(string) bool
		zero, eq, sgn   []string
	}{
		{bp, "isogG1Point", "sswu", func(n string) bool { return strings.HasSuffix(n, ".CMov") }, []string{"IsZero"}, []string{"IsEqual"}, []string{"Sgn0"}},
		{bp, "isogG2Point", "sswu", func(n string) bool { return strings.HasSuffix(n, ".CMov") }, []string{"IsZero"}, []string{"IsEqual", "IsSquare", "Sqrt"}, []string{"Sgn0"}},
		{"group", "wG", "sswu3mod4Map", func(n string) bool { return strings.Contains(n, "sswu3mod4Map$") }, []string{"math/big.Int).Sign"}, []string{"math/big.Int).Cmp"}, []string{"sswu3mod4Map$"}},
	} {
		f := p.Func(s.pkg, s.recv, s.name)
		if f == nil {
			c.undecided("C13.sswu", s.pkg+"."+s.name, "function not found", "")
			continue
		}
		for _, k := range []struct {
			what string
			src  []string
		}{{"exceptional case (selector from a zero test)", s.zero}, {"square selection (selector from an equality / square test)", s.eq}, {"sign correction (selector from sgn0)", s.sgn}} {
			n, total := selectorsFrom(p, f, s.cmov, k.src...)
			construct := fname(f) + ": " + k.what
			if n > 0 {
				c.ok("C13.sswu", construct, fmt.Sprintf("%d of %d conditional moves", n, total), p.fnPos(f))
			} else {
				c.bad("C13.sswu", construct, fmt.Sprintf("none of the %d conditional moves is selected by %v", total, k.src), p.fnPos(f))
			}
		}
	}
	// zero-z guards in ecc/bls12381
	{
		nfun := 0
		for fn := range p.AllFuncs {
			if fn.Blocks == nil || funcPkgPath(fn) != circlPath+"/"+bp {
				continue
			}
			hasInv := false
			var uses []ssa.Instruction
			isZ := func(v ssa.Value) bool {
				if u, ok := v.(*ssa.UnOp); ok && u.Op == token.MUL {
					v = u.X
				}
				fa, ok := v.(*ssa.FieldAddr)
				return ok && fieldName(fa) == "z"
			}
			for _, b := range fn.Blocks {
				for _, in := range b.Instrs {
					call, ok := in.(*ssa.Call)
					if !ok {
						continue
					}
					n := normName(p.staticCalleeName(&call.Call))
					if !strings.HasPrefix(n, "(ecc/bls12381/ff.") {
						continue
					}
					isInv := strings.HasSuffix(n, ").Inv")
					if isInv {
						hasInv = true
					}
					if !isInv && !strings.HasSuffix(n, ").Mul") {
						continue
					}
					for i, a := range call.Call.Args {
						if i > 0 && isZ(a) { // a source operand, not the destination
							uses = append(uses, in)
						}
					}
				}
			}
			if !hasInv || len(uses) == 0 {
				continue
			}
			nfun++
			// blocks guarded by a zero test of a z coordinate
			guarded := func(in ssa.Instruction) bool {
				for b := in.Block(); b != nil && b.Idom() != nil; b = b.Idom() {
					d := b.Idom()
					ifi, ok := d.Instrs[len(d.Instrs)-1].(*ssa.If)
					if !ok {
						continue
					}
					bo, ok := ifi.Cond.(*ssa.BinOp)
					if !ok {
						continue
					}
					for _, o := range []ssa.Value{bo.X, bo.Y} {
						if cl, ok := o.(*ssa.Call); ok && strings.HasSuffix(p.staticCalleeName(&cl.Call), ".IsZero") && len(cl.Call.Args) > 0 && isZ(cl.Call.Args[0]) {
							return true
						}
					}
				}
				return false
			}
			var bad []string
			for _, u := range uses {
				if !guarded(u) {
					bad = append(bad, p.pos(u.Pos()))
				}
			}
			construct := fname(fn) + ": z is tested for zero before it is inverted"
			if len(bad) > 0 {
				c.bad("C13.zguard", construct, "z enters an inversion without a dominating IsZero test at "+strings.Join(bad, ", "), p.fnPos(fn))
			} else {
				c.ok("C13.zguard", construct, fmt.Sprintf("%d use(s) of z under a zero test", len(uses)), p.fnPos(fn))
			}
		}
		if nfun < 3 {
			c.undecided("C13.zguard", "projective-to-affine conversions of ecc/bls12381", fmt.Sprintf("only %d functions found (floor 3)", nfun), "")
		}
	}
	// who may call the incomplete Jacobian addition of P-384: jacobianPoint.add is documented (and
	// pinned by the repository's tests) as unusable for doublings, so each call site must either be
	// one whose operands are distinct by construction, or be guarded by an equality test
	{
		allowed := map[string]string{
			"(ecc/p384.affinePoint).oddMultiples": "adds 2P to (2i-1)P: distinct for a point of prime order",
			"(ecc/p384.curve).scalarMultOmega":    "regular odd signed-digit recoding keeps the accumulator a strict multiple larger than the table entry; the last iteration uses the complete formula",
		}
		add := p.Func("ecc/p384", "jacobianPoint", "add")
		switch {
		case add == nil && c.override != "":
			c.ok("C13.incomplete-add", "call sites of ecc/p384 jacobianPoint.add", "not part of this build configuration", "")
		case add == nil:
			c.undecided("C13.incomplete-add", "call sites of ecc/p384 jacobianPoint.add", "function not found", "")
		default:
			n := 0
			if node := p.CallGraph().Nodes[add]; node != nil {
				seen := map[ssa.Instruction]bool{}
				for _, e := range node.In {
					caller := e.Caller.Func
					if e.Site == nil || seen[e.Site] || caller == nil || !isCirclFunc(caller) {
						continue
					}
					seen[e.Site] = true
					n++
					construct := fmt.Sprintf("%s calls jacobianPoint.add", fname(caller))
					if why, ok := allowed[fname(caller)]; ok {
						c.ok("C13.incomplete-add", construct, "operands distinct by construction: "+why, p.pos(e.Site.Pos()))
						continue
					}
					// diverted: the caller tests the operands for equality, the equal branch doubles instead,
					// and the incomplete addition is not on the equal branch
					guarded := false
					var walk func(v ssa.Value, depth int) bool
					walk = func(v ssa.Value, depth int) bool {
						if depth > 6 {
							return false
						}
						switch x := v.(type) {
						case *ssa.Call:
							return strings.Contains(strings.ToLower(p.staticCalleeName(&x.Call)), "isequal")
						case *ssa.UnOp:
							return walk(x.X, depth+1)
						case *ssa.BinOp:
							return walk(x.X, depth+1) || walk(x.Y, depth+1)
						}
						return false
					}
					for _, b := range caller.Blocks {
						ifi, ok := b.Instrs[len(b.Instrs)-1].(*ssa.If)
						if !ok || !walk(ifi.Cond, 0) {
							continue
						}
						eq := b.Succs[0]
						if u, isU := ifi.Cond.(*ssa.UnOp); isU && u.Op == token.NOT {
							eq = b.Succs[1]
						}
						doubles := false
						for _, in := range eq.Instrs {
							if ci, ok := in.(ssa.CallInstruction); ok && strings.HasSuffix(p.staticCalleeName(ci.Common()), ").double") {
								doubles = true
							}
						}
						if doubles && len(eq.Preds) == 1 && !eq.Dominates(e.Site.Block()) {
							for _, sc := range b.Succs {
								if sc != eq && (sc == e.Site.Block() || sc.Dominates(e.Site.Block())) {
									guarded = true
								}
							}
						}
					}
					if guarded {
						c.ok("C13.incomplete-add", construct, "under an equality test of the operands (the equal case is diverted)", p.pos(e.Site.Pos()))
					} else {
						c.bad("C13.incomplete-add", construct, "the incomplete addition is called with operands that may coincide and there is no equality test diverting the doubling case", p.pos(e.Site.Pos()))
					}
				}
			}
			if n < 3 {
				c.undecided("C13.incomplete-add", "call sites of ecc/p384 jacobianPoint.add", fmt.Sprintf("only %d call sites found (floor 3)", n), "")
			}
		}
	}
	// negation reduces
	c.orderRule(p, "C13.neg", "-y is reduced modulo p before returning", p.Func("group", "wElt", "Neg"), "call of big.Int.Mod", call("(math/big.Int).Mod"), "return", isRet)
}
