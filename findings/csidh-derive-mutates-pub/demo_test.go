package csidh_test

// Demonstration (C11): csidh.DeriveSecret ran the group action in place on the caller's public key,
// so after the call the peer's public key held the shared secret and a second derivation with the
// same arguments gave a different result.
//
// Copy to dh/csidh/ and run: go test -run TestDemoDeriveSecretKeepsPub ./dh/csidh/

import (
	"bytes"
	"crypto/rand"
	"testing"

	"github.com/cloudflare/circl/dh/csidh"
)

func TestDemoDeriveSecretKeepsPub(t *testing.T) {
	var prvA, prvB csidh.PrivateKey
	var pubB csidh.PublicKey
	if err := csidh.GeneratePrivateKey(&prvA, rand.Reader); err != nil {
		t.Fatal(err)
	}
	if err := csidh.GeneratePrivateKey(&prvB, rand.Reader); err != nil {
		t.Fatal(err)
	}
	csidh.GeneratePublicKey(&pubB, &prvB, rand.Reader)
	var before, after [64]byte
	pubB.Export(before[:])
	var s1, s2 [64]byte
	if !csidh.DeriveSecret(&s1, &pubB, &prvA, rand.Reader) {
		t.Fatal("derivation failed")
	}
	pubB.Export(after[:])
	if !bytes.Equal(before[:], after[:]) {
		t.Error("DeriveSecret overwrote the peer's public key")
	}
	if !csidh.DeriveSecret(&s2, &pubB, &prvA, rand.Reader) {
		t.Fatal("second derivation failed")
	}
	if !bytes.Equal(s1[:], s2[:]) {
		t.Error("two derivations with the same arguments differ")
	}
}
