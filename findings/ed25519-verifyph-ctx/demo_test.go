package ed25519

// Demonstrates: VerifyPh accepts a context longer than 255 bytes (RFC 8032 forbids it; SignPh
// refuses it by panicking). In-package test (uses signAll to produce the signature).
// Place in /repo/sign/ed25519: go test -run TestFindingVerifyPhCtx ./sign/ed25519/

import (
	"strings"
	"testing"
)

func TestFindingVerifyPhCtx(t *testing.T) {
	seed := make([]byte, SeedSize)
	sk := NewKeyFromSeed(seed)
	pk := sk.Public().(PublicKey)
	msg := []byte("m")
	long := strings.Repeat("a", 300)
	sig := make([]byte, SignatureSize)
	signAll(sig, sk, msg, []byte(long), true)
	if VerifyPh(pk, msg, sig, long) {
		t.Errorf("VerifyPh accepted a 300-byte context")
	}
}
