package main

// TABLE engine: values of package-level constants and variable initialisers,
// read from the type-checked syntax (never from text positions).

import (
	"fmt"
	"go/ast"
	"go/constant"
	"go/types"
	"strings"
)

// constOf returns the value of package-level constant pkg.name.
func (p *Program) constOf(pkg, name string) (constant.Value, bool) {
	pk := p.ByPath[circlPath+"/"+pkg]
	if pk == nil {
		return nil, false
	}
	c, ok := pk.Types.Scope().Lookup(name).(*types.Const)
	if !ok {
		return nil, false
	}
	return c.Val(), true
}

func (p *Program) constInt(pkg, name string) (int64, bool) {
	v, ok := p.constOf(pkg, name)
	if !ok || v.Kind() != constant.Int {
		return 0, false
	}
	return constant.Int64Val(v)
}

// varInit returns the initialiser expression of package-level variable pkg.name.
func (p *Program) varInit(pkg, name string) (ast.Expr, *types.Info) {
	pk := p.ByPath[circlPath+"/"+pkg]
	if pk == nil {
		return nil, nil
	}
	for _, f := range pk.Syntax {
		for _, d := range f.Decls {
			gd, ok := d.(*ast.GenDecl)
			if !ok {
				continue
			}
			for _, sp := range gd.Specs {
				vs, ok := sp.(*ast.ValueSpec)
				if !ok {
					continue
				}
				for i, n := range vs.Names {
					if n.Name == name && i < len(vs.Values) {
						if pk.TypesInfo.Defs[n] != nil && pk.TypesInfo.Defs[n].Parent() == pk.Types.Scope() {
							return vs.Values[i], pk.TypesInfo
						}
					}
				}
			}
		}
	}
	return nil, nil
}

// evalLit evaluates a (nested) composite literal of constants into nested
// []interface{} / constant.Value; keyed elements of arrays are honoured.
func evalLit(e ast.Expr, info *types.Info) (interface{}, error) {
	if tv, ok := info.Types[e]; ok && tv.Value != nil {
		return tv.Value, nil
	}
	switch x := e.(type) {
	case *ast.ParenExpr:
		return evalLit(x.X, info)
	case *ast.UnaryExpr:
		return evalLit(x.X, info)
	case *ast.CompositeLit:
		var out []interface{}
		idx := 0
		for _, el := range x.Elts {
			if kv, ok := el.(*ast.KeyValueExpr); ok {
				if tv, ok := info.Types[kv.Key]; ok && tv.Value != nil && tv.Value.Kind() == constant.Int {
					k, _ := constant.Int64Val(tv.Value)
					idx = int(k)
				}
				el = kv.Value
			}
			v, err := evalLit(el, info)
			if err != nil {
				return nil, err
			}
			for len(out) <= idx {
				out = append(out, nil)
			}
			out[idx] = v
			idx++
		}
		if t, ok := info.Types[e]; ok {
			if at, ok := t.Type.Underlying().(*types.Array); ok {
				for int64(len(out)) < at.Len() {
					out = append(out, nil)
				}
			}
		}
		return out, nil
	case *ast.CallExpr: // conversion T(x)
		if len(x.Args) == 1 {
			return evalLit(x.Args[0], info)
		}
	}
	return nil, fmt.Errorf("not a constant literal: %T", e)
}

// flatHex renders nested integer literals as a flat little-endian-as-written hex string of
// fixed-width elements (width bytes each; width 1 for byte arrays, 8 for uint64 limbs).
func flatInts(v interface{}) ([]string, bool) {
	switch x := v.(type) {
	case constant.Value:
		if x.Kind() == constant.Int {
			return []string{x.ExactString()}, true
		}
		if x.Kind() == constant.String {
			return []string{x.ExactString()}, true
		}
		return nil, false
	case []interface{}:
		var out []string
		for _, e := range x {
			if e == nil {
				out = append(out, "0")
				continue
			}
			s, ok := flatInts(e)
			if !ok {
				return nil, false
			}
			out = append(out, s...)
		}
		return out, true
	case nil:
		return []string{"0"}, true
	}
	return nil, false
}

// varInts evaluates variable pkg.name's literal initialiser to a flat list of integers (as decimal strings).
func (p *Program) varInts(pkg, name string) ([]string, error) {
	e, info := p.varInit(pkg, name)
	if e == nil {
		return nil, fmt.Errorf("variable %s.%s does not resolve", pkg, name)
	}
	v, err := evalLit(e, info)
	if err != nil {
		return nil, err
	}
	out, ok := flatInts(v)
	if !ok {
		return nil, fmt.Errorf("initialiser of %s.%s is not an integer literal tree", pkg, name)
	}
	return out, nil
}

// tableConst records one TABLE(const) obligation comparing strings.
func (c *Ctx) tableEq(rule, what, got, want, pos string) {
	if got == want {
		c.ok(rule, what, "value = "+abbrev(want), pos)
	} else {
		c.bad(rule, what, fmt.Sprintf("value %s, specification says %s", abbrev(got), abbrev(want)), pos)
	}
}

func abbrev(s string) string {
	if len(s) > 90 {
		return s[:60] + "…" + s[len(s)-20:]
	}
	return s
}

func (c *Ctx) tableVarInts(p *Program, rule, pkg, name string, want []string) {
	got, err := p.varInts(pkg, name)
	what := pkg + "." + name
	if err != nil {
		c.undecided(rule, what, err.Error(), "")
		return
	}
	c.tableEq(rule, what, strings.Join(got, ","), strings.Join(want, ","), "")
}

func (c *Ctx) tableConstInt(p *Program, rule, pkg, name string, want int64) {
	got, ok := p.constInt(pkg, name)
	what := pkg + "." + name
	if !ok {
		c.undecided(rule, what, "constant does not resolve", "")
		return
	}
	c.tableEq(rule, what, fmt.Sprint(got), fmt.Sprint(want), "")
}

// bytesLE returns the little-endian byte strings (decimal) of a big number given in hex.
func hexToLEBytes(hexstr string, n int) []string {
	hexstr = strings.TrimPrefix(hexstr, "0x")
	if len(hexstr)%2 == 1 {
		hexstr = "0" + hexstr
	}
	var be []int
	for i := 0; i < len(hexstr); i += 2 {
		var b int
		fmt.Sscanf(hexstr[i:i+2], "%02x", &b)
		be = append(be, b)
	}
	out := make([]string, n)
	for i := range out {
		out[i] = "0"
	}
	for i := 0; i < len(be) && i < n; i++ {
		out[i] = fmt.Sprint(be[len(be)-1-i])
	}
	return out
}
