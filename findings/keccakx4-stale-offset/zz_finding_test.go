package keccakf1600

import (
	"testing"
	"unsafe"
)

// Initialize must return a 32-byte aligned slice also for a state that was
// initialised before at an address of another alignment (a state copied by
// value, or a reused one): the AVX2 permutation uses aligned loads.
func TestFindingStaleOffset(t *testing.T) {
	buf := make([]uint64, 2*(int(unsafe.Sizeof(StateX4{}))/8)+16)
	base := uintptr(unsafe.Pointer(&buf[0]))
	skip := int((32-base&31)&31) / 8 // buf[skip] is 32-byte aligned
	for rem := 1; rem < 4; rem++ {
		src := (*StateX4)(unsafe.Pointer(&buf[skip+rem]))
		*src = StateX4{}
		src.Initialize(false)
		dst := (*StateX4)(unsafe.Pointer(&buf[skip+8+int(unsafe.Sizeof(StateX4{}))/8/4*4+4]))
		*dst = *src
		a := dst.Initialize(false)
		if uintptr(unsafe.Pointer(&a[0]))&31 != 0 {
			t.Errorf("X4: state first used at offset %d mod 4: slice at %x is not 32-byte aligned", rem, uintptr(unsafe.Pointer(&a[0]))&31)
		}
		src2 := (*StateX2)(unsafe.Pointer(&buf[skip+rem]))
		*src2 = StateX2{}
		src2.Initialize(false)
		dst2 := (*StateX2)(unsafe.Pointer(&buf[skip+64]))
		*dst2 = *src2
		b := dst2.Initialize(false)
		if uintptr(unsafe.Pointer(&b[0]))&31 != 0 {
			t.Errorf("X2: state first used at offset %d mod 4: slice at %x is not 32-byte aligned", rem, uintptr(unsafe.Pointer(&b[0]))&31)
		}
	}
}
