package main

// NILERR: pointer / interface results that may be nil (a (value, error) callee's value when the error
// is non-nil, a map lookup, encoding/pem.Decode's block) are dereferenced only where a dominating
// branch has established that the error is nil or the value is non-nil.

import (
	"fmt"
	"go/token"
	"go/types"

	"golang.org/x/tools/go/ssa"
)

func nilable(t types.Type) bool {
	switch t.Underlying().(type) {
	case *types.Pointer, *types.Interface:
		return true
	}
	return false
}

// derefUses: instructions that panic when v is nil.
func derefUses(v ssa.Value) []ssa.Instruction {
	var out []ssa.Instruction
	refs := v.Referrers()
	if refs == nil {
		return nil
	}
	for _, r := range *refs {
		switch x := r.(type) {
		case *ssa.FieldAddr:
			if x.X == v {
				out = append(out, r)
			}
		case *ssa.IndexAddr:
			if x.X == v {
				out = append(out, r)
			}
		case *ssa.UnOp:
			if x.Op == token.MUL && x.X == v {
				out = append(out, r)
			}
		case *ssa.Store:
			if x.Addr == v {
				out = append(out, r)
			}
		case *ssa.TypeAssert:
			if x.X == v && !x.CommaOk {
				out = append(out, r)
			}
		case ssa.CallInstruction:
			c := x.Common()
			if c.IsInvoke() && c.Value == v {
				out = append(out, r)
			} else if sc := c.StaticCallee(); sc != nil && sc.Signature.Recv() != nil && len(c.Args) > 0 && c.Args[0] == v {
				if _, isPtr := sc.Signature.Recv().Type().Underlying().(*types.Pointer); isPtr {
					out = append(out, r)
				}
			}
		}
	}
	return out
}

// nilChecked: the use is dominated by the branch of a comparison of `checked` with nil on which
// it is nil (wantNil) or non-nil.
func nilGuards(use ssa.Instruction, checked ssa.Value, wantNil bool) bool {
	refs := checked.Referrers()
	if refs == nil {
		return false
	}
	for _, r := range *refs {
		bo, ok := r.(*ssa.BinOp)
		if !ok || (bo.Op != token.EQL && bo.Op != token.NEQ) {
			continue
		}
		other := bo.Y
		if other == checked {
			other = bo.X
		}
		if k, ok := other.(*ssa.Const); !ok || k.Value != nil {
			continue
		}
		for _, u := range *bo.Referrers() {
			ifi, ok := u.(*ssa.If)
			if !ok {
				continue
			}
			// successor on which checked is nil
			nilSucc, nonNilSucc := ifi.Block().Succs[0], ifi.Block().Succs[1]
			if bo.Op == token.NEQ {
				nilSucc, nonNilSucc = nonNilSucc, nilSucc
			}
			s := nonNilSucc
			if wantNil {
				s = nilSucc
			}
			if len(s.Preds) == 1 && s.Dominates(use.Block()) {
				return true
			}
		}
	}
	return false
}

type nilSite struct {
	fn     *ssa.Function
	use    ssa.Instruction
	source string
}

// mayReturnNil: a single-result circl function with a nilable result that returns a map lookup, a
// nil constant, or the result of such a function.
func (p *Program) mayReturnNil(f *ssa.Function, depth int) bool {
	if f == nil || f.Blocks == nil || depth > 2 || f.Signature.Results().Len() != 1 || !nilable(f.Signature.Results().At(0).Type()) {
		return false
	}
	for _, b := range f.Blocks {
		ret, ok := b.Instrs[len(b.Instrs)-1].(*ssa.Return)
		if !ok || len(ret.Results) != 1 {
			continue
		}
		switch x := ret.Results[0].(type) {
		case *ssa.Const:
			if x.Value == nil {
				return true
			}
		case *ssa.Lookup:
			if _, isMap := x.X.Type().Underlying().(*types.Map); isMap && !x.CommaOk {
				return true
			}
		case *ssa.Call:
			if p.mayReturnNil(x.Call.StaticCallee(), depth+1) {
				return true
			}
		}
	}
	return false
}

// nilSites lists the unguarded dereferences of maybe-nil results in f.
func (p *Program) nilSites(f *ssa.Function) (checked int, bad []nilSite) {
	for _, b := range f.Blocks {
		for _, in := range b.Instrs {
			switch x := in.(type) {
			case *ssa.Call:
				name := p.staticCalleeName(&x.Call)
				res := x.Call.Signature().Results()
				if res.Len() == 1 && nilable(res.At(0).Type()) {
					if sc := x.Call.StaticCallee(); sc != nil && inlinable(sc) && p.mayReturnNil(sc, 0) {
						for _, u := range derefUses(x) {
							checked++
							if !nilGuards(u, x, false) {
								bad = append(bad, nilSite{f, u, "result of " + name + " (may be nil)"})
							}
						}
					}
					continue
				}
				// tuple results
				var errEx *ssa.Extract
				var vals []*ssa.Extract
				if x.Referrers() == nil {
					continue
				}
				for _, r := range *x.Referrers() {
					if e, ok := r.(*ssa.Extract); ok {
						if isErrorType(e.Type()) {
							errEx = e
						} else if nilable(e.Type()) {
							vals = append(vals, e)
						}
					}
				}
				for _, v := range vals {
					switch {
					case name == "encoding/pem.Decode" && v.Index == 0:
						for _, u := range derefUses(v) {
							checked++
							if !nilGuards(u, v, false) {
								bad = append(bad, nilSite{f, u, "block returned by encoding/pem.Decode (nil when no PEM data is found)"})
							}
						}
					case errEx != nil:
						for _, u := range derefUses(v) {
							checked++
							if !nilGuards(u, errEx, true) && !nilGuards(u, v, false) {
								bad = append(bad, nilSite{f, u, fmt.Sprintf("result #%d of %s used without checking its error", v.Index, name)})
							}
						}
					}
				}
			case *ssa.Lookup:
				if _, isMap := x.X.Type().Underlying().(*types.Map); !isMap {
					continue
				}
				var v ssa.Value = x
				if x.CommaOk {
					continue // the ok flag is the guard; not tracked
				}
				if !nilable(v.Type()) {
					continue
				}
				for _, u := range derefUses(v) {
					checked++
					if !nilGuards(u, v, false) {
						bad = append(bad, nilSite{f, u, "map lookup result (nil when the key is absent)"})
					}
				}
			}
		}
	}
	return
}
