package main

import (
	"fmt"
	"math/big"
)

// TABLE(field constants): the precomputed constants of the Prio3 fields, read from their initialisers, have
// the algebraic relations the arithmetic relies on (decided on the literals, nothing is executed):
// rSquare = R² mod p, half = 1/2, the roots-of-unity table starts with 1, -1 and every entry is the square
// of the next one, the last entry is the generator of the VDAF specification.
func checkPrio3FieldTables(c *Ctx, p *Program, rule string) {
	type field struct {
		pkg     string
		limbs   int
		modulus string // VDAF specification, section 6.1.3
		gen     string // generator of the 2^numRoots subgroup given there
		roots   int
	}
	for _, fd := range []field{
		{"vdaf/prio3/arith/fp64", 1, "18446744069414584321", "", 32},
		{"vdaf/prio3/arith/fp128", 2, "340282366920938462946865773367900766209", "", 66},
	} {
		P, _ := new(big.Int).SetString(fd.modulus, 10)
		R := new(big.Int).Lsh(big.NewInt(1), uint(64*fd.limbs))
		Rinv := new(big.Int).ModInverse(R, P)
		elts := func(name string) ([]*big.Int, error) {
			ints, err := p.varInts(fd.pkg, name)
			if err != nil {
				return nil, err
			}
			if len(ints)%fd.limbs != 0 {
				return nil, fmt.Errorf("%s: %d limbs is not a whole number of elements", name, len(ints))
			}
			var out []*big.Int
			for i := 0; i < len(ints); i += fd.limbs {
				v := new(big.Int)
				for j := fd.limbs - 1; j >= 0; j-- {
					l, ok := new(big.Int).SetString(ints[i+j], 10)
					if !ok {
						return nil, fmt.Errorf("%s: limb %q is not an integer", name, ints[i+j])
					}
					v.Lsh(v, 64).Add(v, l)
				}
				out = append(out, v)
			}
			return out, nil
		}
		fromMont := func(v *big.Int) *big.Int { return new(big.Int).Mod(new(big.Int).Mul(v, Rinv), P) }
		what := func(s string) string { return fd.pkg + ": " + s }
		// rSquare
		if rs, err := elts("rSquare"); err != nil || len(rs) != 1 {
			c.undecided(rule, what("rSquare = R² mod p"), fmt.Sprint("cannot read the initialiser: ", err), "")
		} else {
			want := new(big.Int).Mod(new(big.Int).Mul(R, R), P)
			c.tableEq(rule, what("rSquare = R² mod p"), rs[0].String(), want.String(), "")
		}
		// half
		if h, err := elts("half"); err != nil || len(h) != 1 {
			c.undecided(rule, what("half = 1/2 (Montgomery form)"), fmt.Sprint("cannot read the initialiser: ", err), "")
		} else {
			two := new(big.Int).Mod(new(big.Int).Mul(fromMont(h[0]), big.NewInt(2)), P)
			c.tableEq(rule, what("2·half = 1"), two.String(), "1", "")
		}
		// small inverses
		if iv, err := elts("inverseInt"); err != nil || len(iv) == 0 {
			c.undecided(rule, what("inverseInt[i]·(i+1) = 1"), fmt.Sprint("cannot read the initialiser: ", err), "")
		} else {
			var bad []string
			for i, v := range iv {
				if new(big.Int).Mod(new(big.Int).Mul(fromMont(v), big.NewInt(int64(i+1))), P).Cmp(big.NewInt(1)) != 0 {
					bad = append(bad, fmt.Sprintf("entry %d is not 1/%d", i, i+1))
				}
			}
			if len(bad) > 0 {
				c.bad(rule, what("inverseInt[i]·(i+1) = 1"), fmt.Sprint(bad), "")
			} else {
				c.ok(rule, what("inverseInt[i]·(i+1) = 1"), fmt.Sprintf("%d entries", len(iv)), "")
			}
		}
		// roots of unity
		rt, err := elts("rootOfUnityTwoN")
		if err != nil {
			c.undecided(rule, what("roots-of-unity table"), err.Error(), "")
			continue
		}
		if len(rt) != fd.roots+1 {
			c.bad(rule, what("roots-of-unity table has numRootsUnity+1 entries"), fmt.Sprintf("%d entries, specification has %d", len(rt), fd.roots+1), "")
			continue
		}
		var bad []string
		if fromMont(rt[0]).Cmp(big.NewInt(1)) != 0 {
			bad = append(bad, "entry 0 is not 1")
		}
		if fromMont(rt[1]).Cmp(new(big.Int).Sub(P, big.NewInt(1))) != 0 {
			bad = append(bad, "entry 1 is not -1")
		}
		for i := 1; i < len(rt); i++ {
			if rt[i].Cmp(P) >= 0 {
				bad = append(bad, fmt.Sprintf("entry %d is not reduced", i))
			}
			x := fromMont(rt[i])
			sq := new(big.Int).Mod(new(big.Int).Mul(x, x), P)
			if sq.Cmp(fromMont(rt[i-1])) != 0 {
				bad = append(bad, fmt.Sprintf("entry %d squared is not entry %d", i, i-1))
			}
		}
		if len(bad) > 0 {
			if len(bad) > 4 {
				bad = append(bad[:4], fmt.Sprintf("… %d more", len(bad)-4))
			}
			c.bad(rule, what("rootOfUnityTwoN[i]² = rootOfUnityTwoN[i-1], starting 1, -1"), fmt.Sprint(bad), "")
		} else {
			c.ok(rule, what("rootOfUnityTwoN[i]² = rootOfUnityTwoN[i-1], starting 1, -1"), fmt.Sprintf("%d entries: a chain of principal 2^i-th roots of unity modulo %s", len(rt), fd.modulus), "")
		}
	}
}
