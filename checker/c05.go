package main

import (
	"go/constant"
	"go/token"
	"go/types"

	"golang.org/x/tools/go/ssa"
)

func init() { registry["C05"] = checkC05 }

// signBitVal matches the value "byte >> 7" (the sign bit of an encoded point) inside fn.
func signBitVal(fn string) func(v ssa.Value, in *ssa.Function) bool {
	return func(v ssa.Value, in *ssa.Function) bool {
		if fname(in) != fn {
			return false
		}
		b, ok := v.(*ssa.BinOp)
		if !ok || b.Op != token.SHR {
			return false
		}
		k, ok := b.Y.(*ssa.Const)
		if !ok || k.Value == nil {
			return false
		}
		n, _ := constant.Int64Val(k.Value)
		return n == 7
	}
}

// strictLessIn matches every strict `<` byte comparison inside fn.
func strictLessIn(fn string) func(b *ssa.BinOp, in *ssa.Function) bool {
	return func(b *ssa.BinOp, in *ssa.Function) bool {
		return fname(in) == fn && b.Op == token.LSS && isByteType(b.X.Type())
	}
}

func checkC05(c *Ctx) {
	p := c.Prog("amd64")
	if p == nil {
		return
	}
	c.Clauses = append(c.Clauses,
		"C05.reject: verification cannot accept when S>=L, when key/signature have a wrong length, when the context exceeds 255 bytes, or when the public key is not a canonical point encoding (y>=p, non-residue, x=0 with sign bit, Ed448 junk bits)",
		"C05.order: isLessThanOrder returns true only through a strict byte-wise '<' against the group order (S=L rejected)",
		"C05.table: group-order constants, dom2/dom4 strings and flag bytes equal RFC 8032 (domain prefix extracted by constant propagation for every (prehash, context) case)",
		"C05.dep: the challenge hash input depends on dom prefix inputs, R, A and the message in both sign and verify")
	c.NotDec = append(c.NotDec, "byte-exact signature and public-key outputs", "scalar reduction carries and scalar multiplication (C12/C13)", "the exact acceptance set with respect to the cofactored/cofactorless equation")

	ed, e4 := "sign/ed25519", "sign/ed448"
	// RFC 8032 5.1.7 / 5.2.7: the only reasons to refuse are the lengths, S >= L, a key that does not decode
	// and the group equation; the variant flag selects the hashing. A further test (the key is the neutral
	// element, the point has small order, ...) refuses signatures the RFC accepts.
	c.Clauses = append(c.Clauses, "C05.reasons: Ed25519 / Ed448 verification refuses only for the reasons RFC 8032 lists (every rejecting branch is a length comparison or decided by the key decoder, the range test of S or the final comparison)")
	c.rejectReasonsRule(p, "C05.reasons", reasonSpec{pkg: ed, name: "verify", why: "RFC 8032 5.1.7",
		callees: []string{ed + ".isLessThanOrder", "(*" + ed + ".pointR1).FromBytes", "bytes.Equal"}})
	// the crypto.Signer entry points hand the caller's context on to every variant that has one (Ed25519ph,
	// Ed25519ctx, Ed448, Ed448ph): with the scheme fixed, the context argument of the variant is not a constant
	{
		schemeIs := func(n int64) []ValAssume {
			return []ValAssume{{Name: sprintf("opts.Scheme = %d", n), Val: latInt(n), Match: func(v ssa.Value, _ *ssa.Function) bool {
				switch x := v.(type) {
				case *ssa.Field:
					st, ok := x.X.Type().Underlying().(*types.Struct)
					return ok && st.Field(x.Field).Name() == "Scheme"
				case *ssa.UnOp:
					fa, ok := x.X.(*ssa.FieldAddr)
					return ok && x.Op == token.MUL && fieldName(fa) == "Scheme"
				}
				return false
			}}}
		}
		for _, t := range []struct {
			pkg, typ, fn, callee string
			scheme               int64
			arg                  int
			what                 string
		}{
			{ed, "", "VerifyAny", ed + ".VerifyPh", 1, 3, "Ed25519ph verification gets the caller's context"},
			{ed, "", "VerifyAny", ed + ".VerifyWithCtx", 2, 3, "Ed25519ctx verification gets the caller's context"},
			{ed, "PrivateKey", "Sign", ed + ".SignPh", 1, 2, "Ed25519ph signing gets the caller's context"},
			{ed, "PrivateKey", "Sign", ed + ".SignWithCtx", 2, 2, "Ed25519ctx signing gets the caller's context"},
			{e4, "", "VerifyAny", e4 + ".Verify", 0, 3, "Ed448 verification gets the caller's context"},
			{e4, "", "VerifyAny", e4 + ".VerifyPh", 1, 3, "Ed448ph verification gets the caller's context"},
			{e4, "PrivateKey", "Sign", e4 + ".Sign", 0, 2, "Ed448 signing gets the caller's context"},
			{e4, "PrivateKey", "Sign", e4 + ".SignPh", 1, 2, "Ed448ph signing gets the caller's context"},
		} {
			c.argNotConstUnder(p, "C05.dep", t.what, p.Func(t.pkg, t.typ, t.fn), schemeIs(t.scheme), t.callee, t.arg)
		}
	}
	// point decoding (5.1.3 / 5.2.3): y < p, the square root exists, x = 0 with the sign bit set, (Ed448) the
	// low seven bits of the last octet are zero
	c.rejectReasonsRule(p, "C05.reasons", reasonSpec{pkg: ed, typ: "pointR1", name: "FromBytes", why: "RFC 8032 5.1.3",
		callees: []string{ed + ".isLessThan", "math/fp25519.InvSqrt"}, conds: []string{`\(param#1\[31\]>>7\) == 1`}})
	c.rejectReasonsRule(p, "C05.reasons", reasonSpec{pkg: "ecc/goldilocks", name: "FromBytes", why: "RFC 8032 5.2.3",
		callees: []string{"ecc/goldilocks.isLessThan", "math/fp448.InvSqrt"}, conds: []string{`\(param#0\[56\]>>7\) == 1`, `\(param#0\[56\]&127\) != 0`}})
	c.rejectReasonsRule(p, "C05.reasons", reasonSpec{pkg: e4, name: "verify", why: "RFC 8032 5.2.7",
		callees: []string{e4 + ".isLessThanOrder", "ecc/goldilocks.FromBytes", "bytes.Equal"}})
	// --- reject rules on verify ---
	for _, pk := range []string{ed, e4} {
		f := p.Func(pk, "", "verify")
		c.guard(p, "C05.reject", "S < L", f, GuardSpec{Assumes: []Assume{calleeAssume(latFalse, -1, pk+".isLessThanOrder")}})
		c.lenReject(p, "C05.reject", f, "signature", true)
		c.lenReject(p, "C05.reject", f, "public", true)
		c.guard(p, "C05.reject", "recomputed R equals transmitted R", f, GuardSpec{Assumes: []Assume{calleeAssume(latFalse, -1, "bytes.Equal")}})
		c.guard(p, "C05.order", "true only via strict '<' against the order", p.Func(pk, "", "isLessThanOrder"),
			GuardSpec{BinAssumes: []BinAssume{{Name: "x[i] < order[i]", Match: strictLessIn(pk + ".isLessThanOrder"), Val: latFalse}}})
	}
	// Ed448: S has 57 bytes and the order 56: a non-zero last byte means S >= 2^448 > L
	{
		f := p.Func(e4, "", "isLessThanOrder")
		c.guard(p, "C05.order", "a scalar whose 57th byte is not zero is not below the order", f, GuardSpec{BinAssumes: []BinAssume{
			binDesc(f, "x[56] compared with 0", `param#0\[56\] == 0|0 == param#0\[56\]`, latFalse),
			binDesc(f, "x[56] compared with 0", `param#0\[56\] != 0|0 != param#0\[56\]`, latTrue)}})
	}
	c.guard(p, "C05.reject", "context longer than 255 bytes", p.Func(e4, "", "verify"), GuardSpec{Args: map[string]lat{"ctx": latBigSlice}})
	for _, n := range []string{"VerifyPh", "VerifyWithCtx"} {
		c.guard(p, "C05.reject", "context longer than 255 bytes", p.Func(ed, "", n), GuardSpec{Args: map[string]lat{"ctx": latBigSlice}})
	}
	c.guard(p, "C05.reject", "public key must decode", p.Func(ed, "", "verify"), GuardSpec{Assumes: []Assume{calleeAssume(latFalse, -1, "(*sign/ed25519.pointR1).FromBytes")}})
	c.guard(p, "C05.reject", "public key must decode", p.Func(e4, "", "verify"), GuardSpec{Assumes: []Assume{calleeAssume(latNonNil, 1, "ecc/goldilocks.FromBytes")}})

	// --- point decoders ---
	type dec struct {
		f              *ssa.Function
		name, lt, fpkg string
	}
	d25 := dec{p.Func(ed, "pointR1", "FromBytes"), "(*sign/ed25519.pointR1).FromBytes", "sign/ed25519.isLessThan", "math/fp25519"}
	d448 := dec{p.Func("ecc/goldilocks", "", "FromBytes"), "ecc/goldilocks.FromBytes", "ecc/goldilocks.isLessThan", "math/fp448"}
	for _, d := range []dec{d25, d448} {
		c.guard(p, "C05.reject", "y >= p rejected", d.f, GuardSpec{Assumes: []Assume{calleeAssume(latFalse, -1, d.lt)}})
		c.guard(p, "C05.reject", "non-residue rejected", d.f, GuardSpec{Assumes: []Assume{calleeAssume(latFalse, -1, d.fpkg+".InvSqrt")}})
		c.guard(p, "C05.reject", "x = 0 with sign bit set rejected", d.f, GuardSpec{
			Assumes:    []Assume{calleeAssume(latTrue, -1, d.fpkg+".IsZero")},
			ValAssumes: []ValAssume{{Name: "sign bit (>>7)", Match: signBitVal(d.name), Val: latInt(1)}}})
	}
	c.lenReject(p, "C05.reject", d448.f, "in", true)
	// Ed448: the seven unused bits of the last byte must be constrained on every accepting path:
	// a value "in[56] & 0x7f" assumed non-zero must lead to rejection.
	c.guard(p, "C05.reject", "Ed448 junk in the low 7 bits of the last byte rejected", d448.f, GuardSpec{
		ValAssumes: []ValAssume{{Name: "byte & 0x7f", Val: latInt(1), Match: func(v ssa.Value, in *ssa.Function) bool {
			if fname(in) != d448.name {
				return false
			}
			b, ok := v.(*ssa.BinOp)
			if !ok || b.Op != token.AND {
				return false
			}
			for _, o := range []ssa.Value{b.X, b.Y} {
				if k, ok := o.(*ssa.Const); ok && k.Value != nil {
					if n, ok := constant.Int64Val(k.Value); ok && n == 0x7f {
						return true
					}
				}
			}
			return false
		}}}})

	// --- tables ---
	c.tableVarInts(p, "C05.table", ed, "order", hexToLEBytes("1000000000000000000000000000000014def9dea2f79cd65812631a5cf5d3ed", 32))
	c.tableVarInts(p, "C05.table", "ecc/goldilocks", "order", hexToLEBytes("3fffffffffffffffffffffffffffffffffffffffffffffffffffffff7cca23e9c44edb49aed63690216cc2728dc58f552378c292ab5844f3", 56))
	c.tableConstInt(p, "C05.table", ed, "ContextMaxSize", 255)
	c.tableConstInt(p, "C05.table", e4, "ContextMaxSize", 255)
	for n, v := range map[string]int64{"PublicKeySize": 32, "SignatureSize": 64, "SeedSize": 32} {
		c.tableConstInt(p, "C05.table", ed, n, v)
	}
	for n, v := range map[string]int64{"PublicKeySize": 57, "SignatureSize": 114, "SeedSize": 57} {
		c.tableConstInt(p, "C05.table", e4, n, v)
	}
	// dom2 / dom4 prefix for each case, extracted from writeDom by constant propagation
	nonEmpty := latNonEmpty
	dom2 := `"SigEd25519 no Ed25519 collisions"`
	w := "invoke (io.Writer).Write"
	wd := p.Func(ed, "", "writeDom")
	c.transcriptRule(p, "C05.table", "dom2 absent for pure Ed25519", wd, map[string]lat{"ctx": latNil, "preHash": latFalse}, w, 1, nil)
	c.transcriptRule(p, "C05.table", "dom2(1, '') for Ed25519ph with empty context", wd, map[string]lat{"ctx": latNil, "preHash": latTrue}, w, 1, []string{dom2, "[1 0]"})
	c.transcriptRule(p, "C05.table", "dom2(0, ctx) for Ed25519ctx", wd, map[string]lat{"ctx": nonEmpty, "preHash": latFalse}, w, 1, []string{dom2, "[0 (len(param#1))]", "param#1"})
	c.transcriptRule(p, "C05.table", "dom2(1, ctx) for Ed25519ph", wd, map[string]lat{"ctx": nonEmpty, "preHash": latTrue}, w, 1, []string{dom2, "[1 (len(param#1))]", "param#1"})
	wd4 := p.Func(e4, "", "writeDom")
	c.transcriptRule(p, "C05.table", "dom4(0, ctx) for Ed448", wd4, map[string]lat{"ctx": nonEmpty, "preHash": latFalse}, w, 1, []string{`"SigEd448"`, "[0 (len(param#1))]", "param#1"})
	c.transcriptRule(p, "C05.table", "dom4(1, ctx) for Ed448ph", wd4, map[string]lat{"ctx": nonEmpty, "preHash": latTrue}, w, 1, []string{`"SigEd448"`, "[1 (len(param#1))]", "param#1"})

	// --- challenge hash dependence ---
	c.depRule(p, "C05.dep", "challenge hash input (verify)", p.Func(ed, "", "verify"), sinkCallArg(0, "sign/ed25519.reduceModOrder"),
		"param:public", "param:message", "param:signature", "param:ctx")
	c.depRule(p, "C05.dep", "challenge scalar (verify)", p.Func(e4, "", "verify"), sinkCallArg(1, "(*ecc/goldilocks.Scalar).FromBytes"),
		"param:public", "param:message", "param:signature", "param:ctx")
	for _, pk := range []string{ed, e4} {
		c.depRule(p, "C05.dep", "signature bytes depend on key, message and context", p.Func(pk, "", "signAll"), sinkParamPointee("signature"),
			"param:privateKey", "param:message", "param:ctx")
	}
}

func isByteType(t interface{ String() string }) bool {
	s := t.String()
	return s == "byte" || s == "uint8"
}
