package frodo640shake

import (
	"bytes"
	"testing"
)

// Modifying (re-decoding) the object returned by PrivateKey.Public must not change the private key.
// Place in kem/frodo/frodo640shake; go test -run TestFindingPublicShared ./kem/frodo/frodo640shake/ .
func TestFindingPublicShared(t *testing.T) {
	var s1, s2 [KeySeedSize]byte
	s2[KeySeedSize-1], s2[SharedKeySize] = 1, 1
	_, sk := newKeyFromSeed(s1[:])
	other, _ := newKeyFromSeed(s2[:])
	otherBytes, _ := other.MarshalBinary()

	before, _ := sk.MarshalBinary()
	sk.Public().(*PublicKey).Unpack(otherBytes)
	after, _ := sk.MarshalBinary()
	if !bytes.Equal(before, after) {
		t.Errorf("re-decoding the key returned by Public() changed the private key")
	}
}
