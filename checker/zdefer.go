package main

import (
	"fmt"
	"go/token"
	"go/types"
	"sort"
	"strings"

	"golang.org/x/tools/go/ssa"
)

// DEFERWIPE: a deferred call does not overwrite the memory a function returns.
//
// `var ss [32]byte; defer zeroize(ss[:]); ...; return ss[:]` evaluates the result, then runs the deferred
// call: the caller receives a slice of zeros. Reported when a result of the function is a slice (or pointer)
// into a local allocation and a deferred call is handed that same allocation in an argument its callee writes
// (directly, or as an element of a variadic argument list).
func checkDeferWipe(c *Ctx, p *Program, rule string, prefixes []string) {
	mod := p.Mod()
	var fs []*ssa.Function
	for f := range p.AllFuncs {
		if f.Blocks != nil && isCirclFunc(f) && sourceFunc(f) && !strings.Contains(funcPkgPath(f), "/internal/test") && (prefixes == nil || inScope(f, prefixes)) {
			fs = append(fs, f)
		}
	}
	sort.Slice(fs, func(i, j int) bool { return fs[i].String() < fs[j].String() })
	ndefer, nbad := 0, 0
	for _, f := range fs {
		var defers []*ssa.Defer
		for _, b := range f.Blocks {
			for _, in := range b.Instrs {
				if d, ok := in.(*ssa.Defer); ok {
					defers = append(defers, d)
				}
			}
		}
		if len(defers) == 0 {
			continue
		}
		returned := map[ssa.Value]bool{}
		for _, b := range f.Blocks {
			if ret, ok := b.Instrs[len(b.Instrs)-1].(*ssa.Return); ok {
				var vals []ssa.Value
				for _, v := range ret.Results {
					vals = append(vals, v)
					// with a defer in the function, go/ssa spills the results to variables before the deferred
					// calls run and reloads them for the return: look at what was spilled
					if ld, ok := v.(*ssa.UnOp); ok {
						if spill, ok := ld.X.(*ssa.Alloc); ok {
							for _, r := range *spill.Referrers() {
								if st, ok := r.(*ssa.Store); ok && st.Addr == ssa.Value(spill) {
									vals = append(vals, st.Val)
								}
							}
						}
					}
				}
				for _, v := range vals {
					if !sliceLike(v.Type()) && !pointerLike(v.Type()) {
						continue
					}
					if base, _ := memRoot(v); base != nil {
						switch base.(type) {
						case *ssa.Alloc, *ssa.MakeSlice:
							returned[base] = true
						}
					}
				}
			}
		}
		if len(returned) == 0 {
			continue
		}
		for _, d := range defers {
			ndefer++
			name := p.staticCalleeName(&d.Call)
			cal := d.Call.StaticCallee()
			written := map[int]bool{}
			var args []ssa.Value
			if d.Call.IsInvoke() {
				args = append(args, d.Call.Value)
			}
			args = append(args, d.Call.Args...)
			for _, i := range externalWrites(name, len(args)) {
				written[i] = true
			}
			if cal != nil && cal.Blocks != nil {
				for _, w := range mod.of(cal) {
					var i int
					if _, err := fmt.Sscanf(w.Root, "param#%d", &i); err == nil {
						written[i] = true
					}
				}
			}
			for i, a := range args {
				if !written[i] {
					continue
				}
				var bufs []ssa.Value
				base, _ := memRoot(a)
				bufs = append(bufs, base)
				// a variadic list: the buffers stored into the argument array
				if al, ok := base.(*ssa.Alloc); ok && al.Comment == "varargs" {
					for _, r := range *al.Referrers() {
						if ia, ok := r.(*ssa.IndexAddr); ok {
							for _, rr := range *ia.Referrers() {
								if st, ok := rr.(*ssa.Store); ok && st.Addr == ssa.Value(ia) {
									if eb, _ := memRoot(st.Val); eb != nil {
										bufs = append(bufs, eb)
									}
								}
							}
						}
					}
				}
				for _, bf := range bufs {
					if returned[bf] {
						nbad++
						c.bad(rule, fname(f)+": no deferred call overwrites the memory the function returns", fmt.Sprintf("the deferred call of %s at %s writes the allocation at %s, of which a result of the function is a slice: the deferred call runs after the result has been evaluated, the caller receives the overwritten bytes", shortCallee(name), p.pos(d.Pos()), p.pos(bf.Pos())), p.pos(d.Pos()))
					}
				}
			}
		}
	}
	c.count("deferred_calls", ndefer)
	if nbad == 0 {
		c.ok(rule, "no deferred call overwrites memory that its function returns", fmt.Sprintf("%d deferred calls in functions that return local memory", ndefer), "")
	}
}

func init() {
	for prop, pres := range map[string][]string{"C01": {"kem", "hpke", "pke"}, "C11": nil} {
		prop, pres := prop, pres
		wrapProp(prop, func(c *Ctx, p *Program) {
			c.Clauses = append(c.Clauses, prop+".deferwipe: no deferred call overwrites memory of which the function returns a slice")
			checkDeferWipe(c, p, prop+".deferwipe", pres)
		})
	}
}

// SHALLOWCOPY: a constructor that copies a caller's slice of mutable objects copies the objects.
//
// `copy(p.c, coeffs)` with elements of interface or pointer type duplicates the references only: the new
// object and the caller's slice share every scalar, so a later write by the caller (reusing the slice,
// wiping values) changes what the object computes. Reported for a builtin copy whose element type is an
// interface or pointer, whose source is (a slice of) a parameter and whose destination is memory allocated
// by the function.
func checkShallowCopy(c *Ctx, p *Program, rule string, prefixes []string) {
	var fs []*ssa.Function
	for f := range p.AllFuncs {
		if f.Blocks != nil && isCirclFunc(f) && sourceFunc(f) && !strings.Contains(funcPkgPath(f), "/internal/test") && (prefixes == nil || inScope(f, prefixes)) {
			fs = append(fs, f)
		}
	}
	sort.Slice(fs, func(i, j int) bool { return fs[i].String() < fs[j].String() })
	n, nbad := 0, 0
	for _, f := range fs {
		for _, b := range f.Blocks {
			for _, in := range b.Instrs {
				cl, ok := in.(*ssa.Call)
				if !ok {
					continue
				}
				bi, ok := cl.Call.Value.(*ssa.Builtin)
				if !ok || bi.Name() != "copy" || len(cl.Call.Args) != 2 {
					continue
				}
				st, ok := cl.Call.Args[1].Type().Underlying().(*types.Slice)
				if !ok {
					continue
				}
				switch st.Elem().Underlying().(type) {
				case *types.Interface, *types.Pointer:
				default:
					continue
				}
				n++
				src, _ := memRoot(cl.Call.Args[1])
				dst, _ := memRoot(cl.Call.Args[0])
				if _, isPar := src.(*ssa.Parameter); !isPar {
					continue
				}
				fresh := false
				switch dst.(type) {
				case *ssa.MakeSlice, *ssa.Alloc:
					fresh = true
				}
				if !fresh {
					continue
				}
				nbad++
				c.bad(rule, fname(f)+": the elements of a caller's slice are copied, not shared", fmt.Sprintf("copy at %s duplicates %s references from parameter %s into memory the function allocated: the objects themselves are shared with the caller, who can change what this object computes afterwards", p.pos(cl.Pos()), st.Elem().String(), src.Name()), p.pos(cl.Pos()))
			}
		}
	}
	c.count("reference_copies", n)
	if nbad == 0 {
		c.ok(rule, "no constructor shares the elements of a caller's slice of mutable objects", fmt.Sprintf("%d copies of reference-typed elements inspected", n), "")
	}
}

func init() {
	for prop, pres := range map[string][]string{"C17": {"math/polynomial", "secretsharing", "tss"}, "C11": nil} {
		prop, pres := prop, pres
		wrapProp(prop, func(c *Ctx, p *Program) {
			c.Clauses = append(c.Clauses, prop+".shallowcopy: no constructor copies only the references of a caller's slice of interface or pointer elements into the object it builds")
			checkShallowCopy(c, p, prop+".shallowcopy", pres)
		})
	}
}

// IDXCHECK: the result of a search (strings.Index*, bytes.Index*) is compared with a constant before it is
// used as an offset.
//
// These functions return -1 when nothing is found. `cur += strings.IndexFunc(s[cur:], pred)` moves the cursor
// backwards in that case: a scanner loops forever or slices out of range on inputs that end inside the run it
// skips. Reported when a search result flows into an addition, a subtraction, a slice bound or an index and
// the function contains no comparison of that result.
func checkIndexResult(c *Ctx, p *Program, rule string, prefixes []string) {
	var fs []*ssa.Function
	for f := range p.AllFuncs {
		if f.Blocks != nil && isCirclFunc(f) && sourceFunc(f) && !strings.Contains(funcPkgPath(f), "/internal/test") && (prefixes == nil || inScope(f, prefixes)) {
			fs = append(fs, f)
		}
	}
	sort.Slice(fs, func(i, j int) bool { return fs[i].String() < fs[j].String() })
	n, nbad := 0, 0
	for _, f := range fs {
		for _, b := range f.Blocks {
			for _, in := range b.Instrs {
				cl, ok := in.(*ssa.Call)
				if !ok {
					continue
				}
				name := p.staticCalleeName(&cl.Call)
				if !(strings.HasPrefix(name, "strings.Index") || strings.HasPrefix(name, "bytes.Index") || strings.HasPrefix(name, "strings.LastIndex") || strings.HasPrefix(name, "bytes.LastIndex")) {
					continue
				}
				n++
				compared, offset := false, ""
				var walk func(v ssa.Value, depth int)
				seen := map[ssa.Value]bool{}
				walk = func(v ssa.Value, depth int) {
					if seen[v] || depth > 4 {
						return
					}
					seen[v] = true
					for _, r := range *v.Referrers() {
						switch x := r.(type) {
						case *ssa.BinOp:
							switch x.Op.String() {
							case "<", "<=", ">", ">=", "==", "!=":
								compared = true
							case "+", "-":
								if offset == "" {
									offset = "arithmetic at " + p.pos(x.Pos())
								}
								walk(x, depth+1)
							}
						case *ssa.Slice:
							if offset == "" {
								offset = "slice bound at " + p.pos(x.Pos())
							}
						case *ssa.IndexAddr:
							if x.Index == v && offset == "" {
								offset = "index at " + p.pos(x.Pos())
							}
						case *ssa.Phi:
							walk(x, depth+1)
						case *ssa.Convert:
							walk(x, depth+1)
						case *ssa.Store:
							if offset == "" && depth > 0 {
								offset = "stored sum at " + p.pos(x.Pos())
							}
						}
					}
				}
				walk(cl, 0)
				if offset != "" && !compared {
					nbad++
					c.bad(rule, fname(f)+": a search result is tested before it is used as an offset", fmt.Sprintf("the result of %s at %s is used (%s) and never compared with a constant in this function: it is -1 when nothing is found", shortCallee(name), p.pos(cl.Pos()), offset), p.pos(cl.Pos()))
				}
			}
		}
	}
	c.count("search_calls", n)
	if nbad == 0 {
		c.ok(rule, "every search result used as an offset is compared with a constant first", fmt.Sprintf("%d calls of strings/bytes Index functions inspected", n), "")
	}
}

func init() {
	wrapProp("C10", func(c *Ctx, p *Program) {
		c.Clauses = append(c.Clauses, "C10.idxcheck: the result of a strings / bytes Index search is compared with a constant before it is used as an offset (it is -1 when nothing is found: a cursor moved by it loops or slices out of range)")
		checkIndexResult(c, p, "C10.idxcheck", nil)
	})
}

// recursiveCycles: strongly connected components of the static call graph among circl functions (size > 1, or
// a function that calls itself).
func recursiveCycles(p *Program) [][]*ssa.Function {
	var fs []*ssa.Function
	for f := range p.AllFuncs {
		if f.Blocks != nil && isCirclFunc(f) && !strings.Contains(funcPkgPath(f), "/internal/test") {
			fs = append(fs, f)
		}
	}
	sort.Slice(fs, func(i, j int) bool { return fs[i].String() < fs[j].String() })
	adj := map[*ssa.Function][]*ssa.Function{}
	for _, f := range fs {
		seen := map[*ssa.Function]bool{}
		var visit func(g *ssa.Function)
		visit = func(g *ssa.Function) {
			for _, b := range g.Blocks {
				for _, in := range b.Instrs {
					if ci, ok := in.(ssa.CallInstruction); ok {
						if cal := ci.Common().StaticCallee(); cal != nil && cal.Blocks != nil && isCirclFunc(cal) && !seen[cal] {
							seen[cal] = true
							adj[f] = append(adj[f], cal)
						}
					}
				}
			}
			for _, an := range g.AnonFuncs {
				visit(an)
			}
		}
		visit(f)
	}
	// Tarjan
	index, low := map[*ssa.Function]int{}, map[*ssa.Function]int{}
	on := map[*ssa.Function]bool{}
	var stack []*ssa.Function
	var out [][]*ssa.Function
	idx := 0
	var strong func(v *ssa.Function)
	strong = func(v *ssa.Function) {
		idx++
		index[v], low[v] = idx, idx
		stack = append(stack, v)
		on[v] = true
		for _, w := range adj[v] {
			if index[w] == 0 {
				strong(w)
				if low[w] < low[v] {
					low[v] = low[w]
				}
			} else if on[w] && index[w] < low[v] {
				low[v] = index[w]
			}
		}
		if low[v] == index[v] {
			var comp []*ssa.Function
			for {
				w := stack[len(stack)-1]
				stack = stack[:len(stack)-1]
				on[w] = false
				comp = append(comp, w)
				if w == v {
					break
				}
			}
			self := false
			for _, w := range adj[v] {
				if w == v {
					self = true
				}
			}
			if len(comp) > 1 || self {
				sort.Slice(comp, func(i, j int) bool { return comp[i].String() < comp[j].String() })
				out = append(out, comp)
			}
		}
	}
	for _, f := range fs {
		if index[f] == 0 {
			strong(f)
		}
	}
	return out
}

// RECURSION: every recursive cycle of the library is bounded.
//
// Recursion driven by untrusted input with no bound exhausts the goroutine stack, and a stack overflow is a
// fatal error that cannot be recovered. The library has three recursive cycles (strongly connected components
// of the static call graph). Each must either pass, on every cycle, through a function that counts the depth
// in a field and refuses above a constant, or be listed here with the reason its depth is bounded.
var boundedRecursion = map[string]string{
	"(*abe/cpabe/tkn20/internal/tkn.Policy).printWire": "descends the gates of a decoded formula: wellformed() makes it a tree over fewer than 2^16 wires, the depth is at most the number of gates",
	"dh/csidh.cofactorMul":                             "halves a constant index range (the primes of the CSIDH-512 parameter set): depth log2(74)",
}

func checkRecursionBounded(c *Ctx, p *Program, rule string) {
	comps := recursiveCycles(p)
	for _, comp := range comps {
		var names []string
		in := map[*ssa.Function]bool{}
		for _, f := range comp {
			names = append(names, fname(f))
			in[f] = true
		}
		what := "recursion through " + strings.Join(names, ", ") + " is bounded"
		if len(comp) == 1 {
			if why, ok := boundedRecursion[names[0]]; ok {
				c.ok(rule, what, why, p.fnPos(comp[0]))
				continue
			}
		}
		// depth guards: a field incremented and compared with a constant in the same function
		var guards []*ssa.Function
		var unpaired []string
		for _, f := range comp {
			inc, cmp, dec := map[string]bool{}, map[string]bool{}, map[string]bool{}
			// the function itself, its function literals (a deferred release) and the helpers it calls that are
			// not part of the cycle (enter / leave style)
			bodies := []*ssa.Function{f}
			bodies = append(bodies, f.AnonFuncs...)
			for _, b := range f.Blocks {
				for _, ins := range b.Instrs {
					if ci, ok := ins.(ssa.CallInstruction); ok {
						if h := ci.Common().StaticCallee(); h != nil && h.Blocks != nil && !in[h] && isCirclFunc(h) && h.Pkg == f.Pkg {
							bodies = append(bodies, h)
						}
					}
				}
			}
			for _, body := range bodies {
				for _, b := range body.Blocks {
					for _, ins := range b.Instrs {
						if st, ok := ins.(*ssa.Store); ok {
							if fa, ok := st.Addr.(*ssa.FieldAddr); ok {
								if bo, ok := st.Val.(*ssa.BinOp); ok && bo.Op == token.SUB {
									if k, ok := bo.Y.(*ssa.Const); ok && k.Value != nil && k.Value.ExactString() == "1" {
										dec[fieldName(fa)] = true
									}
								}
							}
						}
					}
				}
			}
			for _, body := range bodies {
				for _, b := range body.Blocks {
					for _, ins := range b.Instrs {
						switch x := ins.(type) {
						case *ssa.Store:
							fa, ok := x.Addr.(*ssa.FieldAddr)
							if !ok {
								continue
							}
							if bo, ok := x.Val.(*ssa.BinOp); ok && bo.Op == token.ADD {
								if k, ok := bo.Y.(*ssa.Const); ok && k.Value != nil && k.Value.ExactString() == "1" {
									inc[fieldName(fa)] = true
								}
							}
						case *ssa.BinOp:
							switch x.Op {
							case token.GTR, token.GEQ, token.LSS, token.LEQ:
							default:
								continue
							}
							for i, side := range []ssa.Value{x.X, x.Y} {
								ld, ok := side.(*ssa.UnOp)
								if !ok || ld.Op != token.MUL {
									continue
								}
								fa, ok := ld.X.(*ssa.FieldAddr)
								if !ok {
									continue
								}
								if _, isK := []ssa.Value{x.Y, x.X}[i].(*ssa.Const); isK {
									cmp[fieldName(fa)] = true
								}
							}
						}
					}
				}
			}
			for n := range inc {
				if cmp[n] {
					guards = append(guards, f)
					if !dec[n] {
						unpaired = append(unpaired, fmt.Sprintf("%s increments %s and never decrements it", fname(f), n))
					}
					break
				}
			}
		}
		if len(unpaired) > 0 {
			sort.Strings(unpaired)
			c.bad(rule, "the depth counter of "+strings.Join(names, ", ")+" is released on the way out", strings.Join(unpaired, "; ")+": every construct parsed at that level uses up a level for the rest of the input, so inputs that never nest that deep are refused", p.fnPos(comp[0]))
		}
		bounded := false
		for _, g := range guards {
			// without g the component must be acyclic
			color := map[*ssa.Function]int{}
			cyc := false
			var dfs func(v *ssa.Function)
			dfs = func(v *ssa.Function) {
				color[v] = 1
				for _, b := range v.Blocks {
					for _, ins := range b.Instrs {
						if ci, ok := ins.(ssa.CallInstruction); ok {
							w := ci.Common().StaticCallee()
							if w == nil || !in[w] || w == g {
								continue
							}
							if color[w] == 1 {
								cyc = true
							} else if color[w] == 0 {
								dfs(w)
							}
						}
					}
				}
				color[v] = 2
			}
			for _, f := range comp {
				if f != g && color[f] == 0 {
					dfs(f)
				}
			}
			if !cyc {
				bounded = true
				c.ok(rule, what, "every cycle passes through "+fname(g)+", which counts the depth in a field and compares it with a constant", p.fnPos(g))
				break
			}
		}
		if !bounded {
			c.bad(rule, what, "no function on every cycle counts the depth and refuses above a constant, and the cycle is not among the ones shown to be bounded: input that nests deeply enough exhausts the stack, which kills the process", p.fnPos(comp[0]))
		}
	}
	c.count("recursive_cycles", len(comps))
	if len(comps) < 3 {
		c.undecided(rule, "recursive cycles of the library", fmt.Sprintf("only %d found (3 confirmed by hand)", len(comps)), "")
	}
}

func init() {
	for _, prop := range []string{"C10", "C20"} {
		prop := prop
		wrapProp(prop, func(c *Ctx, p *Program) {
			c.Clauses = append(c.Clauses, prop+".recursion: every recursive cycle of the library passes through a depth counter compared with a constant, or is one of the two shown to be bounded by the size of already validated data")
			checkRecursionBounded(c, p, prop+".recursion")
		})
	}
}
