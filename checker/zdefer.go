package main

import (
	"fmt"
	"go/types"
	"sort"
	"strings"

	"golang.org/x/tools/go/ssa"
)

// DEFERWIPE: a deferred call does not overwrite the memory a function returns.
//
// `var ss [32]byte; defer zeroize(ss[:]); ...; return ss[:]` evaluates the result, then runs the deferred
// call: the caller receives a slice of zeros. Reported when a result of the function is a slice (or pointer)
// into a local allocation and a deferred call is handed that same allocation in an argument its callee writes
// (directly, or as an element of a variadic argument list).
func checkDeferWipe(c *Ctx, p *Program, rule string, prefixes []string) {
	mod := p.Mod()
	var fs []*ssa.Function
	for f := range p.AllFuncs {
		if f.Blocks != nil && isCirclFunc(f) && sourceFunc(f) && !strings.Contains(funcPkgPath(f), "/internal/test") && (prefixes == nil || inScope(f, prefixes)) {
			fs = append(fs, f)
		}
	}
	sort.Slice(fs, func(i, j int) bool { return fs[i].String() < fs[j].String() })
	ndefer, nbad := 0, 0
	for _, f := range fs {
		var defers []*ssa.Defer
		for _, b := range f.Blocks {
			for _, in := range b.Instrs {
				if d, ok := in.(*ssa.Defer); ok {
					defers = append(defers, d)
				}
			}
		}
		if len(defers) == 0 {
			continue
		}
		returned := map[ssa.Value]bool{}
		for _, b := range f.Blocks {
			if ret, ok := b.Instrs[len(b.Instrs)-1].(*ssa.Return); ok {
				var vals []ssa.Value
				for _, v := range ret.Results {
					vals = append(vals, v)
					// with a defer in the function, go/ssa spills the results to variables before the deferred
					// calls run and reloads them for the return: look at what was spilled
					if ld, ok := v.(*ssa.UnOp); ok {
						if spill, ok := ld.X.(*ssa.Alloc); ok {
							for _, r := range *spill.Referrers() {
								if st, ok := r.(*ssa.Store); ok && st.Addr == ssa.Value(spill) {
									vals = append(vals, st.Val)
								}
							}
						}
					}
				}
				for _, v := range vals {
					if !sliceLike(v.Type()) && !pointerLike(v.Type()) {
						continue
					}
					if base, _ := memRoot(v); base != nil {
						switch base.(type) {
						case *ssa.Alloc, *ssa.MakeSlice:
							returned[base] = true
						}
					}
				}
			}
		}
		if len(returned) == 0 {
			continue
		}
		for _, d := range defers {
			ndefer++
			name := p.staticCalleeName(&d.Call)
			cal := d.Call.StaticCallee()
			written := map[int]bool{}
			var args []ssa.Value
			if d.Call.IsInvoke() {
				args = append(args, d.Call.Value)
			}
			args = append(args, d.Call.Args...)
			for _, i := range externalWrites(name, len(args)) {
				written[i] = true
			}
			if cal != nil && cal.Blocks != nil {
				for _, w := range mod.of(cal) {
					var i int
					if _, err := fmt.Sscanf(w.Root, "param#%d", &i); err == nil {
						written[i] = true
					}
				}
			}
			for i, a := range args {
				if !written[i] {
					continue
				}
				var bufs []ssa.Value
				base, _ := memRoot(a)
				bufs = append(bufs, base)
				// a variadic list: the buffers stored into the argument array
				if al, ok := base.(*ssa.Alloc); ok && al.Comment == "varargs" {
					for _, r := range *al.Referrers() {
						if ia, ok := r.(*ssa.IndexAddr); ok {
							for _, rr := range *ia.Referrers() {
								if st, ok := rr.(*ssa.Store); ok && st.Addr == ssa.Value(ia) {
									if eb, _ := memRoot(st.Val); eb != nil {
										bufs = append(bufs, eb)
									}
								}
							}
						}
					}
				}
				for _, bf := range bufs {
					if returned[bf] {
						nbad++
						c.bad(rule, fname(f)+": no deferred call overwrites the memory the function returns", fmt.Sprintf("the deferred call of %s at %s writes the allocation at %s, of which a result of the function is a slice: the deferred call runs after the result has been evaluated, the caller receives the overwritten bytes", shortCallee(name), p.pos(d.Pos()), p.pos(bf.Pos())), p.pos(d.Pos()))
					}
				}
			}
		}
	}
	c.count("deferred_calls", ndefer)
	if nbad == 0 {
		c.ok(rule, "no deferred call overwrites memory that its function returns", fmt.Sprintf("%d deferred calls in functions that return local memory", ndefer), "")
	}
}

func init() {
	for prop, pres := range map[string][]string{"C01": {"kem", "hpke", "pke"}, "C11": nil} {
		prop, pres := prop, pres
		wrapProp(prop, func(c *Ctx, p *Program) {
			c.Clauses = append(c.Clauses, prop+".deferwipe: no deferred call overwrites memory of which the function returns a slice")
			checkDeferWipe(c, p, prop+".deferwipe", pres)
		})
	}
}

// SHALLOWCOPY: a constructor that copies a caller's slice of mutable objects copies the objects.
//
// `copy(p.c, coeffs)` with elements of interface or pointer type duplicates the references only: the new
// object and the caller's slice share every scalar, so a later write by the caller (reusing the slice,
// wiping values) changes what the object computes. Reported for a builtin copy whose element type is an
// interface or pointer, whose source is (a slice of) a parameter and whose destination is memory allocated
// by the function.
func checkShallowCopy(c *Ctx, p *Program, rule string, prefixes []string) {
	var fs []*ssa.Function
	for f := range p.AllFuncs {
		if f.Blocks != nil && isCirclFunc(f) && sourceFunc(f) && !strings.Contains(funcPkgPath(f), "/internal/test") && (prefixes == nil || inScope(f, prefixes)) {
			fs = append(fs, f)
		}
	}
	sort.Slice(fs, func(i, j int) bool { return fs[i].String() < fs[j].String() })
	n, nbad := 0, 0
	for _, f := range fs {
		for _, b := range f.Blocks {
			for _, in := range b.Instrs {
				cl, ok := in.(*ssa.Call)
				if !ok {
					continue
				}
				bi, ok := cl.Call.Value.(*ssa.Builtin)
				if !ok || bi.Name() != "copy" || len(cl.Call.Args) != 2 {
					continue
				}
				st, ok := cl.Call.Args[1].Type().Underlying().(*types.Slice)
				if !ok {
					continue
				}
				switch st.Elem().Underlying().(type) {
				case *types.Interface, *types.Pointer:
				default:
					continue
				}
				n++
				src, _ := memRoot(cl.Call.Args[1])
				dst, _ := memRoot(cl.Call.Args[0])
				if _, isPar := src.(*ssa.Parameter); !isPar {
					continue
				}
				fresh := false
				switch dst.(type) {
				case *ssa.MakeSlice, *ssa.Alloc:
					fresh = true
				}
				if !fresh {
					continue
				}
				nbad++
				c.bad(rule, fname(f)+": the elements of a caller's slice are copied, not shared", fmt.Sprintf("copy at %s duplicates %s references from parameter %s into memory the function allocated: the objects themselves are shared with the caller, who can change what this object computes afterwards", p.pos(cl.Pos()), st.Elem().String(), src.Name()), p.pos(cl.Pos()))
			}
		}
	}
	c.count("reference_copies", n)
	if nbad == 0 {
		c.ok(rule, "no constructor shares the elements of a caller's slice of mutable objects", fmt.Sprintf("%d copies of reference-typed elements inspected", n), "")
	}
}

func init() {
	for prop, pres := range map[string][]string{"C17": {"math/polynomial", "secretsharing", "tss"}, "C11": nil} {
		prop, pres := prop, pres
		wrapProp(prop, func(c *Ctx, p *Program) {
			c.Clauses = append(c.Clauses, prop+".shallowcopy: no constructor copies only the references of a caller's slice of interface or pointer elements into the object it builds")
			checkShallowCopy(c, p, prop+".shallowcopy", pres)
		})
	}
}
