package main

import (
	"fmt"
	"go/token"
	"go/types"
	"strings"

	"golang.org/x/tools/go/ssa"
)

func init() { registry["C17"] = checkC17 }

func checkC17(c *Ctx) {
	p := c.Prog("amd64")
	if p == nil {
		return
	}
	c.Clauses = append(c.Clauses,
		"C17.threshold: Recover refuses t or fewer shares and Verify refuses a commitment of the wrong length (decided by constant propagation on exact lengths), a zero identifier and a failed final comparison; CombineSignShares refuses too few / inconsistent shares and returns only a self-verified signature; Deal refuses invalid (players, threshold)",
		"C17.exact: threshold arithmetic uses no floating point, no truncating division before multiplication and no accumulating fixed-width product",
		"C17.distinct: Lagrange interpolation refuses repeated abscissae",
		"C17.dep: share verification depends on identifier, value and every commitment coefficient")
	c.NotDec = append(c.NotDec, "that interpolation recovers the secret (algebra)", "independence of the chosen subset beyond the exact-arithmetic conditions", "agreement with crypto/rsa verification")

	ss := "secretsharing"
	rec := p.Func(ss, "", "Recover")
	c.evalAcceptRule(p, "C17.threshold", "Recover with exactly t (=2) shares is refused", rec, map[string]lat{"t": latInt(2), "shares": latSliceLen(2)}, nil, false)
	c.evalAcceptRule(p, "C17.threshold", "Recover with no shares is refused (t=0)", rec, map[string]lat{"t": latInt(0), "shares": latSliceLen(0)}, nil, false)
	c.guard(p, "C17.threshold", "Recover refuses repeated share identifiers", rec, GuardSpec{Args: map[string]lat{"t": latInt(2), "shares": latSliceLen(3)}, Assumes: []Assume{calleeAssume(latFalse, -1, "math/polynomial.areAllDifferent")}})
	c.rejectReasonsRule(p, "C17.threshold", reasonSpec{pkg: ss, name: "Recover", why: "fewer than t+1 shares", conds: []string{`len\(param#1\) <= param#0`}})
	ver := p.Func(ss, "", "Verify")
	c.evalAcceptRule(p, "C17.threshold", "Verify with a commitment of t coefficients is refused", ver, map[string]lat{"t": latInt(2), "c": latSliceLen(2)}, nil, false)
	c.evalAcceptRule(p, "C17.threshold", "Verify with a commitment of t+2 coefficients is refused", ver, map[string]lat{"t": latInt(2), "c": latSliceLen(4)}, nil, false)
	okLen := map[string]lat{"t": latInt(2), "c": latSliceLen(3)}
	c.guard(p, "C17.threshold", "share with identifier zero is refused", ver, GuardSpec{Args: okLen, Assumes: []Assume{calleeAssume(latTrue, -1, "invoke (group.Scalar).IsZero")}})
	c.guard(p, "C17.threshold", "share accepted only if g^value equals the commitment evaluated at the identifier", ver, GuardSpec{Args: okLen, Assumes: []Assume{calleeAssume(latFalse, -1, "invoke (group.Element).IsEqual")}})
	c.rejectReasonsRule(p, "C17.threshold", reasonSpec{pkg: ss, name: "Verify", why: "commitment length, zero identifier, the Feldman equation",
		callees: []string{"invoke (group.Scalar).IsZero", "invoke (group.Element).IsEqual"}, conds: []string{`^\(len\(param#2\)!=\(param#0\+1\)\)$`}})
	c.depRule(p, "C17.dep", "verdict depends on share identifier, value and commitment", ver, sinkResult(), "param:s", "param:c")
	c.loopPassesThrough(p, "C17.dep", "every commitment coefficient enters the evaluation", ver, okLen, "sum.Add(sum, c[i])", p.isCallTo(0, nil, "invoke (group.Element).Add"))
	// Verify insists on exactly t+1 commitments: the dealer has to publish t+1 whatever the values of the
	// coefficients are (the degree of the polynomial drops when a drawn coefficient is zero)
	if cm := p.Func(ss, "SecretSharing", "CommitSecret"); cm == nil {
		c.undecided("C17.threshold", "CommitSecret publishes t+1 commitments", "anchor function does not resolve", "")
	} else {
		construct := fname(cm) + ": the number of commitments is t+1 whatever the coefficients are"
		d := p.Dep().analyse(cm)
		n, badDep, noT := 0, false, false
		for _, b := range cm.Blocks {
			for _, in := range b.Instrs {
				ms, ok := in.(*ssa.MakeSlice)
				if !ok {
					continue
				}
				n++
				labels := d.fullDep(ms.Len)
				if d.hasLabel(labels, "call:(math/polynomial.Polynomial).Degree") {
					badDep = true
				}
				if !d.hasLabel(labels, "param:"+currentParamName(cm, "ss")) {
					noT = true
				}
			}
		}
		switch {
		case n == 0:
			c.undecided("C17.threshold", construct, "no slice is made in the function", p.fnPos(cm))
		case badDep:
			c.bad("C17.threshold", construct, "the length of the commitment is the degree of the polynomial plus one, which is below t+1 when the leading coefficient is zero; Verify then refuses every dealt share", p.fnPos(cm))
		case noT:
			c.bad("C17.threshold", construct, "the length of the commitment does not depend on the sharing's threshold", p.fnPos(cm))
		default:
			c.ok("C17.threshold", construct, fmt.Sprintf("%d slice length(s): derived from the receiver, not from Polynomial.Degree", n), p.fnPos(cm))
		}
	}
	c.guard(p, "C17.threshold", "dealing a share for identifier zero is refused", p.Func(ss, "SecretSharing", "ShareWithID"),
		GuardSpec{Assumes: []Assume{calleeAssume(latTrue, -1, "invoke (group.Scalar).IsZero")}, Success: &successSpec{"returns (does not panic)", func([]lat) bool { return true }}})
	always := successSpec{"returns (does not panic)", func([]lat) bool { return true }}
	c.guard(p, "C17.distinct", "repeated abscissae are refused", p.Func("math/polynomial", "", "NewLagrangePolynomial"),
		GuardSpec{Assumes: []Assume{calleeAssume(latFalse, -1, "math/polynomial.areAllDifferent")}, Success: &always})
	c.evalAcceptRuleSpec(p, "C17.distinct", "abscissae and ordinates of different length are refused", p.Func("math/polynomial", "", "NewLagrangePolynomial"),
		map[string]lat{"x": latSliceLen(2), "y": latSliceLen(3)}, nil, nil, false, always)

	// threshold RSA
	tr := "tss/rsa"
	vp := p.Func(tr, "", "validateParams")
	for _, t := range []struct {
		l, k int64
		ok   bool
	}{{1, 1, false}, {0, 0, false}, {2, 0, false}, {2, 3, false}, {2, 2, true}, {2, 1, true}, {30, 30, true}, {30, 31, false}} {
		c.evalAcceptRule(p, "C17.threshold", sprintf("validateParams(players=%d, threshold=%d) accepted=%v", t.l, t.k, t.ok), vp, map[string]lat{"players": latInt(t.l), "threshold": latInt(t.k)}, nil, t.ok)
	}
	c.guard(p, "C17.threshold", "Deal only after parameter validation", p.Func(tr, "", "Deal"), GuardSpec{Assumes: []Assume{calleeAssume(latNonNil, -1, "tss/rsa.validateParams")}})
	// a share owns its identifier: the dealer may reuse (and change) the scalar it passed in
	c.fieldStoreRule(p, "C17.distinct", "the share keeps a copy of the identifier it was dealt for", p.Func("secretsharing", "SecretSharing", "ShareWithID"), "ID", `call:invoke \(group\.Scalar\)\.Copy.*`)
	// Shoup's combination inverts e modulo 4(l!)^2: a key whose public exponent shares a factor with l! deals
	// shares that can never be combined, so Deal has to refuse it
	c.guard(p, "C17.threshold", "Deal refuses a public exponent that is not coprime to players!", p.Func(tr, "", "Deal"),
		GuardSpec{Assumes: []Assume{{Name: "gcd(e, l!) compared with 1", Result: -1, Val: latInt(1), Match: func(ci ssa.CallInstruction, callee string, _ *ssa.Function) bool {
			if callee != "(*math/big.Int).Cmp" || len(ci.Common().Args) < 1 {
				return false
			}
			g, ok := ci.Common().Args[0].(*ssa.Call)
			return ok && p.staticCalleeName(&g.Call) == "(*math/big.Int).GCD"
		}}}})
	// PSS salt length selection: -1 (rsa.PSSSaltLengthEqualsHash, the TLS 1.3 choice) means the hash size and 0
	// (rsa.PSSSaltLengthAuto) the maximum - decided on the switch of PadPSS by constant propagation
	{
		pp := p.Func(tr+"/internal/pss", "", "PadPSS")
		saltLoad := func(v ssa.Value, _ *ssa.Function) bool {
			u, ok := v.(*ssa.UnOp)
			if !ok || u.Op != token.MUL {
				return false
			}
			fa, ok := u.X.(*ssa.FieldAddr)
			return ok && fieldName(fa) == "SaltLength"
		}
		for _, t := range []struct {
			v       int64
			maximal bool
			what    string
		}{{-1, false, "PSSSaltLengthEqualsHash selects a salt of the hash size, not the maximal one"}, {0, true, "PSSSaltLengthAuto selects the maximal salt"}, {20, false, "an explicit salt length is used as given"}} {
			c.reachRule(p, "C17.exact", t.what, pp, map[string]lat{"opts": latNonNil}, nil,
				[]ValAssume{{Name: sprintf("opts.SaltLength = %d", t.v), Match: saltLoad, Val: latInt(t.v)}}, "(*math/big.Int).BitLen", t.maximal)
		}
	}
	// the combiner refuses a share list only when it is too short, mixes dealings, has no integer Lagrange
	// coefficient or fails the final self-check: any qualified set of players, the last one included, combines
	c.rejectReasonsRule(p, "C17.threshold", reasonSpec{pkg: tr, name: "CombineSignShares", why: "too few shares, shares of different dealings, Lagrange coefficient, final self-check",
		callees: []string{"(*math/big.Int).Cmp", tr + ".computeLambda"},
		conds:   []string{`len\(param#1\) < param#1\[0\]\.Threshold`, `param#1\[.*\]\.Players != param#1\[0\]\.Players`, `param#1\[.*\]\.Threshold != param#1\[0\]\.Threshold`}})
	checkDigestInfoPrefixes(c, p, "C17.exact")
	cs := p.Func(tr, "", "CombineSignShares")
	c.evalAcceptRule(p, "C17.threshold", "empty share list is refused", cs, map[string]lat{"shares": latSliceLen(0)}, nil, false)
	c.guard(p, "C17.threshold", "combined signature is returned only after the self-check y^e == x", cs, GuardSpec{Args: map[string]lat{"shares": latNonEmpty}, Assumes: []Assume{calleeAssume(latInt(1), -1, "(*math/big.Int).Cmp")}})
	c.guardEachSite(p, "C17.threshold", "a failing Lagrange coefficient computation is an error", cs, 1, latNonNil, "tss/rsa.computeLambda")
	// the share set S of the Lagrange coefficients λ(S,0,i) is the set the product ranges over
	if cs != nil {
		construct := fname(cs) + ": the Lagrange coefficients are computed for the same share set the product ranges over"
		var sets, bases []string
		for _, b := range cs.Blocks {
			for _, in := range b.Instrs {
				switch x := in.(type) {
				case *ssa.Call:
					if normName(p.staticCalleeName(&x.Call)) == "tss/rsa.computeLambda" && len(x.Call.Args) >= 2 {
						sets = append(sets, descVal(x.Call.Args[1]))
					}
				case *ssa.IndexAddr:
					if sl, ok := x.X.Type().Underlying().(*types.Slice); ok && strings.HasSuffix(sl.Elem().String(), "tss/rsa.SignShare") {
						bases = append(bases, descVal(x.X))
					}
				}
			}
		}
		okAll := len(sets) > 0 && len(bases) > 0
		for _, b := range bases {
			for _, s := range sets {
				if b != s {
					okAll = false
				}
			}
		}
		switch {
		case len(sets) == 0 || len(bases) == 0:
			c.undecided("C17.threshold", construct, "computeLambda call or share loop not found", p.fnPos(cs))
		case okAll:
			c.ok("C17.threshold", construct, fmt.Sprintf("both use %s", sets[0]), p.fnPos(cs))
		default:
			c.bad("C17.threshold", construct, fmt.Sprintf("λ is computed for %v but the shares are taken from %v", sets, bases), p.fnPos(cs))
		}
	}

	// exact arithmetic
	c.noFloat(p, "C17.exact", tr, ss, "math/polynomial", "math")
	c.divThenMul(p, "C17.exact", tr, ss, "math/polynomial")
	c.noFixedWidthProduct(p, "C17.exact", tr)
}
