package main

import (
	"flag"
	"fmt"
	"os"
	"path/filepath"
	"runtime"
	"runtime/debug"
	"sort"
	"strconv"
	"time"
)

type propFunc func(c *Ctx)

var registry = map[string]propFunc{}

func main() {
	// Page faults are expensive in the sandbox VM and contend across threads: the analysis is
	// mostly sequential, so a few threads are fastest (measured: 4 procs 3.5 s vs 16 procs 6-16 s).
	if os.Getenv("GOMAXPROCS") == "" {
		runtime.GOMAXPROCS(4)
	}
	prop := flag.String("property", "", "property id (C01..C20)")
	tier := flag.String("tier", "quick", "quick|thorough")
	repo := flag.String("repo", "/repo", "repository root")
	verif := flag.String("verif", "", "verif root (default: parent of the binary's dir)")
	evid := flag.String("evidence", "", "evidence file (default <verif>/evidence/<id>.json)")
	list := flag.Bool("list", false, "list properties with checks")
	flag.Parse()
	if *list {
		var ks []string
		for k := range registry {
			ks = append(ks, k)
		}
		sort.Strings(ks)
		for _, k := range ks {
			fmt.Println(k)
		}
		return
	}
	if t := os.Getenv("VERIF_TIER"); t == "quick" || t == "thorough" {
		*tier = t
	}
	seed := 0
	if s := os.Getenv("VERIF_SEED"); s != "" {
		if n, err := strconv.Atoi(s); err == nil {
			seed = n
		}
	}
	if *verif == "" {
		exe, _ := os.Executable()
		*verif = filepath.Dir(filepath.Dir(exe))
	}
	if *evid == "" {
		*evid = filepath.Join(*verif, "evidence", *prop+".json")
	}
	f, ok := registry[*prop]
	if !ok {
		fmt.Printf("unknown property %q\n", *prop)
		os.Exit(2)
	}
	r, err := filepath.Abs(*repo)
	if err != nil {
		fmt.Println(err)
		os.Exit(2)
	}
	start := time.Now()
	known, err := loadKnown(filepath.Join(*verif, "known-findings.txt"))
	if err != nil {
		fmt.Printf("cannot read known findings: %v\n", err)
		os.Exit(2)
	}
	c := &Ctx{Prop: *prop, Tier: *tier, Repo: r, Verif: *verif, progs: map[string]*Program{}, Counters: map[string]int{}, known: known, cur: "amd64"}
	func() {
		defer func() {
			if e := recover(); e != nil {
				// a panic in the analyser is an undecided obligation, never a pass
				c.undecided(c.Prop+".internal", "analyser panic", fmt.Sprintf("%v\n%s", e, debug.Stack()), "")
			}
		}()
		f(c)
	}()
	// thorough tier: the same rules on the other build configurations (C14 compares them itself)
	if *tier == "thorough" && *prop != "C14" {
		for _, cfg := range []string{"amd64-purego", "arm64"} {
			c.override, c.cur = cfg, cfg
			func() {
				defer func() {
					if e := recover(); e != nil {
						c.undecided(c.Prop+".internal", "analyser panic ("+cfg+")", fmt.Sprintf("%v\n%s", e, debug.Stack()), "")
					}
				}()
				f(c)
			}()
		}
		c.override, c.cur = "", "amd64"
	}
	if *tier == "thorough" && os.Getenv("CIRCLVERIF_NO_SELFTEST") == "" {
		runSelfTest(c)
	}
	writeParamRecords()
	os.Exit(c.finish(seed, start, *evid))
}
