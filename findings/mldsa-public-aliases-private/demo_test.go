package mldsa65_test

// Demonstration (C11): the public key returned by PrivateKey.Public() (and by key generation) pointed
// into the private key object (matrix A and tr). Re-decoding another key into the same private key
// object silently changed the public key handed out earlier, so signatures that verified stopped
// verifying. Same code in all Dilithium / ML-DSA modes (one template).
//
// Copy to sign/mldsa/mldsa65/ and run: go test -run TestDemoPublicAliasesPrivate ./sign/mldsa/mldsa65/

import (
	"testing"

	"github.com/cloudflare/circl/sign/mldsa/mldsa65"
)

func TestDemoPublicAliasesPrivate(t *testing.T) {
	var seedA, seedB [32]byte
	seedB[0] = 1
	_, skA := mldsa65.NewKeyFromSeed(&seedA)
	_, skB := mldsa65.NewKeyFromSeed(&seedB)
	a, _ := skA.MarshalBinary()
	b, _ := skB.MarshalBinary()

	var sk mldsa65.PrivateKey
	if err := sk.UnmarshalBinary(a); err != nil {
		t.Fatal(err)
	}
	pk := sk.Public().(*mldsa65.PublicKey)
	msg := []byte("message")
	sig := make([]byte, mldsa65.SignatureSize)
	if err := mldsa65.SignTo(&sk, msg, nil, false, sig); err != nil {
		t.Fatal(err)
	}
	if !mldsa65.Verify(pk, msg, nil, sig) {
		t.Fatal("honest signature rejected")
	}
	before, _ := pk.MarshalBinary()
	if err := sk.UnmarshalBinary(b); err != nil { // reuse the private key object for another key
		t.Fatal(err)
	}
	if !mldsa65.Verify(pk, msg, nil, sig) {
		t.Error("the public key obtained earlier stopped verifying after the private key object was re-decoded")
	}
	after, _ := pk.MarshalBinary()
	_ = before
	_ = after
}
