package dleq_test

// Demonstration (C10): Verifier.VerifyBatch (and Prover.ProveBatch) index kbi by the positions of bi;
// with fewer evaluated elements than inputs they panic (index out of range) instead of rejecting.
//
// Copy to zk/dleq/ and run: go test -run TestDemoBatchLengths ./zk/dleq/

import (
	"crypto"
	"crypto/rand"
	"testing"

	"github.com/cloudflare/circl/group"
	"github.com/cloudflare/circl/zk/dleq"
)

func TestDemoBatchLengths(t *testing.T) {
	g := group.P256
	params := dleq.Params{G: g, H: crypto.SHA256, DST: []byte("demo")}
	k := g.RandomScalar(rand.Reader)
	a := g.Generator()
	ka := g.NewElement().Mul(a, k)
	b0, b1 := g.RandomElement(rand.Reader), g.RandomElement(rand.Reader)
	kb0, kb1 := g.NewElement().Mul(b0, k), g.NewElement().Mul(b1, k)
	bi, kbi := []group.Element{b0, b1}, []group.Element{kb0, kb1}
	proof, err := dleq.Prover{Params: params}.ProveBatch(k, a, ka, bi, kbi, rand.Reader)
	if err != nil {
		t.Fatal(err)
	}
	v := dleq.Verifier{Params: params}
	if !v.VerifyBatch(a, ka, bi, kbi, proof) {
		t.Fatal("honest batch proof rejected")
	}
	func() {
		defer func() {
			if r := recover(); r != nil {
				t.Errorf("VerifyBatch panicked on fewer evaluated elements: %v", r)
			}
		}()
		if v.VerifyBatch(a, ka, bi, kbi[:1], proof) {
			t.Error("mismatched batch accepted")
		}
	}()
	func() {
		defer func() {
			if r := recover(); r != nil {
				t.Errorf("ProveBatch panicked on fewer evaluated elements: %v", r)
			}
		}()
		if _, err := (dleq.Prover{Params: params}).ProveBatch(k, a, ka, bi, kbi[:1], rand.Reader); err == nil {
			t.Error("mismatched batch proved")
		}
	}()
}
