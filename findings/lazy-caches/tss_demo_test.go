package rsa

// Demonstrates (C11): KeyShare.Sign caches 2Δs_i in the share without synchronisation: concurrent
// signing with one share is a data race. Place in /repo/tss/rsa: go test -race -run TestFindingLazyCache ./tss/rsa/

import (
	"crypto"
	"crypto/rand"
	"sync"
	"testing"
)

func TestFindingLazyCache(t *testing.T) {
	key, err := GenerateKey(rand.Reader, 512)
	if err != nil {
		t.Fatal(err)
	}
	shares, err := Deal(rand.Reader, 3, 2, key, false)
	if err != nil {
		t.Fatal(err)
	}
	padded, _ := PadHash(&PKCS1v15Padder{}, crypto.SHA256, &key.PublicKey, []byte("m"))
	var wg sync.WaitGroup
	for g := 0; g < 8; g++ {
		wg.Add(1)
		go func() {
			defer wg.Done()
			if _, err := shares[0].Sign(nil, &key.PublicKey, padded, false); err != nil {
				t.Error(err)
			}
		}()
	}
	wg.Wait()
}
