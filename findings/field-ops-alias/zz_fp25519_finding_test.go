package fp25519_test

// Field operations give the same result when the destination is one of the sources.
// Copy to math/fp25519/ (and the fp448 twin to math/fp448/) and run: go test -run TestFindingInvSqrtAlias ./math/fp25519/

import (
	"testing"

	fp "github.com/cloudflare/circl/math/fp25519"
)

func TestFindingInvSqrtAlias(t *testing.T) {
	var x, y, z fp.Elt
	x[0], y[0] = 4, 1
	if !fp.InvSqrt(&z, &x, &y) {
		t.Fatal("sqrt(4/1) reported as non-residue")
	}
	xx, yy := x, y
	if !fp.InvSqrt(&xx, &xx, &yy) {
		t.Errorf("InvSqrt(&x, &x, &y) with x=4, y=1 reports a non-residue (destination = first source)")
	}
	x[0], y[0] = 4, 9
	xx, yy = x, y
	if !fp.InvSqrt(&z, &x, &y) {
		t.Fatal("sqrt(4/9) reported as non-residue")
	}
	if !fp.InvSqrt(&yy, &xx, &yy) {
		t.Errorf("InvSqrt(&y, &x, &y) with x=4, y=9 reports a non-residue (destination = second source)")
	}
}
