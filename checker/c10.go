package main

import (
	"bufio"
	"fmt"
	"go/constant"
	"go/token"
	"go/types"
	"os"
	"os/exec"
	"path/filepath"
	"regexp"
	"sort"
	"strings"

	"golang.org/x/tools/go/ssa"
)

func init() { registry["C10"] = checkC10 }

var decoderName = regexp.MustCompile(`^(Unmarshal|SetBytes|FromBytes|FromString|Import|Unpack|Parse|Decode|Verify|Decapsulate|AuthDecapsulate|Open|Decrypt|Setup|Finalize|ExtractFromCiphertext|CouldDecrypt|Recover|CombineSignShares|BlindSign|PrepInit|PrepNext|PrepSharesToPrep|Unshard|Evaluate|FullEvaluate|VerifyFinalize|Round\d|Run|SchemeByOid)`)

func untrustedParam(t types.Type) bool {
	switch u := t.Underlying().(type) {
	case *types.Slice:
		if b, ok := u.Elem().Underlying().(*types.Basic); ok && b.Kind() == types.Uint8 {
			return true
		}
		// slices of byte slices ([][]byte)
		if s, ok := u.Elem().Underlying().(*types.Slice); ok {
			if b, ok := s.Elem().Underlying().(*types.Basic); ok && b.Kind() == types.Uint8 {
				return true
			}
		}
	case *types.Basic:
		return u.Kind() == types.String
	}
	return false
}

func canFail(sig *types.Signature) bool {
	for i := 0; i < sig.Results().Len(); i++ {
		t := sig.Results().At(i).Type()
		if isErrorType(t) {
			return true
		}
		if b, ok := t.Underlying().(*types.Basic); ok && b.Kind() == types.Bool {
			return true
		}
	}
	return false
}

// decoders enumerates the decoding entry points: exported functions/methods of non-internal circl
// packages (or exported methods of internal types reachable through type aliases) with an untrusted
// byte/string parameter and a way to report failure, whose name is in the decoding class.
func (p *Program) decoders() []*ssa.Function {
	var out []*ssa.Function
	for f := range p.AllFuncs {
		if f.Blocks == nil || !isCirclFunc(f) || f.Object() == nil || !f.Object().Exported() || f.Synthetic != "" || f.Parent() != nil {
			continue
		}
		if f.Origin() != nil && f.Origin() != f {
			continue // instantiations: the generic body is analysed
		}
		pp := funcPkgPath(f)
		if strings.Contains(pp, "/internal") || strings.HasSuffix(pp, "/asm") || strings.Contains(pp, "/templates") {
			continue
		}
		if !decoderName.MatchString(f.Name()) || !canFail(f.Signature) {
			continue
		}
		has := false
		for _, par := range f.Params {
			if untrustedParam(par.Type()) {
				has = true
			}
		}
		if !has {
			continue
		}
		out = append(out, f)
	}
	sort.Slice(out, func(i, j int) bool { return out[i].String() < out[j].String() })
	return out
}

type bceSite struct {
	file      string
	line, col int
	kind      string
}

// gcUnproven runs the Go compiler's prove pass over the repository and returns the positions
// (file relative to the repo root) of the bounds checks it could not eliminate.
func gcUnproven(repo string, cfg Config) (map[string]bool, int, error) {
	cache, err := os.MkdirTemp("", "circlverif-gocache-")
	if err != nil {
		return nil, 0, err
	}
	defer os.RemoveAll(cache)
	args := []string{"build", "-gcflags=all=-d=ssa/check_bce/debug=1"}
	if cfg.Tags != "" {
		args = append(args, "-tags="+cfg.Tags)
	}
	args = append(args, "./...")
	cmd := exec.Command("go", args...)
	cmd.Dir = repo
	cmd.Env = append(os.Environ(), "GOFLAGS=-mod=mod", "GOPROXY=off", "GOSUMDB=off", "GOTOOLCHAIN=local", "GOWORK=off", "GOOS=linux", "GOARCH="+cfg.GOARCH, "CGO_ENABLED=0", "GOCACHE="+cache)
	outb, err := cmd.CombinedOutput()
	if err != nil && !strings.Contains(string(outb), "Found Is") {
		return nil, 0, fmt.Errorf("go build for the bounds-check report failed: %v: %s", err, abbrev(string(outb)))
	}
	sites := map[string]bool{}
	n := 0
	sc := bufio.NewScanner(strings.NewReader(string(outb)))
	sc.Buffer(make([]byte, 1<<20), 1<<24)
	re := regexp.MustCompile(`^(\S+\.go):(\d+):(\d+): Found Is(Slice)?InBounds`)
	for sc.Scan() {
		m := re.FindStringSubmatch(sc.Text())
		if m == nil {
			continue
		}
		file := m[1]
		if filepath.IsAbs(file) {
			if !strings.HasPrefix(file, repo+"/") {
				continue
			}
			file = strings.TrimPrefix(file, repo+"/")
		}
		file = strings.TrimPrefix(file, "./")
		sites[fmt.Sprintf("%s:%s:%s", file, m[2], m[3])] = true
		n++
	}
	return sites, n, nil
}

func (p *Program) posKey(ps token.Pos) string {
	q := p.Fset.Position(ps)
	return fmt.Sprintf("%s:%d:%d", strings.TrimPrefix(q.Filename, p.Repo+"/"), q.Line, q.Column)
}

func checkC10(c *Ctx) {
	p := c.Prog("amd64")
	if p == nil {
		return
	}
	decs := p.decoders()
	c.count("decoders", len(decs))
	fmt.Printf("decoders: %d\n", len(decs))
	if os.Getenv("DBGDEC") != "" {
		for _, d := range decs {
			fmt.Println("  ", fname(d))
		}
	}
	sites, n, err := gcUnproven(p.Repo, p.Cfg)
	if err != nil {
		c.undecided("C10.bounds", "compiler bounds-check report", err.Error(), "")
		return
	}
	fmt.Printf("gc unproven checks: %d lines, %d distinct positions in the repository\n", n, len(sites))
	t := newTaint(p)
	for _, d := range decs {
		t.seed(d)
	}
	t.run()
	fmt.Printf("tainted-reachable functions: %d\n", len(t.funcs))
	isDecoder := map[*ssa.Function]bool{}
	for _, d := range decs {
		isDecoder[d] = true
	}
	eng := newLenEngine(p)
	type pending struct {
		par   *ssa.Parameter
		k     int64
		why   string
		conds []intCond
	}
	var queue []pending
	seenReq := map[string]int64{}
	need := func(par *ssa.Parameter, k int64, why string, conds []intCond) {
		if k <= 0 {
			return
		}
		key := fmt.Sprintf("%p", par)
		for _, cd := range conds {
			key += fmt.Sprintf("|%p=%d", cd.par, cd.val)
		}
		if old, ok := seenReq[key]; ok && old >= k {
			return
		}
		seenReq[key] = k
		queue = append(queue, pending{par, k, why, conds})
	}
	eng.intervals(t, decs)
	nops, nun := 0, 0
	verdicts := map[string]int{}
	var undec []string
	var funcs []*ssa.Function
	for f := range t.funcs {
		funcs = append(funcs, f)
	}
	sort.Slice(funcs, func(i, j int) bool { return funcs[i].String() < funcs[j].String() })
	for _, f := range funcs {
		for _, b := range f.Blocks {
			for _, in := range b.Instrs {
				var o boundsOp
				switch x := in.(type) {
				case *ssa.IndexAddr:
					o = boundsOp{f: f, in: in, base: x.X, idx: x.Index}
				case *ssa.Index:
					o = boundsOp{f: f, in: in, base: x.X, idx: x.Index}
				case *ssa.Slice:
					o = boundsOp{f: f, in: in, base: x.X, lo: x.Low, hi: x.High, isSlice: true}
				default:
					continue
				}
				tb := t.isTainted(o.base)
				ti := (o.idx != nil && t.isTainted(o.idx)) || (o.lo != nil && t.isTainted(o.lo)) || (o.hi != nil && t.isTainted(o.hi))
				if !tb && !ti {
					continue
				}
				nops++
				if !sites[p.posKey(in.Pos())] {
					verdicts["gc-prove"]++
					continue
				}
				nun++
				v, par, k, detail := eng.decide(o)
				verdicts[v]++
				switch v {
				case "requires":
					need(par, k, fmt.Sprintf("%s at %s in %s", o.desc(), p.pos(in.Pos()), fname(f)), eng.ctxOf(f).condsAt(in))
				case "undecided":
					undec = append(undec, fmt.Sprintf("%s: %s: %s: %s", p.pos(in.Pos()), fname(f), o.desc(), detail))
				}
			}
		}
	}
	// propagate length requirements to the call sites
	cg := p.CallGraph()
	var entryViol []string
	for len(queue) > 0 {
		q := queue[0]
		queue = queue[1:]
		callee := q.par.Parent()
		pi := -1
		for i, pp := range callee.Params {
			if pp == q.par {
				pi = i
			}
		}
		if isDecoder[callee] && t.params[q.par] {
			entryViol = append(entryViol, fmt.Sprintf("%s: %s panics unless len(%s) ≥ %d (%s)", p.fnPos(callee), fname(callee), q.par.Name(), q.k, q.why))
		}
		node := cg.Nodes[callee]
		if node == nil {
			continue
		}
		for _, e := range node.In {
			caller := e.Caller.Func
			if !t.funcs[caller] || e.Site == nil {
				continue
			}
			c0 := e.Site.Common()
			var args []ssa.Value
			if c0.IsInvoke() {
				args = append(args, c0.Value)
			}
			args = append(args, c0.Args...)
			if pi < 0 || pi >= len(args) || len(args) != len(callee.Params) {
				continue
			}
			arg := args[pi]
			if !t.isTainted(arg) {
				continue
			}
			// conditional requirement: skip call sites whose constant arguments contradict the condition
			skip := false
			var upConds []intCond
			for _, cd := range q.conds {
				for i, pp := range callee.Params {
					if pp != cd.par {
						continue
					}
					switch a := args[i].(type) {
					case *ssa.Const:
						if a.Value != nil {
							if n, ok := constant.Int64Val(a.Value); ok && n != cd.val {
								skip = true
							}
						}
					case *ssa.Parameter:
						upConds = append(upConds, intCond{a, cd.val})
					}
				}
			}
			if skip {
				verdicts["call-site-not-applicable"]++
				continue
			}
			allConds := append(append([]intCond(nil), upConds...), eng.ctxOf(caller).condsAt(e.Site)...)
			lc := eng.ctxWith(caller, allConds)
			facts := append(lc.factsAt(e.Site), eng.paramFactsIn(lc, caller)...)
			g := lc.lenOf(arg).plus(-q.k)
			if lc.prove(g, facts) {
				verdicts["call-site"]++
				continue
			}
			if rp := rootParam(arg); rp != nil {
				la := lc.lenOf(rp)
				try := func(K int64) bool { return lc.prove(g, append(append([]lin(nil), facts...), la.plus(-K))) }
				if try(1 << 20) {
					lo, hi := int64(0), int64(1<<20)
					for lo < hi {
						mid := (lo + hi) / 2
						if try(mid) {
							hi = mid
						} else {
							lo = mid + 1
						}
					}
					verdicts["call-site-requires"]++
					need(rp, lo, fmt.Sprintf("call of %s at %s needs len ≥ %d: %s", fname(callee), p.pos(e.Site.Pos()), q.k, q.why), allConds)
					continue
				}
			}
			verdicts["call-undecided"]++
			undec = append(undec, fmt.Sprintf("%s: %s: call of %s needs len(%s) ≥ %d [%s]: cannot prove %s ≥ 0", p.pos(e.Site.Pos()), fname(caller), fname(callee), descVal(arg), q.k, q.why, g.String()))
		}
	}
	fmt.Printf("tainted bounds operations: %d, of which not proven by the compiler: %d\n", nops, nun)
	fmt.Printf("verdicts: %v\n", verdicts)
	sort.Strings(undec)
	for _, u := range undec {
		fmt.Println("UNDECIDED", u)
	}
	sort.Strings(entryViol)
	for _, u := range entryViol {
		fmt.Println("ENTRY", u)
	}
	c.ok("C10.survey", "survey", "survey only", "")
}
