package main

import (
	"fmt"
	"go/token"
	"sort"
	"strings"

	"golang.org/x/tools/go/ssa"
)

func init() { registry["C20"] = checkC20 }

// lookupOK matches the ", ok" result of a map lookup.
func lookupOK(v ssa.Value, _ *ssa.Function) bool {
	ex, ok := v.(*ssa.Extract)
	if !ok || ex.Index != 1 {
		return false
	}
	lk, ok := ex.Tuple.(*ssa.Lookup)
	return ok && lk.CommaOk
}

func checkC20(c *Ctx) {
	p := c.Prog("amd64")
	if p == nil {
		return
	}
	c.Clauses = append(c.Clauses,
		"C20.cca: CCA decryption returns plaintext only if the recomputed tag and the recomputed id both compare equal, every decoding/decapsulation step succeeded, and the MAC covers the transmitted header and envelope",
		"C20.leaf: the leaf semantics table of policy satisfaction (label missing / positive-equal / positive-different / negated-equal / negated-different) decided by constant propagation",
		"C20.agree: Policy.Satisfaction and Attributes.CouldDecrypt are decided by the same satisfaction routine; ExtractFromCiphertext and CouldDecrypt fail when the header does not parse",
		"C20.parse: policy parsing reports lexer/parser errors instead of producing a policy")
	c.NotDec = append(c.NotDec, "the iff between decryption and policy satisfaction (pairing algebra)", "De Morgan rewriting of nested negation", "marshal/print round trips (length handling is covered by C10)")

	// De Morgan: under a negation `and` becomes an or-gate and `or` an and-gate; the two gate builders decide
	// "am I under a negation" by the same test of the parser state (sibling agreement)
	{
		conds := func(f *ssa.Function) []string {
			set := map[string]bool{}
			if f == nil {
				return nil
			}
			for _, b := range f.Blocks {
				ifi, ok := b.Instrs[len(b.Instrs)-1].(*ssa.If)
				if !ok {
					continue
				}
				d := descVal(ifi.Cond)
				if strings.Contains(d, "param#0.") && !strings.Contains(d, "tokens") && !strings.Contains(d, "call:") {
					set[d] = true
				}
			}
			var out []string
			for k := range set {
				out = append(out, k)
			}
			sort.Strings(out)
			return out
		}
		fa, fo := p.Func("abe/cpabe/tkn20/internal/dsl", "Parser", "and"), p.Func("abe/cpabe/tkn20/internal/dsl", "Parser", "or")
		what := "(*dsl.Parser).and / or: both swap their gate under the same test of the negation state"
		ca, co := conds(fa), conds(fo)
		switch {
		case fa == nil || fo == nil:
			c.undecided("C20.parse", what, "anchor functions do not resolve", "")
		case len(ca) == 0 || len(co) == 0:
			c.bad("C20.parse", what, fmt.Sprintf("a gate builder does not consult the parser state at all (and: %v, or: %v)", ca, co), p.fnPos(fa))
		case strings.Join(ca, " ; ") != strings.Join(co, " ; "):
			c.bad("C20.parse", what, fmt.Sprintf("and() branches on %v, or() on %v: one of them mis-handles some nesting of negations", ca, co), p.fnPos(fa))
		default:
			c.ok("C20.parse", what, fmt.Sprintf("both branch on %v", ca), p.fnPos(fa))
		}
		// ... and their loops carry the same state from one operand to the next (the wire of the expression
		// built so far): a chain `a and b and c` must feed the output of the first gate into the second
		if fa != nil && fo != nil {
			carried := func(f *ssa.Function) []string {
				hdrs := loopHeadersOf(f)
				isHdr := map[int]bool{}
				for _, hs := range hdrs {
					for _, h := range hs {
						isHdr[h] = true
					}
				}
				var out []string
				for _, b := range f.Blocks {
					if !isHdr[b.Index] {
						continue
					}
					for _, in := range b.Instrs {
						ph, ok := in.(*ssa.Phi)
						if !ok {
							break
						}
						if len(*ph.Referrers()) > 0 {
							out = append(out, ph.Type().String())
						}
					}
				}
				sort.Strings(out)
				return out
			}
			pa, po := carried(fa), carried(fo)
			what2 := "(*dsl.Parser).and / or: the two operand loops carry the same values from one iteration to the next"
			if strings.Join(pa, ",") != strings.Join(po, ",") {
				c.bad("C20.parse", what2, fmt.Sprintf("and() carries %v, or() carries %v: one of them keeps using the first operand for every further gate", pa, po), p.fnPos(fa))
			} else {
				c.ok("C20.parse", what2, fmt.Sprintf("both carry %v", pa), p.fnPos(fa))
			}
		}
	}

	// linear secret sharing over the formula: at an and-gate one input gets a fresh random matrix and the other
	// the difference to the gate's share. The random matrix has to stay one of the two shares: if it becomes
	// the destination of a later matrix operation, one input carries the whole secret and the other nothing
	{
		tkp := "abe/cpabe/tkn20/internal/tkn"
		f := p.Func(tkp, "Formula", "share")
		what := "(*tkn.Formula).share: the matrix drawn at random for an and-gate stays one of the gate's two input shares"
		if f == nil {
			c.undecided("C20.share", what, "anchor function does not resolve", "")
		} else {
			n := 0
			var bad []string
			for _, b := range f.Blocks {
				for i, in := range b.Instrs {
					st, ok := in.(*ssa.Store)
					if !ok {
						continue
					}
					ex, ok := st.Val.(*ssa.Extract)
					if !ok {
						continue
					}
					cl, ok := ex.Tuple.(*ssa.Call)
					if !ok || normName(p.staticCalleeName(&cl.Call)) != tkp+".randomMatrixZp" {
						continue
					}
					n++
					slot := descAddr(st.Addr)
					// later uses of the same slot, in blocks this store dominates
					for _, b2 := range f.Blocks {
						if !b.Dominates(b2) {
							continue
						}
						for j, in2 := range b2.Instrs {
							if b2 == b && j <= i {
								continue
							}
							ci, ok := in2.(ssa.CallInstruction)
							if !ok || len(ci.Common().Args) == 0 {
								continue
							}
							ld, ok := ci.Common().Args[0].(*ssa.UnOp)
							if !ok || ld.Op != token.MUL || descAddr(ld.X) != slot {
								continue
							}
							cal := ci.Common().StaticCallee()
							if cal == nil || cal.Blocks == nil {
								continue
							}
							for _, w := range p.Mod().of(cal) {
								if w.Root == "param#0" {
									bad = append(bad, fmt.Sprintf("the random matrix stored at %s is overwritten by %s at %s", p.pos(st.Pos()), shortCallee(p.staticCalleeName(ci.Common())), p.pos(in2.Pos())))
									break
								}
							}
						}
					}
				}
			}
			switch {
			case n == 0:
				c.bad("C20.share", what, "no random matrix is drawn: the shares of an and-gate are not randomised", p.fnPos(f))
			case len(bad) > 0:
				c.bad("C20.share", what, strings.Join(bad, "; ")+": that input carries the whole share of the gate and the other input nothing", p.fnPos(f))
			default:
				c.ok("C20.share", what, fmt.Sprintf("%d random draw(s), none overwritten", n), p.fnPos(f))
			}
		}
	}

	// Boneh-Katz transform of the attributes: the reserved wildcard entry is the last thing written into the
	// map - a caller attribute that happens to carry the reserved label must not replace it
	{
		f := p.Func("abe/cpabe/tkn20/internal/tkn", "", "transformAttrsBK")
		what := "tkn.transformAttrsBK: nothing is written into the attribute map after the reserved Boneh-Katz entry"
		if f == nil {
			c.undecided("C20.cca", what, "anchor function does not resolve", "")
		} else {
			var bk, other []*ssa.MapUpdate
			for _, b := range f.Blocks {
				for _, in := range b.Instrs {
					if mu, ok := in.(*ssa.MapUpdate); ok {
						if _, isConst := mu.Key.(*ssa.Const); isConst {
							bk = append(bk, mu)
						} else {
							other = append(other, mu)
						}
					}
				}
			}
			reach := func(from, to *ssa.BasicBlock) bool {
				seen := map[int]bool{}
				stack := []*ssa.BasicBlock{from}
				for len(stack) > 0 {
					x := stack[len(stack)-1]
					stack = stack[:len(stack)-1]
					for _, s := range x.Succs {
						if s == to {
							return true
						}
						if !seen[s.Index] {
							seen[s.Index] = true
							stack = append(stack, s)
						}
					}
				}
				return false
			}
			idx := func(in ssa.Instruction) int {
				for i, x := range in.Block().Instrs {
					if x == in {
						return i
					}
				}
				return -1
			}
			var bad []string
			for _, a := range bk {
				for _, o := range other {
					if (a.Block() == o.Block() && idx(o) > idx(a)) || reach(a.Block(), o.Block()) {
						bad = append(bad, fmt.Sprintf("the entry written at %s can be overwritten by the copy at %s", p.pos(a.Pos()), p.pos(o.Pos())))
					}
				}
			}
			switch {
			case len(bk) == 0:
				c.bad("C20.cca", what, "the reserved entry is never written", p.fnPos(f))
			case len(bad) > 0:
				c.bad("C20.cca", what, strings.Join(bad, "; ")+": an attribute with the reserved label changes whether decryption succeeds", p.fnPos(f))
			default:
				c.ok("C20.cca", what, fmt.Sprintf("%d write(s) of the reserved entry, %d copy site(s), none after it", len(bk), len(other)), p.fnPos(f))
			}
		}
	}
	// attribute values are case-sensitive strings: the scalar of a value is derived from the value as written
	// (policy leaves and attribute maps share this function; normalising here makes US and us one value)
	if hf := p.Func("abe/cpabe/tkn20/internal/tkn", "", "HashStringToScalar"); hf == nil {
		c.undecided("C20.leaf", "tkn.HashStringToScalar: the value is hashed as given", "anchor does not resolve", "")
	} else {
		construct := fname(hf) + ": the value is hashed as given"
		var got []string
		for _, b := range hf.Blocks {
			for _, in := range b.Instrs {
				ci, ok := in.(ssa.CallInstruction)
				if !ok {
					continue
				}
				nm := p.staticCalleeName(ci.Common())
				args := ci.Common().Args
				switch {
				case strings.HasSuffix(nm, ").Write") && len(args) >= 1:
					got = append(got, descVal(args[len(args)-1]))
				case nm == "io.WriteString" && len(args) == 2:
					got = append(got, descVal(args[1]))
				}
			}
		}
		switch {
		case len(got) == 0:
			c.undecided("C20.leaf", construct, "no write into the hash found", p.fnPos(hf))
		case len(got) == 1 && got[0] == "param#1":
			c.ok("C20.leaf", construct, "the hash absorbs param#1", p.fnPos(hf))
		default:
			c.bad("C20.leaf", construct, "the hash absorbs "+strings.Join(got, ", ")+" instead of the value itself: different spellings become one attribute value", p.fnPos(hf))
		}
	}
	// a length-prefixed item is refused only when the buffer is too short for it (the writer has no cap on the
	// item length: a cap on the reading side alone makes long plaintexts undecryptable)
	c.rejectReasonsRule(p, "C20.cca", reasonSpec{pkg: "abe/cpabe/tkn20/internal/tkn", name: "removeLen32Prefixed", why: "buffer shorter than the prefix or than the announced item",
		conds: []string{`len\(param#0\) < .*`, `.* > len\(param#0\)`, `.* < 4`, `.* < 0`}})
	// encapsulation: both ciphertext components of a wire are blinded with the randomness of the wire's slot
	{
		f := p.Func("abe/cpabe/tkn20/internal/tkn", "", "encapsulate")
		what := "tkn.encapsulate: every per-wire component is multiplied by the randomness of the same slot"
		if f == nil {
			c.undecided("C20.share", what, "anchor function does not resolve", "")
		} else {
			hdrs := loopHeadersOf(f)
			// per loop and per randomness vector: the index expressions used
			type key struct {
				hdr  int
				base ssa.Value
			}
			sets := map[key]map[string][]string{}
			n := 0
			for _, b := range f.Blocks {
				if len(hdrs[b.Index]) == 0 {
					continue
				}
				for _, in := range b.Instrs {
					cl, ok := in.(*ssa.Call)
					if !ok || normName(p.staticCalleeName(&cl.Call)) != normName("(*abe/cpabe/tkn20/internal/tkn.matrixG1).rightMult") || len(cl.Call.Args) < 3 {
						continue
					}
					ld, ok := cl.Call.Args[2].(*ssa.UnOp)
					if !ok {
						continue
					}
					ia, ok := ld.X.(*ssa.IndexAddr)
					if !ok {
						continue
					}
					n++
					k := key{hdrs[b.Index][0], ia.X}
					if sets[k] == nil {
						sets[k] = map[string][]string{}
					}
					d := descVal(ia.Index)
					sets[k][d] = append(sets[k][d], p.pos(cl.Pos()))
				}
			}
			var bad []string
			for k, m := range sets {
				if len(m) > 1 {
					var ds []string
					for d, v := range m {
						ds = append(ds, fmt.Sprintf("%s[%s] at %s", descVal(k.base), d, strings.Join(v, ",")))
					}
					sort.Strings(ds)
					bad = append(bad, strings.Join(ds, " vs "))
				}
			}
			sort.Strings(bad)
			switch {
			case n < 3:
				c.undecided("C20.share", what, fmt.Sprintf("only %d multiplications by an element of a randomness vector found in loops", n), p.fnPos(f))
			case len(bad) > 0:
				c.bad("C20.share", what, "within one loop different elements of the randomness vector are used: "+strings.Join(bad, "; "), p.fnPos(f))
			default:
				c.ok("C20.share", what, fmt.Sprintf("%d multiplications; within each loop all use the same element of the randomness vector", n), p.fnPos(f))
			}
		}
	}

	tk := "abe/cpabe/tkn20/internal/tkn"
	dec := p.Func(tk, "", "DecryptCCA")
	c.guardEachSite(p, "C20.cca", "plaintext only if tag and id both match", dec, -1, latInt(0), "crypto/subtle.ConstantTimeCompare")
	for _, t := range []struct {
		what, callee string
		idx          int
	}{
		{"header must parse", "(*" + tk + ".ciphertextHeader).unmarshalBinary", -1},
		{"decapsulation must succeed", tk + ".decapsulate", 1},
		{"envelope must decrypt", tk + ".blakeDecrypt", 1},
		{"seed must expand", tk + ".expandSeed", 2},
		{"MAC must be computable", tk + ".blakeMac", 1},
	} {
		c.guardEachSite(p, "C20.cca", t.what, dec, t.idx, latNonNil, t.callee)
	}
	c.depRule(p, "C20.cca", "MAC is computed over data taken from the ciphertext", dec, sinkCallArg(1, tk+".blakeMac"), "param:ciphertext")
	c.depRule(p, "C20.cca", "MAC key derives from the decrypted envelope", dec, sinkCallArg(0, tk+".blakeMac"), "call:"+tk+".expandSeed", "call:"+tk+".blakeDecrypt")
	c.depRule(p, "C20.cca", "envelope key derives from the decapsulated point (attribute key and header)", dec, sinkCallArg(0, tk+".blakeDecrypt"), "param:key", "param:ciphertext")
	c.depRule(p, "C20.cca", "tag comparison covers transmitted tag and recomputed tag", dec, sinkCallArg(0, "crypto/subtle.ConstantTimeCompare"), "call:"+tk+".blakeMac", "call:"+tk+".expandSeed")

	// leaf semantics
	sat := p.Func(tk, "Policy", "Satisfaction")
	ap := "builtin.append"
	isEq := "(*ecc/bls12381/ff.Scalar).IsEqual"
	leaf := func(what string, present bool, positive bool, equal int64, wild bool, want bool) {
		vas := []ValAssume{{Name: "label present", Match: lookupOK, Val: boolLat(present)}}
		var as []Assume
		if present {
			vas = append(vas, ValAssume{Name: "wire.Positive", Match: fieldRead("Positive"), Val: boolLat(positive)},
				ValAssume{Name: "opt:attribute wildcard", Match: fieldRead("wild"), Val: boolLat(wild)})
			as = append(as, calleeAssume(latInt(equal), -1, isEq))
		}
		c.reachRule(p, "C20.leaf", what, sat, map[string]lat{}, as, vas, ap, want)
	}
	leaf("missing label: leaf does not hold", false, true, 0, false, false)
	leaf("positive leaf, equal value: holds", true, true, 1, false, true)
	leaf("positive leaf, different value: does not hold", true, true, 0, false, false)
	leaf("negated leaf, different value: holds", true, false, 0, false, true)
	leaf("negated leaf, equal value: does not hold", true, false, 1, false, false)
	c.guard(p, "C20.leaf", "satisfaction fails when the formula is not satisfied by the matched leaves", sat, GuardSpec{Assumes: []Assume{calleeAssume(latNonNil, 1, "(*"+tk+".Formula).satisfaction", "("+tk+".Formula).satisfaction")}})

	// agreement of the predicates
	cd := p.Func(tk, "", "CouldDecrypt")
	c.guard(p, "C20.agree", "could-decrypt is decided by Policy.Satisfaction", cd, GuardSpec{Assumes: []Assume{calleeAssume(latNonNil, 1, "(*"+tk+".Policy).Satisfaction")}})
	c.guard(p, "C20.agree", "could-decrypt fails when the header does not parse", cd, GuardSpec{Assumes: []Assume{calleeAssume(latNonNil, -1, "(*"+tk+".ciphertextHeader).unmarshalBinary")}})
	c.guard(p, "C20.agree", "policy extraction fails when the header does not parse", p.Func(tk, "Policy", "ExtractFromCiphertext"), GuardSpec{Assumes: []Assume{calleeAssume(latNonNil, -1, "(*"+tk+".ciphertextHeader).unmarshalBinary")}})
	c.guard(p, "C20.agree", "public Satisfaction is decided by the same routine", p.Func("abe/cpabe/tkn20", "Policy", "Satisfaction"), GuardSpec{Assumes: []Assume{calleeAssume(latNonNil, 1, "(*"+tk+".Policy).Satisfaction")}})
	c.guard(p, "C20.agree", "public CouldDecrypt delegates", p.Func("abe/cpabe/tkn20", "Attributes", "CouldDecrypt"), GuardSpec{Assumes: []Assume{calleeAssume(latFalse, -1, tk+".CouldDecrypt")}})
	c.guard(p, "C20.agree", "public Decrypt delegates to CCA decryption", p.Func("abe/cpabe/tkn20", "AttributeKey", "Decrypt"), GuardSpec{Assumes: []Assume{calleeAssume(latNonNil, 1, tk+".DecryptCCA")}})
	// decapsulate: fails if the key does not satisfy the policy
	c.guard(p, "C20.agree", "decapsulation fails if the attributes do not satisfy the policy", p.Func(tk, "", "decapsulate"), GuardSpec{Assumes: []Assume{calleeAssume(latNonNil, 1, "(*"+tk+".Policy).Satisfaction")}})

	// parsing
	c.guard(p, "C20.parse", "FromString fails when the policy text does not parse", p.Func("abe/cpabe/tkn20", "Policy", "FromString"), GuardSpec{Assumes: []Assume{calleeAssume(latNonNil, 1, "abe/cpabe/tkn20/internal/dsl.Run")}})
}
