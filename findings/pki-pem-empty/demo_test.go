package pki_test

// Demonstration (C10): UnmarshalPEMPublicKey / UnmarshalPEMPrivateKey dereference the nil block
// that pem.Decode returns for an input without PEM data and without trailing bytes (the empty input).
//
// Copy to pki/ and run: go test -run TestDemoPEMEmpty ./pki/

import (
	"testing"

	"github.com/cloudflare/circl/pki"
)

func TestDemoPEMEmpty(t *testing.T) {
	for _, in := range [][]byte{nil, {}} {
		func() {
			defer func() {
				if r := recover(); r != nil {
					t.Errorf("UnmarshalPEMPublicKey panicked: %v", r)
				}
			}()
			if _, err := pki.UnmarshalPEMPublicKey(in); err == nil {
				t.Error("empty input accepted")
			}
		}()
		func() {
			defer func() {
				if r := recover(); r != nil {
					t.Errorf("UnmarshalPEMPrivateKey panicked: %v", r)
				}
			}()
			if _, err := pki.UnmarshalPEMPrivateKey(in); err == nil {
				t.Error("empty input accepted")
			}
		}()
	}
}
