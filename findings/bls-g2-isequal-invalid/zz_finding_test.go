package bls12381

import "testing"

// (0,0,0) is not a projective point. G1.IsEqual refuses it; G2.IsEqual
// reported it equal to every point of the group.
func TestFindingG2IsEqualInvalid(t *testing.T) {
	var zero G2 // all coordinates zero: never a valid point
	gen := G2Generator()
	id := new(G2)
	id.SetIdentity()
	if zero.IsEqual(gen) || gen.IsEqual(&zero) {
		t.Error("the invalid triple (0,0,0) is reported equal to the generator of G2")
	}
	if zero.IsEqual(id) {
		t.Error("the invalid triple (0,0,0) is reported equal to the identity of G2")
	}
	var zero1 G1
	if zero1.IsEqual(G1Generator()) {
		t.Error("G1: the invalid triple (0,0,0) is reported equal to the generator")
	}
}
