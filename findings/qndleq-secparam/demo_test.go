package qndleq_test

// Demonstrates the known finding (C16): qndleq.Proof.Verify takes the size of the challenge from the
// proof object. With SecParam = 0 the challenge is the empty string (0), so Proof{Z: anything, C: 0,
// SecParam: 0} verifies for every statement, including a false one.
// Place in /repo/zk/qndleq: go test -run TestFindingSecParam ./zk/qndleq/   (fails on the current tree)

import (
	"math/big"
	"testing"

	"github.com/cloudflare/circl/zk/qndleq"
)

func TestFindingSecParam(t *testing.T) {
	N := big.NewInt(3233) // 61*53
	g, h := big.NewInt(4), big.NewInt(9)
	gx, hx := big.NewInt(16), big.NewInt(25) // log_g(gx) = 2, hx is not h^2 = 81: false statement
	forged := qndleq.Proof{Z: big.NewInt(7), C: big.NewInt(0), SecParam: 0}
	if forged.Verify(g, gx, h, hx, N) {
		t.Errorf("forged proof with prover-chosen SecParam=0 verifies for a false statement")
	}
}
