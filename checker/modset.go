package main

// EFFECT engine (mod-sets): which memory reachable from its parameters or from package-level
// variables a function may write, directly or through circl callees. Standard-library callees are
// modelled by a small table of known writers (math/big receivers, copy, binary.Put*, io.ReadFull …);
// an unmodelled external callee is assumed not to write (the rules built on this engine are
// "must not write" rules, so the assumption can only lose findings, never create alarms).

import (
	"fmt"
	"go/token"
	"go/types"
	"sort"
	"strings"

	"golang.org/x/tools/go/ssa"
)

type modWrite struct {
	Root string // "param#i" | "global:<pkg.name>"
	Via  string // description of the written location
	Pos  token.Pos
	In   *ssa.Function
	Sync bool // performed while a lock is held / inside sync.Once
	Elem bool // the written object is reached through a pointer loaded from an element of the root slice
}

type modEngine struct {
	p     *Program
	memo  map[*ssa.Function][]modWrite
	doing map[*ssa.Function]bool
}

func (p *Program) Mod() *modEngine {
	if p.mod == nil {
		asmStubWrites = asmWriteModel(p)
		p.mod = &modEngine{p: p, memo: map[*ssa.Function][]modWrite{}, doing: map[*ssa.Function]bool{}}
	}
	return p.mod
}

// memRoot follows an address or pointer-like value back to where the memory comes from.
// It returns the base value and whether at least one pointer dereference (load) was crossed.
func memRoot(v ssa.Value) (base ssa.Value, deref bool) {
	for i := 0; i < 64; i++ {
		switch x := v.(type) {
		case *ssa.FieldAddr:
			v = x.X
		case *ssa.IndexAddr:
			v = x.X
		case *ssa.Slice:
			v = x.X
		case *ssa.Convert:
			v = x.X
		case *ssa.ChangeType:
			v = x.X
		case *ssa.SliceToArrayPointer:
			v = x.X
		case *ssa.MakeInterface:
			v = x.X
		case *ssa.TypeAssert:
			v = x.X
		case *ssa.Field:
			v = x.X
		case *ssa.Index:
			v = x.X
		case *ssa.Extract:
			if lk, ok := x.Tuple.(*ssa.Lookup); ok && x.Index == 0 {
				if _, isMap := lk.X.Type().Underlying().(*types.Map); isMap {
					// v, ok := m[k]: the element comes out of the map's memory
					deref = true
					v = lk.X
					continue
				}
			}
			v = x.Tuple
			return v, deref
		case *ssa.Lookup:
			if _, isMap := x.X.Type().Underlying().(*types.Map); !isMap {
				return v, deref
			}
			// m[k]: the element comes out of the map's memory
			deref = true
			v = x.X
		case *ssa.Phi:
			// follow the first non-nil edge that is not itself
			var nxt ssa.Value
			for _, e := range x.Edges {
				if e != ssa.Value(x) {
					if k, ok := e.(*ssa.Const); ok && k.Value == nil {
						continue
					}
					nxt = e
					break
				}
			}
			if nxt == nil {
				return v, deref
			}
			v = nxt
		case *ssa.UnOp:
			if x.Op != token.MUL {
				return v, deref
			}
			deref = true
			v = x.X
		default:
			return v, deref
		}
	}
	return v, deref
}

// sharedRoot classifies a written address: returns the root label ("param#i", "global:…") or "".
func sharedRoot(f *ssa.Function, addr ssa.Value) string {
	base, deref := memRoot(addr)
	switch b := base.(type) {
	case *ssa.Parameter:
		if pointerLike(b.Type()) {
			return paramDesc(b)
		}
		// a struct (or array) passed by value: an address rooted directly at the parameter can only be a
		// pointer / slice taken out of one of its fields, i.e. memory the caller's object points to as well
		switch b.Type().Underlying().(type) {
		case *types.Struct, *types.Array:
			if pointerLike(addr.Type()) || sliceLike(addr.Type()) {
				return paramDesc(b)
			}
		}
	case *ssa.Global:
		return "global:" + short(b.String())
	case *ssa.Alloc:
		// a spilled parameter: memory reached through it by a dereference is the caller's
		if deref {
			for _, r := range *b.Referrers() {
				if st, ok := r.(*ssa.Store); ok && st.Addr == ssa.Value(b) {
					if par, ok := st.Val.(*ssa.Parameter); ok && pointerLike(par.Type()) {
						return paramDesc(par)
					}
					// a struct copied out of the caller's memory (s := shares[0]): the pointers and slices
					// inside the copy still refer to the caller's object
					if ld, ok := st.Val.(*ssa.UnOp); ok && ld.Op == token.MUL {
						if _, isStruct := ld.Type().Underlying().(*types.Struct); isStruct {
							if _, isAlloc := ld.X.(*ssa.Alloc); !isAlloc {
								if r := sharedRoot(f, ld.X); r != "" {
									return r
								}
							}
						}
					}
				}
			}
		}
	case *ssa.FreeVar:
		return "freevar:" + b.Name()
	case *ssa.MakeSlice:
		if deref {
			return parkedRoot(f, b)
		}
	case *ssa.Call:
		// a circl function that may hand back one of its own pointer arguments (an accumulator that adopts its
		// first term): the result is that argument
		if cal := b.Call.StaticCallee(); cal != nil && cal.Blocks != nil && isCirclFunc(cal) && pointerLike(b.Type()) {
			for _, j := range mayReturnParam(cal) {
				if j < len(b.Call.Args) {
					if r := sharedRoot(f, b.Call.Args[j]); r != "" {
						return r
					}
				}
			}
		}
		// the result of a circl function that may hand back a pointer it keeps in a field of one of its
		// arguments (a cache accessor): memory reached through it belongs to that argument
		if cal := b.Call.StaticCallee(); cal != nil && cal.Blocks != nil && isCirclFunc(cal) && pointerLike(b.Type()) {
			for _, j := range mayReturnParamField(cal) {
				if j < len(b.Call.Args) {
					if r := sharedRoot(f, b.Call.Args[j]); r != "" {
						return r
					}
				}
			}
		}
	}
	return ""
}

var retFieldMemo = map[*ssa.Function][]int{}

var parkDepth int

// parkedRoot: a pointer loaded from an element of a slice the function made itself belongs to whoever the
// pointers stored into that slice belong to: `acc[j] = key.m[label]; ...; acc[j].add(acc[j], t)` writes the
// caller's object. Flow-insensitive over the stores into the slice.
func parkedRoot(f *ssa.Function, container ssa.Value) string {
	if parkDepth > 3 {
		return ""
	}
	parkDepth++
	defer func() { parkDepth-- }()
	for _, b := range f.Blocks {
		for _, in := range b.Instrs {
			if call, ok := in.(*ssa.Call); ok {
				// a helper that parks one of its pointer arguments in the slice it is handed
				if cal := call.Call.StaticCallee(); cal != nil && cal.Blocks != nil && isCirclFunc(cal) && !call.Call.IsInvoke() {
					for _, pk := range parksParam(cal) {
						if pk[0] < len(call.Call.Args) && pk[1] < len(call.Call.Args) {
							if base, deref := memRoot(call.Call.Args[pk[0]]); !deref && base == container {
								if r := sharedRoot(f, call.Call.Args[pk[1]]); r != "" {
									return r
								}
							}
						}
					}
				}
				continue
			}
			st, ok := in.(*ssa.Store)
			if !ok || !pointerLike(st.Val.Type()) {
				continue
			}
			if _, isIdx := st.Addr.(*ssa.IndexAddr); !isIdx {
				continue
			}
			base, deref := memRoot(st.Addr)
			if deref || base != container {
				continue
			}
			if _, isPtr := st.Val.Type().Underlying().(*types.Pointer); !isPtr {
				continue
			}
			if r := sharedRoot(f, st.Val); r != "" {
				return r
			}
		}
	}
	return ""
}

var retParamMemo = map[*ssa.Function][]int{}

// elemLoadOfParam: the address or pointer v is reached through a pointer loaded from an element of a slice
// parameter (`p[j].x`, `*p[j]`).
func elemLoadOfParam(v ssa.Value) bool {
	for i := 0; i < 64; i++ {
		switch x := v.(type) {
		case *ssa.FieldAddr:
			v = x.X
		case *ssa.IndexAddr:
			v = x.X
		case *ssa.Slice:
			v = x.X
		case *ssa.UnOp:
			if x.Op != token.MUL {
				return false
			}
			if ia, ok := x.X.(*ssa.IndexAddr); ok {
				if _, isPar := ia.X.(*ssa.Parameter); isPar {
					if _, isPtr := x.Type().Underlying().(*types.Pointer); isPtr {
						return true
					}
				}
			}
			v = x.X
		default:
			return false
		}
	}
	return false
}

var parksMemo = map[*ssa.Function][][2]int{}

// parksParam: pairs (i, k) such that cal stores its pointer parameter k into an element of its slice parameter i.
func parksParam(cal *ssa.Function) [][2]int {
	if r, ok := parksMemo[cal]; ok {
		return r
	}
	var out [][2]int
	idx := func(v ssa.Value) int {
		for i, q := range cal.Params {
			if ssa.Value(q) == v {
				return i
			}
		}
		return -1
	}
	for _, b := range cal.Blocks {
		for _, in := range b.Instrs {
			st, ok := in.(*ssa.Store)
			if !ok {
				continue
			}
			ia, ok := st.Addr.(*ssa.IndexAddr)
			if !ok {
				continue
			}
			if i, k := idx(ia.X), idx(st.Val); i >= 0 && k >= 0 {
				if _, isPtr := st.Val.Type().Underlying().(*types.Pointer); isPtr {
					out = append(out, [2]int{i, k})
				}
			}
		}
	}
	parksMemo[cal] = out
	return out
}

// mayReturnParam: indices of the pointer parameters of cal that some return statement returns as they are.
func mayReturnParam(cal *ssa.Function) []int {
	if r, ok := retParamMemo[cal]; ok {
		return r
	}
	retParamMemo[cal] = nil
	set := map[int]bool{}
	var visit func(v ssa.Value, depth int)
	visit = func(v ssa.Value, depth int) {
		if depth > 6 {
			return
		}
		switch x := v.(type) {
		case *ssa.Phi:
			for _, e := range x.Edges {
				visit(e, depth+1)
			}
		case *ssa.Parameter:
			for i, q := range cal.Params {
				if q == x {
					set[i] = true
				}
			}
		}
	}
	for _, b := range cal.Blocks {
		if ret, ok := b.Instrs[len(b.Instrs)-1].(*ssa.Return); ok {
			for _, r := range ret.Results {
				if _, isPtr := r.Type().Underlying().(*types.Pointer); isPtr {
					visit(r, 0)
				}
			}
		}
	}
	var out []int
	for i := range set {
		out = append(out, i)
	}
	sort.Ints(out)
	retParamMemo[cal] = out
	return out
}

// mayReturnParamField: indices of the parameters of cal such that some return statement returns a
// pointer loaded from a field of (memory reached through) that parameter.
func mayReturnParamField(cal *ssa.Function) []int {
	if r, ok := retFieldMemo[cal]; ok {
		return r
	}
	retFieldMemo[cal] = nil
	set := map[int]bool{}
	var visit func(v ssa.Value, depth int)
	visit = func(v ssa.Value, depth int) {
		if depth > 6 {
			return
		}
		switch x := v.(type) {
		case *ssa.Phi:
			for _, e := range x.Edges {
				visit(e, depth+1)
			}
		case *ssa.UnOp:
			if x.Op != token.MUL {
				return
			}
			if fa, ok := x.X.(*ssa.FieldAddr); ok {
				base, _ := memRoot(fa)
				if par, ok := base.(*ssa.Parameter); ok {
					for i, q := range cal.Params {
						if q == par {
							set[i] = true
						}
					}
				}
			}
		}
	}
	for _, b := range cal.Blocks {
		if ret, ok := b.Instrs[len(b.Instrs)-1].(*ssa.Return); ok {
			for _, r := range ret.Results {
				if pointerLike(r.Type()) {
					visit(r, 0)
				}
			}
		}
	}
	var out []int
	for i := range set {
		out = append(out, i)
	}
	sort.Ints(out)
	retFieldMemo[cal] = out
	return out
}

// big.Int methods that write their receiver.
var bigWriters = map[string]bool{}

func init() {
	for _, m := range strings.Fields("Abs Add And AndNot Binomial Div DivMod Exp Exp GCD Lsh Mod ModInverse ModSqrt Mul MulRange Neg Not Or Quo QuoRem Rand Rem Rsh Set SetBit SetBits SetBytes SetInt64 SetString SetUint64 Sqrt Sub Xor GobDecode UnmarshalJSON UnmarshalText") {
		bigWriters["(*math/big.Int)."+m] = true
	}
}

// asmStubWrites is set per program: the body-less (assembly) functions of circl and what they write.
var asmStubWrites func(name string) ([]int, bool)

// asmWriteModel builds the table for the loaded program.
func asmWriteModel(p *Program) func(string) ([]int, bool) {
	tab := map[string][]int{}
	for f := range p.AllFuncs {
		if f.Blocks != nil || !isCirclFunc(f) || f.Synthetic != "" || f.Signature.Params().Len() == 0 {
			continue
		}
		if _, ok := f.Signature.Params().At(0).Type().Underlying().(*types.Pointer); !ok {
			continue
		}
		n := f.Name()
		switch {
		case strings.HasPrefix(n, "exceeds"):
			tab[fname(f)] = []int{}
		case strings.HasPrefix(n, "packLe16"):
			tab[fname(f)] = []int{1}
		case strings.HasPrefix(n, "cswap") || strings.HasPrefix(n, "addsub"):
			tab[fname(f)] = []int{0, 1}
		default:
			tab[fname(f)] = []int{0}
		}
	}
	return func(name string) ([]int, bool) {
		w, ok := tab[name]
		return w, ok
	}
}

// externalWrites lists the argument indices (receiver first) an external callee writes through.
func externalWrites(name string, nargs int) []int {
	if bigWriters[name] {
		return []int{0}
	}
	switch name {
	case "builtin.copy", "crypto/subtle.ConstantTimeCopy":
		if name == "builtin.copy" {
			return []int{0}
		}
		return []int{1}
	case "(*math/big.Int).FillBytes", "io.ReadFull", "io.ReadAtLeast":
		return []int{1}
	case "crypto/rand.Read":
		return []int{0}
	case "invoke (io.Reader).Read", "invoke (hash.Hash).Read":
		return []int{1}
	case "crypto/subtle.XORBytes":
		return []int{0}
	case "invoke (hash.Hash).Write", "invoke (hash.Hash).Reset", "invoke (io.Writer).Write":
		return []int{0} // the running state of the hash / writer object
	case "invoke (crypto/cipher.AEAD).Open", "invoke (crypto/cipher.AEAD).Seal":
		return []int{1} // dst: the result is appended to it, and overwritten from dst[len:] on
	}
	if strings.Contains(name, "encoding/binary.") && strings.Contains(name, ".PutUint") {
		return []int{nargs - 2}
	}
	// circl's assembly routines (no Go body): the first pointer argument is the destination; swaps and the
	// add/sub pair write both operands; the listed ones only read it
	if asmStubWrites != nil {
		if w, ok := asmStubWrites(name); ok {
			return w
		}
	}
	// circl's own destructive interface conventions: receiver of group operations is the destination
	if strings.HasPrefix(name, "invoke (group.Element).") || strings.HasPrefix(name, "invoke (group.Scalar).") {
		m := name[strings.LastIndex(name, ".")+1:]
		switch m {
		case "Add", "Dbl", "Neg", "Mul", "MulGen", "Set", "CMov", "CSelect", "UnmarshalBinary", "Sub", "Inv", "SetUint64", "SetBigInt", "SetBytes":
			return []int{0}
		}
	}
	return nil
}

func (e *modEngine) of(f *ssa.Function) []modWrite {
	if w, ok := e.memo[f]; ok {
		return w
	}
	if f.Blocks == nil || e.doing[f] {
		return nil
	}
	e.doing[f] = true
	defer delete(e.doing, f)
	p := e.p
	var out []modWrite
	seen := map[string]bool{}
	elem := false
	add := func(root, via string, pos token.Pos, in *ssa.Function, sync bool) {
		k := root + "|" + via
		if root == "" || seen[k] {
			return
		}
		seen[k] = true
		out = append(out, modWrite{Root: root, Via: via, Pos: pos, In: in, Sync: sync, Elem: elem})
	}
	// rootOf: sharedRoot, and for a callee write that goes through an element of a slice the caller made
	// itself, the owner of the pointers parked in that slice
	rootOf := func(arg ssa.Value, w modWrite) string {
		elem = false
		if r := sharedRoot(f, arg); r != "" {
			elem = w.Elem || elemLoadOfParam(arg)
			return r
		}
		if w.Elem {
			if base, deref := memRoot(arg); !deref {
				if ms, ok := base.(*ssa.MakeSlice); ok {
					return parkedRoot(f, ms)
				}
			}
		}
		return ""
	}
	// is the function synchronised as a whole? (coarse: it takes a lock or runs under sync.Once)
	syncd := false
	for _, b := range f.Blocks {
		for _, in := range b.Instrs {
			if ci, ok := in.(ssa.CallInstruction); ok {
				n := p.staticCalleeName(ci.Common())
				if n == "(*sync.Mutex).Lock" || n == "(*sync.RWMutex).Lock" || n == "(*sync.Once).Do" || strings.HasPrefix(n, "sync/atomic.") || strings.HasPrefix(n, "(*sync/atomic.") {
					syncd = true
				}
			}
		}
	}
	for _, b := range f.Blocks {
		for _, in := range b.Instrs {
			switch x := in.(type) {
			case *ssa.Store:
				elem = elemLoadOfParam(x.Addr)
				add(sharedRoot(f, x.Addr), descAddr(x.Addr), x.Pos(), f, syncd)
				elem = false
			case *ssa.MapUpdate:
				add(sharedRoot(f, x.Map), descVal(x.Map)+"[…]", x.Pos(), f, syncd)
			case ssa.CallInstruction:
				c := x.Common()
				name := p.staticCalleeName(c)
				var args []ssa.Value
				if c.IsInvoke() {
					args = append(args, c.Value)
				}
				args = append(args, c.Args...)
				if cal := c.StaticCallee(); cal != nil && inlinable(cal) {
					for _, w := range e.of(cal) {
						if strings.HasPrefix(w.Root, "global:") {
							add(w.Root, w.Via, w.Pos, w.In, w.Sync || syncd)
							continue
						}
						var i int
						if _, err := fmt.Sscanf(w.Root, "param#%d", &i); err == nil && i < len(args) {
							add(rootOf(args[i], w), descVal(args[i])+" → "+fname(cal)+": "+w.Via, x.Pos(), w.In, w.Sync || syncd)
							elem = false
						}
					}
					// closures passed as arguments are analysed where they are defined (free variables)
					continue
				}
				if mc, ok := c.Value.(*ssa.MakeClosure); ok {
					_ = mc
				}
				if c.StaticCallee() == nil && !c.IsInvoke() {
					// call of a function value: resolve
					for _, cal := range p.dynamicCallees(f, x) {
						if inlinable(cal) {
							for _, w := range e.of(cal) {
								if strings.HasPrefix(w.Root, "global:") {
									add(w.Root, w.Via, w.Pos, w.In, w.Sync || syncd)
								}
							}
						}
					}
				}
				for _, i := range externalWrites(name, len(args)) {
					if i >= 0 && i < len(args) {
						add(sharedRoot(f, args[i]), descVal(args[i])+" (written by "+name+")", x.Pos(), f, syncd)
					}
				}
				if c.IsInvoke() && externalWrites(name, len(args)) == nil {
					// interface method implemented in circl: union over resolved targets (≤ 8)
					cals := p.dynamicCallees(f, x)
					if len(cals) <= 8 {
						for _, cal := range cals {
							if !inlinable(cal) {
								continue
							}
							for _, w := range e.of(cal) {
								if strings.HasPrefix(w.Root, "global:") {
									add(w.Root, w.Via, w.Pos, w.In, w.Sync || syncd)
									continue
								}
								var i int
								if _, err := fmt.Sscanf(w.Root, "param#%d", &i); err == nil && i < len(args) {
									add(sharedRoot(f, args[i]), descVal(args[i])+" → "+fname(cal)+": "+w.Via, x.Pos(), w.In, w.Sync || syncd)
								}
							}
						}
					}
				}
			}
		}
	}
	// closures defined here that capture parameters by reference
	for _, an := range f.AnonFuncs {
		for _, w := range e.of(an) {
			if strings.HasPrefix(w.Root, "global:") {
				add(w.Root, w.Via, w.Pos, w.In, w.Sync || syncd)
			}
		}
	}
	sort.Slice(out, func(i, j int) bool { return out[i].Pos < out[j].Pos })
	e.memo[f] = out
	return out
}

// exportedMethods lists the declared methods of a named type.
func (p *Program) methodsOf(n *types.Named) []*ssa.Function {
	var out []*ssa.Function
	for i := 0; i < n.NumMethods(); i++ {
		if f := p.SSA.FuncValue(n.Method(i).Origin()); f != nil {
			out = append(out, f)
		}
	}
	return out
}
