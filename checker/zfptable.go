package main

import (
	"fmt"
	"go/ast"
	"go/types"
	"math/big"
	"sort"
	"strings"
)

// TABLE(field constants): the precomputed constants of the Prio3 fields, read from their initialisers, have
// the algebraic relations the arithmetic relies on (decided on the literals, nothing is executed):
// rSquare = R² mod p, half = 1/2, the roots-of-unity table starts with 1, -1 and every entry is the square
// of the next one, the last entry is the generator of the VDAF specification.
func checkPrio3FieldTables(c *Ctx, p *Program, rule string) {
	type field struct {
		pkg     string
		limbs   int
		modulus string // VDAF specification, section 6.1.3
		gen     string // generator of the 2^numRoots subgroup given there
		roots   int
	}
	for _, fd := range []field{
		{"vdaf/prio3/arith/fp64", 1, "18446744069414584321", "", 32},
		{"vdaf/prio3/arith/fp128", 2, "340282366920938462946865773367900766209", "", 66},
	} {
		P, _ := new(big.Int).SetString(fd.modulus, 10)
		R := new(big.Int).Lsh(big.NewInt(1), uint(64*fd.limbs))
		Rinv := new(big.Int).ModInverse(R, P)
		elts := func(name string) ([]*big.Int, error) {
			ints, err := p.varInts(fd.pkg, name)
			if err != nil {
				return nil, err
			}
			if len(ints)%fd.limbs != 0 {
				return nil, fmt.Errorf("%s: %d limbs is not a whole number of elements", name, len(ints))
			}
			var out []*big.Int
			for i := 0; i < len(ints); i += fd.limbs {
				v := new(big.Int)
				for j := fd.limbs - 1; j >= 0; j-- {
					l, ok := new(big.Int).SetString(ints[i+j], 10)
					if !ok {
						return nil, fmt.Errorf("%s: limb %q is not an integer", name, ints[i+j])
					}
					v.Lsh(v, 64).Add(v, l)
				}
				out = append(out, v)
			}
			return out, nil
		}
		fromMont := func(v *big.Int) *big.Int { return new(big.Int).Mod(new(big.Int).Mul(v, Rinv), P) }
		what := func(s string) string { return fd.pkg + ": " + s }
		// rSquare
		if rs, err := elts("rSquare"); err != nil || len(rs) != 1 {
			c.undecided(rule, what("rSquare = R² mod p"), fmt.Sprint("cannot read the initialiser: ", err), "")
		} else {
			want := new(big.Int).Mod(new(big.Int).Mul(R, R), P)
			c.tableEq(rule, what("rSquare = R² mod p"), rs[0].String(), want.String(), "")
		}
		// half
		if h, err := elts("half"); err != nil || len(h) != 1 {
			c.undecided(rule, what("half = 1/2 (Montgomery form)"), fmt.Sprint("cannot read the initialiser: ", err), "")
		} else {
			two := new(big.Int).Mod(new(big.Int).Mul(fromMont(h[0]), big.NewInt(2)), P)
			c.tableEq(rule, what("2·half = 1"), two.String(), "1", "")
		}
		// small inverses
		if iv, err := elts("inverseInt"); err != nil || len(iv) == 0 {
			c.undecided(rule, what("inverseInt[i]·(i+1) = 1"), fmt.Sprint("cannot read the initialiser: ", err), "")
		} else {
			var bad []string
			for i, v := range iv {
				if new(big.Int).Mod(new(big.Int).Mul(fromMont(v), big.NewInt(int64(i+1))), P).Cmp(big.NewInt(1)) != 0 {
					bad = append(bad, fmt.Sprintf("entry %d is not 1/%d", i, i+1))
				}
			}
			if len(bad) > 0 {
				c.bad(rule, what("inverseInt[i]·(i+1) = 1"), fmt.Sprint(bad), "")
			} else {
				c.ok(rule, what("inverseInt[i]·(i+1) = 1"), fmt.Sprintf("%d entries", len(iv)), "")
			}
		}
		// roots of unity
		rt, err := elts("rootOfUnityTwoN")
		if err != nil {
			c.undecided(rule, what("roots-of-unity table"), err.Error(), "")
			continue
		}
		if len(rt) != fd.roots+1 {
			c.bad(rule, what("roots-of-unity table has numRootsUnity+1 entries"), fmt.Sprintf("%d entries, specification has %d", len(rt), fd.roots+1), "")
			continue
		}
		var bad []string
		if fromMont(rt[0]).Cmp(big.NewInt(1)) != 0 {
			bad = append(bad, "entry 0 is not 1")
		}
		if fromMont(rt[1]).Cmp(new(big.Int).Sub(P, big.NewInt(1))) != 0 {
			bad = append(bad, "entry 1 is not -1")
		}
		for i := 1; i < len(rt); i++ {
			if rt[i].Cmp(P) >= 0 {
				bad = append(bad, fmt.Sprintf("entry %d is not reduced", i))
			}
			x := fromMont(rt[i])
			sq := new(big.Int).Mod(new(big.Int).Mul(x, x), P)
			if sq.Cmp(fromMont(rt[i-1])) != 0 {
				bad = append(bad, fmt.Sprintf("entry %d squared is not entry %d", i, i-1))
			}
		}
		if len(bad) > 0 {
			if len(bad) > 4 {
				bad = append(bad[:4], fmt.Sprintf("… %d more", len(bad)-4))
			}
			c.bad(rule, what("rootOfUnityTwoN[i]² = rootOfUnityTwoN[i-1], starting 1, -1"), fmt.Sprint(bad), "")
		} else {
			c.ok(rule, what("rootOfUnityTwoN[i]² = rootOfUnityTwoN[i-1], starting 1, -1"), fmt.Sprintf("%d entries: a chain of principal 2^i-th roots of unity modulo %s", len(rt), fd.modulus), "")
		}
	}
}

// checkBLSFieldTables: the constants of the BLS12-381 base and scalar fields (moduli of the specification,
// (p+1)/2 for the sign convention, (p+1)/4 for square roots, r-2 for inversion, R² mod p and R² mod r).
func checkBLSFieldTables(c *Ctx, p *Program, rule string) {
	pkg := "ecc/bls12381/ff"
	P, _ := new(big.Int).SetString("1a0111ea397fe69a4b1ba7b6434bacd764774b84f38512bf6730d2a0f6b0f6241eabfffeb153ffffb9feffffffffaaab", 16)
	R, _ := new(big.Int).SetString("73eda753299d7d483339d80809a1d80553bda402fffe5bfeffffffff00000001", 16)
	beBytes := func(name string) (*big.Int, error) {
		ints, err := p.varInts(pkg, name)
		if err != nil {
			return nil, err
		}
		v := new(big.Int)
		for _, s := range ints {
			b, ok := new(big.Int).SetString(s, 10)
			if !ok || b.Sign() < 0 || b.BitLen() > 8 {
				return nil, fmt.Errorf("%s: %q is not a byte", name, s)
			}
			v.Lsh(v, 8).Or(v, b)
		}
		return v, nil
	}
	leWords := func(name string) (*big.Int, int, error) {
		ints, err := p.varInts(pkg, name)
		if err != nil {
			return nil, 0, err
		}
		v := new(big.Int)
		for i := len(ints) - 1; i >= 0; i-- {
			w, ok := new(big.Int).SetString(ints[i], 10)
			if !ok {
				return nil, 0, fmt.Errorf("%s: %q is not an integer", name, ints[i])
			}
			v.Lsh(v, 64).Or(v, w)
		}
		return v, len(ints), nil
	}
	one, two := big.NewInt(1), big.NewInt(2)
	for _, t := range []struct {
		name, what string
		want       *big.Int
	}{
		{"fpOrder", "fpOrder is the BLS12-381 base-field prime", P},
		{"fpOrderPlus1Div2", "fpOrderPlus1Div2 = (p+1)/2", new(big.Int).Rsh(new(big.Int).Add(P, one), 1)},
		{"fpOrderPlus1Div4", "fpOrderPlus1Div4 = (p+1)/4", new(big.Int).Rsh(new(big.Int).Add(P, one), 2)},
		{"scOrder", "scOrder is the order of the BLS12-381 groups", R},
		{"scOrderMinus2", "scOrderMinus2 = r-2", new(big.Int).Sub(R, two)},
	} {
		got, err := beBytes(t.name)
		what := pkg + ": " + t.what
		if err != nil {
			c.undecided(rule, what, err.Error(), "")
			continue
		}
		c.tableEq(rule, what, got.Text(16), t.want.Text(16), "")
	}
	for _, t := range []struct {
		name string
		mod  *big.Int
	}{{"fpRSquare", P}, {"scRSquare", R}} {
		got, n, err := leWords(t.name)
		what := pkg + ": " + t.name + " = R² mod the field order"
		if err != nil {
			c.undecided(rule, what, err.Error(), "")
			continue
		}
		r := new(big.Int).Lsh(one, uint(64*n))
		want := new(big.Int).Mod(new(big.Int).Mul(r, r), t.mod)
		c.tableEq(rule, what, got.Text(16), want.Text(16), "")
	}
}

// checkDigestInfoPrefixes: the DER DigestInfo prefixes of EMSA-PKCS1-v1_5 (RFC 8017 9.2, note 1) as the
// threshold-RSA padder stores them, per hash identifier.
func checkDigestInfoPrefixes(c *Ctx, p *Program, rule string) {
	want := map[string]string{
		"crypto.MD5":    "30 20 30 0c 06 08 2a 86 48 86 f7 0d 02 05 05 00 04 10",
		"crypto.SHA1":   "30 21 30 09 06 05 2b 0e 03 02 1a 05 00 04 14",
		"crypto.SHA224": "30 2d 30 0d 06 09 60 86 48 01 65 03 04 02 04 05 00 04 1c",
		"crypto.SHA256": "30 31 30 0d 06 09 60 86 48 01 65 03 04 02 01 05 00 04 20",
		"crypto.SHA384": "30 41 30 0d 06 09 60 86 48 01 65 03 04 02 02 05 00 04 30",
		"crypto.SHA512": "30 51 30 0d 06 09 60 86 48 01 65 03 04 02 03 05 00 04 40",
	}
	e, info := p.varInit("tss/rsa/internal", "hashPrefixes")
	cl, ok := e.(*ast.CompositeLit)
	if e == nil || !ok {
		c.undecided(rule, "tss/rsa/internal.hashPrefixes: DigestInfo prefixes of RFC 8017", "the table is not initialised by a composite literal", "")
		return
	}
	got := map[string]string{}
	for _, el := range cl.Elts {
		kv, ok := el.(*ast.KeyValueExpr)
		if !ok {
			continue
		}
		v, err := evalLit(kv.Value, info)
		if err != nil {
			got[types.ExprString(kv.Key)] = "(not a literal: " + err.Error() + ")"
			continue
		}
		ints, ok := flatInts(v)
		if !ok {
			got[types.ExprString(kv.Key)] = "(not a literal)"
			continue
		}
		var bs []string
		for _, s := range ints {
			n, _ := new(big.Int).SetString(s, 10)
			if n == nil {
				bs = append(bs, "??")
				continue
			}
			bs = append(bs, fmt.Sprintf("%02x", n.Int64()))
		}
		got[types.ExprString(kv.Key)] = strings.Join(bs, " ")
	}
	var keys []string
	for k := range want {
		keys = append(keys, k)
	}
	sort.Strings(keys)
	for _, k := range keys {
		what := "tss/rsa/internal.hashPrefixes[" + k + "] is the DigestInfo prefix of RFC 8017 9.2"
		g, ok := got[k]
		if !ok {
			c.bad(rule, what, "no entry for this hash", "")
			continue
		}
		if strings.HasPrefix(g, "(not a literal") {
			c.undecided(rule, what, "the entry is computed, not written out: its value cannot be read from the source "+g, "")
			continue
		}
		c.tableEq(rule, what, g, want[k], "")
	}
}
