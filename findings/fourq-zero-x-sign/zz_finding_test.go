package fourq

import "testing"

// The two points with x = 0, (0,1) and (0,-1), must have one accepted encoding each:
// the one with the sign bit of x clear. (Place in ecc/fourq and run
// go test -run TestFindingZeroXSign ./ecc/fourq/ .)
func TestFindingZeroXSign(t *testing.T) {
	var id Point
	id.SetIdentity()
	var enc [Size]byte
	id.Marshal(&enc)
	alias := enc
	alias[Size-1] |= 0x80
	var Q Point
	if Q.Unmarshal(&alias) {
		var back [Size]byte
		Q.Marshal(&back)
		t.Errorf("identity with the sign bit set accepted: %x decodes and re-encodes as %x", alias, back)
	}
	if !Q.Unmarshal(&enc) {
		t.Errorf("canonical identity rejected")
	}
}
