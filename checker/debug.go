package main

import (
	"fmt"
	"go/token"
	"go/types"
	"os"
	"regexp"
	"sort"
	"strings"

	"golang.org/x/tools/go/ssa"
)

// debugGuard: circlcheck -property DEBUG with env DBG="pkg|recv|name|assume1,assume2|failkind|bigarg"
func init() {
	registry["DEBUG"] = func(c *Ctx) {
		p := c.Prog("amd64")
		if v := os.Getenv("DBGDECODE"); v != "" {
			x := strings.Split(v, "|")
			debugDecode(p, x[0], x[1], x[2])
		}
		if v := os.Getenv("DBGREASONS"); v != "" {
			for _, one := range strings.Split(v, ",") {
				x := strings.Split(one, "|")
				c.rejectReasonsRule(p, "DEBUG.reasons", reasonSpec{pkg: x[0], typ: x[1], name: x[2], why: "debug"})
			}
		}
		if v := os.Getenv("DBGSIB"); v != "" {
			x := strings.Split(v, "|")
			surveySiblingConds(p, x[0], x[1], x[2])
		}
		if os.Getenv("DBGSTALE") != "" {
			debugStale(p)
		}
		if os.Getenv("DBGCYCLES") != "" {
			for _, comp := range recursiveCycles(p) {
				var ns []string
				for _, f := range comp {
					ns = append(ns, fname(f))
				}
				fmt.Fprintf(os.Stderr, "CYCLE %v\n", ns)
			}
		}
		if os.Getenv("DBGINITORDER") != "" {
			checkInitOrder(c, p, "DEBUG.initorder", nil)
		}
		if os.Getenv("DBGASMCOND") != "" {
			surveyAsmConds(p)
		}
		if os.Getenv("DBGRETALIAS") != "" {
			surveyReturnAlias(p)
		}
		if os.Getenv("DBGNARROW") != "" {
			surveyNarrowCompare(p)
		}
		if os.Getenv("DBGDEAD") != "" {
			surveyDeadValues(p)
		}
		if os.Getenv("DBGUNUSED") != "" {
			surveyUnusedParams(p)
		}
		if os.Getenv("DBGRMW") != "" {
			surveyRMW(p)
		}
		if os.Getenv("DBGSHP") != "" {
			surveySharedPtr(p)
		}
		if os.Getenv("DBGCODEC") != "" {
			surveyCodec(p)
		}
		if os.Getenv("DBGREADER") != "" {
			surveyReader(p)
		}
		if os.Getenv("DBGALIASU") != "" {
			surveyAliasUnsafe(p, strings.Split(os.Getenv("DBGALIASU"), ","))
		}
		if os.Getenv("DBGERRDROP") != "" {
			surveyErrDrop(p)
		}
		if os.Getenv("DBGERRUNUSED") != "" {
			surveyErrUnused(p)
		}
		if os.Getenv("DBGGW") != "" {
			surveyGlobalWrite(p)
		}
		if os.Getenv("DBGASM") != "" {
			surveyAsmStubs(p)
		}
		if os.Getenv("DBGVALRECV") != "" {
			surveyValueRecv(p)
		}
		if n := os.Getenv("DBGNAMED"); n != "" {
			surveyNamed(p, n)
		}
		if os.Getenv("DBGSHSL") != "" {
			surveyShareSlice(p)
		}
		if os.Getenv("DBGDREAD") != "" {
			surveyDirectRead(p)
		}
		if os.Getenv("DBGERRPROP") != "" {
			surveyErrProp(p)
		}
		if os.Getenv("DBGRETP") != "" {
			surveyRetainParam(p)
		}
		if os.Getenv("DBGSEL") != "" {
			surveySelectors(p)
		}
		if os.Getenv("DBGS2AP") != "" {
			surveyS2AP(p)
		}
		if os.Getenv("DBGOVW") != "" {
			surveyOverwritten(p)
		}
		if os.Getenv("DBGCARRY") != "" {
			surveyCarry(p)
		}
		if os.Getenv("DBGINNER") != "" {
			surveyInnerPtr(p)
		}
		if os.Getenv("DBGAPPENDF") != "" {
			surveyAppendField(p)
		}
		if os.Getenv("DBGAPPEND") != "" {
			surveyAppend(p)
		}
		if os.Getenv("DBGALIAS") != "" {
			surveyAlias(p)
		}
		parts := strings.Split(os.Getenv("DBG"), "|")
		f := p.Func(parts[0], parts[1], parts[2])
		if f == nil {
			fmt.Println("function not found")
			return
		}
		if os.Getenv("DBGMOD") != "" {
			for _, w := range p.Mod().of(f) {
				fmt.Printf("  MOD root=%s via=%s at %s\n", w.Root, w.Via, p.pos(w.Pos))
			}
		}
		if os.Getenv("DBGCALLS") != "" {
			for _, b := range f.Blocks {
				for _, in := range b.Instrs {
					if ci, ok := in.(ssa.CallInstruction); ok {
						fmt.Printf("  call %s: %q", p.pos(ci.Pos()), p.staticCalleeName(ci.Common()))
						if ci.Common().StaticCallee() == nil {
							for _, cal := range p.dynamicCallees(f, ci) {
								fmt.Printf(" -> %q", short(cal.String()))
							}
						}
						fmt.Println()
					}
				}
			}
		}
		if d := os.Getenv("DBGDESC"); d != "" {
			for _, cs := range p.callSites(f, strings.Split(d, ",")...) {
				c0 := cs.Common()
				var args []ssa.Value
				if c0.IsInvoke() {
					args = append(args, c0.Value)
				}
				args = append(args, c0.Args...)
				fmt.Printf("  %s %s\n", p.pos(cs.Pos()), p.staticCalleeName(c0))
				for i, a := range args {
					fmt.Printf("      arg%d = %s\n", i, descVal(a))
				}
			}
			for _, b := range f.Blocks {
				for _, in := range b.Instrs {
					if r, ok := in.(*ssa.Return); ok {
						for i, v := range r.Results {
							fmt.Printf("  return[%d] = %s\n", i, descVal(v))
						}
					}
				}
			}
		}
		if os.Getenv("DBGBIN") != "" {
			for _, b := range f.Blocks {
				for _, in := range b.Instrs {
					if bo, ok := in.(*ssa.BinOp); ok && isCmp(bo.Op) {
						fmt.Printf("  cmp %s: %s %s %s\n", p.pos(bo.Pos()), descVal(bo.X), bo.Op, descVal(bo.Y))
					}
				}
			}
		}
		var as []Assume
		if len(parts) > 3 && parts[3] != "" {
			v := latFalse
			if len(parts) > 4 {
				switch parts[4] {
				case "nonnil":
					v = latNonNil
				case "zero":
					v = latInt(0)
				case "nil":
					v = latNil
				}
			}
			idx := -1
			if len(parts) > 5 && parts[5] != "" {
				fmt.Sscanf(parts[5], "%d", &idx)
			}
			as = append(as, calleeAssume(v, idx, strings.Split(parts[3], ",")...))
		}
		q := &GuardQuery{P: p, Root: f, Assumes: as}
		if len(parts) > 6 && parts[6] != "" {
			var bi int
			fmt.Sscanf(parts[6], "%d", &bi)
			q.Args = make([]lat, len(f.Params))
			for i := range q.Args {
				q.Args[i] = latTop
			}
			q.Args[bi] = latBigSlice
		}
		r := runGuard(q)
		fmt.Printf("function %s: %d contexts\n", fname(f), r.Visited)
		for _, ri := range r.Returns {
			fmt.Printf("  return at %s: %v\n", p.pos(ri.Instr.Pos()), ri.Vals)
		}
		for k, v := range r.Sites {
			fmt.Printf("  sites %s: %v\n", k, v)
		}
		c.ok("DEBUG", "x", "", "")
	}
}

// surveyAlias: decoders that keep a sub-slice of a byte-slice parameter in a field.
func surveyAlias(p *Program) {
	for f := range p.AllFuncs {
		if f.Blocks == nil || !isCirclFunc(f) || f.Synthetic != "" {
			continue
		}
		n := f.Name()
		if !(strings.HasPrefix(n, "Unmarshal") || strings.HasPrefix(n, "unmarshal") || strings.HasPrefix(n, "Unpack") || strings.HasPrefix(n, "Import") || strings.HasPrefix(n, "SetBytes") || strings.HasPrefix(n, "FromBytes")) {
			continue
		}
		for _, b := range f.Blocks {
			for _, in := range b.Instrs {
				switch x := in.(type) {
				case *ssa.Store:
					if _, ok := x.Addr.(*ssa.FieldAddr); !ok {
						continue
					}
					if rp := rootParam(x.Val); rp != nil && sliceLike(rp.Type()) {
						fmt.Printf("ALIAS %s: %s keeps %s in %s\n", p.pos(x.Pos()), fname(f), descVal(x.Val), descAddr(x.Addr))
					}
				case *ssa.Call:
					cn := p.staticCalleeName(&x.Call)
					if strings.Contains(cn, "cryptobyte.String).ReadBytes") || strings.Contains(cn, "cryptobyte.String).ReadUint16LengthPrefixed") || strings.Contains(cn, "cryptobyte.String).ReadUint8LengthPrefixed") {
						fmt.Printf("ALIAS-CB %s: %s: %s into %s\n", p.pos(x.Pos()), fname(f), cn, descVal(x.Call.Args[len(x.Call.Args)-2]))
					}
				}
			}
		}
	}
}

// surveyAppend: appends whose destination is (a view of) a slice parameter.
func surveyAppend(p *Program) {
	for f := range p.AllFuncs {
		if f.Blocks == nil || !isCirclFunc(f) || f.Synthetic != "" {
			continue
		}
		for _, b := range f.Blocks {
			for _, in := range b.Instrs {
				call, ok := in.(*ssa.Call)
				if !ok {
					continue
				}
				bi, ok := call.Call.Value.(*ssa.Builtin)
				if !ok || bi.Name() != "append" || len(call.Call.Args) < 1 {
					continue
				}
				if rp := sliceRootParam(call.Call.Args[0]); rp != nil {
					fmt.Printf("APPEND %s: %s: append(%s, ...) param %s\n", p.pos(call.Pos()), fname(f), descVal(call.Call.Args[0]), rp.Name())
				}
			}
		}
	}
}

// surveyInnerPtr: methods that store the address of one of the receiver's fields into another object.
func surveyInnerPtr(p *Program) {
	for f := range p.AllFuncs {
		if f.Blocks == nil || !isCirclFunc(f) || f.Synthetic != "" || f.Signature.Recv() == nil {
			continue
		}
		for _, b := range f.Blocks {
			for _, in := range b.Instrs {
				st, ok := in.(*ssa.Store)
				if !ok {
					continue
				}
				fa, ok := st.Val.(*ssa.FieldAddr)
				if !ok || paramRoot(f, fa.X) != 0 {
					continue
				}
				if _, isParam := fa.X.(*ssa.Parameter); !isParam {
					continue
				}
				// stored into something that is not the receiver itself
				if base, _ := memRoot(st.Addr); base != nil {
					if _, isAlloc := base.(*ssa.Alloc); isAlloc {
						fmt.Printf("INNERPTR %s: %s stores &recv.%s into %s\n", p.pos(st.Pos()), fname(f), fieldName(fa), descAddr(st.Addr))
					}
				}
			}
		}
	}
}

func surveyAppendField(p *Program) {
	for f := range p.AllFuncs {
		if f.Blocks == nil || !isCirclFunc(f) || f.Synthetic != "" {
			continue
		}
		for _, b := range f.Blocks {
			for _, in := range b.Instrs {
				call, ok := in.(*ssa.Call)
				if !ok {
					continue
				}
				bi, ok := call.Call.Value.(*ssa.Builtin)
				if !ok || bi.Name() != "append" || len(call.Call.Args) < 1 {
					continue
				}
				v := call.Call.Args[0]
				for {
					if s, ok := v.(*ssa.Slice); ok {
						v = s.X
						continue
					}
					break
				}
				ld, ok := v.(*ssa.UnOp)
				if !ok || ld.Op != token.MUL {
					continue
				}
				fa, ok := ld.X.(*ssa.FieldAddr)
				if !ok {
					continue
				}
				back := false
				for _, r := range *call.Referrers() {
					if st, ok := r.(*ssa.Store); ok {
						if fa2, ok := st.Addr.(*ssa.FieldAddr); ok && fa2.Field == fa.Field && descAddr(fa2) == descAddr(fa) {
							back = true
						}
					}
				}
				fmt.Printf("APPENDFIELD back=%v %s: %s: append(%s, ...)\n", back, p.pos(call.Pos()), fname(f), descVal(call.Call.Args[0]))
			}
		}
	}
}

// surveyCarry: math/bits Add64/Sub64 calls whose carry-out is not used.
func surveyCarry(p *Program) {
	tot, disc := 0, 0
	for f := range p.AllFuncs {
		if f.Blocks == nil || !isCirclFunc(f) || f.Synthetic != "" {
			continue
		}
		for _, b := range f.Blocks {
			for _, in := range b.Instrs {
				call, ok := in.(*ssa.Call)
				if !ok {
					continue
				}
				cn := p.staticCalleeName(&call.Call)
				if cn != "math/bits.Add64" && cn != "math/bits.Sub64" && cn != "math/bits.Add" && cn != "math/bits.Sub" {
					continue
				}
				tot++
				used := false
				for _, r := range *call.Referrers() {
					if ex, ok := r.(*ssa.Extract); ok && ex.Index == 1 && len(*ex.Referrers()) > 0 {
						used = true
					}
				}
				if !used {
					disc++
					_, cin := call.Call.Args[2].(*ssa.Const)
					fmt.Printf("CARRY %s: %s: %s carry-in-const=%v x=%s y=%s\n", p.pos(call.Pos()), fname(f), cn, cin, descVal(call.Call.Args[0]), descVal(call.Call.Args[1]))
				}
			}
		}
	}
	fmt.Printf("CARRY total=%d discarded=%d\n", tot, disc)
}

func surveyOverwritten(p *Program) {
	tot := 0
	for f := range p.AllFuncs {
		if f.Blocks == nil || !isCirclFunc(f) || f.Synthetic != "" {
			continue
		}
		s, n := overwrittenChecks(f)
		tot += n
		for _, v := range s {
			fmt.Printf("OVERWRITTEN %s: %s: %s\n", p.pos(v.Pos()), fname(f), descVal(v))
		}
	}
	fmt.Printf("OVERWRITTEN examined=%d\n", tot)
}

// surveyRMW: read-modify-write stores into memory rooted at a byte/word slice or array parameter.
func surveyRMW(p *Program) {
	for f := range p.AllFuncs {
		if f.Blocks == nil || !isCirclFunc(f) || f.Synthetic != "" {
			continue
		}
		for _, b := range f.Blocks {
			for _, in := range b.Instrs {
				st, ok := in.(*ssa.Store)
				if !ok {
					continue
				}
				bo, ok := st.Val.(*ssa.BinOp)
				if !ok {
					continue
				}
				rmw := false
				for _, o := range []ssa.Value{bo.X, bo.Y} {
					if ld, ok := o.(*ssa.UnOp); ok && ld.Op == token.MUL && descAddr(ld.X) == descAddr(st.Addr) {
						rmw = true
					}
				}
				if !rmw {
					continue
				}
				base, _ := memRoot(st.Addr)
				par, ok := base.(*ssa.Parameter)
				if !ok || !(sliceLike(par.Type())) {
					continue
				}
				if _, ok := st.Addr.(*ssa.IndexAddr); !ok {
					continue
				}
				fmt.Printf("RMW %s: %s: %s %s= …\n", p.pos(st.Pos()), fname(f), descAddr(st.Addr), bo.Op)
			}
		}
	}
}

// surveySharedPtr: methods that return a pointer held in a field of their receiver.
func surveySharedPtr(p *Program) {
	mod := p.Mod()
	for f := range p.AllFuncs {
		if f.Blocks == nil || !isCirclFunc(f) || f.Synthetic != "" || f.Signature.Recv() == nil || len(f.Params) == 0 {
			continue
		}
		for _, b := range f.Blocks {
			ret, ok := b.Instrs[len(b.Instrs)-1].(*ssa.Return)
			if !ok {
				continue
			}
			for _, r := range ret.Results {
				v := r
				if mi, ok := v.(*ssa.MakeInterface); ok {
					v = mi.X
				}
				ld, ok := v.(*ssa.UnOp)
				if !ok || ld.Op != token.MUL {
					continue
				}
				fa, ok := ld.X.(*ssa.FieldAddr)
				if !ok || fa.X != ssa.Value(f.Params[0]) {
					continue
				}
				pt, ok := ld.Type().Underlying().(*types.Pointer)
				if !ok {
					continue
				}
				nt, ok := pt.Elem().(*types.Named)
				if !ok {
					continue
				}
				var muts []string
				ms := p.SSA.MethodSets.MethodSet(ld.Type())
				for i := 0; i < ms.Len(); i++ {
					m := p.SSA.MethodValue(ms.At(i))
					if m == nil || m.Blocks == nil {
						continue
					}
					for _, w := range mod.of(m) {
						if w.Root == "param#0" && !w.Sync {
							muts = append(muts, m.Name())
							break
						}
					}
				}
				fmt.Printf("SHAREDPTR %s: %s returns field %s (*%s) mutators=%v\n", p.pos(ret.Pos()), fname(f), fieldName(fa), nt.Obj().Name(), muts)
			}
		}
	}
}

// surveyReader: functions with an io.Reader parameter that they never use.
func surveyReader(p *Program) {
	n := 0
	for f := range p.AllFuncs {
		if f.Blocks == nil || !isCirclFunc(f) || f.Synthetic != "" || f.Parent() != nil {
			continue
		}
		for _, par := range f.Params {
			if par.Type().String() != "io.Reader" {
				continue
			}
			n++
			if len(*par.Referrers()) == 0 {
				fmt.Printf("READER unused %s: %s param %q\n", p.fnPos(f), fname(f), par.Name())
			}
		}
	}
	fmt.Printf("READER total=%d\n", n)
}

// surveyErrDrop: calls whose error result is discarded while another result of the same call is used.
func surveyErrDrop(p *Program) {
	errT := types.Universe.Lookup("error").Type()
	n := 0
	for f := range p.AllFuncs {
		if f.Blocks == nil || !isCirclFunc(f) || f.Synthetic != "" {
			continue
		}
		for _, b := range f.Blocks {
			for _, in := range b.Instrs {
				call, ok := in.(*ssa.Call)
				if !ok {
					continue
				}
				tup, ok := call.Type().(*types.Tuple)
				if !ok || tup.Len() < 2 || !types.Identical(tup.At(tup.Len()-1).Type(), errT) {
					continue
				}
				n++
				errUsed, otherUsed := false, false
				for _, r := range *call.Referrers() {
					if ex, ok := r.(*ssa.Extract); ok {
						if ex.Index == tup.Len()-1 {
							errUsed = len(*ex.Referrers()) > 0
						} else if len(*ex.Referrers()) > 0 {
							otherUsed = true
						}
					}
				}
				if !errUsed && otherUsed {
					fmt.Printf("ERRDROP %s: %s: %s\n", p.pos(call.Pos()), fname(f), p.staticCalleeName(&call.Call))
				}
			}
		}
	}
	fmt.Printf("ERRDROP total=%d\n", n)
}

// surveyErrUnused: calls of circl functions whose error result is never used.
func surveyErrUnused(p *Program) {
	errT := types.Universe.Lookup("error").Type()
	n := 0
	for f := range p.AllFuncs {
		if f.Blocks == nil || !isCirclFunc(f) || f.Synthetic != "" {
			continue
		}
		for _, b := range f.Blocks {
			for _, in := range b.Instrs {
				ci, ok := in.(ssa.CallInstruction)
				if !ok {
					continue
				}
				v := ci.Value()
				if v == nil {
					continue // go / defer
				}
				sig := ci.Common().Signature()
				res := sig.Results()
				if res.Len() == 0 || !types.Identical(res.At(res.Len()-1).Type(), errT) {
					continue
				}
				// callee must be circl's
				circl := false
				if cal := ci.Common().StaticCallee(); cal != nil {
					circl = isCirclFunc(cal)
				} else {
					for _, cal := range p.dynamicCallees(f, ci) {
						if isCirclFunc(cal) {
							circl = true
						}
					}
				}
				if !circl {
					continue
				}
				n++
				used := false
				if res.Len() == 1 {
					used = len(*v.Referrers()) > 0
				} else {
					for _, r := range *v.Referrers() {
						if ex, ok := r.(*ssa.Extract); ok && ex.Index == res.Len()-1 && len(*ex.Referrers()) > 0 {
							used = true
						}
					}
				}
				if !used {
					fmt.Printf("ERRUNUSED %s: %s: %s\n", p.pos(ci.Pos()), fname(f), p.staticCalleeName(ci.Common()))
				}
			}
		}
	}
	fmt.Printf("ERRUNUSED total=%d\n", n)
}

// surveyGlobalWrite: functions (outside init) whose mod-set contains an unsynchronised write to a
// package-level variable.
func surveyGlobalWrite(p *Program) {
	mod := p.Mod()
	for f := range p.AllFuncs {
		if f.Blocks == nil || !isCirclFunc(f) || f.Synthetic != "" || f.Parent() != nil || f.Name() == "init" || strings.HasPrefix(f.Name(), "init#") {
			continue
		}
		if f.Object() == nil || !f.Object().Exported() {
			continue
		}
		for _, w := range mod.of(f) {
			if strings.HasPrefix(w.Root, "global:") && !w.Sync && !strings.Contains(w.Root, "init$guard") {
				fmt.Printf("GLOBALWRITE %s: %s writes %s via %s at %s\n", p.fnPos(f), fname(f), w.Root, w.Via, p.pos(w.Pos))
			}
		}
	}
}

func surveyAsmStubs(p *Program) {
	for f := range p.AllFuncs {
		if f.Blocks != nil || !isCirclFunc(f) || f.Synthetic != "" {
			continue
		}
		fmt.Printf("ASMSTUB %s %s\n", fname(f), f.Signature.String())
	}
}

func surveyValueRecv(p *Program) {
	n := 0
	for f := range p.AllFuncs {
		if f.Blocks == nil || !isCirclFunc(f) || f.Synthetic != "" {
			continue
		}
		if f.Signature.Recv() != nil {
			n++
		}
		if w := valueReceiverWrites(p, f); len(w) > 0 {
			fmt.Printf("VALRECV %s: %s writes its value receiver at %v\n", p.fnPos(f), fname(f), w)
		}
	}
	fmt.Printf("VALRECV methods=%d\n", n)
}

func surveyNamed(p *Program, name string) {
	for f := range p.AllFuncs {
		if f.Name() == name || strings.HasPrefix(f.Name(), name+"[") {
			fmt.Printf("NAMED %q pkg=%s blocks=%v typeargs=%d synthetic=%q\n", f.String(), funcPkgPath(f), f.Blocks != nil, len(f.TypeArgs()), f.Synthetic)
		}
	}
}

// surveyShareSlice: a method stores into a field of its receiver a slice (or pointer) value loaded
// from a field of another parameter, without copying.
func surveyShareSlice(p *Program) {
	for f := range p.AllFuncs {
		if f.Blocks == nil || !isCirclFunc(f) || !sourceFunc(f) || f.Signature.Recv() == nil || len(f.Params) < 2 {
			continue
		}
		for _, b := range f.Blocks {
			for _, in := range b.Instrs {
				st, ok := in.(*ssa.Store)
				if !ok || !mutableRefType(st.Val.Type()) {
					continue
				}
				fa, ok := st.Addr.(*ssa.FieldAddr)
				if !ok || !isReceiverVal(f, fa.X) {
					continue
				}
				ld, ok := st.Val.(*ssa.UnOp)
				if !ok || ld.Op != token.MUL {
					continue
				}
				fa2, ok := ld.X.(*ssa.FieldAddr)
				if !ok {
					continue
				}
				base, _ := memRoot(fa2.X)
				if isReceiverVal(f, fa2.X) {
					continue
				}
				fmt.Printf("SHARESLICE %s: %s: recv.%s = %s (root %T)\n", p.pos(st.Pos()), fname(f), fieldName(fa), descVal(st.Val), base)
			}
		}
	}
}

// surveyDirectRead: direct calls of io.Reader.Read (not through io.ReadFull).
func surveyDirectRead(p *Program) {
	for f := range p.AllFuncs {
		if f.Blocks == nil || !isCirclFunc(f) || !sourceFunc(f) {
			continue
		}
		for _, b := range f.Blocks {
			for _, in := range b.Instrs {
				ci, ok := in.(ssa.CallInstruction)
				if !ok {
					continue
				}
				n := p.staticCalleeName(ci.Common())
				if n != "invoke (io.Reader).Read" && !strings.HasSuffix(n, "crypto/rand.Read") {
					continue
				}
				used := false
				if v := ci.Value(); v != nil {
					for _, r := range *v.Referrers() {
						if ex, ok := r.(*ssa.Extract); ok && ex.Index == 0 && len(*ex.Referrers()) > 0 {
							used = true
						}
					}
				}
				fmt.Printf("DIRECTREAD %s: %s: %s count-used=%v\n", p.pos(ci.Pos()), fname(f), n, used)
			}
		}
	}
}

// surveyRetainParam: stores, into a field, of a view (re-slicing or array-pointer conversion) of a
// byte-slice parameter, in any function (not only decoders).
func surveyRetainParam(p *Program) {
	for f := range p.AllFuncs {
		if f.Blocks == nil || !isCirclFunc(f) || !sourceFunc(f) {
			continue
		}
		for _, b := range f.Blocks {
			for _, in := range b.Instrs {
				st, ok := in.(*ssa.Store)
				if !ok {
					continue
				}
				if _, ok := st.Addr.(*ssa.FieldAddr); !ok {
					continue
				}
				v := st.Val
				view := false
				for i := 0; i < 8; i++ {
					switch x := v.(type) {
					case *ssa.Slice:
						v, view = x.X, true
						continue
					case *ssa.SliceToArrayPointer:
						v, view = x.X, true
						continue
					case *ssa.ChangeType:
						v = x.X
						continue
					case *ssa.Convert:
						v = x.X
						continue
					}
					break
				}
				par, ok := v.(*ssa.Parameter)
				if !ok || !sliceLike(par.Type()) {
					// cursor-style helpers: value returned by a call on something rooted at a param
					continue
				}
				_ = view
				fmt.Printf("RETAINPARAM %s: %s: field %s keeps %s\n", p.pos(st.Pos()), fname(f), descAddr(st.Addr), descVal(st.Val))
			}
		}
	}
}

// bit01: the value is provably 0 or 1.
func bit01(v ssa.Value, depth int) (yes bool, unknown bool) {
	if depth > 6 {
		return false, true
	}
	switch x := v.(type) {
	case *ssa.Const:
		if x.Value != nil && (x.Value.ExactString() == "0" || x.Value.ExactString() == "1") {
			return true, false
		}
		return false, false
	case *ssa.Convert:
		return bit01(x.X, depth+1)
	case *ssa.ChangeType:
		return bit01(x.X, depth+1)
	case *ssa.BinOp:
		switch x.Op {
		case token.AND:
			for _, o := range []ssa.Value{x.X, x.Y} {
				if k, ok := o.(*ssa.Const); ok && k.Value != nil && k.Value.ExactString() == "1" {
					return true, false
				}
			}
			a, ua := bit01(x.X, depth+1)
			b, ub := bit01(x.Y, depth+1)
			if a || b {
				return true, false
			}
			return false, ua || ub
		case token.OR, token.XOR:
			a, ua := bit01(x.X, depth+1)
			b, ub := bit01(x.Y, depth+1)
			if a && b {
				return true, false
			}
			return false, ua || ub || a || b
		case token.SHR:
			if k, ok := x.Y.(*ssa.Const); ok && k.Value != nil {
				if bt, ok := x.X.Type().Underlying().(*types.Basic); ok && bt.Info()&types.IsUnsigned != 0 {
					w := map[types.BasicKind]string{types.Uint8: "7", types.Uint16: "15", types.Uint32: "31", types.Uint64: "63", types.Uint: "63", types.Uintptr: "63"}[bt.Kind()]
					if w != "" && k.Value.ExactString() == w {
						return true, false
					}
				}
			}
			return false, false
		case token.SUB:
			// 1 - b
			if k, ok := x.X.(*ssa.Const); ok && k.Value != nil && k.Value.ExactString() == "1" {
				return bit01(x.Y, depth+1)
			}
			return false, false
		}
		return false, false
	case *ssa.Phi:
		all := true
		unk := false
		for _, e := range x.Edges {
			if e == ssa.Value(x) {
				continue
			}
			y, u := bit01(e, depth+1)
			if !y {
				all = false
			}
			unk = unk || u
		}
		return all, unk
	case *ssa.Call:
		if cal := x.Call.StaticCallee(); cal != nil {
			n := cal.String()
			if strings.HasPrefix(n, "crypto/subtle.ConstantTime") && !strings.HasSuffix(n, "Select") && !strings.HasSuffix(n, "Copy") {
				return true, false
			}
		}
		return false, true
	case *ssa.Extract:
		// carry / borrow of math/bits
		if c, ok := x.Tuple.(*ssa.Call); ok && x.Index == 1 {
			if cal := c.Call.StaticCallee(); cal != nil && (strings.HasPrefix(cal.String(), "math/bits.Add") || strings.HasPrefix(cal.String(), "math/bits.Sub")) {
				return true, false
			}
		}
		return false, true
	case *ssa.Parameter, *ssa.UnOp, *ssa.Lookup, *ssa.Index, *ssa.Field:
		return false, true
	}
	return false, true
}

func surveySelectors(p *Program) {
	sel := map[string]int{"crypto/subtle.ConstantTimeCopy": 0, "crypto/subtle.ConstantTimeSelect": 0}
	for f := range p.AllFuncs {
		if f.Blocks == nil || !isCirclFunc(f) || !sourceFunc(f) {
			continue
		}
		for _, b := range f.Blocks {
			for _, in := range b.Instrs {
				ci, ok := in.(ssa.CallInstruction)
				if !ok {
					continue
				}
				n := p.staticCalleeName(ci.Common())
				idx, ok := sel[n]
				if !ok {
					continue
				}
				a := ci.Common().Args[idx]
				y, u := bit01(a, 0)
				fmt.Printf("SELECTOR %s: %s: %s(%s) provable01=%v unknown=%v\n", p.pos(ci.Pos()), fname(f), n, descVal(a), y, u)
			}
		}
	}
}

// surveyS2AP: array pointers made from a slice (they alias the slice) that are stored into a field.
func surveyS2AP(p *Program) {
	for f := range p.AllFuncs {
		if f.Blocks == nil || !isCirclFunc(f) || !sourceFunc(f) {
			continue
		}
		for _, b := range f.Blocks {
			for _, in := range b.Instrs {
				st, ok := in.(*ssa.Store)
				if !ok {
					continue
				}
				v := st.Val
				if ct, ok := v.(*ssa.ChangeType); ok {
					v = ct.X
				}
				s2, ok := v.(*ssa.SliceToArrayPointer)
				if !ok {
					continue
				}
				if _, ok := st.Addr.(*ssa.FieldAddr); !ok {
					continue
				}
				fmt.Printf("S2AP %s: %s: field %s keeps an array pointer into %s\n", p.pos(st.Pos()), fname(f), descAddr(st.Addr), descVal(s2.X))
			}
		}
	}
}

func surveyUnusedParams(p *Program) {
	n := 0
	var fs []*ssa.Function
	for f := range p.AllFuncs {
		if f.Blocks != nil && isCirclFunc(f) && sourceFunc(f) && f.Parent() == nil && !strings.Contains(funcPkgPath(f), "/internal/test") {
			fs = append(fs, f)
		}
	}
	sort.Slice(fs, func(i, j int) bool { return fs[i].String() < fs[j].String() })
	for _, f := range fs {
		for i, par := range f.Params {
			if par.Name() == "_" || par.Name() == "" || len(*par.Referrers()) > 0 {
				continue
			}
			if i == 0 && f.Signature.Recv() != nil {
				continue
			}
			n++
			fmt.Printf("UNUSED %s param %s (%s)\n", fname(f), par.Name(), par.Type())
		}
	}
	fmt.Println("unused params:", n)
}

func surveyDeadValues(p *Program) {
	n := 0
	var fs []*ssa.Function
	for f := range p.AllFuncs {
		if f.Blocks != nil && isCirclFunc(f) && sourceFunc(f) && !strings.Contains(funcPkgPath(f), "/internal/test") {
			fs = append(fs, f)
		}
	}
	sort.Slice(fs, func(i, j int) bool { return fs[i].String() < fs[j].String() })
	for _, f := range fs {
		for _, b := range f.Blocks {
			for _, in := range b.Instrs {
				v, ok := in.(ssa.Value)
				if !ok || v.Referrers() == nil || len(*v.Referrers()) > 0 {
					continue
				}
				switch x := in.(type) {
				case *ssa.BinOp, *ssa.Convert, *ssa.Slice, *ssa.Extract, *ssa.Phi:
					_ = x
					n++
					fmt.Printf("DEAD %s %T %s %s\n", fname(f), in, p.pos(in.Pos()), descVal(v))
				case *ssa.Call:
					// value-returning pure call whose result is dropped
					cal := x.Call.StaticCallee()
					if cal == nil || x.Call.Signature().Results().Len() == 0 {
						continue
					}
				}
			}
		}
	}
	fmt.Println("dead values:", n)
}

func surveyNarrowCompare(p *Program) {
	re := regexp.MustCompile(`(?i)(compare|equal|iszero|isone|verify|cmp)`)
	for f := range p.AllFuncs {
		if f.Blocks == nil || !isCirclFunc(f) || !sourceFunc(f) || !re.MatchString(f.Name()) {
			continue
		}
		for _, b := range f.Blocks {
			for _, in := range b.Instrs {
				cv, ok := in.(*ssa.Convert)
				if !ok {
					continue
				}
				sb, ok1 := cv.X.Type().Underlying().(*types.Basic)
				db, ok2 := cv.Type().Underlying().(*types.Basic)
				if !ok1 || !ok2 || sb.Info()&types.IsInteger == 0 || db.Info()&types.IsInteger == 0 {
					continue
				}
				ss, ds := p.sizeOf(sb), p.sizeOf(db)
				if ds < ss {
					fmt.Printf("NARROW %s %s: %s(%d) -> %s(%d) %s\n", fname(f), p.pos(cv.Pos()), sb, ss, db, ds, descVal(cv.X))
				}
			}
		}
	}
}

func (p *Program) sizeOf(b *types.Basic) int64 {
	switch b.Kind() {
	case types.Int8, types.Uint8:
		return 1
	case types.Int16, types.Uint16:
		return 2
	case types.Int32, types.Uint32:
		return 4
	default:
		return 8
	}
}

func surveyReturnAlias(p *Program) {
	var fs []*ssa.Function
	for f := range p.AllFuncs {
		if f.Blocks != nil && isCirclFunc(f) && sourceFunc(f) && f.Parent() == nil && f.Signature.Recv() != nil && f.Object() != nil && f.Object().Exported() && !strings.Contains(funcPkgPath(f), "/internal/") {
			fs = append(fs, f)
		}
	}
	sort.Slice(fs, func(i, j int) bool { return fs[i].String() < fs[j].String() })
	n := 0
	for _, f := range fs {
		recv := ssa.Value(f.Params[0])
		for _, b := range f.Blocks {
			ret, ok := b.Instrs[len(b.Instrs)-1].(*ssa.Return)
			if !ok {
				continue
			}
			for _, rv := range ret.Results {
				if _, isSlice := rv.Type().Underlying().(*types.Slice); !isSlice {
					continue
				}
				v := rv
				for i := 0; i < 8; i++ {
					switch x := v.(type) {
					case *ssa.Slice:
						v = x.X
						continue
					case *ssa.ChangeType:
						v = x.X
						continue
					case *ssa.Convert:
						v = x.X
						continue
					}
					break
				}
				root := ""
				if v == recv {
					root = "receiver itself"
				} else if u, ok := v.(*ssa.UnOp); ok && u.Op == token.MUL {
					if n := recvField(recv, u.X); n != "" {
						root = "field " + n
					}
				} else if n := recvField(recv, v); n != "" {
					root = "storage of field " + n
				}
				if root != "" {
					n++
					fmt.Printf("RETALIAS %s returns %s (%s)\n", fname(f), root, p.pos(ret.Pos()))
				}
			}
		}
	}
	fmt.Println("return aliases:", n)
}

func surveySiblingConds(p *Program, pkg, ta, tb string) {
	norm := func(s string) string {
		r := strings.NewReplacer(tb, ta, strings.ToLower(tb), strings.ToLower(ta), "Fp2", "Fp", "fp2", "fp", "g2", "g1", "G2", "G1")
		return r.Replace(s)
	}
	conds := func(f *ssa.Function) []string {
		var out []string
		for _, b := range f.Blocks {
			if ifi, ok := b.Instrs[len(b.Instrs)-1].(*ssa.If); ok {
				out = append(out, norm(descVal(ifi.Cond)))
			}
		}
		sort.Strings(out)
		return out
	}
	pk := p.ByPath[circlPath+"/"+pkg]
	if pk == nil {
		return
	}
	names := map[string]bool{}
	for f := range p.AllFuncs {
		if f.Blocks != nil && funcPkgPath(f) == circlPath+"/"+pkg && f.Signature.Recv() != nil && sourceFunc(f) {
			names[f.Name()] = true
		}
	}
	n, nd := 0, 0
	for name := range names {
		fa, fb := p.Func(pkg, ta, name), p.Func(pkg, tb, name)
		if fa == nil || fb == nil {
			continue
		}
		n++
		ca, cb := conds(fa), conds(fb)
		if strings.Join(ca, " ;; ") != strings.Join(cb, " ;; ") {
			nd++
			fmt.Printf("SIBDIFF %s:\n   %s: %v\n   %s: %v\n", name, ta, ca, tb, cb)
		}
	}
	fmt.Println("sibling methods:", n, "differing:", nd)
}

func surveyAsmConds(p *Program) {
	byPkg := map[string]map[string][]string{}
	for f := range p.AllFuncs {
		if f.Blocks == nil || !isCirclFunc(f) || !sourceFunc(f) {
			continue
		}
		for _, b := range f.Blocks {
			for _, in := range b.Instrs {
				ci, ok := in.(ssa.CallInstruction)
				if !ok {
					continue
				}
				cal := ci.Common().StaticCallee()
				if cal == nil || cal.Blocks != nil || !isCirclFunc(cal) || cal.Synthetic != "" {
					continue
				}
				// controlling condition: nearest dominating If with b in exactly one arm
				cond := "(unconditional)"
				for d := b; d.Idom() != nil; d = d.Idom() {
					pd := d.Idom()
					if ifi, ok := pd.Instrs[len(pd.Instrs)-1].(*ssa.If); ok && len(d.Preds) == 1 {
						arm := "T"
						if pd.Succs[1] == d {
							arm = "F"
						}
						cond = arm + ":" + descVal(ifi.Cond)
						break
					}
				}
				pk := strings.TrimPrefix(funcPkgPath(f), circlPath+"/")
				if byPkg[pk] == nil {
					byPkg[pk] = map[string][]string{}
				}
				byPkg[pk][cond] = append(byPkg[pk][cond], f.Name()+"->"+cal.Name())
			}
		}
	}
	var pks []string
	for k := range byPkg {
		pks = append(pks, k)
	}
	sort.Strings(pks)
	for _, pk := range pks {
		fmt.Println("ASMCOND", pk)
		for cnd, fs := range byPkg[pk] {
			sort.Strings(fs)
			if len(fs) > 6 {
				fs = append(fs[:6], fmt.Sprintf("... %d more", len(fs)-6))
			}
			fmt.Printf("    %-60s %v\n", cnd, fs)
		}
	}
}
