package main

import (
	"fmt"
	"os"
	"path/filepath"
	"regexp"
	"sort"
	"strings"
)

// ASMARMS: the two arms of a CPU-feature dispatch in assembly are alternatives.
//
// `CMPB ·hasBMI2(SB), $1; JE fast; <legacy>; RET; fast: <mulx>; RET` selects one of two implementations of
// the same function. If the arm that is fallen into does not end in an unconditional transfer (RET or JMP)
// before the label of the other arm, execution continues into that arm and the operation is applied twice on
// CPUs that take the fall-through arm - invisible on the machine that runs the tests. For every conditional
// jump that directly follows a compare of a ·has* feature flag, the rule requires the instruction before the
// definition of the jump's label to be RET or JMP.
var (
	asmFeatCmp = regexp.MustCompile(`(?i)^CMPB\s+·has\w*\(SB\)`)
	asmCondJmp = regexp.MustCompile(`^J(E|NE|EQ|Z|NZ)\s+(\w+)\s*$`)
	asmLabel   = regexp.MustCompile(`^(\w+):\s*$`)
)

func asmInstrs(path string) ([]string, []int, error) {
	data, err := os.ReadFile(path)
	if err != nil {
		return nil, nil, err
	}
	var out []string
	var lines []int
	for i, ln := range strings.Split(string(data), "\n") {
		if j := strings.Index(ln, "//"); j >= 0 {
			ln = ln[:j]
		}
		ln = strings.TrimSpace(strings.TrimSuffix(strings.TrimSpace(ln), "\\"))
		if ln == "" || strings.HasPrefix(ln, "#") {
			if strings.HasPrefix(ln, "#define") {
				out = append(out, "#define")
				lines = append(lines, i+1)
			}
			continue
		}
		for _, part := range strings.Split(ln, ";") {
			part = strings.TrimSpace(part)
			if part != "" {
				out = append(out, part)
				lines = append(lines, i+1)
			}
		}
	}
	return out, lines, nil
}

func checkAsmArms(c *Ctx, rule string, floor int) {
	var files []string
	_ = filepath.Walk(c.Repo, func(path string, info os.FileInfo, err error) error {
		if err != nil {
			return nil
		}
		if info.IsDir() {
			if n := info.Name(); n == ".git" || n == "testdata" {
				return filepath.SkipDir
			}
			return nil
		}
		if strings.HasSuffix(path, "_amd64.s") || strings.HasSuffix(path, "_amd64.h") {
			files = append(files, path)
		}
		return nil
	})
	sort.Strings(files)
	nsites, nbad := 0, 0
	for _, path := range files {
		ins, lines, err := asmInstrs(path)
		if err != nil {
			c.undecided(rule, path, err.Error(), "")
			continue
		}
		rel, _ := filepath.Rel(c.Repo, path)
		for i := 0; i+1 < len(ins); i++ {
			if !asmFeatCmp.MatchString(ins[i]) {
				continue
			}
			m := asmCondJmp.FindStringSubmatch(ins[i+1])
			if m == nil {
				continue
			}
			label := m[2]
			// the definition of the label after the jump, within the same TEXT / macro
			def := -1
			for j := i + 2; j < len(ins); j++ {
				if strings.HasPrefix(ins[j], "TEXT ") || ins[j] == "#define" {
					break
				}
				if lm := asmLabel.FindStringSubmatch(ins[j]); lm != nil && lm[1] == label {
					def = j
					break
				}
			}
			construct := fmt.Sprintf("%s: dispatch on %s to %s", rel, strings.Fields(ins[i])[1], label)
			loc := fmt.Sprintf("%s:%d", rel, lines[i])
			if def < 0 {
				// a macro parameter used as label, or a backward jump: not the two-arm form
				if strings.Contains(ins[i+1], "label") {
					// CHECK_BMI2(label, legacy, bmi2): the macro body itself
					for j := i + 2; j < len(ins) && ins[j] != "#define" && !strings.HasPrefix(ins[j], "TEXT "); j++ {
						if ins[j] == label+":" {
							def = j
						}
					}
				}
				if def < 0 {
					continue
				}
			}
			nsites++
			prev := ins[def-1]
			op := strings.Fields(prev)[0]
			if op == "RET" || op == "JMP" {
				c.ok(rule, construct, "the fall-through arm ends in "+prev+" before "+label+":", loc)
				continue
			}
			nbad++
			c.bad(rule, construct, fmt.Sprintf("the arm that is fallen into ends in `%s` (line %d), not in RET or JMP: execution continues into the arm at %s and the operation is applied a second time on CPUs that do not take the jump", prev, lines[def-1], label), loc)
		}
	}
	c.count("asm_feature_dispatches", nsites)
	if nsites < floor {
		c.undecided(rule, "feature dispatches in amd64 assembly", fmt.Sprintf("only %d found (floor %d)", nsites, floor), "")
	}
	_ = nbad
}

func init() {
	prev := registry["C14"]
	registry["C14"] = func(c *Ctx) {
		prev(c)
		if c.override != "" && c.override != "amd64" {
			return
		}
		c.Clauses = append(c.Clauses, "C14.asmarms: at every CPU-feature dispatch in amd64 assembly the arm that is fallen into ends in RET or JMP before the other arm's label (no fall-through from one implementation into the other)")
		checkAsmArms(c, "C14.asmarms", 12)
	}
}
