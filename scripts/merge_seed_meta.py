#!/usr/bin/env python3
"""Merges validation.json (what was re-run here, in a scratch worktree) into each seed's meta.json."""
import glob, json, os
RAN = ("scripts/validate_seeds.py: scratch worktree of /repo HEAD under /tmp/sv (removed afterwards); git apply patch.diff; "
       "go build ./... && go test -run '^$' ./... (compile all tests); go test -vet=off -count=1 ./... (full suite; only the baseline "
       "failure hpke TestVectors allowed); demonstration copied to demo_location and run with demo_cmd with the patch (must fail) and "
       "after git apply -R (must pass); then every quick check with -repo <worktree>")
for d in sorted(glob.glob('/verif/seeded/C*-*')):
    mp, vp = d + '/meta.json', d + '/validation.json'
    if not (os.path.exists(mp) and os.path.exists(vp)):
        continue
    m, v = json.load(open(mp)), json.load(open(vp))
    m['breaks_property'] = m.get('property')
    m['what_was_run_to_confirm'] = RAN
    m['confirmed'] = {k: v.get(k) for k in ('at', 'repo_head', 'applies', 'builds', 'tests_pass_like_baseline', 'tests_failed_packages',
                                            'demo_fails_with_patch', 'demo_passes_without_patch', 'error') if k in v}
    m['detected_by_checks'] = sorted(v.get('detected_by', {}))
    m['detection_reports'] = v.get('detected_by', {})
    json.dump(m, open(mp, 'w'), indent=1)
print('merged')
