package main

// Taint: which values derive from the untrusted byte/string parameters of the decoding entry points
// (the slices themselves and their sub-slices, their lengths, integers loaded from them), followed
// interprocedurally into circl callees (context-insensitive: the union over all tainted call sites).

import (
	"go/token"
	"go/types"

	"golang.org/x/tools/go/ssa"
)

type taint struct {
	p      *Program
	vals   map[ssa.Value]bool
	funcs  map[*ssa.Function]bool
	params map[*ssa.Parameter]bool
	work   []*ssa.Function
	inWork map[*ssa.Function]bool
	objs   map[ssa.Value]bool  // local buffers that received tainted content
	fields map[*types.Var]bool // struct fields that received tainted values (experimental heap taint)
	heap   bool
}

func newTaint(p *Program) *taint {
	return &taint{p: p, vals: map[ssa.Value]bool{}, funcs: map[*ssa.Function]bool{}, params: map[*ssa.Parameter]bool{}, inWork: map[*ssa.Function]bool{}, objs: map[ssa.Value]bool{}, fields: map[*types.Var]bool{}}
}

func (t *taint) push(f *ssa.Function) {
	if f == nil || f.Blocks == nil {
		return
	}
	t.funcs[f] = true
	if !t.inWork[f] {
		t.inWork[f] = true
		t.work = append(t.work, f)
	}
}

func (t *taint) seed(f *ssa.Function) {
	for _, par := range f.Params {
		if untrustedParam(par.Type()) {
			t.params[par] = true
		}
	}
	t.push(f)
}

func (t *taint) isTainted(v ssa.Value) bool {
	if v == nil {
		return false
	}
	if par, ok := v.(*ssa.Parameter); ok {
		return t.params[par]
	}
	return t.vals[v]
}

func (t *taint) run() {
	for len(t.work) > 0 {
		f := t.work[0]
		t.work = t.work[1:]
		t.inWork[f] = false
		t.analyse(f)
	}
}

func (t *taint) analyse(f *ssa.Function) {
	changed := true
	mark := func(v ssa.Value) {
		if !t.vals[v] {
			t.vals[v] = true
			changed = true
		}
	}
	for iter := 0; changed && iter < 50; iter++ {
		changed = false
		for _, b := range f.Blocks {
			for _, in := range b.Instrs {
				switch x := in.(type) {
				case *ssa.Slice:
					if t.isTainted(x.X) {
						mark(x)
					}
				case *ssa.IndexAddr:
					if t.isTainted(x.X) {
						mark(x)
					}
				case *ssa.Index:
					if t.isTainted(x.X) {
						mark(x)
					}
				case *ssa.Lookup:
					if t.isTainted(x.X) {
						mark(x)
					}
				case *ssa.FieldAddr:
					if t.isTainted(x.X) {
						mark(x)
					}
					if t.heap {
						if fv := fieldVar(x); fv != nil && t.fields[fv] {
							mark(x)
						}
					}
				case *ssa.Field:
					if t.isTainted(x.X) {
						mark(x)
					}
				case *ssa.UnOp:
					if x.Op == token.MUL {
						// load: from a tainted address, or from a local buffer that received tainted bytes
						if t.isTainted(x.X) {
							mark(x)
						} else if base, _ := memRoot(x.X); t.objs[base] {
							mark(x)
						}
					} else if t.isTainted(x.X) {
						mark(x)
					}
				case *ssa.BinOp:
					if t.isTainted(x.X) || t.isTainted(x.Y) {
						// comparisons produce booleans: not propagated
						if !isCmp(x.Op) {
							mark(x)
						} else if usedByIf(x) {
							// a loop counter bounded by a tainted value ranges over input-dependent indices
							for _, o := range []ssa.Value{x.X, x.Y} {
								if ph := counterOf(o); ph != nil {
									mark(ph)
								}
							}
						}
					}
				case *ssa.Convert:
					if t.isTainted(x.X) {
						mark(x)
					}
				case *ssa.ChangeType:
					if t.isTainted(x.X) {
						mark(x)
					}
				case *ssa.MakeInterface:
					if t.isTainted(x.X) {
						mark(x)
					}
				case *ssa.SliceToArrayPointer:
					if t.isTainted(x.X) {
						mark(x)
					}
				case *ssa.Phi:
					for _, e := range x.Edges {
						if t.isTainted(e) {
							mark(x)
						}
					}
				case *ssa.Extract:
					if t.isTainted(x.Tuple) {
						mark(x)
					}
				case *ssa.Store:
					if t.heap && t.isTainted(x.Val) {
						if fa, ok := x.Addr.(*ssa.FieldAddr); ok {
							if fv := fieldVar(fa); fv != nil && !t.fields[fv] {
								t.fields[fv] = true
								changed = true
							}
						}
					}
					if t.isTainted(x.Val) {
						if base, _ := memRoot(x.Addr); base != nil {
							if _, ok := base.(*ssa.Alloc); ok && !t.objs[base] {
								t.objs[base] = true
								changed = true
							}
						}
					}
				case *ssa.Range:
					if t.isTainted(x.X) {
						mark(x)
					}
				case *ssa.Next:
					if t.isTainted(x.Iter) {
						mark(x)
					}
				case ssa.CallInstruction:
					t.call(f, x, mark, &changed)
				}
			}
		}
	}
}

func (t *taint) call(f *ssa.Function, x ssa.CallInstruction, mark func(ssa.Value), changed *bool) {
	c := x.Common()
	var args []ssa.Value
	if c.IsInvoke() {
		args = append(args, c.Value)
	}
	args = append(args, c.Args...)
	name := t.p.staticCalleeName(c)
	res, _ := x.(ssa.Value)
	anyT := false
	for _, a := range args {
		if t.isTainted(a) {
			anyT = true
		}
	}
	if b, ok := c.Value.(*ssa.Builtin); ok {
		switch b.Name() {
		case "len", "cap":
			if anyT && res != nil {
				mark(res)
			}
		case "copy":
			if len(args) == 2 && t.isTainted(args[1]) {
				if base, _ := memRoot(args[0]); base != nil {
					if _, ok := base.(*ssa.Alloc); ok && !t.objs[base] {
						t.objs[base] = true
						*changed = true
					}
					if _, ok := base.(*ssa.MakeSlice); ok && !t.objs[base] {
						t.objs[base] = true
						*changed = true
					}
				}
			}
		case "append":
			if anyT && res != nil {
				mark(res)
			}
		}
		return
	}
	var callees []*ssa.Function
	if sc := c.StaticCallee(); sc != nil {
		callees = []*ssa.Function{sc}
	} else if anyT {
		callees = t.p.dynamicCallees(f, x)
		if len(callees) > 16 {
			callees = nil
		}
	}
	descended := false
	for _, cal := range callees {
		if !inlinable(cal) || cal.Blocks == nil || len(cal.Params) != len(args) || trustedSink(cal) {
			continue
		}
		descended = true
		for i, a := range args {
			if t.isTainted(a) && !t.params[cal.Params[i]] {
				t.params[cal.Params[i]] = true
				t.push(cal)
			} else if base, _ := memRoot(a); t.objs[base] && pointerLike(cal.Params[i].Type()) && !t.params[cal.Params[i]] {
				// a local buffer holding tainted bytes passed by reference: contents tainted, length is not
				_ = i
			}
		}
		// results of circl callees fed with tainted data are tainted when they are integers or byte slices
		if anyT && res != nil {
			switch res.Type().Underlying().(type) {
			case *types.Basic, *types.Slice, *types.Tuple:
				mark(res)
			}
		}
	}
	if !descended && anyT && res != nil {
		// external callee: integer / slice / string results derive from the tainted arguments
		switch name {
		case "bytes.Equal", "crypto/subtle.ConstantTimeCompare":
			return
		}
		switch res.Type().Underlying().(type) {
		case *types.Basic, *types.Slice, *types.Tuple:
			mark(res)
		}
	}
}

// trustedSink: streaming hash / XOF implementations absorb input of any length by design (their
// own buffering is exercised with every length by every test); taint is not followed into them,
// exactly as for the standard library's hashes.
func trustedSink(f *ssa.Function) bool {
	pp := funcPkgPath(f)
	for _, t := range []string{"/internal/sha3", "/xof", "/simd/keccakf1600", "/internal/conv"} {
		if pp == circlPath+t || len(pp) > len(circlPath+t) && pp[:len(circlPath+t)+1] == circlPath+t+"/" {
			return true
		}
	}
	return false
}

func usedByIf(v ssa.Value) bool {
	if refs := v.Referrers(); refs != nil {
		for _, r := range *refs {
			if _, ok := r.(*ssa.If); ok {
				return true
			}
		}
	}
	return false
}

// counterOf: v is a loop-header phi with a self-referential step edge, or such a phi plus/minus a constant.
func counterOf(v ssa.Value) *ssa.Phi {
	if bo, ok := v.(*ssa.BinOp); ok && (bo.Op == token.ADD || bo.Op == token.SUB) {
		if _, isK := bo.Y.(*ssa.Const); isK {
			v = bo.X
		}
	}
	ph, ok := v.(*ssa.Phi)
	if !ok {
		return nil
	}
	if _, _, isInt := intWidth(ph.Type()); !isInt {
		return nil
	}
	for _, e := range ph.Edges {
		if bo, ok := e.(*ssa.BinOp); ok && (bo.Op == token.ADD || bo.Op == token.SUB) && bo.X == ssa.Value(ph) {
			return ph
		}
	}
	return nil
}

func fieldVar(fa *ssa.FieldAddr) *types.Var {
	pt, ok := fa.X.Type().Underlying().(*types.Pointer)
	if !ok {
		return nil
	}
	st, ok := pt.Elem().Underlying().(*types.Struct)
	if !ok || fa.Field >= st.NumFields() {
		return nil
	}
	return st.Field(fa.Field)
}
