package main

import (
	"fmt"
	"go/constant"
	"go/token"
	"go/types"
	"sort"
	"strings"

	"golang.org/x/tools/go/ssa"
)

// FULLWIDTH: a verdict computed from an OR-accumulated difference looks at every bit of it.
//
// Constant-time comparisons accumulate `v |= a[i] ^ b[i]` and turn v into 0/1 at the end
// ((v | -v) >> 15, uint32(v>>32) | uint32(v), subtle.ConstantTimeByteEq(byte(v), 0) for a byte-wide v). A
// conversion that narrows the accumulator before the test loses the differences in the discarded bits: two
// values that differ only there compare as equal. For every integer accumulator of this shape (a loop phi
// one of whose incoming values is the phi OR-ed with something) the rule propagates, bit position by bit
// position, which bits of the accumulator can influence the function's results, and requires all of them.
type bitDeps [64]uint64 // bitDeps[i]: accumulator bits that may influence bit i of the value

func bitWidth(t types.Type) int {
	b, ok := t.Underlying().(*types.Basic)
	if !ok || b.Info()&types.IsInteger == 0 {
		if ok && b.Kind() == types.Bool {
			return 1
		}
		return 0
	}
	switch b.Kind() {
	case types.Int8, types.Uint8:
		return 8
	case types.Int16, types.Uint16:
		return 16
	case types.Int32, types.Uint32:
		return 32
	default:
		return 64
	}
}

func isSignedInt(t types.Type) bool {
	b, ok := t.Underlying().(*types.Basic)
	return ok && b.Info()&types.IsInteger != 0 && b.Info()&types.IsUnsigned == 0
}

type bitEngine struct {
	acc  ssa.Value
	memo map[ssa.Value]*bitDeps
	busy map[ssa.Value]bool
}

func (e *bitEngine) all(d *bitDeps, w int) uint64 {
	var u uint64
	for i := 0; i < w && i < 64; i++ {
		u |= d[i]
	}
	return u
}

func (e *bitEngine) deps(v ssa.Value) *bitDeps {
	if d, ok := e.memo[v]; ok {
		return d
	}
	d := &bitDeps{}
	if e.busy[v] {
		return d
	}
	e.busy[v] = true
	defer delete(e.busy, v)
	w := bitWidth(v.Type())
	if v == e.acc {
		for i := 0; i < w; i++ {
			d[i] = 1 << uint(i)
		}
		e.memo[v] = d
		return d
	}
	carryUp := func(xs ...*bitDeps) {
		var run uint64
		for i := 0; i < w; i++ {
			for _, x := range xs {
				run |= x[i]
			}
			d[i] = run
		}
	}
	spread := func(u uint64) {
		for i := 0; i < w || i < 1; i++ {
			d[i] = u
		}
	}
	constOf := func(x ssa.Value) (uint64, bool) {
		k, ok := x.(*ssa.Const)
		if !ok || k.Value == nil || k.Value.Kind() != constant.Int {
			return 0, false
		}
		if u, ok := constant.Uint64Val(k.Value); ok {
			return u, true
		}
		if i, ok := constant.Int64Val(k.Value); ok {
			return uint64(i), true
		}
		return 0, false
	}
	switch x := v.(type) {
	case *ssa.Const, *ssa.Parameter, *ssa.Global:
	case *ssa.Phi:
		for _, ed := range x.Edges {
			de := e.deps(ed)
			for i := 0; i < 64; i++ {
				d[i] |= de[i]
			}
		}
	case *ssa.UnOp:
		dx := e.deps(x.X)
		switch x.Op {
		case token.SUB: // -x
			carryUp(dx)
		case token.XOR, token.NOT: // ^x, !x
			*d = *dx
		default:
			// loads etc.: no accumulator bits
		}
	case *ssa.Convert:
		dx := e.deps(x.X)
		sw := bitWidth(x.X.Type())
		for i := 0; i < w; i++ {
			switch {
			case i < sw:
				d[i] = dx[i]
			case isSignedInt(x.X.Type()) && sw > 0:
				d[i] = dx[sw-1]
			}
		}
	case *ssa.ChangeType:
		*d = *e.deps(x.X)
	case *ssa.BinOp:
		dx, dy := e.deps(x.X), e.deps(x.Y)
		switch x.Op {
		case token.OR, token.XOR:
			for i := 0; i < w; i++ {
				d[i] = dx[i] | dy[i]
			}
		case token.AND, token.AND_NOT:
			mx, okx := constOf(x.X)
			my, oky := constOf(x.Y)
			if x.Op == token.AND_NOT {
				my = ^my
			}
			for i := 0; i < w; i++ {
				d[i] = dx[i] | dy[i]
				if oky && my&(1<<uint(i)) == 0 {
					d[i] = 0
				}
				if okx && x.Op == token.AND && mx&(1<<uint(i)) == 0 {
					d[i] = 0
				}
			}
		case token.SHR:
			if k, ok := constOf(x.Y); ok {
				for i := 0; i < w; i++ {
					j := i + int(k)
					switch {
					case j < w:
						d[i] = dx[j]
					case isSignedInt(x.X.Type()):
						d[i] = dx[w-1]
					}
				}
			} else {
				spread(e.all(dx, w) | e.all(dy, bitWidth(x.Y.Type())))
			}
		case token.SHL:
			if k, ok := constOf(x.Y); ok {
				for i := int(k); i < w; i++ {
					d[i] = dx[i-int(k)]
				}
			} else {
				spread(e.all(dx, w) | e.all(dy, bitWidth(x.Y.Type())))
			}
		case token.ADD, token.SUB, token.MUL:
			carryUp(dx, dy)
		case token.EQL, token.NEQ, token.LSS, token.LEQ, token.GTR, token.GEQ:
			ow := bitWidth(x.X.Type())
			d[0] = e.all(dx, ow) | e.all(dy, ow)
		default:
			ow := bitWidth(x.X.Type())
			spread(e.all(dx, ow) | e.all(dy, ow))
		}
	case *ssa.Call:
		// the result depends on every bit of every integer argument (subtle.ConstantTime*, helpers)
		var u uint64
		for _, a := range x.Call.Args {
			if aw := bitWidth(a.Type()); aw > 0 {
				u |= e.all(e.deps(a), aw)
			}
		}
		for i := 0; i < 64; i++ {
			d[i] = u
		}
	case *ssa.Extract:
		*d = *e.deps(x.Tuple)
	}
	e.memo[v] = d
	return d
}

func checkFullWidth(c *Ctx, p *Program, prop string, prefixes []string, floor int) {
	rule := prop + ".fullwidth"
	var fs []*ssa.Function
	for f := range p.AllFuncs {
		if f.Blocks != nil && isCirclFunc(f) && sourceFunc(f) && !strings.Contains(funcPkgPath(f), "/internal/test") && (prefixes == nil || inScope(f, prefixes)) {
			fs = append(fs, f)
		}
	}
	sort.Slice(fs, func(i, j int) bool { return fs[i].String() < fs[j].String() })
	n, nbad := 0, 0
	for _, f := range fs {
		for _, b := range f.Blocks {
			for _, in := range b.Instrs {
				ph, ok := in.(*ssa.Phi)
				if !ok {
					break
				}
				w := bitWidth(ph.Type())
				if w < 8 {
					continue
				}
				// OR-accumulator of differences: an incoming value is (phi | (x ^ y)) or ((x ^ y) | phi)
				isAcc := false
				for _, ed := range ph.Edges {
					bo, ok := ed.(*ssa.BinOp)
					if !ok || bo.Op != token.OR {
						continue
					}
					for _, pr := range [][2]ssa.Value{{bo.X, bo.Y}, {bo.Y, bo.X}} {
						if pr[0] != ssa.Value(ph) {
							continue
						}
						if xo, ok := pr[1].(*ssa.BinOp); ok && xo.Op == token.XOR {
							isAcc = true
						}
					}
				}
				if !isAcc {
					continue
				}
				// only accumulators whose value reaches a result of the function
				e := &bitEngine{acc: ph, memo: map[ssa.Value]*bitDeps{}, busy: map[ssa.Value]bool{}}
				var got uint64
				reached := false
				for _, rb := range f.Blocks {
					ret, ok := rb.Instrs[len(rb.Instrs)-1].(*ssa.Return)
					if !ok {
						continue
					}
					for _, rv := range ret.Results {
						rw := bitWidth(rv.Type())
						if rw == 0 {
							continue
						}
						u := e.all(e.deps(rv), rw)
						if u != 0 {
							reached = true
						}
						got |= u
					}
				}
				// ... or decides a branch
				for _, bb := range f.Blocks {
					if ifi, ok := bb.Instrs[len(bb.Instrs)-1].(*ssa.If); ok {
						u := e.all(e.deps(ifi.Cond), 1)
						if u != 0 {
							reached = true
						}
						got |= u
					}
				}
				if !reached {
					continue
				}
				n++
				var want uint64 = ^uint64(0)
				if w < 64 {
					want = (1 << uint(w)) - 1
				}
				construct := fmt.Sprintf("%s: the verdict looks at all %d bits of the accumulated difference", fname(f), w)
				if got&want != want {
					var miss []string
					lo := -1
					for i := 0; i <= w; i++ {
						missing := i < w && got&(1<<uint(i)) == 0
						if missing && lo < 0 {
							lo = i
						}
						if !missing && lo >= 0 {
							miss = append(miss, fmt.Sprintf("%d..%d", lo, i-1))
							lo = -1
						}
					}
					nbad++
					c.bad(rule, construct, "bits "+strings.Join(miss, ", ")+" of the accumulator never reach the result: values that differ only there compare as equal", p.pos(ph.Pos()))
				} else {
					c.ok(rule, construct, "every bit reaches the result", p.pos(ph.Pos()))
				}
			}
		}
	}
	c.count("difference_accumulators", n)
	if n < floor {
		c.undecided(rule, "OR-accumulated differences that decide a result", fmt.Sprintf("only %d found (floor %d)", n, floor), "")
	}
}

func init() {
	for prop, sc := range map[string]struct {
		pre   []string
		floor int
	}{
		"C01": {[]string{"kem/", "pke/", "hpke"}, 1},
		"C12": {nil, 5},
	} {
		prop, sc := prop, sc
		prev := registry[prop]
		if prev == nil {
			panic("fullwidth: " + prop + " not registered")
		}
		registry[prop] = func(c *Ctx) {
			prev(c)
			if p := c.Prog("amd64"); p != nil {
				c.Clauses = append(c.Clauses, prop+".fullwidth: a verdict computed from an OR-accumulated difference (v |= a[i]^b[i]) depends on every bit of the accumulator (bit-level dependence through shifts, masks, negation, narrowing conversions and calls)")
				checkFullWidth(c, p, prop, sc.pre, sc.floor)
				if prop == "C12" {
					checkRawEq(c, p, "C12.canon")
				}
			}
		}
	}
}

// RAWEQ: field elements with a redundant representation are compared with == only after both have been
// reduced. fp25519.Elt and fp448.Elt are byte arrays holding a value below 2^255 resp. 2^448; two arrays
// with different bytes can denote the same residue. A comparison of a freshly reduced value with an operand
// that was not reduced fails for every non-canonical operand.
var rawEqExceptions = map[string]string{
	"(*ecc/goldilocks.Point).IsIdentity": "compares y and z as computed; both come out of the same multiplication chain and a non-canonical representative has probability about 2^-224 (listed in DESIGN 8.5)",
}

func checkRawEq(c *Ctx, p *Program, rule string) {
	isElt := func(t types.Type) bool {
		n, ok := t.(*types.Named)
		if !ok || n.Obj().Pkg() == nil {
			return false
		}
		pp := n.Obj().Pkg().Path()
		return n.Obj().Name() == "Elt" && (strings.HasSuffix(pp, "math/fp25519") || strings.HasSuffix(pp, "math/fp448"))
	}
	var fs []*ssa.Function
	for f := range p.AllFuncs {
		if f.Blocks != nil && isCirclFunc(f) && sourceFunc(f) && !strings.Contains(funcPkgPath(f), "/internal/test") {
			fs = append(fs, f)
		}
	}
	sort.Slice(fs, func(i, j int) bool { return fs[i].String() < fs[j].String() })
	n, nbad := 0, 0
	for _, f := range fs {
		for _, b := range f.Blocks {
			for _, in := range b.Instrs {
				bo, ok := in.(*ssa.BinOp)
				if !ok || (bo.Op != token.EQL && bo.Op != token.NEQ) || !isElt(bo.X.Type()) {
					continue
				}
				n++
				var raw []string
				for _, o := range []ssa.Value{bo.X, bo.Y} {
					ld, ok := o.(*ssa.UnOp)
					if !ok || ld.Op != token.MUL {
						continue // a constant or a value
					}
					if _, isGlobal := ld.X.(*ssa.Global); isGlobal {
						continue // a package-level constant
					}
					if d := descVal(ld.X); strings.HasPrefix(d, "&[") || strings.HasPrefix(d, `&"`) {
						continue // a literal written out in canonical form
					}
					reduced := false
					for _, bb := range f.Blocks {
						for _, in2 := range bb.Instrs {
							ci, ok := in2.(ssa.CallInstruction)
							if !ok || !instrDominates(in2, in) {
								continue
							}
							nm := p.staticCalleeName(ci.Common())
							if !(strings.HasSuffix(nm, ".Modp") || strings.HasSuffix(nm, ".modp") || strings.HasSuffix(nm, ".ToBytes")) || len(ci.Common().Args) == 0 {
								continue
							}
							for _, a := range ci.Common().Args {
								if sameLocation(a, ld.X, 0) {
									reduced = true
								}
							}
						}
					}
					if !reduced {
						raw = append(raw, descVal(ld.X))
					}
				}
				construct := fname(f) + ": field elements compared with == have both been reduced"
				if len(raw) == 0 {
					c.ok(rule, construct, "both operands are reduced before the comparison at "+p.pos(bo.Pos()), p.pos(bo.Pos()))
					continue
				}
				if why, ok := rawEqExceptions[fname(f)]; ok {
					c.ok(rule, construct, "exception: "+why, p.pos(bo.Pos()))
					continue
				}
				nbad++
				c.bad(rule, construct, fmt.Sprintf("at %s the operand(s) %s are compared as stored: a non-canonical representative of the same residue compares unequal", p.pos(bo.Pos()), strings.Join(raw, ", ")), p.pos(bo.Pos()))
			}
		}
	}
	c.count("raw_elt_comparisons", n)
	if nbad == 0 {
		c.ok(rule, "no == on unreduced fp25519 / fp448 elements", fmt.Sprintf("%d comparisons of Elt values inspected", n), "")
	}
}

// SELECTMASK: the mask of the portable conditional move / swap is a function of bit 0 of the selector only.
// The assembly routines move on any non-zero selector; callers pass 0, 1 and also the sign mask -1. The
// portable code reduces the selector to its low bit before negating it (`-uint64(n & 1)`): negating the
// selector itself turns -1 into +1, a mask with one bit set.
func checkSelectMask(c *Ctx, p *Program, rule string) {
	n := 0
	for _, pkg := range []string{"math/fp25519", "math/fp448"} {
		for _, name := range []string{"cmovGeneric", "cswapGeneric"} {
			f := p.Func(pkg, "", name)
			what := pkg + "." + name + ": every bit of the selection mask depends on bit 0 of the selector only"
			if f == nil {
				c.undecided(rule, what, "anchor function does not resolve", "")
				continue
			}
			var sel *ssa.Parameter
			for _, q := range f.Params {
				if bitWidth(q.Type()) > 0 {
					sel = q
				}
			}
			if sel == nil {
				c.undecided(rule, what, "no integer selector parameter", p.fnPos(f))
				continue
			}
			e := &bitEngine{acc: sel, memo: map[ssa.Value]*bitDeps{}, busy: map[ssa.Value]bool{}}
			found, bad := 0, ""
			for _, b := range f.Blocks {
				for _, in := range b.Instrs {
					u, ok := in.(*ssa.UnOp)
					if !ok || u.Op != token.SUB {
						continue
					}
					d := e.deps(u)
					if e.all(d, 64) == 0 {
						continue // not derived from the selector
					}
					found++
					for i := 0; i < bitWidth(u.Type()); i++ {
						if d[i]&^1 != 0 {
							bad = fmt.Sprintf("bit %d of the mask computed at %s depends on selector bits other than bit 0 (%s)", i, p.pos(u.Pos()), descVal(u))
							break
						}
					}
				}
			}
			n++
			switch {
			case found == 0:
				c.undecided(rule, what, "no negated value derived from the selector found", p.fnPos(f))
			case bad != "":
				c.bad(rule, what, bad+": a selector of -1, which the assembly treats as true, gives a mask with a single bit set", p.fnPos(f))
			default:
				c.ok(rule, what, fmt.Sprintf("%d mask(s)", found), p.fnPos(f))
			}
		}
	}
	_ = n
}
