package goldilocks

import (
	"math/big"
	"testing"
)

// Scalar is a 56-byte array: every value of it is an operand of Add and Sub.
// For operands that are not reduced the fold of 2^448 can carry (borrow) a
// second time, and that carry was dropped.
func TestFindingScalarAddSubCarry(t *testing.T) {
	toBig := func(s *Scalar) *big.Int {
		b := make([]byte, ScalarSize)
		for i := range s {
			b[ScalarSize-1-i] = s[i]
		}
		return new(big.Int).SetBytes(b)
	}
	n := toBig(&order)
	var max, zero, one Scalar
	for i := range max {
		max[i] = 0xff
	}
	one[0] = 1
	cases := [][2]*Scalar{{&max, &max}, {&zero, &max}, {&one, &max}, {&max, &zero}, {&max, &one}, {&order, &max}}
	for _, c := range cases {
		var z Scalar
		x, y := toBig(c[0]), toBig(c[1])
		z.Add(c[0], c[1])
		want := new(big.Int).Add(x, y)
		want.Mod(want, n)
		if got := toBig(&z); got.Cmp(want) != 0 {
			t.Errorf("Add(%x, %x): got %x want %x", x, y, got, want)
		}
		z.Sub(c[0], c[1])
		want.Sub(x, y).Mod(want, n)
		if got := toBig(&z); got.Cmp(want) != 0 {
			t.Errorf("Sub(%x, %x): got %x want %x", x, y, got, want)
		}
	}
}
