package p384_test

// (x+p, y) is not a point of P-384: crypto/elliptic - which is also the portable back-end of this
// package - refuses coordinates that are negative or not below p; the optimised back-end reduced them.
// Copy to ecc/p384/ and run: go test -run TestFindingIsOnCurveUnreduced ./ecc/p384/  (amd64 / arm64 build)

import (
	"crypto/elliptic"
	"math/big"
	"testing"

	"github.com/cloudflare/circl/ecc/p384"
)

func TestFindingIsOnCurveUnreduced(t *testing.T) {
	params := elliptic.P384().Params()
	gx, gy, p := params.Gx, params.Gy, params.P
	c := p384.P384()
	if !c.IsOnCurve(gx, gy) {
		t.Fatal("generator rejected")
	}
	for name, xy := range map[string][2]*big.Int{
		"x+p": {new(big.Int).Add(gx, p), gy},
		"y+p": {gx, new(big.Int).Add(gy, p)},
		"y-p": {gx, new(big.Int).Sub(gy, p)},
	} {
		if c.IsOnCurve(xy[0], xy[1]) {
			t.Errorf("IsOnCurve accepts (%s): crypto/elliptic says %v", name, elliptic.P384().IsOnCurve(xy[0], xy[1]))
		}
	}
}
