package hpke_test

import (
	"bytes"
	"testing"

	"github.com/cloudflare/circl/hpke"
)

// A Sender or Receiver that set up a PSK (or Auth) context before must set up
// a Base context exactly as a fresh one does: RFC 9180 SetupBaseS/R take no
// PSK and no sender key.
func TestFindingSetupStaleModeInputs(t *testing.T) {
	suite := hpke.NewSuite(hpke.KEM_X25519_HKDF_SHA256, hpke.KDF_HKDF_SHA256, hpke.AEAD_AES128GCM)
	scheme := hpke.KEM_X25519_HKDF_SHA256.Scheme()
	pkR, skR := scheme.DeriveKeyPair(bytes.Repeat([]byte{1}, scheme.SeedSize()))
	pkS, skS := scheme.DeriveKeyPair(bytes.Repeat([]byte{3}, scheme.SeedSize()))
	psk, pskID := bytes.Repeat([]byte{2}, 32), []byte("id")
	rnd := func() *bytes.Reader { return bytes.NewReader(bytes.Repeat([]byte{7}, 64)) }

	fresh, _ := suite.NewSender(pkR, nil)
	encFresh, sealFresh, err := fresh.Setup(rnd())
	if err != nil {
		t.Fatal(err)
	}
	ctFresh, _ := sealFresh.Seal([]byte("m"), nil)

	for name, first := range map[string]func(s *hpke.Sender) error{
		"PSK":  func(s *hpke.Sender) error { _, _, e := s.SetupPSK(rnd(), psk, pskID); return e },
		"Auth": func(s *hpke.Sender) error { _, _, e := s.SetupAuth(rnd(), skS); return e },
	} {
		used, _ := suite.NewSender(pkR, nil)
		if err := first(used); err != nil {
			t.Fatal(err)
		}
		enc, seal, err := used.Setup(rnd())
		if err != nil {
			t.Errorf("Sender.Setup after Setup%s: %v", name, err)
			continue
		}
		ct, _ := seal.Seal([]byte("m"), nil)
		if !bytes.Equal(enc, encFresh) || !bytes.Equal(ct, ctFresh) {
			t.Errorf("Sender.Setup after Setup%s differs from a fresh sender", name)
		}
	}
	for name, first := range map[string]func(r *hpke.Receiver) error{
		"PSK":  func(r *hpke.Receiver) error { _, e := r.SetupPSK(encFresh, psk, pskID); return e },
		"Auth": func(r *hpke.Receiver) error { _, e := r.SetupAuth(encFresh, pkS); return e },
	} {
		used, _ := suite.NewReceiver(skR, nil)
		if err := first(used); err != nil {
			t.Fatal(err)
		}
		open, err := used.Setup(encFresh)
		if err != nil {
			t.Errorf("Receiver.Setup after Setup%s: %v", name, err)
			continue
		}
		if pt, err := open.Open(ctFresh, nil); err != nil || string(pt) != "m" {
			t.Errorf("Receiver.Setup after Setup%s cannot open a base-mode ciphertext: %v", name, err)
		}
	}
}
