package main

import (
	"fmt"
	"go/token"
	"sort"
	"strings"

	"golang.org/x/tools/go/ssa"
)

// SPONGE: a multi-lane Keccak state that one loop both squeezes and absorbs into starts each round zeroed.
//
// keccakf1600.StateX2/StateX4 are raw permutation states: Initialize does not clear them. A loop that absorbs
// input into the state (stores into the slice Initialize returned), permutes, and reads the result out
// hashes one group of inputs per iteration, so every iteration has to start from the all-zero state. That
// holds when the state is a variable of the loop body (a fresh, zeroed allocation per iteration) or when the
// loop stores zeros into it; a state allocated outside such a loop carries one group's final state into the
// next group, and only calls long enough to run the loop twice see it.
func checkSpongeReset(c *Ctx, p *Program, rule string, floor int) {
	var fs []*ssa.Function
	for f := range p.AllFuncs {
		if f.Blocks != nil && isCirclFunc(f) && sourceFunc(f) && !strings.Contains(funcPkgPath(f), "/internal/test") {
			fs = append(fs, f)
		}
	}
	sort.Slice(fs, func(i, j int) bool { return fs[i].String() < fs[j].String() })
	nstates, nloops := 0, 0
	for _, f := range fs {
		var allocs []*ssa.Alloc
		for _, b := range f.Blocks {
			for _, in := range b.Instrs {
				if al, ok := in.(*ssa.Alloc); ok {
					t := derefType(al.Type()).String()
					if strings.HasSuffix(t, "simd/keccakf1600.StateX4") || strings.HasSuffix(t, "simd/keccakf1600.StateX2") {
						allocs = append(allocs, al)
					}
				}
			}
		}
		if len(allocs) == 0 {
			continue
		}
		hdrs := loopHeadersOf(f)
		for _, al := range allocs {
			nstates++
			// the slices Initialize returned for this state
			slices := map[ssa.Value]bool{}
			for _, r := range *al.Referrers() {
				if cl, ok := r.(*ssa.Call); ok && strings.HasSuffix(p.staticCalleeName(&cl.Call), ").Initialize") {
					slices[cl] = true
				}
			}
			onState := func(addr ssa.Value) bool {
				for i := 0; i < 8; i++ {
					switch x := addr.(type) {
					case *ssa.IndexAddr:
						if slices[x.X] {
							return true
						}
						addr = x.X
					case *ssa.Slice:
						if slices[x.X] {
							return true
						}
						addr = x.X
					default:
						return false
					}
				}
				return false
			}
			type ev struct{ absorb, squeeze, zero bool }
			per := map[int]*ev{}
			get := func(h int) *ev {
				if per[h] == nil {
					per[h] = &ev{}
				}
				return per[h]
			}
			for _, b := range f.Blocks {
				for _, in := range b.Instrs {
					var absorb, squeeze, zero bool
					switch x := in.(type) {
					case *ssa.Store:
						if onState(x.Addr) {
							if k, ok := x.Val.(*ssa.Const); ok && k.Value != nil && k.Value.ExactString() == "0" {
								zero = true
							} else {
								absorb = true
							}
						}
					case *ssa.UnOp:
						if x.Op == token.MUL && onState(x.X) {
							for _, r := range *x.Referrers() {
								switch y := r.(type) {
								case *ssa.BinOp:
									// a ^= v: the load feeds the store back into the state
									back := false
									for _, rr := range *y.Referrers() {
										if st, ok := rr.(*ssa.Store); ok && onState(st.Addr) {
											back = true
										}
									}
									if !back {
										squeeze = true
									}
								default:
									squeeze = true
								}
							}
						}
					}
					if !absorb && !squeeze && !zero {
						continue
					}
					for _, h := range hdrs[b.Index] {
						e := get(h)
						e.absorb = e.absorb || absorb
						e.squeeze = e.squeeze || squeeze
						e.zero = e.zero || zero
					}
				}
			}
			var hs []int
			for h := range per {
				hs = append(hs, h)
			}
			sort.Ints(hs)
			for _, h := range hs {
				e := per[h]
				if !e.absorb || !e.squeeze {
					continue
				}
				nloops++
				inLoop := false
				for _, hh := range hdrs[al.Block().Index] {
					if hh == h {
						inLoop = true
					}
				}
				what := fmt.Sprintf("%s: the %s absorbed into and read out in the loop at %s starts every iteration zeroed", fname(f), derefType(al.Type()).String()[strings.LastIndex(derefType(al.Type()).String(), ".")+1:], p.pos(f.Blocks[h].Instrs[0].Pos()))
				switch {
				case inLoop:
					c.ok(rule, what, "the state is a variable of the loop body: allocated, hence zeroed, in every iteration", p.pos(al.Pos()))
				case e.zero:
					c.ok(rule, what, "the loop stores zeros into the state", p.pos(al.Pos()))
				default:
					c.bad(rule, what, "the state is allocated at "+p.pos(al.Pos())+", outside the loop, and nothing in the loop clears it (Initialize does not): from the second iteration on the input is absorbed into the previous group's final state", p.pos(al.Pos()))
				}
			}
		}
	}
	c.count("multilane_states", nstates)
	c.count("absorb_squeeze_loops", nloops)
	if nloops < floor {
		c.undecided(rule, "loops that absorb into and read out a multi-lane Keccak state", fmt.Sprintf("only %d found (floor %d)", nloops, floor), "")
	}
}

func init() {
	for _, prop := range []string{"C14", "C15"} {
		prop := prop
		prev := registry[prop]
		registry[prop] = func(c *Ctx) {
			prev(c)
			if p := c.Prog("amd64"); p != nil {
				c.Clauses = append(c.Clauses, prop+".spongereset: a multi-lane Keccak state that a loop both absorbs into and reads out is allocated in that loop or cleared by it (each group of inputs is hashed from the zero state)")
				checkSpongeReset(c, p, prop+".spongereset", 2)
			}
		}
	}
}
