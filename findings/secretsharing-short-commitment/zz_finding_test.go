package secretsharing_test

import (
	"testing"

	"github.com/cloudflare/circl/group"
	"github.com/cloudflare/circl/secretsharing"
)

type zeroReader struct{}

func (zeroReader) Read(b []byte) (int, error) {
	for i := range b {
		b[i] = 0
	}
	return len(b), nil
}

// A dealer whose drawn coefficients happen to be zero publishes fewer than t+1
// commitments, and Verify refuses every share it dealt.
func TestFindingShortCommitment(t *testing.T) {
	g := group.Ristretto255
	const th = 2
	secret := g.NewScalar().SetUint64(7)
	ss := secretsharing.New(zeroReader{}, th, secret)
	com := ss.CommitSecret()
	if len(com) != th+1 {
		t.Errorf("commitment has %d entries, want %d", len(com), th+1)
	}
	for _, sh := range ss.Share(4) {
		if !secretsharing.Verify(th, sh, com) {
			t.Fatal("a dealt share does not verify against the dealer's commitment")
		}
	}
}
