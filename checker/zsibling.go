package main

import (
	"fmt"
	"regexp"
	"sort"
	"strings"

	"golang.org/x/tools/go/ssa"
)

// SIBLING(G1/G2): the two groups of BLS12-381 implement every common method with the same tests.
//
// g1.go and g2.go are the same code over Fp and Fp2. For every method both types have, the branch conditions
// of the two bodies are compared after renaming (G2 -> G1, Fp2 -> Fp) and after abstracting the encoded
// sizes in length comparisons: a guard present in one and missing in the other (the projective-validity
// test of IsEqual, the "not the point at infinity" test around the sign bit of the encoder) is a
// disagreement between two implementations of one specification, whichever of them is right.
var sibLenCmp = regexp.MustCompile(`len\(param#(\d+)\)<[A-Za-z0-9|()]+`)

func siblingConds(f *ssa.Function, ta, tb string) []string {
	r := strings.NewReplacer(tb, ta, strings.ToLower(tb), strings.ToLower(ta), "Fp2", "Fp", "fp2", "fp", "(*", "(")
	var out []string
	for _, b := range f.Blocks {
		if ifi, ok := b.Instrs[len(b.Instrs)-1].(*ssa.If); ok {
			d := r.Replace(descVal(ifi.Cond))
			d = sibLenCmp.ReplaceAllString(d, "len(param#$1)<SIZE")
			out = append(out, d)
		}
	}
	sort.Strings(out)
	return out
}

func checkSiblingTypes(c *Ctx, p *Program, rule, pkg, ta, tb string, floor int) {
	names := map[string]bool{}
	for f := range p.AllFuncs {
		if f.Blocks != nil && funcPkgPath(f) == circlPath+"/"+pkg && f.Signature.Recv() != nil && sourceFunc(f) {
			names[f.Name()] = true
		}
	}
	var ns []string
	for n := range names {
		ns = append(ns, n)
	}
	sort.Strings(ns)
	n := 0
	for _, name := range ns {
		fa, fb := p.Func(pkg, ta, name), p.Func(pkg, tb, name)
		if fa == nil || fb == nil {
			continue
		}
		n++
		ca, cb := siblingConds(fa, ta, tb), siblingConds(fb, ta, tb)
		construct := fmt.Sprintf("%s: %s.%s and %s.%s make the same tests", pkg, ta, name, tb, name)
		if strings.Join(ca, " ;; ") == strings.Join(cb, " ;; ") {
			c.ok(rule, construct, fmt.Sprintf("%d branch conditions, equal after renaming", len(ca)), p.fnPos(fa))
			continue
		}
		// report the first condition one has and the other lacks
		count := func(xs []string) map[string]int {
			m := map[string]int{}
			for _, x := range xs {
				m[x]++
			}
			return m
		}
		ma, mb := count(ca), count(cb)
		var diff []string
		for k, v := range ma {
			if mb[k] < v {
				diff = append(diff, fmt.Sprintf("only %s tests %s", ta, k))
			}
		}
		for k, v := range mb {
			if ma[k] < v {
				diff = append(diff, fmt.Sprintf("only %s tests %s", tb, k))
			}
		}
		sort.Strings(diff)
		c.bad(rule, construct, strings.Join(diff, "; "), p.fnPos(fb))
	}
	c.count("sibling_methods", n)
	if n < floor {
		c.undecided(rule, pkg+": methods common to "+ta+" and "+tb, fmt.Sprintf("only %d found (floor %d)", n, floor), "")
	}
}

func init() {
	for _, prop := range []string{"C09", "C13"} {
		prop := prop
		prev := registry[prop]
		registry[prop] = func(c *Ctx) {
			prev(c)
			if p := c.Prog("amd64"); p != nil {
				c.Clauses = append(c.Clauses, prop+".sibling: every method common to bls12381.G1 and G2 makes the same tests in both (branch conditions compared after renaming and after abstracting the encoded sizes)")
				checkSiblingTypes(c, p, prop+".sibling", "ecc/bls12381", "G1", "G2", 18)
			}
		}
	}
}
