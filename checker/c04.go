package main

import (
	"fmt"
	"go/constant"
	"go/token"
	"go/types"
	"regexp"
	"sort"
	"strings"

	"golang.org/x/tools/go/ssa"
)

func init() { registry["C04"] = checkC04 }

func checkC04(c *Ctx) {
	p := c.Prog("amd64")
	if p == nil {
		return
	}
	c.Clauses = append(c.Clauses,
		"C04.params: (k, l, eta, tau, omega, gamma1, gamma2, c-tilde and tr sizes, q, d, beta) of each mode equal FIPS 204 Table 1 / Dilithium 3.1",
		"C04.strict: verification accepts only an exact-length signature with ‖z‖∞ < γ1−β (the bound passed is exactly γ1−β) and a canonical hint: HintBitUnpack's four rejecting tests (switch-over points non-decreasing and ≤ ω, indices strictly increasing, padding zero from the last switch-over point) stand before acceptance",
		"C04.loop: the signing loop ends only behind its four rejection tests, with the specified bounds γ2−β, γ1−β, γ2 and ω",
		"C04.domsep: ML-DSA key generation absorbs (k, l) after the seed, signing absorbs rnd, and the pure-ML-DSA message prefix is 0 ‖ len(ctx) ‖ ctx ‖ M on both the signing and verifying side")
	c.NotDec = append(c.NotDec, "byte-exact conformance", "rounding functions (Power2Round, Decompose, MakeHint, UseHint), samplers and NTT", "that the signing loop terminates with the specified distribution")

	type mode struct {
		pkg                                       string
		nist                                      bool
		k, l, eta, tau, omega, g1bits, g2, ct, tr int64
	}
	modes := []mode{
		{"sign/mldsa/mldsa44", true, 4, 4, 2, 39, 80, 17, 95232, 32, 64},
		{"sign/mldsa/mldsa65", true, 6, 5, 4, 49, 55, 19, 261888, 48, 64},
		{"sign/mldsa/mldsa87", true, 8, 7, 2, 60, 75, 19, 261888, 64, 64},
		{"sign/dilithium/mode2", false, 4, 4, 2, 39, 80, 17, 95232, 32, 32},
		{"sign/dilithium/mode3", false, 6, 5, 4, 49, 55, 19, 261888, 32, 32},
		{"sign/dilithium/mode5", false, 8, 7, 2, 60, 75, 19, 261888, 32, 32},
	}
	cm := "sign/internal/dilithium"
	c.tableConstInt(p, "C04.params", cm, "Q", 8380417)
	c.tableConstInt(p, "C04.params", cm, "N", 256)
	c.tableConstInt(p, "C04.params", cm, "D", 13)
	for _, m := range modes {
		ip := m.pkg + "/internal"
		for n, v := range map[string]int64{"K": m.k, "L": m.l, "Eta": m.eta, "Tau": m.tau, "Omega": m.omega, "Gamma1Bits": m.g1bits, "Gamma2": m.g2,
			"CTildeSize": m.ct, "TRSize": m.tr, "Beta": m.tau * m.eta, "Gamma1": int64(1) << uint(m.g1bits)} {
			c.tableConstInt(p, "C04.params", ip, n, v)
		}
		if v, ok := p.constOf(ip, "NIST"); ok {
			c.tableEq("C04.params", ip+".NIST", v.ExactString(), fmt.Sprint(m.nist), "")
		} else {
			c.undecided("C04.params", ip+".NIST", "constant does not resolve", "")
		}
		sigSize := m.l*((m.g1bits+1)*256/8) + m.omega + m.k + m.ct
		c.tableConstInt(p, "C04.params", ip, "SignatureSize", sigSize)
		c.tableConstInt(p, "C04.params", m.pkg, "SignatureSize", sigSize)

		// ---- strictness of verification ----
		g1mb := (int64(1) << uint(m.g1bits)) - m.tau*m.eta
		un := p.Func(ip, "unpackedSignature", "Unpack")
		c.lenReject(p, "C04.strict", un, "buf", true)
		c.guard(p, "C04.strict", "‖z‖∞ ≥ γ1−β rejected", un, GuardSpec{Assumes: []Assume{calleeAssume(latTrue, -1, "(*"+ip+".VecL).Exceeds")}})
		c.callArgRule(p, "C04.strict", "the norm bound is exactly γ1−β", un, "(*"+ip+".VecL).Exceeds", "", map[int]string{1: fmt.Sprint(g1mb)})
		c.guard(p, "C04.strict", "non-canonical hint rejected", un, GuardSpec{Assumes: []Assume{calleeAssume(latFalse, -1, "(*"+ip+".VecK).UnpackHint")}})
		c.callArgRule(p, "C04.strict", "z and the hint are read at their offsets c̃ ‖ z ‖ h", un, "(*"+ip+".VecK).UnpackHint", "", map[int]string{1: fmt.Sprintf(`param#1\[%d:\]`, m.ct+m.l*((m.g1bits+1)*32))})
		c.callArgRule(p, "C04.strict", "z and the hint are read at their offsets c̃ ‖ z ‖ h", un, "(*"+ip+".VecL).UnpackLeGamma1", "", map[int]string{1: fmt.Sprintf(`param#1\[%d:\]`, m.ct)})
		uh := p.Func(ip, "VecK", "UnpackHint")
		om := fmt.Sprint(m.omega)
		i := `phi\(\(↺\+1\)\|0\)`                     // polynomial counter
		sop := `param#1\[\(` + om + `\+` + i + `\)\]` // SOP = buf[ω+i]
		prev := `phi\(0\|` + sop + `\)`               // prevSOP
		j := `phi\(\(↺\+1\)\|` + prev + `\)`          // index scan starting at prevSOP
		for _, t := range []struct{ name, re string }{
			{"switch-over points are non-decreasing", sop + ` < ` + prev},
			{"switch-over points are at most ω", sop + ` > ` + om},
			{"indices strictly increase within a polynomial", `param#1\[` + j + `\] <= param#1\[\(` + j + `-1\)\]`},
			{"padding is zero from the last switch-over point on", `param#1\[` + j + `\] != 0`},
		} {
			if _, err := regexp.Compile(t.re); err != nil {
				c.undecided("C04.strict", t.name, "bad pattern", "")
				continue
			}
			c.guard(p, "C04.strict", "hint rejected unless "+t.name, uh, GuardSpec{BinAssumes: []BinAssume{binDesc(uh, t.name, t.re, latTrue)}, ThroughBin: true})
		}
		// FIPS 204 Alg. 8 / sigDecode refuse for: the length, ‖z‖∞ ≥ γ1−β, a malformed hint, c̃ ≠ c̃' - nothing else
		c.rejectReasonsRule(p, "C04.strict", reasonSpec{pkg: ip, name: "Verify", why: "FIPS 204 Alg. 8",
			callees: []string{"(*" + ip + ".unpackedSignature).Unpack"}})
		c.rejectReasonsRule(p, "C04.strict", reasonSpec{pkg: ip, typ: "unpackedSignature", name: "Unpack", why: "FIPS 204 sigDecode and the norm check of Alg. 8",
			callees: []string{"(*" + ip + ".VecL).Exceeds", "(*" + ip + ".VecK).UnpackHint"}})
		vf := p.Func(ip, "", "Verify")
		c.guard(p, "C04.strict", "accepted only if the recomputed c̃ equals the transmitted one", vf, GuardSpec{BinAssumes: []BinAssume{{Name: "c == c'", Match: arrayCmpIn(ip + ".Verify"), Val: latFalse}}})
		c.guard(p, "C04.strict", "accepted only if the signature unpacks", vf, GuardSpec{Assumes: []Assume{calleeAssume(latFalse, -1, "(*"+ip+".unpackedSignature).Unpack")}})

		// ---- signing loop ----
		st := p.Func(ip, "", "SignTo")
		ex := "(*" + ip + ".VecK).Exceeds"
		exl := "(*" + ip + ".VecL).Exceeds"
		always := successSpec{"returns (signature produced)", func([]lat) bool { return true }}
		c.guardEachSite(p, "C04.loop", "no signature while a VecK norm test fails", st, -1, latTrue, ex)
		c.guardEachSite(p, "C04.loop", "no signature while ‖z‖∞ ≥ γ1−β", st, -1, latTrue, exl)
		_ = always
		c.callArgRule(p, "C04.loop", "z bound is γ1−β", st, exl, "", map[int]string{1: fmt.Sprint(g1mb)})
		c.seqRule(p, "C04.loop", "VecK bounds are γ2−β then γ2", st, []string{ex}, []string{`Exceeds\(.*, ` + fmt.Sprint(m.g2-m.tau*m.eta) + `\)`, `Exceeds\(.*, ` + fmt.Sprint(m.g2) + `\)`})
		c.guard(p, "C04.loop", "no signature while the hint weight exceeds ω", st, GuardSpec{BinAssumes: []BinAssume{binDesc(st, "hintPop > ω", `call:.*MakeHint > `+om, latTrue)}, ThroughBin: true, Success: &always})

		// ---- domain separation ----
		kg := p.Func(ip, "", "NewKeyFromSeed")
		w := "(*internal/sha3.State).Write"
		if m.nist {
			c.transcriptRule(p, "C04.domsep", "key generation absorbs seed ‖ k ‖ l", kg, nil, w, 1, []string{"param#0", fmt.Sprintf("[%d %d]", m.k, m.l), "…"})
		}
	}
}

// the scalar rejection sampler of the matrix (used when the four-way sampler is not available) keeps a
// 23-bit candidate exactly when it is below q: q itself is rejected, q-1 is kept
func init() {
	prev := registry["C04"]
	registry["C04"] = func(c *Ctx) {
		prev(c)
		p := c.Prog("amd64")
		if p == nil {
			return
		}
		c.Clauses = append(c.Clauses, "C04.sample: the scalar uniform sampler stores a 23-bit candidate equal to q-1 and does not store one equal to q (boundary of the rejection test, decided by constant propagation)")
		for _, pk := range []string{"sign/dilithium/mode2", "sign/dilithium/mode3", "sign/dilithium/mode5", "sign/mldsa/mldsa44", "sign/mldsa/mldsa65", "sign/mldsa/mldsa87"} {
			c04ExpandA(c, p, pk+"/internal")
			c04HintOffsets(c, p, pk+"/internal")
			f := p.Func(pk+"/internal", "", "PolyDeriveUniform")
			// the sampling loop is a closure over p, i and buf
			outer := f
			if f != nil && len(f.AnonFuncs) == 1 {
				f = f.AnonFuncs[0]
			}
			cand := func(v int64) []ValAssume {
				return []ValAssume{{Name: "candidate (23 bits)", Val: latInt(v), Match: func(x ssa.Value, in *ssa.Function) bool {
					b, ok := x.(*ssa.BinOp)
					if !ok || in != f || b.Op != token.AND {
						return false
					}
					k, ok := b.Y.(*ssa.Const)
					return ok && k.Value != nil && k.Value.ExactString() == "8388607"
				}}}
			}
			isCoeff := func(st *ssa.Store) bool {
				ia, ok := st.Addr.(*ssa.IndexAddr)
				if !ok || f == nil {
					return false
				}
				base, _ := memRoot(ia.X)
				if fv, ok := base.(*ssa.FreeVar); ok {
					return outer != nil && len(outer.Params) > 0 && fv.Name() == outer.Params[0].Name()
				}
				return outer != nil && len(outer.Params) > 0 && base == ssa.Value(outer.Params[0])
			}
			c.storeReachUnder(p, "C04.sample", "a candidate equal to q is rejected", f, cand(8380417), "store of a coefficient", isCoeff, false)
			c.storeReachUnder(p, "C04.sample", "a candidate equal to q-1 is kept", f, cand(8380416), "store of a coefficient", isCoeff, true)
			// the norm test works on normalised coefficients (its two back-ends disagree on values in (q, 2q)): every
			// Exceeds in the signing loop is preceded by a normalisation of the same vector
			if st := p.Func(pk+"/internal", "", "SignTo"); st == nil {
				c.undecided("C04.sample", pk+"/internal.SignTo", "anchor does not resolve", "")
			} else {
				var exc, norm []ssa.CallInstruction
				for _, b := range st.Blocks {
					for _, in := range b.Instrs {
						ci, ok := in.(ssa.CallInstruction)
						if !ok || ci.Common().IsInvoke() || len(ci.Common().Args) == 0 {
							continue
						}
						n := p.staticCalleeName(ci.Common())
						switch {
						case strings.HasSuffix(n, ").Exceeds"):
							exc = append(exc, ci)
						case strings.HasSuffix(n, ").Normalize") || strings.HasSuffix(n, ").NormalizeAssumingLe2Q"):
							norm = append(norm, ci)
						}
					}
				}
				var bad []string
				for _, e := range exc {
					ok := false
					for _, n := range norm {
						if sameLocation(e.Common().Args[0], n.Common().Args[0], 0) && instrDominates(n, e) {
							ok = true
						}
					}
					if !ok {
						bad = append(bad, fmt.Sprintf("%s: Exceeds on %s is not preceded by a normalisation of it", p.pos(e.Pos()), descVal(e.Common().Args[0])))
					}
				}
				construct := fname(st) + ": every norm test in the signing loop is made on a normalised vector"
				switch {
				case len(exc) < 3:
					c.undecided("C04.sample", construct, fmt.Sprintf("only %d Exceeds calls found (floor 3)", len(exc)), p.fnPos(st))
				case len(bad) > 0:
					c.bad("C04.sample", construct, strings.Join(bad, "; "), p.fnPos(st))
				default:
					c.ok("C04.sample", construct, fmt.Sprintf("%d norm tests, each dominated by Normalize / NormalizeAssumingLe2Q of the same vector", len(exc)), p.fnPos(st))
				}
			}
			// MakeHint (FIPS 204 Alg. 39) at its boundaries: no hint for |z0| <= γ2 and for z0 = -γ2 with r1 = 0,
			// a hint for z0 = γ2+1, for z0 = -γ2 with r1 != 0 and for z0 = -γ2-1 (z0 given mod q)
			{
				g2 := int64(261888) // (q-1)/32
				if pk == "sign/dilithium/mode2" || pk == "sign/mldsa/mldsa44" {
					g2 = 95232 // (q-1)/88
				}
				const q = 8380417
				mh := p.Func(pk+"/internal", "", "makeHint")
				one := successSpec{"result 0 == 1", func(r []lat) bool {
					return len(r) > 0 && (r[0].k == kTop || (r[0].k == kConst && r[0].c.Kind() == constant.Int && r[0].c.ExactString() == "1"))
				}}
				for _, tc := range []struct {
					z0, r1 int64
					hint   bool
				}{{g2, 5, false}, {g2 + 1, 5, true}, {q - g2, 0, false}, {q - g2, 1, true}, {q - g2 - 1, 0, true}, {q - g2 + 1, 3, false}, {0, 0, false}} {
					c.evalAcceptRuleSpec(p, "C04.sample", fmt.Sprintf("makeHint(z0=%d, r1=%d) = %v", tc.z0, tc.r1, map[bool]int{false: 0, true: 1}[tc.hint]), mh,
						map[string]lat{"z0": latInt(tc.z0), "r1": latInt(tc.r1)}, nil, nil, tc.hint, one)
				}
			}
			// ExpandS: a 4-bit candidate is kept iff it is at most 14 (η = 2, then reduced mod 5) or at most 2η (η = 4)
			{
				eta := map[string]int64{"sign/dilithium/mode2": 2, "sign/dilithium/mode3": 4, "sign/dilithium/mode5": 2, "sign/mldsa/mldsa44": 2, "sign/mldsa/mldsa65": 4, "sign/mldsa/mldsa87": 2}[pk]
				bound := int64(14)
				if eta == 4 {
					bound = 8
				}
				fe := p.Func(pk+"/internal", "", "PolyDeriveUniformLeqEta")
				outerE := fe
				if fe != nil && len(fe.AnonFuncs) == 1 {
					fe = fe.AnonFuncs[0]
				}
				nib := func(v int64) []ValAssume {
					return []ValAssume{{Name: "candidate (4 bits)", Val: latInt(v), Match: func(x ssa.Value, in *ssa.Function) bool {
						b, ok := x.(*ssa.BinOp)
						if !ok || in != fe {
							return false
						}
						k, ok := b.Y.(*ssa.Const)
						if !ok || k.Value == nil {
							return false
						}
						return (b.Op == token.AND && k.Value.ExactString() == "15") || (b.Op == token.SHR && k.Value.ExactString() == "4")
					}}}
				}
				isCoeffE := func(st *ssa.Store) bool {
					ia, ok := st.Addr.(*ssa.IndexAddr)
					if !ok || outerE == nil || len(outerE.Params) == 0 {
						return false
					}
					base, _ := memRoot(ia.X)
					if fv, ok := base.(*ssa.FreeVar); ok {
						return fv.Name() == outerE.Params[0].Name()
					}
					return base == ssa.Value(outerE.Params[0])
				}
				c.storeReachUnder(p, "C04.sample", fmt.Sprintf("ExpandS (η=%d): a candidate equal to %d is rejected", eta, bound+1), fe, nib(bound+1), "store of a coefficient", isCoeffE, false)
				c.storeReachUnder(p, "C04.sample", fmt.Sprintf("ExpandS (η=%d): a candidate equal to %d is kept", eta, bound), fe, nib(bound), "store of a coefficient", isCoeffE, true)
			}
			// the four-way sampler: the eight candidates of a group are read back from a local array
			fx := p.Func(pk+"/internal", "", "PolyDeriveUniformX4")
			candX := func(v int64) []ValAssume {
				return []ValAssume{{Name: "candidate t[k]", Val: latInt(v), Match: func(x ssa.Value, in *ssa.Function) bool {
					ld, ok := x.(*ssa.UnOp)
					if !ok || in != fx || ld.Op != token.MUL {
						return false
					}
					ia, ok := ld.X.(*ssa.IndexAddr)
					if !ok {
						return false
					}
					a, ok := ia.X.(*ssa.Alloc)
					return ok && a.Type().String() == "*[8]uint32"
				}}}
			}
			isCoeffX := func(st *ssa.Store) bool {
				ia, ok := st.Addr.(*ssa.IndexAddr)
				if !ok || fx == nil || len(fx.Params) == 0 {
					return false
				}
				// ps[j][idx[j]]: an element of one of the four polynomials handed in
				return ia.X.Type().String() == fx.Params[0].Type().(*types.Array).Elem().String()
			}
			c.storeReachUnder(p, "C04.sample", "four-way sampler: a candidate equal to q is rejected", fx, candX(8380417), "store of a coefficient", isCoeffX, false)
			c.storeReachUnder(p, "C04.sample", "four-way sampler: a candidate equal to q-1 is kept", fx, candX(8380416), "store of a coefficient", isCoeffX, true)
		}
	}
}

func init() {
	prev := registry["C04"]
	registry["C04"] = func(c *Ctx) {
		prev(c)
		p := c.Prog("amd64")
		if p == nil {
			return
		}
		w := "invoke (io.Writer).Write"
		for _, n := range []string{"44", "65", "87"} {
			pkg := "sign/mldsa/mldsa" + n
			for _, fn := range []string{"Verify", "SignTo"} {
				f := p.Func(pkg, "", fn)
				if f == nil || len(f.AnonFuncs) != 1 {
					c.undecided("C04.domsep", pkg+"."+fn+": message framing closure", "closure not found", "")
					continue
				}
				want := []string{"[0]", "[(len(*captured:param#2))]", "captured:param#2", "captured:param#1"}
				if fn == "SignTo" {
					want = []string{"[0]", "[(len(*captured:param#2))]", "captured:param#2", "captured:param#1"}
				}
				c.transcriptRule(p, "C04.domsep", "pure ML-DSA message M' = 0 ‖ len(ctx) ‖ ctx ‖ M ("+fn+")", f.AnonFuncs[0], nil, w, 1,
					want)
			}
			// FIPS 204 5.2 / 5.3: a context of 255 bytes is the longest legal one and 256 the first illegal one, on
			// both sides (the length is encoded in one byte)
			c.mayAccept(p, "C04.strict", "a context of 255 bytes can be signed with", p.Func(pkg, "", "SignTo"), map[string]lat{"ctx": latSliceLen(255)})
			c.evalAcceptRule(p, "C04.strict", "a context of 256 bytes is refused by SignTo", p.Func(pkg, "", "SignTo"), map[string]lat{"ctx": latSliceLen(256)}, nil, false)
			c.mayAccept(p, "C04.strict", "a signature over a context of 255 bytes can verify", p.Func(pkg, "", "Verify"), map[string]lat{"ctx": latSliceLen(255)})
			// the pure-ML-DSA prefix is composed in SignTo and Verify only: every other entry point (crypto.Signer,
			// the sign.Scheme methods) reaches the internal functions through them; the raw Sign_internal /
			// Verify_internal wrappers have no caller outside the tests
			{
				static := map[string][]string{}
				for f := range p.AllFuncs {
					if f.Blocks == nil || !isCirclFunc(f) {
						continue
					}
					for _, b := range f.Blocks {
						for _, in := range b.Instrs {
							if ci, ok := in.(ssa.CallInstruction); ok {
								if cal := ci.Common().StaticCallee(); cal != nil {
									static[fname(cal)] = append(static[fname(cal)], fname(f))
								}
							}
						}
					}
				}
				ipn := pkg + "/internal"
				for callee, allowed := range map[string][]string{
					"(*" + pkg + ".PrivateKey).unsafeSignInternal": nil,
					pkg + ".unsafeVerifyInternal":                  nil,
					ipn + ".SignTo":                                {pkg + ".SignTo", "(*" + pkg + ".PrivateKey).unsafeSignInternal"},
					ipn + ".Verify":                                {pkg + ".Verify", pkg + ".unsafeVerifyInternal"},
				} {
					what := callee + " is called only from the functions that compose the message prefix"
					var bad []string
					for _, caller := range static[callee] {
						ok := false
						for _, a := range allowed {
							if a == caller || strings.HasPrefix(caller, a+"$") {
								ok = true
							}
						}
						if !ok {
							bad = append(bad, caller)
						}
					}
					sort.Strings(bad)
					if callee == ipn+".SignTo" && len(static[callee]) == 0 {
						c.undecided("C04.domsep", what, "no caller found", "")
					} else if len(bad) > 0 {
						c.bad("C04.domsep", what, "called from "+strings.Join(bad, ", ")+": that path signs / verifies M itself instead of 0 ‖ len(ctx) ‖ ctx ‖ M", "")
					} else {
						c.ok("C04.domsep", what, fmt.Sprintf("%d callers, all listed", len(static[callee])), "")
					}
				}
			}
			ip := pkg + "/internal"
			sw := "(*internal/sha3.State).Write"
			c.transcriptRule(p, "C04.domsep", "signing absorbs tr, then key ‖ rnd ‖ μ", p.Func(ip, "", "SignTo"), nil, sw, 1, []string{"param#0.tr", "param#0.key", "param#2", "local:[64]byte", "…"})
			c.transcriptRule(p, "C04.domsep", "verification absorbs tr, then μ ‖ w1", p.Func(ip, "", "Verify"), nil, sw, 1, []string{"param#0.tr", "local:[64]byte", "…"})
		}
	}
}

// c04ExpandA: FIPS 204 Alg. 32 samples A[r][s] from rho ‖ IntegerToBytes(s,1) ‖ IntegerToBytes(r,1), i.e. with
// the 16-bit little-endian nonce 256·r + s. In both arms of Mat.Derive (one polynomial at a time, four at a
// time) the nonce paired with the element &m[a][b] has a as its high and b as its low byte.
func c04ExpandA(c *Ctx, p *Program, ip string) {
	f := p.Func(ip, "Mat", "Derive")
	construct := "(*" + ip + ".Mat).Derive: the element m[r][s] is sampled with the nonce 256·r + s in both arms"
	if f == nil {
		c.undecided("C04.sample", construct, "anchor function does not resolve", "")
		return
	}
	strip := func(v ssa.Value) ssa.Value {
		for {
			switch x := v.(type) {
			case *ssa.Convert:
				v = x.X
			case *ssa.ChangeType:
				v = x.X
			default:
				return v
			}
		}
	}
	elem := func(v ssa.Value) (ssa.Value, ssa.Value, bool) {
		in, ok := v.(*ssa.IndexAddr)
		if !ok {
			return nil, nil, false
		}
		out, ok := in.X.(*ssa.IndexAddr)
		if !ok || out.X != ssa.Value(f.Params[0]) {
			return nil, nil, false
		}
		return strip(out.Index), strip(in.Index), true
	}
	nonce := func(v ssa.Value) (ssa.Value, ssa.Value, bool) {
		b, ok := strip(v).(*ssa.BinOp)
		if !ok || (b.Op != token.ADD && b.Op != token.OR) {
			return nil, nil, false
		}
		for _, pr := range [][2]ssa.Value{{b.X, b.Y}, {b.Y, b.X}} {
			sh, ok := strip(pr[0]).(*ssa.BinOp)
			if !ok {
				continue
			}
			k, isK := sh.Y.(*ssa.Const)
			if !isK || k.Value == nil {
				continue
			}
			if (sh.Op == token.SHL && k.Value.ExactString() == "8") || (sh.Op == token.MUL && k.Value.ExactString() == "256") {
				return strip(sh.X), strip(pr[1]), true
			}
		}
		return nil, nil, false
	}
	var bad []string
	n := 0
	check := func(a, b ssa.Value, nv ssa.Value, pos token.Pos) {
		n++
		hi, lo, ok := nonce(nv)
		switch {
		case !ok:
			bad = append(bad, fmt.Sprintf("%s: the nonce %s is not of the form 256·row + column", p.pos(pos), descVal(nv)))
		case hi != a || lo != b:
			bad = append(bad, fmt.Sprintf("%s: m[%s][%s] is sampled with the nonce 256·%s + %s", p.pos(pos), descVal(a), descVal(b), descVal(hi), descVal(lo)))
		}
	}
	for _, b := range f.Blocks {
		var lastA, lastB, lastN ssa.Value
		var posN token.Pos
		for _, in := range b.Instrs {
			switch x := in.(type) {
			case *ssa.Call:
				if normName(p.staticCalleeName(&x.Call)) == ip+".PolyDeriveUniform" && len(x.Call.Args) == 3 {
					if a, bb, ok := elem(x.Call.Args[0]); ok {
						check(a, bb, x.Call.Args[2], x.Pos())
					} else {
						bad = append(bad, p.pos(x.Pos())+": the destination is not an element of the matrix")
					}
				}
			case *ssa.Store:
				if a, bb, ok := elem(x.Val); ok {
					lastA, lastB = a, bb
				} else if ia, ok := x.Addr.(*ssa.IndexAddr); ok {
					if al, ok := ia.X.(*ssa.Alloc); ok && strings.Contains(al.Type().String(), "uint16") {
						lastN, posN = x.Val, x.Pos()
					}
				}
				if lastA != nil && lastN != nil {
					check(lastA, lastB, lastN, posN)
					lastA, lastB, lastN = nil, nil, nil
				}
			}
		}
	}
	switch {
	case n < 2:
		c.undecided("C04.sample", construct, fmt.Sprintf("only %d (element, nonce) pairs recognised (expected one per arm)", n), p.fnPos(f))
	case len(bad) > 0:
		c.bad("C04.sample", construct, strings.Join(bad, "; "), p.fnPos(f))
	default:
		c.ok("C04.sample", construct, fmt.Sprintf("%d (element, nonce) pairs", n), p.fnPos(f))
	}
}

// c04HintOffsets: sigEncode writes the hint section at fixed offsets (indices from 0, switch-over points at
// omega .. omega+k-1) of the slice it is handed, which SignTo passes open-ended: no position may be computed
// from the length of that slice (a longer caller buffer would move the section out of the signature).
func c04HintOffsets(c *Ctx, p *Program, ip string) {
	f := p.Func(ip, "VecK", "PackHint")
	construct := "(*" + ip + ".VecK).PackHint: the positions written do not depend on the length of the buffer handed in"
	if f == nil {
		c.undecided("C04.strict", construct, "anchor function does not resolve", "")
		return
	}
	bi := paramIdx(f, "buf")
	if bi < 0 {
		c.undecided("C04.strict", construct, "parameter buf does not exist", p.fnPos(f))
		return
	}
	d := p.Dep().analyse(f)
	lbl := "len:param:" + f.Params[bi].Name()
	n := 0
	var bad []string
	for _, b := range f.Blocks {
		for _, in := range b.Instrs {
			var idx []ssa.Value
			switch x := in.(type) {
			case *ssa.IndexAddr:
				if addrRoot(x.X) == ssa.Value(f.Params[bi]) {
					idx = append(idx, x.Index)
				}
			case *ssa.Slice:
				if addrRoot(x.X) == ssa.Value(f.Params[bi]) {
					if x.Low != nil {
						idx = append(idx, x.Low)
					}
					if x.High != nil {
						idx = append(idx, x.High)
					}
				}
			}
			for _, v := range idx {
				n++
				if d.hasLabel(d.fullDep(v), lbl) {
					bad = append(bad, fmt.Sprintf("%s: %s", p.pos(in.Pos()), descVal(v)))
				}
			}
		}
	}
	switch {
	case n == 0:
		c.undecided("C04.strict", construct, "no indexed access to the buffer found", p.fnPos(f))
	case len(bad) > 0:
		c.bad("C04.strict", construct, "position computed from len(buf): "+strings.Join(uniq(bad), "; "), p.fnPos(f))
	default:
		c.ok("C04.strict", construct, fmt.Sprintf("%d positions, none depends on len(buf)", n), p.fnPos(f))
	}
}
