package blindrsa_test

// Demonstration (C18): the RSASSA-PSS verifier of blindrsa did not check that the signature
// representative is below the modulus, so for a valid signature s the string s + N (when it still fits
// in the modulus length) was accepted as well; crypto/rsa.VerifyPSS rejects it.
//
// Copy to blindsign/blindrsa/ and run: go test -run TestDemoSigPlusN ./blindsign/blindrsa/

import (
	"crypto"
	"crypto/rand"
	"crypto/rsa"
	"crypto/sha512"
	"math/big"
	"testing"

	"github.com/cloudflare/circl/blindsign/blindrsa"
)

func TestDemoSigPlusN(t *testing.T) {
	key, err := rsa.GenerateKey(rand.Reader, 1024)
	if err != nil {
		t.Fatal(err)
	}
	v, err := blindrsa.NewVerifier(blindrsa.SHA384PSSDeterministic, &key.PublicKey)
	if err != nil {
		t.Fatal(err)
	}
	msg := []byte("message")
	digest := sha512.Sum384(msg)
	opts := &rsa.PSSOptions{SaltLength: 48, Hash: crypto.SHA384}
	for tries := 0; tries < 256; tries++ {
		sig, err := rsa.SignPSS(rand.Reader, key, crypto.SHA384, digest[:], opts)
		if err != nil {
			t.Fatal(err)
		}
		if err := v.Verify(msg, sig); err != nil {
			t.Fatalf("honest signature rejected: %v", err)
		}
		s := new(big.Int).SetBytes(sig)
		s.Add(s, key.N)
		if s.BitLen() > 8*len(sig) {
			continue
		}
		forged := s.FillBytes(make([]byte, len(sig)))
		if rsa.VerifyPSS(&key.PublicKey, crypto.SHA384, digest[:], forged, opts) == nil {
			t.Fatal("crypto/rsa accepted s+N?")
		}
		if v.Verify(msg, forged) == nil {
			t.Error("blindrsa accepted s + N, which crypto/rsa.VerifyPSS rejects")
		}
		return
	}
	t.Skip("no signature with s+N below 2^(8k) found")
}
