package expander_test

// RFC 9380, 5.3.2: expand_message_xof aborts if len_in_bytes > 65535. The length is absorbed as two
// bytes, so a longer request collides with the request for the length modulo 65536.
// Copy to expander/ and run: go test -run TestFindingXOFLongOutput ./expander/

import (
	"bytes"
	"testing"

	"github.com/cloudflare/circl/expander"
	"github.com/cloudflare/circl/xof"
)

func TestFindingXOFLongOutput(t *testing.T) {
	e := expander.NewExpanderXOF(xof.SHAKE128, 128, []byte("dst"))
	short := e.Expand([]byte("m"), 32)
	var long []byte
	func() {
		defer func() { _ = recover() }()
		long = e.Expand([]byte("m"), 65536+32)
	}()
	if long != nil && bytes.Equal(long[:32], short) {
		t.Errorf("Expand(m, 65568) was served (%d bytes) and starts with Expand(m, 32): the two requests are not separated", len(long))
	} else if long != nil {
		t.Errorf("Expand(m, 65568) was served although the specification aborts")
	}
}
