package main

import (
	"fmt"
	"go/types"
	"sort"
	"strings"

	"golang.org/x/tools/go/ssa"
)

// errorSites: calls inside f whose last result is an error.
func errorSites(p *Program, f *ssa.Function) []ssa.CallInstruction {
	errT := types.Universe.Lookup("error").Type()
	var out []ssa.CallInstruction
	for _, b := range f.Blocks {
		for _, in := range b.Instrs {
			ci, ok := in.(ssa.CallInstruction)
			if !ok || ci.Value() == nil {
				continue
			}
			res := ci.Common().Signature().Results()
			if res.Len() == 0 || !types.Identical(res.At(res.Len()-1).Type(), errT) {
				continue
			}
			out = append(out, ci)
		}
	}
	return out
}

// swallowedErrors: call sites of f such that, assuming the call fails (returns a non-nil error), an exit
// of f that reports success (nil error) is still reachable from the call.
func swallowedErrors(p *Program, f *ssa.Function) (bad []string, n int) {
	errT := types.Universe.Lookup("error").Type()
	res := f.Signature.Results()
	if res.Len() == 0 || !types.Identical(res.At(res.Len()-1).Type(), errT) {
		return nil, 0
	}
	succ := succNilErr(res.Len() - 1)
	for _, site := range errorSites(p, f) {
		s := site
		callee := p.staticCalleeName(s.Common())
		if _, ok := infallibleCallees[callee]; ok {
			continue
		}
		if callee == "errors.New" || callee == "fmt.Errorf" || strings.HasPrefix(callee, "errors.") {
			continue // constructors of error values, not operations that failed
		}
		if errorForwarded(s) {
			continue // handed to a combining helper (errFirst(a(), b()), errors.Join): examined there
		}
		n++
		nres := s.Common().Signature().Results().Len()
		a := Assume{Name: "site", Result: nres - 1, Val: latNonNil, Match: func(x ssa.CallInstruction, _ string, _ *ssa.Function) bool { return x == s }}
		if nres == 1 {
			a.Result = -1
		}
		q := &GuardQuery{P: p, Root: f, Assumes: []Assume{a}, ThroughSite: s, OnlyPathsThrough: true, MaxDepth: 1}
		r := runGuard(q)
		for _, ri := range r.Returns {
			if succ.may(ri.Vals) {
				bad = append(bad, fmt.Sprintf("%s at %s (success exit %s)", callee, p.pos(s.Pos()), p.pos(ri.Instr.Pos())))
				break
			}
		}
	}
	return
}

func surveyErrProp(p *Program) {
	tot := 0
	var all []string
	for f := range p.AllFuncs {
		if f.Blocks == nil || !isCirclFunc(f) || !sourceFunc(f) {
			continue
		}
		b, n := swallowedErrors(p, f)
		tot += n
		for _, x := range b {
			all = append(all, fname(f)+": "+x)
		}
	}
	sort.Strings(all)
	for _, x := range all {
		fmt.Println("ERRPROP", x)
	}
	fmt.Printf("ERRPROP sites=%d swallowed=%d\n", tot, len(all))
	_ = strings.TrimSpace
}

// errorForwarded: the error result of the call is passed on as an argument of another call, directly or
// as an element of a variadic argument slice.
func errorForwarded(site ssa.CallInstruction) bool {
	v := site.Value()
	if v == nil {
		return false
	}
	var errVal ssa.Value = v
	res := site.Common().Signature().Results()
	if res.Len() > 1 {
		errVal = nil
		for _, r := range *v.Referrers() {
			if ex, ok := r.(*ssa.Extract); ok && ex.Index == res.Len()-1 {
				errVal = ex
			}
		}
		if errVal == nil {
			return false
		}
	}
	for _, r := range *errVal.Referrers() {
		switch x := r.(type) {
		case ssa.CallInstruction:
			return true
		case *ssa.Store:
			if ia, ok := x.Addr.(*ssa.IndexAddr); ok && x.Val == errVal {
				if _, isAlloc := ia.X.(*ssa.Alloc); isAlloc {
					return true // element of a freshly built (variadic) slice
				}
			}
		}
	}
	return false
}

// errPropRule: in a function that itself returns an error, a failing call (a call that returns a non-nil
// error) never leads to an exit that reports success. Decided per call site by the "assume the call
// failed" query, restricted to control-flow paths through the site.
func (c *Ctx) errPropRule(p *Program, rule string, prefixes ...string) {
	for _, pre := range prefixes {
		var hits []string
		nf, ns := 0, 0
		for f := range p.AllFuncs {
			if f.Blocks == nil || !sourceFunc(f) || !isCirclFunc(f) {
				continue
			}
			rel := strings.TrimPrefix(funcPkgPath(f), circlPath+"/")
			if !(rel == strings.TrimSuffix(pre, "/") || strings.HasPrefix(rel, strings.TrimSuffix(pre, "/")+"/")) {
				continue
			}
			b, n := swallowedErrors(p, f)
			if n > 0 {
				nf++
				ns += n
			}
			for _, x := range b {
				hits = append(hits, fname(f)+": "+x)
			}
		}
		c.count("errprop_sites", ns)
		what := pre + ": a call that fails never leads to an exit that reports success"
		sort.Strings(hits)
		hits = uniq(hits)
		if len(hits) > 0 {
			c.bad(rule, what, "after a failing call a success exit is reachable: "+strings.Join(hits, "; "), "")
		} else {
			c.ok(rule, what, fmt.Sprintf("%d fallible call sites in %d error-returning functions, none can be followed by a nil-error return (errors handed to a combining helper count as examined there)", ns, nf), "")
		}
	}
}

func init() {
	for prop, pres := range errUsedScope {
		prop, pres := prop, pres
		prev := registry[prop]
		registry[prop] = func(c *Ctx) {
			prev(c)
			if p := c.Prog("amd64"); p != nil {
				c.Clauses = append(c.Clauses, prop+".errprop: in an error-returning function a failing call never leads to an exit that reports success (decided per call site, on the control-flow paths through it)")
				c.errPropRule(p, prop+".errprop", pres...)
			}
		}
	}
}
