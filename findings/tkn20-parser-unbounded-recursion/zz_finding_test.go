package tkn20_test

import (
	"os"
	"os/exec"
	"strings"
	"testing"

	cpabe "github.com/cloudflare/circl/abe/cpabe/tkn20"
)

// The policy parser recursed once per opening parenthesis and per "not" with no bound: a policy string of a
// few megabytes exhausts the goroutine stack, which kills the process (a stack overflow cannot be recovered).
// The test runs the parser in a child process and requires it to return an error instead.
func TestFindingParserUnboundedRecursion(t *testing.T) {
	if os.Getenv("TKN20_FINDING_CHILD") == "1" {
		for _, s := range []string{strings.Repeat("(", 1<<22), strings.Repeat("not ", 1<<23)} {
			p := cpabe.Policy{}
			if err := p.FromString(s); err == nil {
				os.Exit(3)
			}
		}
		os.Exit(0)
	}
	cmd := exec.Command(os.Args[0], "-test.run", "TestFindingParserUnboundedRecursion$")
	cmd.Env = append(os.Environ(), "TKN20_FINDING_CHILD=1")
	out, err := cmd.CombinedOutput()
	if err != nil {
		msg := string(out)
		if i := strings.Index(msg, "\n\n"); i > 0 {
			msg = msg[:i]
		}
		if len(msg) > 300 {
			msg = msg[:300]
		}
		t.Errorf("parsing a deeply nested policy string did not return an error: %v\n%s", err, msg)
	}
}
