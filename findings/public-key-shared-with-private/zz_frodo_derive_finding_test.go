package frodo640shake

import (
	"bytes"
	"testing"
)

// The public and the private key returned together by key generation are independent objects:
// re-decoding the public key object must not change the private key.
// Place in kem/frodo/frodo640shake; go test -run TestFindingDerivedPairShared ./kem/frodo/frodo640shake/ .
func TestFindingDerivedPairShared(t *testing.T) {
	var s1, s2 [KeySeedSize]byte
	s2[KeySeedSize-1], s2[SharedKeySize] = 1, 1
	pk, sk := newKeyFromSeed(s1[:])
	other, _ := newKeyFromSeed(s2[:])
	otherBytes, _ := other.MarshalBinary()

	before, _ := sk.MarshalBinary()
	pk.Unpack(otherBytes)
	after, _ := sk.MarshalBinary()
	if !bytes.Equal(before, after) {
		t.Errorf("re-decoding the public key returned by key generation changed the private key returned with it")
	}
}
