package main

// TABLE(concat / layout): rebuild the ordered list of segments of a byte string
// held by an SSA value (append chains, make + PutUintNN, slice literals), and
// the byte layout of a local array (stores at constant offsets, PutUintNN and
// copy into constant sub-slices). Segments are classified by provenance.

import (
	"fmt"
	"go/constant"
	"go/token"
	"go/types"
	"regexp"
	"sort"
	"strings"

	"golang.org/x/tools/go/ssa"
)

// descVal describes the provenance of any value (bytes or scalar) without lattice information.
var descDepth int
var descInLayout bool
var descPhiSeen = map[*ssa.Phi]bool{}

func descVal(v ssa.Value) string {
	descDepth++
	defer func() { descDepth-- }()
	if descDepth > 24 {
		return "…"
	}
	switch x := v.(type) {
	case nil:
		return ""
	case *ssa.Const:
		if x.Value == nil {
			return "nil"
		}
		if x.Value.Kind() == constant.String {
			return fmt.Sprintf("%q", constant.StringVal(x.Value))
		}
		return x.Value.ExactString()
	case *ssa.Parameter:
		return paramDesc(x)
	case *ssa.FreeVar:
		return freeVarDesc(x)
	case *ssa.Convert:
		// byte(x>>8) / byte(x): keep which byte
		if b, ok := x.Type().Underlying().(*types.Basic); ok && (b.Kind() == types.Uint8) {
			if bo, ok := x.X.(*ssa.BinOp); ok && bo.Op == token.SHR {
				if k, ok := bo.Y.(*ssa.Const); ok && k.Value != nil {
					if n, _ := constant.Int64Val(k.Value); n == 8 {
						return "hi8(" + descVal(bo.X) + ")"
					}
				}
			}
			if bt, ok := x.X.Type().Underlying().(*types.Basic); ok && bt.Info()&types.IsInteger != 0 && bt.Kind() != types.Uint8 {
				return "lo8(" + descVal(x.X) + ")"
			}
		}
		return descVal(x.X)
	case *ssa.ChangeType:
		return descVal(x.X)
	case *ssa.MakeInterface:
		return descVal(x.X)
	case *ssa.UnOp:
		if x.Op == token.MUL {
			return descAddr(x.X)
		}
		return x.Op.String() + descVal(x.X)
	case *ssa.Field:
		if st, ok := x.X.Type().Underlying().(*types.Struct); ok {
			return descVal(x.X) + "." + st.Field(x.Field).Name()
		}
	case *ssa.FieldAddr, *ssa.IndexAddr, *ssa.Alloc, *ssa.Global:
		return "&" + descAddr(v)
	case *ssa.Slice:
		base := descVal(x.X)
		if strings.HasPrefix(base, "&") {
			base = base[1:]
		}
		if x.Low == nil && x.High == nil {
			return base
		}
		return fmt.Sprintf("%s[%s:%s]", base, descVal(x.Low), descVal(x.High))
	case *ssa.Call:
		name := short(calleeString(x))
		if b, ok := x.Call.Value.(*ssa.Builtin); ok {
			switch b.Name() {
			case "append":
				return "concat(" + strings.Join(concatOf(x), " ‖ ") + ")"
			case "len", "cap":
				return b.Name() + "(" + descVal(x.Call.Args[0]) + ")"
			}
		}
		// add constant arguments (labels, sizes) and, for interface calls, the receiver, to tell sibling calls apart
		var lab []string
		for _, a := range x.Call.Args {
			if k, ok := a.(*ssa.Const); ok && k.Value != nil {
				lab = append(lab, descVal(a))
			} else if cv, ok := a.(*ssa.Convert); ok {
				if k, ok := cv.X.(*ssa.Const); ok && k.Value != nil {
					lab = append(lab, descVal(k))
				}
			}
		}
		if x.Call.IsInvoke() {
			lab = append([]string{"recv=" + descVal(x.Call.Value)}, lab...)
		}
		if len(lab) > 0 {
			return "call:" + name + "(" + strings.Join(lab, ",") + ")"
		}
		return "call:" + name
	case *ssa.Extract:
		return descVal(x.Tuple) + "#" + fmt.Sprint(x.Index)
	case *ssa.BinOp:
		return "(" + descVal(x.X) + x.Op.String() + descVal(x.Y) + ")"
	case *ssa.Phi:
		if descPhiSeen[x] {
			return "↺"
		}
		descPhiSeen[x] = true
		var parts []string
		for _, e := range x.Edges {
			parts = append(parts, descVal(e))
		}
		delete(descPhiSeen, x)
		sort.Strings(parts)
		return "phi(" + strings.Join(uniq(parts), "|") + ")"
	case *ssa.MakeSlice:
		return "make(" + descVal(x.Len) + ")"
	case *ssa.TypeAssert:
		return descVal(x.X)
	}
	return "?"
}

// paramDesc renders a parameter by position ("param#2"), so that renaming it changes nothing.
func paramDesc(x *ssa.Parameter) string {
	if f := x.Parent(); f != nil {
		for i, p := range f.Params {
			if p == x {
				return fmt.Sprintf("param#%d", i)
			}
		}
	}
	return "param:" + x.Name()
}

// freeVarDesc renders a captured variable by what the enclosing function bound to it.
func freeVarDesc(x *ssa.FreeVar) string {
	f := x.Parent()
	if f == nil {
		return "freevar:" + x.Name()
	}
	idx := -1
	for i, v := range f.FreeVars {
		if v == x {
			idx = i
		}
	}
	if par := f.Parent(); par != nil && idx >= 0 {
		for _, b := range par.Blocks {
			for _, in := range b.Instrs {
				if mc, ok := in.(*ssa.MakeClosure); ok && mc.Fn == ssa.Value(f) && idx < len(mc.Bindings) {
					return "captured:" + descAddr(mc.Bindings[idx])
				}
			}
		}
	}
	return fmt.Sprintf("freevar#%d", idx)
}

// descVal0 is descVal without following phis (prevents infinite recursion on loops).
func descVal0(v ssa.Value) string {
	if _, ok := v.(*ssa.Phi); ok {
		return "phi"
	}
	return descVal(v)
}

func uniq(s []string) []string {
	var out []string
	for i, x := range s {
		if i == 0 || x != s[i-1] {
			out = append(out, x)
		}
	}
	return out
}

func descAddr(v ssa.Value) string {
	switch x := v.(type) {
	case *ssa.FieldAddr:
		base := descAddr(x.X)
		return base + "." + fieldName(x)
	case *ssa.IndexAddr:
		return descAddr(x.X) + "[" + descVal(x.Index) + "]"
	case *ssa.Alloc:
		if elems, ok := arrayLitElems(x); ok && len(elems) > 0 && len(elems) <= 64 {
			allSet := true
			var parts []string
			for _, e := range elems {
				if e == nil {
					allSet = false
					break
				}
				parts = append(parts, descVal(e))
			}
			if allSet {
				return "[" + strings.Join(parts, " ") + "]"
			}
		}
		// a local assigned exactly once is described by the value assigned
		var only ssa.Value
		n := 0
		for _, r := range *x.Referrers() {
			if st, ok := r.(*ssa.Store); ok && st.Addr == x {
				only = st.Val
				n++
			}
		}
		if n == 1 {
			if _, isPhi := only.(*ssa.Phi); !isPhi {
				return descVal(only)
			}
		}
		// a byte buffer filled at constant offsets (copy / PutUint / stores) is described by its layout
		if pt, ok := x.Type().Underlying().(*types.Pointer); ok {
			if at, ok := pt.Elem().Underlying().(*types.Array); ok && at.Len() > 0 && at.Len() <= 128 && !descInLayout {
				if b, ok := at.Elem().Underlying().(*types.Basic); ok && b.Kind() == types.Uint8 {
					descInLayout = true
					lay := layoutOf(x, at.Len())
					descInLayout = false
					interesting := false
					for _, l := range lay {
						if !strings.HasPrefix(l, "\"") || strings.Trim(l, "\"\\x0") != "" {
							interesting = true
						}
					}
					if lay != nil && interesting {
						return "[" + strings.Join(lay, " ") + "]"
					}
				}
			}
			// name-free description: renaming a local changes nothing
			return "local:" + short(types.TypeString(pt.Elem(), nil))
		}
		return "local"
	case *ssa.Global:
		return "global:" + x.Name()
	case *ssa.Parameter:
		return paramDesc(x)
	case *ssa.FreeVar:
		return freeVarDesc(x)
	case *ssa.UnOp:
		if x.Op == token.MUL {
			return descAddr(x.X)
		}
	case *ssa.Phi:
		return descVal(x)
	case *ssa.Call, *ssa.Extract, *ssa.Slice, *ssa.Convert, *ssa.ChangeType:
		return descVal(v)
	}
	return "?"
}

// concatOf rebuilds the segments of a byte string built with append / make+PutUint / literals.
func concatOf(v ssa.Value) []string {
	switch x := v.(type) {
	case *ssa.Call:
		if b, ok := x.Call.Value.(*ssa.Builtin); ok && b.Name() == "append" && len(x.Call.Args) == 2 {
			head := concatOf(x.Call.Args[0])
			tail := x.Call.Args[1]
			if c, ok := tail.(*ssa.Const); ok && c.Value == nil {
				return head
			}
			// appending another concat flattens
			if tc, ok := tail.(*ssa.Call); ok {
				if tb, ok := tc.Call.Value.(*ssa.Builtin); ok && tb.Name() == "append" {
					return append(head, concatOf(tail)...)
				}
			}
			return append(head, descVal(tail))
		}
	case *ssa.MakeSlice:
		if k, ok := x.Len.(*ssa.Const); ok && k.Value != nil {
			n, _ := constant.Int64Val(k.Value)
			if n == 0 {
				return nil
			}
			lay := layoutOf(x, n)
			if lay != nil {
				return lay
			}
			return []string{fmt.Sprintf("make(%d)", n)}
		}
	case *ssa.Const:
		if x.Value == nil {
			return nil
		}
	case *ssa.Slice:
		if x.Low == nil && x.High == nil {
			if a, ok := x.X.(*ssa.Alloc); ok {
				if pt, ok := a.Type().Underlying().(*types.Pointer); ok {
					if at, ok := pt.Elem().Underlying().(*types.Array); ok {
						if at.Len() == 0 {
							return nil
						}
						if lay := layoutOf(a, at.Len()); lay != nil {
							return lay
						}
					}
				}
			}
		}
	}
	return []string{descVal(v)}
}

// layoutOf describes the bytes of a buffer of n bytes (local array alloc or make([]byte,n))
// from stores at constant offsets, binary.*.PutUintNN and copy into constant sub-slices.
// Returns nil when some byte is never written or written ambiguously.
func layoutOf(buf ssa.Value, n int64) []string {
	if n <= 0 || n > 256 {
		return nil
	}
	cells := make([]string, n)
	mark := func(off int64, width int64, d string) bool {
		if off < 0 || off+width > n {
			return false
		}
		for i := int64(0); i < width; i++ {
			if cells[off+i] != "" {
				return false
			}
			if width == 1 {
				cells[off+i] = d
			} else {
				cells[off+i] = fmt.Sprintf("%s@%d/%d", d, i, width)
			}
		}
		return true
	}
	constInt := func(v ssa.Value, def int64) (int64, bool) {
		if v == nil {
			return def, true
		}
		k, ok := v.(*ssa.Const)
		if !ok || k.Value == nil {
			return 0, false
		}
		i, ok := constant.Int64Val(k.Value)
		return i, ok
	}
	refs := buf.Referrers()
	if refs == nil {
		return nil
	}
	okAll := true
	var visit func(r ssa.Instruction, base int64)
	visit = func(r ssa.Instruction, base int64) {
		switch x := r.(type) {
		case *ssa.IndexAddr:
			i, ok := constInt(x.Index, 0)
			if !ok {
				okAll = false
				return
			}
			for _, rr := range *x.Referrers() {
				if st, ok := rr.(*ssa.Store); ok && st.Addr == x {
					if !mark(base+i, 1, descVal(st.Val)) {
						okAll = false
					}
				}
			}
		case *ssa.Slice:
			lo, ok1 := constInt(x.Low, 0)
			_, ok2 := constInt(x.High, n)
			if !ok1 || !ok2 {
				// a full, dynamic or return slice: uses of the whole buffer are fine
				if x.Low == nil {
					for _, rr := range *x.Referrers() {
						if _, isSl := rr.(*ssa.Slice); isSl {
							continue
						}
						visit(rr, base)
					}
				}
				return
			}
			for _, rr := range *x.Referrers() {
				switch y := rr.(type) {
				case *ssa.Call:
					name := short(calleeString(y))
					switch {
					case strings.HasSuffix(name, ".PutUint16") && len(y.Call.Args) >= 2 && addrRoot(y.Call.Args[len(y.Call.Args)-2]) == addrRoot(x):
						pre := "be16"
						if strings.Contains(name, "littleEndian") {
							pre = "le16"
						}
						if !mark(base+lo, 2, pre+"("+descVal(y.Call.Args[len(y.Call.Args)-1])+")") {
							okAll = false
						}
					case strings.HasSuffix(name, ".PutUint32") && len(y.Call.Args) >= 2:
						pre := "be32"
						if strings.Contains(name, "littleEndian") {
							pre = "le32"
						}
						if !mark(base+lo, 4, pre+"("+descVal(y.Call.Args[len(y.Call.Args)-1])+")") {
							okAll = false
						}
					case strings.HasSuffix(name, ".PutUint64") && len(y.Call.Args) >= 2:
						pre := "be64"
						if strings.Contains(name, "littleEndian") {
							pre = "le64"
						}
						if !mark(base+lo, 8, pre+"("+descVal(y.Call.Args[len(y.Call.Args)-1])+")") {
							okAll = false
						}
					case name == "builtin.copy" && y.Call.Args[0] == ssa.Value(x):
						src := y.Call.Args[1]
						d := descVal(src)
						if strings.HasPrefix(d, "\"") {
							s := d[1 : len(d)-1]
							for i := 0; i < len(s); i++ {
								if !mark(base+lo+int64(i), 1, fmt.Sprint(int(s[i]))) {
									okAll = false
								}
							}
						} else {
							hi, _ := constInt(x.High, n)
							if !mark(base+lo, hi-lo, "copy("+d+")") {
								okAll = false
							}
						}
					}
				case *ssa.IndexAddr, *ssa.Slice:
					visit(rr, base+lo)
				}
			}
		}
	}
	for _, r := range *refs {
		visit(r, 0)
	}
	if !okAll {
		return nil
	}
	for i, c := range cells {
		if c == "" {
			cells[i] = "0" // a fresh array / make()d buffer is zero-initialised
		}
	}
	return canonCells(cells)
}

// canonCells merges constant bytes into strings and hi8/lo8 pairs or multi-byte fields into one segment.
func canonCells(cells []string) []string {
	var out []string
	var run []byte
	flush := func() {
		if len(run) > 0 {
			out = append(out, fmt.Sprintf("%q", string(run)))
			run = nil
		}
	}
	for i := 0; i < len(cells); i++ {
		c := cells[i]
		var b int
		if _, err := fmt.Sscanf(c, "%d", &b); err == nil && fmt.Sprint(b) == c && b >= 0 && b < 256 {
			run = append(run, byte(b))
			continue
		}
		flush()
		if j := strings.Index(c, "@0/"); j >= 0 {
			var w int
			fmt.Sscanf(c[j+3:], "%d", &w)
			out = append(out, c[:j])
			i += w - 1
			continue
		}
		if strings.HasPrefix(c, "hi8(") && i+1 < len(cells) && cells[i+1] == "lo8("+c[4:] {
			out = append(out, "be16("+c[4:])
			i++
			continue
		}
		out = append(out, c)
	}
	flush()
	return out
}

// layoutRule compares the byte layout of a function's array-typed named result / local.
func (c *Ctx) layoutRule(p *Program, rule, what string, f *ssa.Function, want []string) {
	if f == nil {
		c.undecided(rule, what, "anchor function does not resolve", "")
		return
	}
	construct := fname(f) + ": " + what
	// the returned array: find the Alloc whose load is returned
	var got []string
	found := false
	for _, b := range f.Blocks {
		for _, in := range b.Instrs {
			r, ok := in.(*ssa.Return)
			if !ok || len(r.Results) != 1 {
				continue
			}
			u, ok := r.Results[0].(*ssa.UnOp)
			if !ok {
				continue
			}
			a, ok := u.X.(*ssa.Alloc)
			if !ok {
				continue
			}
			at, ok := a.Type().Underlying().(*types.Pointer).Elem().Underlying().(*types.Array)
			if !ok {
				continue
			}
			got = layoutOf(a, at.Len())
			found = true
		}
	}
	if !found || got == nil {
		c.undecided(rule, construct, "byte layout of the returned array could not be reconstructed", p.fnPos(f))
		return
	}
	g, w := strings.Join(got, " ‖ "), strings.Join(want, " ‖ ")
	if g == w {
		c.ok(rule, construct, "layout = "+w, p.fnPos(f))
	} else {
		c.bad(rule, construct, fmt.Sprintf("layout is %s; specification: %s", g, w), p.fnPos(f))
	}
}

// callArgRule: every call in f to callee (optionally only those with a constant argument equal to
// selector, e.g. a label) has arguments whose provenance descriptions match the given patterns.
func (c *Ctx) callArgRule(p *Program, rule, what string, f *ssa.Function, callee, selector string, wants map[int]string) {
	if f == nil {
		c.undecided(rule, what, "anchor function does not resolve", "")
		return
	}
	construct := fname(f) + ": " + what
	n := 0
	var problems []string
	for _, cs := range p.callSites(f, callee) {
		c0 := cs.Common()
		var args []ssa.Value
		if c0.IsInvoke() {
			args = append(args, c0.Value)
		}
		args = append(args, c0.Args...)
		if selector != "" {
			hit := false
			for _, a := range args {
				if descVal(a) == selector {
					hit = true
				}
			}
			if !hit {
				continue
			}
		}
		n++
		var idx []int
		for i := range wants {
			idx = append(idx, i)
		}
		sort.Ints(idx)
		for _, i := range idx {
			if i >= len(args) {
				problems = append(problems, fmt.Sprintf("%s: no argument %d", p.pos(cs.Pos()), i))
				continue
			}
			d := descVal(args[i])
			re, err := regexp.Compile("^(?:" + wants[i] + ")$")
			if err != nil {
				problems = append(problems, "bad pattern "+wants[i])
				continue
			}
			if !re.MatchString(d) {
				problems = append(problems, fmt.Sprintf("%s: argument %d is %s, specification requires %s", p.pos(cs.Pos()), i, d, wants[i]))
			}
		}
	}
	c.count("table_call_sites", n)
	if n == 0 {
		sel := ""
		if selector != "" {
			sel = " with " + selector
		}
		c.bad(rule, construct, "no call to "+callee+sel+" found", p.fnPos(f))
		return
	}
	if len(problems) > 0 {
		c.bad(rule, construct, strings.Join(problems, "; "), p.fnPos(f))
		return
	}
	c.ok(rule, construct, fmt.Sprintf("%d call site(s) of %s match the specification table", n, callee), p.fnPos(f))
}

// returnRule: some non-nil return of result idx matches the pattern, and all non-nil returns of that result do.
func (c *Ctx) returnRule(p *Program, rule, what string, f *ssa.Function, idx int, want string) {
	if f == nil {
		c.undecided(rule, what, "anchor function does not resolve", "")
		return
	}
	construct := fname(f) + ": " + what
	re, err := regexp.Compile("^(?:" + want + ")$")
	if err != nil {
		c.undecided(rule, construct, "bad pattern", "")
		return
	}
	n := 0
	var problems []string
	for _, b := range f.Blocks {
		for _, in := range b.Instrs {
			r, ok := in.(*ssa.Return)
			if !ok || idx >= len(r.Results) {
				continue
			}
			d := descVal(r.Results[idx])
			if d == "nil" {
				continue
			}
			n++
			if !re.MatchString(d) {
				problems = append(problems, fmt.Sprintf("%s: returns %s, specification requires %s", p.pos(r.Pos()), d, want))
			}
		}
	}
	if n == 0 {
		c.bad(rule, construct, "no non-nil return found", p.fnPos(f))
		return
	}
	if len(problems) > 0 {
		c.bad(rule, construct, strings.Join(problems, "; "), p.fnPos(f))
		return
	}
	c.ok(rule, construct, fmt.Sprintf("%d return(s) match %s", n, want), p.fnPos(f))
}

// seqRule: the ordered sequence (reverse postorder of the CFG) of calls in f to the listed callees,
// each rendered as "<method>(<provenance of arg0>, <arg1>, ...)", matches the specification's
// sequence of patterns. builtin.copy is included only when its destination is a parameter.
func (c *Ctx) seqRule(p *Program, rule, what string, f *ssa.Function, callees []string, want []string) {
	if f == nil {
		c.undecided(rule, what, "anchor function does not resolve", "")
		return
	}
	construct := fname(f) + ": " + what
	set := map[string]bool{}
	for _, n := range callees {
		set[normName(n)] = true
	}
	var got []string
	for _, b := range rpoOrder(f) {
		for _, in := range b.Instrs {
			ci, ok := in.(ssa.CallInstruction)
			if !ok {
				continue
			}
			name := p.staticCalleeName(ci.Common())
			if !set[normName(name)] {
				continue
			}
			c0 := ci.Common()
			var args []ssa.Value
			if c0.IsInvoke() {
				args = append(args, c0.Value)
			}
			args = append(args, c0.Args...)
			var ds []string
			for _, a := range args {
				ds = append(ds, descVal(a))
			}
			if name == "builtin.copy" && !strings.HasPrefix(ds[0], "param#") {
				continue
			}
			sh := name
			if i := strings.LastIndex(sh, "."); i >= 0 {
				sh = sh[i+1:]
			}
			got = append(got, sh+"("+strings.Join(ds, ", ")+")")
		}
	}
	var problems []string
	if len(got) != len(want) {
		problems = append(problems, fmt.Sprintf("%d operations, specification has %d", len(got), len(want)))
	}
	for i := 0; i < len(got) && i < len(want); i++ {
		re, err := regexp.Compile("^(?:" + want[i] + ")$")
		if err != nil {
			problems = append(problems, "bad pattern "+want[i])
			continue
		}
		if !re.MatchString(got[i]) {
			problems = append(problems, fmt.Sprintf("step %d is %s, specification requires %s", i+1, got[i], want[i]))
		}
	}
	if len(problems) > 0 {
		c.bad(rule, construct, strings.Join(problems, "; ")+" [sequence: "+strings.Join(got, " ; ")+"]", p.fnPos(f))
		return
	}
	c.ok(rule, construct, fmt.Sprintf("%d operations match the specification's sequence", len(got)), p.fnPos(f))
}
