package main

import (
	"fmt"
	"go/token"
	"go/types"
	"regexp"
	"sort"
	"strings"

	"golang.org/x/tools/go/ssa"
)

// DECODE-FRESH: decoding into a used object gives what decoding into a fresh one gives, and a constructor
// does not consume a component of its result before it has produced it.
//
// A forward must-analysis over the fields of one object (a pointer parameter, or an object the function
// allocates) computes, at every instruction, the fields that have certainly been assigned. Writes made by
// callees count (the mod-set of the callee for fields handed on by address; a recursive summary when the
// object itself is handed on), as do in-place writes through the field and, for a store inside a loop, the
// loop as a whole (a loop over a fixed-size array always runs).
//
//	overwrite     for every decoder method (pointer receiver to a struct, byte-slice / string parameter,
//	              name in the decoding class): the receiver fields the method assigns anywhere are assigned
//	              on every path to every accepting exit (confirmed path-sensitively: with the assigning
//	              blocks removed an accepting exit must be unreachable).
//	readfirst     a decoder never reads (itself or in a callee) a receiver field that it assigns, before it
//	              has assigned it: the old contents of the object would decide a test or enter the result.
//	              Likewise a function that allocates, fills and returns an object does not read a field of
//	              it that it fills only later (the value read is the zero value).

var freshDecoderName = regexp.MustCompile(`^(?i:unpack|unmarshal|import$|setbytes$|frombytes$|decode)`)

// recvField: the field of the object `recv` an address / value is rooted at ("" if none, "*" for the whole
// object).
func recvField(recv ssa.Value, v ssa.Value) string {
	for i := 0; i < 64; i++ {
		switch x := v.(type) {
		case *ssa.FieldAddr:
			if x.X == recv {
				return fieldName(x)
			}
			v = x.X
		case *ssa.IndexAddr:
			v = x.X
		case *ssa.Slice:
			v = x.X
		case *ssa.Convert:
			v = x.X
		case *ssa.ChangeType:
			v = x.X
		case *ssa.SliceToArrayPointer:
			v = x.X
		case *ssa.UnOp:
			if x.Op != token.MUL {
				return ""
			}
			// a load of a slice / pointer field: memory reached through it belongs to the field
			if !pointerLike(x.Type()) && !sliceLike(x.Type()) {
				return ""
			}
			v = x.X
		default:
			if v == recv {
				return "*"
			}
			return ""
		}
	}
	return ""
}

type earlyRead struct {
	field string
	pos   token.Pos
	via   string
	block int
}

type fieldAssign struct {
	may   map[string]bool   // fields assigned somewhere
	must  map[string]bool   // fields assigned on every path to every return
	at    []map[string]bool // must-assigned at the exit of each block
	in    []map[string]bool // assigned in the block (or in a loop it heads)
	reads []earlyRead       // reads of a field at a point where it is not certainly assigned
}

type decodeKey struct {
	f   *ssa.Function
	idx int
}

type decodeEngine struct {
	p    *Program
	memo map[decodeKey]*fieldAssign
	busy map[decodeKey]bool
	cut  int // number of callee summaries cut short so far
}

func newDecodeEngine(p *Program) *decodeEngine {
	return &decodeEngine{p: p, memo: map[decodeKey]*fieldAssign{}, busy: map[decodeKey]bool{}}
}

func structFieldNames(t types.Type) []string {
	if pt, ok := t.Underlying().(*types.Pointer); ok {
		t = pt.Elem()
	}
	st, ok := t.Underlying().(*types.Struct)
	if !ok {
		return nil
	}
	var out []string
	for i := 0; i < st.NumFields(); i++ {
		out = append(out, st.Field(i).Name())
	}
	return out
}

// loopHeadersOf: for every block, the headers of the natural loops that contain it.
func loopHeadersOf(f *ssa.Function) map[int][]int {
	out := map[int][]int{}
	for _, b := range f.Blocks {
		for _, s := range b.Succs {
			if !s.Dominates(b) {
				continue
			}
			// back edge b -> s: body = blocks that reach b without passing s
			body := map[int]bool{s.Index: true}
			var stack []*ssa.BasicBlock
			if !body[b.Index] {
				body[b.Index] = true
				stack = append(stack, b)
			}
			for len(stack) > 0 {
				x := stack[len(stack)-1]
				stack = stack[:len(stack)-1]
				for _, pr := range x.Preds {
					if !body[pr.Index] {
						body[pr.Index] = true
						stack = append(stack, pr)
					}
				}
			}
			for i := range body {
				if i != s.Index {
					out[i] = append(out[i], s.Index)
				}
			}
		}
	}
	return out
}

type fieldEvent struct {
	write bool
	field string
	pos   token.Pos
	via   string
}

// analyseParam: the fields of parameter idx that f assigns / reads first.
func (e *decodeEngine) analyseParam(f *ssa.Function, idx int, depth int) *fieldAssign {
	if f == nil || f.Blocks == nil || idx >= len(f.Params) {
		return nil
	}
	k := decodeKey{f, idx}
	if r, ok := e.memo[k]; ok {
		return r
	}
	if e.busy[k] || depth < 0 {
		e.cut++
		return nil
	}
	e.busy[k] = true
	defer delete(e.busy, k)
	before := e.cut
	r := e.analyseRoot(f, f.Params[idx], depth)
	if e.cut == before {
		// complete: no callee summary was cut short by the depth bound or by recursion
		e.memo[k] = r
	}
	return r
}

// analyseRoot: forward analysis of the fields of the object root points to.
func (e *decodeEngine) analyseRoot(f *ssa.Function, root ssa.Value, depth int) *fieldAssign {
	all := structFieldNames(root.Type())
	isStruct := len(all) > 0
	res := &fieldAssign{may: map[string]bool{}, must: map[string]bool{}}
	hdrs := loopHeadersOf(f)
	events := make([][]fieldEvent, len(f.Blocks))
	expand := func(name string) []string {
		if name == "*" && isStruct {
			return all
		}
		return []string{name}
	}
	for _, b := range f.Blocks {
		add := func(ev fieldEvent) {
			for _, n := range expand(ev.field) {
				x := ev
				x.field = n
				events[b.Index] = append(events[b.Index], x)
			}
		}
		for _, in := range b.Instrs {
			switch x := in.(type) {
			case *ssa.Store:
				if n := recvField(root, x.Addr); n != "" {
					add(fieldEvent{true, n, x.Pos(), "store"})
				}
			case *ssa.MapUpdate:
				if n := recvField(root, x.Map); n != "" {
					add(fieldEvent{true, n, x.Pos(), "map update"})
				}
			case *ssa.UnOp:
				if x.Op != token.MUL || pointerLike(x.Type()) || sliceLike(x.Type()) {
					continue
				}
				if len(*x.Referrers()) == 0 {
					continue
				}
				if n := recvField(root, x.X); n != "" {
					add(fieldEvent{false, n, x.Pos(), "load"})
				}
			case ssa.CallInstruction:
				c0 := x.Common()
				var args []ssa.Value
				if c0.IsInvoke() {
					args = append(args, c0.Value)
				}
				args = append(args, c0.Args...)
				name := e.p.staticCalleeName(c0)
				if bi, isB := c0.Value.(*ssa.Builtin); isB && (bi.Name() == "len" || bi.Name() == "cap") {
					continue
				}
				written := map[int]bool{}
				for _, i := range externalWrites(name, len(args)) {
					written[i] = true
				}
				cal := c0.StaticCallee()
				hasBody := cal != nil && cal.Blocks != nil
				if hasBody {
					for _, w := range e.p.Mod().of(cal) {
						var i int
						if _, err := fmt.Sscanf(w.Root, "param#%d", &i); err == nil {
							written[i] = true
						}
					}
				}
				// reads first (a callee that reads and writes the same field reads the old value unless its
				// own summary says it writes first), then writes
				var wr []fieldEvent
				for i, a := range args {
					n := recvField(root, a)
					if n == "" {
						continue
					}
					var sub *fieldAssign
					if hasBody {
						sub = e.analyseParam(cal, i, depth-1)
					}
					short := name
					if j := strings.LastIndex(short, "/"); j >= 0 {
						short = short[j+1:]
					}
					switch {
					case written[i]:
						// a callee that also writes what it is handed (a conditional move onto itself, a
						// resize that compares before it reallocates) is not counted as a reader: whether the
						// old value matters there is a question about values
					case hasBody && sub != nil:
						if n == "*" && isStruct {
							for _, rd := range sub.reads {
								add(fieldEvent{false, rd.field, x.Pos(), "read in " + short})
							}
						} else if len(sub.reads) > 0 {
							add(fieldEvent{false, n, x.Pos(), "read in " + short})
						}
					case hasBody:
						// recursion or depth limit: unknown, assume nothing is read
					case !written[i]:
						add(fieldEvent{false, n, x.Pos(), "read by " + short})
					}
					if written[i] {
						if n == "*" && isStruct {
							if sub != nil {
								for k := range sub.may {
									res.may[k] = true
								}
								for k := range sub.must {
									wr = append(wr, fieldEvent{true, k, x.Pos(), "written in " + short})
								}
							}
						} else {
							wr = append(wr, fieldEvent{true, n, x.Pos(), "written in " + short})
						}
					}
				}
				for _, w := range wr {
					add(w)
				}
			}
		}
	}
	assignsIn := make([]map[string]bool, len(f.Blocks))
	for bi, evs := range events {
		for _, ev := range evs {
			if !ev.write {
				continue
			}
			res.may[ev.field] = true
			for _, t := range append([]int{bi}, hdrs[bi]...) {
				if assignsIn[t] == nil {
					assignsIn[t] = map[string]bool{}
				}
				assignsIn[t][ev.field] = true
			}
		}
	}
	// forward must-analysis
	full := map[string]bool{}
	for k := range res.may {
		full[k] = true
	}
	out := make([]map[string]bool, len(f.Blocks))
	inb := make([]map[string]bool, len(f.Blocks))
	for i := range out {
		out[i] = full
	}
	for changed := true; changed; {
		changed = false
		for _, b := range f.Blocks {
			in := map[string]bool{}
			if len(b.Preds) > 0 {
				for k := range full {
					ok := true
					for _, pr := range b.Preds {
						if !out[pr.Index][k] {
							ok = false
						}
					}
					if ok {
						in[k] = true
					}
				}
			}
			inb[b.Index] = in
			o := map[string]bool{}
			for k := range in {
				o[k] = true
			}
			for k := range assignsIn[b.Index] {
				o[k] = true
			}
			if len(o) != len(out[b.Index]) {
				out[b.Index] = o
				changed = true
			}
		}
	}
	res.at = out
	res.in = assignsIn
	// reads at a point where the field is not certainly assigned
	seen := map[string]bool{}
	for _, b := range f.Blocks {
		cur := map[string]bool{}
		for k := range inb[b.Index] {
			cur[k] = true
		}
		for _, ev := range events[b.Index] {
			if ev.write {
				cur[ev.field] = true
				continue
			}
			if cur[ev.field] {
				continue
			}
			// inside a loop that assigns the field: an accumulator, or a buffer filled piecewise
			acc := false
			for _, h := range hdrs[b.Index] {
				if assignsIn[h][ev.field] {
					acc = true
				}
			}
			if acc {
				continue
			}
			key := ev.field + "@" + fmt.Sprint(ev.pos)
			if !seen[key] {
				seen[key] = true
				res.reads = append(res.reads, earlyRead{ev.field, ev.pos, ev.via, b.Index})
			}
		}
	}
	first := true
	for _, b := range f.Blocks {
		if len(b.Instrs) == 0 {
			continue
		}
		if _, ok := b.Instrs[len(b.Instrs)-1].(*ssa.Return); !ok {
			continue
		}
		if first {
			for k := range out[b.Index] {
				res.must[k] = true
			}
			first = false
			continue
		}
		for k := range res.must {
			if !out[b.Index][k] {
				delete(res.must, k)
			}
		}
	}
	return res
}

// decodeFreshExceptions / readFirstExceptions: one named construct each, with the reason.
var decodeFreshExceptions = map[string]string{}

var readFirstExceptions = map[string]string{}

func freshDecoders(p *Program) []*ssa.Function {
	var fs []*ssa.Function
	for f := range p.AllFuncs {
		if f.Blocks == nil || !isCirclFunc(f) || !sourceFunc(f) || f.Parent() != nil || f.Signature.Recv() == nil {
			continue
		}
		if strings.Contains(funcPkgPath(f), "/internal/test") || !freshDecoderName.MatchString(f.Name()) {
			continue
		}
		pt, ok := f.Signature.Recv().Type().Underlying().(*types.Pointer)
		if !ok {
			continue
		}
		if _, ok := pt.Elem().Underlying().(*types.Struct); !ok {
			continue
		}
		hasBytes := false
		for _, q := range f.Params[1:] {
			t := q.Type().String()
			if t == "[]byte" || t == "string" || strings.HasSuffix(t, "cryptobyte.String") {
				hasBytes = true
			}
		}
		if hasBytes {
			fs = append(fs, f)
		}
	}
	sort.Slice(fs, func(i, j int) bool { return fs[i].String() < fs[j].String() })
	return fs
}

func checkDecodeFresh(c *Ctx, p *Program) { decodeFreshRule(c, p, "C11", nil) }

// decodeFreshScope: the same two rules, restricted to the packages of a property, are necessary conditions
// there too (a signature decoder that range-checks what the object held before accepts any signature; a
// public key built from a component that is still zero verifies nothing).
var decodeFreshScope = map[string][]string{
	"C01": {"kem/", "pke/", "hpke"},
	"C02": {"sign/"},
	"C03": {"pke/kyber", "kem/kyber", "kem/mlkem"},
	"C04": {"sign/dilithium", "sign/mldsa", "sign/internal/dilithium"},
	"C09": {"ecc/", "group"},
	"C17": {"tss/", "secretsharing", "math/polynomial"},
	"C19": {"vdaf/"},
	"C20": {"abe/"},
}

func init() {
	for prop, pres := range decodeFreshScope {
		prop, pres := prop, pres
		prev := registry[prop]
		if prev == nil {
			panic("decodefresh: " + prop + " not registered")
		}
		registry[prop] = func(c *Ctx) {
			prev(c)
			if p := c.Prog("amd64"); p != nil {
				c.Clauses = append(c.Clauses, prop+".overwrite / "+prop+".readfirst: a decoder assigns the fields it assigns on every accepting path and reads none of them before; a function that builds and returns an object reads no field of it that it fills only later")
				decodeFreshRule(c, p, prop, pres)
			}
		}
	}
}

func decodeFreshRule(c *Ctx, p *Program, prop string, prefixes []string) {
	e := newDecodeEngine(p)
	all := freshDecoders(p)
	var fs []*ssa.Function
	for _, f := range all {
		if prefixes == nil || inScope(f, prefixes) {
			fs = append(fs, f)
		}
	}
	ruleOW, ruleRF := prop+".overwrite", prop+".readfirst"
	c.count("decoders_fresh", len(fs))
	if len(all) < 60 || len(fs) == 0 {
		c.undecided(ruleOW, "decoder methods with a struct receiver", fmt.Sprintf("only %d found (%d in scope; floor 60)", len(all), len(fs)), "")
	}
	nbad, nread := 0, 0
	for _, f := range fs {
		fa := e.analyseParam(f, 0, 5)
		if fa == nil || len(fa.may) == 0 {
			continue
		}
		// ---- readfirst ----
		var rf []string
		for _, rd := range fa.reads {
			if fa.may[rd.field] {
				rf = append(rf, fmt.Sprintf("%s (%s at %s)", rd.field, rd.via, p.pos(rd.pos)))
			}
		}
		if len(rf) > 0 {
			sort.Strings(rf)
			construct := fname(f) + ": no field the decoder assigns is read before it is assigned"
			if why, ok := readFirstExceptions[fname(f)]; ok {
				c.ok(ruleRF, construct, "exception: "+why, p.fnPos(f))
			} else {
				nread++
				c.bad(ruleRF, construct, "the old contents of the object are read: "+strings.Join(rf, "; "), p.fnPos(f))
			}
		}
		// ---- overwrite ----
		succ := succAuto(f)
		r := runGuard(&GuardQuery{P: p, Root: f, MaxDepth: 1})
		stale := map[string]bool{}
		for _, ri := range r.Returns {
			if !succ.may(ri.Vals) {
				continue
			}
			for name := range fa.may {
				if !fa.at[ri.Instr.Block().Index][name] {
					stale[name] = true
				}
			}
		}
		// path-sensitive confirmation: with the assigning blocks taken out of the function, is an accepting
		// exit still reachable? (`if err == nil { z.set(..) }; return err` accepts only through the assignment)
		for name := range stale {
			avoid := map[int]bool{}
			for bi, m := range fa.in {
				if m[name] && bi != 0 {
					avoid[bi] = true
				}
			}
			r2 := runGuard(&GuardQuery{P: p, Root: f, MaxDepth: 1, AvoidBlocks: avoid})
			acc := false
			for _, ri := range r2.Returns {
				if succ.may(ri.Vals) {
					acc = true
				}
			}
			if !acc {
				delete(stale, name)
			}
		}
		if len(stale) == 0 {
			continue
		}
		var names []string
		for n := range stale {
			names = append(names, n)
		}
		sort.Strings(names)
		construct := fname(f) + ": every field the decoder assigns is assigned on every accepting path"
		if why, ok := decodeFreshExceptions[fname(f)]; ok {
			c.ok(ruleOW, construct, "exception: "+why, p.fnPos(f))
			continue
		}
		nbad++
		c.bad(ruleOW, construct, "assigned on some paths only, so the object keeps what it held before on the others: "+strings.Join(names, ", "), p.fnPos(f))
	}
	if nbad == 0 {
		c.ok(ruleOW, "all decoder methods: every field a decoder assigns is assigned on every accepting path", fmt.Sprintf("%d decoders analysed (callee summaries three levels deep)", len(fs)), "")
	}
	if nread == 0 {
		c.ok(ruleRF, "all decoder methods: no field a decoder assigns is read before it is assigned", fmt.Sprintf("%d decoders analysed", len(fs)), "")
	}

	// ---- readfirst for constructors: an object the function allocates, fills and returns ----
	var ctors []*ssa.Function
	for f := range p.AllFuncs {
		if f.Blocks != nil && isCirclFunc(f) && sourceFunc(f) && f.Parent() == nil && !strings.Contains(funcPkgPath(f), "/internal/test") && (prefixes == nil || inScope(f, prefixes)) {
			ctors = append(ctors, f)
		}
	}
	sort.Slice(ctors, func(i, j int) bool { return ctors[i].String() < ctors[j].String() })
	nobj, nctor := 0, 0
	for _, f := range ctors {
		returned := map[ssa.Value]bool{}
		for _, b := range f.Blocks {
			if ret, ok := b.Instrs[len(b.Instrs)-1].(*ssa.Return); ok {
				for _, v := range ret.Results {
					returned[v] = true
					if mi, ok := v.(*ssa.MakeInterface); ok {
						returned[mi.X] = true
					}
				}
			}
		}
		for _, b := range f.Blocks {
			for _, in := range b.Instrs {
				al, ok := in.(*ssa.Alloc)
				if !ok || !returned[al] || len(structFieldNames(al.Type())) == 0 {
					continue
				}
				nobj++
				fa := e.analyseRoot(f, al, 5)
				var rf []string
				for _, rd := range fa.reads {
					if fa.may[rd.field] {
						rf = append(rf, fmt.Sprintf("%s (%s at %s)", rd.field, rd.via, p.pos(rd.pos)))
					}
				}
				if len(rf) == 0 {
					continue
				}
				sort.Strings(rf)
				construct := fname(f) + ": the object it builds and returns is not consumed before it is filled"
				if why, ok := readFirstExceptions[fname(f)]; ok {
					c.ok(ruleRF, construct, "exception: "+why, p.fnPos(f))
					continue
				}
				nctor++
				c.bad(ruleRF, construct, "a field that is filled later is read while it still holds the zero value: "+strings.Join(rf, "; "), p.fnPos(f))
			}
		}
	}
	c.count("constructed_objects", nobj)
	if (prefixes == nil && nobj < 100) || nobj == 0 {
		c.undecided(ruleRF, "functions that allocate, fill and return an object", fmt.Sprintf("only %d found (floor 100 over the whole module)", nobj), "")
	}
	if nctor == 0 {
		c.ok(ruleRF, "all constructors: no field of the returned object is read before it is filled", fmt.Sprintf("%d returned objects analysed", nobj), "")
	}
}

func debugDecode(p *Program, pkg, typ, name string) {
	f := p.Func(pkg, typ, name)
	if f == nil {
		fmt.Println("no func")
		return
	}
	e := newDecodeEngine(p)
	fa := e.analyseParam(f, 0, 5)
	fmt.Println("may", fa.may, "must", fa.must)
	for _, b := range f.Blocks {
		fmt.Println(" block", b.Index, "in", fa.in[b.Index], "at", fa.at[b.Index], p.pos(b.Instrs[0].Pos()))
	}
	for _, r := range fa.reads {
		fmt.Println(" read", r.field, r.via, p.pos(r.pos))
	}
	succ := succAuto(f)
	r := runGuard(&GuardQuery{P: p, Root: f, MaxDepth: 1})
	for _, ri := range r.Returns {
		fmt.Println(" return", p.pos(ri.Instr.Pos()), ri.Instr.Parent() == f, ri.Instr.Block().Index, ri.Vals, succ.may(ri.Vals))
	}
}

// inScope: f's package is one of the listed packages (relative to the module) or below one of them.
func inScope(f *ssa.Function, prefixes []string) bool {
	rel := strings.TrimPrefix(funcPkgPath(f), circlPath+"/")
	for _, pre := range prefixes {
		pre = strings.TrimSuffix(pre, "/")
		if pre == "" || rel == pre || strings.HasPrefix(rel, pre+"/") {
			return true
		}
	}
	return false
}

// checkClearBeforeCopy: a decoder whose receiver is a byte array and that copies a variable number of input
// bytes into it clears the whole receiver first, on every path (a short input otherwise leaves the upper
// bytes of a previously used object in place). One instance: goldilocks.Scalar.FromBytes.
func checkClearBeforeCopy(c *Ctx, p *Program, rule, pkg, typ, name string) {
	f := p.Func(pkg, typ, name)
	what := "the receiver is cleared before input bytes are copied into it"
	if f == nil {
		c.undecided(rule, pkg+"."+typ+"."+name+": "+what, "anchor does not resolve", "")
		return
	}
	recv := ssa.Value(f.Params[0])
	hdrs := loopHeadersOf(f)
	clearHdr := map[int]bool{}
	for _, b := range f.Blocks {
		for _, in := range b.Instrs {
			st, ok := in.(*ssa.Store)
			if !ok {
				continue
			}
			ia, ok := st.Addr.(*ssa.IndexAddr)
			if !ok || ia.X != recv {
				continue
			}
			k, ok := st.Val.(*ssa.Const)
			if !ok || k.Value == nil || k.Value.ExactString() != "0" {
				continue
			}
			if _, isConst := ia.Index.(*ssa.Const); isConst {
				continue
			}
			for _, h := range hdrs[b.Index] {
				clearHdr[h] = true
			}
		}
	}
	isClear := func(in ssa.Instruction) bool {
		if st, ok := in.(*ssa.Store); ok && st.Addr == recv {
			return true
		}
		b := in.Block()
		return clearHdr[b.Index] && in == b.Instrs[len(b.Instrs)-1]
	}
	isCopy := func(in ssa.Instruction) bool {
		ci, ok := in.(ssa.CallInstruction)
		if !ok {
			return false
		}
		bi, ok := ci.Common().Value.(*ssa.Builtin)
		return ok && bi.Name() == "copy" && len(ci.Common().Args) == 2 && recvField(recv, ci.Common().Args[0]) == "*"
	}
	c.orderRule(p, rule, what, f, "clearing of the whole receiver", isClear, "copy into the receiver", isCopy)
}

// RETALIAS: an exported method does not hand out its receiver's storage as a byte / element slice.
// "Modifying a returned object never changes what later calls return": an encoder that returns the internal
// buffer (`return s.k`), or an accessor of a slice-typed key that returns a sub-slice of the key
// (`return priv[32:]`), lets the caller rewrite the object. Thirteen sites of the library do so on purpose.
var retAliasExceptions = map[string]string{
	"(*ot/simot.Receiver).Returnmc":          "accessor of the single-use OT transcript (used by the package's own protocol driver)",
	"(*ot/simot.Sender).Returne0e1":          "accessor of the single-use OT transcript (used by the package's own protocol driver)",
	"(*ot/simot.Sender).Returnm0m1":          "accessor of the single-use OT transcript (used by the package's own protocol driver)",
	"(*ot/simot.Sender).Round2Sender":        "returns the two ciphertexts of the round it just computed; the object is single-use",
	"(*simd/keccakf1600.StateX2).Initialize": "documented: returns the aligned window of the state for the caller to fill and read",
	"(*simd/keccakf1600.StateX4).Initialize": "documented: returns the aligned window of the state for the caller to fill and read",
	"(vdaf/prio3/arith/fp128.Poly).Strip":    "documented: returns a prefix of the polynomial itself",
	"(vdaf/prio3/arith/fp64.Poly).Strip":     "documented: returns a prefix of the polynomial itself",
}

func checkReturnAlias(c *Ctx, p *Program) {
	var fs []*ssa.Function
	for f := range p.AllFuncs {
		if f.Blocks != nil && isCirclFunc(f) && sourceFunc(f) && f.Parent() == nil && f.Signature.Recv() != nil && f.Object() != nil && f.Object().Exported() && !strings.Contains(funcPkgPath(f), "/internal/") {
			fs = append(fs, f)
		}
	}
	sort.Slice(fs, func(i, j int) bool { return fs[i].String() < fs[j].String() })
	nret, nexc, nbad := 0, 0, 0
	for _, f := range fs {
		recv := ssa.Value(f.Params[0])
		var hits []string
		for _, b := range f.Blocks {
			ret, ok := b.Instrs[len(b.Instrs)-1].(*ssa.Return)
			if !ok {
				continue
			}
			var cands []ssa.Value
			for _, rv := range ret.Results {
				cands = append(cands, rv)
				// a pointer to a local slice variable (`return &out`): what was stored in the variable
				if al, ok := rv.(*ssa.Alloc); ok {
					if _, isSl := derefType(al.Type()).Underlying().(*types.Slice); isSl {
						for _, r := range *al.Referrers() {
							if st, ok := r.(*ssa.Store); ok && st.Addr == ssa.Value(al) {
								cands = append(cands, st.Val)
							}
						}
					}
				}
			}
			for _, rv := range cands {
				v := rv
				if mi, ok := v.(*ssa.MakeInterface); ok {
					v = mi.X // a slice-typed key handed out as crypto.PublicKey
				}
				if _, isSlice := v.Type().Underlying().(*types.Slice); !isSlice {
					continue
				}
				nret++
				for i := 0; i < 8; i++ {
					switch x := v.(type) {
					case *ssa.Slice:
						v = x.X
						continue
					case *ssa.ChangeType:
						v = x.X
						continue
					case *ssa.Convert:
						if _, isSl := x.X.Type().Underlying().(*types.Slice); isSl {
							v = x.X
							continue
						}
					}
					break
				}
				root := ""
				if v == recv {
					if _, isSl := recv.Type().Underlying().(*types.Slice); isSl {
						root = "a slice of the receiver itself"
					}
				} else if u, ok := v.(*ssa.UnOp); ok && u.Op == token.MUL {
					if n := recvField(recv, u.X); n != "" && n != "*" {
						root = "the slice kept in field " + n
					}
				} else if n := recvField(recv, v); n != "" {
					root = "the storage of field " + n
				}
				if root != "" {
					hits = append(hits, fmt.Sprintf("%s: %s", p.pos(ret.Pos()), root))
				}
			}
		}
		if len(hits) == 0 {
			continue
		}
		name := exportedNameOf(f)
		construct := name + ": the slice handed out is not the object's own storage"
		if why, ok := retAliasExceptions[name]; ok {
			nexc++
			c.ok("C11.retalias", construct, "exception: "+why, p.fnPos(f))
			continue
		}
		nbad++
		sort.Strings(hits)
		c.bad("C11.retalias", construct, "the caller can rewrite the object through the result: "+strings.Join(hits, "; "), p.fnPos(f))
	}
	c.count("slice_results", nret)
	if nret < 200 {
		c.undecided("C11.retalias", "exported methods returning slices", fmt.Sprintf("only %d slice results found (floor 200)", nret), "")
	}
	if nbad == 0 {
		c.ok("C11.retalias", "exported methods hand out copies, not their receiver's storage", fmt.Sprintf("%d slice results of exported methods inspected; %d documented exceptions", nret, nexc), "")
	}
}

// CACHE-RESET: a decoder of a key type that memoises a derived value clears the memo.
//
// Key objects cache their public key (`pubOnce.Do(func() { k.pub = ... })`, or `if k.pub == nil { k.pub = ... }`
// in an accessor). Loading other key material into such an object has to reset the cache, otherwise the
// object keeps reporting the public key of the key it held before. The rule finds the cache fields of every
// struct type (fields assigned inside a closure of one of its non-decoder methods, fields assigned under a
// nil test of the same field, and sync.Once fields) and requires every decoder method of the type that
// assigns other fields to assign those too.
func checkCacheReset(c *Ctx, p *Program, rule string, prefixes []string) {
	type tkey = string
	cache := map[tkey]map[string]string{} // receiver type -> cache field -> where it is filled
	recvType := func(f *ssa.Function) (string, *types.Struct) {
		if f.Signature.Recv() == nil {
			return "", nil
		}
		t := f.Signature.Recv().Type()
		if pt, ok := t.Underlying().(*types.Pointer); ok {
			t = pt.Elem()
		}
		st, ok := t.Underlying().(*types.Struct)
		if !ok {
			return "", nil
		}
		return t.String(), st
	}
	note := func(tn, field, where string) {
		if cache[tn] == nil {
			cache[tn] = map[string]string{}
		}
		if _, ok := cache[tn][field]; !ok {
			cache[tn][field] = where
		}
	}
	var methods []*ssa.Function
	for f := range p.AllFuncs {
		if f.Blocks != nil && isCirclFunc(f) && sourceFunc(f) && !strings.Contains(funcPkgPath(f), "/internal/test") {
			methods = append(methods, f)
		}
	}
	sort.Slice(methods, func(i, j int) bool { return methods[i].String() < methods[j].String() })
	for _, f := range methods {
		top := f
		for top.Parent() != nil {
			top = top.Parent()
		}
		tn, st := recvType(top)
		if st == nil || freshDecoderName.MatchString(top.Name()) {
			continue
		}
		for i := 0; i < st.NumFields(); i++ {
			if st.Field(i).Type().String() == "sync.Once" {
				note(tn, st.Field(i).Name(), "a sync.Once")
			}
		}
		for _, b := range f.Blocks {
			for _, in := range b.Instrs {
				s, ok := in.(*ssa.Store)
				if !ok {
					continue
				}
				fa, ok := s.Addr.(*ssa.FieldAddr)
				if !ok {
					continue
				}
				// the field belongs to the method's receiver type
				bt := fa.X.Type()
				if pt, ok := bt.Underlying().(*types.Pointer); ok {
					bt = pt.Elem()
				}
				if bt.String() != tn {
					continue
				}
				if f.Parent() != nil {
					// inside a closure (the body handed to sync.Once.Do)
					note(tn, fieldName(fa), "filled in a closure of "+fname(top)+" ("+p.pos(s.Pos())+")")
					continue
				}
				// under a nil test of the same field
				for d := b; d.Idom() != nil; d = d.Idom() {
					pd := d.Idom()
					ifi, ok := pd.Instrs[len(pd.Instrs)-1].(*ssa.If)
					if !ok || len(d.Preds) != 1 {
						continue
					}
					bo, ok := ifi.Cond.(*ssa.BinOp)
					if !ok || bo.Op != token.EQL || pd.Succs[0] != d {
						continue
					}
					k, isK := bo.Y.(*ssa.Const)
					ld, isLd := bo.X.(*ssa.UnOp)
					if !isK || !k.IsNil() || !isLd {
						continue
					}
					if fa2, ok := ld.X.(*ssa.FieldAddr); ok && fa2.Field == fa.Field && sameLocation(fa2.X, fa.X, 0) {
						note(tn, fieldName(fa), "filled lazily in "+fname(top)+" ("+p.pos(s.Pos())+")")
					}
				}
			}
		}
	}
	n, nbad := 0, 0
	e := newDecodeEngine(p)
	for _, f := range freshDecoders(p) {
		if prefixes != nil && !inScope(f, prefixes) {
			continue
		}
		tn, _ := recvType(f)
		cf := cache[tn]
		if len(cf) == 0 {
			continue
		}
		fa := e.analyseParam(f, 0, 5)
		if fa == nil || len(fa.may) == 0 {
			continue
		}
		// a decoder that loads key material: it assigns some field that is not a cache field
		loads := false
		for k := range fa.may {
			if _, isCache := cf[k]; !isCache {
				loads = true
			}
		}
		if !loads {
			continue
		}
		n++
		var miss []string
		for k, where := range cf {
			if !fa.may[k] {
				miss = append(miss, k+" ("+where+")")
			}
		}
		construct := fname(f) + ": loading key material resets the values memoised in the object"
		if len(miss) > 0 {
			sort.Strings(miss)
			nbad++
			c.bad(rule, construct, "the decoder never assigns the cache field(s) "+strings.Join(miss, ", ")+": the object keeps reporting what was derived from the key it held before", p.fnPos(f))
		} else {
			c.ok(rule, construct, fmt.Sprintf("%d cache field(s) assigned", len(cf)), p.fnPos(f))
		}
	}
	c.count("decoders_with_cache", n)
	if prefixes == nil && n < 2 {
		c.undecided(rule, "decoders of types with memoised fields", fmt.Sprintf("only %d found (floor 2)", n), "")
	}
	_ = nbad
}

func init() {
	for prop, pres := range map[string][]string{"C02": {"sign/"}, "C16": {"oprf", "zk/"}, "C17": {"tss/"}} {
		prop, pres := prop, pres
		prev := registry[prop]
		registry[prop] = func(c *Ctx) {
			prev(c)
			if p := c.Prog("amd64"); p != nil {
				checkCacheReset(c, p, prop+".overwrite", pres)
			}
		}
	}
}

// OPTFIELD: an optional component is used only where it is known to be present.
//
// A pointer field that some function of the package assigns nil to (`s.jointRandPart = nil` for an instance
// without joint randomness) is optional. In the decoders and encoders of the type, a method call through
// such a field has to be dominated by a test of the same field against nil: deciding presence from the input
// instead (`str.Empty() || s.part.Unmarshal(str)`) dereferences nil for input the configuration did not
// expect.
func checkOptionalFields(c *Ctx, p *Program, rule string, prefixes []string) {
	var fs []*ssa.Function
	for f := range p.AllFuncs {
		if f.Blocks != nil && isCirclFunc(f) && sourceFunc(f) && !strings.Contains(funcPkgPath(f), "/internal/test") && (prefixes == nil || inScope(f, prefixes)) {
			fs = append(fs, f)
		}
	}
	sort.Slice(fs, func(i, j int) bool { return fs[i].String() < fs[j].String() })
	typeOf := func(fa *ssa.FieldAddr) string {
		t := fa.X.Type()
		if pt, ok := t.Underlying().(*types.Pointer); ok {
			t = pt.Elem()
		}
		if n, ok := t.(*types.Named); ok {
			if o := n.Origin(); o != nil {
				return o.Obj().Pkg().Path() + "." + o.Obj().Name()
			}
		}
		return t.String()
	}
	optional := map[string]string{} // type.field -> where nil is assigned
	for _, f := range fs {
		for _, b := range f.Blocks {
			for _, in := range b.Instrs {
				st, ok := in.(*ssa.Store)
				if !ok {
					continue
				}
				fa, ok := st.Addr.(*ssa.FieldAddr)
				if !ok {
					continue
				}
				if k, ok := st.Val.(*ssa.Const); ok && k.IsNil() {
					if _, isPtr := st.Val.Type().Underlying().(*types.Pointer); isPtr {
						optional[typeOf(fa)+"."+fieldName(fa)] = p.pos(st.Pos())
					}
				}
			}
		}
	}
	n, nbad := 0, 0
	for _, f := range fs {
		if f.Signature.Recv() == nil {
			continue
		}
		nm := f.Name()
		if !(freshDecoderName.MatchString(nm) || strings.HasPrefix(nm, "Marshal") || strings.HasPrefix(nm, "marshal") || strings.HasPrefix(nm, "Pack")) {
			continue
		}
		recv := ssa.Value(f.Params[0])
		for _, b := range f.Blocks {
			for _, in := range b.Instrs {
				ci, ok := in.(ssa.CallInstruction)
				if !ok || ci.Common().IsInvoke() || len(ci.Common().Args) == 0 {
					continue
				}
				ld, ok := ci.Common().Args[0].(*ssa.UnOp)
				if !ok || ld.Op != token.MUL {
					continue
				}
				fa, ok := ld.X.(*ssa.FieldAddr)
				if !ok || fa.X != recv {
					continue
				}
				where, isOpt := optional[typeOf(fa)+"."+fieldName(fa)]
				if !isOpt {
					continue
				}
				cal := ci.Common().StaticCallee()
				if cal == nil || cal.Signature.Recv() == nil {
					continue
				}
				n++
				guarded := false
				for d := b; d.Idom() != nil && !guarded; d = d.Idom() {
					pd := d.Idom()
					ifi, ok := pd.Instrs[len(pd.Instrs)-1].(*ssa.If)
					if !ok || len(d.Preds) != 1 {
						continue
					}
					// the comparisons known to hold on the edge taken: the condition itself, or - for a
					// short-circuit `a && b`, which is a phi of false and b - its non-constant operands
					var conds []*ssa.BinOp
					onTrue := pd.Succs[0] == d
					cv := ifi.Cond
					for i := 0; i < 4; i++ { // `switch true { case a && b: }` compares the condition with true
						bo, ok := cv.(*ssa.BinOp)
						if !ok || bo.Op != token.EQL {
							break
						}
						if k, ok := bo.X.(*ssa.Const); ok && k.Value != nil && k.Value.ExactString() == "true" {
							cv = bo.Y
						} else if k, ok := bo.Y.(*ssa.Const); ok && k.Value != nil && k.Value.ExactString() == "true" {
							cv = bo.X
						} else {
							break
						}
					}
					switch x := cv.(type) {
					case *ssa.BinOp:
						conds = append(conds, x)
					case *ssa.Phi:
						if onTrue {
							for _, e := range x.Edges {
								if bo, ok := e.(*ssa.BinOp); ok {
									conds = append(conds, bo)
								}
							}
						}
					}
					for _, bo := range conds {
						k, isK := bo.Y.(*ssa.Const)
						l2, isLd := bo.X.(*ssa.UnOp)
						if !isK || !k.IsNil() || !isLd {
							continue
						}
						f2, ok := l2.X.(*ssa.FieldAddr)
						if !ok || f2.Field != fa.Field || f2.X != recv {
							continue
						}
						if (bo.Op == token.NEQ && onTrue) || (bo.Op == token.EQL && !onTrue) {
							guarded = true
						}
					}
				}
				if !guarded {
					nbad++
					c.bad(rule, fmt.Sprintf("%s: the optional component %s is used only behind a nil test of it", fname(f), fieldName(fa)),
						fmt.Sprintf("%s is called through field %s at %s without a dominating test of the field against nil (the field is set to nil at %s)", shortCallee(p.staticCalleeName(ci.Common())), fieldName(fa), p.pos(in.Pos()), where), p.pos(in.Pos()))
				}
			}
		}
	}
	c.count("optional_field_uses", n)
	if n == 0 && prefixes != nil {
		c.undecided(rule, "method calls through optional pointer fields in encoders / decoders", "none found: the rule would be vacuous", "")
		return
	}
	if nbad == 0 {
		c.ok(rule, "optional components are used only behind a nil test", fmt.Sprintf("%d method calls through pointer fields that some function sets to nil", n), "")
	}
}
