package oprf_test

// Demonstrates (C11): oprf.PrivateKey.Public() writes an unsynchronised cache: data race between
// goroutines using one key. Place in /repo/oprf: go test -race -run TestFindingLazyPublic ./oprf/

import (
	"sync"
	"testing"

	"github.com/cloudflare/circl/oprf"
)

func TestFindingLazyPublic(t *testing.T) {
	sk, err := oprf.DeriveKey(oprf.SuiteP256, oprf.VerifiableMode, []byte("seed seed seed seed seed seed 32"), []byte("info"))
	if err != nil {
		t.Fatal(err)
	}
	var wg sync.WaitGroup
	for g := 0; g < 8; g++ {
		wg.Add(1)
		go func() { defer wg.Done(); _ = sk.Public() }()
	}
	wg.Wait()
}
