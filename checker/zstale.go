package main

import (
	"fmt"
	"go/token"
	"go/types"
	"os"
	"regexp"
	"sort"
	"strings"

	"golang.org/x/tools/go/ssa"
)

// STALE: an arithmetic method of the form z.Op(x, ...) does not read what z held before the call.
//
// The field and tower types of the library follow the convention that the receiver of a method with an
// operand of its own type is a pure destination: z.Add(x, y), z.Inv(x). A statement such as
// `z[1].Sub(&z[1], &x[1])` in such a method reads the previous contents of the receiver, so the result depends
// on what the destination happened to hold (and is wrong when z and x are the same object).
//
// The analysis is a forward must-write analysis over the leaves of the receiver's type (array elements by
// constant index, struct fields), with callee summaries (leaves read before they are certainly written,
// leaves certainly written on return). A read of a leaf that is not certainly written on every path to it,
// through the receiver and not through an operand, is reported.
//
// Not decided: reads through a non-constant index are only reported when no element of the array was
// written; writes through a non-constant index count as writing the whole array (the loop idiom).

const staleMaxArray = 16

type staleSummary struct {
	reads map[string]token.Pos // leaf -> first position read before written
	rblk  map[string]int       // block of that read
	via   map[string]string
	must  map[string]bool
}

type staleKey struct {
	f   *ssa.Function
	idx int
}

type staleEngine struct {
	p    *Program
	memo map[staleKey]*staleSummary
	busy map[staleKey]bool
}

func newStaleEngine(p *Program) *staleEngine {
	p.Mod() // sets the model of the assembly routines that externalWrites consults
	return &staleEngine{p: p, memo: map[staleKey]*staleSummary{}, busy: map[staleKey]bool{}}
}

// leavesOf expands a type to its leaf paths.
func leavesOf(t types.Type, depth int) []string {
	if depth > 6 {
		return []string{""}
	}
	switch u := t.Underlying().(type) {
	case *types.Array:
		if u.Len() > staleMaxArray || u.Len() == 0 {
			return []string{""}
		}
		var out []string
		sub := leavesOf(u.Elem(), depth+1)
		for i := int64(0); i < u.Len(); i++ {
			for _, s := range sub {
				out = append(out, fmt.Sprintf("[%d]%s", i, s))
			}
		}
		return out
	case *types.Struct:
		if u.NumFields() == 0 {
			return []string{""}
		}
		var out []string
		for i := 0; i < u.NumFields(); i++ {
			for _, s := range leavesOf(u.Field(i).Type(), depth+1) {
				out = append(out, "."+u.Field(i).Name()+s)
			}
		}
		return out
	}
	return []string{""}
}

// stalePath: the access path of address v below root, or ok=false. Elements are "[k]", "[*]", ".name".
func stalePath(root, v ssa.Value) ([]string, bool) {
	var rev []string
	for i := 0; i < 32; i++ {
		if v == root {
			out := make([]string, len(rev))
			for j := range rev {
				out[j] = rev[len(rev)-1-j]
			}
			return out, true
		}
		switch x := v.(type) {
		case *ssa.FieldAddr:
			rev = append(rev, "."+fieldName(x))
			v = x.X
		case *ssa.IndexAddr:
			if _, isArr := derefType(x.X.Type()).Underlying().(*types.Array); !isArr {
				return nil, false
			}
			if k, ok := x.Index.(*ssa.Const); ok && k.Value != nil {
				rev = append(rev, "["+k.Value.ExactString()+"]")
			} else {
				rev = append(rev, "[*]")
			}
			v = x.X
		case *ssa.Slice:
			// a slice of an array below root: the whole array
			rev = append(rev, "[*]")
			v = x.X
		case *ssa.ChangeType:
			v = x.X
		case *ssa.Convert:
			v = x.X
		case *ssa.UnOp:
			// a load of a pointer field: the object it points to is counted with the field
			if x.Op != token.MUL || !pointerLike(x.Type()) {
				return nil, false
			}
			v = x.X
		default:
			return nil, false
		}
	}
	return nil, false
}

func derefType(t types.Type) types.Type {
	if pt, ok := t.Underlying().(*types.Pointer); ok {
		return pt.Elem()
	}
	return t
}

// leavesUnder: the leaves of all (the root's leaf list) that lie below path; a "[*]" element matches any
// index. whole reports whether path names them without a wildcard.
func leavesUnder(all []string, path []string) (out []string, wild bool) {
	for _, e := range path {
		if e == "[*]" {
			wild = true
		}
	}
	for _, l := range all {
		rest := l
		ok := true
		for _, e := range path {
			if e == "[*]" {
				if !strings.HasPrefix(rest, "[") {
					// array too long to expand, or a slice of a leaf: the leaf itself
					continue
				}
				j := strings.Index(rest, "]")
				rest = rest[j+1:]
				continue
			}
			if strings.HasPrefix(rest, e) {
				rest = rest[len(e):]
				continue
			}
			if rest == "" {
				// below a leaf (a word of a long array): the leaf stands for it
				continue
			}
			ok = false
			break
		}
		if ok {
			out = append(out, l)
		}
	}
	return out, wild
}

type staleEvent struct {
	write  bool
	leaves []string
	wild   bool
	pos    token.Pos
	via    string
	// partial: the access touches only part of a leaf (an element of a long array): a write does not cover
	// the leaf, a read needs it
	partial bool
}

func (e *staleEngine) summary(f *ssa.Function, idx int) *staleSummary {
	if f == nil || f.Blocks == nil || idx >= len(f.Params) {
		return nil
	}
	k := staleKey{f, idx}
	if s, ok := e.memo[k]; ok {
		return s
	}
	if e.busy[k] {
		return nil
	}
	e.busy[k] = true
	defer delete(e.busy, k)
	s := e.analyse(f, f.Params[idx])
	e.memo[k] = s
	return s
}

func pathPartial(root ssa.Value, path []string) bool {
	// true when the path descends below a leaf (indexing into an array that is not expanded)
	t := derefType(root.Type())
	for _, el := range path {
		switch u := t.Underlying().(type) {
		case *types.Array:
			if u.Len() > staleMaxArray {
				return el != "[*]"
			}
			t = u.Elem()
		case *types.Struct:
			name := strings.TrimPrefix(el, ".")
			found := false
			for i := 0; i < u.NumFields(); i++ {
				if u.Field(i).Name() == name {
					t = u.Field(i).Type()
					found = true
				}
			}
			if !found {
				return false
			}
		default:
			return false
		}
	}
	return false
}

func (e *staleEngine) analyse(f *ssa.Function, root ssa.Value) *staleSummary {
	all := leavesOf(derefType(root.Type()), 0)
	events := make([][]staleEvent, len(f.Blocks))
	for _, b := range f.Blocks {
		add := func(ev staleEvent) {
			if len(ev.leaves) > 0 {
				events[b.Index] = append(events[b.Index], ev)
			}
		}
		for _, in := range b.Instrs {
			switch x := in.(type) {
			case *ssa.Store:
				if path, ok := stalePath(root, x.Addr); ok {
					lv, wild := leavesUnder(all, path)
					// `v := T{a: 1}`: the literal is built in a temporary and copied as a whole; the fields the
					// literal does not name hold the zero value, which is not an assignment of the author's
					if ld, isLd := x.Val.(*ssa.UnOp); isLd && ld.Op == token.MUL && len(path) == 0 {
						if tmp, isAl := ld.X.(*ssa.Alloc); isAl && tmp.Comment == "complit" {
							named := map[string]bool{}
							for _, r := range *tmp.Referrers() {
								if fa, ok := r.(*ssa.FieldAddr); ok {
									for _, rr := range *fa.Referrers() {
										if st2, ok := rr.(*ssa.Store); ok && st2.Addr == ssa.Value(fa) {
											named["."+fieldName(fa)] = true
										}
									}
								}
							}
							var kept []string
							for _, l := range lv {
								for n := range named {
									if l == n || strings.HasPrefix(l, n+".") || strings.HasPrefix(l, n+"[") {
										kept = append(kept, l)
										break
									}
								}
							}
							lv = kept
						}
					}
					add(staleEvent{write: true, leaves: lv, wild: wild, pos: x.Pos(), via: "store", partial: pathPartial(root, path)})
				}
			case *ssa.UnOp:
				if x.Op != token.MUL || len(*x.Referrers()) == 0 || pointerLike(x.Type()) || sliceLike(x.Type()) {
					continue
				}
				if path, ok := stalePath(root, x.X); ok {
					lv, wild := leavesUnder(all, path)
					add(staleEvent{leaves: lv, wild: wild, pos: x.Pos(), via: "load"})
				}
			case ssa.CallInstruction:
				c0 := x.Common()
				if bi, isB := c0.Value.(*ssa.Builtin); isB && (bi.Name() == "len" || bi.Name() == "cap") {
					continue
				}
				var args []ssa.Value
				if c0.IsInvoke() {
					args = append(args, c0.Value)
				}
				args = append(args, c0.Args...)
				name := e.p.staticCalleeName(c0)
				cal := c0.StaticCallee()
				hasBody := cal != nil && cal.Blocks != nil && isCirclFunc(cal) // the standard library is modelled, not analysed
				extW := map[int]bool{}
				for _, i := range externalWrites(name, len(args)) {
					extW[i] = true
				}
				var reads, writes []staleEvent
				for i, a := range args {
					path, ok := stalePath(root, a)
					if !ok {
						continue
					}
					short := shortCallee(name)
					if hasBody {
						sub := e.summary(cal, i)
						if sub == nil {
							continue
						}
						var rl []string
						for l := range sub.reads {
							rl = append(rl, l)
						}
						sort.Strings(rl)
						for _, l := range rl {
							lv, wild := leavesUnder(all, append(append([]string{}, path...), splitLeaf(l)...))
							reads = append(reads, staleEvent{leaves: lv, wild: wild, pos: x.Pos(), via: "read in " + short})
						}
						var wl []string
						for l := range sub.must {
							wl = append(wl, l)
						}
						sort.Strings(wl)
						for _, l := range wl {
							lv, wild := leavesUnder(all, append(append([]string{}, path...), splitLeaf(l)...))
							writes = append(writes, staleEvent{write: true, leaves: lv, wild: wild, pos: x.Pos(), via: "written in " + short, partial: pathPartial(root, path)})
						}
						continue
					}
					lv, wild := leavesUnder(all, path)
					if extW[i] {
						writes = append(writes, staleEvent{write: true, leaves: lv, wild: wild, pos: x.Pos(), via: "written by " + short, partial: pathPartial(root, path)})
					} else if (cal != nil && isCirclFunc(cal)) || len(externalWrites(name, len(args))) > 0 {
						// a body-less circl routine, or a modelled callee that writes another argument: this
						// one is an input. A callee outside circl without a model is unknown: no event.
						reads = append(reads, staleEvent{leaves: lv, wild: wild, pos: x.Pos(), via: "read by " + short})
					}
				}
				for _, r := range reads {
					add(r)
				}
				for _, w := range writes {
					add(w)
				}
			}
		}
	}
	// forward must analysis
	full := map[string]bool{}
	for _, l := range all {
		full[l] = true
	}
	gen := make([]map[string]bool, len(f.Blocks))
	for bi, evs := range events {
		gen[bi] = map[string]bool{}
		for _, ev := range evs {
			if ev.write && !ev.partial {
				for _, l := range ev.leaves {
					gen[bi][l] = true
				}
			}
		}
	}
	out := make([]map[string]bool, len(f.Blocks))
	inb := make([]map[string]bool, len(f.Blocks))
	for i := range out {
		out[i] = full
	}
	for changed := true; changed; {
		changed = false
		for _, b := range f.Blocks {
			in := map[string]bool{}
			if len(b.Preds) > 0 {
				for l := range full {
					ok := true
					for _, pr := range b.Preds {
						if !out[pr.Index][l] {
							ok = false
							break
						}
					}
					if ok {
						in[l] = true
					}
				}
			}
			inb[b.Index] = in
			o := map[string]bool{}
			for l := range in {
				o[l] = true
			}
			for l := range gen[b.Index] {
				o[l] = true
			}
			if len(o) != len(out[b.Index]) {
				out[b.Index] = o
				changed = true
			}
		}
	}
	res := &staleSummary{reads: map[string]token.Pos{}, rblk: map[string]int{}, via: map[string]string{}, must: map[string]bool{}}
	hdrs := loopHeadersOf(f)
	loopGen := map[int]map[string]bool{}
	for bi := range f.Blocks {
		for _, h := range hdrs[bi] {
			if loopGen[h] == nil {
				loopGen[h] = map[string]bool{}
			}
			for l := range gen[bi] {
				loopGen[h][l] = true
			}
		}
	}
	// an object allocated inside a loop is a new one in every iteration: nothing is carried around that loop
	rootInLoop := map[int]bool{}
	if al, ok := root.(*ssa.Alloc); ok && al.Block() != nil {
		for _, h := range hdrs[al.Block().Index] {
			rootInLoop[h] = true
		}
	}
	for _, b := range f.Blocks {
		cur := map[string]bool{}
		for l := range inb[b.Index] {
			cur[l] = true
		}
		for _, ev := range events[b.Index] {
			if ev.write {
				if !ev.partial {
					for _, l := range ev.leaves {
						cur[l] = true
					}
				}
				continue
			}
			var missing []string
			for _, l := range ev.leaves {
				if !cur[l] {
					// an accumulator or a buffer filled piecewise inside a loop that writes the leaf
					acc := false
					for _, h := range hdrs[b.Index] {
						if loopGen[h][l] && !rootInLoop[h] {
							acc = true
						}
					}
					if !acc {
						missing = append(missing, l)
					}
				}
			}
			if len(missing) == 0 {
				continue
			}
			if ev.wild && len(missing) < len(ev.leaves) {
				// a variable index into an array of which some elements are written: which one is a
				// question about values
				continue
			}
			for _, l := range missing {
				if _, ok := res.reads[l]; !ok {
					res.reads[l] = ev.pos
					res.rblk[l] = b.Index
					res.via[l] = ev.via
				}
			}
		}
	}
	first := true
	for _, b := range f.Blocks {
		if len(b.Instrs) == 0 {
			continue
		}
		if _, ok := b.Instrs[len(b.Instrs)-1].(*ssa.Return); !ok {
			continue
		}
		if first {
			for l := range out[b.Index] {
				res.must[l] = true
			}
			first = false
			continue
		}
		for l := range res.must {
			if !out[b.Index][l] {
				delete(res.must, l)
			}
		}
	}
	return res
}

// splitLeaf: "[0].i[3]" -> ["[0]", ".i", "[3]"]
func splitLeaf(l string) []string {
	var out []string
	for len(l) > 0 {
		j := 1
		for j < len(l) && l[j] != '[' && l[j] != '.' {
			j++
		}
		out = append(out, l[:j])
		l = l[j:]
	}
	return out
}

// staleExceptions: methods of the form z.Op(x) that are documented to combine the receiver with the operand.
var staleExceptions = map[string]string{
	"(*ecc/bls12381/ff.Fp).Sqrt":  "documented: returns 0 and leaves z unmodified when x is not a square (z.CMov(z, &y, isQR))",
	"(*ecc/bls12381/ff.Fp2).Sqrt": "documented: returns 0 and leaves z unmodified when x is not a square (z.CMov(z, &tv, e))",
}

// conditional moves, swaps and compound assignments combine the receiver with the operand by definition;
// comparisons do not write it
var staleSkipName = regexp.MustCompile(`(?i)^(c?mov|cmov|cswap|cselect|csel|cneg|.*assign|.*equal.*|.*lessthan.*)$`)

func staleCandidates(p *Program, prefixes []string) []*ssa.Function {
	var fs []*ssa.Function
	for f := range p.AllFuncs {
		if f.Blocks == nil || !isCirclFunc(f) || !sourceFunc(f) || f.Parent() != nil || f.Signature.Recv() == nil {
			continue
		}
		if strings.Contains(funcPkgPath(f), "/internal/test") || (prefixes != nil && !inScope(f, prefixes)) {
			continue
		}
		rt := f.Signature.Recv().Type()
		pt, ok := rt.Underlying().(*types.Pointer)
		if !ok {
			continue
		}
		switch pt.Elem().Underlying().(type) {
		case *types.Array, *types.Struct:
		default:
			continue
		}
		same := false
		for i := 0; i < f.Signature.Params().Len(); i++ {
			if types.Identical(f.Signature.Params().At(i).Type(), rt) {
				same = true
			}
		}
		if same && !staleSkipName.MatchString(f.Name()) {
			fs = append(fs, f)
		}
	}
	sort.Slice(fs, func(i, j int) bool { return fs[i].String() < fs[j].String() })
	return fs
}

func checkStaleReceiver(c *Ctx, p *Program, rule string, prefixes []string, floor int) {
	e := newStaleEngine(p)
	fs := staleCandidates(p, prefixes)
	n, nbad := 0, 0
	for _, f := range fs {
		n++
		s := e.summary(f, 0)
		if s == nil || len(s.reads) == 0 {
			continue
		}
		if reason, ok := staleExceptions[fname(f)]; ok {
			c.ok(rule, fname(f)+": combines the receiver with its operand", reason, p.pos(f.Pos()))
			continue
		}
		var ls []string
		for l := range s.reads {
			ls = append(ls, l)
		}
		sort.Strings(ls)
		l0 := ls[0]
		nbad++
		c.bad(rule, fname(f)+": the result does not depend on what the receiver held before the call", fmt.Sprintf("receiver%s is read (%s) at %s before it is written on every path: the method has an operand of the receiver's own type, so the receiver is a destination only; %d leaves affected", l0, s.via[l0], p.pos(s.reads[l0]), len(ls)), p.pos(s.reads[l0]))
	}
	c.count("destination_methods", n)
	if n < floor {
		c.undecided(rule, "methods of the form z.Op(x, ...)", fmt.Sprintf("%d found, fewer than the %d confirmed by hand", n, floor), "")
	} else if nbad == 0 {
		c.ok(rule, "no method of the form z.Op(x, ...) reads the previous contents of z", fmt.Sprintf("%d methods", n), "")
	}
}

func debugStale(p *Program) {
	e := newStaleEngine(p)
	for _, f := range staleCandidates(p, nil) {
		s := e.summary(f, 0)
		if s == nil || len(s.reads) == 0 {
			continue
		}
		var ls []string
		for l := range s.reads {
			ls = append(ls, l)
		}
		sort.Strings(ls)
		fmt.Fprintf(os.Stderr, "STALE %s: %d leaves, first %q %s at %s\n", fname(f), len(ls), ls[0], s.via[ls[0]], p.pos(s.reads[ls[0]]))
	}
}

func init() {
	prev := registry["C12"]
	registry["C12"] = func(c *Ctx) {
		prev(c)
		if p := c.Prog("amd64"); p != nil {
			c.Clauses = append(c.Clauses, "C12.stale: no field or scalar method of the form z.Op(x, ...) reads what the destination z held before the call (its result would depend on a stale value and be wrong when z is an operand)")
			checkStaleReceiver(c, p, "C12.stale", []string{"ecc/bls12381/ff", "math", "dh/csidh", "vdaf/prio3/arith", "sign/ed25519", "group"}, 60)
		}
	}
}

// MUSTWRITE: a (re-)initialiser assigns the listed parts of its receiver on every path to every return, so that
// nothing of an earlier use of the object survives in them.
func checkMustWrite(c *Ctx, p *Program, rule, pkg, typ, name string, leaves []string, why string) {
	f := p.Func(pkg, typ, name)
	what := fmt.Sprintf("(%s.%s).%s assigns %s on every path: %s", pkg, typ, name, strings.Join(leaves, ", "), why)
	if f == nil {
		c.undecided(rule, what, "anchor does not resolve", "")
		return
	}
	s := newStaleEngine(p).summary(f, 0)
	if s == nil {
		c.undecided(rule, what, "no summary", p.fnPos(f))
		return
	}
	var missing []string
	for _, l := range leaves {
		found, all := false, true
		for m := range leavesOfRecv(f) {
			if m == l || strings.HasPrefix(m, l+".") || strings.HasPrefix(m, l+"[") {
				found = true
				if !s.must[m] {
					all = false
				}
			}
		}
		if !found {
			c.undecided(rule, what, "the receiver has no part "+l, p.fnPos(f))
			return
		}
		if !all {
			missing = append(missing, l)
		}
	}
	if len(missing) > 0 {
		c.bad(rule, what, "a return can be reached without "+strings.Join(missing, ", ")+" having been assigned: the value an earlier use of the object left there is kept", p.fnPos(f))
		return
	}
	c.ok(rule, what, "assigned on every path to every return", p.fnPos(f))
}

func leavesOfRecv(f *ssa.Function) map[string]bool {
	out := map[string]bool{}
	if len(f.Params) == 0 {
		return out
	}
	for _, l := range leavesOf(derefType(f.Params[0].Type()), 0) {
		out[l] = true
	}
	return out
}

func init() {
	for _, prop := range []string{"C11", "C15"} {
		prop := prop
		prev := registry[prop]
		registry[prop] = func(c *Ctx) {
			prev(c)
			if p := c.Prog("amd64"); p != nil {
				c.Clauses = append(c.Clauses, prop+".reinit: (*StateX2/StateX4).Initialize assigns the round selector and the alignment offset on every path (a reused or copied state does not keep a stale offset)")
				for _, t := range []string{"StateX2", "StateX4"} {
					checkMustWrite(c, p, prop+".reinit", "simd/keccakf1600", t, "Initialize", []string{".turbo", ".offset"}, "the slice handed out is aligned for this address, whatever an earlier Initialize computed")
				}
			}
		}
	}
	for _, prop := range []string{"C07", "C11"} {
		prop := prop
		prev := registry[prop]
		registry[prop] = func(c *Ctx) {
			prev(c)
			if p := c.Prog("amd64"); p != nil {
				c.Clauses = append(c.Clauses, prop+".modeinputs: every Setup method of hpke.Sender and hpke.Receiver assigns the mode and all mode inputs (sender key, PSK, PSK id), so a reused object sets up exactly what a fresh one does")
				for _, m := range []string{"Setup", "SetupAuth", "SetupPSK", "SetupAuthPSK"} {
					checkMustWrite(c, p, prop+".modeinputs", "hpke", "Sender", m, []string{".state.modeID", ".state.skS", ".state.psk", ".state.pskID"}, "RFC 9180 SetupS takes exactly the inputs of its mode")
					checkMustWrite(c, p, prop+".modeinputs", "hpke", "Receiver", m, []string{".state.modeID", ".state.pkS", ".state.psk", ".state.pskID", ".enc"}, "RFC 9180 SetupR takes exactly the inputs of its mode")
				}
			}
		}
	}
}

func init() {
	prev := registry["C13"]
	registry["C13"] = func(c *Ctx) {
		prev(c)
		if p := c.Prog("amd64"); p != nil {
			c.Clauses = append(c.Clauses, "C13.destwrite: the group operations of the NIST-curve elements write both coordinates of the receiver on every path (no early return leaves the destination's previous value as the result)")
			for _, m := range []string{"Add", "Dbl", "Neg", "Mul", "MulGen"} {
				checkMustWrite(c, p, "C13.destwrite", "group", "wElt", m, []string{".x", ".y"}, "the receiver is the destination of the operation")
			}
		}
	}
}

func init() {
	for _, prop := range []string{"C19", "C11"} {
		prop := prop
		prev := registry[prop]
		registry[prop] = func(c *Ctx) {
			prev(c)
			if p := c.Prog("amd64"); p != nil {
				c.Clauses = append(c.Clauses, prop+".reinitshare: (*InputShare).New assigns both the leader and the helper layout on every path (an object re-initialised for another aggregator does not keep the other role's layout)")
				checkMustWrite(c, p, prop+".reinitshare", "vdaf/prio3/internal/prio3", "InputShare", "New", []string{".leader", ".helper"}, "exactly one of the two is set, by the aggregator id")
			}
		}
	}
}

// INITORDER: a function that builds a struct in a local variable does not hand it to a reader of a field that
// the function itself only assigns afterwards.
//
// `share := KeyShare{si: s, Index: i}; share.twoDeltaSi = share.get2DeltaSi(); share.Players = players` runs
// get2DeltaSi, which reads Players, while Players is still zero. Reported when a leaf of a local struct
// variable is read (directly or by a callee, per its summary) at a point where it is not certainly written,
// and a plain store to that same leaf follows later in the function.
func initOrderFindings(p *Program, e *staleEngine, f *ssa.Function) []string {
	var out []string
	for _, b := range f.Blocks {
		for _, in := range b.Instrs {
			al, ok := in.(*ssa.Alloc)
			if !ok {
				continue
			}
			if _, isStruct := derefType(al.Type()).Underlying().(*types.Struct); !isStruct {
				continue
			}
			s := e.analyse(f, al)
			if len(s.reads) == 0 {
				continue
			}
			all := leavesOf(derefType(al.Type()), 0)
			// leaves assigned by a plain store of this function
			type st struct {
				pos token.Pos
				blk *ssa.BasicBlock
			}
			stores := map[string][]st{}
			for _, bb := range f.Blocks {
				for _, in2 := range bb.Instrs {
					if sto, ok := in2.(*ssa.Store); ok {
						if path, ok := stalePath(al, sto.Addr); ok && len(path) > 0 {
							lv, wild := leavesUnder(all, path)
							if wild {
								continue
							}
							for _, l := range lv {
								stores[l] = append(stores[l], st{sto.Pos(), bb})
							}
						}
					}
				}
			}
			var ls []string
			for l := range s.reads {
				ls = append(ls, l)
			}
			sort.Strings(ls)
			for _, l := range ls {
				if s.via[l] == "load" {
					continue // a direct load of the zero value is the author's own statement
				}
				for _, w := range stores[l] {
					// the store follows the read: later in the same block, or in a block reachable from it
					after := w.blk.Index == s.rblk[l] && w.pos > s.reads[l]
					if !after && w.blk.Index != s.rblk[l] {
						seen := map[int]bool{}
						stk := []*ssa.BasicBlock{f.Blocks[s.rblk[l]]}
						for len(stk) > 0 && !after {
							x := stk[len(stk)-1]
							stk = stk[:len(stk)-1]
							for _, nx := range x.Succs {
								if nx == w.blk {
									after = true
								}
								if !seen[nx.Index] {
									seen[nx.Index] = true
									stk = append(stk, nx)
								}
							}
						}
					}
					if after {
						out = append(out, fmt.Sprintf("%s: field%s of the local %s is read (%s) at %s and assigned only afterwards, at %s", fname(f), l, short(derefType(al.Type()).String()), s.via[l], p.pos(s.reads[l]), p.pos(w.pos)))
						break
					}
				}
			}
		}
	}
	return out
}

func checkInitOrder(c *Ctx, p *Program, rule string, prefixes []string) {
	e := newStaleEngine(p)
	var fs []*ssa.Function
	for f := range p.AllFuncs {
		if f.Blocks != nil && isCirclFunc(f) && sourceFunc(f) && !strings.Contains(funcPkgPath(f), "/internal/test") && (prefixes == nil || inScope(f, prefixes)) {
			fs = append(fs, f)
		}
	}
	sort.Slice(fs, func(i, j int) bool { return fs[i].String() < fs[j].String() })
	nbad := 0
	for _, f := range fs {
		for _, m := range initOrderFindings(p, e, f) {
			nbad++
			c.bad(rule, fname(f)+": a struct built in a local variable is complete before a callee reads it", m+": the callee sees the zero value", p.fnPos(f))
		}
	}
	c.count("initorder_functions", len(fs))
	if nbad == 0 {
		c.ok(rule, "no function hands a locally built struct to a reader of a field it assigns only afterwards", fmt.Sprintf("%d functions", len(fs)), "")
	}
}

func init() {
	for prop, pres := range map[string][]string{"C17": {"tss", "secretsharing", "math/polynomial"}, "C11": nil} {
		prop, pres := prop, pres
		prev := registry[prop]
		registry[prop] = func(c *Ctx) {
			prev(c)
			if p := c.Prog("amd64"); p != nil {
				c.Clauses = append(c.Clauses, prop+".initorder: no function hands a struct it builds in a local variable to a callee that reads a field the function assigns only afterwards")
				checkInitOrder(c, p, prop+".initorder", pres)
			}
		}
	}
}

func init() {
	prev := registry["C11"]
	registry["C11"] = func(c *Ctx) {
		prev(c)
		if p := c.Prog("amd64"); p != nil {
			c.Clauses = append(c.Clauses, "C11.cachefirst: (*bls.PrivateKey).UnmarshalBinary resets the cached public key on every path, also on the refusing ones (the scalar is replaced before the key is validated)")
			checkResetBeforeWrite(c, p, "C11.cachefirst", "sign/bls", "PrivateKey", "UnmarshalBinary", "pub", "key")
		}
	}
}

// checkResetBeforeWrite: in a decoder, every instruction that may write field keyField of the receiver is
// dominated by a store to the cache field (so no exit taken after the key was touched keeps the old cache; an
// exit taken before the key is touched may keep it).
func checkResetBeforeWrite(c *Ctx, p *Program, rule, pkg, typ, name, cacheField, keyField string) {
	f := p.Func(pkg, typ, name)
	what := fmt.Sprintf("(%s.%s).%s resets %s before anything writes %s", pkg, typ, name, cacheField, keyField)
	if f == nil {
		c.undecided(rule, what, "anchor does not resolve", "")
		return
	}
	mod := p.Mod()
	idx := map[ssa.Instruction]int{}
	for _, b := range f.Blocks {
		for i, in := range b.Instrs {
			idx[in] = i
		}
	}
	var resets, writes []ssa.Instruction
	onField := func(v ssa.Value, field string) bool {
		for i := 0; i < 16; i++ {
			switch x := v.(type) {
			case *ssa.FieldAddr:
				if fieldName(x) == field {
					if base, _ := memRoot(x.X); base == ssa.Value(f.Params[0]) {
						return true
					}
				}
				v = x.X
			case *ssa.IndexAddr:
				v = x.X
			case *ssa.Slice:
				v = x.X
			default:
				return false
			}
		}
		return false
	}
	for _, b := range f.Blocks {
		for _, in := range b.Instrs {
			switch x := in.(type) {
			case *ssa.Store:
				if onField(x.Addr, cacheField) {
					resets = append(resets, in)
				}
				if onField(x.Addr, keyField) {
					writes = append(writes, in)
				}
			case ssa.CallInstruction:
				c0 := x.Common()
				var args []ssa.Value
				if c0.IsInvoke() {
					args = append(args, c0.Value)
				}
				args = append(args, c0.Args...)
				written := map[int]bool{}
				nm := p.staticCalleeName(c0)
				for _, i := range externalWrites(nm, len(args)) {
					written[i] = true
				}
				if cal := c0.StaticCallee(); cal != nil && cal.Blocks != nil {
					for _, w := range mod.of(cal) {
						var i int
						if _, err := fmt.Sscanf(w.Root, "param#%d", &i); err == nil {
							written[i] = true
						}
					}
				} else if c0.IsInvoke() && strings.Contains(nm, "Unmarshal") {
					written[0] = true // a decoder invoked through an interface writes its receiver
				}
				for i, a := range args {
					if written[i] && onField(a, keyField) {
						writes = append(writes, in)
					}
				}
			}
		}
	}
	if len(writes) == 0 {
		c.undecided(rule, what, "no write of "+keyField+" found", p.fnPos(f))
		return
	}
	var bad []string
	for _, w := range writes {
		ok := false
		for _, r := range resets {
			if r.Block() == w.Block() && idx[r] < idx[w] || r.Block() != w.Block() && r.Block().Dominates(w.Block()) {
				ok = true
			}
		}
		if !ok {
			bad = append(bad, p.pos(w.Pos()))
		}
	}
	if len(bad) > 0 {
		c.bad(rule, what, "the write of "+keyField+" at "+strings.Join(bad, ", ")+" is not preceded by a reset of "+cacheField+": an exit taken after it (a refusal) leaves the cache of the previous key in place", p.fnPos(f))
		return
	}
	c.ok(rule, what, fmt.Sprintf("%d write(s) of %s, each dominated by a reset of %s", len(writes), keyField, cacheField), p.fnPos(f))
}
