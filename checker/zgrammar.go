package main

import (
	"fmt"
	"go/constant"
	"go/token"
	"sort"
	"strings"

	"golang.org/x/tools/go/ssa"
)

// GRAMMAR: the recursive-descent parser of the policy language binds "not" tighter than "and" and "and"
// tighter than "or".
//
// The level of an operator is the Parser method that compares the current token's type with that operator's
// token constant. Binding strength is the nesting of the levels: in the call graph of the Parser's methods,
// with the edges out of the parenthesis level removed (a parenthesis restarts at the loosest level), the "or"
// level reaches the "and" level and not the other way round, the "and" level reaches the "not" level and not
// the other way round, and the entry point reaches each level only through the looser one. A wiring in
// another order parses `a or b and c` as `(a or b) and c`: attribute sets that satisfy the policy are refused
// and, under a negation, sets that do not are admitted.
func checkPolicyGrammar(c *Ctx, p *Program, rule string) {
	const pkg = "abe/cpabe/tkn20/internal/dsl"
	what := "policy parser: or < and < not < parentheses"
	sp := p.SSAPkg[circlPath+"/"+pkg]
	if sp == nil {
		c.undecided(rule, what, "package does not resolve", "")
		return
	}
	toks := map[string]constant.Value{}
	for _, n := range []string{"Or", "And", "Not", "LeftParen"} {
		v, ok := p.constOf(pkg, n)
		if !ok {
			c.undecided(rule, what, "token constant "+n+" does not resolve", "")
			return
		}
		toks[n] = v
	}
	var methods []*ssa.Function
	for f := range p.AllFuncs {
		if f.Blocks != nil && f.Pkg == sp && f.Signature.Recv() != nil && strings.Contains(f.Signature.Recv().Type().String(), "dsl.Parser") {
			methods = append(methods, f)
		}
	}
	sort.Slice(methods, func(i, j int) bool { return methods[i].Name() < methods[j].Name() })
	isM := map[*ssa.Function]bool{}
	for _, f := range methods {
		isM[f] = true
	}
	level := map[string][]*ssa.Function{}
	for _, f := range methods {
		found := map[string]bool{}
		for _, b := range f.Blocks {
			for _, in := range b.Instrs {
				bo, ok := in.(*ssa.BinOp)
				if !ok || (bo.Op != token.EQL && bo.Op != token.NEQ) {
					continue
				}
				for si, side := range []ssa.Value{bo.X, bo.Y} {
					k, ok := side.(*ssa.Const)
					if !ok || k.Value == nil {
						continue
					}
					// the other side is the type of the *current* token, tokens[curr], not of a look-ahead
					if !isCurrentTokenType([]ssa.Value{bo.Y, bo.X}[si]) {
						continue
					}
					for n, v := range toks {
						if k.Value.Kind() == v.Kind() && constant.Compare(k.Value, token.EQL, v) {
							found[n] = true
						}
					}
				}
			}
		}
		for n := range found {
			level[n] = append(level[n], f)
		}
	}
	for _, n := range []string{"Or", "And", "Not", "LeftParen"} {
		if len(level[n]) != 1 {
			var ns []string
			for _, f := range level[n] {
				ns = append(ns, f.Name())
			}
			c.undecided(rule, what, fmt.Sprintf("the level of token %s is not a single method: %v", n, ns), "")
			return
		}
	}
	orF, andF, notF, parF := level["Or"][0], level["And"][0], level["Not"][0], level["LeftParen"][0]
	edges := map[*ssa.Function][]*ssa.Function{}
	for _, f := range methods {
		if f == parF && f != notF {
			continue // a parenthesis restarts at the loosest level
		}
		for _, b := range f.Blocks {
			for _, in := range b.Instrs {
				if ci, ok := in.(ssa.CallInstruction); ok {
					if cal := ci.Common().StaticCallee(); cal != nil && isM[cal] {
						if f == parF {
							continue
						}
						edges[f] = append(edges[f], cal)
					}
				}
			}
		}
	}
	reach := func(from, to, without *ssa.Function) bool {
		seen := map[*ssa.Function]bool{from: true}
		st := []*ssa.Function{from}
		for len(st) > 0 {
			x := st[len(st)-1]
			st = st[:len(st)-1]
			for _, y := range edges[x] {
				if y == without || seen[y] {
					continue
				}
				if y == to {
					return true
				}
				seen[y] = true
				st = append(st, y)
			}
		}
		return false
	}
	entry := p.Func(pkg, "Parser", "parse")
	if entry == nil {
		c.undecided(rule, what, "entry point (*Parser).parse does not resolve", "")
		return
	}
	var bad []string
	need := func(ok bool, msg string) {
		if !ok {
			bad = append(bad, msg)
		}
	}
	need(reach(orF, andF, nil), "the operands of `or` ("+orF.Name()+") are not parsed at the `and` level ("+andF.Name()+")")
	need(!reach(andF, orF, nil), "the `and` level ("+andF.Name()+") reaches the `or` level ("+orF.Name()+") without a parenthesis: `or` binds tighter than `and`")
	need(reach(andF, notF, nil), "the operands of `and` ("+andF.Name()+") are not parsed at the `not` level ("+notF.Name()+")")
	need(!reach(notF, andF, nil) && !reach(notF, orF, nil), "the `not` level ("+notF.Name()+") reaches a binary level without a parenthesis: `not a and b` negates the conjunction")
	need(reach(entry, orF, nil), "the entry point does not reach the `or` level")
	need(!reach(entry, andF, orF), "the entry point reaches the `and` level without passing the `or` level")
	need(!reach(entry, notF, andF), "the entry point reaches the `not` level without passing the `and` level")
	if parF != notF {
		// the operand of a negation / the leaf level is where parentheses are recognised
		need(reach(notF, parF, nil), "the `not` level does not reach the parenthesis / leaf level ("+parF.Name()+")")
	}
	c.count("grammar_levels", 4)
	if len(bad) > 0 {
		c.bad(rule, what, strings.Join(bad, "; "), p.fnPos(orF))
		return
	}
	c.ok(rule, what, fmt.Sprintf("levels: or=%s, and=%s, not=%s, parentheses=%s; each reached only through the looser one", orF.Name(), andF.Name(), notF.Name(), parF.Name()), p.fnPos(orF))
}

// isCurrentTokenType: v is a load of the Type field of tokens[i] where i is itself a plain load (curr), not a sum.
func isCurrentTokenType(v ssa.Value) bool {
	ld, ok := v.(*ssa.UnOp)
	if !ok || ld.Op != token.MUL {
		return false
	}
	fa, ok := ld.X.(*ssa.FieldAddr)
	if !ok || fieldName(fa) != "Type" {
		return false
	}
	ia, ok := fa.X.(*ssa.IndexAddr)
	if !ok {
		return false
	}
	il, ok := ia.Index.(*ssa.UnOp)
	return ok && il.Op == token.MUL
}

func init() {
	prev := registry["C20"]
	registry["C20"] = func(c *Ctx) {
		prev(c)
		if p := c.Prog("amd64"); p != nil {
			c.Clauses = append(c.Clauses, "C20.grammar: the policy parser nests its operator levels as or < and < not < parentheses (call-graph order of the methods that test for each operator token)")
			checkPolicyGrammar(c, p, "C20.grammar")
		}
	}
}
