package main

import (
	"fmt"
	"go/token"
	"go/types"
	"os"
	"sort"
	"strings"

	"golang.org/x/tools/go/callgraph"
	"golang.org/x/tools/go/callgraph/cha"
	"golang.org/x/tools/go/callgraph/vta"
	"golang.org/x/tools/go/packages"
	"golang.org/x/tools/go/ssa"
	"golang.org/x/tools/go/ssa/ssautil"
)

const circlPath = "github.com/cloudflare/circl"

// Config is one build configuration of /repo.
type Config struct {
	Name   string
	GOARCH string
	Tags   string
}

var configs = map[string]Config{
	"amd64":        {Name: "amd64", GOARCH: "amd64"},
	"amd64-purego": {Name: "amd64-purego", GOARCH: "amd64", Tags: "purego"},
	"arm64":        {Name: "arm64", GOARCH: "arm64"},
	"386":          {Name: "386", GOARCH: "386"},
}

// Program is the loaded, type-checked and SSA-lowered repository.
type Program struct {
	Cfg            Config
	Repo           string
	Fset           *token.FileSet
	Pkgs           []*packages.Package // all packages incl. deps
	Circl          []*packages.Package // circl packages only
	ByPath         map[string]*packages.Package
	SSA            *ssa.Program
	SSAPkg         map[string]*ssa.Package
	AllFuncs       map[*ssa.Function]bool
	cg             *callgraph.Graph
	NFuncs         int // circl functions with bodies
	sentinels      map[*ssa.Global]bool
	dep            *depEngine
	mod            *modEngine
	exportedIfaces []*types.Interface
}

func loadProgram(repo string, cfg Config) (*Program, error) {
	env := append(os.Environ(),
		"GOFLAGS=-mod=mod", "GOPROXY=off", "GOSUMDB=off", "GOTOOLCHAIN=local",
		"GOWORK=off", "GOOS=linux", "GOARCH="+cfg.GOARCH, "CGO_ENABLED=0")
	pc := &packages.Config{
		Mode:  packages.LoadAllSyntax,
		Dir:   repo,
		Env:   env,
		Tests: false,
	}
	if cfg.Tags != "" {
		pc.BuildFlags = []string{"-tags=" + cfg.Tags}
	}
	initial, err := packages.Load(pc, "./...")
	if err != nil {
		return nil, fmt.Errorf("packages.Load: %v", err)
	}
	if len(initial) == 0 {
		return nil, fmt.Errorf("no packages loaded from %s", repo)
	}
	p := &Program{Cfg: cfg, Repo: repo, ByPath: map[string]*packages.Package{}, SSAPkg: map[string]*ssa.Package{}}
	nerr := 0
	var errs []string
	packages.Visit(initial, nil, func(pk *packages.Package) {
		p.Pkgs = append(p.Pkgs, pk)
		p.ByPath[pk.PkgPath] = pk
		for _, e := range pk.Errors {
			nerr++
			if len(errs) < 10 {
				errs = append(errs, e.Error())
			}
		}
	})
	if nerr > 0 {
		return nil, fmt.Errorf("%d load/type errors, e.g.: %s", nerr, strings.Join(errs, "; "))
	}
	for _, pk := range initial {
		if isCirclPath(pk.PkgPath) {
			p.Circl = append(p.Circl, pk)
		}
	}
	sort.Slice(p.Circl, func(i, j int) bool { return p.Circl[i].PkgPath < p.Circl[j].PkgPath })
	p.Fset = initial[0].Fset
	prog, _ := ssautil.AllPackages(initial, ssa.InstantiateGenerics)
	prog.Build()
	p.SSA = prog
	for _, sp := range prog.AllPackages() {
		p.SSAPkg[sp.Pkg.Path()] = sp
	}
	p.AllFuncs = ssautil.AllFunctions(prog)
	// ssautil.AllFunctions leaves out the bodies of generic functions and of the methods of generic types
	// that the library itself never instantiates (sign/bls is instantiated by its users only): add the
	// generic bodies, so that the rules that walk all functions see that code too
	var addFn func(f *ssa.Function)
	addFn = func(f *ssa.Function) {
		if f == nil || p.AllFuncs[f] {
			return
		}
		p.AllFuncs[f] = true
		for _, a := range f.AnonFuncs {
			addFn(a)
		}
	}
	for _, sp := range prog.AllPackages() {
		if !isCirclPath(sp.Pkg.Path()) {
			continue
		}
		for _, m := range sp.Members {
			switch x := m.(type) {
			case *ssa.Function:
				if x.TypeParams().Len() > 0 {
					addFn(x)
				}
			case *ssa.Type:
				nt, ok := x.Type().(*types.Named)
				if !ok || nt.TypeParams().Len() == 0 {
					continue
				}
				for i := 0; i < nt.NumMethods(); i++ {
					addFn(prog.FuncValue(nt.Method(i)))
				}
			}
		}
	}
	for f := range p.AllFuncs {
		if f.Blocks != nil && f.Pkg != nil && isCirclPath(f.Pkg.Pkg.Path()) {
			p.NFuncs++
		} else if f.Blocks != nil && f.Pkg == nil && f.Origin() != nil && f.Origin().Pkg != nil && isCirclPath(f.Origin().Pkg.Pkg.Path()) {
			p.NFuncs++
		}
	}
	return p, nil
}

func isCirclPath(path string) bool {
	return path == circlPath || strings.HasPrefix(path, circlPath+"/")
}

// funcPkgPath returns the package path a function belongs to (instantiations
// and synthetic wrappers are attributed to their origin / object package).
func funcPkgPath(f *ssa.Function) string {
	if f == nil {
		return ""
	}
	if f.Pkg != nil {
		return f.Pkg.Pkg.Path()
	}
	if o := f.Origin(); o != nil && o.Pkg != nil {
		return o.Pkg.Pkg.Path()
	}
	if f.Object() != nil && f.Object().Pkg() != nil {
		return f.Object().Pkg().Path()
	}
	if f.Parent() != nil {
		return funcPkgPath(f.Parent())
	}
	return ""
}

func isCirclFunc(f *ssa.Function) bool { return isCirclPath(funcPkgPath(f)) }

// CallGraph builds (once) the VTA call graph refined from CHA.
func (p *Program) CallGraph() *callgraph.Graph {
	if p.cg == nil {
		p.cg = vta.CallGraph(p.AllFuncs, cha.CallGraph(p.SSA))
	}
	return p.cg
}

// short strips the circl module prefix from a qualified name.
func short(s string) string {
	return strings.ReplaceAll(s, circlPath+"/", "")
}

// Func finds a package-level function or method. pkg is the path relative to
// the circl module ("hpke", "sign/ed25519"); recv is "" for functions or the
// bare receiver type name (method on T or *T).
func (p *Program) Func(pkg, recv, name string) *ssa.Function {
	path := circlPath
	if pkg != "" && pkg != "." {
		if strings.Contains(pkg, ".") && !strings.HasPrefix(pkg, "internal") { // external module path
			path = pkg
		} else {
			path = circlPath + "/" + pkg
		}
	}
	sp := p.SSAPkg[path]
	if sp == nil {
		return nil
	}
	if recv == "" {
		return sp.Func(name)
	}
	tn, ok := sp.Pkg.Scope().Lookup(recv).(*types.TypeName)
	if !ok {
		return nil
	}
	named, ok := tn.Type().(*types.Named)
	if !ok {
		return nil
	}
	for i := 0; i < named.NumMethods(); i++ {
		m := named.Method(i)
		if m.Name() == name {
			return p.SSA.FuncValue(m.Origin())
		}
	}
	return nil
}

// pos renders a position relative to the repo root.
func (p *Program) pos(ps token.Pos) string {
	if !ps.IsValid() {
		return "?"
	}
	q := p.Fset.Position(ps)
	f := strings.TrimPrefix(q.Filename, p.Repo+"/")
	return fmt.Sprintf("%s:%d", f, q.Line)
}

func (p *Program) fnPos(f *ssa.Function) string {
	if f == nil {
		return "?"
	}
	if f.Pos().IsValid() {
		return p.pos(f.Pos())
	}
	if f.Syntax() != nil {
		return p.pos(f.Syntax().Pos())
	}
	return "?"
}

func fname(f *ssa.Function) string {
	if f == nil {
		return "<nil>"
	}
	return short(f.String())
}
