package main

import (
	"fmt"
	"os"
	"strings"

	"golang.org/x/tools/go/ssa"
)

// debugGuard: circlcheck -property DEBUG with env DBG="pkg|recv|name|assume1,assume2|failkind|bigarg"
func init() {
	registry["DEBUG"] = func(c *Ctx) {
		p := c.Prog("amd64")
		parts := strings.Split(os.Getenv("DBG"), "|")
		f := p.Func(parts[0], parts[1], parts[2])
		if f == nil {
			fmt.Println("function not found")
			return
		}
		if os.Getenv("DBGCALLS") != "" {
			for _, b := range f.Blocks {
				for _, in := range b.Instrs {
					if ci, ok := in.(ssa.CallInstruction); ok {
						fmt.Printf("  call %s: %q", p.pos(ci.Pos()), p.staticCalleeName(ci.Common()))
						if ci.Common().StaticCallee() == nil {
							for _, cal := range p.dynamicCallees(f, ci) {
								fmt.Printf(" -> %q", short(cal.String()))
							}
						}
						fmt.Println()
					}
				}
			}
		}
		if d := os.Getenv("DBGDESC"); d != "" {
			for _, cs := range p.callSites(f, strings.Split(d, ",")...) {
				c0 := cs.Common()
				var args []ssa.Value
				if c0.IsInvoke() {
					args = append(args, c0.Value)
				}
				args = append(args, c0.Args...)
				fmt.Printf("  %s %s\n", p.pos(cs.Pos()), p.staticCalleeName(c0))
				for i, a := range args {
					fmt.Printf("      arg%d = %s\n", i, descVal(a))
				}
			}
			for _, b := range f.Blocks {
				for _, in := range b.Instrs {
					if r, ok := in.(*ssa.Return); ok {
						for i, v := range r.Results {
							fmt.Printf("  return[%d] = %s\n", i, descVal(v))
						}
					}
				}
			}
		}
		if os.Getenv("DBGBIN") != "" {
			for _, b := range f.Blocks {
				for _, in := range b.Instrs {
					if bo, ok := in.(*ssa.BinOp); ok && isCmp(bo.Op) {
						fmt.Printf("  cmp %s: %s %s %s\n", p.pos(bo.Pos()), descVal(bo.X), bo.Op, descVal(bo.Y))
					}
				}
			}
		}
		var as []Assume
		if len(parts) > 3 && parts[3] != "" {
			v := latFalse
			if len(parts) > 4 {
				switch parts[4] {
				case "nonnil":
					v = latNonNil
				case "zero":
					v = latInt(0)
				case "nil":
					v = latNil
				}
			}
			idx := -1
			if len(parts) > 5 && parts[5] != "" {
				fmt.Sscanf(parts[5], "%d", &idx)
			}
			as = append(as, calleeAssume(v, idx, strings.Split(parts[3], ",")...))
		}
		q := &GuardQuery{P: p, Root: f, Assumes: as}
		if len(parts) > 6 && parts[6] != "" {
			var bi int
			fmt.Sscanf(parts[6], "%d", &bi)
			q.Args = make([]lat, len(f.Params))
			for i := range q.Args {
				q.Args[i] = latTop
			}
			q.Args[bi] = latBigSlice
		}
		r := runGuard(q)
		fmt.Printf("function %s: %d contexts\n", fname(f), r.Visited)
		for _, ri := range r.Returns {
			fmt.Printf("  return at %s: %v\n", p.pos(ri.Instr.Pos()), ri.Vals)
		}
		for k, v := range r.Sites {
			fmt.Printf("  sites %s: %v\n", k, v)
		}
		c.ok("DEBUG", "x", "", "")
	}
}
