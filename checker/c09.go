package main

import (
	"fmt"
	"go/constant"
	"go/token"
	"strings"

	"golang.org/x/tools/go/ssa"
)

func init() { registry["C09"] = checkC09 }

// andConst matches `x & k` for the given constant inside fn (nil = any function).
func andConst(fn *ssa.Function, k int64) func(v ssa.Value, in *ssa.Function) bool {
	return func(v ssa.Value, in *ssa.Function) bool {
		if fn != nil && in != fn {
			return false
		}
		b, ok := v.(*ssa.BinOp)
		if !ok || b.Op != token.AND {
			return false
		}
		for _, o := range []ssa.Value{b.X, b.Y} {
			if c, ok := o.(*ssa.Const); ok && c.Value != nil {
				if n, ok := constant.Int64Val(c.Value); ok && n == k {
					return true
				}
			}
		}
		return false
	}
}

// cmpWithGlobal: the comparison of a value with the named package-level variable is assumed to
// find them equal (== yields true, != yields false).
func cmpWithGlobal(fn *ssa.Function, global string) []BinAssume {
	mk := func(op token.Token, val lat) BinAssume {
		return BinAssume{Name: "compare with " + global, Match: func(b *ssa.BinOp, in *ssa.Function) bool {
			if in != fn || b.Op != op {
				return false
			}
			for _, o := range []ssa.Value{b.X, b.Y} {
				if u, ok := o.(*ssa.UnOp); ok && u.Op == token.MUL {
					if g, ok := u.X.(*ssa.Global); ok && g.Name() == global {
						return true
					}
				}
			}
			return false
		}, Val: val}
	}
	return []BinAssume{mk(token.EQL, latTrue), mk(token.NEQ, latFalse)}
}

func checkC09(c *Ctx) {
	p := c.Prog("amd64")
	if p == nil {
		return
	}
	c.Clauses = append(c.Clauses,
		"C09.guard: for each decoder of an untrusted group element, acceptance is impossible when the coordinate range check, the curve equation / square-root test, the subgroup test, the flag-prefix rules, the infinity-payload rules or the underlying decoder fails",
		"C09.len: decoders reject over-long and empty input (exact encoded length)",
		"C09.membership: IsOnG1/IsOnG2 require projective validity, the curve equation and r-torsion; BLS key validation requires non-identity and subgroup membership",
		"C09.noreduce: FourQ coordinates equal to the modulus are rejected, not reduced")
	c.NotDec = append(c.NotDec, "that the curve / r-torsion predicates are mathematically right (C13)", "encode(decode(b)) == b beyond length, flag and range rules", "that library-produced encodings are always accepted")

	// ---- BLS12-381 ----
	for _, g := range []struct{ T, on, fp string }{{"G1", "IsOnG1", "Fp"}, {"G2", "IsOnG2", "Fp2"}} {
		sb := p.Func("ecc/bls12381", g.T, "SetBytes")
		recv := "(*ecc/bls12381." + g.T + ")."
		flag := func(name string, shift string, val int64) ValAssume {
			return ValAssume{Name: name, Val: latInt(val), Match: func(v ssa.Value, in *ssa.Function) bool {
				if in != sb {
					return false
				}
				cv, ok := v.(*ssa.Convert)
				return ok && strings.Contains(descVal(cv.X), ">>"+shift+")&1)")
			}}
		}
		notInf := flag("infinity flag = 0", "6", 0)
		c.guard(p, "C09.guard", "every finite decoded point must be on the curve and in the r-torsion subgroup", sb,
			GuardSpec{ValAssumes: []ValAssume{notInf}, Assumes: []Assume{calleeAssume(latFalse, -1, recv+g.on)}})
		c.guard(p, "C09.guard", "coordinates must decode (canonical, < p)", sb,
			GuardSpec{ValAssumes: []ValAssume{notInf}, Assumes: []Assume{calleeAssume(latNonNil, -1, "(*ecc/bls12381/ff."+g.fp+").UnmarshalBinary")}})
		c.guardEachSite(p, "C09.guard", "each coordinate must decode (canonical, < p)", sb, -1, latNonNil, "(*ecc/bls12381/ff."+g.fp+").UnmarshalBinary")
		c.guard(p, "C09.guard", "x^3+b must be a square for compressed input", sb,
			GuardSpec{ValAssumes: []ValAssume{notInf, flag("compression flag = 1", "7", 1)}, Assumes: []Assume{calleeAssume(latInt(0), -1, "(*ecc/bls12381/ff."+g.fp+").Sqrt")}})
		for _, pre := range []int64{0x20, 0x60, 0xE0} {
			c.guard(p, "C09.guard", "flag prefix "+hex2(pre)+" rejected", sb, GuardSpec{ValAssumes: []ValAssume{{Name: "b[0] & 0xE0", Match: andConst(sb, 0xE0), Val: latInt(pre)}}})
		}
		inf := flag("infinity flag = 1", "6", 1)
		c.guard(p, "C09.guard", "infinity with non-zero payload rejected", sb, GuardSpec{ValAssumes: []ValAssume{inf}, Assumes: []Assume{calleeAssume(latInt(0), -1, "crypto/subtle.ConstantTimeCompare")}})
		c.guard(p, "C09.guard", "infinity with stray flag bits rejected", sb, GuardSpec{ValAssumes: []ValAssume{inf, {Name: "b[0] & 0x1F", Match: andConst(sb, 0x1F), Val: latInt(1)}}})
		c.lenReject(p, "C09.len", sb, "b", true)
		on := p.Func("ecc/bls12381", g.T, g.on)
		for _, part := range []string{"isValidProjective", "isOnCurve", "isRTorsion"} {
			c.guard(p, "C09.membership", g.on+" requires "+part, on, GuardSpec{Assumes: []Assume{calleeAssume(latFalse, -1, recv+part)}})
		}
		c.guard(p, "C09.membership", "isRTorsion is decided by an identity/equality test", p.Func("ecc/bls12381", g.T, "isRTorsion"), GuardSpec{Assumes: []Assume{calleeAssume(latFalse, -1, recv+"IsIdentity", recv+"IsEqual")}})
		c.guard(p, "C09.membership", "isOnCurve is decided by a zero test of the curve equation", p.Func("ecc/bls12381", g.T, "isOnCurve"), GuardSpec{Assumes: []Assume{calleeAssume(latInt(0), -1, "(*ecc/bls12381/ff."+g.fp+").IsZero", "(ecc/bls12381/ff."+g.fp+").IsZero")}})
	}
	for _, t := range []string{"Fp", "Scalar"} {
		f := p.Func("ecc/bls12381/ff", t, "UnmarshalBinary")
		c.guard(p, "C09.guard", "value >= modulus rejected", f, GuardSpec{Assumes: []Assume{calleeAssume(latNonNil, 1, "ecc/bls12381/ff.setBytesBounded")}})
	}
	c.guard(p, "C09.guard", "bounded decoding fails unless value < order", p.Func("ecc/bls12381/ff", "", "setBytesBounded"), GuardSpec{Assumes: []Assume{calleeAssume(latInt(0), -1, "ecc/bls12381/ff.isLessThan")}})
	c.depRule(p, "C09.guard", "the error of both Fp components reaches the result", p.Func("ecc/bls12381/ff", "Fp2", "UnmarshalBinary"), sinkResult(), "call:(*ecc/bls12381/ff.Fp).UnmarshalBinary", "call:ecc/bls12381/ff.errFirst")

	// BLS keys
	c.guard(p, "C09.guard", "public key decodes only through the group decoder", p.Func("sign/bls", "PublicKey", "UnmarshalBinary"),
		GuardSpec{Assumes: []Assume{calleeAssume(latNonNil, -1, "(*ecc/bls12381.G1).SetBytes", "(*ecc/bls12381.G2).SetBytes")}})
	c.lenReject(p, "C09.len", p.Func("sign/bls", "PublicKey", "UnmarshalBinary"), "data", true)
	skU := p.Func("sign/bls", "PrivateKey", "UnmarshalBinary")
	c.guard(p, "C09.guard", "private key scalar must decode", skU, GuardSpec{Assumes: []Assume{calleeAssume(latNonNil, -1, "(*ecc/bls12381/ff.Scalar).UnmarshalBinary")}})
	c.guard(p, "C09.guard", "private key must validate (non-zero)", skU, GuardSpec{Assumes: []Assume{calleeAssume(latFalse, -1, "(*sign/bls.PrivateKey).Validate")}})

	// ---- Edwards decoders (shared with C05) ----
	type dec struct {
		f              *ssa.Function
		name, lt, fpkg string
	}
	d25 := dec{p.Func("sign/ed25519", "pointR1", "FromBytes"), "(*sign/ed25519.pointR1).FromBytes", "sign/ed25519.isLessThan", "math/fp25519"}
	d448 := dec{p.Func("ecc/goldilocks", "", "FromBytes"), "ecc/goldilocks.FromBytes", "ecc/goldilocks.isLessThan", "math/fp448"}
	for _, d := range []dec{d25, d448} {
		c.guard(p, "C09.guard", "y >= p rejected", d.f, GuardSpec{Assumes: []Assume{calleeAssume(latFalse, -1, d.lt)}})
		c.guard(p, "C09.guard", "non-residue rejected", d.f, GuardSpec{Assumes: []Assume{calleeAssume(latFalse, -1, d.fpkg+".InvSqrt")}})
		c.guard(p, "C09.guard", "x = 0 with sign bit set rejected", d.f, GuardSpec{
			Assumes:    []Assume{calleeAssume(latTrue, -1, d.fpkg+".IsZero")},
			ValAssumes: []ValAssume{{Name: "sign bit (>>7)", Match: signBitVal(d.name), Val: latInt(1)}}})
	}
	c.lenReject(p, "C09.len", d448.f, "in", true)
	c.guard(p, "C09.guard", "Ed448 junk in the low 7 bits of the last byte rejected", d448.f,
		GuardSpec{ValAssumes: []ValAssume{{Name: "byte & 0x7f", Val: latInt(1), Match: andConst(d448.f, 0x7f)}}})
	c.guard(p, "C09.guard", "Point.UnmarshalBinary succeeds only through FromBytes", p.Func("ecc/goldilocks", "Point", "UnmarshalBinary"),
		GuardSpec{Assumes: []Assume{calleeAssume(latNonNil, 1, "ecc/goldilocks.FromBytes")}})

	// ---- BLS12-381: the payload of an encoded point at infinity is zero over the whole encoding of its
	// form (48 / 96 bytes for G1, 96 / 192 for G2): the comparison covers b[1:l] with l chosen by the form
	for _, g := range []struct {
		t    string
		c, u int
	}{{"G1", 48, 96}, {"G2", 96, 192}} {
		c.callArgRule(p, "C09.guard", "the zero test of an infinity encoding covers the whole compressed or uncompressed length", p.Func("ecc/bls12381", g.t, "SetBytes"),
			"crypto/subtle.ConstantTimeCompare", "", map[int]string{0: fmt.Sprintf(`param#1\[1:phi\((%d\|%d|%d\|%d)\)\]`, g.c, g.u, g.u, g.c)})
	}
	// ---- P-384 (optimised back-end): membership is the curve equation and nothing else: (0,0), the
	// representation of the identity used by Add / ScalarMult, is not an encodable point
	if f := p.Func("ecc/p384", "curve", "IsOnCurve"); f != nil {
		c.guard(p, "C09.membership", "IsOnCurve accepts only when y^2 = x^3 - 3x + b holds", f, GuardSpec{BinAssumes: []BinAssume{
			binDesc(f, "y^2 == x^3 - 3x + b", `local:ecc/p384\.fp384 == local:ecc/p384\.fp384`, latFalse)}})
		// as crypto/elliptic (the portable back-end) does: a coordinate that is negative or not below p is not
		// the coordinate of a point - it must not be reduced into one
		c.guard(p, "C09.noreduce", "a coordinate not below the field modulus is refused (not reduced)", f, GuardSpec{Assumes: []Assume{calleeAssume(latInt(1), -1, "(*math/big.Int).Cmp")}})
		c.guard(p, "C09.noreduce", "a coordinate equal to the field modulus is refused (not reduced)", f, GuardSpec{Assumes: []Assume{calleeAssume(latInt(0), -1, "(*math/big.Int).Cmp")}})
	} else {
		c.ok("C09.membership", "ecc/p384 optimised IsOnCurve", "not part of this build configuration", "")
	}
	// ---- FourQ ----
	fpFrom := p.Func("ecc/fourq", "Fp", "fromBytes")
	c.guard(p, "C09.noreduce", "coordinate equal to the modulus 2^127-1 rejected (not reduced to 0)", fpFrom,
		GuardSpec{BinAssumes: cmpWithGlobal(fpFrom, "modulusP")})
	c.guard(p, "C09.guard", "coordinate with bit 127 set rejected", fpFrom, GuardSpec{ValAssumes: []ValAssume{{Name: "top bit (>>7)", Match: signBitVal("(*ecc/fourq.Fp).fromBytes"), Val: latInt(1)}}})
	c.guardEachSite(p, "C09.guard", "both Fp components must decode", p.Func("ecc/fourq", "Fq", "fromBytes"), -1, latFalse, "(*ecc/fourq.Fp).fromBytes")
	un := p.Func("ecc/fourq", "Point", "Unmarshal")
	// the two points with x = 0 have one encoding each (sign bit clear), as for the other Edwards decoders
	c.guard(p, "C09.guard", "x = 0 with sign bit set rejected", un, GuardSpec{
		// (only the test made by the decoder itself: the curve-equation predicate uses isZero too)
		Assumes: []Assume{{Name: "x.isZero() in Unmarshal", Result: -1, Val: latTrue, Match: func(_ ssa.CallInstruction, callee string, in *ssa.Function) bool {
			return callee == "(*ecc/fourq.Fq).isZero" && in != nil && fname(in) == "(*ecc/fourq.Point).Unmarshal"
		}}},
		ValAssumes: []ValAssume{{Name: "sign bit (>>7)", Match: signBitVal("(*ecc/fourq.Point).Unmarshal"), Val: latInt(1)}}})
	// only the bits that carry something else may be cleared before the coordinates are parsed
	c.maskRule(p, "C09.mask", "only the sign bit of x (bit 7 of the last byte) is cleared before parsing", un, "[31]&=0x7F")
	c.maskRule(p, "C09.mask", "only the sign bit of x is cleared before parsing", p.Func("sign/ed25519", "pointR1", "FromBytes"), "[31]&=0x7F")
	c.maskRule(p, "C09.mask", "no input bit is cleared before parsing (the last byte is tested, not masked)", p.Func("ecc/goldilocks", "", "FromBytes"))
	c.maskRule(p, "C09.mask", "only the three flag bits are cleared before parsing", p.Func("ecc/bls12381", "G1", "SetBytes"), "[0]&=0x1F")
	c.maskRule(p, "C09.mask", "only the three flag bits are cleared before parsing", p.Func("ecc/bls12381", "G2", "SetBytes"), "[0]&=0x1F")
	c.guard(p, "C09.guard", "y coordinate must decode", un, GuardSpec{Assumes: []Assume{calleeAssume(latFalse, -1, "(*ecc/fourq.Fq).fromBytes")}})
	c.guard(p, "C09.guard", "decoded point must be on the curve", un, GuardSpec{Assumes: []Assume{calleeAssume(latFalse, -1, "(*ecc/fourq.Point).IsOnCurve")}})
	sh := p.Func("dh/curve4q", "", "Shared")
	c.guard(p, "C09.guard", "FourQ DH: peer point must decode", sh, GuardSpec{Assumes: []Assume{calleeAssume(latFalse, -1, "(*ecc/fourq.Point).Unmarshal")}})
	c.guard(p, "C09.guard", "FourQ DH: identity result rejected", sh, GuardSpec{Assumes: []Assume{calleeAssume(latTrue, -1, "(*ecc/fourq.Point).IsIdentity")}})
	c.guard(p, "C09.guard", "FourQ DH: result must be on the curve", sh, GuardSpec{Assumes: []Assume{calleeAssume(latFalse, -1, "(*ecc/fourq.Point).IsOnCurve")}})

	// ---- group package ----
	// NIST-curve scalars: a value not below the group order is a second encoding of its residue
	ws := p.Func("group", "wScl", "UnmarshalBinary")
	c.guard(p, "C09.guard", "a scalar not below the group order is rejected", ws, GuardSpec{Assumes: []Assume{calleeAssume(latInt(1), -1, "(*math/big.Int).Cmp")}})
	c.guard(p, "C09.guard", "a scalar equal to the group order is rejected", ws, GuardSpec{Assumes: []Assume{calleeAssume(latInt(0), -1, "(*math/big.Int).Cmp")}})
	we := p.Func("group", "wElt", "UnmarshalBinary")
	c.guardEachSite(p, "C09.guard", "NIST-curve element must decode (on curve, canonical) via crypto/elliptic", we, 0, latNil, "crypto/elliptic.Unmarshal", "crypto/elliptic.UnmarshalCompressed")
	// each of the two point formats has its own membership test: the standard decoder of that format, or an
	// explicit IsOnCurve call (a hand-written decompression without one yields off-curve values)
	if we != nil {
		onCurve := []string{"invoke (crypto/elliptic.Curve).IsOnCurve", "(*crypto/elliptic.CurveParams).IsOnCurve"}
		for _, fm := range [][2]string{{"compressed", "crypto/elliptic.UnmarshalCompressed"}, {"uncompressed", "crypto/elliptic.Unmarshal"}} {
			what := "the " + fm[0] + " format is decoded by " + fm[1] + " or followed by an on-curve test"
			if len(p.callSites(we, fm[1])) > 0 {
				c.guardEachSite(p, "C09.guard", what, we, 0, latNil, fm[1])
			} else if len(p.callSites(we, onCurve...)) > 0 {
				c.guardEachSite(p, "C09.guard", what, we, -1, latFalse, onCurve...)
			} else {
				c.bad("C09.guard", fname(we)+": "+what, "neither "+fm[1]+" nor an IsOnCurve call is made in the decoder", p.fnPos(we))
			}
		}
	}
	c.lenReject(p, "C09.len", we, "b", false)
	c.guard(p, "C09.guard", "ristretto255 element decodes only through go-ristretto (canonical, in group)", p.Func("group", "ristrettoElement", "UnmarshalBinary"),
		GuardSpec{Assumes: []Assume{calleeAssume(latFalse, -1, "(*github.com/bwesterb/go-ristretto.Point).SetBytes")}})
	c.lenReject(p, "C09.len", p.Func("group", "ristrettoElement", "UnmarshalBinary"), "data", true)
	// ristretto255 scalars: go-ristretto's decoder masks the top bits and reduces; only a comparison of the
	// re-encoding (or of the value with the order) makes the encoding unique
	c.guard(p, "C09.guard", "a ristretto255 scalar encoding that is not the canonical one is rejected", p.Func("group", "ristrettoScalar", "UnmarshalBinary"),
		GuardSpec{Assumes: []Assume{calleeAssume(latFalse, -1, "bytes.Equal", "crypto/subtle.ConstantTimeCompare", "(*math/big.Int).Cmp")}})
	c.guard(p, "C09.guard", "OPRF public key decodes only through the group decoder", p.Func("oprf", "PublicKey", "UnmarshalBinary"),
		GuardSpec{Assumes: []Assume{calleeAssume(latNonNil, -1, "invoke (encoding.BinaryUnmarshaler).UnmarshalBinary")}})

	// ---- ML-KEM encapsulation keys ----
	for _, n := range []string{"512", "768", "1024"} {
		ip := "pke/kyber/kyber" + n + "/internal"
		c.guard(p, "C09.guard", "ML-KEM encapsulation key with unreduced coefficients rejected (re-encode and compare)", p.Func(ip, "PublicKey", "UnpackMLKEM"),
			GuardSpec{Assumes: []Assume{calleeAssume(latFalse, -1, "bytes.Equal")}})
		kp := "kem/mlkem/mlkem" + n
		c.guard(p, "C09.guard", "ML-KEM public key parsing succeeds only through the modulus check", p.Func(kp, "scheme", "UnmarshalBinaryPublicKey"),
			GuardSpec{Assumes: []Assume{calleeAssume(latNonNil, -1, "(*"+ip+".PublicKey).UnpackMLKEM")}})
		c.lenReject(p, "C09.len", p.Func(kp, "scheme", "UnmarshalBinaryPublicKey"), "buf", true)
	}

	// ---- tkn matrices of group elements ----
	for _, t := range []string{"matrixG1", "matrixG2"} {
		f := p.Func("abe/cpabe/tkn20/internal/tkn", t, "unmarshalBinary")
		// the slots have the uncompressed size; the group decoder reads only half of a slot that holds a
		// compressed point and ignores the rest, so such an entry has to be refused here
		{
			what := "a matrix entry in compressed form (half of its slot unread) is rejected"
			isFlag := func(v ssa.Value, in *ssa.Function) bool {
				b, ok := v.(*ssa.BinOp)
				if !ok || in != f || b.Op != token.AND {
					return false
				}
				k, ok := b.Y.(*ssa.Const)
				return ok && k.Value != nil && k.Value.ExactString() == "128"
			}
			var site ssa.Instruction
			if f != nil {
				for _, b := range f.Blocks {
					for _, in := range b.Instrs {
						if v, ok := in.(ssa.Value); ok && isFlag(v, f) {
							site = in
						}
					}
				}
			}
			if f != nil && site == nil {
				c.bad("C09.guard", fname(f)+": "+what, "the compression flag of an entry (first byte & 0x80) is never examined", p.fnPos(f))
			} else {
				// (an empty matrix is accepted without any entry being looked at: only paths through the test count)
				c.guard(p, "C09.guard", what, f, GuardSpec{Through: site, ValAssumes: []ValAssume{{Name: "compression flag of the entry (byte & 0x80)", Val: latInt(128), Match: isFlag}}})
				// ... of every entry: the test is made in each iteration of the decoding loop (hoisted out of
				// the loop it would look at the first entry only)
				c.loopPassesThrough(p, "C09.guard", "the compression flag is examined for every entry", f, nil, "byte & 0x80", func(in ssa.Instruction) bool {
					v, ok := in.(ssa.Value)
					return ok && isFlag(v, f)
				})
			}
		}
		c.guardEachSite(p, "C09.guard", "every matrix entry must decode as a group element", f, -1, latNonNil, "(*ecc/bls12381.G1).SetBytes", "(*ecc/bls12381.G2).SetBytes")
	}
}

func hex2(n int64) string {
	const d = "0123456789abcdef"
	return "0x" + string([]byte{d[(n>>4)&15], d[n&15]})
}
