package main

import (
	"bufio"
	"fmt"
	"go/ast"
	"go/constant"
	"go/token"
	"go/types"
	"os"
	"os/exec"
	"path/filepath"
	"regexp"
	"sort"
	"strings"

	"golang.org/x/tools/go/ssa"
)

func init() { registry["C10"] = checkC10 }

var constLenCond = regexp.MustCompile(`^\(?len\(param#\d+\)\s*(!=|<|>|<=|>=|==)\s*\d+\)?$`)

var decoderName = regexp.MustCompile(`^(Unmarshal|SetBytes|FromBytes|FromString|Import|Unpack|Parse|Decode|Verify|Decapsulate|AuthDecapsulate|Open|Decrypt|Setup|Finalize|ExtractFromCiphertext|CouldDecrypt|Recover|CombineSignShares|BlindSign|PrepInit|PrepNext|PrepSharesToPrep|Unshard|Evaluate|FullEvaluate|VerifyFinalize|Round\d|Run|SchemeByOid)`)

func untrustedParam(t types.Type) bool {
	switch u := t.Underlying().(type) {
	case *types.Slice:
		if b, ok := u.Elem().Underlying().(*types.Basic); ok && b.Kind() == types.Uint8 {
			return true
		}
		// slices of byte slices ([][]byte)
		if s, ok := u.Elem().Underlying().(*types.Slice); ok {
			if b, ok := s.Elem().Underlying().(*types.Basic); ok && b.Kind() == types.Uint8 {
				return true
			}
		}
	case *types.Basic:
		return u.Kind() == types.String
	}
	return false
}

func canFail(sig *types.Signature) bool {
	for i := 0; i < sig.Results().Len(); i++ {
		t := sig.Results().At(i).Type()
		if isErrorType(t) {
			return true
		}
		if b, ok := t.Underlying().(*types.Basic); ok && b.Kind() == types.Bool {
			return true
		}
	}
	return false
}

// decoders enumerates the decoding entry points: exported functions/methods of non-internal circl
// packages (or exported methods of internal types reachable through type aliases) with an untrusted
// byte/string parameter and a way to report failure, whose name is in the decoding class.
func (p *Program) decoders() []*ssa.Function {
	var out []*ssa.Function
	for f := range p.AllFuncs {
		if f.Blocks == nil || !isCirclFunc(f) || f.Object() == nil || !f.Object().Exported() || f.Synthetic != "" || f.Parent() != nil {
			continue
		}
		if f.Origin() != nil && f.Origin() != f {
			continue // instantiations: the generic body is analysed
		}
		pp := funcPkgPath(f)
		if strings.Contains(pp, "/internal") || strings.HasSuffix(pp, "/asm") || strings.Contains(pp, "/templates") {
			continue
		}
		if !decoderName.MatchString(f.Name()) || !canFail(f.Signature) {
			continue
		}
		if !p.publiclyCallable(f) {
			continue
		}
		has := false
		for _, par := range f.Params {
			if untrustedParam(par.Type()) {
				has = true
			}
		}
		if !has {
			continue
		}
		out = append(out, f)
	}
	sort.Slice(out, func(i, j int) bool { return out[i].String() < out[j].String() })
	return out
}

type bceSite struct {
	file      string
	line, col int
	kind      string
}

// gcUnproven runs the Go compiler's prove pass over the repository and returns the positions
// (file relative to the repo root) of the bounds checks it could not eliminate.
func gcUnproven(repo string, cfg Config) (map[string]bool, int, error) {
	cache, err := os.MkdirTemp("", "circlverif-gocache-")
	if err != nil {
		return nil, 0, err
	}
	defer os.RemoveAll(cache)
	args := []string{"build", "-gcflags=all=-d=ssa/check_bce/debug=1"}
	if cfg.Tags != "" {
		args = append(args, "-tags="+cfg.Tags)
	}
	args = append(args, "./...")
	cmd := exec.Command("go", args...)
	cmd.Dir = repo
	cmd.Env = append(os.Environ(), "GOFLAGS=-mod=mod", "GOPROXY=off", "GOSUMDB=off", "GOTOOLCHAIN=local", "GOWORK=off", "GOOS=linux", "GOARCH="+cfg.GOARCH, "CGO_ENABLED=0", "GOCACHE="+cache)
	outb, err := cmd.CombinedOutput()
	if err != nil && !strings.Contains(string(outb), "Found Is") {
		return nil, 0, fmt.Errorf("go build for the bounds-check report failed: %v: %s", err, abbrev(string(outb)))
	}
	sites := map[string]bool{}
	n := 0
	sc := bufio.NewScanner(strings.NewReader(string(outb)))
	sc.Buffer(make([]byte, 1<<20), 1<<24)
	re := regexp.MustCompile(`^(\S+\.go):(\d+):(\d+): Found Is(Slice)?InBounds`)
	for sc.Scan() {
		m := re.FindStringSubmatch(sc.Text())
		if m == nil {
			continue
		}
		file := m[1]
		if filepath.IsAbs(file) {
			if !strings.HasPrefix(file, repo+"/") {
				continue
			}
			file = strings.TrimPrefix(file, repo+"/")
		}
		file = strings.TrimPrefix(file, "./")
		sites[fmt.Sprintf("%s:%s:%s", file, m[2], m[3])] = true
		n++
	}
	return sites, n, nil
}

func (p *Program) posKey(ps token.Pos) string {
	q := p.Fset.Position(ps)
	return fmt.Sprintf("%s:%d:%d", strings.TrimPrefix(q.Filename, p.Repo+"/"), q.Line, q.Column)
}

// c10Exception: an operation the LEN prover cannot decide, discharged by a hand proof. Keyed by
// function and operand descriptor (never by line); the reason is reported with the obligation.
type c10Exception struct {
	fn, op string // exact function name; substring of the operation descriptor ("" = any)
	reason string
}

var c10Exceptions = []c10Exception{
	// cipher/ascon: blockSize() ∈ {8,16} (checked: C10.lemma ascon.blockSize); the loops advance both
	// buffers by blockSize and read 8-byte words at offsets 0 (and 8) below blockSize.
	{"(*cipher/ascon.Cipher).Open", "sliceForAppend#1[:", "out is the tail sliceForAppend(dst, ptLen) returns, which has exactly ptLen bytes (head[len(in):] of a slice of len(in)+ptLen)"},
	{"(*cipher/ascon.Cipher).assocData", "", "len(add) ≥ blockSize ∈ {8,16} in the block loop and i ∈ {0,8} < blockSize, so add[i:i+8] is in range; after the loops len(add) < 16, so s[len(add)/8] indexes s[0..1] of [5]uint64"},
	{"(*cipher/ascon.Cipher).procText", "", "in and out have the same length at both call sites (Seal: out[:len(plaintext)]; Open: ciphertext[:ptLen] and out[:ptLen]) and advance together by blockSize ∈ {8,16}; word offsets i ∈ {0,8} < blockSize; the tail has < 16 bytes so s[len(in)/8] indexes s[0..1]"},
	{"cipher/ascon.sliceForAppend", "", "n ≥ 0 at both call sites (len(plaintext)+TagSize; len(ciphertext)-TagSize after the len(ciphertext) < TagSize rejection); in[:total] is guarded by cap(in) ≥ total and slicing up to the capacity is legal"},
	// dh/sidh (deprecated): the lengths are fields of the parameter table (checked: C10.lemma sidh.params:
	// PublicKeySize = 3·SharedSecretSize, SharedSecretSize = 2·Bytelen, CiphertextSize = PublicKeySize + MsgLen).
	{"(*dh/sidh.PublicKey).Import", "", "len(input) == params.PublicKeySize == 3·SharedSecretSize is checked first (error otherwise)"},
	{"(*dh/sidh.PrivateKey).Import", "", "len(input) == prv.Size() == len(prv.Scalar) + MsgLen == len(prv.Scalar) + len(prv.S) is checked first (NewPrivateKey allocates S with MsgLen bytes for the SIKE variant, and no S otherwise)"},
	{"dh/sidh/internal/common.BytesToFp2", "", "bytelen is params.Bytelen > 0 at every call site; len(input) ≥ 2·bytelen is checked (documented panic) and the callers pass SharedSecretSize = 2·Bytelen bytes"},
	{"(*dh/sidh.KEM).Decapsulate", "", "documented: panics unless len(ciphertext) == CiphertextSize(); c1Len = CiphertextSize - PublicKeySize = MsgLen ≤ MaxMsgBsz = 40"},
	{"(*dh/sidh.KEM).decrypt", "", "called by Decapsulate only, after its len(ciphertext) == CiphertextSize check; pkLen + i < pkLen + c1Len = len(ctext)"},
}

// c10ErrDropExceptions: callees on input-derived data whose error may be ignored.
var c10ErrDropExceptions = map[string]string{}

var c10PanicExceptions = []c10Exception{
	{"(*cipher/ascon.Cipher).Open", "len(param#2)!=16", "crypto/cipher.AEAD contract: the nonce is chosen by the caller's protocol, not parsed from the ciphertext; Open documents that the nonce must be NonceSize() bytes long"},
	{"sign/bls.VerifyAggregate", "", "default arm of the type switch over the key group K, which the type constraint KeyGroup restricts to G1 | G2; not selected by the input (the length comparison merely dominates it)"},
	{"(*dh/sidh.PublicKey).Import", "", "default arm of the switch over params.ID: NewPublicKey only builds keys of the three supported fields (common.Params panics at construction otherwise); not selected by the input"},
	{"dh/sidh/internal/common.BytesToFp2", "", "documented internal precondition; the callers pass slices of 2·Bytelen bytes (see the bounds exception for this function)"},
	{"expander.mustWrite", "", "the writers are hash states, whose Write never fails"},
	{"oprf.mustWrite", "", "the writers are hash states, whose Write never fails"},
	{"zk/dleq.mustWrite", "", "the writers are hash states, whose Write never fails"},
	{"(group.wG).cvtElt", "", "nil interface elements come from the caller's own code, not from parsed bytes"},
	{"(group.wG).cvtScl", "", "nil interface scalars come from the caller's own code, not from parsed bytes"},
}

var c10NilExceptions = []c10Exception{
	{"abe/cpabe/tkn20/internal/tkn.decapsulate", "", "key.k3 is indexed by labels of the key's own attribute set (Satisfaction only matches labels present in key.a, and deriveAttributeKeys creates k3 for every one of them); the key is the holder's own"},
}

func findException(tab []c10Exception, fn, op string) (string, bool) {
	for _, e := range tab {
		if e.fn == fn && (e.op == "" || strings.Contains(op, e.op)) {
			return e.reason, true
		}
	}
	return "", false
}

// unreachAt: control cannot reach `at` given the base facts: the dominating conditions contradict
// them, or a dominating "x != y" branch is taken although x == y is provable.
func (lc *lenCtx) unreachAt(at ssa.Instruction, base []lin) bool {
	facts := append(lc.factsAt(at), base...)
	if lc.prove(newLin(-1), facts) {
		return true
	}
	for b := at.Block(); b != nil && b.Idom() != nil; b = b.Idom() {
		d := b.Idom()
		ifi, ok := d.Instrs[len(d.Instrs)-1].(*ssa.If)
		if !ok || len(b.Preds) != 1 {
			continue
		}
		bo, ok := ifi.Cond.(*ssa.BinOp)
		if !ok {
			continue
		}
		if _, _, isInt := intWidth(bo.X.Type()); !isInt {
			continue
		}
		neqEdge := (bo.Op == token.NEQ && d.Succs[0] == b) || (bo.Op == token.EQL && d.Succs[1] == b)
		if !neqEdge {
			continue
		}
		x, y := lc.linOf(bo.X), lc.linOf(bo.Y)
		above := append(lc.factsAt(ifi), base...)
		if lc.prove(x.sub(y), above) && lc.prove(y.sub(x), above) {
			return true
		}
	}
	return false
}

func docOf(f *ssa.Function) string {
	if fd, ok := f.Syntax().(*ast.FuncDecl); ok && fd.Doc != nil {
		return fd.Doc.Text()
	}
	return ""
}

func checkC10(c *Ctx) {
	p := c.Prog("amd64")
	if p == nil {
		return
	}
	c.Clauses = append(c.Clauses,
		"C10.entries: the decoding entry points are enumerated from the type-checked program (exported functions/methods of public packages, or methods reachable through exported interfaces, with a byte/string parameter and an error/bool result, name in the decoding class)",
		"C10.bounds: every index, slice, slice-to-array conversion and encoding/binary fixed-width access on a value derived from the untrusted parameters (taint followed interprocedurally through circl callees), which the compiler's prove pass does not eliminate, is shown in range by the LEN prover: linear arithmetic over lengths and integers with dominating conditions, loop-counter induction, integer tightening, per-call-site bindings and return-length summaries; otherwise a minimal length requirement on a parameter is derived and discharged at every tainted call site, up to the entry points",
		"C10.panic: every explicit panic in that code that is controlled by a tainted condition is unreachable from all tainted call sites, or is the documented fixed-length precondition of an entry point",
		"C10.nil: results that may be nil (value of a (value, error) call, encoding/pem.Decode's block, map lookups, functions returning those) are dereferenced only under a dominating nil/err check; unchecked type assertions are not applied to map lookups or maybe-nil results — in every circl function reachable from an entry point",
		"C10.lemma: the facts the hand-proved exceptions rely on (ascon block sizes, SIDH parameter table relations)")
	c.NotDec = append(c.NotDec,
		"termination of the decoders; panics inside the standard library or x/crypto other than the listed length preconditions (e.g. big.Int.FillBytes on a too-small buffer)",
		"values that flow from the input through struct fields or globals between parsing and use (taint is followed through SSA values, calls and results only) — e.g. indices taken from a parsed policy and applied to a parsed header",
		"slicing within capacity but beyond length is legal Go; the prover demands high ≤ len, which is stricter",
		"integer overflow of 64-bit length arithmetic is ignored; narrow (8/16/32-bit) arithmetic is tracked with wrap-around",
		"nil dereferences of values other than the listed maybe-nil sources; division by zero; unchecked assertions on other operands",
		"the operations listed as exceptions are discharged by the recorded hand proof, not by the prover")
	decs := p.decoders()
	c.count("decoders", len(decs))
	if len(decs) < 170 {
		c.undecided("C10.entries", "decoding entry points", fmt.Sprintf("only %d entry points found (floor 170)", len(decs)), "")
	} else {
		c.ok("C10.entries", "decoding entry points", fmt.Sprintf("%d entry points enumerated", len(decs)), "")
	}
	if os.Getenv("DBGDEC") != "" {
		for _, d := range decs {
			fmt.Println("  ", fname(d))
		}
	}
	sites, n, err := gcUnproven(p.Repo, p.Cfg)
	if err != nil {
		c.undecided("C10.bounds", "compiler bounds-check report", err.Error(), "")
		return
	}
	c.count("gc_unproven_checks_in_repo", n)
	if n < 1500 {
		c.undecided("C10.bounds", "compiler bounds-check report", fmt.Sprintf("only %d unproven checks reported (floor 1500): the report is incomplete", n), "")
		return
	}
	t := newTaint(p)
	t.heap = os.Getenv("CIRCL_HEAPTAINT") != ""
	for _, d := range decs {
		t.seed(d)
	}
	t.run()
	if t.heap {
		// functions reachable from the entry points that load a tainted field are analysed too
		reachAll := p.reachFrom(decs)
		for round := 0; round < 4; round++ {
			nf := len(t.fields)
			for _, f := range reachAll {
				uses := false
				for _, b := range f.Blocks {
					for _, in := range b.Instrs {
						if fa, ok := in.(*ssa.FieldAddr); ok {
							if fv := fieldVar(fa); fv != nil && t.fields[fv] {
								uses = true
							}
						}
					}
				}
				if uses {
					t.push(f)
				}
			}
			t.run()
			if len(t.fields) == nf {
				break
			}
		}
		fmt.Printf("heap taint: %d tainted fields\n", len(t.fields))
	}
	c.count("tainted_functions", len(t.funcs))
	isDecoder := map[*ssa.Function]bool{}
	for _, d := range decs {
		isDecoder[d] = true
	}
	eng := newLenEngine(p)
	type pending struct {
		par   *ssa.Parameter
		k     int64
		why   string
		conds []intCond
	}
	var queue []pending
	seenReq := map[string]int64{}
	need := func(par *ssa.Parameter, k int64, why string, conds []intCond) {
		if k <= 0 {
			return
		}
		key := fmt.Sprintf("%p", par)
		for _, cd := range conds {
			key += fmt.Sprintf("|%p=%d", cd.par, cd.val)
		}
		if old, ok := seenReq[key]; ok && old >= k {
			return
		}
		seenReq[key] = k
		queue = append(queue, pending{par, k, why, conds})
	}
	eng.intervals(t, decs)
	verdicts := map[string]int{}
	var funcs []*ssa.Function
	for f := range t.funcs {
		funcs = append(funcs, f)
	}
	sort.Slice(funcs, func(i, j int) bool { return funcs[i].String() < funcs[j].String() })
	seenObl := map[string]int{}
	uniq := func(s string) string {
		seenObl[s]++
		if seenObl[s] > 1 {
			return fmt.Sprintf("%s #%d", s, seenObl[s])
		}
		return s
	}
	for _, f := range funcs {
		for _, b := range f.Blocks {
			for _, in := range b.Instrs {
				var o boundsOp
				switch x := in.(type) {
				case *ssa.IndexAddr:
					o = boundsOp{f: f, in: in, base: x.X, idx: x.Index}
				case *ssa.Index:
					o = boundsOp{f: f, in: in, base: x.X, idx: x.Index}
				case *ssa.Slice:
					o = boundsOp{f: f, in: in, base: x.X, lo: x.Low, hi: x.High, isSlice: true}
				case *ssa.SliceToArrayPointer:
					if n, ok := arrayLenOfPtr(x.Type()); ok {
						o = boundsOp{f: f, in: in, base: x.X, minLen: n}
					} else {
						continue
					}
				case *ssa.Call:
					// standard-library functions that panic on a short argument
					arg, n, ok := stdLenPre(p, &x.Call)
					if !ok {
						continue
					}
					o = boundsOp{f: f, in: in, base: arg, minLen: n, lib: p.staticCalleeName(&x.Call)}
				default:
					continue
				}
				tb := t.isTainted(o.base)
				ti := (o.idx != nil && t.isTainted(o.idx)) || (o.lo != nil && t.isTainted(o.lo)) || (o.hi != nil && t.isTainted(o.hi))
				if !tb && !ti {
					continue
				}
				c.count("tainted_operations", 1)
				if o.minLen == 0 && !sites[p.posKey(in.Pos())] {
					verdicts["compiler-proved"]++
					continue
				}
				construct := uniq(fname(f) + ": " + o.desc())
				v, par, k, detail := eng.decide(o)
				switch v {
				case "local":
					verdicts["proved"]++
					c.ok("C10.bounds", construct, detail, p.pos(in.Pos()))
				case "requires":
					verdicts["proved-under-requirement"]++
					c.ok("C10.bounds", construct, detail+" (discharged at the call sites: C10.callsite)", p.pos(in.Pos()))
					need(par, k, fmt.Sprintf("%s at %s in %s", o.desc(), p.pos(in.Pos()), fname(f)), eng.ctxOf(f).condsAt(in))
				default:
					if why, ok := findException(c10Exceptions, fname(f), o.desc()); ok {
						verdicts["exception"]++
						c.ok("C10.bounds", construct, "hand proof (not decided by the prover): "+why, p.pos(in.Pos()))
					} else {
						verdicts["undecided"]++
						c.undecided("C10.bounds", construct, detail, p.pos(in.Pos()))
					}
				}
			}
		}
	}
	// propagate length requirements to the call sites
	cg := p.CallGraph()
	for len(queue) > 0 {
		q := queue[0]
		queue = queue[1:]
		callee := q.par.Parent()
		pi := -1
		for i, pp := range callee.Params {
			if pp == q.par {
				pi = i
			}
		}
		if isDecoder[callee] && t.params[q.par] {
			doc := docOf(callee)
			construct := uniq(fmt.Sprintf("%s: len(%s) ≥ %d", fname(callee), paramDesc(q.par), q.k))
			if strings.Contains(strings.ToLower(doc), "panic") {
				verdicts["entry-documented"]++
				c.ok("C10.entry-len", construct, "required by "+q.why+"; the entry point documents that it panics on a wrong length", p.fnPos(callee))
			} else {
				verdicts["entry-violation"]++
				c.bad("C10.entry-len", construct, "an input shorter than this reaches "+q.why, p.fnPos(callee))
			}
		}
		node := cg.Nodes[callee]
		if node == nil {
			continue
		}
		for _, e := range node.In {
			caller := e.Caller.Func
			if !t.funcs[caller] || e.Site == nil {
				continue
			}
			c0 := e.Site.Common()
			var args []ssa.Value
			if c0.IsInvoke() {
				args = append(args, c0.Value)
			}
			args = append(args, c0.Args...)
			if pi < 0 || pi >= len(args) || len(args) != len(callee.Params) {
				continue
			}
			arg := args[pi]
			if !t.isTainted(arg) {
				continue
			}
			// conditional requirement: skip call sites whose constant arguments contradict the condition
			skip := false
			var upConds []intCond
			for _, cd := range q.conds {
				for i, pp := range callee.Params {
					if pp != cd.par {
						continue
					}
					switch a := args[i].(type) {
					case *ssa.Const:
						if a.Value != nil {
							if n, ok := constant.Int64Val(a.Value); ok && n != cd.val {
								skip = true
							}
						}
					case *ssa.Parameter:
						upConds = append(upConds, intCond{a, cd.val})
					}
				}
			}
			if skip {
				verdicts["call-site-not-applicable"]++
				continue
			}
			construct := uniq(fmt.Sprintf("%s calls %s: len(%s) ≥ %d", fname(caller), fname(callee), descVal(arg), q.k))
			allConds := append(append([]intCond(nil), upConds...), eng.ctxOf(caller).condsAt(e.Site)...)
			lc := eng.ctxWith(caller, allConds)
			base := eng.paramFactsIn(lc, caller)
			g := lc.lenOf(arg).plus(-q.k)
			if lc.proveAt(g, e.Site, base) {
				verdicts["call-site-proved"]++
				c.ok("C10.callsite", construct, "needed for "+q.why, p.pos(e.Site.Pos()))
				continue
			}
			if rp := rootParam(arg); rp != nil {
				if k, ok := lc.minLen([]lin{g}, e.Site, base, lc.lenOf(rp)); ok {
					verdicts["call-site-requires"]++
					c.ok("C10.callsite", construct, fmt.Sprintf("holds when len(%s) ≥ %d (propagated to the callers)", paramDesc(rp), k), p.pos(e.Site.Pos()))
					need(rp, k, fmt.Sprintf("call of %s at %s needs len ≥ %d: %s", fname(callee), p.pos(e.Site.Pos()), q.k, q.why), allConds)
					continue
				}
			}
			if why, ok := findException(c10Exceptions, fname(caller), "call "+fname(callee)); ok {
				verdicts["exception"]++
				c.ok("C10.callsite", construct, "hand proof (not decided by the prover): "+why, p.pos(e.Site.Pos()))
				continue
			}
			verdicts["call-undecided"]++
			c.undecided("C10.callsite", construct, fmt.Sprintf("needed for %s: cannot prove %s ≥ 0", q.why, g.String()), p.pos(e.Site.Pos()))
		}
	}
	// a parser applied to untrusted bytes whose error is dropped while its value is used: the value is nil / zero
	// exactly when the input is malformed
	{
		errT := types.Universe.Lookup("error").Type()
		nDrop, nOK := 0, 0
		for _, f := range funcs {
			for _, b := range f.Blocks {
				for _, in := range b.Instrs {
					call, ok := in.(*ssa.Call)
					if !ok {
						continue
					}
					tup, ok := call.Type().(*types.Tuple)
					if !ok || tup.Len() < 2 || !types.Identical(tup.At(tup.Len()-1).Type(), errT) {
						continue
					}
					var args []ssa.Value
					if call.Call.IsInvoke() {
						args = append(args, call.Call.Value)
					}
					args = append(args, call.Call.Args...)
					tainted := false
					for _, a := range args {
						if t.isTainted(a) {
							tainted = true
						}
					}
					if !tainted {
						continue
					}
					errUsed, otherUsed := false, false
					for _, r := range *call.Referrers() {
						if ex, ok := r.(*ssa.Extract); ok {
							if ex.Index == tup.Len()-1 {
								errUsed = len(*ex.Referrers()) > 0
							} else if len(*ex.Referrers()) > 0 {
								otherUsed = true
							}
						}
					}
					if errUsed || !otherUsed {
						nOK++
						continue
					}
					nDrop++
					callee := p.staticCalleeName(&call.Call)
					construct := fname(f) + ": the error of " + callee + " on input-derived data is examined before its value is used"
					if why, ok := c10ErrDropExceptions[callee]; ok {
						c.ok("C10.errdrop", construct, "exception: "+why, p.pos(call.Pos()))
						continue
					}
					c.bad("C10.errdrop", construct, "the error result is discarded and the value result is used: on malformed input the value is nil or zero", p.pos(call.Pos()))
				}
			}
		}
		c.count("errdrop_examined", nOK)
		if nDrop == 0 {
			c.ok("C10.errdrop", "calls on input-derived data that return (value, error)", fmt.Sprintf("%d calls: every one has its error examined (or its value unused)", nOK), "")
		}
	}
	// explicit panics under tainted conditions
	for _, f := range funcs {
		for _, b := range f.Blocks {
			pn, ok := b.Instrs[len(b.Instrs)-1].(*ssa.Panic)
			if !ok {
				continue
			}
			tc := ""
			for x := b; x != nil && x.Idom() != nil; x = x.Idom() {
				d := x.Idom()
				ifi, ok := d.Instrs[len(d.Instrs)-1].(*ssa.If)
				if !ok || len(x.Preds) != 1 {
					continue
				}
				if bo, ok := ifi.Cond.(*ssa.BinOp); ok && (t.isTainted(bo.X) || t.isTainted(bo.Y)) {
					tc = descVal(bo)
					break
				}
			}
			if tc == "" {
				continue
			}
			c.count("tainted_panics", 1)
			construct := uniq(fmt.Sprintf("%s: panic under %s", fname(f), tc))
			pos := p.pos(pn.Pos())
			lc := eng.ctxOf(f)
			if !isDecoder[f] && lc.unreachAt(pn, eng.paramFacts(f)) {
				c.ok("C10.panic", construct, "unreachable: contradicts the lengths every tainted call site provides", pos)
				continue
			}
			if bs := eng.bindings(f); len(bs) > 0 && !isDecoder[f] {
				all := true
				for _, bd := range bs {
					blc := eng.ctxWith(f, bd.ints)
					bbase := eng.paramFactsIn(blc, f)
					for par, n := range bd.lens {
						l := blc.lenOf(par)
						bbase = append(bbase, l.plus(-n), newLin(n).sub(l))
					}
					if !blc.unreachAt(pn, bbase) {
						all = false
						break
					}
				}
				if all {
					c.ok("C10.panic", construct, fmt.Sprintf("unreachable under each of the %d call-site bindings (exact lengths / constant arguments)", len(bs)), pos)
					continue
				}
			}
			if isDecoder[f] && strings.Contains(tc, "len(") && strings.Contains(strings.ToLower(docOf(f)), "panic") {
				// the contract is the caller's to keep: library code that hands input bytes to this entry point
				// directly has to establish the length first (an error-returning parser that drops its own
				// length check turns the documented panic into a panic on hostile input)
				var bs []siteBinding
				var sites []ssa.CallInstruction
				if constLenCond.MatchString(tc) {
					// (only where the documented length is a constant: a length given by a size accessor cannot be
					// related to the caller's own test by the prover)
					bs, sites = eng.callerBindings(f)
				}
				var open []string
				for i, bd := range bs {
					blc := eng.ctxWith(f, bd.ints)
					bbase := eng.paramFactsIn(blc, f)
					for par, n := range bd.lens {
						l := blc.lenOf(par)
						bbase = append(bbase, l.plus(-n), newLin(n).sub(l))
					}
					if !blc.unreachAt(pn, bbase) {
						open = append(open, p.pos(sites[i].Pos()))
					}
				}
				if len(open) > 0 {
					sort.Strings(open)
					c.bad("C10.panic", construct, "documented length precondition, but the library itself calls the function on input bytes without establishing the length at "+strings.Join(open, ", "), pos)
					continue
				}
				c.ok("C10.panic", construct, fmt.Sprintf("documented length precondition of the entry point (its doc comment says it panics); the %d direct callers inside the library establish it", len(bs)), pos)
				continue
			}
			if why, ok := findException(c10PanicExceptions, fname(f), tc); ok {
				c.ok("C10.panic", construct, "hand proof: "+why, pos)
				continue
			}
			c.undecided("C10.panic", construct, "an explicit panic guarded by an input-dependent condition is neither unreachable from the tainted call sites nor a documented length precondition", pos)
		}
	}
	// nil results and unchecked assertions, over everything reachable from the entry points
	reach := p.reachFrom(decs)
	c.count("reachable_functions", len(reach))
	nilChecked := 0
	for _, f := range reach {
		n, bad := p.nilSites(f)
		nilChecked += n
		for _, b := range bad {
			construct := uniq(fmt.Sprintf("%s: %s", fname(f), b.source))
			if why, ok := findException(c10NilExceptions, fname(f), b.source); ok {
				c.ok("C10.nil", construct, "hand proof: "+why, p.pos(b.use.Pos()))
				continue
			}
			c.bad("C10.nil", construct, "dereferenced by "+b.use.String()+" without a dominating nil / error check", p.pos(b.use.Pos()))
		}
		for _, b := range f.Blocks {
			for _, in := range b.Instrs {
				ta, ok := in.(*ssa.TypeAssert)
				if !ok || ta.CommaOk {
					continue
				}
				src := ""
				switch x := ta.X.(type) {
				case *ssa.Lookup:
					if _, isMap := x.X.Type().Underlying().(*types.Map); isMap {
						src = "a map lookup"
					}
				case *ssa.Call:
					if sc := x.Call.StaticCallee(); sc != nil && p.mayReturnNil(sc, 0) {
						src = "the maybe-nil result of " + fname(sc)
					}
				}
				nilChecked++
				if src != "" && !nilGuards(ta, ta.X, false) {
					c.bad("C10.nil", uniq(fmt.Sprintf("%s: unchecked type assertion on %s", fname(f), src)), ta.String()+" panics when the operand is nil", p.pos(ta.Pos()))
				}
			}
		}
	}
	c.count("nil_sensitive_uses_checked", nilChecked)
	if nilChecked < 40 {
		c.undecided("C10.nil", "maybe-nil uses", fmt.Sprintf("only %d uses examined (floor 40)", nilChecked), "")
	} else {
		c.ok("C10.nil", "maybe-nil uses", fmt.Sprintf("%d dereferences / assertions of maybe-nil results examined in %d reachable functions", nilChecked, len(reach)), "")
	}
	c10Lemmas(c, p)
	for k, v := range verdicts {
		c.count("verdict_"+k, v)
	}
	fmt.Printf("C10: %d entry points, %d tainted functions, verdicts %v\n", len(decs), len(t.funcs), verdicts)
}

// c10Lemmas checks the facts the hand-proved exceptions cite.
func c10Lemmas(c *Ctx, p *Program) {
	// ascon: blockSize returns 8 or 16 for each of the three modes New accepts
	if f := p.Func("cipher/ascon", "Cipher", "blockSize"); f == nil {
		c.undecided("C10.lemma", "ascon.blockSize ∈ {8,16}", "function not found", "")
	} else {
		okv := true
		var vals []string
		for _, mn := range []string{"Ascon128", "Ascon128a", "Ascon80pq"} {
			m, ok := p.constInt("cipher/ascon", mn)
			if !ok {
				okv = false
				vals = append(vals, mn+"=?")
				continue
			}
			r := runGuard(&GuardQuery{P: p, Root: f, MaxDepth: 2, ValAssumes: []ValAssume{{Name: "mode", Val: latInt(m), Match: func(v ssa.Value, in *ssa.Function) bool {
				u, ok := v.(*ssa.UnOp)
				if !ok || u.Op != token.MUL {
					return false
				}
				fa, ok := u.X.(*ssa.FieldAddr)
				return ok && fieldName(fa) == "mode"
			}}}})
			if len(r.Returns) == 0 {
				okv = false
			}
			for _, ri := range r.Returns {
				if len(ri.Vals) != 1 || ri.Vals[0].k != kConst {
					okv = false
					vals = append(vals, fmt.Sprintf("%s(%d)→?", mn, m))
					continue
				}
				n, _ := constant.Int64Val(ri.Vals[0].c)
				vals = append(vals, fmt.Sprintf("%s(%d)→%d", mn, m, n))
				if n != 8 && n != 16 {
					okv = false
				}
			}
		}
		if okv {
			c.ok("C10.lemma", "ascon.blockSize ∈ {8,16}", strings.Join(vals, ", "), p.fnPos(f))
		} else {
			c.bad("C10.lemma", "ascon.blockSize ∈ {8,16}", strings.Join(vals, ", "), p.fnPos(f))
		}
	}
	// ascon: Open rejects a ciphertext shorter than the tag (the hand proofs for Open / sliceForAppend rely on it)
	for _, n := range []int64{1, 15} {
		c.guard(p, "C10.lemma", fmt.Sprintf("a ciphertext of %d bytes is rejected", n), p.Func("cipher/ascon", "Cipher", "Open"),
			GuardSpec{Args: map[string]lat{"ciphertext": latSliceLen(n), "nonce": latSliceLen(16)}})
	}
	checkOptionalFields(c, p, "C10.nil", nil)
	// tkn20: a decoded formula reaches wellformed() with arbitrary wire numbers in its gates (they travel in
	// struct fields, which the taint analysis does not follow): every table access indexed by a gate field is
	// preceded, on the accepting side, by a lower and an upper test of that field
	{
		f := p.Func("abe/cpabe/tkn20/internal/tkn", "Formula", "wellformed")
		what := "(*tkn.Formula).wellformed: every table indexed by a wire number of a gate is indexed only after a lower and an upper test of that number"
		if f == nil {
			c.undecided("C10.lemma", what, "anchor function does not resolve", "")
		} else {
			gateField := func(v ssa.Value) string { // "In0" / "In1" / "Out" when v is (an affine function of) a gate field
				for i := 0; i < 8; i++ {
					switch x := v.(type) {
					case *ssa.Field:
						if st, ok := x.X.Type().Underlying().(*types.Struct); ok {
							return st.Field(x.Field).Name()
						}
						return ""
					case *ssa.UnOp:
						if fa, ok := x.X.(*ssa.FieldAddr); ok && x.Op == token.MUL {
							return fieldName(fa)
						}
						return ""
					case *ssa.BinOp:
						if _, isK := x.Y.(*ssa.Const); isK || x.Op == token.SUB || x.Op == token.ADD {
							v = x.X
							continue
						}
						return ""
					case *ssa.Convert:
						v = x.X
						continue
					}
					return ""
				}
				return ""
			}
			n := 0
			var bad []string
			for _, b := range f.Blocks {
				for _, in := range b.Instrs {
					ia, ok := in.(*ssa.IndexAddr)
					if !ok {
						continue
					}
					fld := gateField(ia.Index)
					if fld == "" {
						continue
					}
					n++
					lower, upper := false, false
					for d := b; d.Idom() != nil; d = d.Idom() {
						pd := d.Idom()
						ifi, ok := pd.Instrs[len(pd.Instrs)-1].(*ssa.If)
						if !ok || len(d.Preds) != 1 || pd.Succs[1] != d {
							continue // only tests whose failing (true) branch leaves with an error
						}
						cmp, ok := ifi.Cond.(*ssa.BinOp)
						if !ok || gateField(cmp.X) != fld {
							continue
						}
						switch cmp.Op {
						case token.GTR, token.GEQ:
							upper = true
						case token.LSS, token.LEQ:
							lower = true
						}
					}
					if !lower || !upper {
						miss := "lower"
						if lower {
							miss = "upper"
						}
						bad = append(bad, fmt.Sprintf("%s: the index derived from gate.%s has no dominating %s test", p.pos(ia.Pos()), fld, miss))
					}
				}
			}
			switch {
			case n < 3:
				c.undecided("C10.lemma", what, fmt.Sprintf("only %d accesses indexed by a gate field found (expected In0, In1, Out)", n), p.fnPos(f))
			case len(bad) > 0:
				c.bad("C10.lemma", what, strings.Join(bad, "; "), p.fnPos(f))
			default:
				c.ok("C10.lemma", what, fmt.Sprintf("%d accesses, each behind both tests", n), p.fnPos(f))
			}
		}
	}
	// ascon: sliceForAppend re-slices its input up to total = len(in)+n only where cap(in) >= total holds
	// (the fact the hand proof of the exception cites)
	{
		f := p.Func("cipher/ascon", "", "sliceForAppend")
		what := "cipher/ascon.sliceForAppend: in[:total] is guarded by cap(in) >= total with total = len(in)+n"
		if f == nil {
			c.undecided("C10.lemma", what, "anchor function does not resolve", "")
		} else {
			isLenOrCap := func(v ssa.Value, name string) bool {
				cl, ok := v.(*ssa.Call)
				if !ok {
					return false
				}
				bi, ok := cl.Call.Value.(*ssa.Builtin)
				return ok && bi.Name() == name && len(cl.Call.Args) == 1 && cl.Call.Args[0] == ssa.Value(f.Params[0])
			}
			n, okAll := 0, true
			why := ""
			for _, b := range f.Blocks {
				for _, in := range b.Instrs {
					sl, ok := in.(*ssa.Slice)
					if !ok || sl.X != ssa.Value(f.Params[0]) || sl.High == nil {
						continue
					}
					n++
					tot, ok := sl.High.(*ssa.BinOp)
					if !ok || tot.Op != token.ADD || !((isLenOrCap(tot.X, "len") && tot.Y == ssa.Value(f.Params[1])) || (isLenOrCap(tot.Y, "len") && tot.X == ssa.Value(f.Params[1]))) {
						okAll, why = false, "the upper bound "+descVal(sl.High)+" is not len(in)+n"
						continue
					}
					guarded := false
					for d := b; d != nil; d = d.Idom() {
						pd := d.Idom()
						if pd == nil {
							break
						}
						ifi, ok := pd.Instrs[len(pd.Instrs)-1].(*ssa.If)
						if !ok || len(d.Preds) != 1 {
							continue
						}
						cmp, ok := ifi.Cond.(*ssa.BinOp)
						if !ok {
							continue
						}
						onTrue := pd.Succs[0] == d
						ge := (cmp.Op == token.GEQ && isLenOrCap(cmp.X, "cap") && cmp.Y == ssa.Value(tot)) || (cmp.Op == token.LEQ && isLenOrCap(cmp.Y, "cap") && cmp.X == ssa.Value(tot))
						lt := (cmp.Op == token.LSS && isLenOrCap(cmp.X, "cap") && cmp.Y == ssa.Value(tot)) || (cmp.Op == token.GTR && isLenOrCap(cmp.Y, "cap") && cmp.X == ssa.Value(tot))
						if (ge && onTrue) || (lt && !onTrue) {
							guarded = true
						}
					}
					if !guarded {
						okAll, why = false, "the re-slice at "+p.pos(sl.Pos())+" is not dominated by the test cap(in) >= len(in)+n"
					}
				}
			}
			switch {
			case n == 0:
				c.ok("C10.lemma", what, "the function no longer re-slices its input", p.fnPos(f))
			case okAll:
				c.ok("C10.lemma", what, fmt.Sprintf("%d re-slice(s) under the capacity test", n), p.fnPos(f))
			default:
				c.bad("C10.lemma", what, why, p.fnPos(f))
			}
		}
	}
	// hpke: the identifiers read from a serialized context are validated before the accessors that
	// panic on unassigned identifiers are called
	{
		f := p.Func("hpke", "", "unmarshalContext")
		isCall := func(names ...string) func(ssa.Instruction) bool {
			set := map[string]bool{}
			for _, n := range names {
				set[n] = true
			}
			return func(in ssa.Instruction) bool {
				ci, ok := in.(ssa.CallInstruction)
				return ok && set[normName(p.staticCalleeName(ci.Common()))]
			}
		}
		c.orderRule(p, "C10.panic", "the parsed suite is validated before its size accessors (which panic on unassigned identifiers) are called", f,
			"call of Suite.isValid", isCall("(hpke.Suite).isValid"),
			"call of KDF.ExtractSize / AEAD.KeySize / AEAD.NonceSize", isCall("(hpke.KDF).ExtractSize", "(hpke.AEAD).KeySize", "(hpke.AEAD).NonceSize"))
	}
	// tkn20: the sections of a parsed ciphertext header are indexed by the wires of the policy only
	// after their shape has been validated against the policy and the key (the header reaches
	// decapsulate through struct fields, which the taint analysis does not follow)
	{
		f := p.Func("abe/cpabe/tkn20/internal/tkn", "", "decapsulate")
		isShape := func(in ssa.Instruction) bool {
			ci, ok := in.(ssa.CallInstruction)
			return ok && normName(p.staticCalleeName(ci.Common())) == "(abe/cpabe/tkn20/internal/tkn.ciphertextHeader).checkShape"
		}
		isHdrIndex := func(in ssa.Instruction) bool {
			ia, ok := in.(*ssa.IndexAddr)
			if !ok {
				return false
			}
			ld, ok := ia.X.(*ssa.UnOp)
			if !ok || ld.Op != token.MUL {
				return false
			}
			fa, ok := ld.X.(*ssa.FieldAddr)
			if !ok {
				return false
			}
			switch fieldName(fa) {
			case "c2", "c3", "c3neg":
				return true
			}
			return false
		}
		c.orderRule(p, "C10.lemma", "the header's shape is validated before its sections are indexed", f, "call of ciphertextHeader.checkShape", isShape, "index into header.c2 / c3 / c3neg", isHdrIndex)
	}
	// tkn20: a decoded policy has exactly one more input wire than its formula has gates (wires and
	// gates index each other in Formula.satisfaction / toposort and in Policy.String)
	{
		f := p.Func("abe/cpabe/tkn20/internal/tkn", "Policy", "UnmarshalBinary")
		c.guard(p, "C10.lemma", "a policy whose number of inputs differs from gates+1 is rejected", f,
			GuardSpec{BinAssumes: []BinAssume{binDesc(f, "len(Inputs) != len(Gates)+1", `len\(param#0\.Inputs\) != \(len\(param#0\.F\.Gates\)\+1\)|\(len\(param#0\.F\.Gates\)\+1\) != len\(param#0\.Inputs\)`, latTrue)}})
	}
	// tkn20: the gates of a decoded policy name wires inside the formula (Policy.String, ExtractPolicy and
	// the attribute matching index per-wire tables by gate.In0 / In1 / Out without further checks)
	{
		f := p.Func("abe/cpabe/tkn20/internal/tkn", "Policy", "UnmarshalBinary")
		c.guard(p, "C10.lemma", "a policy whose formula is not well formed (wire index out of range, wire used twice) is rejected", f,
			GuardSpec{Assumes: []Assume{calleeAssume(latNonNil, -1, "(*abe/cpabe/tkn20/internal/tkn.Formula).wellformed")}})
	}
	// tkn20: a decoded attribute key carries a key matrix for every attribute it names (decapsulate looks the
	// matrices up by the labels of the attribute set and dereferences them without a nil check)
	{
		f := p.Func("abe/cpabe/tkn20/internal/tkn", "AttributesKey", "UnmarshalBinary")
		what := "an attribute key that names an attribute without a key matrix (k3, or k3wild for a wildcard) is rejected"
		present := func(v ssa.Value, in *ssa.Function) bool {
			if in != f {
				return false
			}
			// the matrix looked up for a label: k3[label] / k3wild[label], or the ok flag of such a lookup
			var lk *ssa.Lookup
			switch x := v.(type) {
			case *ssa.Lookup:
				lk = x
			case *ssa.Extract:
				if l, ok := x.Tuple.(*ssa.Lookup); ok && x.Index == 0 {
					lk = l
				}
			}
			if lk == nil {
				return false
			}
			ld, ok := lk.X.(*ssa.UnOp)
			if !ok {
				return false
			}
			fa, ok := ld.X.(*ssa.FieldAddr)
			return ok && (fieldName(fa) == "k3" || fieldName(fa) == "k3wild")
		}
		var site ssa.Instruction
		if f != nil {
			for _, b := range f.Blocks {
				for _, in := range b.Instrs {
					if v, ok := in.(ssa.Value); ok && present(v, f) {
						site = in
					}
				}
			}
		}
		switch {
		case f == nil:
			c.undecided("C10.lemma", what, "anchor does not resolve", "")
		case site == nil:
			c.bad("C10.lemma", fname(f)+": "+what, "the decoder never looks a decoded label up in k3 / k3wild", p.fnPos(f))
		default:
			c.guard(p, "C10.lemma", what, f, GuardSpec{Through: site, ValAssumes: []ValAssume{{Name: "matrix found for the label", Val: latNil, Match: present}}})
		}
	}
	// tkn20: the matrices of a decoded attribute key are column vectors (decapsulation pairs them entry by entry
	// through addDuals, which panics on anything else, and adds the per-attribute ones, which panics on shapes
	// that differ)
	{
		f := p.Func("abe/cpabe/tkn20/internal/tkn", "AttributesKey", "UnmarshalBinary")
		for _, m := range []string{"k1", "k2"} {
			c.guard(p, "C10.lemma", "an attribute key whose "+m+" matrix is not a column vector is rejected", f,
				GuardSpec{BinAssumes: []BinAssume{binDesc(f, m+".cols != 1", `[^ ]*\.`+m+`\)?\.cols != 1`, latTrue)}})
		}
		c.guard(p, "C10.lemma", "an attribute key with a per-attribute matrix that is not a column vector is rejected", f,
			GuardSpec{BinAssumes: []BinAssume{binDesc(f, "m.cols != 1 (k3 / k3wild)", `[^ ]*(next|range|Next|m|extract)[^ ]*\.cols != 1`, latTrue)}})
	}
	// sidh parameter tables
	for _, pk := range []string{"p434", "p503", "p751"} {
		e, info := p.varInit("dh/sidh/internal/"+pk, "params")
		construct := "sidh.params " + pk
		cl, ok := e.(*ast.CompositeLit)
		if !ok {
			c.undecided("C10.lemma", construct, "parameter literal not found", "")
			continue
		}
		vals := map[string]int64{}
		for _, el := range cl.Elts {
			kv, ok := el.(*ast.KeyValueExpr)
			if !ok {
				continue
			}
			id, ok := kv.Key.(*ast.Ident)
			if !ok {
				continue
			}
			if tv, ok := info.Types[kv.Value]; ok && tv.Value != nil && tv.Value.Kind() == constant.Int {
				n, _ := constant.Int64Val(tv.Value)
				vals[id.Name] = n
			}
		}
		pks, ss, bl, ml, cs := vals["PublicKeySize"], vals["SharedSecretSize"], vals["Bytelen"], vals["MsgLen"], vals["CiphertextSize"]
		w := fmt.Sprintf("PublicKeySize=%d SharedSecretSize=%d Bytelen=%d MsgLen=%d CiphertextSize=%d", pks, ss, bl, ml, cs)
		if pks > 0 && pks == 3*ss && ss == 2*bl && cs == pks+ml && ml > 0 && ml <= 40 {
			c.ok("C10.lemma", construct, w, "")
		} else {
			c.bad("C10.lemma", construct, w+": expected PublicKeySize = 3·SharedSecretSize, SharedSecretSize = 2·Bytelen, CiphertextSize = PublicKeySize + MsgLen, 0 < MsgLen ≤ 40", "")
		}
	}
}

func arrayLenOfPtr(t types.Type) (int64, bool) {
	if pt, ok := t.Underlying().(*types.Pointer); ok {
		if at, ok := pt.Elem().Underlying().(*types.Array); ok {
			return at.Len(), true
		}
	}
	return 0, false
}

// stdLenPre: standard-library callees that panic unless a slice argument has a minimal length.
func stdLenPre(p *Program, c *ssa.CallCommon) (arg ssa.Value, n int64, ok bool) {
	name := p.staticCalleeName(c)
	var args []ssa.Value
	if c.IsInvoke() {
		args = append(args, c.Value)
	}
	args = append(args, c.Args...)
	m := stdPreRe.FindStringSubmatch(name)
	if m == nil || len(args) < 2 {
		return nil, 0, false
	}
	switch m[2] {
	case "16":
		n = 2
	case "32":
		n = 4
	case "64":
		n = 8
	}
	return args[1], n, true
}

var stdPreRe = regexp.MustCompile(`^(?:invoke )?\(encoding/binary\.(?:littleEndian|bigEndian|ByteOrder|AppendByteOrder)\)\.(Uint|PutUint)(16|32|64)$`)

// reachFrom: circl functions reachable from the roots through the call graph (sorted).
func (p *Program) reachFrom(roots []*ssa.Function) []*ssa.Function {
	cg := p.CallGraph()
	seen := map[*ssa.Function]bool{}
	work := append([]*ssa.Function(nil), roots...)
	for _, r := range roots {
		seen[r] = true
	}
	for len(work) > 0 {
		f := work[0]
		work = work[1:]
		n := cg.Nodes[f]
		if n == nil {
			continue
		}
		for _, e := range n.Out {
			g := e.Callee.Func
			if g == nil || seen[g] || !inlinable(g) {
				continue
			}
			seen[g] = true
			work = append(work, g)
		}
		for _, an := range f.AnonFuncs {
			if !seen[an] {
				seen[an] = true
				work = append(work, an)
			}
		}
	}
	var out []*ssa.Function
	for f := range seen {
		out = append(out, f)
	}
	sort.Slice(out, func(i, j int) bool { return out[i].String() < out[j].String() })
	return out
}

// publiclyCallable: a function, a method of an exported type, or a method of an unexported type that
// implements (under that name) a method of an exported interface of circl or of the standard
// encoding / crypto interfaces — the only way code outside the package can call it.
func (p *Program) publiclyCallable(f *ssa.Function) bool {
	recv := f.Signature.Recv()
	if recv == nil {
		return true
	}
	rt := recv.Type()
	if pt, ok := rt.(*types.Pointer); ok {
		rt = pt.Elem()
	}
	named, ok := rt.(*types.Named)
	if !ok {
		return true
	}
	if named.Obj().Exported() {
		return true
	}
	if p.exportedIfaces == nil {
		for _, pk := range p.Pkgs {
			path := pk.Types.Path()
			if !isCirclPath(path) && path != "encoding" && path != "crypto/cipher" && path != "crypto" {
				continue
			}
			if strings.Contains(path, "/internal") {
				continue
			}
			sc := pk.Types.Scope()
			for _, n := range sc.Names() {
				tn, ok := sc.Lookup(n).(*types.TypeName)
				if !ok || !tn.Exported() {
					continue
				}
				if it, ok := tn.Type().Underlying().(*types.Interface); ok && it.NumMethods() > 0 {
					p.exportedIfaces = append(p.exportedIfaces, it)
				}
			}
		}
	}
	for _, it := range p.exportedIfaces {
		has := false
		for i := 0; i < it.NumMethods(); i++ {
			if it.Method(i).Name() == f.Name() {
				has = true
			}
		}
		if !has {
			continue
		}
		if types.Implements(named, it) || types.Implements(types.NewPointer(named), it) {
			return true
		}
	}
	return false
}
