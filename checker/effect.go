package main

// EFFECT engine (field level): which functions write a given struct field, and how.

import (
	"go/token"
	"go/types"
	"sort"

	"golang.org/x/tools/go/ssa"
)

type fieldWrite struct {
	Fn   *ssa.Function
	Kind string // "assign" (the field itself), "element" (through the slice/array/pointer held in the field), "copy", "escape:<callee>" (address or contents handed to a callee that may write)
	Pos  token.Pos
}

// isFieldOf reports whether fa addresses field `field` of named struct type pkg.typ.
func isFieldOf(fa *ssa.FieldAddr, pkgPath, typ, field string) bool {
	pt, ok := fa.X.Type().Underlying().(*types.Pointer)
	if !ok {
		return false
	}
	named, ok := pt.Elem().(*types.Named)
	if !ok {
		return false
	}
	if named.Obj().Name() != typ || named.Obj().Pkg() == nil || named.Obj().Pkg().Path() != pkgPath {
		return false
	}
	st, ok := named.Underlying().(*types.Struct)
	return ok && st.Field(fa.Field).Name() == field
}

// derivedFromField: v is (a slice/index/element address of) the value loaded from the field, or the field address itself.
func derivedFromField(v ssa.Value, pkgPath, typ, field string) (isAddr bool, ok bool) {
	for i := 0; i < 16; i++ {
		switch x := v.(type) {
		case *ssa.FieldAddr:
			if isFieldOf(x, pkgPath, typ, field) {
				return true, true
			}
			v = x.X
		case *ssa.UnOp:
			if x.Op != token.MUL {
				return false, false
			}
			if fa, ok2 := x.X.(*ssa.FieldAddr); ok2 && isFieldOf(fa, pkgPath, typ, field) {
				return false, true
			}
			return false, false
		case *ssa.Slice:
			v = x.X
		case *ssa.IndexAddr:
			v = x.X
		case *ssa.Convert:
			v = x.X
		case *ssa.ChangeType:
			v = x.X
		default:
			return false, false
		}
	}
	return false, false
}

// readOnlyCallees never write through their slice arguments.
var readOnlyCallees = map[string]bool{
	"builtin.len": true, "builtin.cap": true, "bytes.Equal": true, "crypto/subtle.ConstantTimeCompare": true,
	"(*golang.org/x/crypto/cryptobyte.Builder).AddBytes": true, "builtin.append": true, "builtin.print": true,
	"golang.org/x/crypto/hkdf.Expand": true, "golang.org/x/crypto/hkdf.Extract": true, "crypto/aes.NewCipher": true,
	"golang.org/x/crypto/chacha20poly1305.New": true, "crypto/hmac.New": true,
}

// fieldWriters lists every write to pkg.typ.field in circl functions.
func (p *Program) fieldWriters(pkg, typ, field string) []fieldWrite {
	pkgPath := circlPath + "/" + pkg
	var out []fieldWrite
	for f := range p.AllFuncs {
		if f.Blocks == nil || !isCirclFunc(f) {
			continue
		}
		for _, b := range f.Blocks {
			for _, in := range b.Instrs {
				switch x := in.(type) {
				case *ssa.Store:
					if fa, ok := x.Addr.(*ssa.FieldAddr); ok && isFieldOf(fa, pkgPath, typ, field) {
						kind := "assign"
						if copiesField(x.Val, pkgPath, typ, field, 0) {
							kind = "assign-copy-of-itself" // c.f = append([]byte(nil), c.f...): re-binds the same contents
						}
						out = append(out, fieldWrite{f, kind, x.Pos()})
						continue
					}
					if ia, ok := x.Addr.(*ssa.IndexAddr); ok {
						if _, ok := derivedFromField(ia.X, pkgPath, typ, field); ok {
							out = append(out, fieldWrite{f, "element", x.Pos()})
						}
					}
				case ssa.CallInstruction:
					c := x.Common()
					name := p.staticCalleeName(c)
					var args []ssa.Value
					if c.IsInvoke() {
						args = append(args, c.Value)
					}
					args = append(args, c.Args...)
					for i, a := range args {
						isAddr, ok := derivedFromField(a, pkgPath, typ, field)
						if !ok {
							continue
						}
						if name == "builtin.copy" {
							if i == 0 {
								out = append(out, fieldWrite{f, "copy", x.Pos()})
							}
							continue
						}
						if readOnlyCallees[name] && !isAddr {
							continue
						}
						if isAddr {
							out = append(out, fieldWrite{f, "escape-addr:" + name, x.Pos()})
						} else if writesSliceArg(p, c, i) {
							out = append(out, fieldWrite{f, "escape:" + name, x.Pos()})
						}
					}
				}
			}
		}
	}
	sort.Slice(out, func(i, j int) bool {
		if out[i].Fn != out[j].Fn {
			return out[i].Fn.String() < out[j].Fn.String()
		}
		return out[i].Pos < out[j].Pos
	})
	return out
}

// writesSliceArg: may the callee write through argument i? Uses the DEP summary for circl callees
// (some parameter flows into that argument's pointee) and a small model for the standard library.
func writesSliceArg(p *Program, c *ssa.CallCommon, i int) bool {
	name := p.staticCalleeName(c)
	switch name {
	case "invoke (crypto/cipher.AEAD).Seal", "invoke (crypto/cipher.AEAD).Open":
		// (recv, dst, nonce, in, aad): only dst is written
		return i == 1
	}
	if f := c.StaticCallee(); f != nil && inlinable(f) {
		return calleeWritesParam(p, f, i, map[*ssa.Function]bool{})
	}
	return true
}

// calleeWritesParam: syntactic mod check — does f (or a circl callee) store through parameter i?
func calleeWritesParam(p *Program, f *ssa.Function, i int, seen map[*ssa.Function]bool) bool {
	if seen[f] || f.Blocks == nil || i >= len(f.Params) {
		return false
	}
	seen[f] = true
	par := f.Params[i]
	rooted := func(v ssa.Value) bool { return addrRoot(v) == ssa.Value(par) }
	for _, b := range f.Blocks {
		for _, in := range b.Instrs {
			switch x := in.(type) {
			case *ssa.Store:
				if rooted(x.Addr) {
					return true
				}
			case ssa.CallInstruction:
				c := x.Common()
				name := p.staticCalleeName(c)
				var args []ssa.Value
				if c.IsInvoke() {
					args = append(args, c.Value)
				}
				args = append(args, c.Args...)
				for j, a := range args {
					if !rooted(a) {
						continue
					}
					if name == "builtin.copy" {
						if j == 0 {
							return true
						}
						continue
					}
					if readOnlyCallees[name] {
						continue
					}
					if cf := c.StaticCallee(); cf != nil && inlinable(cf) {
						if calleeWritesParam(p, cf, j, seen) {
							return true
						}
						continue
					}
					if pointerLike(a.Type()) {
						return true
					}
				}
			}
		}
	}
	return false
}

// copiesField: v is a fresh slice built only from the current contents of the field itself
// (append(nil-or-empty, x.f...), possibly re-sliced or converted).
func copiesField(v ssa.Value, pkgPath, typ, field string, depth int) bool {
	if depth > 6 {
		return false
	}
	switch x := v.(type) {
	case *ssa.Call:
		b, ok := x.Call.Value.(*ssa.Builtin)
		if !ok || b.Name() != "append" || len(x.Call.Args) != 2 {
			return false
		}
		// first argument: nil / empty literal / make of length 0
		switch a := x.Call.Args[0].(type) {
		case *ssa.Const:
			if a.Value != nil {
				return false
			}
		case *ssa.MakeSlice:
			if k, ok := a.Len.(*ssa.Const); !ok || k.Value == nil || k.Value.ExactString() != "0" {
				return false
			}
		case *ssa.Slice:
			// []byte{}[:] of an empty array literal
			if at, ok := a.X.Type().Underlying().(*types.Pointer); !ok {
				return false
			} else if arr, ok := at.Elem().Underlying().(*types.Array); !ok || arr.Len() != 0 {
				return false
			}
		default:
			return false
		}
		return copiesField(x.Call.Args[1], pkgPath, typ, field, depth+1)
	case *ssa.Slice:
		return copiesField(x.X, pkgPath, typ, field, depth+1)
	case *ssa.ChangeType:
		return copiesField(x.X, pkgPath, typ, field, depth+1)
	case *ssa.UnOp:
		if x.Op != token.MUL {
			return false
		}
		fa, ok := x.X.(*ssa.FieldAddr)
		return ok && isFieldOf(fa, pkgPath, typ, field)
	}
	return false
}
