package ff_test

// Fp2.Sqrt compares candidate roots with x after it may already have stored a root in z: with z = x a
// later candidate can be compared with the root instead of x.
// Copy to ecc/bls12381/ff/ and run: go test -run TestFindingFp2SqrtAlias ./ecc/bls12381/ff/

import (
	"crypto/rand"
	"testing"

	"github.com/cloudflare/circl/ecc/bls12381/ff"
)

func TestFindingFp2SqrtAlias(t *testing.T) {
	bad := 0
	try := func(x *ff.Fp2) {
		var want ff.Fp2
		okWant := want.Sqrt(x)
		got := *x
		okGot := got.Sqrt(&got)
		if okWant != okGot {
			bad++
			return
		}
		if okWant == 1 {
			var sq ff.Fp2
			sq.Sqr(&got)
			if sq.IsEqual(x) != 1 {
				bad++
			}
		}
	}
	// structured values: small integers, i, -1, roots of unity
	for a := 0; a < 8; a++ {
		for b := 0; b < 8; b++ {
			var x ff.Fp2
			x[0].SetUint64(uint64(a))
			x[1].SetUint64(uint64(b))
			try(&x)
			x.Neg()
			try(&x)
		}
	}
	for i := 0; i < 200; i++ {
		var x ff.Fp2
		_ = x[0].Random(rand.Reader)
		_ = x[1].Random(rand.Reader)
		x.Sqr(&x)
		try(&x)
	}
	if bad > 0 {
		t.Errorf("z.Sqrt(z) differs from Sqrt into a separate destination for %d inputs", bad)
	}
}
