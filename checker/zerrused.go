package main

import (
	"fmt"
	"go/types"
	"sort"
	"strings"

	"golang.org/x/tools/go/ssa"
)

// errUsedScope: per property, the packages in which an error returned by one of the library's own
// functions must be used.
var errUsedScope = map[string][]string{
	"C01": {"kem/", "hpke"},
	"C02": {"sign/"},
	"C03": {"pke/kyber", "kem/kyber", "kem/mlkem"},
	"C06": {"dh/", "hpke", "kem/hybrid", "kem/xwing"},
	"C07": {"hpke"},
	"C09": {"ecc/", "group", "oprf"},
	"C10": {"pki", "cipher/", "abe/", "tss/", "blindsign/", "vdaf/", "zk/", "secretsharing"},
	"C16": {"oprf", "zk/", "ot/"},
	"C17": {"secretsharing", "tss/", "math/polynomial"},
	"C18": {"blindsign/"},
	"C19": {"vdaf/"},
	"C20": {"abe/"},
}

// infallibleCallees: library functions whose error result is nil by construction at every call
// site of the tree (one reason each); anything else that returns an error must have it used.
var infallibleCallees = map[string]string{
	"(*internal/sha3.State).Write":                    "sponge absorption never fails (panics on misuse)",
	"(*internal/sha3.State).Read":                     "sponge squeezing never fails",
	"(*xof/k12.State).Write":                          "never fails",
	"(*xof/k12.State).Read":                           "never fails",
	"invoke (io.Writer).Write":                        "the writers handed to the library's message callbacks are hash states",
	"invoke (encoding.BinaryMarshaler).MarshalBinary": "encoding a key object the library built itself",
	"(*ecc/bls12381/ff.Scalar).MarshalBinary":         "encoders of field elements always return nil",
	"(*ecc/bls12381/ff.Fp).MarshalBinary":             "encoders of field elements always return nil",
	"(ecc/bls12381/ff.Fp2).MarshalBinary":             "encoders of field elements always return nil",
	"(*sign/ed25519.pointR1).ToBytes":                 "fails only for a buffer of the wrong size; the callers pass fixed-size buffers",
	"(*ecc/goldilocks.Point).ToBytes":                 "fails only for a buffer of the wrong size; the callers pass fixed-size buffers",
	"math/fp448.ToBytes":                              "fails only for a buffer of the wrong size; the callers pass fixed-size buffers",
	"math/fp25519.ToBytes":                            "fails only for a buffer of the wrong size; the callers pass fixed-size buffers",
	"(*vdaf/prio3/arith/fp64.Fp).SetUint64":           "the only call passes a constant below the modulus",
	"(*vdaf/prio3/arith/fp128.Fp).SetUint64":          "the only call passes a constant below the modulus",
	"(*vdaf/prio3/arith/fp64.Fp).Marshal":             "encoding into a cryptobyte.Builder never fails",
	"(*vdaf/prio3/arith/fp128.Fp).Marshal":            "encoding into a cryptobyte.Builder never fails",
}

func init() {
	for _, n := range []string{"434", "503", "751"} {
		infallibleCallees["(*kem/sike/sikep"+n+".PublicKey).MarshalBinary"] = "encoders of keys always return nil"
		infallibleCallees["(*kem/sike/sikep"+n+".PrivateKey).MarshalBinary"] = "encoders of keys always return nil"
	}
}

// unusedErrors: calls of library functions (or of interface methods the library implements) whose
// error result is never read.
func unusedErrors(p *Program, f *ssa.Function) (unused []string, total int) {
	errT := types.Universe.Lookup("error").Type()
	for _, b := range f.Blocks {
		for _, in := range b.Instrs {
			ci, ok := in.(ssa.CallInstruction)
			if !ok {
				continue
			}
			v := ci.Value()
			if v == nil {
				continue // go / defer
			}
			res := ci.Common().Signature().Results()
			if res.Len() == 0 || !types.Identical(res.At(res.Len()-1).Type(), errT) {
				continue
			}
			circl := false
			if cal := ci.Common().StaticCallee(); cal != nil {
				circl = isCirclFunc(cal)
			} else {
				for _, cal := range p.dynamicCallees(f, ci) {
					if isCirclFunc(cal) {
						circl = true
					}
				}
			}
			if !circl {
				continue
			}
			total++
			used := false
			if res.Len() == 1 {
				used = len(*v.Referrers()) > 0
			} else {
				for _, r := range *v.Referrers() {
					if ex, ok := r.(*ssa.Extract); ok && ex.Index == res.Len()-1 && len(*ex.Referrers()) > 0 {
						used = true
					}
				}
			}
			if used {
				continue
			}
			callee := p.staticCalleeName(ci.Common())
			if _, ok := infallibleCallees[callee]; ok {
				continue
			}
			unused = append(unused, fmt.Sprintf("%s at %s", callee, p.pos(ci.Pos())))
		}
	}
	return
}

// errUsedRule: no error returned by a fallible function of the library is dropped (left unread, or
// overwritten before it is examined).
func (c *Ctx) errUsedRule(p *Program, rule string, prefixes ...string) {
	for _, pre := range prefixes {
		var hits []string
		nf, nc := 0, 0
		for f := range p.AllFuncs {
			if f.Blocks == nil || !sourceFunc(f) || !isCirclFunc(f) {
				continue
			}
			rel := strings.TrimPrefix(funcPkgPath(f), circlPath+"/")
			if !(rel == strings.TrimSuffix(pre, "/") || strings.HasPrefix(rel, strings.TrimSuffix(pre, "/")+"/")) {
				continue
			}
			u, n := unusedErrors(p, f)
			if n > 0 {
				nf++
				nc += n
			}
			for _, x := range u {
				hits = append(hits, fname(f)+": "+x)
			}
		}
		c.count("errused_calls", nc)
		what := pre + ": the error returned by a fallible function of the library is read"
		sort.Strings(hits)
		if len(hits) > 0 {
			c.bad(rule, what, "error result never read (dropped, or overwritten before it is examined): "+strings.Join(hits, "; "), "")
		} else {
			c.ok(rule, what, fmt.Sprintf("%d calls in %d functions return an error; each is read, or the callee is one of %d listed infallible ones", nc, nf, len(infallibleCallees)), "")
		}
	}
}

func init() {
	for prop, pres := range errUsedScope {
		prop, pres := prop, pres
		prev := registry[prop]
		if prev == nil {
			panic("errused: " + prop + " not registered")
		}
		registry[prop] = func(c *Ctx) {
			prev(c)
			if p := c.Prog("amd64"); p != nil {
				c.Clauses = append(c.Clauses, prop+".errused: an error returned by one of the library's own fallible functions is read by the caller (not dropped, not overwritten before it is examined)")
				c.errUsedRule(p, prop+".errused", pres...)
			}
		}
	}
}
