package main

// C14 (build variants compute identical results): structural parity clauses between the build
// configurations and between the arms of runtime CPU-feature dispatch. Whole-property equality of
// outputs is a runtime quantity and is not decided.

import (
	"fmt"
	"go/token"
	"go/types"
	"os"
	"os/exec"
	"sort"
	"strings"

	"golang.org/x/tools/go/ssa"
)

func init() { registry["C14"] = checkC14 }

// exportedAPI renders the exported package-level API of a package: name -> type string.
func exportedAPI(pk *types.Package) map[string]string {
	out := map[string]string{}
	q := func(p *types.Package) string {
		if p == pk {
			return ""
		}
		return p.Path()
	}
	sc := pk.Scope()
	for _, n := range sc.Names() {
		o := sc.Lookup(n)
		if !o.Exported() {
			continue
		}
		switch x := o.(type) {
		case *types.Const:
			out["const "+n] = types.TypeString(x.Type(), q) + " = " + x.Val().ExactString()
		case *types.Var:
			out["var "+n] = types.TypeString(x.Type(), q)
		case *types.Func:
			out["func "+n] = types.TypeString(x.Type(), q)
		case *types.TypeName:
			out["type "+n] = types.TypeString(x.Type().Underlying(), q)
			for _, t := range []types.Type{x.Type(), types.NewPointer(x.Type())} {
				ms := types.NewMethodSet(t)
				for i := 0; i < ms.Len(); i++ {
					m := ms.At(i).Obj()
					if m.Exported() {
						out["method "+n+"."+m.Name()] = types.TypeString(m.Type(), q)
					}
				}
			}
		}
	}
	return out
}

// featureCond: the branch condition is a CPU-feature test: a package-level bool, a field of
// x/sys/cpu's feature structs, a call of an IsEnabled*/Available-style predicate, or a
// conjunction / negation of those.
func featureCond(p *Program, v ssa.Value, depth int) bool {
	if depth > 4 {
		return false
	}
	switch x := v.(type) {
	case *ssa.UnOp:
		if x.Op == token.NOT {
			return featureCond(p, x.X, depth+1)
		}
		if x.Op != token.MUL {
			return false
		}
		switch a := x.X.(type) {
		case *ssa.Global:
			b, ok := a.Type().(*types.Pointer).Elem().Underlying().(*types.Basic)
			return ok && b.Kind() == types.Bool
		case *ssa.FieldAddr:
			if g, ok := a.X.(*ssa.Global); ok && g.Pkg != nil && strings.HasSuffix(g.Pkg.Pkg.Path(), "x/sys/cpu") {
				return true
			}
		}
	case *ssa.Call:
		n := p.staticCalleeName(&x.Call)
		return strings.Contains(n, "IsEnabledX") || strings.HasSuffix(n, "Available")
	case *ssa.BinOp:
		if x.Op == token.AND || x.Op == token.LAND {
			return featureCond(p, x.X, depth+1) && featureCond(p, x.Y, depth+1)
		}
	case *ssa.Phi:
		// short-circuit && of feature tests
		for _, e := range x.Edges {
			if k, ok := e.(*ssa.Const); ok && k.Value != nil {
				continue
			}
			if !featureCond(p, e, depth+1) {
				return false
			}
		}
		return len(x.Edges) > 0
	}
	return false
}

// paramRoot: index of the parameter v is (a conversion / re-slicing / address of a field of), or -1.
func paramRoot(f *ssa.Function, v ssa.Value) int {
	for i := 0; i < 16; i++ {
		switch x := v.(type) {
		case *ssa.Parameter:
			for j, q := range f.Params {
				if q == x {
					return j
				}
			}
			return -1
		case *ssa.Convert:
			v = x.X
		case *ssa.ChangeType:
			v = x.X
		case *ssa.SliceToArrayPointer:
			v = x.X
		case *ssa.Slice:
			v = x.X
		case *ssa.FieldAddr:
			v = x.X
		case *ssa.IndexAddr:
			v = x.X
		case *ssa.UnOp:
			if x.Op != token.MUL {
				return -1
			}
			v = x.X
		default:
			return -1
		}
	}
	return -1
}

// armCall: the single circl call an arm of a dispatch consists of (nil if the arm is not a thin forwarder).
func armCall(p *Program, b *ssa.BasicBlock) *ssa.Call {
	var call *ssa.Call
	for _, in := range b.Instrs {
		switch x := in.(type) {
		case *ssa.Call:
			if _, isB := x.Call.Value.(*ssa.Builtin); isB {
				continue
			}
			if call != nil {
				return nil
			}
			call = x
		case *ssa.Jump, *ssa.Return, *ssa.Convert, *ssa.ChangeType, *ssa.SliceToArrayPointer, *ssa.Slice, *ssa.FieldAddr, *ssa.IndexAddr, *ssa.UnOp, *ssa.DebugRef, *ssa.Extract:
		default:
			return nil
		}
	}
	return call
}

func checkC14(c *Ctx) {
	c.Clauses = append(c.Clauses,
		"C14.api: every public (non-internal) circl package exports the same API (names, types, constant values, method sets) in the default amd64 build, the purego build, arm64 and 386",
		"C14.dispatch: in every function that branches on a CPU-feature test and whose two arms are thin forwarders, both arms forward the same parameters in the same order, and the body the portable (purego) build uses for the same function calls one of the two arms",
		"C14.sibling: a function that has separate bodies in two build configurations uses the same set of its parameters in both (an implementation that ignores a parameter its sibling honours cannot compute the same result)",
		"C14.tangle: the coefficient order private to the AVX2 NTT is hidden: Poly.Pack detangles before serialising, Poly.Unpack and the uniform samplers tangle before returning, in every configuration",
		"C14.derive: the scalar and the four-way arm of Kyber's Mat.Derive agree on which index is passed as x under the transpose flag",
		"C14.asmdecl: go vet's asmdecl analyzer reports no mismatch between assembly and Go declarations (amd64, arm64)")
	c.NotDec = append(c.NotDec,
		"bit-identical outputs of the back-ends (assembly is opaque to the analysis; the generic and the assembly code are not compared)",
		"dispatch arms that are not thin forwarders (loops, several calls) are listed but not compared, except Mat.Derive",
		"GODEBUG=cpu.*=off configurations are the else-arms of the same dispatch functions; they are covered only through C14.dispatch")
	cfgs := []string{"amd64", "amd64-purego"}
	if c.Tier == "thorough" {
		cfgs = append(cfgs, "arm64", "386")
	}
	progs := map[string]*Program{}
	for _, n := range cfgs {
		c.cur = n
		if p := c.Prog(n); p != nil {
			progs[n] = p
		}
	}
	c.cur = ""
	base := progs["amd64"]
	if base == nil || len(progs) < 2 {
		return
	}
	// --- C14.selector
	c.Clauses = append(c.Clauses, "C14.selector: every value whose set of possible values is derivable and that reaches the selector of crypto/subtle.ConstantTimeCopy / ConstantTimeSelect - directly, or through the conditional move / negate helpers that forward it (the assembly back-ends accept any non-zero flag there) - lies in {0,1}")
	checkSelectors(c, progs)
	// --- C14.api
	for _, n := range cfgs[1:] {
		other := progs[n]
		if other == nil {
			continue
		}
		npk, ndiff := 0, 0
		for _, pk := range base.Circl {
			opk := other.ByPath[pk.Types.Path()]
			if opk == nil || strings.Contains(pk.Types.Path(), "/internal") {
				continue // internal packages may expose back-end specific helpers
			}
			npk++
			a, b := exportedAPI(pk.Types), exportedAPI(opk.Types)
			var diffs []string
			for k, v := range a {
				if w, ok := b[k]; !ok {
					diffs = append(diffs, k+" missing in "+n)
				} else if w != v {
					diffs = append(diffs, fmt.Sprintf("%s: %s vs %s", k, v, w))
				}
			}
			for k := range b {
				if _, ok := a[k]; !ok {
					diffs = append(diffs, k+" only in "+n)
				}
			}
			sort.Strings(diffs)
			if len(diffs) > 0 {
				ndiff++
				c.bad("C14.api", short(pk.Types.Path())+" amd64 vs "+n, abbrev(strings.Join(diffs, "; ")), "")
			}
		}
		c.count("api_packages_compared_"+n, npk)
		if npk < 60 {
			c.undecided("C14.api", "amd64 vs "+n, fmt.Sprintf("only %d packages compared (floor 60)", npk), "")
		} else if ndiff == 0 {
			c.ok("C14.api", "amd64 vs "+n, fmt.Sprintf("%d packages export identical APIs", npk), "")
		}
	}
	// --- C14.dispatch (per configuration)
	for _, n := range cfgs {
		p := progs[n]
		if p == nil {
			continue
		}
		c.cur = n
		compared, skipped, withSibling := 0, 0, 0
		var fs []*ssa.Function
		for f := range p.AllFuncs {
			if f.Blocks != nil && isCirclFunc(f) && f.Synthetic == "" {
				fs = append(fs, f)
			}
		}
		sort.Slice(fs, func(i, j int) bool { return fs[i].String() < fs[j].String() })
		for _, f := range fs {
			for _, b := range f.Blocks {
				ifi, ok := b.Instrs[len(b.Instrs)-1].(*ssa.If)
				if !ok || !featureCond(p, ifi.Cond, 0) {
					continue
				}
				ca, cb := armCall(p, b.Succs[0]), armCall(p, b.Succs[1])
				if ca == nil || cb == nil {
					skipped++
					continue
				}
				roots := func(call *ssa.Call) []int {
					var out []int
					cc := &call.Call
					var args []ssa.Value
					if cc.IsInvoke() {
						args = append(args, cc.Value)
					}
					args = append(args, cc.Args...)
					for _, a := range args {
						if r := paramRoot(f, a); r >= 0 {
							out = append(out, r)
						}
					}
					return out
				}
				ra, rb := roots(ca), roots(cb)
				compared++
				na, nb := p.staticCalleeName(&ca.Call), p.staticCalleeName(&cb.Call)
				construct := fmt.Sprintf("%s: %s vs %s", fname(f), na, nb)
				// the portable build's body of the same function must call what one of the arms calls
				portable := ""
				if pg := progs["amd64-purego"]; pg != nil && n == "amd64" && f.Pkg != nil {
					if sib := siblingOf(pg, f); sib != nil && pg.Fset.Position(sib.Pos()).Filename != p.Fset.Position(f.Pos()).Filename {
						found := false
						var calls []string
						for _, sb := range sib.Blocks {
							for _, in := range sb.Instrs {
								if ci, ok := in.(ssa.CallInstruction); ok {
									if _, isB := ci.Common().Value.(*ssa.Builtin); isB {
										continue
									}
									cn := pg.staticCalleeName(ci.Common())
									calls = append(calls, cn)
									if cn == na || cn == nb {
										found = true
										// ... and hands it its parameters in the order the amd64 arm does
										var pr []int
										for _, a := range ci.Common().Args {
											if r := paramRoot(sib, a); r >= 0 {
												pr = append(pr, r)
											}
										}
										want := ra
										if cn == nb {
											want = rb
										}
										if len(pr) == len(want) && fmt.Sprint(pr) != fmt.Sprint(want) {
											c.bad("C14.dispatch", construct, fmt.Sprintf("the portable build forwards its parameters to %s in the order %v, the amd64 arm in the order %v (%s)", cn, pr, want, pg.pos(ci.Pos())), p.pos(ifi.Pos()))
										}
									}
								}
							}
						}
						if len(calls) > 0 && !found {
							c.bad("C14.dispatch", construct, fmt.Sprintf("the portable build implements this function by calling %v (%s), which is neither arm of the dispatch", calls, pg.pos(sib.Pos())), p.pos(ifi.Pos()))
							continue
						}
						if found {
							portable = "; the portable build calls one of the arms"
							withSibling++
						}
					}
				}
				descs := func(call *ssa.Call) []string {
					var out []string
					cc := &call.Call
					if cc.IsInvoke() {
						out = append(out, descVal(cc.Value))
					}
					for _, a := range cc.Args {
						out = append(out, descVal(a))
					}
					return out
				}
				da, db := descs(ca), descs(cb)
				if fmt.Sprint(ra) != fmt.Sprint(rb) {
					c.bad("C14.dispatch", construct, fmt.Sprintf("the arms forward different parameters: %v vs %v", ra, rb), p.pos(ifi.Pos()))
				} else if len(da) == len(db) && fmt.Sprint(da) != fmt.Sprint(db) {
					// same arity: the two back-ends are handed the same operands (the same window of a buffer,
					// the same flags), not merely something derived from the same parameters
					c.bad("C14.dispatch", construct, fmt.Sprintf("the arms are handed different arguments: %v vs %v", da, db), p.pos(ifi.Pos()))
				} else {
					c.ok("C14.dispatch", construct, fmt.Sprintf("both arms forward parameters %v%s", ra, portable), p.pos(ifi.Pos()))
				}
			}
		}
		c.count("dispatch_compared_"+n, compared)
		c.count("dispatch_with_portable_sibling_"+n, withSibling)
		if n == "amd64" && withSibling < 8 {
			c.undecided("C14.dispatch", "dispatch sites with a portable sibling", fmt.Sprintf("only %d found (floor 8)", withSibling), "")
		}
		c.count("dispatch_not_thin_"+n, skipped)
		if n == "amd64" && compared < 15 {
			c.undecided("C14.dispatch", "dispatch sites", fmt.Sprintf("only %d thin dispatch sites found in the amd64 build (floor 15)", compared), "")
		}
	}
	c.cur = ""
	// the portable conditional moves reduce the selector to one bit (the selectors passed to them include -1)
	for _, n := range cfgs {
		if pr := progs[n]; pr != nil && (n == "amd64-purego" || n == "amd64") {
			c.cur = n
			checkSelectMask(c, pr, "C14.selector")
		}
	}
	// --- C14.sibling
	type key struct{ pkg, name string }
	index := func(p *Program) map[key]*ssa.Function {
		m := map[key]*ssa.Function{}
		for f := range p.AllFuncs {
			if f.Blocks == nil || !isCirclFunc(f) || f.Synthetic != "" || f.Parent() != nil || f.Pkg == nil {
				continue
			}
			m[key{f.Pkg.Pkg.Path(), f.RelString(f.Pkg.Pkg)}] = f
		}
		return m
	}
	bi := index(base)
	for _, n := range cfgs[1:] {
		other := progs[n]
		if other == nil {
			continue
		}
		oi := index(other)
		nsib := 0
		var keys []key
		for k := range bi {
			keys = append(keys, k)
		}
		sort.Slice(keys, func(i, j int) bool { return keys[i].pkg+keys[i].name < keys[j].pkg+keys[j].name })
		for _, k := range keys {
			fa, fb := bi[k], oi[k]
			if fb == nil {
				continue
			}
			pa, pb := base.Fset.Position(fa.Pos()), other.Fset.Position(fb.Pos())
			if pa.Filename == pb.Filename || len(fa.Params) != len(fb.Params) {
				continue
			}
			nsib++
			var diffs []string
			for i := range fa.Params {
				if i == 0 && fa.Signature.Recv() != nil {
					continue // the receiver: a back-end may not need it (no-op Tangle, stateless curve)
				}
				ua := fa.Params[i].Referrers() != nil && len(*fa.Params[i].Referrers()) > 0
				ub := fb.Params[i].Referrers() != nil && len(*fb.Params[i].Referrers()) > 0
				if ua != ub {
					who := n
					if !ua {
						who = "amd64"
					}
					diffs = append(diffs, fmt.Sprintf("parameter %s is ignored in the %s body", fa.Params[i].Name(), who))
				}
			}
			// both bodies are thin forwarders (one call, every argument a parameter): they hand their
			// parameters on in the same order (double(x, z) -> doubleGeneric(z, x) in one build only)
			forward := func(f *ssa.Function) ([]int, bool) {
				var call ssa.CallInstruction
				for _, b := range f.Blocks {
					for _, in := range b.Instrs {
						switch x := in.(type) {
						case ssa.CallInstruction:
							if call != nil {
								return nil, false
							}
							call = x
						case *ssa.Return, *ssa.Jump, *ssa.DebugRef:
						default:
							return nil, false
						}
					}
				}
				if call == nil || len(f.Blocks) != 1 {
					return nil, false
				}
				var out []int
				for _, a := range call.Common().Args {
					par, ok := a.(*ssa.Parameter)
					if !ok {
						return nil, false
					}
					for i, q := range f.Params {
						if q == par {
							out = append(out, i)
						}
					}
				}
				return out, len(out) == len(f.Params)
			}
			if oa, ok1 := forward(fa); ok1 {
				if ob, ok2 := forward(fb); ok2 && fmt.Sprint(oa) != fmt.Sprint(ob) {
					diffs = append(diffs, fmt.Sprintf("the amd64 body forwards its parameters in the order %v, the %s body in the order %v", oa, n, ob))
				}
			}
			construct := fmt.Sprintf("%s.%s amd64 vs %s", short(k.pkg), k.name, n)
			if len(diffs) > 0 {
				c.bad("C14.sibling", construct, strings.Join(diffs, "; ")+fmt.Sprintf(" (%s vs %s)", base.pos(fa.Pos()), other.pos(fb.Pos())), other.pos(fb.Pos()))
			} else {
				c.ok("C14.sibling", construct, fmt.Sprintf("%d parameters used alike (%s vs %s)", len(fa.Params), base.pos(fa.Pos()), other.pos(fb.Pos())), other.pos(fb.Pos()))
			}
		}
		c.count("sibling_pairs_"+n, nsib)
		if n == "amd64-purego" && nsib < 30 {
			c.undecided("C14.sibling", "amd64 vs "+n, fmt.Sprintf("only %d sibling bodies found (floor 30)", nsib), "")
		}
	}
	// --- C14.tangle and C14.derive (per configuration)
	for _, n := range cfgs {
		p := progs[n]
		if p == nil {
			continue
		}
		c.cur = n
		isRet := func(in ssa.Instruction) bool { _, ok := in.(*ssa.Return); return ok }
		callOf := func(name string) func(ssa.Instruction) bool {
			return func(in ssa.Instruction) bool {
				ci, ok := in.(ssa.CallInstruction)
				return ok && normName(p.staticCalleeName(ci.Common())) == name
			}
		}
		const pk = "pke/kyber/internal/common"
		c.orderRule(p, "C14.tangle", "Detangle precedes every return of Pack", p.Func(pk, "Poly", "Pack"), "call of Poly.Detangle", callOf("(pke/kyber/internal/common.Poly).Detangle"), "return", isRet)
		c.orderRule(p, "C14.tangle", "Tangle precedes every return of Unpack", p.Func(pk, "Poly", "Unpack"), "call of Poly.Tangle", callOf("(pke/kyber/internal/common.Poly).Tangle"), "return", isRet)
		c.orderRule(p, "C14.tangle", "Tangle precedes every return of DeriveUniform", p.Func(pk, "Poly", "DeriveUniform"), "call of Poly.Tangle", callOf("(pke/kyber/internal/common.Poly).Tangle"), "return", isRet)
		if f := p.Func(pk, "", "PolyDeriveUniformX4"); f == nil {
			c.undecided("C14.tangle", "PolyDeriveUniformX4 tangles its outputs", "function not found", "")
		} else {
			n := 0
			for _, b := range f.Blocks {
				for _, in := range b.Instrs {
					if callOf("(pke/kyber/internal/common.Poly).Tangle")(in) {
						n++
					}
				}
			}
			if n > 0 {
				c.ok("C14.tangle", fname(f)+": tangles its outputs", fmt.Sprintf("%d call(s) of Poly.Tangle", n), p.fnPos(f))
			} else {
				c.bad("C14.tangle", fname(f)+": tangles its outputs", "no call of Poly.Tangle", p.fnPos(f))
			}
		}
		for _, kp := range []string{"pke/kyber/kyber512/internal", "pke/kyber/kyber768/internal", "pke/kyber/kyber1024/internal"} {
			c14Derive(c, p, p.Func(kp, "Mat", "Derive"), kp)
		}
	}
	c.cur = ""
	// --- C14.asmdecl
	for _, arch := range []string{"amd64", "arm64"} {
		if c.Tier != "thorough" && arch != "amd64" {
			continue
		}
		cmd := exec.Command("go", "vet", "-asmdecl", "./...")
		cmd.Dir = c.Repo
		cmd.Env = append(os.Environ(), "GOFLAGS=-mod=mod", "GOPROXY=off", "GOSUMDB=off", "GOTOOLCHAIN=local", "GOWORK=off", "GOOS=linux", "GOARCH="+arch, "CGO_ENABLED=0")
		out, err := cmd.CombinedOutput()
		var diags []string
		for _, ln := range strings.Split(string(out), "\n") {
			if strings.Contains(ln, ".s:") {
				diags = append(diags, strings.TrimSpace(ln))
			}
		}
		switch {
		case len(diags) > 0:
			c.bad("C14.asmdecl", "go vet -asmdecl GOARCH="+arch, abbrev(strings.Join(diags, "; ")), "")
		case err != nil:
			c.undecided("C14.asmdecl", "go vet -asmdecl GOARCH="+arch, "vet failed: "+abbrev(string(out)), "")
		default:
			c.ok("C14.asmdecl", "go vet -asmdecl GOARCH="+arch, "no diagnostics", "")
		}
	}
}

// c14Derive: orientation agreement of the two arms of Mat.Derive. In each arm the element m[a][b]
// is sampled with (x, y); under the transpose flag x must be the row index a in both arms (or the
// column index in both).
func c14Derive(c *Ctx, p *Program, f *ssa.Function, pkg string) {
	construct := pkg + ".Mat.Derive: scalar and X4 arms agree on the orientation under transpose"
	if f == nil {
		c.undecided("C14.derive", construct, "function not found", "")
		return
	}
	var tr *ssa.Parameter
	for _, q := range f.Params {
		if b, ok := q.Type().Underlying().(*types.Basic); ok && b.Kind() == types.Bool {
			tr = q
		}
	}
	if tr == nil {
		c.undecided("C14.derive", construct, "no bool parameter", p.fnPos(f))
		return
	}
	// which branch of `if transpose` a block lies in: +1 true, -1 false, 0 neither
	side := func(b *ssa.BasicBlock) int {
		for x := b; x != nil && x.Idom() != nil; x = x.Idom() {
			d := x.Idom()
			ifi, ok := d.Instrs[len(d.Instrs)-1].(*ssa.If)
			if !ok || ifi.Cond != ssa.Value(tr) || len(x.Preds) != 1 {
				continue
			}
			if d.Succs[0] == x {
				return 1
			}
			return -1
		}
		return 0
	}
	strip := func(v ssa.Value) ssa.Value {
		for {
			switch x := v.(type) {
			case *ssa.Convert:
				v = x.X
			case *ssa.ChangeType:
				v = x.X
			default:
				return v
			}
		}
	}
	// orientation: +1 "x is the row index", -1 "x is the column index", in the transpose-true branch
	var scalar, x4 []int
	// the element addresses &m[a][b]
	elem := func(v ssa.Value) (a, b ssa.Value, ok bool) {
		ia, ok1 := v.(*ssa.IndexAddr)
		if !ok1 {
			return nil, nil, false
		}
		ib, ok2 := ia.X.(*ssa.IndexAddr)
		if !ok2 {
			return nil, nil, false
		}
		return strip(ib.Index), strip(ia.Index), true
	}
	var lastA, lastB ssa.Value
	for _, b := range f.Blocks {
		for _, in := range b.Instrs {
			switch x := in.(type) {
			case *ssa.Call:
				if !strings.HasSuffix(p.staticCalleeName(&x.Call), ".DeriveUniform") || len(x.Call.Args) != 4 {
					continue
				}
				a, bb, ok := elem(x.Call.Args[0])
				s := side(b)
				if !ok {
					continue
				}
				if s == 0 {
					// x selected by a phi over the transpose branch
					if ph, isPhi := x.Call.Args[2].(*ssa.Phi); isPhi {
						for i, e := range ph.Edges {
							es := side(ph.Block().Preds[i])
							if es == 0 {
								pr := ph.Block().Preds[i]
								if ifi, isIf := pr.Instrs[len(pr.Instrs)-1].(*ssa.If); isIf && ifi.Cond == ssa.Value(tr) {
									es = -1
									if pr.Succs[0] == ph.Block() {
										es = 1
									}
								}
							}
							ev := strip(e)
							o := 0
							if ev == a {
								o = 1
							} else if ev == bb {
								o = -1
							}
							scalar = append(scalar, o*es)
						}
					}
					continue
				}
				xa := strip(x.Call.Args[2])
				o := 0
				if xa == a {
					o = 1
				} else if xa == bb {
					o = -1
				}
				scalar = append(scalar, o*s)
			case *ssa.Store:
				if a, bb, ok := elem(x.Val); ok {
					lastA, lastB = a, bb
					continue
				}
				// xs[idx] = v under the transpose branch: xs is the array whose name sorts first
				ia, ok := x.Addr.(*ssa.IndexAddr)
				if !ok || side(b) == 0 || lastA == nil {
					continue
				}
				al, ok := ia.X.(*ssa.Alloc)
				if !ok || !strings.HasPrefix(al.Comment, "xs") {
					continue
				}
				v := strip(x.Val)
				o := 0
				if v == lastA {
					o = 1
				} else if v == lastB {
					o = -1
				}
				x4 = append(x4, o*side(b))
			}
		}
	}
	all := func(xs []int) (int, bool) {
		if len(xs) == 0 {
			return 0, false
		}
		for _, x := range xs {
			if x != xs[0] || x == 0 {
				return 0, false
			}
		}
		return xs[0], true
	}
	so, ok1 := all(scalar)
	xo, ok2 := all(x4)
	w := fmt.Sprintf("scalar arm %v, X4 arm %v (+1: x is the row index when transpose is set)", scalar, x4)
	switch {
	case !ok1 || !ok2:
		c.undecided("C14.derive", construct, "orientation not recognised: "+w, p.fnPos(f))
	case so != xo:
		c.bad("C14.derive", construct, "the arms disagree: "+w, p.fnPos(f))
	default:
		c.ok("C14.derive", construct, w, p.fnPos(f))
	}
}

// siblingOf: the function of the same package and name in another configuration.
func siblingOf(other *Program, f *ssa.Function) *ssa.Function {
	sp := other.SSAPkg[f.Pkg.Pkg.Path()]
	if sp == nil {
		return nil
	}
	want := f.RelString(f.Pkg.Pkg)
	for g := range other.AllFuncs {
		if g.Pkg == sp && g.Blocks != nil && g.Parent() == nil && g.RelString(sp.Pkg) == want {
			return g
		}
	}
	return nil
}
