package rsa

import (
	"crypto"
	"crypto/rand"
	"crypto/rsa"
	"crypto/sha256"
	"math/big"
	"testing"
)

// Every key that Deal accepts must yield shares whose partial signatures combine. Shoup's scheme needs
// gcd(e, l!) = 1; with e = 3 and l = 3 players Deal succeeds and no subset can ever combine.
// Place in tss/rsa; go test -run TestFindingSmallExponent ./tss/rsa/ .
func TestFindingSmallExponent(t *testing.T) {
	// a 1024-bit key with e = 3 (p, q = 2 mod 3 so that 3 is invertible modulo (p-1)(q-1)/4)
	var key *rsa.PrivateKey
	for {
		k, err := rsa.GenerateKey(rand.Reader, 1024)
		if err != nil {
			t.Fatal(err)
		}
		p1 := new(big.Int).Sub(k.Primes[0], big.NewInt(1))
		q1 := new(big.Int).Sub(k.Primes[1], big.NewInt(1))
		phi := new(big.Int).Mul(p1, q1)
		three := big.NewInt(3)
		d := new(big.Int).ModInverse(three, phi)
		if d == nil {
			continue
		}
		k.E = 3
		k.D = d
		k.Precomputed = rsa.PrecomputedValues{}
		key = k
		break
	}
	const players, threshold = 3, 2
	shares, err := Deal(rand.Reader, players, threshold, key, false)
	if err != nil {
		return // refused: fine
	}
	msg := sha256.Sum256([]byte("msg"))
	padded, err := PadHash(&PKCS1v15Padder{}, crypto.SHA256, &key.PublicKey, msg[:])
	if err != nil {
		t.Fatal(err)
	}
	var parts []SignShare
	for i := 0; i < threshold; i++ {
		s, err := shares[i].Sign(nil, &key.PublicKey, padded, false)
		if err != nil {
			t.Fatal(err)
		}
		parts = append(parts, s)
	}
	sig, err := CombineSignShares(&key.PublicKey, parts, padded)
	if err != nil {
		t.Errorf("Deal accepted e=3 with %d players, but the partial signatures do not combine: %v", players, err)
		return
	}
	if err := rsa.VerifyPKCS1v15(&key.PublicKey, crypto.SHA256, msg[:], sig); err != nil {
		t.Errorf("combined signature does not verify: %v", err)
	}
}
