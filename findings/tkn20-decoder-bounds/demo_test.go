package tkn20_test

// Demonstrates (C10/C20): CP-ABE decoders index their input without length checks: a short ciphertext
// makes Decrypt / ExtractFromCiphertext / CouldDecrypt panic (checkCiphertextFormat slices [0:6]),
// and a ciphertext whose embedded policy announces more gates / longer fields than it contains makes
// policy decoding read out of range.
// Place in /repo/abe/cpabe/tkn20: go test -run TestFindingDecoderBounds ./abe/cpabe/tkn20/

import (
	"crypto/rand"
	"testing"

	cpabe "github.com/cloudflare/circl/abe/cpabe/tkn20"
)

func noPanic(t *testing.T, what string, f func()) {
	t.Helper()
	defer func() {
		if r := recover(); r != nil {
			t.Errorf("%s panics: %v", what, r)
		}
	}()
	f()
}

func TestFindingDecoderBounds(t *testing.T) {
	pk, msk, err := cpabe.Setup(rand.Reader)
	if err != nil {
		t.Fatal(err)
	}
	var pol cpabe.Policy
	if err := pol.FromString("(a: x) and (b: y)"); err != nil {
		t.Fatal(err)
	}
	attrs := cpabe.Attributes{}
	attrs.FromMap(map[string]string{"a": "x", "b": "y"})
	key, err := msk.KeyGen(rand.Reader, attrs)
	if err != nil {
		t.Fatal(err)
	}
	ct, err := pk.Encrypt(rand.Reader, pol, []byte("hello"))
	if err != nil {
		t.Fatal(err)
	}
	for _, short := range [][]byte{nil, {1}, {1, 2, 3}} {
		short := short
		noPanic(t, "Decrypt(short)", func() {
			if _, err := key.Decrypt(short); err == nil {
				t.Errorf("short ciphertext decrypted")
			}
		})
		noPanic(t, "ExtractFromCiphertext(short)", func() {
			var p cpabe.Policy
			if err := p.ExtractFromCiphertext(short); err == nil {
				t.Errorf("policy extracted from short ciphertext")
			}
		})
		noPanic(t, "CouldDecrypt(short)", func() { _ = attrs.CouldDecrypt(short) })
	}
	// corrupt every byte in turn to 0xFF (length fields among them): never a panic
	for i := 0; i < len(ct) && i < 400; i++ {
		mut := append([]byte{}, ct...)
		mut[i] = 0xFF
		noPanic(t, "Decrypt(corrupted length field)", func() { _, _ = key.Decrypt(mut) })
		noPanic(t, "ExtractFromCiphertext(corrupted length field)", func() {
			var p cpabe.Policy
			_ = p.ExtractFromCiphertext(mut)
		})
	}
}
