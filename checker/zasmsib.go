package main

import (
	"fmt"
	"os"
	"path/filepath"
	"regexp"
	"sort"
	"strings"

	"golang.org/x/tools/go/ssa"
)

// ASMSIBLING: the legacy and the BMI2/ADX variant of an assembly macro perform the same steps.
//
// The point-arithmetic macros of the amd64 back-ends (Montgomery ladder step, differential addition,
// doubling, Edwards addition) exist twice: one body for CPUs without BMI2/ADX, one for CPUs with them. Both
// bodies are sequences of invocations of lower-level macros and are step-for-step identical up to the
// back-end suffix of the invoked macro (integerMulLeg / integerMulAdx). The existing tests run only the
// variant of the machine they run on. The rule parses the macro definitions of every *_amd64.h file of the
// repository, pairs the high-level macros (bodies made of macro invocations only) whose names differ only in
// the back-end suffix, and compares the two invocation sequences - callee with the suffix removed, and the
// argument list - position by position. Nothing is compared with a stored copy: both bodies may change as
// long as they change alike.
var asmSuffix = regexp.MustCompile(`(Legacy|Leg|Bmi2Adx|Bmi2|Adx|Mulx)$`)
var asmDispatch = regexp.MustCompile(`CHECK_BMI2(?:ADX)?\s*\(\s*\w+\s*,\s*(\w+)\s*,\s*(\w+)\s*\)`)
var asmInvoke = regexp.MustCompile(`^([A-Za-z_][A-Za-z0-9_]*)\s*\((.*)\)$`)

type asmMacro struct {
	name  string
	file  string
	line  int
	steps []string // normalised invocations; nil if the body is not made of invocations only
}

func parseAsmMacros(path string) ([]asmMacro, error) {
	b, err := os.ReadFile(path)
	if err != nil {
		return nil, err
	}
	lines := strings.Split(string(b), "\n")
	var out []asmMacro
	for i := 0; i < len(lines); i++ {
		ln := strings.TrimSpace(lines[i])
		if !strings.HasPrefix(ln, "#define") {
			continue
		}
		head := strings.TrimSpace(strings.TrimSuffix(strings.TrimSpace(strings.TrimPrefix(ln, "#define")), `\`))
		name := head
		if j := strings.IndexAny(head, "( \t"); j >= 0 {
			name = head[:j]
		}
		m := asmMacro{name: name, file: path, line: i + 1}
		pure := strings.HasSuffix(ln, `\`) && !strings.Contains(head, "(")
		cont := strings.HasSuffix(ln, `\`)
		for cont && i+1 < len(lines) {
			i++
			body := strings.TrimSpace(lines[i])
			cont = strings.HasSuffix(body, `\`)
			body = strings.TrimSpace(strings.TrimSuffix(body, `\`))
			body = strings.TrimSuffix(body, ";")
			if body == "" {
				continue
			}
			mm := asmInvoke.FindStringSubmatch(body)
			if mm == nil {
				pure = false
				continue
			}
			args := strings.Join(strings.Fields(strings.ReplaceAll(mm[2], ",", " , ")), "")
			m.steps = append(m.steps, asmSuffix.ReplaceAllString(mm[1], "")+"("+args+")")
		}
		if !pure {
			m.steps = nil
		}
		out = append(out, m)
	}
	return out, nil
}

func checkAsmSiblings(c *Ctx, rule string, prefixes []string, floor int) {
	var files []string
	_ = filepath.Walk(c.Repo, func(path string, info os.FileInfo, err error) error {
		if err != nil {
			return nil
		}
		if info.IsDir() && (info.Name() == ".git" || info.Name() == "testdata") {
			return filepath.SkipDir
		}
		if !info.IsDir() && strings.HasSuffix(path, "_amd64.h") {
			rel, _ := filepath.Rel(c.Repo, path)
			ok := prefixes == nil
			for _, pre := range prefixes {
				if strings.HasPrefix(rel, strings.TrimSuffix(pre, "/")+"/") {
					ok = true
				}
			}
			if ok {
				files = append(files, path)
			}
		}
		return nil
	})
	sort.Strings(files)
	npairs := 0
	for _, path := range files {
		ms, err := parseAsmMacros(path)
		rel, _ := filepath.Rel(c.Repo, path)
		if err != nil {
			c.undecided(rule, rel, "cannot be read: "+err.Error(), "")
			continue
		}
		byBase := map[string][]asmMacro{}
		for _, m := range ms {
			if m.steps == nil || !asmSuffix.MatchString(m.name) {
				continue
			}
			base := asmSuffix.ReplaceAllString(m.name, "")
			byBase[base] = append(byBase[base], m)
		}
		var bases []string
		for b := range byBase {
			bases = append(bases, b)
		}
		sort.Strings(bases)
		for _, base := range bases {
			v := byBase[base]
			if len(v) < 2 {
				continue
			}
			for k := 1; k < len(v); k++ {
				a, b := v[0], v[k]
				npairs++
				construct := fmt.Sprintf("%s: %s and %s perform the same steps", rel, a.name, b.name)
				pos := fmt.Sprintf("%s:%d", rel, b.line)
				diff := ""
				for i := 0; i < len(a.steps) || i < len(b.steps); i++ {
					var x, y string
					if i < len(a.steps) {
						x = a.steps[i]
					}
					if i < len(b.steps) {
						y = b.steps[i]
					}
					if x != y {
						diff = fmt.Sprintf("step %d: %s has %q, %s has %q", i+1, a.name, x, b.name, y)
						break
					}
				}
				if diff != "" {
					c.bad(rule, construct, diff+": the two back-ends compute different things on the CPUs that select them", pos)
				} else {
					c.ok(rule, construct, fmt.Sprintf("%d steps, equal up to the back-end suffix of the invoked macros", len(a.steps)), pos)
				}
			}
		}
	}
	// the run-time dispatch hands the two variants of one operation to the CPU test
	ndisp := 0
	_ = filepath.Walk(c.Repo, func(path string, info os.FileInfo, err error) error {
		if err != nil {
			return nil
		}
		if info.IsDir() && (info.Name() == ".git" || info.Name() == "testdata") {
			return filepath.SkipDir
		}
		if info.IsDir() || !strings.HasSuffix(path, "_amd64.s") {
			return nil
		}
		rel, _ := filepath.Rel(c.Repo, path)
		ok := prefixes == nil
		for _, pre := range prefixes {
			if strings.HasPrefix(rel, strings.TrimSuffix(pre, "/")+"/") {
				ok = true
			}
		}
		if !ok {
			return nil
		}
		b, err := os.ReadFile(path)
		if err != nil {
			return nil
		}
		for i, ln := range strings.Split(string(b), "\n") {
			m := asmDispatch.FindStringSubmatch(ln)
			if m == nil || strings.HasPrefix(strings.TrimSpace(ln), "#define") {
				continue
			}
			ndisp++
			construct := fmt.Sprintf("%s: the CPU test selects between the two variants of one operation (%s / %s)", rel, m[1], m[2])
			pos := fmt.Sprintf("%s:%d", rel, i+1)
			if asmSuffix.ReplaceAllString(m[1], "") != asmSuffix.ReplaceAllString(m[2], "") || m[1] == m[2] {
				c.bad(rule, construct, "the legacy arm and the BMI2 arm are not the two variants of the same macro", pos)
			} else {
				c.ok(rule, construct, "same operation, different back-end suffix", pos)
			}
		}
		return nil
	})
	c.count("asm_dispatch_sites", ndisp)
	c.count("asm_macro_pairs", npairs)
	if npairs < floor {
		c.undecided(rule, "pairs of legacy / BMI2 macro variants", fmt.Sprintf("only %d found (floor %d)", npairs, floor), "")
	}
}

func init() {
	for prop, sc := range map[string]struct {
		pre   []string
		floor int
	}{
		"C14": {nil, 9},
		"C06": {[]string{"dh/x25519", "dh/x448"}, 6},
		"C13": {[]string{"ecc/fourq"}, 3},
	} {
		prop, sc := prop, sc
		prev := registry[prop]
		if prev == nil {
			panic("asmsibling: " + prop + " not registered")
		}
		registry[prop] = func(c *Ctx) {
			prev(c)
			if c.override != "" && c.override != "amd64" {
				return // the macros belong to the amd64 assembly back-end
			}
			c.Clauses = append(c.Clauses, prop+".asmsibling: the legacy and the BMI2/ADX variant of every high-level amd64 assembly macro are the same sequence of lower-level macro invocations with the same arguments, up to the back-end suffix")
			checkAsmSiblings(c, prop+".asmsibling", sc.pre, sc.floor)
			if prop == "C14" {
				if p := c.Prog("amd64"); p != nil {
					checkAsmSelectors(c, p, "C14.dispatch", []string{"pke/kyber/internal/common", "sign/internal/dilithium"})
				}
			}
		}
	}
}

// checkAsmSelectors: the vector routines of one package are selected by one CPU test.
//
// The AVX2 back-ends of Kyber and Dilithium keep polynomials in a "tangled" coefficient order between the
// assembly routines; every wrapper of the package therefore has to take the same arm on a given CPU. The
// rule collects, for every call of a body-less (assembly) function whose name ends in AVX2, the CPU feature
// test that controls it (looking through a helper that merely returns such a test) and requires all call
// sites of the package to be controlled by the same one.
func checkAsmSelectors(c *Ctx, p *Program, rule string, pkgs []string) {
	for _, pkg := range pkgs {
		type site struct{ fn, callee, cond, pos string }
		var sites []site
		var fs []*ssa.Function
		for f := range p.AllFuncs {
			if f.Blocks != nil && funcPkgPath(f) == circlPath+"/"+pkg && sourceFunc(f) {
				fs = append(fs, f)
			}
		}
		sort.Slice(fs, func(i, j int) bool { return fs[i].String() < fs[j].String() })
		resolve := func(v ssa.Value) (string, bool) {
			if featureCond(p, v, 0) {
				return descVal(v), true
			}
			if cl, ok := v.(*ssa.Call); ok {
				if cal := cl.Call.StaticCallee(); cal != nil && cal.Blocks != nil && isCirclFunc(cal) && len(cal.Params) == 0 {
					var ds []string
					okAll := true
					for _, b := range cal.Blocks {
						if ret, isRet := b.Instrs[len(b.Instrs)-1].(*ssa.Return); isRet && len(ret.Results) == 1 {
							if featureCond(p, ret.Results[0], 0) {
								ds = append(ds, descVal(ret.Results[0]))
							} else {
								okAll = false
							}
						}
					}
					if okAll && len(ds) == 1 {
						return ds[0], true
					}
				}
			}
			return "", false
		}
		for _, f := range fs {
			for _, b := range f.Blocks {
				for _, in := range b.Instrs {
					ci, ok := in.(ssa.CallInstruction)
					if !ok {
						continue
					}
					cal := ci.Common().StaticCallee()
					if cal == nil || cal.Blocks != nil || !isCirclFunc(cal) || !strings.HasSuffix(cal.Name(), "AVX2") {
						continue
					}
					cond := ""
					for d := b; d.Idom() != nil && cond == ""; d = d.Idom() {
						pd := d.Idom()
						ifi, ok := pd.Instrs[len(pd.Instrs)-1].(*ssa.If)
						if !ok || len(d.Preds) != 1 {
							continue
						}
						if ds, ok := resolve(ifi.Cond); ok {
							arm := ""
							if pd.Succs[1] == d {
								arm = "not "
							}
							cond = arm + ds
						}
					}
					sites = append(sites, site{f.Name(), cal.Name(), cond, p.pos(in.Pos())})
				}
			}
		}
		what := pkg + ": every AVX2 routine is selected by the same CPU test"
		if len(sites) < 5 {
			c.ok(rule, what, fmt.Sprintf("not part of this build configuration (%d call sites of AVX2 routines)", len(sites)), "")
			continue
		}
		count := map[string]int{}
		for _, s := range sites {
			count[s.cond]++
		}
		major, n := "", 0
		for k, v := range count {
			if v > n || (v == n && k < major) {
				major, n = k, v
			}
		}
		var bad []string
		for _, s := range sites {
			switch {
			case s.cond == "":
				bad = append(bad, fmt.Sprintf("%s calls %s at %s under no CPU feature test", s.fn, s.callee, s.pos))
			case s.cond != major:
				bad = append(bad, fmt.Sprintf("%s selects %s by %q at %s, the other %d sites by %q", s.fn, s.callee, s.cond, s.pos, n, major))
			}
		}
		if len(bad) > 0 {
			sort.Strings(bad)
			c.bad(rule, what, strings.Join(bad, "; ")+": on a CPU where the two tests differ the wrappers mix the vector and the portable representation", "")
		} else {
			c.ok(rule, what, fmt.Sprintf("%d call sites, all under %q", len(sites), major), "")
		}
	}
}
