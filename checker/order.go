package main

// ORDER engine: must-precede facts decided on the SSA dominator tree.

import (
	"fmt"
	"strings"

	"golang.org/x/tools/go/ssa"
)

func instrDominates(a, b ssa.Instruction) bool {
	ba, bb := a.Block(), b.Block()
	if ba == bb {
		return instrIndex(a) < instrIndex(b)
	}
	return ba.Dominates(bb)
}

// orderRule: every instruction selected by isB must be dominated by one selected by isA.
func (c *Ctx) orderRule(p *Program, rule, what string, f *ssa.Function, descA string, isA func(ssa.Instruction) bool, descB string, isB func(ssa.Instruction) bool) bool {
	if f == nil {
		c.undecided(rule, what, "anchor function does not resolve in the loaded program", "")
		return false
	}
	construct := fname(f) + ": " + what
	var as, bs []ssa.Instruction
	for _, b := range f.Blocks {
		for _, in := range b.Instrs {
			if isA(in) {
				as = append(as, in)
			}
			if isB(in) {
				bs = append(bs, in)
			}
		}
	}
	if len(bs) == 0 {
		c.undecided(rule, construct, "no instruction of kind ["+descB+"] found: rule would be vacuous", p.fnPos(f))
		return false
	}
	var bad []string
	for _, b := range bs {
		ok := false
		for _, a := range as {
			if instrDominates(a, b) {
				ok = true
				break
			}
		}
		if !ok {
			bad = append(bad, p.pos(b.Pos()))
		}
	}
	if len(bad) > 0 {
		c.bad(rule, construct, fmt.Sprintf("[%s] at %s is not preceded on every path by [%s] (%d candidate(s))", descB, strings.Join(bad, ","), descA, len(as)), p.fnPos(f))
		return false
	}
	c.ok(rule, construct, fmt.Sprintf("[%s] dominates all %d [%s]", descA, len(bs), descB), p.fnPos(f))
	return true
}

// isCallTo builds an instruction predicate: call to one of the named callees, optionally
// requiring that argument argIdx is rooted at (a slice/conversion/address of) the given value.
func (p *Program) isCallTo(argIdx int, root func(ssa.Value) bool, callees ...string) func(ssa.Instruction) bool {
	set := map[string]bool{}
	for _, n := range callees {
		set[normName(n)] = true
	}
	return func(in ssa.Instruction) bool {
		ci, ok := in.(ssa.CallInstruction)
		if !ok {
			return false
		}
		c := ci.Common()
		if !set[normName(p.staticCalleeName(c))] {
			return false
		}
		if root == nil {
			return true
		}
		var args []ssa.Value
		if c.IsInvoke() {
			args = append(args, c.Value)
		}
		args = append(args, c.Args...)
		return argIdx < len(args) && root(addrRoot(args[argIdx]))
	}
}

// addrRoot strips slices, conversions, field/index addressing down to the base value.
func addrRoot(v ssa.Value) ssa.Value {
	for {
		switch x := v.(type) {
		case *ssa.Slice:
			v = x.X
		case *ssa.Convert:
			v = x.X
		case *ssa.ChangeType:
			v = x.X
		case *ssa.FieldAddr:
			v = x.X
		case *ssa.IndexAddr:
			v = x.X
		case *ssa.SliceToArrayPointer:
			v = x.X
		case *ssa.MakeInterface:
			v = x.X
		default:
			return v
		}
	}
}

func isParamNamed(name string) func(ssa.Value) bool {
	return func(v ssa.Value) bool {
		p, ok := v.(*ssa.Parameter)
		if !ok {
			return false
		}
		if p.Name() == name {
			return true
		}
		if f := p.Parent(); f != nil {
			if i := paramIdx(f, name); i >= 0 {
				return f.Params[i] == p
			}
		}
		return false
	}
}

// isCallReaching: a call to one of the named callees, or to a circl function whose body (followed through
// static calls up to the given depth) contains such a call on some path.
func (p *Program) isCallReaching(depth int, callees ...string) func(ssa.Instruction) bool {
	set := map[string]bool{}
	for _, n := range callees {
		set[normName(n)] = true
	}
	memo := map[*ssa.Function]map[int]bool{}
	var reaches func(f *ssa.Function, d int) bool
	reaches = func(f *ssa.Function, d int) bool {
		if f == nil || f.Blocks == nil || d < 0 {
			return false
		}
		if m, ok := memo[f]; ok {
			if v, ok := m[d]; ok {
				return v
			}
		} else {
			memo[f] = map[int]bool{}
		}
		memo[f][d] = false
		for _, b := range f.Blocks {
			for _, in := range b.Instrs {
				ci, ok := in.(ssa.CallInstruction)
				if !ok {
					continue
				}
				if set[normName(p.staticCalleeName(ci.Common()))] || reaches(ci.Common().StaticCallee(), d-1) {
					memo[f][d] = true
					return true
				}
			}
		}
		return false
	}
	return func(in ssa.Instruction) bool {
		ci, ok := in.(ssa.CallInstruction)
		if !ok {
			return false
		}
		return set[normName(p.staticCalleeName(ci.Common()))] || reaches(ci.Common().StaticCallee(), depth-1)
	}
}
