package oprf_test

// The finalised output equals the server's direct evaluation whatever blind was used. A zero blind
// produces the identity as blinded element and cannot be unblinded; it has to be refused.
// Copy to oprf/ and run: go test -run TestFindingZeroBlind ./oprf/

import (
	"bytes"
	"crypto/rand"
	"testing"

	"github.com/cloudflare/circl/oprf"
)

func TestFindingZeroBlind(t *testing.T) {
	for _, suite := range []oprf.Suite{oprf.SuiteRistretto255, oprf.SuiteP256} {
		key, err := oprf.GenerateKey(suite, rand.Reader)
		if err != nil {
			t.Fatal(err)
		}
		server := oprf.NewVerifiableServer(suite, key)
		client := oprf.NewVerifiableClient(suite, server.PublicKey())
		inputs := [][]byte{[]byte("input")}
		zero := suite.Group().NewScalar()
		fin, req, err := client.DeterministicBlind(inputs, []oprf.Blind{zero})
		if err != nil {
			continue // refused: fine
		}
		ev, err := server.Evaluate(req)
		if err != nil {
			continue
		}
		outs, err := client.Finalize(fin, ev)
		if err != nil {
			continue
		}
		want, _ := server.FullEvaluate(inputs[0])
		if !bytes.Equal(outs[0], want) {
			t.Errorf("%v: a zero blind was accepted and the finalised output differs from the direct evaluation", suite)
		}
	}
}
