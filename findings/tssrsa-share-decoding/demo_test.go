package rsa_test

// Demonstrates (C10): KeyShare/SignShare.UnmarshalBinary compute 8+siLen in uint16: for siLen >= 65528
// the sum wraps and the slice expression data[8:8+siLen] panics although every length test passed.
// Place in /repo/tss/rsa: go test -run TestFindingShareDecoding ./tss/rsa/

import (
	"encoding/binary"
	"testing"

	"github.com/cloudflare/circl/tss/rsa"
)

func TestFindingShareDecoding(t *testing.T) {
	data := make([]byte, 8+65535)
	binary.BigEndian.PutUint16(data[6:8], 65535)
	for name, f := range map[string]func() error{
		"KeyShare":  func() error { var k rsa.KeyShare; return k.UnmarshalBinary(data) },
		"SignShare": func() error { var s rsa.SignShare; return s.UnmarshalBinary(data) },
	} {
		func() {
			defer func() {
				if r := recover(); r != nil {
					t.Errorf("%s.UnmarshalBinary panics: %v", name, r)
				}
			}()
			_ = f()
		}()
	}
}
