package hpke_test

// Demonstrates (C01/C10): the HPKE X25519+Kyber768 hybrid KEM slices its inputs without length
// checks: Receiver.Setup with a short encapsulated key, and key unmarshalling of short data, panic.
// UnmarshalSealer/UnmarshalOpener index raw[0] of an empty input (C08/C10).
// Place in /repo/hpke: go test -run TestFindingHybridKEMBounds ./hpke/

import (
	"testing"

	"github.com/cloudflare/circl/hpke"
)

func TestFindingHybridKEMBounds(t *testing.T) {
	k := hpke.KEM_X25519_KYBER768_DRAFT00
	suite := hpke.NewSuite(k, hpke.KDF_HKDF_SHA256, hpke.AEAD_AES128GCM)
	_, sk, err := k.Scheme().GenerateKeyPair()
	if err != nil {
		t.Fatal(err)
	}
	try := func(what string, f func() error) {
		t.Helper()
		defer func() {
			if r := recover(); r != nil {
				t.Errorf("%s panics: %v", what, r)
			}
		}()
		if err := f(); err == nil {
			t.Errorf("%s: no error", what)
		}
	}
	try("Receiver.Setup(short enc)", func() error {
		r, _ := suite.NewReceiver(sk, nil)
		_, err := r.Setup(make([]byte, 10))
		return err
	})
	try("UnmarshalBinaryPublicKey(short)", func() error { _, err := k.Scheme().UnmarshalBinaryPublicKey(make([]byte, 5)); return err })
	try("UnmarshalBinaryPrivateKey(short)", func() error { _, err := k.Scheme().UnmarshalBinaryPrivateKey(make([]byte, 5)); return err })
	try("UnmarshalSealer(empty)", func() error { _, err := hpke.UnmarshalSealer(nil); return err })
	try("UnmarshalOpener(empty)", func() error { _, err := hpke.UnmarshalOpener(nil); return err })
}
