package tkn

// Demonstration (C10): a ciphertext whose header announces fewer c3 entries than the policy has
// wires makes DecryptCCA panic (index out of range in decapsulate) for a key satisfying the policy;
// an empty c3neg entry for a negated wire makes it dereference nil. The header is parsed and used
// before the MAC is verified, so no secret is needed to build such a ciphertext.
//
// Copy to abe/cpabe/tkn20/internal/tkn/ and run: go test -run TestDemoHeaderCounts .

import (
	"crypto/rand"
	"encoding/binary"
	"testing"
)

func TestDemoHeaderCounts(t *testing.T) {
	pp, sp, err := GenerateParams(rand.Reader)
	if err != nil {
		t.Fatal(err)
	}
	for ci, tc := range encTestCases[:3] {
		key, err := DeriveAttributeKeysCCA(rand.Reader, sp, tc.a)
		if err != nil {
			t.Fatal(err)
		}
		ct, err := EncryptCCA(rand.Reader, pp, tc.p, []byte("msg"))
		if err != nil {
			t.Fatal(err)
		}
		if _, err := DecryptCCA(ct, key); err != nil {
			t.Fatalf("case %d: honest ciphertext rejected: %v", ci, err)
		}
		// take the ciphertext apart
		rest, rm := checkCiphertextFormat(ct)
		id, rest, _ := removeLenPrefixed(rest)
		macData, rest, _ := rm(rest)
		tag, _, _ := removeLenPrefixed(rest)
		c1, envRaw, _ := rm(macData)
		hdr := &ciphertextHeader{}
		if err := hdr.unmarshalBinary(c1); err != nil {
			t.Fatal(err)
		}
		rebuild := func(h *ciphertextHeader) []byte {
			hb, err := h.marshalBinary()
			if err != nil {
				t.Fatal(err)
			}
			var md []byte
			md = appendLen32Prefixed(md, hb)
			md = append(md, envRaw...)
			out := []byte(CiphertextVersion)
			out = appendLenPrefixed(out, id)
			out = appendLen32Prefixed(out, md)
			out = appendLenPrefixed(out, tag)
			return out
		}
		try := func(name string, bad []byte) {
			defer func() {
				if r := recover(); r != nil {
					t.Errorf("case %d %s: DecryptCCA panicked: %v", ci, name, r)
				}
			}()
			if _, err := DecryptCCA(bad, key); err == nil {
				t.Errorf("case %d %s: malformed ciphertext accepted", ci, name)
			}
		}
		// (a) no c3 entries at all
		h := *hdr
		h.c3, h.c3neg = nil, nil
		try("c3 dropped", rebuild(&h))
		// (b) c3neg entries emptied (marshalBinary writes an empty item for nil); only a defect for
		// policies with a negated wire
		if ci == 2 {
			h = *hdr
			h.c3neg = make([]*matrixG1, len(hdr.c3neg))
			try("c3neg emptied", rebuild(&h))
		}
		// (c) c2 entries dropped
		h = *hdr
		h.c2 = nil
		try("c2 dropped", rebuild(&h))
		// (d) matrices of the wrong shape
		h = *hdr
		h.c2 = append([]*matrixG2(nil), hdr.c2...)
		h.c2[0] = newMatrixG2(0, 0)
		try("c2[0] is 0x0", rebuild(&h))
		h = *hdr
		h.c1 = newMatrixG2(1, 2)
		try("c1 is 1x2", rebuild(&h))
		h = *hdr
		h.c3 = append([]*matrixG1(nil), hdr.c3...)
		h.c3[0] = newMatrixG1(1, 1)
		try("c3[0] is 1x1", rebuild(&h))
	}
	_ = binary.LittleEndian
}
