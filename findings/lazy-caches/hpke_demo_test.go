package hpke

// Demonstrates (C11): xKEMPrivKey.Public() lazily fills a cache without synchronisation and
// publishes the pointer before the bytes: concurrent callers race, and a caller can observe the
// all-zero public key. In-package; place in /repo/hpke: go test -race -run TestFindingLazyPublic ./hpke/

import (
	"bytes"
	"sync"
	"testing"
)

func TestFindingLazyPublic(t *testing.T) {
	for iter := 0; iter < 200; iter++ {
		k := KEM_X25519_HKDF_SHA256.Scheme()
		seed := make([]byte, k.SeedSize())
		seed[0] = byte(iter)
		_, sk0 := k.DeriveKeyPair(seed)
		raw, _ := sk0.MarshalBinary()
		sk, err := k.UnmarshalBinaryPrivateKey(raw) // a key whose public part is not computed yet
		if err != nil {
			t.Fatal(err)
		}
		want := make([]byte, 32)
		{
			_, sk2 := k.DeriveKeyPair(seed)
			b, _ := sk2.Public().MarshalBinary()
			copy(want, b)
		}
		var wg sync.WaitGroup
		for g := 0; g < 8; g++ {
			wg.Add(1)
			go func() {
				defer wg.Done()
				b, _ := sk.Public().MarshalBinary()
				if !bytes.Equal(b, want) {
					t.Errorf("concurrent Public() returned %x, want %x", b, want)
				}
			}()
		}
		wg.Wait()
	}
}
