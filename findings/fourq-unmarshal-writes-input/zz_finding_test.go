package curve4q_test

// A public key may be used by any number of goroutines at once. Point.Unmarshal cleared and restored
// the sign bit inside the caller's buffer, so concurrent Shared calls with one peer key race on it
// (and one of them can decode the key with the wrong sign).
// Copy to dh/curve4q/ and run: go test -race -run TestFindingSharedWritesPublic ./dh/curve4q/

import (
	"crypto/rand"
	"sync"
	"testing"

	"github.com/cloudflare/circl/dh/curve4q"
)

func TestFindingSharedWritesPublic(t *testing.T) {
	var skA, pkA curve4q.Key
	_, _ = rand.Read(skA[:])
	curve4q.KeyGen(&pkA, &skA)
	var wg sync.WaitGroup
	for g := 0; g < 4; g++ {
		wg.Add(1)
		go func() {
			defer wg.Done()
			var sk, ss curve4q.Key
			_, _ = rand.Read(sk[:])
			for i := 0; i < 50; i++ {
				curve4q.Shared(&ss, &sk, &pkA)
			}
		}()
	}
	wg.Wait()
}
