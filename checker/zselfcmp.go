package main

import (
	"fmt"
	"go/token"
	"go/types"
	"sort"
	"strings"

	"golang.org/x/tools/go/ssa"
)

// SELFCMP: a comparison that decides a verdict compares two different objects.
//
// `check := encrypt(c, N, e, m); if c.Cmp(check) != 0 { reject }` is vacuous when encrypt returns its
// destination argument: both operands are then the same big.Int and the test never fails. The rule resolves
// both operands of every comparison call to their origin object (through calls that return one of their
// arguments: the math/big methods return their receiver, circl functions are summarised from their return
// statements) and reports a comparison whose two operands certainly are one object.
//
// LOOPALIAS: pointers collected in a loop point to distinct objects.
//
// `var x T; for i := range in { x = f(in[i]); list[i] = &x.g }` stores the same address n times; after the
// loop every entry shows the last value. Reported when the address of (a component of) a variable allocated
// outside the loop is stored into an element selected by a varying index while the variable itself is
// written inside the loop.

// returnsArg: the index of the argument every return statement of f hands back as result 0 (-1 if none).
type originEngine struct {
	p    *Program
	memo map[*ssa.Function]int
	busy map[*ssa.Function]bool
}

func (e *originEngine) returnsArg(f *ssa.Function) int {
	if f == nil || f.Blocks == nil {
		return -1
	}
	if r, ok := e.memo[f]; ok {
		return r
	}
	if e.busy[f] {
		return -1
	}
	e.busy[f] = true
	defer delete(e.busy, f)
	res := -2
	for _, b := range f.Blocks {
		ret, ok := b.Instrs[len(b.Instrs)-1].(*ssa.Return)
		if !ok || len(ret.Results) == 0 {
			continue
		}
		o := e.origin(ret.Results[0], 0)
		idx := -1
		for i, par := range f.Params {
			if o == ssa.Value(par) {
				idx = i
			}
		}
		if res == -2 {
			res = idx
		} else if res != idx {
			res = -1
		}
	}
	if res == -2 {
		res = -1
	}
	e.memo[f] = res
	return res
}

// origin: the object a pointer value certainly denotes (the value itself when nothing more is known).
func (e *originEngine) origin(v ssa.Value, depth int) ssa.Value {
	for ; depth < 32; depth++ {
		switch x := v.(type) {
		case *ssa.ChangeType:
			v = x.X
		case *ssa.Call:
			c0 := x.Common()
			if c0.IsInvoke() {
				return v
			}
			name := e.p.staticCalleeName(c0)
			if bigWriters[name] && len(c0.Args) > 0 && pointerLike(x.Type()) {
				v = c0.Args[0]
				continue
			}
			if i := e.returnsArg(c0.StaticCallee()); i >= 0 && i < len(c0.Args) {
				v = c0.Args[i]
				continue
			}
			return v
		case *ssa.Phi:
			var o ssa.Value
			for _, ed := range x.Edges {
				eo := e.origin(ed, depth+1)
				if o == nil {
					o = eo
				} else if o != eo {
					return v
				}
			}
			if o == nil {
				return v
			}
			return o
		default:
			return v
		}
	}
	return v
}

var comparisonCallees = map[string]bool{
	"(*math/big.Int).Cmp":               true,
	"(*math/big.Int).CmpAbs":            true,
	"bytes.Equal":                       true,
	"crypto/subtle.ConstantTimeCompare": true,
}

func isComparisonCall(name string) bool {
	if comparisonCallees[name] {
		return true
	}
	n := name[strings.LastIndex(name, ".")+1:]
	return n == "IsEqual" || n == "Equal" || n == "isEqual"
}

func checkSelfCompare(c *Ctx, p *Program, prop string, prefixes []string) {
	e := &originEngine{p: p, memo: map[*ssa.Function]int{}, busy: map[*ssa.Function]bool{}}
	var fs []*ssa.Function
	for f := range p.AllFuncs {
		if f.Blocks != nil && isCirclFunc(f) && sourceFunc(f) && !strings.Contains(funcPkgPath(f), "/internal/test") && (prefixes == nil || inScope(f, prefixes)) {
			fs = append(fs, f)
		}
	}
	sort.Slice(fs, func(i, j int) bool { return fs[i].String() < fs[j].String() })
	rule := prop + ".selfcmp"
	n, nbad := 0, 0
	for _, f := range fs {
		for _, b := range f.Blocks {
			for _, in := range b.Instrs {
				ci, ok := in.(ssa.CallInstruction)
				if !ok {
					continue
				}
				c0 := ci.Common()
				name := p.staticCalleeName(c0)
				if !isComparisonCall(name) {
					continue
				}
				var args []ssa.Value
				if c0.IsInvoke() {
					args = append(args, c0.Value)
				}
				args = append(args, c0.Args...)
				if len(args) != 2 || !pointerLike(args[0].Type()) || !pointerLike(args[1].Type()) {
					continue
				}
				n++
				a, bb := e.origin(args[0], 0), e.origin(args[1], 0)
				same := a == bb
				if !same {
					// interface values made from one pointer
					ma, oka := a.(*ssa.MakeInterface)
					mb, okb := bb.(*ssa.MakeInterface)
					if oka && okb && e.origin(ma.X, 0) == e.origin(mb.X, 0) {
						same = true
					}
				}
				if !same {
					continue
				}
				// x.Equal(x) written on purpose does not exist in the library; a method comparing its receiver
				// with itself through two names is what the rule is for
				nbad++
				c.bad(rule, fmt.Sprintf("%s: the operands of %s are two different objects", fname(f), shortCallee(name)),
					"both operands are the same object (one of them is the result of a call that returns its destination argument): the comparison cannot fail", p.pos(in.Pos()))
			}
		}
	}
	c.count("comparisons", n)
	if n == 0 {
		c.undecided(rule, "comparison calls with two pointer operands", "none found: the rule would be vacuous", "")
		return
	}
	if nbad == 0 {
		c.ok(rule, "every comparison call compares two different objects", fmt.Sprintf("%d comparison call sites, operands resolved through calls that return an argument", n), "")
	}
}

func shortCallee(name string) string {
	if j := strings.LastIndex(name, "/"); j >= 0 {
		return name[j+1:]
	}
	return name
}

// allocRoot: the local variable (Alloc) an address is a component of, nil if none.
func allocRoot(v ssa.Value) *ssa.Alloc {
	for i := 0; i < 32; i++ {
		switch x := v.(type) {
		case *ssa.Alloc:
			return x
		case *ssa.FieldAddr:
			v = x.X
		case *ssa.IndexAddr:
			if _, ok := x.Index.(*ssa.Const); !ok {
				return nil
			}
			v = x.X
		case *ssa.ChangeType:
			v = x.X
		default:
			return nil
		}
	}
	return nil
}

// loopSharedObjects: the second form of the same defect. `shares[i].f = acc.Mul(acc, x)` inside a loop stores
// the pointer acc itself (math/big methods return their receiver) into every element, and each iteration
// overwrites the one big.Int all of them point to.
func checkLoopSharedResult(c *Ctx, p *Program, rule string, fs []*ssa.Function) (int, int) {
	e := &originEngine{p: p, memo: map[*ssa.Function]int{}, busy: map[*ssa.Function]bool{}}
	nstores, nbad := 0, 0
	for _, f := range fs {
		hdrs := loopHeadersOf(f)
		if len(hdrs) == 0 {
			continue
		}
		inLoop := func(b *ssa.BasicBlock, h int) bool {
			if b == nil {
				return false
			}
			if b.Index == h {
				return true
			}
			for _, x := range hdrs[b.Index] {
				if x == h {
					return true
				}
			}
			return false
		}
		for _, b := range f.Blocks {
			if len(hdrs[b.Index]) == 0 {
				continue
			}
			for _, in := range b.Instrs {
				st, ok := in.(*ssa.Store)
				if !ok {
					continue
				}
				cl, ok := st.Val.(*ssa.Call)
				if !ok || !pointerLike(cl.Type()) {
					continue
				}
				o := e.origin(cl, 0)
				if o == ssa.Value(cl) {
					continue // the call creates (or may create) its result
				}
				oi, ok := o.(ssa.Instruction)
				if !ok {
					continue // a parameter: the caller's object, not a loop accumulator
				}
				// the destination varies with the iteration
				varies := false
				for a := st.Addr; a != nil; {
					switch x := a.(type) {
					case *ssa.FieldAddr:
						a = x.X
						continue
					case *ssa.IndexAddr:
						if _, isConst := x.Index.(*ssa.Const); !isConst {
							varies = true
						}
						a = x.X
						continue
					}
					break
				}
				if !varies {
					continue
				}
				nstores++
				for _, h := range hdrs[b.Index] {
					if inLoop(oi.Block(), h) {
						continue // created in this iteration
					}
					nbad++
					c.bad(rule, fmt.Sprintf("%s: the pointers stored per iteration point to distinct objects", fname(f)),
						fmt.Sprintf("the result of %s stored at %s is its destination argument %s, one object created outside the loop: every element ends up pointing to it and each iteration overwrites it", shortCallee(p.staticCalleeName(&cl.Call)), p.pos(st.Pos()), descVal(o)), p.pos(st.Pos()))
					break
				}
			}
		}
	}
	return nstores, nbad
}

func checkLoopAlias(c *Ctx, p *Program, prop string, prefixes []string) {
	var fs []*ssa.Function
	for f := range p.AllFuncs {
		if f.Blocks != nil && isCirclFunc(f) && sourceFunc(f) && !strings.Contains(funcPkgPath(f), "/internal/test") && (prefixes == nil || inScope(f, prefixes)) {
			fs = append(fs, f)
		}
	}
	sort.Slice(fs, func(i, j int) bool { return fs[i].String() < fs[j].String() })
	rule := prop + ".loopalias"
	nstores, nbad := 0, 0
	mod := p.Mod()
	for _, f := range fs {
		hdrs := loopHeadersOf(f)
		if len(hdrs) == 0 {
			continue
		}
		inLoop := func(b *ssa.BasicBlock, h int) bool {
			if b.Index == h {
				return true
			}
			for _, x := range hdrs[b.Index] {
				if x == h {
					return true
				}
			}
			return false
		}
		for _, b := range f.Blocks {
			if len(hdrs[b.Index]) == 0 {
				continue
			}
			for _, in := range b.Instrs {
				st, ok := in.(*ssa.Store)
				if !ok || !pointerLike(st.Val.Type()) {
					continue
				}
				ia, ok := st.Addr.(*ssa.IndexAddr)
				if !ok {
					continue
				}
				if _, isConst := ia.Index.(*ssa.Const); isConst {
					continue
				}
				al := allocRoot(st.Val)
				if al == nil {
					continue
				}
				nstores++
				for _, h := range hdrs[b.Index] {
					if inLoop(al.Block(), h) {
						continue // a fresh variable per iteration
					}
					// is the variable written inside this loop?
					written := ""
					for _, bb := range f.Blocks {
						if !inLoop(bb, h) {
							continue
						}
						for _, in2 := range bb.Instrs {
							switch y := in2.(type) {
							case *ssa.Store:
								if allocRoot(y.Addr) == al {
									written = p.pos(y.Pos())
								}
							case ssa.CallInstruction:
								c0 := y.Common()
								var args []ssa.Value
								if c0.IsInvoke() {
									args = append(args, c0.Value)
								}
								args = append(args, c0.Args...)
								w := map[int]bool{}
								for _, i := range externalWrites(p.staticCalleeName(c0), len(args)) {
									w[i] = true
								}
								if cal := c0.StaticCallee(); cal != nil && cal.Blocks != nil {
									for _, mw := range mod.of(cal) {
										var i int
										if _, err := fmt.Sscanf(mw.Root, "param#%d", &i); err == nil {
											w[i] = true
										}
									}
								}
								for i := range w {
									if i < len(args) && allocRoot(args[i]) == al {
										written = p.pos(y.Pos())
									}
								}
							}
						}
					}
					if written == "" {
						continue
					}
					nbad++
					c.bad(rule, fmt.Sprintf("%s: the pointers stored per iteration point to distinct objects", fname(f)),
						fmt.Sprintf("the address of (a component of) variable %s, declared outside the loop, is stored into an element chosen by the loop index at %s while the variable is overwritten in the loop (%s): all entries end up showing the last value", al.Comment, p.pos(st.Pos()), written), p.pos(st.Pos()))
					break
				}
			}
		}
	}
	n2, b2 := checkLoopSharedResult(c, p, rule, fs)
	nstores += n2
	nbad += b2
	c.count("loop_pointer_stores", nstores)
	if nbad == 0 {
		c.ok(rule, "pointers collected in loops point to distinct objects", fmt.Sprintf("%d stores of a local variable's address into an indexed element inside a loop inspected", nstores), "")
	}
}

var selfCmpScope = map[string][]string{
	"C02": {"sign/"},
	"C11": nil,
	"C16": {"oprf", "zk/", "ot/"},
	"C17": {"tss/", "secretsharing", "math/polynomial"},
	"C18": {"blindsign/"},
	"C19": {"vdaf/"},
	"C20": {"abe/"},
}

func init() {
	for prop, pres := range selfCmpScope {
		prop, pres := prop, pres
		prev := registry[prop]
		if prev == nil {
			panic("selfcmp: " + prop + " not registered")
		}
		registry[prop] = func(c *Ctx) {
			prev(c)
			if p := c.Prog("amd64"); p != nil {
				c.Clauses = append(c.Clauses, prop+".selfcmp: no verdict comparison compares an object with itself (operands resolved through calls that return their destination); "+prop+".loopalias: pointers stored per loop iteration do not all denote one variable that the loop overwrites")
				checkSelfCompare(c, p, prop, pres)
				checkLoopAlias(c, p, prop, pres)
				if prop == "C11" {
					checkInitCopy(c, p, prop, nil)
					checkLastElem(c, p, "C11.lastelem", nil)
					checkStaleCopy(c, p, "C11.stalecopy", nil)
				}
			}
		}
	}
}

var _ = token.NoPos

// INITCOPY: in a package initialiser a by-value copy of a package-level struct variable is taken only after
// the last assignment to that variable's fields. `G.base.self = G` stores a copy of G as it is at that
// moment; a field of G assigned afterwards is missing in the copy (the HPKE KEMs dispatch through such a
// copy: its identifier enters every labelled hash).
func checkInitCopy(c *Ctx, p *Program, prop string, prefixes []string) {
	rule := prop + ".initcopy"
	var fs []*ssa.Function
	for f := range p.AllFuncs {
		if f.Blocks == nil || !isCirclFunc(f) || f.Parent() != nil || !(f.Name() == "init" || strings.HasPrefix(f.Name(), "init#")) {
			continue
		}
		if strings.Contains(funcPkgPath(f), "/internal/test") || (prefixes != nil && !inScope(f, prefixes)) {
			continue
		}
		fs = append(fs, f)
	}
	sort.Slice(fs, func(i, j int) bool { return fs[i].String() < fs[j].String() })
	globalOf := func(v ssa.Value) *ssa.Global {
		for i := 0; i < 16; i++ {
			switch x := v.(type) {
			case *ssa.Global:
				return x
			case *ssa.FieldAddr:
				v = x.X
			case *ssa.IndexAddr:
				v = x.X
			default:
				return nil
			}
		}
		return nil
	}
	ncopies, nbad := 0, 0
	for _, f := range fs {
		// block reachability
		reach := map[int]map[int]bool{}
		for _, b := range f.Blocks {
			seen := map[int]bool{}
			stack := []*ssa.BasicBlock{b}
			for len(stack) > 0 {
				x := stack[len(stack)-1]
				stack = stack[:len(stack)-1]
				for _, s := range x.Succs {
					if !seen[s.Index] {
						seen[s.Index] = true
						stack = append(stack, s)
					}
				}
			}
			reach[b.Index] = seen
		}
		idx := map[ssa.Instruction]int{}
		for _, b := range f.Blocks {
			for i, in := range b.Instrs {
				idx[in] = i
			}
		}
		after := func(a, b ssa.Instruction) bool { // b may execute after a
			if a.Block() == b.Block() {
				return idx[b] > idx[a] || reach[a.Block().Index][a.Block().Index]
			}
			return reach[a.Block().Index][b.Block().Index]
		}
		for _, b := range f.Blocks {
			for _, in := range b.Instrs {
				ld, ok := in.(*ssa.UnOp)
				if !ok || ld.Op != token.MUL {
					continue
				}
				g, ok := ld.X.(*ssa.Global)
				if !ok || len(structFieldNames(ld.Type())) == 0 || len(*ld.Referrers()) == 0 {
					continue
				}
				ncopies++
				for _, bb := range f.Blocks {
					for _, in2 := range bb.Instrs {
						st, ok := in2.(*ssa.Store)
						if !ok || globalOf(st.Addr) != g || st.Addr == ssa.Value(g) {
							continue
						}
						if !after(ld, st) {
							continue
						}
						// the store of the copy itself
						derived := false
						switch v := st.Val.(type) {
						case *ssa.MakeInterface:
							derived = v.X == ssa.Value(ld)
						default:
							derived = st.Val == ssa.Value(ld)
						}
						if derived {
							continue
						}
						nbad++
						c.bad(rule, fmt.Sprintf("%s: the copy of %s is taken after its last field assignment", fname(f), g.Name()),
							fmt.Sprintf("a by-value copy of the variable is taken at %s, the field assignment at %s comes later and is missing in the copy", p.pos(ld.Pos()), p.pos(st.Pos())), p.pos(ld.Pos()))
					}
				}
			}
		}
	}
	c.count("init_struct_copies", ncopies)
	if nbad == 0 {
		c.ok(rule, "package initialisers copy a package-level struct only after its last field assignment", fmt.Sprintf("%d initialisers, %d by-value copies of package-level structs", len(fs), ncopies), "")
	}
}

// SUMDROPPED: hash.Hash.Sum appends the digest to its argument and returns the extended slice; a call whose
// result is dropped computes nothing the caller can see (`h.Sum(digest[:])` leaves digest untouched).
func checkSumDropped(c *Ctx, p *Program, rule string) {
	n, nbad := 0, 0
	var fs []*ssa.Function
	for f := range p.AllFuncs {
		if f.Blocks != nil && isCirclFunc(f) && sourceFunc(f) && !strings.Contains(funcPkgPath(f), "/internal/test") {
			fs = append(fs, f)
		}
	}
	sort.Slice(fs, func(i, j int) bool { return fs[i].String() < fs[j].String() })
	for _, f := range fs {
		for _, b := range f.Blocks {
			for _, in := range b.Instrs {
				cl, ok := in.(*ssa.Call)
				if !ok {
					continue
				}
				name := p.staticCalleeName(&cl.Call)
				if !strings.HasSuffix(name, ").Sum") || cl.Call.Signature().Results().Len() != 1 {
					continue
				}
				if _, isSlice := cl.Type().Underlying().(*types.Slice); !isSlice {
					continue
				}
				n++
				// `h.Sum(buf[:0])` with spare capacity writes into buf itself: the only form whose result may be
				// dropped
				inPlace := false
				if len(cl.Call.Args) > 0 {
					if sl, ok := cl.Call.Args[len(cl.Call.Args)-1].(*ssa.Slice); ok && sl.High != nil {
						if k, ok := sl.High.(*ssa.Const); ok && k.Value != nil && k.Value.ExactString() == "0" {
							inPlace = true
						}
					}
				}
				if len(*cl.Referrers()) == 0 && !inPlace {
					nbad++
					c.bad(rule, fname(f)+": the digest returned by Sum is used", "the result of "+shortCallee(name)+" at "+p.pos(cl.Pos())+" is dropped and the argument is not an empty slice with spare capacity: Sum appends to its argument and returns the new slice, the bytes the argument already holds are not changed", p.pos(cl.Pos()))
				}
			}
		}
	}
	c.count("sum_calls", n)
	if n == 0 {
		c.undecided(rule, "calls of Sum", "none found", "")
	} else if nbad == 0 {
		c.ok(rule, "every call of Sum uses the slice it returns", fmt.Sprintf("%d calls", n), "")
	}
}

// LASTELEM: a loop that walks a table visits its last entry.
//
// `for i := 0; i < len(tab)-1; i++ { use(tab[i]) }` never looks at tab[len-1]. Reported when the loop bound is
// len(x)-1 (or n-1 with n = len(x)), the body indexes x by the loop variable only (no x[i+1], which would be
// the pairwise idiom), and nothing else in the function touches the last element of x.
var lastElemExceptions = map[string]string{
	"kem/frodo/frodo640shake.sample": "FrodoKEM specification (Frodo.Sample): the sample is compared with the first len-1 entries of the CDF table; the last entry is 2^15-1 and can never be below a 15-bit sample",
}

func checkLastElem(c *Ctx, p *Program, rule string, prefixes []string) {
	var fs []*ssa.Function
	for f := range p.AllFuncs {
		if f.Blocks != nil && isCirclFunc(f) && sourceFunc(f) && !strings.Contains(funcPkgPath(f), "/internal/test") && (prefixes == nil || inScope(f, prefixes)) {
			fs = append(fs, f)
		}
	}
	sort.Slice(fs, func(i, j int) bool { return fs[i].String() < fs[j].String() })
	// length of the indexed object when it is known from its type, else -1
	arrLen := func(v ssa.Value) int64 {
		t := v.Type()
		if pt, ok := t.Underlying().(*types.Pointer); ok {
			t = pt.Elem()
		}
		if at, ok := t.Underlying().(*types.Array); ok {
			return at.Len()
		}
		return -1
	}
	isLenOf := func(v, x ssa.Value) bool {
		cl, ok := v.(*ssa.Call)
		if !ok {
			return false
		}
		bi, ok := cl.Call.Value.(*ssa.Builtin)
		return ok && bi.Name() == "len" && len(cl.Call.Args) == 1 && (cl.Call.Args[0] == x || descVal(cl.Call.Args[0]) == descVal(x))
	}
	nloops, nbad := 0, 0
	for _, f := range fs {
		hdrs := loopHeadersOf(f)
		inLoop := func(b *ssa.BasicBlock, h int) bool {
			if b.Index == h {
				return true
			}
			for _, x := range hdrs[b.Index] {
				if x == h {
					return true
				}
			}
			return false
		}
		type access struct {
			base, idx ssa.Value
			blk       *ssa.BasicBlock
		}
		var accs []access
		whole := map[string]bool{} // objects also reached as a whole (range, slice, call argument)
		for _, bb := range f.Blocks {
			for _, in := range bb.Instrs {
				switch y := in.(type) {
				case *ssa.IndexAddr:
					accs = append(accs, access{y.X, y.Index, bb})
				case *ssa.Index:
					accs = append(accs, access{y.X, y.Index, bb})
				case *ssa.Range:
					whole[descVal(y.X)] = true
				case *ssa.Slice:
					whole[descVal(y.X)] = true
				case ssa.CallInstruction:
					for _, a := range y.Common().Args {
						if bi, ok := y.Common().Value.(*ssa.Builtin); ok && (bi.Name() == "len" || bi.Name() == "cap") {
							continue
						}
						whole[descVal(a)] = true
					}
				}
			}
		}
		// loops `iv < B` with B one less than the length of something indexed by iv inside the loop
		short := map[string]map[ssa.Value]int{} // object -> induction variable -> header of its short loop
		for _, b := range f.Blocks {
			ifi, ok := b.Instrs[len(b.Instrs)-1].(*ssa.If)
			if !ok {
				continue
			}
			cmp, ok := ifi.Cond.(*ssa.BinOp)
			if !ok || (cmp.Op != token.LSS && cmp.Op != token.GTR) {
				continue
			}
			iv, ok := cmp.X.(*ssa.Phi)
			if !ok {
				continue
			}
			// the descending form: `for i := len(x)-1; i > 0; i--` never looks at x[0]
			down := cmp.Op == token.GTR
			if down {
				if k, ok := cmp.Y.(*ssa.Const); !ok || k.Value == nil || k.Value.ExactString() != "0" {
					continue
				}
			}
			for _, a := range accs {
				if a.idx != ssa.Value(iv) || !(inLoop(a.blk, b.Index) || b.Succs[0].Dominates(a.blk)) {
					continue
				}
				// only tables that are a parameter, a package-level variable or a local as a whole (a row of a
				// matrix selected by another index is a different object in every iteration)
				switch bv := a.base.(type) {
				case *ssa.Parameter, *ssa.Global, *ssa.Alloc:
				case *ssa.UnOp:
					switch bv.X.(type) {
					case *ssa.Global, *ssa.Alloc:
					default:
						continue
					}
				default:
					continue
				}
				isShort := false
				if down {
					for _, e := range iv.Edges {
						if k, ok := e.(*ssa.Const); ok && k.Value != nil {
							if n := arrLen(a.base); n > 1 && k.Value.ExactString() == fmt.Sprint(n-1) {
								isShort = true
							}
						}
						if sub, ok := e.(*ssa.BinOp); ok && sub.Op == token.SUB {
							if k, ok := sub.Y.(*ssa.Const); ok && k.Value != nil && k.Value.ExactString() == "1" && isLenOf(sub.X, a.base) {
								isShort = true
							}
						}
					}
				} else if k, ok := cmp.Y.(*ssa.Const); ok && k.Value != nil {
					if n := arrLen(a.base); n > 1 && k.Value.ExactString() == fmt.Sprint(n-1) {
						isShort = true
					}
				}
				if sub, ok := cmp.Y.(*ssa.BinOp); !down && ok && sub.Op == token.SUB {
					if k, ok := sub.Y.(*ssa.Const); ok && k.Value != nil && k.Value.ExactString() == "1" && isLenOf(sub.X, a.base) {
						isShort = true
					}
				}
				if !isShort {
					continue
				}
				d := descVal(a.base)
				if short[d] == nil {
					short[d] = map[ssa.Value]int{}
				}
				short[d][iv] = b.Index
			}
		}
		var objs []string
		for d := range short {
			objs = append(objs, d)
		}
		sort.Strings(objs)
		for _, d := range objs {
			nloops++
			if whole[d] {
				continue
			}
			// does any access reach the last element?
			reaches := false
			for _, a := range accs {
				if descVal(a.base) != d {
					continue
				}
				h, isShortIV := short[d][a.idx]
				// under the loop test (in the body, or in an exit taken from the body) the index is bounded
				if !isShortIV || !(inLoop(a.blk, h) || f.Blocks[h].Succs[0].Dominates(a.blk)) {
					reaches = true
				}
			}
			if reaches {
				continue
			}
			if why, ok := lastElemExceptions[fname(f)]; ok {
				c.ok(rule, fmt.Sprintf("%s: the loops over %s reach its last element", fname(f), d), "exception: "+why, p.fnPos(f))
				continue
			}
			nbad++
			c.bad(rule, fmt.Sprintf("%s: the loops over %s reach its last element", fname(f), d),
				"every access to it is indexed by a loop variable that stops one short of the end of the table (at len-2 going up, at 1 going down): that element is never looked at", p.fnPos(f))
		}
	}
	c.count("len_minus_one_loops", nloops)
	if nbad == 0 {
		c.ok(rule, "no table is walked only by loops that stop one short of its end", fmt.Sprintf("%d tables indexed by a loop bounded by len-1 inspected", nloops), "")
	}
}

// STALECOPY: a field copied from a sibling field of the same object is copied after the last write to it.
//
// `P.ta = P.x` followed by `fp.Neg(&P.x, &P.x)` leaves ta with the value x had before: the two fields that are
// meant to be equal (or derived from one another) disagree. Reported when a field of an object is assigned
// a load of another field of the same object and that other field may be written later in the function.
func checkStaleCopy(c *Ctx, p *Program, rule string, prefixes []string) {
	var fs []*ssa.Function
	for f := range p.AllFuncs {
		if f.Blocks != nil && isCirclFunc(f) && sourceFunc(f) && !strings.Contains(funcPkgPath(f), "/internal/test") && (prefixes == nil || inScope(f, prefixes)) {
			fs = append(fs, f)
		}
	}
	sort.Slice(fs, func(i, j int) bool { return fs[i].String() < fs[j].String() })
	mod := p.Mod()
	ncopies, nbad := 0, 0
	for _, f := range fs {
		reach := map[int]map[int]bool{}
		reachFrom := func(b *ssa.BasicBlock) map[int]bool {
			if m, ok := reach[b.Index]; ok {
				return m
			}
			seen := map[int]bool{}
			stack := []*ssa.BasicBlock{b}
			for len(stack) > 0 {
				x := stack[len(stack)-1]
				stack = stack[:len(stack)-1]
				for _, s := range x.Succs {
					if !seen[s.Index] {
						seen[s.Index] = true
						stack = append(stack, s)
					}
				}
			}
			reach[b.Index] = seen
			return seen
		}
		idx := map[ssa.Instruction]int{}
		for _, b := range f.Blocks {
			for i, in := range b.Instrs {
				idx[in] = i
			}
		}
		after := func(a, b ssa.Instruction) bool {
			if a.Block() == b.Block() && idx[b] > idx[a] {
				return true
			}
			return reachFrom(a.Block())[b.Block().Index]
		}
		fieldOf := func(v ssa.Value) *ssa.FieldAddr { // the field an address is rooted at
			for i := 0; i < 16; i++ {
				switch x := v.(type) {
				case *ssa.FieldAddr:
					return x
				case *ssa.IndexAddr:
					v = x.X
				case *ssa.Slice:
					v = x.X
				case *ssa.ChangeType:
					v = x.X
				default:
					return nil
				}
			}
			return nil
		}
		for _, b := range f.Blocks {
			for _, in := range b.Instrs {
				st, ok := in.(*ssa.Store)
				if !ok {
					continue
				}
				dst, ok := st.Addr.(*ssa.FieldAddr)
				if !ok {
					continue
				}
				ld, ok := st.Val.(*ssa.UnOp)
				if !ok || ld.Op != token.MUL {
					continue
				}
				src, ok := ld.X.(*ssa.FieldAddr)
				if !ok || src.Field == dst.Field || !sameLocation(src.X, dst.X, 0) {
					continue
				}
				if pointerLike(ld.Type()) {
					continue // sharing a pointer / slice is another matter (sharefield)
				}
				if _, isBasic := ld.Type().Underlying().(*types.Basic); isBasic {
					continue // a cursor saved before it is advanced (start = curr; curr++) is the usual snapshot
				}
				ncopies++
				// a later write to the source field
				var later string
				for _, bb := range f.Blocks {
					for _, in2 := range bb.Instrs {
						if !after(in, in2) {
							continue
						}
						switch y := in2.(type) {
						case *ssa.Store:
							if fa := fieldOf(y.Addr); fa != nil && fa.Field == src.Field && sameLocation(fa.X, src.X, 0) {
								// the other half of a swap (a, b = b, a) stores the old value of the destination
								if l2, ok := y.Val.(*ssa.UnOp); ok && l2.Op == token.MUL {
									if f2, ok := l2.X.(*ssa.FieldAddr); ok && f2.Field == dst.Field && sameLocation(f2.X, dst.X, 0) && idx[l2] < idx[in] && l2.Block() == in.Block() {
										continue
									}
								}
								later = p.pos(y.Pos())
							}
						case ssa.CallInstruction:
							c0 := y.Common()
							var args []ssa.Value
							if c0.IsInvoke() {
								args = append(args, c0.Value)
							}
							args = append(args, c0.Args...)
							w := map[int]bool{}
							for _, i := range externalWrites(p.staticCalleeName(c0), len(args)) {
								w[i] = true
							}
							if cal := c0.StaticCallee(); cal != nil && cal.Blocks != nil {
								for _, mw := range mod.of(cal) {
									var i int
									if _, err := fmt.Sscanf(mw.Root, "param#%d", &i); err == nil {
										w[i] = true
									}
								}
							}
							for i := range w {
								if i < len(args) {
									if fa := fieldOf(args[i]); fa != nil && fa.Field == src.Field && sameLocation(fa.X, src.X, 0) {
										later = p.pos(y.Pos())
									}
								}
							}
						}
					}
				}
				if later == "" {
					continue
				}
				nbad++
				c.bad(rule, fmt.Sprintf("%s: field %s is copied from field %s after the last write to it", fname(f), fieldName(dst), fieldName(src)),
					fmt.Sprintf("%s is assigned the value of %s at %s, and %s is written again at %s: the copy keeps the earlier value", fieldName(dst), fieldName(src), p.pos(st.Pos()), fieldName(src), later), p.pos(st.Pos()))
			}
		}
	}
	c.count("sibling_field_copies", ncopies)
	if nbad == 0 {
		c.ok(rule, "no field is copied from a sibling field that is written again afterwards", fmt.Sprintf("%d copies between fields of one object inspected", ncopies), "")
	}
}

func init() {
	for prop, pres := range map[string][]string{"C13": {"ecc/", "group", "sign/ed25519", "sign/ed448"}} {
		prop, pres := prop, pres
		prev := registry[prop]
		registry[prop] = func(c *Ctx) {
			prev(c)
			if p := c.Prog("amd64"); p != nil {
				c.Clauses = append(c.Clauses, prop+".stalecopy: a coordinate copied from a sibling coordinate of the same point is copied after the last write to it (T = x·y bookkeeping of extended coordinates)")
				checkStaleCopy(c, p, prop+".stalecopy", pres)
			}
		}
	}
}

func init() {
	for prop, pres := range map[string][]string{"C12": {"math", "sign/ed25519", "ecc", "dh/csidh", "vdaf/prio3/arith", "group"}, "C05": {"sign/ed25519", "sign/ed448", "ecc/goldilocks", "math"}} {
		prop, pres := prop, pres
		prev := registry[prop]
		registry[prop] = func(c *Ctx) {
			prev(c)
			if p := c.Prog("amd64"); p != nil {
				c.Clauses = append(c.Clauses, prop+".lastelem: no table (the bytes of a value compared with the modulus, a constant table) is walked only by loops that stop one element short of its end")
				checkLastElem(c, p, prop+".lastelem", pres)
			}
		}
	}
}
