#!/usr/bin/env python3
"""Validates seeded changes in scratch worktrees of /repo (outside /repo and /verif) and records which
checks detect them.  usage: validate_seeds.py [-j N] <seed-dir>...      (seed-dir holds patch.diff [+ demo*_test.go + agent meta])
For every seed: the patch applies to HEAD, the tree builds, the repository's own tests still pass
(same failures as the unchanged tree), the demonstration fails with the patch and passes without it,
and every registered quick check is run against the patched worktree (-repo).  The result is written
to <seed-dir>/validation.json; the worktree is removed afterwards."""
import concurrent.futures, glob, json, os, shutil, subprocess, sys, threading, time

GITLOCK = threading.Lock()

ENV = dict(os.environ, GOFLAGS="-mod=mod", GOPROXY="off", GOSUMDB="off", GOTOOLCHAIN="local", GOWORK="off")
PROPS = ["C%02d" % i for i in range(1, 21)]
BASE_FAIL = {"github.com/cloudflare/circl/hpke"}  # TestVectors fails on the unchanged tree (baseline always_fail)
SCR = "/tmp/sv"
CHECKS_ONLY = False

def run(cmd, cwd, timeout=1800):
    p = subprocess.run(cmd, cwd=cwd, env=ENV, shell=isinstance(cmd, str), stdout=subprocess.PIPE, stderr=subprocess.STDOUT, text=True, timeout=timeout)
    return p.returncode, p.stdout

def validate(seed):
    sid = os.path.basename(seed.rstrip("/"))
    wt = os.path.join(SCR, sid)
    res = {"seed": sid, "at": time.strftime("%Y-%m-%dT%H:%M:%SZ", time.gmtime())}
    patch = os.path.join(seed, "patch.diff") if os.path.isdir(seed) else seed
    try:
        with GITLOCK:
            shutil.rmtree(wt, ignore_errors=True)
            run(["git", "-C", "/repo", "worktree", "prune"], "/")
            rc, out = run(["git", "-C", "/repo", "worktree", "add", "--detach", wt, "HEAD"], "/")
        if rc != 0:
            res["error"] = "worktree: " + out[-300:]
            return res
        res["repo_head"] = run(["git", "rev-parse", "--short", "HEAD"], wt)[1].strip()
        rc, out = run(["git", "apply", patch], wt)
        res["applies"] = rc == 0
        if rc != 0:
            res["error"] = "apply: " + out[-300:]
            return res
        prev = None
        if CHECKS_ONLY:
            pv = os.path.join(seed, "validation.json") if os.path.isdir(seed) else seed + ".validation.json"
            if os.path.exists(pv):
                pj = json.load(open(pv))
                if pj.get("applies") and pj.get("builds") and pj.get("tests_pass_like_baseline") and pj.get("demo_fails_with_patch") in (True, None) and pj.get("demo_passes_without_patch") in (True, None):
                    prev = pj
        if prev is not None:
            # the change was confirmed earlier (build, suite, demonstration): only re-run the checks on it
            rc, out = run("go build ./...", wt)
            res["builds"] = rc == 0
            if rc != 0:
                res["error"] = "build: " + out[-500:]
                return res
            for k in ("tests_failed_packages", "tests_pass_like_baseline", "demo_fails_with_patch", "demo_passes_without_patch", "demo_output_with_patch"):
                if k in prev:
                    res[k] = prev[k]
            res["confirmed_at"] = prev.get("confirmed_at", prev.get("at"))
            res["confirmed_on_head"] = prev.get("confirmed_on_head", prev.get("repo_head"))
            det = {}
            evd = os.path.join(SCR, "ev-" + sid)
            os.makedirs(evd, exist_ok=True)
            for p in PROPS:
                rc, out = run([os.environ.get("CIRCLCHECK", "/verif/bin/circlcheck"), "-property", p, "-tier", "quick", "-repo", wt, "-evidence", os.path.join(evd, p + ".json")], "/verif", timeout=3600)
                if "VIOLATION" in out:
                    lines = [l.strip() for l in out.splitlines() if ": violated:" in l or ": undecided:" in l]
                    det[p] = [l[:260] for l in lines[:3]]
            shutil.rmtree(evd, ignore_errors=True)
            res["detected_by"] = det
            return res
        rc, out = run("go build ./... && go test -vet=off -count=1 -run '^$' ./... >/dev/null", wt)
        res["builds"] = rc == 0
        if rc != 0:
            res["error"] = "build: " + out[-500:]
            return res
        rc, out = run("go test -vet=off -count=1 -timeout 25m ./... 2>&1 | grep -E '^(FAIL|ok|panic)' ", wt)
        failed = sorted({l.split()[1] for l in out.splitlines() if l.startswith("FAIL") and len(l.split()) > 1 and "/" in l.split()[1]})
        res["tests_failed_packages"] = failed
        res["tests_pass_like_baseline"] = set(failed) <= BASE_FAIL
        meta = {}
        mp = os.path.join(seed, "meta.json") if os.path.isdir(seed) else None
        if mp and os.path.exists(mp):
            meta = json.load(open(mp))
        demos = glob.glob(os.path.join(seed, "demo*_test.go")) if os.path.isdir(seed) else []
        loc, cmd = meta.get("demo_location"), meta.get("demo_cmd")
        if cmd and "   (" in cmd:
            cmd = cmd.split("   (")[0]  # some agents appended a remark to the command
        if demos and loc and cmd:
            dst = os.path.join(wt, loc, "zz_" + os.path.basename(demos[0]))
            shutil.copy(demos[0], dst)
            rc1, out1 = run(cmd, wt)
            run(["git", "apply", "-R", patch], wt)
            rc2, out2 = run(cmd, wt)
            run(["git", "apply", patch], wt)
            os.remove(dst)
            res["demo_fails_with_patch"] = rc1 != 0
            res["demo_passes_without_patch"] = rc2 == 0
            res["demo_output_with_patch"] = "\n".join(l for l in out1.splitlines() if "---" in l or "panic" in l or "zz_" in l)[:600]
        det = {}
        evd = os.path.join(SCR, "ev-" + sid)
        os.makedirs(evd, exist_ok=True)
        for p in PROPS:
            rc, out = run([os.environ.get("CIRCLCHECK", "/verif/bin/circlcheck"), "-property", p, "-tier", "quick", "-repo", wt, "-evidence", os.path.join(evd, p + ".json")], "/verif", timeout=3600)
            if "VIOLATION" in out:
                lines = [l.strip() for l in out.splitlines() if ": violated:" in l or ": undecided:" in l]
                det[p] = [l[:260] for l in lines[:3]]
        shutil.rmtree(evd, ignore_errors=True)
        res["detected_by"] = det
    except Exception as e:  # noqa
        res["error"] = repr(e)[:300]
    finally:
        with GITLOCK:
            run(["git", "-C", "/repo", "worktree", "remove", "--force", wt], "/")
            shutil.rmtree(wt, ignore_errors=True)
    return res

def main():
    global CHECKS_ONLY
    args = sys.argv[1:]
    jobs = 4
    if args and args[0] == "--checks-only":
        CHECKS_ONLY = True; args = args[1:]
    if args and args[0] == "-j":
        jobs = int(args[1]); args = args[2:]
    os.makedirs(SCR, exist_ok=True)
    with concurrent.futures.ThreadPoolExecutor(max_workers=jobs) as ex:
        for res, seed in zip(ex.map(validate, args), args):
            out = os.path.join(seed, "validation.json") if os.path.isdir(seed) else seed + ".validation.json"
            json.dump(res, open(out, "w"), indent=1)
            print(res["seed"], "applies=%s builds=%s tests=%s demo=%s/%s detected=%s %s" % (res.get("applies"), res.get("builds"), res.get("tests_pass_like_baseline"), res.get("demo_fails_with_patch"), res.get("demo_passes_without_patch"), sorted(res.get("detected_by", {})), res.get("error", "")), flush=True)

main()
