package tkn

import (
	"crypto/rand"
	"testing"
)

// An attribute key is parsed from bytes: DecryptCCA must return an error for every encoding that
// UnmarshalBinary accepts. A key whose k1 matrix is 3x2 instead of 3x1 (entries duplicated) was accepted and
// made decapsulation panic with "misuse of addDuals"; a k3 matrix of another height made matrixG1.add panic.
// Place in abe/cpabe/tkn20/internal/tkn; go test -run TestFindingAttributeKeyMatrixShapes .
func TestFindingAttributeKeyMatrixShapes(t *testing.T) {
	pp, sp, err := GenerateParams(rand.Reader)
	if err != nil {
		t.Fatal(err)
	}
	policy := &Policy{Inputs: []Wire{{Label: "a", RawValue: "0", Value: ToScalar(0), Positive: true}}, F: Formula{}}
	ct, err := EncryptCCA(rand.Reader, pp, policy, []byte("msg"))
	if err != nil {
		t.Fatal(err)
	}
	for _, variant := range []string{"k1 with two columns", "k2 with two columns", "k3 with two columns"} {
		attrs := &Attributes{"a": {Value: ToScalar(0)}}
		key, err := DeriveAttributeKeysCCA(rand.Reader, sp, attrs)
		if err != nil {
			t.Fatal(err)
		}
		switch variant {
		case "k1 with two columns":
			wide := newMatrixG2(key.k1.rows, 2)
			for i := 0; i < key.k1.rows; i++ {
				wide.entries[2*i], wide.entries[2*i+1] = key.k1.entries[i], key.k1.entries[i]
			}
			key.k1 = wide
		case "k2 with two columns":
			wide := newMatrixG1(key.k2.rows, 2)
			for i := 0; i < key.k2.rows; i++ {
				wide.entries[2*i], wide.entries[2*i+1] = key.k2.entries[i], key.k2.entries[i]
			}
			key.k2 = wide
		case "k3 with two columns":
			m := key.k3["a"]
			wide := newMatrixG1(m.rows, 2)
			for i := 0; i < m.rows; i++ {
				wide.entries[2*i], wide.entries[2*i+1] = m.entries[i], m.entries[i]
			}
			key.k3["a"] = wide
		}
		enc, err := key.MarshalBinary()
		if err != nil {
			t.Fatal(err)
		}
		var got AttributesKey
		if err := got.UnmarshalBinary(enc); err != nil {
			continue // refused: fine
		}
		func() {
			defer func() {
				if r := recover(); r != nil {
					t.Errorf("%s: the key was accepted and decryption panics: %v", variant, r)
				}
			}()
			_, _ = DecryptCCA(ct, &got)
		}()
	}
}
