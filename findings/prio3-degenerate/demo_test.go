package prio3_test

// Demonstrates (C19): Prio3 constructors panic or succeed for degenerate parameters, Histogram panics
// for measurement == length, and PrepNext accepts a preparation message whose joint-randomness seed
// was removed (and panics on a nil state).
// Place in /repo/vdaf/prio3: go test -run TestFindingPrio3Degenerate ./vdaf/prio3/

import (
	"math"
	"testing"

	"github.com/cloudflare/circl/vdaf/prio3/histogram"
	"github.com/cloudflare/circl/vdaf/prio3/sum"
	"github.com/cloudflare/circl/vdaf/prio3/sumvec"
)

func noPanic(t *testing.T, what string, f func()) {
	t.Helper()
	defer func() {
		if r := recover(); r != nil {
			t.Errorf("%s panics: %v", what, r)
		}
	}()
	f()
}

func TestFindingPrio3Degenerate(t *testing.T) {
	ctx := []byte("ctx")
	noPanic(t, "sumvec.New(chunkLength=0)", func() {
		if _, err := sumvec.New(2, 4, 8, 0, ctx); err == nil {
			t.Errorf("sumvec.New with zero chunk length succeeded")
		}
	})
	noPanic(t, "histogram.New(chunkLength=0)", func() {
		if _, err := histogram.New(2, 4, 0, ctx); err == nil {
			t.Errorf("histogram.New with zero chunk length succeeded")
		}
	})
	if _, err := sum.New(2, math.MaxUint64, ctx); err == nil {
		t.Errorf("sum.New with a bound above the 64-bit field modulus succeeded")
	}
	noPanic(t, "histogram Shard(measurement == length)", func() {
		h, err := histogram.New(2, 4, 2, ctx)
		if err != nil {
			t.Fatal(err)
		}
		var nonce histogram.Nonce
		hp := h.Params()
		rnd := make([]byte, hp.RandSize())
		if _, _, err := h.Shard(4, &nonce, rnd); err == nil {
			t.Errorf("out-of-range histogram measurement accepted")
		}
	})
	// altered preparation message: joint randomness seed removed
	sv, err := sumvec.New(2, 2, 4, 2, ctx)
	if err != nil {
		t.Fatal(err)
	}
	var nonce sumvec.Nonce
	var vk sumvec.VerifyKey
	svp := sv.Params()
	rnd := make([]byte, svp.RandSize())
	ps, shares, err := sv.Shard([]uint64{1, 2}, &nonce, rnd)
	if err != nil {
		t.Fatal(err)
	}
	st, _, err := sv.PrepInit(&vk, &nonce, 0, ps, shares[0])
	if err != nil {
		t.Fatal(err)
	}
	if _, err := sv.PrepNext(st, new(sumvec.PrepMessage)); err == nil {
		t.Errorf("PrepNext accepted a preparation message without the joint randomness seed")
	}
	noPanic(t, "PrepNext(nil state)", func() {
		if _, err := sv.PrepNext(nil, new(sumvec.PrepMessage)); err == nil {
			t.Errorf("PrepNext accepted a nil state")
		}
	})
}
