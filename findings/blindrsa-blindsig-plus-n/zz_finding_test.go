package blindrsa_test

// Finalisation must fail for every altered blind signature. z and z + N unblind to the same value,
// so a blind signature that is not below the modulus must be refused.
// Copy to blindsign/blindrsa/ and run: go test -run TestFindingBlindSigPlusN ./blindsign/blindrsa/

import (
	"crypto/rand"
	"crypto/rsa"
	"math/big"
	"testing"

	"github.com/cloudflare/circl/blindsign/blindrsa"
)

func TestFindingBlindSigPlusN(t *testing.T) {
	for tries := 0; tries < 64; tries++ {
		key, err := rsa.GenerateKey(rand.Reader, 1024)
		if err != nil {
			t.Fatal(err)
		}
		client, err := blindrsa.NewClient(blindrsa.SHA384PSSDeterministic, &key.PublicKey)
		if err != nil {
			t.Fatal(err)
		}
		signer := blindrsa.NewSigner(key)
		msg := []byte("message")
		blinded, state, err := client.Blind(rand.Reader, msg)
		if err != nil {
			t.Fatal(err)
		}
		blindSig, err := signer.BlindSign(blinded)
		if err != nil {
			t.Fatal(err)
		}
		if _, err := client.Finalize(state, blindSig); err != nil {
			t.Fatalf("honest blind signature refused: %v", err)
		}
		z := new(big.Int).SetBytes(blindSig)
		z.Add(z, key.N)
		if z.BitLen() > 8*len(blindSig) {
			continue
		}
		altered := z.FillBytes(make([]byte, len(blindSig)))
		if _, err := client.Finalize(state, altered); err == nil {
			t.Errorf("Finalize accepted the altered blind signature z + N")
		}
		return
	}
	t.Skip("no blind signature with z+N below 2^(8k) found")
}
