package p384_test

// Demonstration (C13): CombinedMult(Q, m, n) = m*G + n*Q uses the incomplete Jacobian addition
// jacobianPoint.add, which (unlike its sibling mixadd) has no fallback for equal operands. When the
// running sums coincide - e.g. Q = G with m = n, or Q = 2G with m = 2n - the result is wrong
// (the point at infinity or garbage) although crypto/elliptic gives the right answer.
//
// Copy to ecc/p384/ and run: go test -run TestDemoCombinedMultDoubling ./ecc/p384/

import (
	"crypto/elliptic"
	"math/big"
	"testing"

	"github.com/cloudflare/circl/ecc/p384"
)

func TestDemoCombinedMultDoubling(t *testing.T) {
	std := elliptic.P384()
	c := p384.P384()
	params := std.Params()
	for _, tc := range []struct{ q, m, n int64 }{{1, 1, 1}, {1, 5, 5}, {1, 12345, 12345}, {2, 2, 1}, {2, 14, 7}, {3, 9, 3}} {
		qx, qy := std.ScalarBaseMult(big.NewInt(tc.q).Bytes())
		m, n := big.NewInt(tc.m).Bytes(), big.NewInt(tc.n).Bytes()
		// expected: (m + n*q) * G
		k := new(big.Int).Mul(big.NewInt(tc.n), big.NewInt(tc.q))
		k.Add(k, big.NewInt(tc.m))
		k.Mod(k, params.N)
		wx, wy := std.ScalarBaseMult(k.Bytes())
		gx, gy := c.CombinedMult(qx, qy, m, n)
		if gx.Cmp(wx) != 0 || gy.Cmp(wy) != 0 {
			t.Errorf("CombinedMult(Q=%dG, m=%d, n=%d): got (%x, %x), want (%x, %x)", tc.q, tc.m, tc.n, gx, gy, wx, wy)
		}
	}
	// opposite partial sums: (N-5)*G + 5*G = identity
	gx, gy := std.ScalarBaseMult(big.NewInt(1).Bytes())
	m := new(big.Int).Sub(params.N, big.NewInt(5))
	x, y := c.CombinedMult(gx, gy, m.Bytes(), big.NewInt(5).Bytes())
	if x.Sign() != 0 || y.Sign() != 0 {
		t.Errorf("CombinedMult(G, N-5, 5): got (%x, %x), want the point at infinity (0, 0)", x, y)
	}
}
