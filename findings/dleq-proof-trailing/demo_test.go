package dleq_test

// Demonstration (C16): Proof.UnmarshalBinary only rejected inputs shorter than two scalars, so an
// encoded proof followed by arbitrary bytes decoded to the same proof and verified.
//
// Copy to zk/dleq/ and run: go test -run TestDemoProofTrailing ./zk/dleq/

import (
	"crypto"
	"crypto/rand"
	"testing"

	"github.com/cloudflare/circl/group"
	"github.com/cloudflare/circl/zk/dleq"
)

func TestDemoProofTrailing(t *testing.T) {
	g := group.P256
	params := dleq.Params{G: g, H: crypto.SHA256, DST: []byte("demo")}
	k := g.RandomScalar(rand.Reader)
	a := g.Generator()
	ka := g.NewElement().Mul(a, k)
	b := g.RandomElement(rand.Reader)
	kb := g.NewElement().Mul(b, k)
	proof, err := dleq.Prover{Params: params}.Prove(k, a, ka, b, kb, rand.Reader)
	if err != nil {
		t.Fatal(err)
	}
	enc, _ := proof.MarshalBinary()
	p2 := new(dleq.Proof)
	if err := p2.UnmarshalBinary(g, append(enc, 0x42, 0x42)); err == nil {
		t.Errorf("proof with trailing bytes accepted (verifies: %v)", dleq.Verifier{Params: params}.Verify(a, ka, b, kb, p2))
	}
}
