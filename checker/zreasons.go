package main

import (
	"fmt"
	"go/token"
	"regexp"
	"sort"
	"strings"

	"golang.org/x/tools/go/ssa"
)

// REASONS: a verification function refuses only for the reasons its specification lists.
//
// An over-strict verifier breaks "honest signatures verify" / "exactly the pairs the reference accepts" as
// surely as a lax one breaks the other direction, and no guard rule sees an added test. For an anchored
// function the rule enumerates every *rejecting test* - a conditional branch with one successor from which
// only refusing exits are reachable and one from which an accepting exit is - and requires each to be
// either a comparison of parameter lengths with constants, or decided by a call of one of the callees the
// specification accounts for (the decoder of the key, the range test of S, the final comparison, ...). A
// test on anything else (a new "hardening" predicate) is reported with its position.

type reasonSpec struct {
	pkg, typ, name string
	callees        []string // callees whose result may decide a refusal
	conds          []string // further admissible condition descriptors (regular expressions)
	why            string
	noneOK         bool // a function whose verdict is the value of a final comparison has no rejecting branch
}

// condCallees: the calls a branch condition is computed from (through boolean / comparison operators,
// tuple extraction and short-circuit phis).
func condCallees(p *Program, v ssa.Value, seen map[ssa.Value]bool, out map[string]bool, other *[]string) {
	if seen[v] {
		return
	}
	seen[v] = true
	switch x := v.(type) {
	case *ssa.Const:
	case *ssa.BinOp:
		condCallees(p, x.X, seen, out, other)
		condCallees(p, x.Y, seen, out, other)
	case *ssa.UnOp:
		if x.Op == token.MUL {
			*other = append(*other, descVal(x))
			return
		}
		condCallees(p, x.X, seen, out, other)
	case *ssa.Extract:
		condCallees(p, x.Tuple, seen, out, other)
	case *ssa.Phi:
		for _, e := range x.Edges {
			condCallees(p, e, seen, out, other)
		}
	case *ssa.Convert:
		condCallees(p, x.X, seen, out, other)
	case *ssa.ChangeType:
		condCallees(p, x.X, seen, out, other)
	case *ssa.Call:
		if bi, ok := x.Call.Value.(*ssa.Builtin); ok {
			if bi.Name() == "len" || bi.Name() == "cap" {
				if _, isPar := addrRoot(x.Call.Args[0]).(*ssa.Parameter); isPar {
					return // a length of a parameter
				}
			}
			*other = append(*other, descVal(x))
			return
		}
		out[normName(p.staticCalleeName(&x.Call))] = true
	case *ssa.Parameter:
		// a flag parameter (preHash): selects a variant, is not a property of the input
		*other = append(*other, "param:"+x.Name())
	default:
		*other = append(*other, descVal(v))
	}
}

func (c *Ctx) rejectReasonsRule(p *Program, rule string, sp reasonSpec) {
	f := p.Func(sp.pkg, sp.typ, sp.name)
	what := "refuses only for the reasons of its specification (" + sp.why + ")"
	if f == nil {
		c.undecided(rule, sp.pkg+"."+sp.name+": "+what, "anchor function does not resolve", "")
		return
	}
	construct := fname(f) + ": " + what
	succ := succAuto(f)
	r := runGuard(&GuardQuery{P: p, Root: f, MaxDepth: 1})
	accBlock := map[int]bool{}
	nacc := 0
	for _, ri := range r.Returns {
		if ri.Instr.Parent() == f && succ.may(ri.Vals) {
			accBlock[ri.Instr.Block().Index] = true
			nacc++
		}
	}
	if nacc == 0 {
		c.undecided(rule, construct, "no accepting exit found", p.fnPos(f))
		return
	}
	// blocks from which an accepting exit is reachable
	canAccept := map[int]bool{}
	for changed := true; changed; {
		changed = false
		for _, b := range f.Blocks {
			if canAccept[b.Index] {
				continue
			}
			ok := accBlock[b.Index]
			for _, s := range b.Succs {
				if canAccept[s.Index] {
					ok = true
				}
			}
			if ok {
				canAccept[b.Index] = true
				changed = true
			}
		}
	}
	allowed := map[string]bool{}
	for _, n := range sp.callees {
		allowed[normName(n)] = true
	}
	var res []*regexp.Regexp
	for _, s := range sp.conds {
		res = append(res, regexp.MustCompile("^(?:"+s+")$"))
	}
	ntests := 0
	var bad []string
	for _, b := range f.Blocks {
		ifi, ok := b.Instrs[len(b.Instrs)-1].(*ssa.If)
		if !ok || !canAccept[b.Index] {
			continue
		}
		a0, a1 := canAccept[b.Succs[0].Index], canAccept[b.Succs[1].Index]
		if a0 == a1 {
			continue
		}
		ntests++
		calls := map[string]bool{}
		var other []string
		condCallees(p, ifi.Cond, map[ssa.Value]bool{}, calls, &other)
		d := descVal(ifi.Cond)
		okc := true
		for k := range calls {
			if !allowed[k] {
				okc = false
			}
		}
		if len(other) > 0 {
			okc = false
		}
		d2 := d
		if bo, ok := ifi.Cond.(*ssa.BinOp); ok && isCmp(bo.Op) {
			d2 = descVal(bo.X) + " " + bo.Op.String() + " " + descVal(bo.Y) // the form the guard rules' tables use
		}
		for _, re := range res {
			if re.MatchString(d) || re.MatchString(d2) {
				okc = true
			}
		}
		if !okc {
			var ks []string
			for k := range calls {
				if !allowed[k] {
					ks = append(ks, k)
				}
			}
			sort.Strings(ks)
			bad = append(bad, fmt.Sprintf("%s: refusal decided by %s %v %v", p.pos(ifi.Pos()), d, ks, other))
		}
	}
	if ntests == 0 && sp.noneOK {
		c.ok(rule, construct, "no branch refuses: the verdict is the value computed at the end", p.fnPos(f))
		return
	}
	if ntests == 0 {
		c.undecided(rule, construct, "no rejecting test found", p.fnPos(f))
		return
	}
	if len(bad) > 0 {
		sort.Strings(bad)
		c.bad(rule, construct, "a test the specification does not know refuses inputs it accepts: "+strings.Join(bad, "; "), p.fnPos(f))
		return
	}
	c.ok(rule, construct, fmt.Sprintf("%d rejecting tests: length comparisons and results of %s", ntests, strings.Join(sp.callees, ", ")), p.fnPos(f))
}

func init() {
	add := func(prop, rule, clause string, specs ...reasonSpec) {
		prev := registry[prop]
		registry[prop] = func(c *Ctx) {
			prev(c)
			if p := c.Prog("amd64"); p != nil {
				c.Clauses = append(c.Clauses, rule+": "+clause)
				for _, sp := range specs {
					c.rejectReasonsRule(p, rule, sp)
				}
			}
		}
	}
	add("C08", "C08.reasons", "Seal and Open of an HPKE context refuse only when the sequence number would overflow or the AEAD refuses (an added length test desynchronises the two sides: the sealer has already advanced)",
		reasonSpec{pkg: "hpke", typ: "openContext", name: "Open", why: "RFC 9180 5.2 ContextR.Open: the AEAD's verdict, the sequence-number overflow", callees: []string{"(hpke.encdecContext).increment", "invoke (crypto/cipher.AEAD).Open"}},
		reasonSpec{pkg: "hpke", typ: "sealContext", name: "Seal", why: "RFC 9180 5.2 ContextS.Seal: the sequence-number overflow", callees: []string{"(hpke.encdecContext).increment"}},
		reasonSpec{pkg: "hpke", typ: "encdecContext", name: "marshal", why: "every context serialises: only the byte builder can fail (a field longer than 255 octets)", noneOK: true})
	tk := "abe/cpabe/tkn20/internal/tkn"
	add("C20", "C20.couldreasons", "the could-decrypt predicate answers false only for a malformed ciphertext or when the satisfaction predicate fails (any further test makes it disagree with decryption)",
		reasonSpec{pkg: tk, name: "CouldDecrypt", why: "framing of the ciphertext, then Policy.Satisfaction", callees: []string{"(" + tk + ".ciphertextHeader).unmarshalBinary", tk + ".removeLenPrefixed", "(" + tk + ".Policy).Satisfaction"}, conds: []string{`\(call:\?#2!=nil\)`}})
	for _, prop := range []string{"C05", "C12"} {
		add(prop, prop+".qrreasons", "the inverse square root reports a non-residue only through its final comparison (zero numerators are residues: the points (0,1) and (0,-1) decode)",
			reasonSpec{pkg: "math/fp448", name: "InvSqrt", why: "isQR is the value of the final comparison y*z^2 == x", noneOK: true},
			reasonSpec{pkg: "math/fp25519", name: "InvSqrt", why: "isQR is decided by the final comparisons only", callees: []string{"math/fp25519.IsZero"}})
	}
}
