package tkn20_test

import (
	"crypto/rand"
	"testing"

	cpabe "github.com/cloudflare/circl/abe/cpabe/tkn20"
)

// A ciphertext whose embedded policy names a wire outside the formula must be refused by
// ExtractFromCiphertext (or at least never make a later call panic). Place in abe/cpabe/tkn20 and run
// go test -run TestFindingPolicyWires ./abe/cpabe/tkn20/ .
func TestFindingPolicyWires(t *testing.T) {
	pk, _, err := cpabe.Setup(rand.Reader)
	if err != nil {
		t.Fatal(err)
	}
	var pol cpabe.Policy
	if err := pol.FromString("a: 1 and b: 2"); err != nil {
		t.Fatal(err)
	}
	ct, err := pk.Encrypt(rand.Reader, pol, []byte("msg"))
	if err != nil {
		t.Fatal(err)
	}
	// the policy is serialized near the start of the ciphertext: corrupt every pair of bytes there
	at, n := 0, 160
	if n > len(ct)-1 {
		n = len(ct) - 1
	}
	for off := 0; off < n; off++ {
		mod := append([]byte{}, ct...)
		mod[at+off], mod[at+off+1] = 0xFF, 0xFF
		func() {
			defer func() {
				if r := recover(); r != nil {
					t.Errorf("bytes %d,%d of the policy set to ff ff: panic %v", off, off+1, r)
				}
			}()
			var got cpabe.Policy
			if err := got.ExtractFromCiphertext(mod); err == nil {
				_ = got.String()
				_ = got.ExtractAttributeValuePairs()
			}
		}()
	}
}
