package main

import (
	"fmt"
	"go/constant"
	"go/token"
	"sort"
	"strings"

	"golang.org/x/tools/go/ssa"
)

// inputMasks: the read-modify-write byte masks "buf[i] &= K" (constant i, K) a decoder applies to
// memory that holds its input: the input parameter itself, or a buffer that received a copy of it.
// Every input bit cleared before parsing is a bit the decoder ignores, so the set must be exactly
// the bits the format assigns another meaning to (sign / flag bits).
func inputMasks(p *Program, f *ssa.Function) (masks []string, pos map[string]token.Pos) {
	pos = map[string]token.Pos{}
	// buffers that receive the input: copy(dst, src) with src rooted at a parameter, *local = *param
	holds := map[string]bool{}
	isInputParam := func(v ssa.Value) bool {
		base, _ := memRoot(v)
		par, ok := base.(*ssa.Parameter)
		if !ok {
			return false
		}
		if f.Signature.Recv() != nil && len(f.Params) > 0 && par == f.Params[0] {
			return false
		}
		return sliceLike(par.Type()) || pointerLike(par.Type())
	}
	baseDesc := func(addr ssa.Value) string {
		// the buffer an element address belongs to
		for {
			switch x := addr.(type) {
			case *ssa.IndexAddr:
				addr = x.X
				continue
			case *ssa.Slice:
				addr = x.X
				continue
			}
			break
		}
		return descAddr(addr)
	}
	for _, b := range f.Blocks {
		for _, in := range b.Instrs {
			switch x := in.(type) {
			case *ssa.Call:
				if bi, ok := x.Call.Value.(*ssa.Builtin); ok && bi.Name() == "copy" && len(x.Call.Args) == 2 && isInputParam(x.Call.Args[1]) {
					holds[baseDesc(x.Call.Args[0])] = true
				}
			case *ssa.Store:
				if ld, ok := x.Val.(*ssa.UnOp); ok && ld.Op == token.MUL && isInputParam(ld.X) {
					holds[baseDesc(x.Addr)] = true
				}
			}
		}
	}
	for _, b := range f.Blocks {
		for _, in := range b.Instrs {
			st, ok := in.(*ssa.Store)
			if !ok {
				continue
			}
			bo, ok := st.Val.(*ssa.BinOp)
			if !ok || (bo.Op != token.AND && bo.Op != token.AND_NOT) {
				continue
			}
			var k *ssa.Const
			var ld *ssa.UnOp
			for _, pair := range [][2]ssa.Value{{bo.X, bo.Y}, {bo.Y, bo.X}} {
				if c, ok := pair[1].(*ssa.Const); ok {
					if l, ok := pair[0].(*ssa.UnOp); ok && l.Op == token.MUL {
						k, ld = c, l
					}
				}
			}
			if k == nil || ld == nil || k.Value == nil || descAddr(ld.X) != descAddr(st.Addr) {
				continue
			}
			ia, ok := st.Addr.(*ssa.IndexAddr)
			if !ok {
				continue
			}
			if !(isInputParam(st.Addr) || holds[baseDesc(st.Addr)]) {
				continue
			}
			idx := "?"
			if ic, ok := ia.Index.(*ssa.Const); ok && ic.Value != nil {
				idx = ic.Value.ExactString()
			} else {
				idx = descVal(ia.Index)
			}
			mv, _ := constant.Uint64Val(constant.ToInt(k.Value))
			mv &= 0xFF
			if bo.Op == token.AND_NOT {
				mv = ^mv & 0xFF
			}
			key := fmt.Sprintf("[%s]&=0x%02X", idx, mv)
			if _, dup := pos[key]; !dup {
				masks = append(masks, key)
				pos[key] = st.Pos()
			}
		}
	}
	sort.Strings(masks)
	return masks, pos
}

// maskRule: the decoder clears exactly the listed input bits before parsing.
func (c *Ctx) maskRule(p *Program, rule, what string, f *ssa.Function, want ...string) {
	if f == nil {
		c.undecided(rule, what, "function does not resolve", "")
		return
	}
	got, pos := inputMasks(p, f)
	construct := fname(f) + ": " + what
	allowed := map[string]bool{}
	for _, w := range want {
		allowed[w] = true
	}
	var extra []string
	for _, g := range got {
		if !allowed[g] {
			extra = append(extra, fmt.Sprintf("%s at %s", g, p.pos(pos[g])))
		}
	}
	if len(extra) > 0 {
		c.bad(rule, construct, "input bits cleared before parsing that the format does not reserve: "+strings.Join(extra, ", ")+fmt.Sprintf(" (reserved: %v)", want), p.fnPos(f))
		return
	}
	c.ok(rule, construct, fmt.Sprintf("masks applied to the input: %v; reserved by the format: %v", got, want), p.fnPos(f))
}
