package partiallyblindrsa

// Demonstration (C11): derivePublicKey built its HKDF input with append(metadata, 0x00), which writes
// the zero byte into the caller's buffer when the metadata slice has spare capacity. With metadata
// and message taken from one buffer, Blind overwrote the first byte of the message before encoding
// it, so the resulting signature was for a different message.
//
// Copy to blindsign/blindrsa/partiallyblindrsa/ and run: go test -run TestDemoMetadataAppend .

import (
	"bytes"
	"crypto"
	"crypto/rand"
	"crypto/rsa"
	"testing"
)

func TestDemoMetadataAppend(t *testing.T) {
	key, err := rsa.GenerateKey(rand.Reader, 1024)
	if err != nil {
		t.Fatal(err)
	}
	_ = key
	buf := []byte("metadatahello world")
	want := append([]byte(nil), buf...)
	metadata, message := buf[:8], buf[8:]
	v := NewVerifier(&key.PublicKey, crypto.SHA384)
	if _, _, err := v.Blind(rand.Reader, message, metadata); err != nil {
		t.Skip("Blind failed for an unrelated reason: ", err)
	}
	if !bytes.Equal(buf, want) {
		t.Errorf("Blind modified the caller's buffer: %q, want %q", buf, want)
	}
}
