#!/bin/bash
# usage: seedtest.sh <patch.diff> <property> [<property>...]
# Applies a seeded change to /repo, runs the named checks (evidence to a scratch dir), reverts.
set -u
patch=$1; shift
cd /verif
if ! git -C /repo diff --quiet; then echo "repo dirty; abort"; exit 2; fi
if ! git -C /repo apply "$patch" 2>/tmp/seedtest.err; then echo "APPLY-FAILED $(head -3 /tmp/seedtest.err)"; exit 3; fi
ev=$(mktemp -d)
for p in "$@"; do
  out=$(bin/circlcheck -property "$p" -evidence "$ev/$p.json" 2>&1)
  if echo "$out" | grep -q "^VIOLATION"; then
    echo "DETECTED by $p:"; echo "$out" | grep -E "violated|undecided" | cut -c1-300 | head -5
  else
    echo "missed by $p"
  fi
done
rm -rf "$ev"
git -C /repo checkout -- .
