package main

import (
	"fmt"
	"os"
	"path/filepath"
	"regexp"
	"sort"
	"strings"
)

// ASMARMS: the two arms of a CPU-feature dispatch in assembly are alternatives.
//
// `CMPB ·hasBMI2(SB), $1; JE fast; <legacy>; RET; fast: <mulx>; RET` selects one of two implementations of
// the same function. If the arm that is fallen into does not end in an unconditional transfer (RET or JMP)
// before the label of the other arm, execution continues into that arm and the operation is applied twice on
// CPUs that take the fall-through arm - invisible on the machine that runs the tests. For every conditional
// jump that directly follows a compare of a ·has* feature flag, the rule requires the instruction before the
// definition of the jump's label to be RET or JMP.
var (
	asmFeatCmp = regexp.MustCompile(`(?i)^CMPB\s+·has\w*\(SB\)`)
	asmCondJmp = regexp.MustCompile(`^J(E|NE|EQ|Z|NZ)\s+(\w+)\s*$`)
	asmLabel   = regexp.MustCompile(`^(\w+):\s*$`)
)

func asmInstrs(path string) ([]string, []int, error) {
	data, err := os.ReadFile(path)
	if err != nil {
		return nil, nil, err
	}
	var out []string
	var lines []int
	for i, ln := range strings.Split(string(data), "\n") {
		if j := strings.Index(ln, "//"); j >= 0 {
			ln = ln[:j]
		}
		ln = strings.TrimSpace(strings.TrimSuffix(strings.TrimSpace(ln), "\\"))
		if ln == "" || strings.HasPrefix(ln, "#") {
			if strings.HasPrefix(ln, "#define") {
				out = append(out, "#define")
				lines = append(lines, i+1)
			}
			continue
		}
		for _, part := range strings.Split(ln, ";") {
			part = strings.TrimSpace(part)
			if part != "" {
				out = append(out, part)
				lines = append(lines, i+1)
			}
		}
	}
	return out, lines, nil
}

func checkAsmArms(c *Ctx, rule string, floor int) {
	var files []string
	_ = filepath.Walk(c.Repo, func(path string, info os.FileInfo, err error) error {
		if err != nil {
			return nil
		}
		if info.IsDir() {
			if n := info.Name(); n == ".git" || n == "testdata" {
				return filepath.SkipDir
			}
			return nil
		}
		if strings.HasSuffix(path, "_amd64.s") || strings.HasSuffix(path, "_amd64.h") {
			files = append(files, path)
		}
		return nil
	})
	sort.Strings(files)
	nsites, nbad := 0, 0
	for _, path := range files {
		ins, lines, err := asmInstrs(path)
		if err != nil {
			c.undecided(rule, path, err.Error(), "")
			continue
		}
		rel, _ := filepath.Rel(c.Repo, path)
		for i := 0; i+1 < len(ins); i++ {
			if !asmFeatCmp.MatchString(ins[i]) {
				continue
			}
			m := asmCondJmp.FindStringSubmatch(ins[i+1])
			if m == nil {
				continue
			}
			label := m[2]
			// the definition of the label after the jump, within the same TEXT / macro
			def := -1
			for j := i + 2; j < len(ins); j++ {
				if strings.HasPrefix(ins[j], "TEXT ") || ins[j] == "#define" {
					break
				}
				if lm := asmLabel.FindStringSubmatch(ins[j]); lm != nil && lm[1] == label {
					def = j
					break
				}
			}
			construct := fmt.Sprintf("%s: dispatch on %s to %s", rel, strings.Fields(ins[i])[1], label)
			loc := fmt.Sprintf("%s:%d", rel, lines[i])
			if def < 0 {
				// a macro parameter used as label, or a backward jump: not the two-arm form
				if strings.Contains(ins[i+1], "label") {
					// CHECK_BMI2(label, legacy, bmi2): the macro body itself
					for j := i + 2; j < len(ins) && ins[j] != "#define" && !strings.HasPrefix(ins[j], "TEXT "); j++ {
						if ins[j] == label+":" {
							def = j
						}
					}
				}
				if def < 0 {
					continue
				}
			}
			nsites++
			prev := ins[def-1]
			op := strings.Fields(prev)[0]
			if op == "RET" || op == "JMP" {
				c.ok(rule, construct, "the fall-through arm ends in "+prev+" before "+label+":", loc)
				continue
			}
			nbad++
			c.bad(rule, construct, fmt.Sprintf("the arm that is fallen into ends in `%s` (line %d), not in RET or JMP: execution continues into the arm at %s and the operation is applied a second time on CPUs that do not take the jump", prev, lines[def-1], label), loc)
		}
	}
	c.count("asm_feature_dispatches", nsites)
	if nsites < floor {
		c.undecided(rule, "feature dispatches in amd64 assembly", fmt.Sprintf("only %d found (floor %d)", nsites, floor), "")
	}
	_ = nbad
}

func init() {
	prev := registry["C14"]
	registry["C14"] = func(c *Ctx) {
		prev(c)
		if c.override != "" && c.override != "amd64" {
			return
		}
		c.Clauses = append(c.Clauses, "C14.asmarms: at every CPU-feature dispatch in amd64 assembly the arm that is fallen into ends in RET or JMP before the other arm's label (no fall-through from one implementation into the other)")
		checkAsmArms(c, "C14.asmarms", 12)
	}
}

// CARRYCHAIN: the carry that an ADCQ / SBBQ consumes was produced by an arithmetic instruction.
//
// In a multi-limb addition `ADDQ a, r0; ADCQ $0, r1; ...` every ADCQ takes the carry flag of the instruction
// before it. A flag-clobbering instruction slipped in between - the classic is replacing `MOVQ $0, DX` by the
// shorter `XORQ DX, DX` - makes the next ADCQ add a carry that is always zero: wrong only for operands whose
// limb addition does carry. For every ADCQ / ADCL / SBBQ / SBBL in the amd64 assembly (macros included) the
// rule finds the closest preceding instruction, in straight-line order inside the same TEXT or macro, that
// writes the carry flag; it must not be a logic instruction (XOR, AND, OR, TEST), whose carry is constant 0.
// Conditional moves, sets and jumps on the carry (CMOVQCS / CMOVQCC / SETCS / JCS ...) consume it the same way.
// (The ADX instructions ADCXQ / ADOXQ start their chains from a flag cleared on purpose and are not subject.)
var (
	asmCarryConsumer = regexp.MustCompile(`^(ADCQ|ADCL|SBBQ|SBBL|CMOVQCS|CMOVQCC|CMOVLCS|CMOVLCC|CMOVQHI|CMOVQLS|SETCS|SETCC|JCS|JCC|JHI|JLS|RCLQ|RCRQ)\b`)
	asmCarryLogic    = regexp.MustCompile(`^(XORQ|XORL|ANDQ|ANDL|ORQ|ORL|TESTQ|TESTL|ANDNQ)\b`)
	asmCarryArith    = regexp.MustCompile(`^(ADDQ|ADDL|ADCQ|ADCL|SUBQ|SUBL|SBBQ|SBBL|NEGQ|NEGL|CMPQ|CMPL|SHLQ|SHRQ|SARQ|SHLL|SHRL|MULQ|MULL|IMULQ|IMUL3Q|BTQ|BTL|ADCXQ|RCLQ|RCRQ|SHLDQ|SHRDQ)\b`)
)

func checkAsmCarryChains(c *Ctx, rule string, floor int) {
	var files []string
	_ = filepath.Walk(c.Repo, func(path string, info os.FileInfo, err error) error {
		if err != nil {
			return nil
		}
		if info.IsDir() {
			if n := info.Name(); n == ".git" || n == "testdata" {
				return filepath.SkipDir
			}
			return nil
		}
		if strings.HasSuffix(path, "_amd64.s") || strings.HasSuffix(path, "_amd64.h") {
			files = append(files, path)
		}
		return nil
	})
	sort.Strings(files)
	n, nbad := 0, 0
	for _, path := range files {
		ins, lines, err := asmInstrs(path)
		if err != nil {
			c.undecided(rule, path, err.Error(), "")
			continue
		}
		rel, _ := filepath.Rel(c.Repo, path)
		for i, in := range ins {
			if !asmCarryConsumer.MatchString(in) {
				continue
			}
			n++
			// closest preceding flag writer in the same TEXT / macro, not across a label
			for j := i - 1; j >= 0; j-- {
				p := ins[j]
				if strings.HasPrefix(p, "TEXT ") || p == "#define" || asmLabel.MatchString(p) {
					break
				}
				if asmCarryArith.MatchString(p) {
					break
				}
				if asmCarryLogic.MatchString(p) {
					nbad++
					c.bad(rule, fmt.Sprintf("%s: the carry consumed by `%s` (line %d) comes from an arithmetic instruction", rel, in, lines[i]), fmt.Sprintf("the closest flag-writing instruction before it is `%s` (line %d), which clears the carry: the carry of the addition above it is lost whenever there is one", p, lines[j]), fmt.Sprintf("%s:%d", rel, lines[i]))
					break
				}
				// an invocation of another macro or an unknown mnemonic: not decided, stop looking
				op := strings.Fields(p)[0]
				if strings.Contains(op, "(") || !isUpperASCII(op) {
					break
				}
			}
		}
	}
	c.count("asm_carry_consumers", n)
	if n < floor {
		c.undecided(rule, "carry-consuming instructions in amd64 assembly", fmt.Sprintf("only %d found (floor %d)", n, floor), "")
	} else if nbad == 0 {
		c.ok(rule, "no ADCQ / SBBQ consumes a carry that a logic instruction has just cleared", fmt.Sprintf("%d carry-consuming instructions in %d files", n, len(files)), "")
	}
}

func isUpperASCII(s string) bool {
	for _, r := range s {
		if !(r >= 'A' && r <= 'Z' || r >= '0' && r <= '9') {
			return false
		}
	}
	return s != ""
}

func init() {
	for _, prop := range []string{"C14", "C06", "C12"} {
		prop := prop
		prev := registry[prop]
		registry[prop] = func(c *Ctx) {
			prev(c)
			if c.override != "" && c.override != "amd64" {
				return
			}
			c.Clauses = append(c.Clauses, prop+".carrychain: in the amd64 assembly no ADCQ / SBBQ consumes a carry flag that a logic instruction (XOR, AND, OR, TEST) has cleared since the last arithmetic instruction")
			checkAsmCarryChains(c, prop+".carrychain", 500)
		}
	}
}
