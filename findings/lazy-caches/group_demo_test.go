package group_test

// Demonstrates (C11): wElt.MarshalBinary[Compress] reduces the coordinates in place (x.Mod(x, p)):
// marshalling one element from several goroutines (a read-only use) is a data race.
// Place in /repo/group: go test -race -run TestFindingMarshalWrites ./group/

import (
	"sync"
	"testing"

	"github.com/cloudflare/circl/group"
)

func TestFindingMarshalWrites(t *testing.T) {
	g := group.P256
	e := g.NewElement().MulGen(g.NewScalar().SetUint64(7))
	var wg sync.WaitGroup
	for i := 0; i < 8; i++ {
		wg.Add(1)
		go func() { defer wg.Done(); _, _ = e.MarshalBinaryCompress() }()
	}
	wg.Wait()
}
