package main

import (
	"fmt"
	"go/token"
	"go/types"
	"regexp"
	"sort"
	"strings"

	"golang.org/x/tools/go/ssa"
)

func init() { registry["C11"] = checkC11 }

var mutatorName = regexp.MustCompile(`^(Unmarshal|Unpack|Set|Import|Generate|From|Read|Reset|Write|Clone|Init|Derive|Random|Hash|Encode|Add|Sub|Mul|Neg|Inv|Dbl|Double|CMov|CSelect|Cswap|Cmov|New|Copy|Normalize|ToAffine|Absorb|Switch|Permute|String$)`)

func checkC11(c *Ctx) {
	p := c.Prog("amd64")
	if p == nil {
		return
	}
	c.Clauses = append(c.Clauses,
		"C11.nosharedwrite: read-only operations of key, scheme and suite types (Public, Equal, Marshal*, Sign, Verify, Encapsulate*, Decapsulate*, Scheme …) perform no unsynchronised write to memory reachable from their receiver or from package-level variables (necessary for race-free concurrent use; finds memoising accessors)",
		"C11.noglobalalias: accessors and constructors return no slice or pointer into package-level data or into crypto/elliptic's shared curve parameters",
		"C11.operands: API operations write none of their non-receiver pointer operands (except declared outputs)",
		"C11.overwrite: decoders assign every receiver field they define on every accepting path and never read-modify-write old contents",
		"C11.fresh: a decoder writes through a pointer held in a field of its receiver only after assigning that field itself on every path, so it cannot overwrite an object shared with another value")
	c.NotDec = append(c.NotDec, "replay equivalence over call histories", "absence of data races in general (only the no-write-on-read-path condition)", "goroutine interleavings")

	mod := p.Mod()
	// ---- KEYTYPES ----
	var ifaces []*types.Interface
	for _, n := range [][2]string{{"kem", "PrivateKey"}, {"kem", "PublicKey"}, {"kem", "Scheme"}, {"sign", "PrivateKey"}, {"sign", "PublicKey"}, {"sign", "Scheme"}} {
		if i := p.iface(n[0], n[1]); i != nil {
			ifaces = append(ifaces, i)
		}
	}
	keyTypes := map[string]*types.Named{}
	for _, i := range ifaces {
		for _, n := range p.implementers(i) {
			keyTypes[n.String()] = n
		}
	}
	for _, extra := range [][2]string{{"oprf", "PrivateKey"}, {"oprf", "PublicKey"}, {"tss/rsa", "KeyShare"}, {"hpke", "Suite"}, {"dh/csidh", "PrivateKey"}, {"dh/csidh", "PublicKey"},
		{"sign/bls", "PrivateKey"}, {"sign/bls", "PublicKey"}, {"blindsign/blindrsa", "Client"}, {"blindsign/blindrsa", "Verifier"}, {"blindsign/blindrsa", "Signer"},
		{"oprf", "Client"}, {"oprf", "VerifiableClient"}, {"oprf", "PartialObliviousClient"}, {"oprf", "Server"}, {"oprf", "VerifiableServer"}, {"oprf", "PartialObliviousServer"},
		{"abe/cpabe/tkn20", "PublicKey"}, {"abe/cpabe/tkn20", "SystemSecretKey"}, {"abe/cpabe/tkn20", "AttributeKey"}} {
		if pk := p.ByPath[circlPath+"/"+extra[0]]; pk != nil {
			if tn, ok := pk.Types.Scope().Lookup(extra[1]).(*types.TypeName); ok {
				if n, ok := tn.Type().(*types.Named); ok {
					keyTypes[n.String()] = n
				}
			}
		}
	}
	var names []string
	for k := range keyTypes {
		names = append(names, k)
	}
	sort.Strings(names)
	c.count("key_types", len(names))
	if len(names) < 60 {
		c.undecided("C11.nosharedwrite", "KEYTYPES", fmt.Sprintf("only %d key/scheme types enumerated (floor 60)", len(names)), "")
	}
	nm := 0
	for _, k := range names {
		n := keyTypes[k]
		for _, f := range p.methodsOf(n) {
			name := f.Name()
			if mutatorName.MatchString(name) || f.Blocks == nil || !f.Object().Exported() {
				continue
			}
			nm++
			var bad []string
			for _, w := range mod.of(f) {
				if w.Sync {
					continue
				}
				if w.Root == "param#0" || strings.HasPrefix(w.Root, "global:") {
					if strings.HasPrefix(w.Root, "global:") && strings.Contains(w.Root, "init$guard") {
						continue
					}
					bad = append(bad, fmt.Sprintf("%s written at %s (%s)", w.Root, p.pos(w.Pos), w.Via))
				}
			}
			construct := fname(f) + ": read-only operation writes no shared state"
			if len(bad) > 0 {
				sort.Strings(bad)
				if len(bad) > 3 {
					bad = append(bad[:3], fmt.Sprintf("… %d more", len(bad)-3))
				}
				c.bad("C11.nosharedwrite", construct, strings.Join(bad, "; "), p.fnPos(f))
			} else {
				c.ok("C11.nosharedwrite", construct, "mod-set contains neither the receiver nor a package-level variable", p.fnPos(f))
			}
		}
	}
	c.count("read_methods", nm)
	checkC11Alias(c, p)
	checkC11Operands(c, p)
	checkC11Overwrite(c, p)
	checkC11Fresh(c, p)
}

// sharedSource: v is (derived from) a package-level variable or crypto/elliptic's shared CurveParams.
func sharedSource(p *Program, v ssa.Value) string {
	base, _ := memRoot(v)
	switch b := base.(type) {
	case *ssa.Global:
		if b.Pkg != nil && isCirclPath(b.Pkg.Pkg.Path()) {
			return "package-level variable " + short(b.String())
		}
	case *ssa.Call:
		n := p.staticCalleeName(&b.Call)
		if n == "invoke (crypto/elliptic.Curve).Params" || strings.HasSuffix(n, ").Params") && strings.Contains(n, "crypto/elliptic") {
			return "crypto/elliptic's shared CurveParams"
		}
	}
	return ""
}

func mutableRefType(t types.Type) bool {
	switch u := t.Underlying().(type) {
	case *types.Slice:
		return true
	case *types.Pointer:
		if n, ok := u.Elem().(*types.Named); ok && n.Obj().Pkg() != nil && n.Obj().Pkg().Path() == "math/big" {
			return true
		}
		if _, ok := u.Elem().Underlying().(*types.Array); ok {
			return true
		}
	case *types.Map:
		return true
	}
	return false
}

// checkC11Alias: exported functions and methods of non-internal packages return no slice, map,
// *big.Int or array pointer that aliases shared data, directly or stored in a returned fresh object.
func checkC11Alias(c *Ctx, p *Program) {
	nf := 0
	var funcs []*ssa.Function
	for f := range p.AllFuncs {
		if f.Blocks == nil || !isCirclFunc(f) || f.Object() == nil || !f.Object().Exported() || f.Synthetic != "" {
			continue
		}
		if strings.Contains(funcPkgPath(f), "/internal") || f.Signature.Results().Len() == 0 {
			continue
		}
		funcs = append(funcs, f)
	}
	sort.Slice(funcs, func(i, j int) bool { return funcs[i].String() < funcs[j].String() })
	var bad []string
	for _, f := range funcs {
		nf++
		// fresh objects returned by f
		returned := map[ssa.Value]bool{}
		for _, b := range f.Blocks {
			for _, in := range b.Instrs {
				r, ok := in.(*ssa.Return)
				if !ok {
					continue
				}
				for _, v := range r.Results {
					if mutableRefType(v.Type()) {
						if src := sharedSource(p, v); src != "" {
							bad = append(bad, fmt.Sprintf("%s: %s returns %s (%s) without copying", p.pos(r.Pos()), fname(f), descVal(v), src))
						}
					}
					base, _ := memRoot(v)
					returned[base] = true
				}
			}
		}
		for _, b := range f.Blocks {
			for _, in := range b.Instrs {
				st, ok := in.(*ssa.Store)
				if !ok || !mutableRefType(st.Val.Type()) {
					continue
				}
				src := sharedSource(p, st.Val)
				if src == "" {
					continue
				}
				base, _ := memRoot(st.Addr)
				if a, ok := base.(*ssa.Alloc); ok && a.Heap && returned[a] {
					bad = append(bad, fmt.Sprintf("%s: %s stores %s (%s) in the object it returns", p.pos(st.Pos()), fname(f), descVal(st.Val), src))
				}
			}
		}
	}
	c.count("accessor_functions", nf)
	sort.Strings(bad)
	bad = uniq(bad)
	if nf < 500 {
		c.undecided("C11.noglobalalias", "exported functions", fmt.Sprintf("only %d exported functions enumerated", nf), "")
	}
	if len(bad) == 0 {
		c.ok("C11.noglobalalias", "exported functions and methods return no alias of shared data", fmt.Sprintf("%d functions inspected", nf), "")
		return
	}
	for _, b := range bad {
		i := strings.Index(b, ": ")
		c.bad("C11.noglobalalias", b[i+2:], "returned value aliases shared data", b[:i])
	}
}

var outputParam = regexp.MustCompile(`^(dst|out|output|buf|b|ct|ss|sig|signature|shared|to|result|res|z|c|r|pk|sk|public|secret|key|k|data|digest|sum|p|q|e|m|x|y|w|v|s|state|st|a|t\d*|h|hint|h0|tab|table|ret|pub|priv|enc|dec|proof|tk|rnd|rand|random|seed|xof|reader|rd|nonce|plaintext|ciphertext|msg|dest)$`)

// checkC11Operands: protocol-level API operations do not write their non-receiver operands.
func checkC11Operands(c *Ctx, p *Program) {
	mod := p.Mod()
	pkgs := []string{"oprf", "zk/dleq", "zk/dl", "zk/qndleq", "secretsharing", "math/polynomial", "tss/rsa", "hpke", "sign/bls", "blindsign/blindrsa", "blindsign/blindrsa/partiallyblindrsa", "abe/cpabe/tkn20", "ot/simot", "kem/hybrid", "kem/xwing"}
	// declared outputs, by (function, parameter name)
	declared := map[string]bool{}
	n := 0
	for _, pkg := range pkgs {
		path := circlPath + "/" + pkg
		var funcs []*ssa.Function
		for f := range p.AllFuncs {
			if funcPkgPath(f) == path && f.Blocks != nil && f.Object() != nil && f.Object().Exported() && f.Synthetic == "" && f.Parent() == nil {
				funcs = append(funcs, f)
			}
		}
		sort.Slice(funcs, func(i, j int) bool { return funcs[i].String() < funcs[j].String() })
		for _, f := range funcs {
			first := 0
			if f.Signature.Recv() != nil {
				first = 1
			}
			n++
			var bad []string
			for _, w := range mod.of(f) {
				var i int
				if _, err := fmt.Sscanf(w.Root, "param#%d", &i); err != nil || i < first || i >= len(f.Params) {
					continue
				}
				par := f.Params[i]
				name := par.Name()
				// documented output conventions: "...To(ct, ss, ...)" style destinations, io.Writer-like, hash states
				if strings.HasSuffix(f.Name(), "To") && (name == "ct" || name == "ss" || name == "sig" || name == "signature" || name == "dst" || name == "out") {
					continue
				}
				if declared[fname(f)+"#"+name] {
					continue
				}
				if regexp.MustCompile(`^(Pack|Marshal|Encode|Export|Read|Fill|Write|Bytes|Serialize|Append)`).MatchString(f.Name()) {
					if _, isSlice := par.Type().Underlying().(*types.Slice); isSlice {
						continue // the byte-slice argument of a Pack/Export/Read-style method is its output
					}
				}
				bad = append(bad, fmt.Sprintf("operand %s written at %s (%s)", name, p.pos(w.Pos), w.Via))
			}
			construct := fname(f) + ": operands other than the receiver are not written"
			if len(bad) > 0 {
				sort.Strings(bad)
				if len(bad) > 3 {
					bad = append(bad[:3], fmt.Sprintf("… %d more", len(bad)-3))
				}
				c.bad("C11.operands", construct, strings.Join(bad, "; "), p.fnPos(f))
			} else {
				c.ok("C11.operands", construct, "mod-set contains no non-receiver parameter", p.fnPos(f))
			}
		}
	}
	c.count("operand_functions", n)
}

// checkC11Overwrite: decoders assign every field they define on every accepting path, and do not
// combine the decoded value with the old contents.
func checkC11Overwrite(c *Ctx, p *Program) {
	type dec struct{ pkg, typ, name string }
	decs := []dec{{"tss/rsa", "KeyShare", "UnmarshalBinary"}, {"tss/rsa", "SignShare", "UnmarshalBinary"}, {"dh/csidh", "PublicKey", "Import"}, {"dh/csidh", "PrivateKey", "Import"},
		{"oprf", "PrivateKey", "UnmarshalBinary"}, {"oprf", "PublicKey", "UnmarshalBinary"}, {"sign/bls", "PrivateKey", "UnmarshalBinary"},
		{"group", "wElt", "UnmarshalBinary"}, {"group", "wScl", "UnmarshalBinary"}, {"zk/dleq", "Proof", "UnmarshalBinary"}}
	for _, d := range decs {
		f := p.Func(d.pkg, d.typ, d.name)
		what := d.pkg + "." + d.typ + "." + d.name
		if f == nil {
			c.undecided("C11.overwrite", what, "anchor does not resolve", "")
			continue
		}
		// (a) read-modify-write of receiver memory
		var rmw []string
		for _, b := range f.Blocks {
			for _, in := range b.Instrs {
				st, ok := in.(*ssa.Store)
				if !ok || sharedRoot(f, st.Addr) != "param#0" {
					continue
				}
				if bo, ok := st.Val.(*ssa.BinOp); ok {
					ad := descAddr(st.Addr)
					for _, o := range []ssa.Value{bo.X, bo.Y} {
						if descVal(o) != ad {
							continue
						}
						// accepted when a call that (re)initialises the receiver dominates the update
						reset := false
						for _, bb := range f.Blocks {
							for _, in2 := range bb.Instrs {
								ci, ok := in2.(ssa.CallInstruction)
								if !ok || !instrDominates(in2, in) {
									continue
								}
								cal := ci.Common().StaticCallee()
								if cal == nil || !inlinable(cal) || len(ci.Common().Args) == 0 {
									continue
								}
								if sharedRoot(f, ci.Common().Args[0]) != "param#0" {
									continue
								}
								for _, w := range p.Mod().of(cal) {
									if w.Root == "param#0" {
										reset = true
									}
								}
							}
						}
						if !reset {
							rmw = append(rmw, fmt.Sprintf("%s: %s %s= …", p.pos(st.Pos()), ad, bo.Op))
						}
					}
				}
			}
		}
		if len(rmw) > 0 {
			c.bad("C11.overwrite", fname(f)+": decoded value replaces, not combines with, old contents", strings.Join(rmw, "; "), p.fnPos(f))
		} else {
			c.ok("C11.overwrite", fname(f)+": decoded value replaces, not combines with, old contents", "no read-modify-write of receiver memory", p.fnPos(f))
		}
		// (b) every receiver field that is assigned somewhere is assigned on every path to every accepting exit
		// (forward must-analysis; an in-place write through the field's pointer counts as assigning it)
		assignsIn := map[int]map[string]bool{}
		fields := map[string]bool{}
		note := func(b int, name string) {
			if assignsIn[b] == nil {
				assignsIn[b] = map[string]bool{}
			}
			assignsIn[b][name] = true
			fields[name] = true
		}
		for _, b := range f.Blocks {
			for _, in := range b.Instrs {
				switch x := in.(type) {
				case *ssa.Store:
					if fa, ok := x.Addr.(*ssa.FieldAddr); ok {
						if par, ok := fa.X.(*ssa.Parameter); ok && par == f.Params[0] {
							note(b.Index, fieldName(fa))
						}
					}
				case ssa.CallInstruction:
					c0 := x.Common()
					var args []ssa.Value
					if c0.IsInvoke() {
						args = append(args, c0.Value)
					}
					args = append(args, c0.Args...)
					for _, i := range externalWrites(p.staticCalleeName(c0), len(args)) {
						if i < len(args) {
							d := descVal(args[i])
							if strings.HasPrefix(d, "param#0.") && !strings.ContainsAny(d[len("param#0."):], ".[") {
								note(b.Index, d[len("param#0."):])
							}
						}
					}
				}
			}
		}
		// must-assigned at block exit
		all := map[string]bool{}
		for k := range fields {
			all[k] = true
		}
		out := make([]map[string]bool, len(f.Blocks))
		for i := range out {
			out[i] = all // optimistic start, refined below
		}
		changed := true
		for changed {
			changed = false
			for _, b := range f.Blocks {
				in := map[string]bool{}
				if len(b.Preds) > 0 {
					for k := range all {
						ok := true
						for _, pr := range b.Preds {
							if !out[pr.Index][k] {
								ok = false
							}
						}
						if ok {
							in[k] = true
						}
					}
				}
				for k := range assignsIn[b.Index] {
					in[k] = true
				}
				if len(in) != len(out[b.Index]) {
					out[b.Index] = in
					changed = true
				}
			}
		}
		succ := succAuto(f)
		r := runGuard(&GuardQuery{P: p, Root: f, MaxDepth: 1})
		var stale []string
		for _, ri := range r.Returns {
			if !succ.may(ri.Vals) {
				continue
			}
			for name := range fields {
				if !out[ri.Instr.Block().Index][name] {
					stale = append(stale, fmt.Sprintf("field %s not assigned on some path to the accepting exit at %s", name, p.pos(ri.Instr.Pos())))
				}
			}
		}
		sort.Strings(stale)
		if len(stale) > 0 {
			c.bad("C11.overwrite", fname(f)+": every decoded field is assigned on every accepting path", strings.Join(stale, "; "), p.fnPos(f))
		} else {
			c.ok("C11.overwrite", fname(f)+": every decoded field is assigned on every accepting path", fmt.Sprintf("%d field(s)", len(fields)), p.fnPos(f))
		}
	}
}

var c11DecoderName = regexp.MustCompile(`^(Unmarshal|Unpack|Import|SetBytes|FromBytes)`)

// checkC11Fresh: a decoder writes through a pointer stored in a field of its receiver only after it
// has assigned that field itself (on every path): otherwise the write lands in an object that may be
// shared with other values (e.g. the expanded public key a private key keeps a pointer to).
func checkC11Fresh(c *Ctx, p *Program) {
	n := 0
	var fs []*ssa.Function
	for f := range p.AllFuncs {
		if f.Blocks != nil && isCirclFunc(f) && f.Signature.Recv() != nil && c11DecoderName.MatchString(f.Name()) && len(f.Params) > 0 && f.Synthetic == "" {
			fs = append(fs, f)
		}
	}
	sort.Slice(fs, func(i, j int) bool { return fs[i].String() < fs[j].String() })
	for _, f := range fs {
		lc := newLenCtx(p, f)
		for _, b := range f.Blocks {
			for _, in := range b.Instrs {
				ci, ok := in.(ssa.CallInstruction)
				if !ok {
					continue
				}
				cc := ci.Common()
				cal := cc.StaticCallee()
				if cal == nil || !inlinable(cal) {
					continue
				}
				for i, a := range cc.Args {
					ld, ok := a.(*ssa.UnOp)
					if !ok || ld.Op != token.MUL {
						continue
					}
					fa, ok := ld.X.(*ssa.FieldAddr)
					if !ok || paramRoot(f, fa.X) != 0 {
						continue
					}
					if _, isPtr := ld.Type().Underlying().(*types.Pointer); !isPtr {
						continue
					}
					writes := false
					for _, w := range p.Mod().of(cal) {
						if w.Root == fmt.Sprintf("param#%d", i) {
							writes = true
						}
					}
					if !writes {
						continue
					}
					n++
					construct := fmt.Sprintf("%s: %s writes through %s", fname(f), fname(cal), descVal(a))
					if lc.forwarded(ld) != nil {
						c.ok("C11.fresh", construct, "the field is assigned by this decoder on every path before the write", p.pos(in.Pos()))
					} else {
						c.bad("C11.fresh", construct, "the pointer was not (unconditionally) assigned by this decoder: the write may land in an object shared with another value", p.pos(in.Pos()))
					}
				}
			}
		}
	}
	c.count("decoder_pointer_writes", n)
	if n < 25 {
		c.undecided("C11.fresh", "decoders writing through receiver pointer fields", fmt.Sprintf("only %d sites found (floor 25)", n), "")
	}
}
