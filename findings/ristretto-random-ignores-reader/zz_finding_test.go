package group_test

// The random generators of a group take their randomness from the reader they are given: two calls
// with identical readers return the same value (as they do for P-256/P-384/P-521).
// Copy to group/ and run: go test -run TestFindingRistrettoReader ./group/

import (
	"bytes"
	"testing"

	"github.com/cloudflare/circl/group"
)

func TestFindingRistrettoReader(t *testing.T) {
	for _, g := range []group.Group{group.P256, group.Ristretto255} {
		seed := bytes.Repeat([]byte{0x5a}, 256)
		s1 := g.RandomScalar(bytes.NewReader(seed))
		s2 := g.RandomScalar(bytes.NewReader(seed))
		if !s1.IsEqual(s2) {
			t.Errorf("%v: RandomScalar ignores its reader (two identical readers, different scalars)", g)
		}
		n1 := g.RandomNonZeroScalar(bytes.NewReader(seed))
		n2 := g.RandomNonZeroScalar(bytes.NewReader(seed))
		if !n1.IsEqual(n2) {
			t.Errorf("%v: RandomNonZeroScalar ignores its reader", g)
		}
		e1 := g.RandomElement(bytes.NewReader(seed))
		e2 := g.RandomElement(bytes.NewReader(seed))
		if !e1.IsEqual(e2) {
			t.Errorf("%v: RandomElement ignores its reader", g)
		}
	}
}
