package main

// ARITH lints (confined to exact-arithmetic packages).

import (
	"fmt"
	"go/token"
	"go/types"
	"sort"
	"strings"

	"golang.org/x/tools/go/ssa"
)

func isFloat(t types.Type) bool {
	b, ok := t.Underlying().(*types.Basic)
	return ok && b.Info()&(types.IsFloat|types.IsComplex) != 0
}

// noFloat: no floating-point value is computed anywhere in the given packages.
func (c *Ctx) noFloat(p *Program, rule string, pkgs ...string) {
	for _, pkg := range pkgs {
		path := circlPath + "/" + pkg
		sp := p.SSAPkg[path]
		if sp == nil {
			c.undecided(rule, pkg+": no floating point", "package does not resolve", "")
			continue
		}
		var hits []string
		nf := 0
		for f := range p.AllFuncs {
			if funcPkgPath(f) != path || f.Blocks == nil {
				continue
			}
			nf++
			for _, b := range f.Blocks {
				for _, in := range b.Instrs {
					v, ok := in.(ssa.Value)
					if !ok {
						continue
					}
					if isFloat(v.Type()) {
						hits = append(hits, fmt.Sprintf("%s in %s", p.pos(in.Pos()), fname(f)))
					}
					if cv, ok := in.(*ssa.Convert); ok && isFloat(cv.X.Type()) {
						hits = append(hits, fmt.Sprintf("%s in %s", p.pos(in.Pos()), fname(f)))
					}
				}
			}
		}
		c.count("arith_functions", nf)
		sort.Strings(hits)
		hits = uniq(hits)
		if len(hits) > 0 {
			c.bad(rule, pkg+": exact integer arithmetic only (no floating point)", "floating-point value at "+strings.Join(hits, ", "), "")
		} else {
			c.ok(rule, pkg+": exact integer arithmetic only (no floating point)", fmt.Sprintf("%d functions, no floating-point value", nf), "")
		}
	}
}

// divThenMul: in the given packages, the quotient of a truncating big.Int division is never an operand of a
// later big.Int multiplication (a/b*c loses the remainder).
func (c *Ctx) divThenMul(p *Program, rule string, pkgs ...string) {
	isBig := func(ci ssa.CallInstruction, names ...string) bool {
		n := p.staticCalleeName(ci.Common())
		for _, x := range names {
			if n == "(*math/big.Int)."+x {
				return true
			}
		}
		return false
	}
	for _, pkg := range pkgs {
		path := circlPath + "/" + pkg
		var hits []string
		ndiv := 0
		for f := range p.AllFuncs {
			if funcPkgPath(f) != path || f.Blocks == nil {
				continue
			}
			var divs, muls []ssa.CallInstruction
			for _, b := range f.Blocks {
				for _, in := range b.Instrs {
					if ci, ok := in.(ssa.CallInstruction); ok {
						if isBig(ci, "Div", "Quo") {
							divs = append(divs, ci)
						}
						if isBig(ci, "Mul") {
							muls = append(muls, ci)
						}
					}
				}
			}
			ndiv += len(divs)
			for _, d := range divs {
				q := addrRoot(d.Common().Args[0]) // receiver holds the quotient
				for _, m := range muls {
					if !instrDominates(d, m) {
						continue
					}
					for _, a := range m.Common().Args[1:] {
						if addrRoot(a) == q {
							hits = append(hits, fmt.Sprintf("%s: quotient of the division at %s is multiplied (in %s)", p.pos(m.Pos()), p.pos(d.Pos()), fname(f)))
						}
					}
				}
			}
		}
		sort.Strings(hits)
		if len(hits) > 0 {
			c.bad(rule, pkg+": no truncating division before multiplication", strings.Join(uniq(hits), "; "), "")
		} else {
			c.ok(rule, pkg+": no truncating division before multiplication", fmt.Sprintf("%d big.Int divisions inspected", ndiv), "")
		}
	}
}

// noFixedWidthProduct: no loop-carried multiplication in fixed-width integers (an accumulating product
// such as num *= i-j overflows for larger parameters) in the given functions' packages.
func (c *Ctx) noFixedWidthProduct(p *Program, rule string, pkgs ...string) {
	for _, pkg := range pkgs {
		path := circlPath + "/" + pkg
		var hits []string
		for f := range p.AllFuncs {
			if funcPkgPath(f) != path || f.Blocks == nil {
				continue
			}
			for _, b := range f.Blocks {
				for _, in := range b.Instrs {
					bo, ok := in.(*ssa.BinOp)
					if !ok || bo.Op != token.MUL {
						continue
					}
					bt, ok := bo.Type().Underlying().(*types.Basic)
					if !ok || bt.Info()&types.IsInteger == 0 {
						continue
					}
					for _, o := range []ssa.Value{bo.X, bo.Y} {
						if ph, ok := o.(*ssa.Phi); ok {
							for _, e := range ph.Edges {
								if e == ssa.Value(bo) {
									hits = append(hits, fmt.Sprintf("%s in %s", p.pos(bo.Pos()), fname(f)))
								}
							}
						}
					}
				}
			}
		}
		sort.Strings(hits)
		if len(hits) > 0 {
			c.bad(rule, pkg+": no accumulating product in fixed-width integers", strings.Join(uniq(hits), ", "), "")
		} else {
			c.ok(rule, pkg+": no accumulating product in fixed-width integers", "none found", "")
		}
	}
}
