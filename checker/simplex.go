package main

// Exact Farkas certificate search: g ≥ 0 follows from facts fⱼ ≥ 0 over the rationals iff there are
// λⱼ ≥ 0 with g - Σ λⱼ·fⱼ a non-negative constant. Decided by phase 1 of the simplex method over
// big.Rat with Bland's rule (terminates, exact).

import (
	"math/big"
	"sort"
)

func farkas(g lin, facts []lin, nonneg map[string]bool) bool {
	// atoms connected to the goal through shared atoms
	rel := map[string]bool{}
	for k := range g.t {
		rel[k] = true
	}
	used := make([]bool, len(facts))
	for changed := true; changed; {
		changed = false
		for i, f := range facts {
			if used[i] {
				continue
			}
			touch := len(f.t) == 0
			for k := range f.t {
				if rel[k] {
					touch = true
				}
			}
			if touch {
				used[i] = true
				changed = true
				for k := range f.t {
					rel[k] = true
				}
			}
		}
	}
	var atoms []string
	for k := range rel {
		atoms = append(atoms, k)
	}
	sort.Strings(atoms)
	idx := map[string]int{}
	for i, k := range atoms {
		idx[k] = i
	}
	seen := map[string]bool{}
	var fs []lin
	for i, f := range facts {
		if !used[i] || len(f.t) == 0 {
			continue
		}
		s := f.String()
		if seen[s] {
			continue
		}
		seen[s] = true
		fs = append(fs, f)
	}
	for _, k := range atoms {
		if nonneg[k] {
			fs = append(fs, atomLin(k))
		}
	}
	rows := len(atoms) + 1 // one equality per atom, one (slack) row for the constant
	m := len(fs)
	ncols := m + 1 + rows // λ, slack of the constant row, artificials
	zero := new(big.Rat)
	T := make([][]*big.Rat, rows+1)
	for i := range T {
		T[i] = make([]*big.Rat, ncols+1)
		for j := range T[i] {
			T[i][j] = new(big.Rat)
		}
	}
	for j, f := range fs {
		for k, a := range f.t {
			T[idx[k]][j].Set(a)
		}
		T[rows-1][j].Set(f.c)
	}
	T[rows-1][m].SetInt64(1) // Σ λⱼ·cⱼ + s = g.c
	for k, a := range g.t {
		T[idx[k]][ncols].Set(a)
	}
	T[rows-1][ncols].Set(g.c)
	basis := make([]int, rows)
	for i := 0; i < rows; i++ {
		if T[i][ncols].Sign() < 0 {
			for j := 0; j <= ncols; j++ {
				T[i][j].Neg(T[i][j])
			}
		}
		T[i][m+1+i].SetInt64(1)
		basis[i] = m + 1 + i
	}
	// objective: minimise the sum of the artificials; reduced costs in row `rows`
	obj := T[rows]
	for i := 0; i < rows; i++ {
		for j := 0; j <= ncols; j++ {
			if j >= m+1 && j < ncols {
				continue
			}
			obj[j].Sub(obj[j], T[i][j])
		}
	}
	tmp := new(big.Rat)
	for iter := 0; iter < 2000; iter++ {
		col := -1
		for j := 0; j < ncols; j++ {
			if obj[j].Sign() < 0 {
				col = j
				break
			}
		}
		if col < 0 {
			break
		}
		row := -1
		var best *big.Rat
		for i := 0; i < rows; i++ {
			if T[i][col].Sign() <= 0 {
				continue
			}
			r := new(big.Rat).Quo(T[i][ncols], T[i][col])
			if row < 0 || r.Cmp(best) < 0 || (r.Cmp(best) == 0 && basis[i] < basis[row]) {
				row, best = i, r
			}
		}
		if row < 0 {
			return false // unbounded cannot happen in phase 1; be conservative
		}
		piv := new(big.Rat).Set(T[row][col])
		for j := 0; j <= ncols; j++ {
			T[row][j].Quo(T[row][j], piv)
		}
		for i := 0; i <= rows; i++ {
			if i == row || T[i][col].Sign() == 0 {
				continue
			}
			fac := new(big.Rat).Set(T[i][col])
			for j := 0; j <= ncols; j++ {
				if T[row][j].Sign() == 0 {
					continue
				}
				tmp.Mul(fac, T[row][j])
				T[i][j].Sub(T[i][j], tmp)
			}
		}
		basis[row] = col
	}
	// feasible iff the artificial objective reached zero: obj[ncols] = -w
	return obj[ncols].Cmp(zero) == 0
}
