package prio3

import (
	"testing"

	"github.com/cloudflare/circl/vdaf/prio3/count"
)

// The preparation state returned by PrepInit must not change when the caller
// reuses the InputShare object it was computed from (here: decodes the next
// report into it). For Count, Histogram and MultihotCountVec the output share
// kept in the state was a slice of the input share's measurement share.
func TestFindingOutShareAliasesInputShare(t *testing.T) {
	c, err := count.New(2, Context)
	if err != nil {
		t.Fatal(err)
	}
	params := c.Params()
	var nonce count.Nonce
	var verifyKey count.VerifyKey
	rnd1, rnd2 := make([]byte, params.RandSize()), make([]byte, params.RandSize())
	for i := range rnd1 {
		rnd1[i], rnd2[i] = byte(5*i+11), byte(7*i+3)
	}
	pub1, shares1, err := c.Shard(true, &nonce, rnd1)
	if err != nil {
		t.Fatal(err)
	}
	_, shares2, err := c.Shard(false, &nonce, rnd2)
	if err != nil {
		t.Fatal(err)
	}

	// The leader decodes every report into one receiver object.
	var recv count.InputShare
	recv.New(&params, 0)
	enc1, _ := shares1[0].MarshalBinary()
	if err = recv.UnmarshalBinary(enc1); err != nil {
		t.Fatal(err)
	}
	st0, ps0, err := c.PrepInit(&verifyKey, &nonce, 0, pub1, recv)
	if err != nil {
		t.Fatal(err)
	}
	st1, ps1, err := c.PrepInit(&verifyKey, &nonce, 1, pub1, shares1[1])
	if err != nil {
		t.Fatal(err)
	}
	// The next report arrives before the first one is finished.
	enc2, _ := shares2[0].MarshalBinary()
	if err = recv.UnmarshalBinary(enc2); err != nil {
		t.Fatal(err)
	}

	msg, err := c.PrepSharesToPrep([]count.PrepShare{*ps0, *ps1})
	if err != nil {
		t.Fatal(err)
	}
	aggShares := make([]count.AggShare, 2)
	for i, st := range []*count.PrepState{st0, st1} {
		out, errx := c.PrepNext(st, msg)
		if errx != nil {
			t.Fatal(errx)
		}
		aggShares[i] = c.AggregateInit()
		c.AggregateUpdate(&aggShares[i], out)
	}
	got, err := c.Unshard(aggShares, 1)
	if err != nil {
		t.Fatal(err)
	}
	if *got != 1 {
		t.Errorf("the aggregate of the single measurement `true` is %d after the leader's input-share object was reused", *got)
	}
}
