package main

import (
	"fmt"
	"sort"
	"strings"

	"golang.org/x/tools/go/ssa"
)

// RETSHARE: two slices returned by one call do not lie in one allocation with the first able to grow into the
// second.
//
// `buf := make([]byte, n+m); return buf[:n], buf[n:]` hands out two results of which the first has the second
// in its spare capacity: `append(first, ...)` by the caller - the idiom of every combiner in the library -
// silently overwrites the second result. Reported when two results of a function are slices of the same
// make / array allocation of that function and a result other than the last-positioned one is cut without a
// capacity limit (a two-index slice expression).
func checkRetShare(c *Ctx, p *Program, rule string, prefixes []string) {
	var fs []*ssa.Function
	for f := range p.AllFuncs {
		if f.Blocks != nil && isCirclFunc(f) && sourceFunc(f) && !strings.Contains(funcPkgPath(f), "/internal/test") && (prefixes == nil || inScope(f, prefixes)) && f.Signature.Results().Len() >= 2 {
			fs = append(fs, f)
		}
	}
	sort.Slice(fs, func(i, j int) bool { return fs[i].String() < fs[j].String() })
	n, nbad := 0, 0
	for _, f := range fs {
		for _, b := range f.Blocks {
			ret, ok := b.Instrs[len(b.Instrs)-1].(*ssa.Return)
			if !ok {
				continue
			}
			type res struct {
				idx   int
				base  ssa.Value
				open  bool // cut without a capacity limit
				slice *ssa.Slice
			}
			var rs []res
			for i, v := range ret.Results {
				if !sliceLike(v.Type()) {
					continue
				}
				sl, ok := v.(*ssa.Slice)
				if !ok {
					continue
				}
				base, _ := memRoot(sl.X)
				switch base.(type) {
				case *ssa.MakeSlice, *ssa.Alloc:
					rs = append(rs, res{i, base, sl.Max == nil, sl})
				}
			}
			for i := 0; i < len(rs); i++ {
				for j := i + 1; j < len(rs); j++ {
					if rs[i].base != rs[j].base {
						continue
					}
					n++
					// the one that starts lower can grow into the other: which one that is is a question of
					// the bounds; a constant-zero or absent low bound is the common form
					for _, pair := range [][2]res{{rs[i], rs[j]}, {rs[j], rs[i]}} {
						lo := pair[0]
						if !lo.open {
							continue
						}
						if lo.slice.Low != nil {
							if k, ok := lo.slice.Low.(*ssa.Const); !ok || k.Value == nil || k.Value.ExactString() != "0" {
								continue
							}
						}
						nbad++
						c.bad(rule, fmt.Sprintf("%s: results %d and %d do not share one allocation with spare capacity between them", fname(f), lo.idx, pair[1].idx), fmt.Sprintf("both are slices of the allocation at %s and result %d is cut without a capacity limit at %s: appending to it overwrites result %d", p.pos(lo.base.Pos()), lo.idx, p.pos(lo.slice.Pos()), pair[1].idx), p.pos(ret.Pos()))
					}
				}
			}
		}
	}
	c.count("multi_slice_returns", len(fs))
	if nbad == 0 {
		c.ok(rule, "no function returns two slices of one allocation of which the first can grow into the second", fmt.Sprintf("%d functions with two or more results, %d pairs in one allocation", len(fs), n), "")
	}
}

func init() {
	for prop, pres := range map[string][]string{"C01": {"kem", "hpke", "pke"}, "C11": nil} {
		prop, pres := prop, pres
		prev := registry[prop]
		registry[prop] = func(c *Ctx) {
			prev(c)
			if p := c.Prog("amd64"); p != nil {
				c.Clauses = append(c.Clauses, prop+".retshare: no function returns two slices of one allocation of which the first, cut without a capacity limit, can grow into the second")
				checkRetShare(c, p, prop+".retshare", pres)
			}
		}
	}
}

// FRESHSTATE: the output share kept in a Prio3 preparation state is an allocation of PrepInit itself.
//
// flp.Truncate is an interface method; three of its five implementations return a slice of their argument
// (the measurement share inside the caller's InputShare). Whatever PrepInit stores into PrepState.outShare
// therefore has to be a vector it allocated (make / arith.NewVec) and copied into, not the result of a call
// that was handed the input share.
func checkPrepStateFresh(c *Ctx, p *Program, rule string) {
	f := p.Func("vdaf/prio3/internal/prio3", "Prio3", "PrepInit")
	what := "(*prio3.Prio3).PrepInit: the output share stored in the preparation state is a vector allocated by PrepInit"
	if f == nil {
		c.undecided(rule, what, "anchor does not resolve", "")
		return
	}
	n := 0
	var bad []string
	for _, b := range f.Blocks {
		for _, in := range b.Instrs {
			st, ok := in.(*ssa.Store)
			if !ok {
				continue
			}
			fa, ok := st.Addr.(*ssa.FieldAddr)
			if !ok || fieldName(fa) != "outShare" {
				continue
			}
			n++
			base, _ := memRoot(st.Val)
			fresh := false
			switch x := base.(type) {
			case *ssa.MakeSlice:
				fresh = true
			case *ssa.Call:
				name := p.staticCalleeName(&x.Call)
				fresh = strings.Contains(name, "arith.NewVec")
			}
			if !fresh {
				bad = append(bad, fmt.Sprintf("%s: the stored value is %s", p.pos(st.Pos()), descVal(st.Val)))
			}
		}
	}
	switch {
	case n == 0:
		c.undecided(rule, what, "no assignment of outShare found", p.fnPos(f))
	case len(bad) > 0:
		c.bad(rule, what, strings.Join(bad, "; ")+": the result of a call that was handed the input share may be a slice of it (Count, Histogram and MultihotCountVec truncate by slicing), so reusing the InputShare object changes the state", p.fnPos(f))
	default:
		c.ok(rule, what, fmt.Sprintf("%d assignment(s), each of a make / arith.NewVec result", n), p.fnPos(f))
	}
}

func init() {
	for _, prop := range []string{"C11", "C19"} {
		prop := prop
		prev := registry[prop]
		registry[prop] = func(c *Ctx) {
			prev(c)
			if p := c.Prog("amd64"); p != nil {
				c.Clauses = append(c.Clauses, prop+".freshstate: the output share stored in a Prio3 preparation state is allocated by PrepInit (it does not alias the caller's input share)")
				checkPrepStateFresh(c, p, prop+".freshstate")
			}
		}
	}
}
