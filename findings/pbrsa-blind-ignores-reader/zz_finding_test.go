package partiallyblindrsa

import (
	"bytes"
	"crypto"
	"crypto/rsa"
	"math/big"
	"testing"

)

type ctrReader struct{ n byte }

func (r *ctrReader) Read(b []byte) (int, error) {
	for i := range b {
		r.n++
		b[i] = r.n
	}
	return len(b), nil
}

// With the same reader contents Blind must produce the same blinded message:
// every random value it uses has to come from the reader the caller passed.
func TestFindingBlindUsesReader(t *testing.T) {
	p, _ := new(big.Int).SetString("dcd90af1be463632c0d5ea555256a20605af3db667475e190e3af12a34a3324c46a3094062c59fb4b249e0ee6afba8bee14e0276d126c99f4784b23009bf6168ff628ac1486e5ae8e23ce4d362889de4df63109cbd90ef93db5ae64372bfe1c55f832766f21e94ea3322eb2182f10a891546536ba907ad74b8d72469bea396f3", 16)
	q, _ := new(big.Int).SetString("f8ba5c89bd068f57234a3cf54a1c89d5b4cd0194f2633ca7c60b91a795a56fa8c8686c0e37b1c4498b851e3420d08bea29f71d195cfbd3671c6ddc49cf4c1db5b478231ea9d91377ffa98fe95685fca20ba4623212b2f2def4da5b281ed0100b651f6db32112e4017d831c0da668768afa7141d45bbc279f1e0f8735d74395b3", 16)
	n := new(big.Int).Mul(p, q)
	pk := &rsa.PublicKey{N: n, E: 65537}
	v := NewVerifier(pk, crypto.SHA384)
	msg, md := []byte("message"), []byte("metadata")
	b1, _, err := v.Blind(&ctrReader{}, msg, md)
	if err != nil {
		t.Fatal(err)
	}
	b2, _, err := v.Blind(&ctrReader{}, msg, md)
	if err != nil {
		t.Fatal(err)
	}
	if !bytes.Equal(b1, b2) {
		t.Fatal("Blind gave two different blinded messages for the same reader contents: part of its randomness does not come from the reader")
	}
}
