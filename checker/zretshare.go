package main

import (
	"fmt"
	"sort"
	"strings"

	"golang.org/x/tools/go/ssa"
)

// RETSHARE: two slices returned by one call do not lie in one allocation with the first able to grow into the
// second.
//
// `buf := make([]byte, n+m); return buf[:n], buf[n:]` hands out two results of which the first has the second
// in its spare capacity: `append(first, ...)` by the caller - the idiom of every combiner in the library -
// silently overwrites the second result. Reported when two results of a function are slices of the same
// make / array allocation of that function and a result other than the last-positioned one is cut without a
// capacity limit (a two-index slice expression).
func checkRetShare(c *Ctx, p *Program, rule string, prefixes []string) {
	var fs []*ssa.Function
	for f := range p.AllFuncs {
		if f.Blocks != nil && isCirclFunc(f) && sourceFunc(f) && !strings.Contains(funcPkgPath(f), "/internal/test") && (prefixes == nil || inScope(f, prefixes)) && f.Signature.Results().Len() >= 2 {
			fs = append(fs, f)
		}
	}
	sort.Slice(fs, func(i, j int) bool { return fs[i].String() < fs[j].String() })
	n, nbad := 0, 0
	for _, f := range fs {
		for _, b := range f.Blocks {
			ret, ok := b.Instrs[len(b.Instrs)-1].(*ssa.Return)
			if !ok {
				continue
			}
			type res struct {
				idx   int
				base  ssa.Value
				open  bool // cut without a capacity limit
				slice *ssa.Slice
			}
			var rs []res
			for i, v := range ret.Results {
				if !sliceLike(v.Type()) {
					continue
				}
				sl, ok := v.(*ssa.Slice)
				if !ok {
					continue
				}
				base, _ := memRoot(sl.X)
				switch base.(type) {
				case *ssa.MakeSlice, *ssa.Alloc:
					rs = append(rs, res{i, base, sl.Max == nil, sl})
				}
			}
			for i := 0; i < len(rs); i++ {
				for j := i + 1; j < len(rs); j++ {
					if rs[i].base != rs[j].base {
						continue
					}
					n++
					// the one that starts lower can grow into the other: which one that is is a question of
					// the bounds; a constant-zero or absent low bound is the common form
					for _, pair := range [][2]res{{rs[i], rs[j]}, {rs[j], rs[i]}} {
						lo := pair[0]
						if !lo.open {
							continue
						}
						if lo.slice.Low != nil {
							if k, ok := lo.slice.Low.(*ssa.Const); !ok || k.Value == nil || k.Value.ExactString() != "0" {
								continue
							}
						}
						nbad++
						c.bad(rule, fmt.Sprintf("%s: results %d and %d do not share one allocation with spare capacity between them", fname(f), lo.idx, pair[1].idx), fmt.Sprintf("both are slices of the allocation at %s and result %d is cut without a capacity limit at %s: appending to it overwrites result %d", p.pos(lo.base.Pos()), lo.idx, p.pos(lo.slice.Pos()), pair[1].idx), p.pos(ret.Pos()))
					}
				}
			}
		}
	}
	c.count("multi_slice_returns", len(fs))
	if nbad == 0 {
		c.ok(rule, "no function returns two slices of one allocation of which the first can grow into the second", fmt.Sprintf("%d functions with two or more results, %d pairs in one allocation", len(fs), n), "")
	}
}

func init() {
	for prop, pres := range map[string][]string{"C01": {"kem", "hpke", "pke"}, "C11": nil} {
		prop, pres := prop, pres
		prev := registry[prop]
		registry[prop] = func(c *Ctx) {
			prev(c)
			if p := c.Prog("amd64"); p != nil {
				c.Clauses = append(c.Clauses, prop+".retshare: no function returns two slices of one allocation of which the first, cut without a capacity limit, can grow into the second")
				checkRetShare(c, p, prop+".retshare", pres)
			}
		}
	}
}
