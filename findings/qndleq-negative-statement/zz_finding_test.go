package qndleq_test

import (
	"crypto/rand"
	"math/big"
	"testing"

	"github.com/cloudflare/circl/zk/qndleq"
)

// Replacing a statement element by its negative is an alteration of the
// statement; the proof must no longer verify.
func TestFindingNegativeStatement(t *testing.T) {
	p, _ := new(big.Int).SetString("dcd90af1be463632c0d5ea555256a20605af3db667475e190e3af12a34a3324c46a3094062c59fb4b249e0ee6afba8bee14e0276d126c99f4784b23009bf6168ff628ac1486e5ae8e23ce4d362889de4df63109cbd90ef93db5ae64372bfe1c55f832766f21e94ea3322eb2182f10a891546536ba907ad74b8d72469bea396f3", 16)
	q, _ := new(big.Int).SetString("f8ba5c89bd068f57234a3cf54a1c89d5b4cd0194f2633ca7c60b91a795a56fa8c8686c0e37b1c4498b851e3420d08bea29f71d195cfbd3671c6ddc49cf4c1db5b478231ea9d91377ffa98fe95685fca20ba4623212b2f2def4da5b281ed0100b651f6db32112e4017d831c0da668768afa7141d45bbc279f1e0f8735d74395b3", 16)
	N := new(big.Int).Mul(p, q)
	accepted := 0
	for i := 0; i < 16; i++ {
		x, _ := rand.Int(rand.Reader, N)
		g, _ := qndleq.SampleQn(rand.Reader, N)
		h, _ := qndleq.SampleQn(rand.Reader, N)
		gx := new(big.Int).Exp(g, x, N)
		hx := new(big.Int).Exp(h, x, N)
		proof, err := qndleq.Prove(rand.Reader, x, g, gx, h, hx, N, 128)
		if err != nil {
			t.Fatal(err)
		}
		if !proof.Verify(g, gx, h, hx, N) {
			t.Fatal("honest proof rejected")
		}
		if proof.Verify(g, new(big.Int).Neg(gx), h, hx, N) {
			accepted++
		}
		if proof.Verify(g, gx, h, new(big.Int).Neg(hx), N) {
			accepted++
		}
	}
	if accepted != 0 {
		t.Fatalf("%d of 32 proofs verified for a statement in which one element was replaced by its negative", accepted)
	}
}
